(* ReaderSMLemmas.v -- the GeffReader state machine (ReaderSM.v): what every reachable object holds,
   what every build returns, builds are pure, reads are idempotent and commute, failing calls. *)
From Geff Require Import Base Dtype DtypeLemmas Vlen VlenLemmas Tree TreeLemmas Validate Write Read RoundTrip
     WriteLemmas ReadLemmas ReadMaskLemmas ReaderSM.
From Geff.Gen Require Import Consts.
Open Scope string_scope.
Open Scope list_scope.

(* ---------- association lists ---------- *)
Lemma aset_same {V} k (v : V) l : alookup k l = Some v -> aset k v l = l.
Proof. induction l as [|[k' v'] r IH]; cbn; [discriminate|].
  destruct (String.eqb k k') eqn:E; intro H.
  - apply String.eqb_eq in E. inversion H; subst. reflexivity.
  - rewrite IH; auto. Qed.

Lemma smem_akeys {V} k (l : list (string * V)) : smem k (akeys l) = ahas k l.
Proof. destruct (ahas k l) eqn:E.
  - apply smem_In. apply ahas_in. exact E.
  - destruct (smem k (akeys l)) eqn:E2; [|reflexivity]. apply smem_In in E2. apply ahas_in in E2. congruence. Qed.

Lemma akeys_aset {V} k (v : V) l : akeys (aset k v l) = add_name (akeys l) k.
Proof. unfold add_name. rewrite smem_akeys. unfold akeys, ahas.
  induction l as [|[k' v'] r IH]; cbn [aset alookup map fst app]; [reflexivity|].
  destruct (String.eqb k k') eqn:E; cbn [map fst].
  - apply String.eqb_eq in E. subst. reflexivity.
  - rewrite IH. destruct (alookup k r); reflexivity. Qed.

Lemma aset_Forall {V} (P : string * V -> Prop) k v l : Forall P l -> P (k, v) -> Forall P (aset k v l).
Proof. intros Hl Hp. induction l as [|[k' v'] r IH]; cbn; [constructor; auto|].
  apply Forall_cons_iff in Hl. destruct Hl as [Hx Hr].
  destruct (String.eqb k k'); constructor; auto. Qed.

Lemma nodup_snoc {A} (l : list A) x : NoDup l -> ~ In x l -> NoDup (l ++ [x]).
Proof. induction l as [|y r IH]; intros Hnd Hn; cbn; [constructor; [intros []|constructor]|].
  inversion Hnd as [|? ? Hy Hr]; subst. constructor.
  - intro Hin. apply in_app_or in Hin. destruct Hin as [Hin|[Heq|[]]]; [contradiction|]. subst. apply Hn. left. reflexivity.
  - apply IH; auto. intro Hin. apply Hn. right. exact Hin. Qed.

Lemma add_name_nodup acc n : NoDup acc -> NoDup (add_name acc n).
Proof. intro H. unfold add_name. destruct (smem n acc) eqn:E; [exact H|].
  apply nodup_snoc; auto. intro Hin. apply smem_In in Hin. congruence. Qed.

(* ---------- _read_prop ---------- *)
Lemma read_prop_h_ok root grp n zp : read_prop_h root grp n = Ok zp <-> read_prop root grp n = Ok zp.
Proof. unfold read_prop_h, read_prop. destruct (get_path root [grp; path_PROPS; n]); [tauto|]. split; discriminate. Qed.

Lemma hget_some root grp k zp : hget root grp k = Some zp <-> read_prop_h root grp k = Ok zp.
Proof. unfold hget. destruct (read_prop_h root grp k); split; intro H; inversion H; reflexivity. Qed.

Lemma ok_prefix_hget root grp names k : In k (ok_prefix root grp names) -> exists zp, read_prop_h root grp k = Ok zp.
Proof. induction names as [|n r IH]; cbn; [intros []|].
  destruct (read_prop_h root grp n) as [zp|e] eqn:E; cbn; [|intros []].
  intros [<-|H]; eauto. Qed.

(* a handle dictionary that holds, for distinct names, what _read_prop returns for the name *)
Definition hinv (root : znode) (grp : string) (h : handles) : Prop :=
  NoDup (akeys h) /\ Forall (fun kv => read_prop_h root grp (fst kv) = Ok (snd kv)) h.

Lemma hinv_nil root grp : hinv root grp [].
Proof. split; constructor. Qed.

Lemma hinv_lookup root grp h k zp : hinv root grp h -> alookup k h = Some zp -> read_prop_h root grp k = Ok zp.
Proof. intros [_ HF] H. apply alookup_some_in in H. rewrite Forall_forall in HF. apply (HF _ H). Qed.

(* ---------- read_*_props: the loop ---------- *)
Lemma read_loop_spec root grp : forall names h,
  let h' := fst (read_loop root grp names h) in
  akeys h' = fold_left add_name (ok_prefix root grp names) (akeys h) /\
  (forall k, alookup k h' = if smem k (ok_prefix root grp names) then hget root grp k else alookup k h) /\
  (hinv root grp h -> hinv root grp h').
Proof.
  induction names as [|n r IH]; intros h; cbn [read_loop ok_prefix].
  - cbn. split; [reflexivity|]. split; [reflexivity|]. auto.
  - destruct (read_prop_h root grp n) as [zp|e] eqn:E; cbn [is_ok].
    + destruct (IH (aset n zp h)) as [Hk [Hl Hi]]. cbn zeta in *. split; [|split].
      * rewrite Hk, akeys_aset. reflexivity.
      * intro k. rewrite Hl. cbn [smem existsb]. fold (smem k (ok_prefix root grp r)).
        destruct (smem k (ok_prefix root grp r)); [rewrite orb_true_r; reflexivity|]. rewrite orb_false_r.
        destruct (String.eqb k n) eqn:Ek.
        -- apply String.eqb_eq in Ek. subst. rewrite alookup_aset_same. unfold hget. rewrite E. reflexivity.
        -- apply alookup_aset_other. intro; subst. rewrite seqb_refl in Ek. discriminate.
      * intros [Hnd HF]. apply Hi. split.
        -- rewrite akeys_aset. apply add_name_nodup. exact Hnd.
        -- apply aset_Forall; auto.
    + cbn. split; [reflexivity|]. split; [reflexivity|]. auto.
Qed.

(* the outcome of the loop: Ok exactly when every name can be opened; otherwise the error of the first that cannot *)
Lemma read_loop_res root grp : forall names h,
  snd (read_loop root grp names h) =
  match mapM (read_prop_h root grp) names with Ok _ => Ok tt | Err e => Err e end.
Proof. induction names as [|n r IH]; intros h; cbn [read_loop mapM]; [reflexivity|].
  destruct (read_prop_h root grp n) as [zp|e]; [|reflexivity]. rewrite IH.
  destruct (mapM (read_prop_h root grp) r); reflexivity. Qed.

Lemma ok_prefix_all root grp names : is_ok (mapM (read_prop_h root grp) names) = true -> ok_prefix root grp names = names.
Proof. induction names as [|n r IH]; cbn; [reflexivity|].
  destruct (read_prop_h root grp n); cbn; [|discriminate].
  destruct (mapM (read_prop_h root grp) r); cbn in *; [|discriminate]. intros _. rewrite IH; reflexivity. Qed.

(* a failing loop stopped at the first name that cannot be opened; what it stored is the loop over the names in front *)
Lemma read_loop_err root grp : forall names h e,
  snd (read_loop root grp names h) = Err e ->
  exists pre bad post, names = pre ++ bad :: post /\ read_prop_h root grp bad = Err e /\
    ok_prefix root grp names = pre /\
    read_loop root grp pre h = (fst (read_loop root grp names h), Ok tt).
Proof. induction names as [|n r IH]; intros h e; cbn [read_loop ok_prefix]; [discriminate|].
  destruct (read_prop_h root grp n) as [zp|e0] eqn:E; cbn [is_ok snd fst].
  - intro H. destruct (IH _ _ H) as [pre [bad [post [Hn [Hb [Hp Hl]]]]]].
    exists (n :: pre), bad, post. repeat split.
    + rewrite Hn. reflexivity.
    + exact Hb.
    + rewrite Hp. reflexivity.
    + cbn [read_loop]. rewrite E. exact Hl.
  - intro H. inversion H; subst e0. exists [], n, r. repeat split; auto. Qed.

Lemma read_loop_ok_surj root grp names h : snd (read_loop root grp names h) = Ok tt ->
  ok_prefix root grp names = names.
Proof. rewrite read_loop_res. intro H. apply ok_prefix_all.
  destruct (mapM (read_prop_h root grp) names); [reflexivity | discriminate]. Qed.

(* reading the same names again changes nothing *)
Lemma read_loop_idem root grp names h :
  read_loop root grp names (fst (read_loop root grp names h)) = read_loop root grp names h.
Proof.
  assert (Hgen : forall l h0, (forall k, In k (ok_prefix root grp l) -> alookup k h0 = hget root grp k) ->
                 fst (read_loop root grp l h0) = h0).
  { induction l as [|n r IHl]; intros h0 Hall; cbn [read_loop ok_prefix] in *; [reflexivity|].
    destruct (read_prop_h root grp n) as [zp|e] eqn:E; cbn [is_ok] in *; [|reflexivity].
    assert (Hn : alookup n h0 = Some zp).
    { rewrite (Hall n (or_introl eq_refl)). unfold hget. rewrite E. reflexivity. }
    rewrite (aset_same _ _ _ Hn). apply IHl. intros k Hk. apply Hall. right. exact Hk. }
  destruct (read_loop_spec root grp names h) as [_ [Hl _]]. cbn zeta in Hl.
  apply injective_projections.
  - rewrite Hgen; [reflexivity|]. intros k Hk. rewrite Hl.
    apply smem_In in Hk. rewrite Hk. reflexivity.
  - rewrite !read_loop_res. reflexivity.
Qed.

(* ---------- one call, many calls ---------- *)
Definition sinv (s : rstate) : Prop :=
  hinv (rd_root (rs_rd s)) path_NODES (rs_np s) /\ hinv (rd_root (rs_rd s)) path_EDGES (rs_ep s).

Lemma sinv_init rd : sinv (sm_init rd).
Proof. split; apply hinv_nil. Qed.

Lemma step_rd s o : rs_rd (fst (step s o)) = rs_rd s.
Proof. destruct o; reflexivity. Qed.

Lemma step_sinv s o : sinv s -> sinv (fst (step s o)).
Proof. intros [Hn He]. destruct o as [names|names|nm em]; cbn [step fst rs_rd rs_np rs_ep]; unfold sinv; cbn [rs_rd rs_np rs_ep].
  - split; [|exact He]. apply read_loop_spec. exact Hn.
  - split; [exact Hn|]. apply read_loop_spec. exact He.
  - split; assumption. Qed.

Lemma final_cons s o r : final s (o :: r) = final (fst (step s o)) r.
Proof. reflexivity. Qed.
Lemma results_cons s o r : results s (o :: r) = snd (step s o) :: results (fst (step s o)) r.
Proof. reflexivity. Qed.

Lemma final_app s a : forall b, final s (a ++ b) = final (final s a) b.
Proof. revert s. induction a as [|o r IH]; intros s b; [reflexivity|].
  rewrite <- app_comm_cons, !final_cons. apply IH. Qed.
Lemma results_app s a : forall b, results s (a ++ b) = results s a ++ results (final s a) b.
Proof. revert s. induction a as [|o r IH]; intros s b; [reflexivity|].
  rewrite <- app_comm_cons, !results_cons, final_cons, IH. reflexivity. Qed.

Lemma final_rd s ops : rs_rd (final s ops) = rs_rd s.
Proof. revert s. induction ops as [|o r IH]; intros s; [reflexivity|]. rewrite final_cons, IH. apply step_rd. Qed.

Lemma final_sinv s ops : sinv s -> sinv (final s ops).
Proof. revert s. induction ops as [|o r IH]; intros s H; [exact H|]. rewrite final_cons. apply IH. apply step_sinv. exact H. Qed.

Lemma smem_app k a b : smem k (a ++ b) = smem k a || smem k b.
Proof. unfold smem. apply existsb_app. Qed.

(* what the object holds after ANY sequence of calls: the names requested so far (as far as each call got),
   each at the position of its first request, each with the handle _read_prop returns for it *)
Theorem final_held s ops :
  akeys (rs_np (final s ops)) = fold_left add_name (flat_map (nreq (rs_rd s)) ops) (akeys (rs_np s)) /\
  akeys (rs_ep (final s ops)) = fold_left add_name (flat_map (ereq (rs_rd s)) ops) (akeys (rs_ep s)) /\
  (forall k, alookup k (rs_np (final s ops)) =
             if smem k (flat_map (nreq (rs_rd s)) ops) then hget (rd_root (rs_rd s)) path_NODES k else alookup k (rs_np s)) /\
  (forall k, alookup k (rs_ep (final s ops)) =
             if smem k (flat_map (ereq (rs_rd s)) ops) then hget (rd_root (rs_rd s)) path_EDGES k else alookup k (rs_ep s)).
Proof.
  revert s. induction ops as [|o r IH]; intros s.
  - cbn. repeat split; reflexivity.
  - rewrite final_cons. destruct (IH (fst (step s o))) as [Hn [He [Hln Hle]]]. rewrite step_rd in *.
    cbn [flat_map]. rewrite !fold_left_app.
    destruct o as [names|names|nm em]; cbn [step fst rs_rd rs_np rs_ep nreq ereq app fold_left] in *.
    + destruct (read_loop_spec (rd_root (rs_rd s)) path_NODES (names_or names (rd_nnames (rs_rd s))) (rs_np s)) as [Hk [Hl _]].
      cbn zeta in *. split; [rewrite Hn, Hk; reflexivity|]. split; [exact He|]. split; [|exact Hle].
      intro k. rewrite Hln, Hl, smem_app.
      destruct (smem k (flat_map (nreq (rs_rd s)) r)); [rewrite orb_true_r; reflexivity|rewrite orb_false_r].
      match goal with |- context [smem k (ok_prefix ?a ?b ?c)] => destruct (smem k (ok_prefix a b c)) end; reflexivity.
    + destruct (read_loop_spec (rd_root (rs_rd s)) path_EDGES (names_or names (rd_enames (rs_rd s))) (rs_ep s)) as [Hk [Hl _]].
      cbn zeta in *. split; [exact Hn|]. split; [rewrite He, Hk; reflexivity|]. split; [exact Hln|].
      intro k. rewrite Hle, Hl, smem_app.
      destruct (smem k (flat_map (ereq (rs_rd s)) r)); [rewrite orb_true_r; reflexivity|rewrite orb_false_r].
      match goal with |- context [smem k (ok_prefix ?a ?b ?c)] => destruct (smem k (ok_prefix a b c)) end; reflexivity.
    + repeat split; assumption.
Qed.

(* from a fresh reader *)
Corollary reachable_held rd ops :
  let s := final (sm_init rd) ops in
  rs_rd s = rd /\
  akeys (rs_np s) = first_occ (flat_map (nreq rd) ops) /\
  akeys (rs_ep s) = first_occ (flat_map (ereq rd) ops) /\
  (forall k, alookup k (rs_np s) = if smem k (flat_map (nreq rd) ops) then hget (rd_root rd) path_NODES k else None) /\
  (forall k, alookup k (rs_ep s) = if smem k (flat_map (ereq rd) ops) then hget (rd_root rd) path_EDGES k else None) /\
  sinv s.
Proof. cbn zeta. destruct (final_held (sm_init rd) ops) as [Hn [He [Hln Hle]]]. cbn [sm_init rs_rd rs_np rs_ep akeys map] in *.
  split; [apply final_rd|]. split; [exact Hn|]. split; [exact He|]. split; [exact Hln|]. split; [exact Hle|].
  apply final_sinv. apply sinv_init. Qed.

(* ---------- build on the object = the one-shot build function on the names it holds ---------- *)
Lemma mapM_all_ok {A B} (f : A -> res B) l : (forall x, In x l -> exists y, f x = Ok y) -> exists r, mapM f l = Ok r.
Proof. induction l as [|x r IH]; intro H; cbn; [eauto|].
  destruct (H x (or_introl eq_refl)) as [y Hy]. rewrite Hy.
  destruct IH as [ys Hys]; [intros z Hz; apply H; right; exact Hz|]. rewrite Hys. eauto. Qed.

Lemma hinv_read_prop root grp h : hinv root grp h -> Forall (fun kv => read_prop root grp (fst kv) = Ok (snd kv)) h.
Proof. intros [_ HF]. eapply Forall_impl; [|exact HF]. intros kv H. apply read_prop_h_ok. exact H. Qed.

Lemma load_props_held root grp pmd m : forall h,
  Forall (fun kv => read_prop root grp (fst kv) = Ok (snd kv)) h ->
  load_props root grp (akeys h) pmd m = load_held h pmd m.
Proof. unfold load_props, load_held, akeys. induction h as [|[k zp] r IH]; intro HF; cbn [map mapM fst snd]; [reflexivity|].
  apply Forall_cons_iff in HF. destruct HF as [Hx Hr]. cbn [fst snd] in Hx. rewrite Hx. cbn [rbind].
  destruct (alookup k pmd) as [pm|]; [|reflexivity].
  destruct (load_prop zp m pm); cbn [rbind]; [|reflexivity]. rewrite (IH Hr). reflexivity. Qed.

Lemma mapM_read_held root grp h : Forall (fun kv => read_prop root grp (fst kv) = Ok (snd kv)) h ->
  exists r, mapM (read_prop root grp) (akeys h) = Ok r.
Proof. intro HF. apply mapM_all_ok. intros x Hx. unfold akeys in Hx. apply in_map_iff in Hx.
  destruct Hx as [kv [<- Hin]]. rewrite Forall_forall in HF. eauto. Qed.

Theorem build_held_build s nm em : sinv s ->
  build_held s nm em = build (rs_rd s) (Some (akeys (rs_np s))) (Some (akeys (rs_ep s))) nm em.
Proof. intros [Hn He]. apply hinv_read_prop in Hn. apply hinv_read_prop in He.
  unfold build, build_held.
  destruct (mapM_read_held _ _ _ Hn) as [rn Ern]. destruct (mapM_read_held _ _ _ He) as [re Ere].
  rewrite Ern, Ere. cbn [rbind].
  rewrite (load_props_held _ _ _ nm _ Hn).
  destruct (load_held (rs_np s) (md_nprops (rd_md (rs_rd s))) nm) as [nps|e]; cbn [rbind]; [|reflexivity].
  rewrite (load_props_held _ _ _ _ _ He). reflexivity. Qed.

(* C09_restrict in every state that satisfies the invariant (every reachable state does) *)
Theorem sm_build_restrict s nm em gfull : sinv s ->
  store_ok (rs_rd s) (akeys (rs_np s)) (akeys (rs_ep s)) ->
  build_held s None None = Ok gfull -> build_held s nm em = Ok (restrict gfull nm em).
Proof. intros Hs Hok H. rewrite build_held_build in * by exact Hs.
  exact (build_restrict _ (Some _) (Some _) nm em gfull Hok H). Qed.

(* C09_names in every such state *)
Theorem sm_build_names s nm em g : sinv s -> build_held s nm em = Ok g ->
  akeys (g_nprops g) = akeys (rs_np s) /\ akeys (g_eprops g) = akeys (rs_ep s) /\
  (forall k, In k (akeys (md_nprops (g_md g))) <-> In k (akeys (rs_np s))) /\
  (forall k, In k (akeys (md_eprops (g_md g))) <-> In k (akeys (rs_ep s))) /\
  (forall name p, In (name, p) (g_nprops g) ->
     exists zp pm, read_prop (rd_root (rs_rd s)) path_NODES name = Ok zp /\
                   alookup name (md_nprops (rd_md (rs_rd s))) = Some pm /\ load_prop zp nm pm = Ok p).
Proof. intros Hs H. rewrite build_held_build in H by exact Hs. destruct Hs as [[Hn _] [He _]].
  exact (build_names _ _ _ nm em g Hn He H). Qed.

(* ---------- every build = the FULL read restricted to the names held, then to the masks ---------- *)
Definition rd_ok (rd : reader) : Prop :=
  (forall n zp, read_prop (rd_root rd) path_NODES n = Ok zp -> In n (rd_nnames rd)) /\
  (forall n zp, read_prop (rd_root rd) path_EDGES n = Ok zp -> In n (rd_enames rd)).

Lemma prop_names_complete root grp names n zp :
  prop_names root grp = Ok names -> read_prop root grp n = Ok zp -> In n names.
Proof. unfold prop_names, read_prop, expect_group. cbn [get_path].
  destruct (get root grp) as [[a|a ch]|]; cbn [rbind]; try discriminate.
  destruct (get (ZG a ch) path_PROPS) as [[b|b ch2]|]; try discriminate.
  intros Hn Hr. inversion Hn; subst names; clear Hn. unfold get in Hr. cbn [children] in *.
  destruct (alookup n ch2) as [[c|c ch3]|] eqn:El; try discriminate.
  apply alookup_some_in in El. apply in_map_iff. exists (n, ZG c ch3). split; [reflexivity|].
  apply filter_In. split; [exact El | reflexivity]. Qed.

Ltac rbind_inv H :=
  repeat match type of H with
         | rbind ?m _ = Ok _ => let E := fresh "E" in destruct m eqn:E; cbn [rbind] in H; [|discriminate]
         end.

Lemma reader_init_ok k s v rd : reader_init k s v = Ok rd -> rd_ok rd.
Proof. unfold reader_init. intro H. rbind_inv H. inversion H; subst rd; clear H. cbn [rd_ok].
  split; cbn [rd_root rd_nnames rd_enames]; intros n zp Hr; eapply prop_names_complete; eauto. Qed.

Lemma same_names_in a b x : same_names a b = true -> In x b -> In x a.
Proof. unfold same_names. intros H Hx. apply andb_true_iff in H. destruct H as [_ H].
  rewrite forallb_forall in H. apply smem_In. apply H. exact Hx. Qed.

Lemma reader_init_listed_ok k s v ln le rd : reader_init_listed k s v ln le = Ok rd -> rd_ok rd.
Proof. unfold reader_init_listed. intro H. rbind_inv H.
  match type of H with (if ?c then _ else _) = _ => destruct c eqn:Ec; [|discriminate] end.
  apply andb_true_iff in Ec. destruct Ec as [Hn He]. inversion H; subst rd; clear H.
  destruct (reader_init_ok _ _ _ _ E) as [H1 H2].
  split; cbn [rd_root rd_nnames rd_enames]; intros n zp Hr.
  - eapply same_names_in; [exact Hn|]. eapply H1; eauto.
  - eapply same_names_in; [exact He|]. eapply H2; eauto. Qed.

Lemma mapM_in {A B} (f : A -> res B) : forall l r, mapM f l = Ok r ->
  (forall x, In x l -> exists y, f x = Ok y /\ In y r) /\ (forall y, In y r -> exists x, In x l /\ f x = Ok y).
Proof. induction l as [|x l IH]; intros r H; cbn in H.
  - inversion H; subst. split; intros ? [].
  - destruct (f x) as [y|e] eqn:Ef; [|discriminate]. destruct (mapM f l) as [ys|e] eqn:Em; [|discriminate].
    inversion H; subst r. destruct (IH ys eq_refl) as [H1 H2]. split.
    + intros x0 [<-|Hx]; [exists y; split; [exact Ef | left; reflexivity]|].
      destruct (H1 x0 Hx) as [y0 [Hy0 Hin]]. exists y0. split; [exact Hy0 | right; exact Hin].
    + intros y0 [<-|Hy]; [exists x; split; [left; reflexivity | exact Ef]|].
      destruct (H2 y0 Hy) as [x0 [Hx0 Hf]]. exists x0. split; [right; exact Hx0 | exact Hf]. Qed.

(* a dictionary built by insertion from pairs (k, F k): lookup is F on the keys inserted *)
Lemma alookup_fold_fun {V} (F : string -> option V) : forall (ps acc : list (string * V)) n,
  (forall k v, In (k, v) ps -> F k = Some v) ->
  alookup n (fold_left (fun a kv => aset (fst kv) (snd kv) a) ps acc) = if smem n (akeys ps) then F n else alookup n acc.
Proof. induction ps as [|[k v] r IH]; intros acc n HF; cbn [fold_left akeys map fst snd]; [reflexivity|].
  rewrite IH by (intros k0 v0 Hin; apply HF; right; exact Hin). fold (akeys r).
  cbn [smem existsb]. fold (smem n (akeys r)).
  destruct (smem n (akeys r)); [rewrite orb_true_r; reflexivity|]. rewrite orb_false_r.
  destruct (String.eqb n k) eqn:E.
  - apply String.eqb_eq in E. subst. rewrite alookup_aset_same. symmetry. apply HF. left. reflexivity.
  - apply alookup_aset_other. intro; subst. rewrite seqb_refl in E. discriminate. Qed.

Lemma mapM_pick (f : string -> res (string * prop)) (D : props) : forall names,
  (forall n, In n names -> exists p, f n = Ok (n, p) /\ alookup n D = Some p) ->
  mapM f names = Ok (pick names D).
Proof. induction names as [|n r IH]; intro H; cbn [mapM pick flat_map]; [reflexivity|].
  destruct (H n (or_introl eq_refl)) as [p [Hf Hl]]. rewrite Hf, Hl.
  fold (pick r D). rewrite IH; [reflexivity|]. intros n0 Hn0. apply H. right. exact Hn0. Qed.

(* loading a sub-list of names = picking them from the dictionary of the full load *)
Lemma load_props_pick root grp pmd all names ps :
  load_props root grp all pmd None = Ok ps -> NoDup names -> (forall n, In n names -> In n all) ->
  load_props root grp names pmd None = Ok (pick names (dict_of ps)) /\
  dict_of (pick names (dict_of ps)) = pick names (dict_of ps).
Proof.
  intros Hall Hnd Hsub.
  set (f := fun name => (rbind (read_prop root grp name) (fun zp =>
               match alookup name pmd with
               | None => Err KeyError
               | Some pm => rbind (load_prop zp None pm) (fun p => Ok (name, p))
               end))).
  assert (Hfst : forall n y, f n = Ok y -> fst y = n).
  { intros n y. unfold f. destruct (read_prop root grp n); cbn [rbind]; [|discriminate].
    destruct (alookup n pmd); [|discriminate]. destruct (load_prop _ None _); cbn [rbind]; [|discriminate].
    intro H. inversion H. reflexivity. }
  change (mapM f all = Ok ps) in Hall. destruct (mapM_in f all ps Hall) as [H1 H2].
  set (F := fun k => match f k with Ok y => Some (snd y) | Err _ => None end).
  assert (HF : forall k v, In (k, v) ps -> F k = Some v).
  { intros k v Hin. destruct (H2 _ Hin) as [x [_ Hfx]]. pose proof (Hfst _ _ Hfx) as Hk. cbn in Hk. subst x.
    unfold F. rewrite Hfx. reflexivity. }
  assert (Hpick : load_props root grp names pmd None = Ok (pick names (dict_of ps))).
  { change (mapM f names = Ok (pick names (dict_of ps))). apply mapM_pick. intros n Hn.
    destruct (H1 n (Hsub n Hn)) as [[k p] [Hfn Hin]]. pose proof (Hfst _ _ Hfn) as Hk. cbn in Hk. subst k.
    exists p. split; [exact Hfn|]. unfold dict_of. rewrite (alookup_fold_fun F) by exact HF.
    assert (Hm : smem n (akeys ps) = true) by (apply smem_In; apply (in_map fst) in Hin; exact Hin).
    rewrite Hm. unfold F. rewrite Hfn. reflexivity. }
  split; [exact Hpick|]. apply dict_of_nodup.
  destruct (load_props_spec _ _ _ _ _ _ Hpick) as [Hk _]. rewrite Hk. exact Hnd.
Qed.

Lemma filter_filter {A} (f g : A -> bool) l : filter f (filter g l) = filter (fun x => f x && g x) l.
Proof. induction l as [|x r IH]; cbn; [reflexivity|]. destruct (g x); cbn; [destruct (f x); cbn; rewrite IH; reflexivity|].
  rewrite andb_false_r. exact IH. Qed.

Lemma prune_prune pmd all names : (forall n, In n names -> In n all) -> prune (prune pmd all) names = prune pmd names.
Proof. intro Hsub. unfold prune. rewrite filter_filter. apply filter_ext. intros [k v]. cbn [fst].
  destruct (smem k names) eqn:E; [|reflexivity]. cbn. apply smem_In. apply Hsub. apply smem_In. exact E. Qed.

Theorem build_pick rd nn en gall :
  rd_ok rd -> NoDup nn -> NoDup en ->
  (forall n, In n nn -> exists zp, read_prop (rd_root rd) path_NODES n = Ok zp) ->
  (forall n, In n en -> exists zp, read_prop (rd_root rd) path_EDGES n = Ok zp) ->
  build rd None None None None = Ok gall ->
  build rd (Some nn) (Some en) None None = Ok (restrict_names gall nn en).
Proof.
  intros [Hokn Hoke] Hnn Hen Hrn Hre H. unfold build in *. cbn [mask_rows] in *.
  destruct (mapM (read_prop (rd_root rd) path_NODES) (rd_nnames rd)) as [zn|e]; [|discriminate].
  destruct (mapM (read_prop (rd_root rd) path_EDGES) (rd_enames rd)) as [ze|e]; [|discriminate]. cbn [rbind] in H.
  destruct (load_props (rd_root rd) path_NODES (rd_nnames rd) (md_nprops (rd_md rd)) None) as [nps|e] eqn:Enp; [|discriminate].
  cbn [rbind] in H.
  destruct (load_props (rd_root rd) path_EDGES (rd_enames rd) (md_eprops (rd_md rd)) None) as [eps|e] eqn:Eep; [|discriminate].
  cbn [rbind] in H. inversion H; subst gall; clear H.
  destruct (mapM_all_ok (read_prop (rd_root rd) path_NODES) nn Hrn) as [zn' Ezn]. rewrite Ezn.
  destruct (mapM_all_ok (read_prop (rd_root rd) path_EDGES) en Hre) as [ze' Eze]. rewrite Eze. cbn [rbind].
  assert (Hsn : forall n, In n nn -> In n (rd_nnames rd)) by (intros n Hn; destruct (Hrn n Hn) as [zp Hz]; eauto).
  assert (Hse : forall n, In n en -> In n (rd_enames rd)) by (intros n Hn; destruct (Hre n Hn) as [zp Hz]; eauto).
  destruct (load_props_pick _ _ _ _ nn _ Enp Hnn Hsn) as [Hpn Hdn].
  destruct (load_props_pick _ _ _ _ en _ Eep Hen Hse) as [Hpe Hde].
  rewrite Hpn. cbn [rbind]. rewrite Hpe. cbn [rbind]. rewrite Hdn, Hde.
  unfold restrict_names. cbn [g_md g_nids g_eids g_nprops g_eprops md_directed md_axes md_nprops md_eprops md_tok].
  rewrite (prune_prune _ _ _ Hsn), (prune_prune _ _ _ Hse). reflexivity.
Qed.

Lemma store_ok_sub rd nn en : rd_ok rd -> store_ok rd (rd_nnames rd) (rd_enames rd) -> store_ok rd nn en.
Proof. intros [H1 H2] [Hn He]. split; intros name zp pm _ Hr Hl.
  - eapply Hn; eauto.
  - eapply He; eauto. Qed.

(* THE refinement statement: after any sequence of calls on a fresh reader, build(nm, em) returns the full read
   restricted to the names requested so far (first-request order) and then to the masks *)
Theorem sm_build_full rd gall ops nm em :
  rd_ok rd -> store_ok rd (rd_nnames rd) (rd_enames rd) ->
  build rd None None None None = Ok gall ->
  let s := final (sm_init rd) ops in
  build_held s nm em =
  Ok (restrict (restrict_names gall (first_occ (flat_map (nreq rd) ops)) (first_occ (flat_map (ereq rd) ops))) nm em).
Proof.
  intros Hrd Hok Hall. cbn zeta.
  destruct (reachable_held rd ops) as [Hr [Hkn [Hke [_ [_ Hs]]]]]. cbn zeta in *.
  set (s := final (sm_init rd) ops) in *.
  rewrite <- Hkn, <- Hke.
  apply sm_build_restrict; [exact Hs | rewrite Hr; apply store_ok_sub; assumption |].
  rewrite build_held_build by exact Hs. rewrite Hr.
  destruct Hs as [[Hndn HFn] [Hnde HFe]]. rewrite Hr in *.
  apply build_pick; auto.
  - intros n Hn. unfold akeys in Hn. apply in_map_iff in Hn. destruct Hn as [[k zp] [<- Hin]].
    rewrite Forall_forall in HFn. exists zp. apply read_prop_h_ok. apply (HFn _ Hin).
  - intros n Hn. unfold akeys in Hn. apply in_map_iff in Hn. destruct Hn as [[k zp] [<- Hin]].
    rewrite Forall_forall in HFe. exists zp. apply read_prop_h_ok. apply (HFe _ Hin).
Qed.

(* ---------- (ii) build is pure: the object is the same afterwards ---------- *)
Theorem build_pure s nm em : fst (step s (Build nm em)) = s.
Proof. reflexivity. Qed.

Definition is_build (o : op) : bool := match o with Build _ _ => true | _ => false end.

(* a build anywhere in a sequence: the final object and every other call's outcome are those of the sequence without it *)
Theorem build_erase s a nm em b :
  final s (a ++ Build nm em :: b) = final s (a ++ b) /\
  results s (a ++ Build nm em :: b) = results s a ++ snd (step (final s a) (Build nm em)) :: results (final s a) b /\
  results s (a ++ b) = results s a ++ results (final s a) b.
Proof. rewrite !final_app, !results_app. repeat split; reflexivity. Qed.

Theorem builds_erase s ops : final s ops = final s (filter (fun o => negb (is_build o)) ops).
Proof. revert s. induction ops as [|o r IH]; intros s; [reflexivity|].
  destruct o as [names|names|nm em]; cbn [filter is_build negb]; rewrite !final_cons; apply IH. Qed.

(* two builds in either order, or the same build twice: same object, same two graphs *)
Theorem builds_commute s a b c d :
  final s [Build a b; Build c d] = s /\
  results s [Build a b; Build c d] = [snd (step s (Build a b)); snd (step s (Build c d))] /\
  results s [Build c d; Build a b] = [snd (step s (Build c d)); snd (step s (Build a b))].
Proof. repeat split; reflexivity. Qed.

(* ---------- (iii) reads: idempotent, order irrelevant up to dictionary order ---------- *)
Theorem step_idem s o : step (fst (step s o)) o = step s o.
Proof. destruct o as [names|names|nm em]; cbn [step fst snd rs_rd rs_np rs_ep].
  - rewrite read_loop_idem. reflexivity.
  - rewrite read_loop_idem. reflexivity.
  - reflexivity. Qed.

(* whether a read call succeeds does not depend on what the object already holds *)
Theorem read_result_indep s s' o : rs_rd s = rs_rd s' -> is_build o = false -> snd (step s o) = snd (step s' o).
Proof. intros Hr Hb. destruct o as [names|names|nm em]; [| |discriminate]; cbn [step snd]; rewrite !read_loop_res, Hr; reflexivity. Qed.

(* node reads and edge reads touch different fields *)
Theorem read_node_edge_commute s a b :
  final s [RNode a; REdge b] = final s [REdge b; RNode a] /\
  results s [RNode a; REdge b] = [snd (step s (RNode a)); snd (step s (REdge b))] /\
  results s [REdge b; RNode a] = [snd (step s (REdge b)); snd (step s (RNode a))].
Proof. repeat split; reflexivity. Qed.

(* two call sequences that request the same SETS of names leave equivalent objects *)
Theorem reads_order_irrelevant s ops1 ops2 :
  (forall k, smem k (flat_map (nreq (rs_rd s)) ops1) = smem k (flat_map (nreq (rs_rd s)) ops2)) ->
  (forall k, smem k (flat_map (ereq (rs_rd s)) ops1) = smem k (flat_map (ereq (rs_rd s)) ops2)) ->
  state_equiv (final s ops1) (final s ops2).
Proof. intros Hn He. destruct (final_held s ops1) as [_ [_ [H1n H1e]]]. destruct (final_held s ops2) as [_ [_ [H2n H2e]]].
  split; [rewrite !final_rd; reflexivity|]. split; intro k.
  - rewrite H1n, H2n, Hn. reflexivity.
  - rewrite H1e, H2e, He. reflexivity. Qed.

Corollary read_read_commute s o1 o2 : state_equiv (final s [o1; o2]) (final s [o2; o1]).
Proof. apply reads_order_irrelevant; intro k; cbn [flat_map]; rewrite !app_nil_r, !smem_app; apply orb_comm. Qed.

(* equivalent objects build equivalent graphs *)
Lemma dict_equiv_in {V} (a b : list (string * V)) kv :
  NoDup (akeys a) -> NoDup (akeys b) -> dict_equiv a b -> In kv a -> In kv b.
Proof. intros Ha Hb He Hin. destruct kv as [k v]. apply alookup_some_in. rewrite <- He. apply alookup_in_nodup; assumption. Qed.

Lemma load_held_lookup pmd m : forall h r, load_held h pmd m = Ok r ->
  akeys r = akeys h /\
  forall k, alookup k r = match alookup k h with
                          | None => None
                          | Some zp => match alookup k pmd with
                                       | Some pm => match load_prop zp m pm with Ok p => Some p | Err _ => None end
                                       | None => None
                                       end
                          end.
Proof. unfold load_held. induction h as [|[k0 zp0] h IH]; intros r H; cbn [mapM fst snd] in H.
  - inversion H; subst. split; [reflexivity | intro; reflexivity].
  - destruct (alookup k0 pmd) as [pm|] eqn:El; [|discriminate].
    destruct (load_prop zp0 m pm) as [p|e] eqn:Elp; [|discriminate]. cbn [rbind] in H.
    match type of H with match ?x with _ => _ end = _ => destruct x as [r'|e] eqn:Em; [|discriminate] end.
    inversion H; subst r. destruct (IH r' eq_refl) as [Hk Hl]. split.
    + change (k0 :: akeys r' = k0 :: akeys h). rewrite Hk. reflexivity.
    + intro k. cbn [alookup]. destruct (String.eqb k k0) eqn:E.
      * apply String.eqb_eq in E. subst. rewrite El, Elp. reflexivity.
      * apply Hl. Qed.

Lemma load_held_equiv pmd m h1 h2 r1 :
  NoDup (akeys h1) -> NoDup (akeys h2) -> dict_equiv h1 h2 -> load_held h1 pmd m = Ok r1 ->
  exists r2, load_held h2 pmd m = Ok r2 /\ dict_equiv (dict_of r1) (dict_of r2).
Proof. intros H1 H2 He Hl.
  assert (Hex : exists r2, load_held h2 pmd m = Ok r2).
  { unfold load_held in *. apply mapM_all_ok. intros x Hx.
    assert (Hin : In x h1) by (apply (dict_equiv_in h2 h1); auto; intro k; symmetry; apply He).
    destruct (mapM_in _ _ _ Hl) as [Ha _]. destruct (Ha x Hin) as [y [Hy _]]. eauto. }
  destruct Hex as [r2 Hr2]. exists r2. split; [exact Hr2|].
  destruct (load_held_lookup _ _ _ _ Hl) as [Hk1 Hl1]. destruct (load_held_lookup _ _ _ _ Hr2) as [Hk2 Hl2].
  rewrite !dict_of_nodup by (rewrite ?Hk1, ?Hk2; assumption).
  intro k. rewrite Hl1, Hl2, He. reflexivity. Qed.

Lemma prune_equiv {V} pmd (h1 h2 : list (string * V)) : dict_equiv h1 h2 -> prune pmd (akeys h1) = prune pmd (akeys h2).
Proof. intro He. unfold prune. apply filter_ext. intros [k v]. cbn [fst]. rewrite !smem_akeys. unfold ahas. rewrite He. reflexivity. Qed.

Theorem build_equiv s1 s2 nm em g1 :
  sinv s1 -> sinv s2 -> state_equiv s1 s2 -> build_held s1 nm em = Ok g1 ->
  exists g2, build_held s2 nm em = Ok g2 /\ graph_equiv g1 g2.
Proof. intros [[N1 _] [E1 _]] [[N2 _] [E2 _]] [Hr [Hn He]] H. unfold build_held in *. rewrite <- Hr.
  destruct (load_held (rs_np s1) _ nm) as [np1|e] eqn:L1; [|discriminate]. cbn [rbind] in H.
  match type of H with context [load_held (rs_ep s1) _ ?m] => set (em' := m) in * end.
  destruct (load_held (rs_ep s1) _ em') as [ep1|e] eqn:L2; [|discriminate]. cbn [rbind] in H.
  inversion H; subst g1; clear H.
  destruct (load_held_equiv _ _ _ _ _ N1 N2 Hn L1) as [np2 [L1' D1]].
  destruct (load_held_equiv _ _ _ _ _ E1 E2 He L2) as [ep2 [L2' D2]].
  rewrite L1'. cbn [rbind]. rewrite L2'. cbn [rbind]. eexists. split; [reflexivity|].
  unfold graph_equiv. cbn [g_md g_nids g_eids g_nprops g_eprops].
  rewrite (prune_equiv _ _ _ Hn), (prune_equiv _ _ _ He). repeat split; assumption. Qed.

(* ---------- (iv) failing calls ---------- *)
Theorem failed_build_state s nm em e : snd (step s (Build nm em)) = Err e -> fst (step s (Build nm em)) = s.
Proof. reflexivity. Qed.

(* a failed read is NOT atomic: it keeps what it stored before the first name it could not open; exactly that *)
Theorem failed_read_prefix s names e (node : bool) :
  let o := fun l => if node then RNode l else REdge l in
  let grp := if node then path_NODES else path_EDGES in
  let all := if node then rd_nnames (rs_rd s) else rd_enames (rs_rd s) in
  snd (step s (o names)) = Err e ->
  exists pre bad post, names_or names all = pre ++ bad :: post /\
    read_prop_h (rd_root (rs_rd s)) grp bad = Err e /\
    ok_prefix (rd_root (rs_rd s)) grp (names_or names all) = pre /\
    step s (o (Some pre)) = (fst (step s (o names)), Ok None).
Proof. cbn zeta. destruct node; cbn [step snd fst]; intro H.
  - destruct (snd (read_loop _ path_NODES _ (rs_np s))) as [u|e0] eqn:E; cbn [rmap] in H; [discriminate|]. inversion H; subst e0.
    destruct (read_loop_err _ _ _ _ _ E) as [pre [bad [post [Hn [Hb [Hp Hl]]]]]].
    exists pre, bad, post. repeat split; auto. cbn [names_or]. rewrite Hl. reflexivity.
  - destruct (snd (read_loop _ path_EDGES _ (rs_ep s))) as [u|e0] eqn:E; cbn [rmap] in H; [discriminate|]. inversion H; subst e0.
    destruct (read_loop_err _ _ _ _ _ E) as [pre [bad [post [Hn [Hb [Hp Hl]]]]]].
    exists pre, bad, post. repeat split; auto. cbn [names_or]. rewrite Hl. reflexivity. Qed.

(* when the FIRST name cannot be opened nothing is stored *)
Theorem failed_read_first s bad r e :
  read_prop_h (rd_root (rs_rd s)) path_NODES bad = Err e -> step s (RNode (Some (bad :: r))) = (s, Err e).
Proof. intro H. cbn [step names_or read_loop]. rewrite H. destruct s; reflexivity. Qed.

(* names=[] loads nothing (it is not "all") ; names=None is the listed names *)
Theorem read_empty s : step s (RNode (Some [])) = (s, Ok None) /\ step s (REdge (Some [])) = (s, Ok None).
Proof. destruct s; split; reflexivity. Qed.
Theorem read_none s : step s (RNode None) = step s (RNode (Some (rd_nnames (rs_rd s)))) /\
                      step s (REdge None) = step s (REdge (Some (rd_enames (rs_rd s)))).
Proof. split; reflexivity. Qed.

(* the reader's own fields never change: root (C18: nothing is written), metadata, id arrays, listed names *)
Theorem reader_fields_constant s ops : rs_rd (final s ops) = rs_rd s.
Proof. apply final_rd. Qed.

(* ---------- the one-shot function of Read.v is the special case init; read; read; build ---------- *)
Lemma fold_add_nodup : forall l acc, NoDup (acc ++ l) -> fold_left add_name l acc = acc ++ l.
Proof. induction l as [|n r IH]; intros acc H; cbn [fold_left]; [rewrite app_nil_r; reflexivity|].
  assert (Hn : smem n acc = false).
  { destruct (smem n acc) eqn:E; [|reflexivity]. apply smem_In in E. apply NoDup_remove_2 in H. exfalso. apply H.
    apply in_or_app. left. exact E. }
  unfold add_name at 2. rewrite Hn. rewrite IH; rewrite <- app_assoc; [reflexivity | exact H]. Qed.

Lemma first_occ_nodup l : NoDup l -> first_occ l = l.
Proof. intro H. unfold first_occ. rewrite fold_add_nodup; [reflexivity | exact H]. Qed.

Lemma build_names_or rd nn en nm em :
  build rd nn en nm em = build rd (Some (names_or nn (rd_nnames rd))) (Some (names_or en (rd_enames rd))) nm em.
Proof. destruct nn, en; reflexivity. Qed.

Lemma mapM_h_of_read root grp l r : mapM (read_prop root grp) l = Ok r -> mapM (read_prop_h root grp) l = Ok r.
Proof. revert r. induction l as [|x l IH]; intros r H; cbn [mapM] in *; [exact H|].
  destruct (read_prop root grp x) as [y|e] eqn:E; [|discriminate]. apply read_prop_h_ok in E. rewrite E.
  destruct (mapM (read_prop root grp) l) as [ys|e]; [|discriminate]. rewrite (IH ys eq_refl). exact H. Qed.

(* read_to_memory is the composition init; read all / the named; build without masks *)
Lemma compose_results (x1 x2 : res unit) (b : res mgraph) g :
  [rmap (fun _ : unit => @None mgraph) x1; rmap (fun _ : unit => @None mgraph) x2; rmap Some b] = [Ok None; Ok None; Ok (Some g)] <->
  rbind (rmap (fun _ : unit => @None mgraph) x1) (fun _ => rbind (rmap (fun _ : unit => @None mgraph) x2) (fun _ => b)) = Ok g.
Proof. destruct x1 as [[]|e1], x2 as [[]|e2], b as [g'|e3]; cbn; split; intro H; try discriminate; inversion H; reflexivity. Qed.

(* ---------- a concrete reader for the witnesses ---------- *)
Definition sm_ex_store : znode :=
  ZG [("geff", AGeff (Some (mkmd true None [("v", mkpm DI8 true None None None); ("a", mkpm DI16 false None None None)]
                                 [("w", mkpm DU8 false None None None)] 0%Z)))]
     [("nodes", ZG [] [("ids", ZA (mkarr DU8 [3%nat] [5; 6; 7]%Z));
                       ("props", ZG [] [("a", ZG [] [("values", ZA (mkarr DI16 [3%nat] [10; 20; 30]%Z))]);
                                        ("v", ZG [] [("values", ZA (mkarr DU64 [3%nat; 2%nat] [0; 2; 2; 0; 2; 1]%Z));
                                                     ("missing", ZA (mkarr DBool [3%nat] [0; 1; 0]%Z));
                                                     ("data", ZA (mkarr DI8 [3%nat] [1; 2; 3]%Z))])])]);
      ("edges", ZG [] [("ids", ZA (mkarr DU8 [2%nat; 2%nat] [5; 6; 7; 5]%Z));
                       ("props", ZG [] [("w", ZG [] [("values", ZA (mkarr DU8 [2%nat] [1; 2]%Z))])])])].

(* read_node_props(["v", "nope", "a"]) raises FileNotFoundError and leaves "v" loaded *)
Theorem failed_read_not_atomic :
  exists rd names e, reader_init KObj (Some sm_ex_store) true = Ok rd /\
    snd (step (sm_init rd) (RNode (Some names))) = Err e /\
    akeys (rs_np (fst (step (sm_init rd) (RNode (Some names))))) = ["v"] /\
    fst (step (sm_init rd) (RNode (Some names))) <> sm_init rd.
Proof. eexists. exists ["v"; "nope"; "a"], FileNotFoundError. split; [vm_compute; reflexivity|].
  split; [vm_compute; reflexivity|]. split; [vm_compute; reflexivity|]. intro H.
  apply (f_equal (fun s => length (rs_np s))) in H. vm_compute in H. discriminate. Qed.

(* ---------- statements over reachable objects (what props/C09.v quotes) ---------- *)
Theorem reachable_build rd ops nm em :
  build_held (final (sm_init rd) ops) nm em =
  build rd (Some (first_occ (flat_map (nreq rd) ops))) (Some (first_occ (flat_map (ereq rd) ops))) nm em.
Proof. destruct (reachable_held rd ops) as [Hr [Hkn [Hke [_ [_ Hs]]]]]. cbn zeta in *.
  rewrite build_held_build by exact Hs. rewrite Hr, Hkn, Hke. reflexivity. Qed.

Theorem reachable_restrict rd ops nm em gfull :
  let s := final (sm_init rd) ops in
  store_ok rd (akeys (rs_np s)) (akeys (rs_ep s)) ->
  build_held s None None = Ok gfull -> build_held s nm em = Ok (restrict gfull nm em).
Proof. cbn zeta. intros Hok H. destruct (reachable_held rd ops) as [Hr [_ [_ [_ [_ Hs]]]]]. cbn zeta in *.
  apply sm_build_restrict; auto. rewrite Hr. exact Hok. Qed.

Theorem reachable_commute rd ops1 ops2 nm em g1 :
  (forall k, smem k (flat_map (nreq rd) ops1) = smem k (flat_map (nreq rd) ops2)) ->
  (forall k, smem k (flat_map (ereq rd) ops1) = smem k (flat_map (ereq rd) ops2)) ->
  state_equiv (final (sm_init rd) ops1) (final (sm_init rd) ops2) /\
  (build_held (final (sm_init rd) ops1) nm em = Ok g1 ->
   exists g2, build_held (final (sm_init rd) ops2) nm em = Ok g2 /\ graph_equiv g1 g2).
Proof. intros Hn He.
  assert (Hse : state_equiv (final (sm_init rd) ops1) (final (sm_init rd) ops2)) by (apply reads_order_irrelevant; assumption).
  split; [exact Hse|]. apply build_equiv; auto; apply final_sinv; apply sinv_init. Qed.

(* ---------- duplicates in a one-shot name list: Read.build treats them as the object does ---------- *)
Lemma fold_add_in : forall l acc x, In x (fold_left add_name l acc) <-> In x acc \/ In x l.
Proof. induction l as [|n r IH]; intros acc x; cbn [fold_left]; [cbn; tauto|].
  rewrite IH. unfold add_name. destruct (smem n acc) eqn:E.
  - apply smem_In in E. cbn. split; [tauto|]. intros [H|[<-|H]]; auto.
  - rewrite in_app_iff. cbn. tauto. Qed.

Lemma fold_add_nodup_gen : forall l acc, NoDup acc -> NoDup (fold_left add_name l acc).
Proof. induction l as [|n r IH]; intros acc H; cbn [fold_left]; [exact H|]. apply IH. apply add_name_nodup. exact H. Qed.

Lemma first_occ_in l x : In x (first_occ l) <-> In x l.
Proof. unfold first_occ. rewrite fold_add_in. cbn. tauto. Qed.
Lemma first_occ_is_nodup l : NoDup (first_occ l).
Proof. apply fold_add_nodup_gen. constructor. Qed.

Lemma akeys_fold_aset {V} : forall (ps acc : list (string * V)),
  akeys (fold_left (fun a kv => aset (fst kv) (snd kv) a) ps acc) = fold_left add_name (akeys ps) (akeys acc).
Proof. induction ps as [|[k v] r IH]; intros acc; [reflexivity|].
  change (akeys ((k, v) :: r)) with (k :: akeys r). cbn [fold_left fst snd].
  rewrite IH, akeys_aset. reflexivity. Qed.

Lemma pick_suffix (D1 D2 : props) : NoDup (akeys (D1 ++ D2)) -> pick (akeys D2) (D1 ++ D2) = D2.
Proof. revert D1. induction D2 as [|[k v] r IH]; intros D1 H; [reflexivity|].
  cbn [akeys map fst pick flat_map].
  assert (Hl : alookup k (D1 ++ (k, v) :: r) = Some v).
  { apply alookup_in_nodup; [exact H|]. apply in_or_app. right. left. reflexivity. }
  rewrite Hl. cbn [app]. f_equal.
  replace (D1 ++ (k, v) :: r) with ((D1 ++ [(k, v)]) ++ r) in * by (rewrite <- app_assoc; reflexivity).
  apply IH. exact H. Qed.

Lemma pick_self (D : props) : NoDup (akeys D) -> pick (akeys D) D = D.
Proof. intro H. exact (pick_suffix [] D H). Qed.

(* load_props_pick for any mask *)
Lemma load_props_pick_m root grp pmd m all names ps :
  load_props root grp all pmd m = Ok ps -> NoDup names -> (forall n, In n names -> In n all) ->
  load_props root grp names pmd m = Ok (pick names (dict_of ps)).
Proof.
  intros Hall Hnd Hsub.
  set (f := fun name => (rbind (read_prop root grp name) (fun zp =>
               match alookup name pmd with
               | None => Err KeyError
               | Some pm => rbind (load_prop zp m pm) (fun p => Ok (name, p))
               end))).
  assert (Hfst : forall n y, f n = Ok y -> fst y = n).
  { intros n y. unfold f. destruct (read_prop root grp n); cbn [rbind]; [|discriminate].
    destruct (alookup n pmd); [|discriminate]. destruct (load_prop _ m _); cbn [rbind]; [|discriminate].
    intro H. inversion H. reflexivity. }
  change (mapM f all = Ok ps) in Hall. destruct (mapM_in f all ps Hall) as [H1 H2].
  set (F := fun k => match f k with Ok y => Some (snd y) | Err _ => None end).
  assert (HF : forall k v, In (k, v) ps -> F k = Some v).
  { intros k v Hin. destruct (H2 _ Hin) as [x [_ Hfx]]. pose proof (Hfst _ _ Hfx) as Hk. cbn in Hk. subst x.
    unfold F. rewrite Hfx. reflexivity. }
  change (mapM f names = Ok (pick names (dict_of ps))). apply mapM_pick. intros n Hn.
  destruct (H1 n (Hsub n Hn)) as [[k p] [Hfn Hin]]. pose proof (Hfst _ _ Hfn) as Hk. cbn in Hk. subst k.
  exists p. split; [exact Hfn|]. unfold dict_of. rewrite (alookup_fold_fun F) by exact HF.
  assert (Hm : smem n (akeys ps) = true) by (apply smem_In; apply (in_map fst) in Hin; exact Hin).
  rewrite Hm. unfold F. rewrite Hfn. reflexivity.
Qed.

Lemma load_props_dedupe root grp pmd m names ps :
  load_props root grp names pmd m = Ok ps ->
  load_props root grp (first_occ names) pmd m = Ok (dict_of ps) /\ dict_of (dict_of ps) = dict_of ps.
Proof. intro H.
  assert (Hk : akeys (dict_of ps) = first_occ names).
  { unfold dict_of. rewrite akeys_fold_aset. destruct (load_props_spec _ _ _ _ _ _ H) as [Hk _]. rewrite Hk. reflexivity. }
  assert (Hnd : NoDup (akeys (dict_of ps))) by (rewrite Hk; apply first_occ_is_nodup).
  split; [|apply dict_of_nodup; exact Hnd].
  rewrite (load_props_pick_m _ _ _ _ _ (first_occ names) _ H (first_occ_is_nodup _)) by (intros n Hn; apply first_occ_in; exact Hn).
  rewrite <- Hk. rewrite pick_self by exact Hnd. reflexivity. Qed.

Lemma load_props_dedupe_ok root grp pmd m names :
  is_ok (load_props root grp (first_occ names) pmd m) = true -> is_ok (load_props root grp names pmd m) = true.
Proof. unfold load_props. intro H.
  match type of H with is_ok (mapM ?f _) = true => set (f0 := f) in * end.
  destruct (mapM f0 (first_occ names)) as [r|e] eqn:E; [|discriminate].
  destruct (mapM_in _ _ _ E) as [H1 _].
  destruct (mapM_all_ok f0 names) as [r' Hr'].
  - intros x Hx. destruct (H1 x (proj2 (first_occ_in names x) Hx)) as [y [Hy _]]. eauto.
  - rewrite Hr'. reflexivity. Qed.

Lemma mapM_dedupe_ok {B} (f : string -> res B) names : is_ok (mapM f names) = is_ok (mapM f (first_occ names)).
Proof.
  assert (Hsub : forall a b, (forall x, In x b -> In x a) -> is_ok (mapM f a) = true -> is_ok (mapM f b) = true).
  { intros a b Hab Ha. destruct (mapM f a) as [r|e] eqn:E; [|discriminate]. destruct (mapM_in _ _ _ E) as [H1 _].
    destruct (mapM_all_ok f b) as [r' Hr']; [|rewrite Hr'; reflexivity].
    intros x Hx. destruct (H1 x (Hab x Hx)) as [y [Hy _]]. eauto. }
  destruct (is_ok (mapM f names)) eqn:E1.
  - symmetry. apply (Hsub names); [intros x; apply first_occ_in | exact E1].
  - destruct (is_ok (mapM f (first_occ names))) eqn:E2; [|reflexivity].
    rewrite (Hsub (first_occ names) names) in E1; [discriminate | intros x Hx; apply first_occ_in; exact Hx | exact E2]. Qed.

Lemma prune_first_occ pmd names : prune pmd (first_occ names) = prune pmd names.
Proof. unfold prune. apply filter_ext. intros [k v]. cbn [fst].
  destruct (smem k names) eqn:E.
  - apply smem_In. apply first_occ_in. apply smem_In. exact E.
  - destruct (smem k (first_occ names)) eqn:E2; [|reflexivity]. apply (proj1 (smem_In _ _)) in E2. apply (proj1 (first_occ_in _ _)) in E2.
    apply (proj2 (smem_In _ _)) in E2. congruence. Qed.

Theorem build_dedupe rd nn en nm em g :
  build rd (Some nn) (Some en) nm em = Ok g <-> build rd (Some (first_occ nn)) (Some (first_occ en)) nm em = Ok g.
Proof.
  unfold build.
  pose proof (mapM_dedupe_ok (read_prop (rd_root rd) path_NODES) nn) as Hmn.
  pose proof (mapM_dedupe_ok (read_prop (rd_root rd) path_EDGES) en) as Hme.
  destruct (mapM (read_prop (rd_root rd) path_NODES) nn) as [zn|e1]; destruct (mapM (read_prop (rd_root rd) path_NODES) (first_occ nn)) as [zn'|e1'];
    cbn [is_ok] in Hmn; try discriminate; cbn [rbind]; [|split; discriminate].
  destruct (mapM (read_prop (rd_root rd) path_EDGES) en) as [ze|e2]; destruct (mapM (read_prop (rd_root rd) path_EDGES) (first_occ en)) as [ze'|e2'];
    cbn [is_ok] in Hme; try discriminate; cbn [rbind]; [|split; discriminate].
  rewrite !prune_first_occ.
  pose proof (load_props_dedupe_ok (rd_root rd) path_NODES (md_nprops (rd_md rd)) nm nn) as Hon.
  destruct (load_props (rd_root rd) path_NODES nn (md_nprops (rd_md rd)) nm) as [nps|e3] eqn:Enp.
  - destruct (load_props_dedupe _ _ _ _ _ _ Enp) as [Hn1 Hn2]. rewrite Hn1. cbn [rbind].
    match goal with |- context [load_props _ path_EDGES en _ ?m] => set (em' := m) end.
    pose proof (load_props_dedupe_ok (rd_root rd) path_EDGES (md_eprops (rd_md rd)) em' en) as Hoe.
    destruct (load_props (rd_root rd) path_EDGES en (md_eprops (rd_md rd)) em') as [eps|e4] eqn:Eep.
    + destruct (load_props_dedupe _ _ _ _ _ _ Eep) as [He1 He2]. rewrite He1. cbn [rbind]. rewrite Hn2, He2. tauto.
    + cbn [rbind]. destruct (load_props (rd_root rd) path_EDGES (first_occ en) (md_eprops (rd_md rd)) em') as [eps'|e4'].
      * cbn [is_ok] in Hoe. specialize (Hoe eq_refl). discriminate.
      * cbn [rbind]. split; discriminate.
  - cbn [rbind]. destruct (load_props (rd_root rd) path_NODES (first_occ nn) (md_nprops (rd_md rd)) nm) as [nps'|e3'].
    + cbn [is_ok] in Hon. specialize (Hon eq_refl). discriminate.
    + cbn [rbind]. split; discriminate.
Qed.

Lemma oneshot_core_gen rd nn en nm em :
  snd (step (sm_init rd) (RNode nn)) = Ok None -> snd (step (sm_init rd) (REdge en)) = Ok None ->
  results (sm_init rd) [RNode nn; REdge en; Build nm em] =
  [Ok None; Ok None; rmap Some (build rd (Some (first_occ (names_or nn (rd_nnames rd)))) (Some (first_occ (names_or en (rd_enames rd)))) nm em)].
Proof.
  intros Hrn Hre.
  change [RNode nn; REdge en; Build nm em] with ([RNode nn; REdge en] ++ [Build nm em]).
  rewrite results_app.
  assert (H12 : results (sm_init rd) [RNode nn; REdge en] = [Ok None; Ok None]).
  { rewrite !results_cons. rewrite Hrn.
    rewrite (read_result_indep _ (sm_init rd) (REdge en)) by (rewrite ?step_rd; reflexivity). rewrite Hre. reflexivity. }
  rewrite H12. cbn [app]. rewrite results_cons. cbn [step snd results run].
  rewrite reachable_build. cbn [flat_map nreq ereq app]. rewrite !app_nil_r.
  assert (Hpn : ok_prefix (rd_root rd) path_NODES (names_or nn (rd_nnames rd)) = names_or nn (rd_nnames rd)).
  { cbn [step snd sm_init rs_rd rs_np] in Hrn. eapply read_loop_ok_surj.
    destruct (snd (read_loop (rd_root rd) path_NODES (names_or nn (rd_nnames rd)) [])) as [[]|] eqn:E; [exact E | discriminate]. }
  assert (Hpe : ok_prefix (rd_root rd) path_EDGES (names_or en (rd_enames rd)) = names_or en (rd_enames rd)).
  { cbn [step snd sm_init rs_rd rs_ep] in Hre. eapply read_loop_ok_surj.
    destruct (snd (read_loop (rd_root rd) path_EDGES (names_or en (rd_enames rd)) [])) as [[]|] eqn:E; [exact E | discriminate]. }
  rewrite Hpn, Hpe. reflexivity.
Qed.

(* no condition on the name lists: repeated names included *)
Theorem sm_oneshot_gen rd nn en nm em g :
  build rd nn en nm em = Ok g <->
  results (sm_init rd) [RNode nn; REdge en; Build nm em] = [Ok None; Ok None; Ok (Some g)].
Proof.
  rewrite build_names_or, build_dedupe. split.
  - intro H. rewrite oneshot_core_gen; [rewrite H; reflexivity| |].
    + apply build_dedupe in H. unfold build in H.
      destruct (mapM (read_prop (rd_root rd) path_NODES) (names_or nn (rd_nnames rd))) as [zn|e] eqn:E; [|discriminate].
      cbn [step snd sm_init rs_rd rs_np]. rewrite read_loop_res, (mapM_h_of_read _ _ _ _ E). reflexivity.
    + apply build_dedupe in H. unfold build in H.
      destruct (mapM (read_prop (rd_root rd) path_NODES) (names_or nn (rd_nnames rd))) as [zn|e]; [|discriminate].
      destruct (mapM (read_prop (rd_root rd) path_EDGES) (names_or en (rd_enames rd))) as [ze|e] eqn:E; [|discriminate].
      cbn [step snd sm_init rs_rd rs_ep]. rewrite read_loop_res, (mapM_h_of_read _ _ _ _ E). reflexivity.
  - intro H.
    assert (H1 : snd (step (sm_init rd) (RNode nn)) = Ok None) by (rewrite !results_cons in H; injection H as Ha _ _; exact Ha).
    assert (H2 : snd (step (sm_init rd) (REdge en)) = Ok None).
    { rewrite !results_cons in H. injection H as _ Hb _.
      rewrite (read_result_indep _ (fst (step (sm_init rd) (RNode nn))) (REdge en)) by (rewrite ?step_rd; reflexivity). exact Hb. }
    rewrite (oneshot_core_gen rd nn en nm em H1 H2) in H. injection H as Hg.
    match type of Hg with rmap Some ?b = _ => destruct b as [g'|e]; cbn [rmap] in Hg; [inversion Hg; reflexivity | discriminate] end.
Qed.

Theorem read_to_memory_sm_eq_gen k s v nn en g :
  read_to_memory k s v nn en = Ok g <-> read_to_memory_sm k s v nn en = Ok g.
Proof.
  unfold read_to_memory, read_to_memory_sm.
  destruct (reader_init k s v) as [rd|e] eqn:Ei; cbn [rbind]; [|tauto].
  rewrite (sm_oneshot_gen rd nn en None None g). rewrite !results_cons. cbn [results run].
  cbn [step snd fst]. apply compose_results.
Qed.
