(* C10Lemmas.v -- the metadata the writer model stores describes the arrays it stores. *)
From Geff Require Import Base Dtype DtypeLemmas Vlen VlenLemmas Tree TreeLemmas Validate Write Read RoundTrip WriteLemmas ReadLemmas C01Lemmas.
Open Scope string_scope.
Open Scope list_scope.

(* ---------- min / max of a list ---------- *)
Definition is_min (m : Z) (l : list Z) : Prop := In m l /\ forall v, In v l -> (m <= v)%Z.
Definition is_max (m : Z) (l : list Z) : Prop := In m l /\ forall v, In v l -> (v <= m)%Z.

Lemma fold_min_spec r : forall x, is_min (fold_left Z.min r x) (x :: r).
Proof. induction r as [|y r IH]; intros x; cbn [fold_left].
  - split; [left; reflexivity | intros v [<-|[]]; lia].
  - destruct (IH (Z.min x y)) as [Hin Hle]. split.
    + destruct Hin as [Heq|Hin]; [|right; right; exact Hin].
      rewrite <- Heq. destruct (Z.min_spec x y) as [[_ ->]|[_ ->]]; [left | right; left]; reflexivity.
    + intros v [Hv|[Hv|Hv]].
      * subst v. specialize (Hle (Z.min x y) (or_introl eq_refl)). lia.
      * subst v. specialize (Hle (Z.min x y) (or_introl eq_refl)). lia.
      * apply Hle. right. exact Hv. Qed.
Lemma fold_max_spec r : forall x, is_max (fold_left Z.max r x) (x :: r).
Proof. induction r as [|y r IH]; intros x; cbn [fold_left].
  - split; [left; reflexivity | intros v [<-|[]]; lia].
  - destruct (IH (Z.max x y)) as [Hin Hle]. split.
    + destruct Hin as [Heq|Hin]; [|right; right; exact Hin].
      rewrite <- Heq. destruct (Z.max_spec x y) as [[_ ->]|[_ ->]]; [right; left | left]; reflexivity.
    + intros v [Hv|[Hv|Hv]].
      * subst v. specialize (Hle (Z.max x y) (or_introl eq_refl)). lia.
      * subst v. specialize (Hle (Z.max x y) (or_introl eq_refl)). lia.
      * apply Hle. right. exact Hv. Qed.
Lemma zmin_list_spec l m : zmin_list l = Some m -> is_min m l.
Proof. destruct l as [|x r]; cbn; [discriminate|]. intro H. inversion H; subst. apply fold_min_spec. Qed.
Lemma zmax_list_spec l m : zmax_list l = Some m -> is_max m l.
Proof. destruct l as [|x r]; cbn; [discriminate|]. intro H. inversion H; subst. apply fold_max_spec. Qed.

(* ---------- one axis ---------- *)
Definition axis_scale (a : arr) : Z := if is_float (a_dt a) then 1%Z else fscale.

(* the axis after the write: untouched for an empty graph, otherwise min/max of the non-missing coordinates *)
Definition axis_truthful (nprops : props) (ax ax' : axis) : Prop :=
  ax_name ax' = ax_name ax /\ ax_tok ax' = ax_tok ax /\
  exists p a, alookup (ax_name ax) nprops = Some p /\ p_vals p = PFixed a /\
    ((len0 a = Some 0%nat /\ ax' = ax) \/
     (exists n vs lo hi, len0 a = Some (S n) /\ axis_values p = Some vs /\ is_min lo vs /\ is_max hi vs /\
        ax_min ax' = Some (lo * axis_scale a)%Z /\ ax_max ax' = Some (hi * axis_scale a)%Z)).

Lemma minmax_axis_spec nprops ax ax' : minmax_axis nprops ax = Ok ax' -> axis_truthful nprops ax ax'.
Proof. unfold minmax_axis, axis_truthful. destruct (alookup (ax_name ax) nprops) as [p|]; [|discriminate].
  destruct (p_vals p) as [a|] eqn:Ev; [|discriminate]. destruct (len0 a) as [[|n]|] eqn:El; try discriminate.
  - intros H. inversion H; subst. repeat split; try reflexivity. exists p, a. repeat split; auto.
  - destruct (axis_values p) as [vs|] eqn:Ea; [|discriminate].
    destruct (zmin_list vs) as [lo|] eqn:Elo; [|discriminate]. destruct (zmax_list vs) as [hi|] eqn:Ehi; [|discriminate].
    intros H. inversion H; subst. cbn. repeat split; try reflexivity. exists p, a. repeat split; auto.
    right. exists n, vs, lo, hi.
    split; [first [reflexivity | exact El]|]. split; [first [reflexivity | exact Ea]|]. split; [apply zmin_list_spec; exact Elo|].
    split; [apply zmax_list_spec; exact Ehi|]. unfold axis_scale. split; reflexivity. Qed.

Lemma mapM_Forall2 {A B} (f : A -> res B) (P : A -> B -> Prop) :
  (forall x y, f x = Ok y -> P x y) -> forall l l', mapM f l = Ok l' -> Forall2 P l l'.
Proof. intros HP. induction l as [|x r IH]; intros l' H; cbn in H.
  - inversion H. constructor.
  - destruct (f x) as [y|] eqn:E; [|discriminate]. destruct (mapM f r) as [r'|]; [|discriminate].
    inversion H; subst. constructor; [apply HP; exact E | apply IH; reflexivity]. Qed.

Theorem minmax_truthful md nprops md' axes :
  compute_minmax md nprops = Ok md' -> md_axes md = Some axes ->
  exists axes', md_axes md' = Some axes' /\ Forall2 (axis_truthful nprops) axes axes'.
Proof. unfold compute_minmax. intros H Ha. rewrite Ha in H.
  destruct (mapM (minmax_axis nprops) axes) as [axes'|] eqn:Em; [|discriminate]. inversion H; subst. cbn.
  exists axes'. split; [reflexivity|]. eapply mapM_Forall2; [|exact Em]. intros x y. apply minmax_axis_spec. Qed.

(* ---------- property entries ---------- *)
Lemma fold_upd_keep : forall l ex k0, ~ In k0 (akeys l) -> alookup k0 (fold_left upd_pm l ex) = alookup k0 ex.
Proof. induction l as [|[k2 v2] l IHl]; intros ex k0 Hn; cbn [fold_left]; [reflexivity|].
  rewrite IHl.
  - rewrite upd_pm_lookup. rewrite seqb_neq; [reflexivity|]. intro; subst. apply Hn. left. reflexivity.
  - intro Hc. apply Hn. right. exact Hc. Qed.

Lemma add_or_update_lookup_exact new : forall existing name pm,
  NoDup (akeys new) -> In (name, pm) new ->
  alookup name (add_or_update existing new) =
  Some (match alookup name existing with
        | Some old => mkpm (pm_dtype pm) (pm_varlength pm) (pm_unit old) (pm_name old) (pm_descr old)
        | None => pm end).
Proof. unfold add_or_update. induction new as [|[k v] r IH]; intros existing name pm Hnd Hin; [destruct Hin|].
  inversion Hnd as [|? ? Hnotin Hnd']; subst. cbn [fold_left].
  pose proof fold_upd_keep as Hkeep.
  destruct Hin as [Heq|Hin].
  - inversion Heq; subst k v; clear Heq. rewrite Hkeep by exact Hnotin. rewrite upd_pm_lookup, seqb_refl. reflexivity.
  - rewrite (IH _ name pm Hnd' Hin). rewrite upd_pm_lookup.
    rewrite seqb_neq; [reflexivity|]. intro; subst. apply Hnotin. apply (in_map fst) in Hin. exact Hin. Qed.

(* the entry created for a property states the dtype of what is stored, and varlength iff a data array is stored *)
Lemma meta_matches_stored name p pm v m d :
  create_props_metadata name p = Ok pm -> encode_prop p = Ok (v, m, d) ->
  (pm_varlength pm = false /\ d = None /\ a_dt v = pm_dtype pm) \/
  (pm_varlength pm = true /\ a_dt v = DU64 /\ exists da, d = Some da /\ a_dt da = pm_dtype pm).
Proof. intros Hcpm0; apply cpm_core_of_ok in Hcpm0; revert Hcpm0. unfold cpm_core, encode_prop. destruct (p_vals (upcast_prop p)) as [a|elems].
  - destruct (valid_prop_dtype (a_dt a) && negb (String.eqb name "")); [|discriminate].
    intros H1 H2. inversion H1; inversion H2; subst. left. auto.
  - destruct elems as [|e r]; [discriminate|]. destruct (forallb _ r); [|discriminate].
    destruct (valid_prop_dtype (v_dt e) && negb (String.eqb name "")); [|discriminate].
    destruct (serialize (e :: r)) as [[rows data]|]; [|discriminate].
    intros H1 H2. inversion H1; inversion H2; subst. right.
    split; [reflexivity|]. split; [unfold rows_arr; destruct rows; reflexivity|]. eexists. split; reflexivity. Qed.

Theorem props_entries g md md' n e :
  wf_input g md n e -> final_metadata g md = Ok md' ->
  let nps := backfill (w_nids g) md (w_nprops g) in
  (forall k, In k (akeys (md_nprops md')) <-> In k (names_of nps)) /\
  (forall k, In k (akeys (md_eprops md')) <-> In k (names_of (w_eprops g))) /\
  (forall name p pm, In (name, p) (match nps with Some ps => ps | None => [] end) ->
     create_props_metadata name p = Ok pm ->
     alookup name (md_nprops md') =
     Some (match alookup name (md_nprops md) with
           | Some old => mkpm (pm_dtype pm) (pm_varlength pm) (pm_unit old) (pm_name old) (pm_descr old)
           | None => pm end)) /\
  (forall name p pm, In (name, p) (match w_eprops g with Some ps => ps | None => [] end) ->
     create_props_metadata name p = Ok pm ->
     alookup name (md_eprops md') =
     Some (match alookup name (md_eprops md) with
           | Some old => mkpm (pm_dtype pm) (pm_varlength pm) (pm_unit old) (pm_name old) (pm_descr old)
           | None => pm end)).
Proof.
  intros Hwf Hfm. cbn zeta. destruct (final_metadata_fields _ _ _ Hfm) as [Hmn [Hme _]].
  set (nps := backfill (w_nids g) md (w_nprops g)) in *.
  assert (Henc : forall m0 ops, wf_props m0 ops -> forall ps, ops = Some ps -> NoDup (akeys ps) /\ Forall encodable ps).
  { intros m0 ops Hw ps Hps. destruct (Hw ps Hps) as [Hnd HF]. split; [exact Hnd|]. eapply Forall_impl; [|exact HF]. cbn; tauto. }
  assert (Hkeys : forall m0 ops existing, wf_props m0 ops -> (forall k0, In k0 (akeys existing) -> In k0 (names_of ops)) ->
             forall k, In k (akeys (add_or_update existing (metas_of ops))) <-> In k (names_of ops)).
  { intros m0 ops existing Hw Hst k. rewrite add_or_update_keys. destruct ops as [ps|]; cbn [metas_of names_of] in *.
    - destruct (Henc _ _ Hw ps eq_refl) as [_ HF]. rewrite (props_meta_keys _ HF). split; [intros [H|H]; [apply Hst; exact H | exact H] | intro H; right; exact H].
    - cbn. split; [intros [H|[]]; apply (Hst _ H) | intros []]. }
  assert (Hentry : forall m0 ops existing, wf_props m0 ops -> forall name p pm,
             In (name, p) (match ops with Some ps => ps | None => [] end) -> create_props_metadata name p = Ok pm ->
             alookup name (add_or_update existing (metas_of ops)) =
             Some (match alookup name existing with
                   | Some old => mkpm (pm_dtype pm) (pm_varlength pm) (pm_unit old) (pm_name old) (pm_descr old)
                   | None => pm end)).
  { intros m0 ops existing Hw name p pm Hin Hpm. destruct ops as [ps|]; [|destruct Hin]. cbn [metas_of].
    destruct (Henc _ _ Hw ps eq_refl) as [Hnd HF]. apply add_or_update_lookup_exact.
    - rewrite (props_meta_keys _ HF). exact Hnd.
    - apply (props_meta_in _ _ p); auto. }
  rewrite Hmn, Hme. repeat split.
  - apply (Hkeys n nps _ (wi_nprops _ _ _ _ Hwf) (wi_nstale _ _ _ _ Hwf)).
  - apply (Hkeys n nps _ (wi_nprops _ _ _ _ Hwf) (wi_nstale _ _ _ _ Hwf)).
  - apply (Hkeys e _ _ (wi_eprops _ _ _ _ Hwf) (wi_estale _ _ _ _ Hwf)).
  - apply (Hkeys e _ _ (wi_eprops _ _ _ _ Hwf) (wi_estale _ _ _ _ Hwf)).
  - intros name p pm. apply (Hentry n nps _ (wi_nprops _ _ _ _ Hwf)).
  - intros name p pm. apply (Hentry e _ _ (wi_eprops _ _ _ _ Hwf)).
Qed.
