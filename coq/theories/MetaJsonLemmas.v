(* MetaJsonLemmas.v -- proofs for C08:
     round trip through JSON (of_json (to_json m) = Ok m), through the attribute map of a group
     (md_read (md_write m st) = Ok m, foreign attributes untouched), validity of every serialised
     object under the published schema, no drift between the published and the exported schema,
     and the relation of the domain predicate inv_md to the invariants of C07. *)
From Geff Require Import Base Meta MetaLemmas Json Schema SchemaLemmas MetaJson.
From Geff.Gen Require Import Consts.
From Geff.Gen Require Schema.
Open Scope string_scope.
Open Scope Z_scope.
Open Scope list_scope.

(* ================================================================== generic helpers *)
Lemma mapM_map_id {A B} (f : B -> res A) (g : A -> B) l :
  (forall x, In x l -> f (g x) = Ok x) -> mapM f (map g l) = Ok l.
Proof.
  induction l as [|x r IH]; intros H; cbn; [reflexivity|].
  rewrite (H x (or_introl eq_refl)), IH; [reflexivity|]. intros y Hy. apply H. right. exact Hy.
Qed.

Lemma forallb_In {A} (f : A -> bool) l x : forallb f l = true -> In x l -> f x = true.
Proof. intros H Hx. rewrite forallb_forall in H. apply H. exact Hx. Qed.

Lemma forallb_map {A B} (f : B -> bool) (g : A -> B) l : forallb f (map g l) = forallb (fun x => f (g x)) l.
Proof. induction l as [|x r IH]; cbn; [reflexivity | rewrite IH; reflexivity]. Qed.

Lemma and_split (a b : bool) : a = true -> b = true -> a && b = true.
Proof. intros -> ->. reflexivity. Qed.

(* ================================================================== free-form values *)
Lemma jnull_nonfinite_id v : jfinite v = true -> jnull_nonfinite v = v.
Proof.
  induction v as [| x | x | x | x | l IH | kvs IH] using jv_ind'; cbn; intros H; try reflexivity.
  - rewrite H. reflexivity.
  - f_equal. induction IH as [|x r Hx _ IHr]; cbn in *; [reflexivity|].
    apply andb_true_iff in H. destruct H as [H1 H2]. rewrite (Hx H1), (IHr H2). reflexivity.
  - f_equal. induction IH as [|[k x] r Hx _ IHr]; cbn in *; [reflexivity|].
    apply andb_true_iff in H. destruct H as [H1 H2]. rewrite (Hx H1), (IHr H2). reflexivity.
Qed.

(* ================================================================== nested objects parse back *)
Lemma v_opt_str_rt o : v_opt v_str (Some (jv_of_optstr o)) = Ok o.
Proof. destruct o; reflexivity. Qed.

Lemma v_opt_float_rt o : v_opt v_float (Some (jv_of_optfl o)) = Ok o.
Proof. destruct o; reflexivity. Qed.

Lemma v_opt_literal_rt allowed o :
  match o with Some t => smem t allowed | None => true end = true ->
  v_opt (v_literal allowed) (Some (jv_of_optstr o)) = Ok o.
Proof. destruct o as [t|]; cbn; [intros ->; reflexivity | reflexivity]. Qed.

Lemma axis_after_ok a : is_ok (axis_after a) = true -> axis_after a = Ok a.
Proof.
  destruct (axis_after a) as [a'|] eqn:E; [|discriminate]. intros _.
  apply axis_after_iff in E. destruct E as [-> _]. reflexivity.
Qed.

Lemma axis_rt a : axis_ok a = true -> axis_of_jv (axis_to_json a) = Ok a.
Proof.
  unfold axis_ok. intros H. do 4 (apply andb_true_iff in H; destruct H as [H _]).
  apply andb_true_iff in H. destruct H as [Ht Ha].
  unfold axis_of_jv, axis_to_json, axis_fields.
  cbn [jget String.eqb Ascii.eqb Bool.eqb v_req v_str].
  rewrite (v_opt_literal_rt _ _ Ht), !v_opt_str_rt, !v_opt_float_rt. cbn [rbind].
  destruct a. apply axis_after_ok. exact Ha.
Qed.

(* every allowed dtype name is a spelling numpy maps to itself, and is not empty *)
Definition dtype_table_ok (d : string) : bool :=
  match np_dtype_name (JStr d) with Some n => String.eqb n d | None => false end && negb (String.eqb d "").

Lemma valid_dtypes_table : forallb dtype_table_ok valid_dtypes = true.
Proof. vm_compute. reflexivity. Qed.

Lemma convert_dtype_rt d : smem d valid_dtypes = true -> convert_dtype (JStr d) = Ok d.
Proof.
  intros H. pose proof (forallb_In _ _ d valid_dtypes_table (proj1 (smem_In _ _) H)) as T.
  unfold dtype_table_ok in T. apply andb_true_iff in T. destruct T as [T1 T2].
  unfold convert_dtype. destruct (np_dtype_name (JStr d)) as [n|]; [|discriminate].
  apply String.eqb_eq in T1. subst n. rewrite H. unfold v_str_min1.
  apply negb_true_iff in T2. rewrite T2. reflexivity.
Qed.

Lemma v_str_min1_rt s : negb (String.eqb s "") = true -> v_str_min1 (JStr s) = Ok s.
Proof. intros H. apply negb_true_iff in H. unfold v_str_min1. rewrite H. reflexivity. Qed.

Lemma pm_rt p : pm_okb p = true -> propmeta_of_jv (pm_to_json p) = Ok p.
Proof.
  unfold pm_okb. intros H. apply andb_true_iff in H. destruct H as [Hi Hd].
  unfold propmeta_of_jv, pm_to_json.
  cbn [jget String.eqb Ascii.eqb Bool.eqb v_req v_default v_bool].
  rewrite (v_str_min1_rt _ Hi), (convert_dtype_rt _ Hd), !v_opt_str_rt. cbn [rbind]. destruct p. reflexivity.
Qed.

Lemma related_rt r : related_okb r = true -> related_of_jv (related_to_json r) = Ok r.
Proof.
  unfold related_okb. intros H. unfold related_of_jv, related_to_json.
  cbn [jget String.eqb Ascii.eqb Bool.eqb v_req v_str]. rewrite v_opt_str_rt. cbn [rbind].
  destruct r as [t p l]. cbn [ro_type ro_path ro_label_prop].
  destruct (related_after (mkRO t p l)) as [r'|] eqn:E; [|discriminate].
  apply related_after_iff in E. destruct E as [-> _]. reflexivity.
Qed.

Lemma hints_rt h : hints_of_jv (hints_to_json h) = Ok h.
Proof.
  unfold hints_of_jv, hints_to_json. cbn [jget String.eqb Ascii.eqb Bool.eqb v_req v_str].
  rewrite !v_opt_str_rt. cbn [rbind]. destruct h. reflexivity.
Qed.

Lemma pmdict_rt d : forallb (fun kv => pm_okb (snd kv)) d = true -> v_pmdict (pmdict_to_json d) = Ok d.
Proof.
  intros H. unfold v_pmdict, pmdict_to_json, v_dict. apply mapM_map_id. intros [k p] Hin.
  cbn [fst snd]. rewrite pm_rt; [reflexivity|]. apply (forallb_In _ _ _ H Hin).
Qed.

Lemma track_rt t : forallb (fun kv => smem (fst kv) track_keys) t = true -> v_track (track_to_json t) = Ok t.
Proof.
  intros H. unfold v_track, track_to_json, v_dict. apply mapM_map_id. intros [k s] Hin.
  pose proof (forallb_In _ _ _ H Hin) as Hk. cbn [fst snd] in *. rewrite Hk. reflexivity.
Qed.

Lemma v_opt_list_rt {A} (f : jv -> res A) (g : A -> jv) (ok : A -> bool) o :
  (forall x, ok x = true -> f (g x) = Ok x) ->
  forallb ok (olistb o) = true ->
  v_opt (v_list f) (Some (jv_of_opt (fun l => JList (map g l)) o)) = Ok o.
Proof.
  intros Hf H. destruct o as [l|]; [|reflexivity]. cbn [jv_of_opt v_opt v_list olistb] in *.
  rewrite mapM_map_id; [reflexivity|]. intros x Hx. apply Hf. apply (forallb_In _ _ _ H Hx).
Qed.

Lemma v_opt_track_rt o :
  forallb (fun kv => smem (fst kv) track_keys) (olistb o) = true ->
  v_opt v_track (Some (jv_of_opt track_to_json o)) = Ok o.
Proof.
  intros H. destruct o as [t|]; [|reflexivity]. cbn [jv_of_opt olistb] in *.
  change (v_opt v_track (Some (track_to_json t))) with (rmap Some (v_track (track_to_json t))).
  rewrite (track_rt t H). reflexivity.
Qed.

Lemma v_opt_hints_rt o : v_opt hints_of_jv (Some (jv_of_opt hints_to_json o)) = Ok o.
Proof.
  destruct o as [h|]; [|reflexivity]. cbn [jv_of_opt].
  change (v_opt hints_of_jv (Some (hints_to_json h))) with (rmap Some (hints_of_jv (hints_to_json h))).
  rewrite (hints_rt h). reflexivity.
Qed.

Lemma md_after_ok_rt m : md_after_ok m = true -> md_after m = Ok m.
Proof. unfold md_after. intros ->. reflexivity. Qed.

(* ================================================================== C08_roundtrip *)
Ltac split_inv H :=
  unfold inv_md in H;
  repeat (apply andb_true_iff in H; let K := fresh "K" in destruct H as [H K]).

Lemma roundtrip gv m : inv_md m = true -> of_json gv (to_json m) = Ok m.
Proof.
  intros H. split_inv H.
  unfold of_json, construct, to_json, md_fields.
  cbn [jget String.eqb Ascii.eqb Bool.eqb v_req v_default v_version v_bool].
  rewrite H. cbn [rbind].
  rewrite (v_opt_list_rt axis_of_jv axis_to_json axis_ok _ axis_rt K5). cbn [rbind].
  rewrite (pmdict_rt _ K4), (pmdict_rt _ K3). cbn [rbind].
  rewrite !v_opt_str_rt. cbn [rbind].
  rewrite (v_opt_track_rt _ K2). cbn [rbind].
  rewrite (v_opt_list_rt related_of_jv related_to_json related_okb _ related_rt K1). cbn [rbind].
  rewrite v_opt_hints_rt. cbn [rbind].
  rewrite (jnull_nonfinite_id _ K). cbn [v_extra rbind].
  destruct m. apply md_after_ok_rt. exact K0.
Qed.

(* the JSON text of a finite object is its JSON-mode dump *)
Lemma optfl_finite_null o : optfl_finite o = true -> jnull_nonfinite (jv_of_optfl o) = jv_of_optfl o.
Proof. destruct o as [f|]; cbn; [intros ->; reflexivity | reflexivity]. Qed.

Lemma jfinite_to_json m : inv_md m = true -> jfinite (to_json m) = true.
Proof.
  intros H. split_inv H. unfold to_json. cbn [jfinite forallb snd].
  assert (Ho : forall o, jfinite (jv_of_optstr o) = true) by (intros [s|]; reflexivity).
  rewrite !Ho. cbn [andb].
  assert (Hax : jfinite (jv_of_opt (fun l => JList (map axis_to_json l)) (md_axes m)) = true).
  { destruct (md_axes m) as [l|]; [|reflexivity]. cbn [jv_of_opt jfinite olistb] in *. rewrite forallb_map.
    apply forallb_forall. intros a Ha. pose proof (forallb_In _ _ _ K5 Ha) as Hk. unfold axis_ok in Hk.
    repeat (apply andb_true_iff in Hk; destruct Hk as [Hk ?]).
    unfold axis_to_json. cbn [jfinite forallb snd]. rewrite !Ho.
    assert (Hf : forall o, optfl_finite o = true -> jfinite (jv_of_optfl o) = true) by (intros [f|]; cbn; auto).
    rewrite !Hf by assumption. reflexivity. }
  assert (Hpm : forall d, jfinite (pmdict_to_json d) = true).
  { intros d. unfold pmdict_to_json. cbn [jfinite]. rewrite forallb_map. apply forallb_forall. intros [k p] _.
    cbn [snd pm_to_json jfinite forallb]. rewrite !Ho. reflexivity. }
  assert (Htr : jfinite (jv_of_opt track_to_json (md_track m)) = true).
  { destruct (md_track m) as [t|]; [|reflexivity]. cbn [jv_of_opt track_to_json jfinite]. rewrite forallb_map.
    apply forallb_forall. intros [k s] _. reflexivity. }
  assert (Hre : jfinite (jv_of_opt (fun l => JList (map related_to_json l)) (md_related m)) = true).
  { destruct (md_related m) as [l|]; [|reflexivity]. cbn [jv_of_opt jfinite]. rewrite forallb_map.
    apply forallb_forall. intros r _. unfold related_to_json. cbn [jfinite forallb snd]. rewrite Ho. reflexivity. }
  assert (Hh : jfinite (jv_of_opt hints_to_json (md_hints m)) = true).
  { destruct (md_hints m) as [h|]; [|reflexivity]. cbn [jv_of_opt hints_to_json jfinite forallb snd]. rewrite !Ho. reflexivity. }
  rewrite Hax, !Hpm, Htr, Hre, Hh. cbn [andb]. rewrite (jnull_nonfinite_id _ K). rewrite K. reflexivity.
Qed.

Lemma to_json_text_finite m : inv_md m = true -> to_json_text m = to_json m.
Proof. intros H. unfold to_json_text. apply jnull_nonfinite_id. apply jfinite_to_json. exact H. Qed.

Lemma roundtrip_text gv m : inv_md m = true -> of_json gv (to_json_text m) = Ok m.
Proof. intros H. rewrite (to_json_text_finite m H). apply roundtrip. exact H. Qed.

(* ================================================================== C08_attrs *)
Lemma jget_jset_same k v kvs : jget k (jset k v kvs) = Some v.
Proof.
  induction kvs as [|[k' x] r IH]; cbn; [rewrite String.eqb_refl; reflexivity|].
  destruct (String.eqb k k') eqn:E; cbn; rewrite E; [reflexivity | exact IH].
Qed.

Lemma jget_jset_other k k' v kvs : k' <> k -> jget k' (jset k v kvs) = jget k' kvs.
Proof.
  intros Hn. induction kvs as [|[k0 x] r IH]; cbn.
  - destruct (String.eqb k' k) eqn:E; [apply String.eqb_eq in E; contradiction | reflexivity].
  - destruct (String.eqb k k0) eqn:E; cbn.
    + apply String.eqb_eq in E. subst k0.
      destruct (String.eqb k' k) eqn:E2; [apply String.eqb_eq in E2; contradiction | reflexivity].
    + destruct (String.eqb k' k0); [reflexivity | exact IH].
Qed.

Lemma jkeys_jset k v kvs : forall k', In k' (jkeys kvs) -> In k' (jkeys (jset k v kvs)).
Proof.
  unfold jkeys. induction kvs as [|[k0 x] r IH]; cbn; intros k' H; [contradiction|].
  destruct (String.eqb k k0); cbn; destruct H as [H|H]; auto.
Qed.

Lemma attrs_geff m st : attr_get "geff" (md_write m st) = Some (to_json m).
Proof. destruct st as [a|]; cbn [md_write attr_get]; [apply jget_jset_same | reflexivity]. Qed.

Lemma attrs_foreign m st k : k <> "geff" -> attr_get k (md_write m st) = attr_get k st.
Proof.
  intros Hk. destruct st as [a|]; cbn [md_write attr_get].
  - apply jget_jset_other. exact Hk.
  - cbn. destruct (String.eqb k "geff") eqn:E; [apply String.eqb_eq in E; contradiction | reflexivity].
Qed.

Lemma md_read_spec gv st :
  md_read gv st =
  match st with
  | None => Err FileNotFoundError
  | Some _ => match attr_get "geff" st with
              | Some (JObj kvs) => of_json gv (JObj kvs)
              | _ => Err ValueError
              end
  end.
Proof. destruct st as [a|]; [|reflexivity]. cbn. destruct (jget "geff" a) as [[]|]; reflexivity. Qed.

Lemma attrs_roundtrip gv m st : inv_md m = true -> md_read gv (md_write m st) = Ok m.
Proof.
  intros H. rewrite md_read_spec, attrs_geff.
  assert (E : exists a, md_write m st = Some a) by (destruct st; eexists; reflexivity).
  destruct E as [a ->]. exact (roundtrip gv m H).
Qed.

(* ================================================================== C08_valid: every serialised object is valid under schema_ref *)
(* one unfolding of the validator on a schema object *)
Lemma validates_f_obj f root kws d :
  validates_f (S f) root (JObj kws) d =
  known kws && leaves_ok kws d
  && sub_ref (validates_f f root) root kws d
  && sub_allof (validates_f f root) kws d
  && sub_anyof (validates_f f root) kws d
  && sub_oneof (validates_f f root) kws d
  && sub_items (validates_f f root) kws d
  && sub_propnames (validates_f f root) kws d
  && sub_props (validates_f f root) kws d.
Proof. reflexivity. Qed.

Lemma and9 (a b c d e f g h i : bool) :
  a = true -> b = true -> c = true -> d = true -> e = true -> f = true -> g = true -> h = true -> i = true ->
  a && b && c && d && e && f && g && h && i = true.
Proof. intros -> -> -> -> -> -> -> -> ->. reflexivity. Qed.

Lemma sub_props_none V kws d :
  jget "properties" kws = None -> jget "additionalProperties" kws = None -> sub_props V kws d = true.
Proof.
  intros H1 H2. unfold sub_props. rewrite H1, H2. destruct d; try reflexivity.
  apply forallb_forall. intros kv _. reflexivity.
Qed.

Ltac vsplit := rewrite validates_f_obj; apply and9; try reflexivity; try (apply sub_props_none; reflexivity).
Ltac look := cbn [jget String.eqb Ascii.eqb Bool.eqb].
Ltac members := unfold sub_props; look; cbn [forallb]; unfold member_ok; cbn [fst snd]; look.

Lemma opt_str_valid f o : validates_f (S (S f)) schema_ref (s_opt (s_type "string")) (jv_of_optstr o) = true.
Proof. destruct o; reflexivity. Qed.

Lemma opt_num_valid f o : optfl_finite o = true -> validates_f (S (S f)) schema_ref (s_opt (s_type "number")) (jv_of_optfl o) = true.
Proof. destruct o as [[z| | |]|]; intros H; try discriminate; reflexivity. Qed.

Lemma unit_valid f o : validates_f (S (S f)) schema_ref s_unit (jv_of_optstr o) = true.
Proof. destruct o; reflexivity. Qed.

Lemma str_valid f s : validates_f (S f) schema_ref (s_type "string") (JStr s) = true.
Proof. reflexivity. Qed.
Lemma bool_valid f b : validates_f (S f) schema_ref (s_type "boolean") (JBool b) = true.
Proof. reflexivity. Qed.

Lemma enum_exists t L : smem t L = true -> existsb (scalar_eq (JStr t)) (map JStr L) = true.
Proof.
  unfold smem. induction L as [|a r IH]; cbn; [discriminate|].
  rewrite String.eqb_sym. destruct (String.eqb a t); cbn; [reflexivity | exact IH].
Qed.

Lemma enum_scalars L : forallb is_scalar (map JStr L) = true.
Proof. induction L; cbn; auto. Qed.

Lemma enum_valid f L t : smem t L = true -> validates_f (S f) schema_ref (s_enum L) (JStr t) = true.
Proof.
  intros H. unfold s_enum. vsplit.
  unfold leaves_ok, leaf_kws. cbn [forallb jget String.eqb Ascii.eqb Bool.eqb check_leaf type_ok andb].
  rewrite enum_scalars, (enum_exists t L H). reflexivity.
Qed.

Lemma axis_type_valid f o :
  match o with Some t => smem t valid_axis_types | None => true end = true ->
  validates_f (S (S f)) schema_ref (s_opt (s_enum valid_axis_types)) (jv_of_optstr o) = true.
Proof.
  intros H. destruct o as [t|]; [|reflexivity]. unfold s_opt. vsplit.
  unfold sub_anyof. look. cbn [existsb jv_of_optstr].
  rewrite (enum_valid f _ t H). reflexivity.
Qed.

Lemma axis_valid f a : axis_ok a = true -> validates_f (S (S (S f))) schema_ref axis_schema (axis_to_json a) = true.
Proof.
  unfold axis_ok. intros H. repeat (apply andb_true_iff in H; let K := fresh "K" in destruct H as [H K]).
  unfold axis_schema, axis_to_json. vsplit.
  members.
  rewrite str_valid, (axis_type_valid f _ H), !unit_valid, !opt_num_valid by assumption. reflexivity.
Qed.

Lemma str_min1_valid f s : negb (String.eqb s "") = true -> validates_f (S f) schema_ref s_str_min1 (JStr s) = true.
Proof.
  intros H. unfold s_str_min1. vsplit. destruct s as [|c r]; [discriminate|].
  unfold leaves_ok, leaf_kws. cbn [forallb jget String.eqb Ascii.eqb Bool.eqb check_leaf type_ok andb utf8_len].
  unfold zlen_ge. rewrite Nat2Z.inj_succ. destruct (1 <=? Z.succ (Z.of_nat (count_starts r))) eqn:E; [reflexivity|].
  apply Z.leb_gt in E. lia.
Qed.

Lemma dtype_nonempty d : smem d valid_dtypes = true -> negb (String.eqb d "") = true.
Proof.
  intros H. pose proof (forallb_In _ _ d valid_dtypes_table (proj1 (smem_In _ _) H)) as T.
  unfold dtype_table_ok in T. apply andb_true_iff in T. apply T.
Qed.

Lemma pm_valid f p : pm_okb p = true -> validates_f (S (S (S f))) schema_ref pm_schema (pm_to_json p) = true.
Proof.
  unfold pm_okb. intros H. apply andb_true_iff in H. destruct H as [Hi Hd].
  unfold pm_schema, pm_to_json. vsplit. members.
  rewrite (str_min1_valid _ _ Hi), (str_min1_valid _ _ (dtype_nonempty _ Hd)), bool_valid, !opt_str_valid. reflexivity.
Qed.

Lemma related_valid f r : validates_f (S (S (S f))) schema_ref related_schema (related_to_json r) = true.
Proof.
  unfold related_schema, related_to_json. vsplit. members. rewrite !str_valid, opt_str_valid. reflexivity.
Qed.

Lemma hints_valid f h : validates_f (S (S (S f))) schema_ref hints_schema (hints_to_json h) = true.
Proof.
  unfold hints_schema, hints_to_json. vsplit. members. rewrite !str_valid, !opt_str_valid. reflexivity.
Qed.

Lemma version_valid f v : version_ok v = true ->
  validates_f (S f) schema_ref (JObj [("pattern", JStr version_pattern_lit); ("type", JStr "string")]) (JStr v) = true.
Proof.
  intros H. vsplit.
  unfold leaves_ok, leaf_kws. cbn [forallb jget String.eqb Ascii.eqb Bool.eqb check_leaf type_ok andb].
  rewrite String.eqb_refl, H. reflexivity.
Qed.

Lemma ref_valid f name s d :
  resolve schema_ref ("#/$defs/" ++ name) = Some s -> validates_f f schema_ref s d = true ->
  validates_f (S f) schema_ref (s_ref name) d = true.
Proof.
  intros Hr Hv. unfold s_ref. vsplit.
  unfold sub_ref. look. rewrite Hr. exact Hv.
Qed.

Lemma list_valid {A} f name s (g : A -> jv) l :
  resolve schema_ref ("#/$defs/" ++ name) = Some s ->
  (forall x, In x l -> validates_f f schema_ref s (g x) = true) ->
  validates_f (S (S f)) schema_ref (JObj [("items", s_ref name); ("type", JStr "array")]) (JList (map g l)) = true.
Proof.
  intros Hr H. vsplit. unfold sub_items. look. rewrite forallb_map. apply forallb_forall. intros x Hx.
  apply (ref_valid f name s); [exact Hr | apply H; exact Hx].
Qed.

Lemma opt_list_valid {A} f name s (g : A -> jv) (ok : A -> bool) o :
  resolve schema_ref ("#/$defs/" ++ name) = Some s ->
  (forall x, ok x = true -> validates_f f schema_ref s (g x) = true) ->
  forallb ok (olistb o) = true ->
  validates_f (S (S (S f))) schema_ref (s_opt (JObj [("items", s_ref name); ("type", JStr "array")]))
    (jv_of_opt (fun l => JList (map g l)) o) = true.
Proof.
  intros Hr Hok H. destruct o as [l|]; [|reflexivity]. cbn [jv_of_opt olistb] in *.
  unfold s_opt. vsplit. unfold sub_anyof. look. cbn [existsb].
  rewrite (list_valid f name s g l Hr); [reflexivity|]. intros x Hx. apply Hok. apply (forallb_In _ _ _ H Hx).
Qed.

Lemma pmdict_valid f d : forallb (fun kv => pm_okb (snd kv)) d = true ->
  validates_f (S (S (S (S (S f))))) schema_ref
    (JObj [("additionalProperties", s_ref "PropMetadata"); ("type", JStr "object")]) (pmdict_to_json d) = true.
Proof.
  intros H. unfold pmdict_to_json. vsplit. unfold sub_props. look. rewrite forallb_map. apply forallb_forall.
  intros [k p] Hin. unfold member_ok. cbn [fst snd jget].
  apply (ref_valid _ "PropMetadata" pm_schema); [reflexivity|]. apply pm_valid. apply (forallb_In _ _ _ H Hin).
Qed.

Lemma track_valid f o : forallb (fun kv => smem (fst kv) track_keys) (olistb o) = true ->
  validates_f (S (S (S f))) schema_ref
    (s_opt (JObj [("additionalProperties", s_type "string");
                  ("propertyNames", JObj [("enum", JList (map JStr track_keys))]);
                  ("type", JStr "object")]))
    (jv_of_opt track_to_json o) = true.
Proof.
  intros H. destruct o as [t|]; [|reflexivity]. cbn [jv_of_opt olistb] in *.
  unfold s_opt. vsplit. unfold sub_anyof. look. cbn [existsb]. unfold track_to_json.
  match goal with |- ?x || _ = true => assert (E : x = true); [|rewrite E; reflexivity] end.
  vsplit.
  - unfold sub_propnames. look. rewrite forallb_map. apply forallb_forall. intros [k s] Hin. cbn [fst].
    vsplit. unfold leaves_ok, leaf_kws. cbn [forallb jget String.eqb Ascii.eqb Bool.eqb check_leaf andb].
    rewrite enum_scalars, (enum_exists k track_keys (forallb_In _ _ _ H Hin)). reflexivity.
  - unfold sub_props. look. rewrite forallb_map. apply forallb_forall. intros [k s] _.
    unfold member_ok. cbn [fst snd jget]. apply str_valid.
Qed.

Lemma opt_hints_valid f o :
  validates_f (S (S (S (S (S f))))) schema_ref (s_opt (s_ref "DisplayHint")) (jv_of_opt hints_to_json o) = true.
Proof.
  destruct o as [h|]; [|reflexivity]. cbn [jv_of_opt].
  unfold s_opt. vsplit. unfold sub_anyof. look. cbn [existsb].
  rewrite (ref_valid _ "DisplayHint" hints_schema); [reflexivity | reflexivity | apply hints_valid].
Qed.

Lemma extra_valid f kvs :
  validates_f (S (S f)) schema_ref (JObj [("additionalProperties", JBool true); ("type", JStr "object")])
    (jnull_nonfinite (JObj kvs)) = true.
Proof.
  cbn [jnull_nonfinite]. vsplit. unfold sub_props. look. rewrite forallb_map. apply forallb_forall.
  intros [k v] _. reflexivity.
Qed.

Lemma md_valid f m : inv_md m = true ->
  validates_f (S (S (S (S (S (S (S f))))))) schema_ref md_schema (to_json m) = true.
Proof.
  intros H. split_inv H. unfold md_schema, to_json. vsplit. members.
  rewrite (version_valid _ _ H), bool_valid.
  rewrite (opt_list_valid _ "Axis" axis_schema axis_to_json axis_ok _ eq_refl (axis_valid _) K5).
  rewrite (pmdict_valid _ _ K4), (pmdict_valid _ _ K3), !opt_str_valid, (track_valid _ _ K2).
  rewrite (opt_list_valid _ "RelatedObject" related_schema related_to_json related_okb _ eq_refl (fun x _ => related_valid _ x) K1).
  rewrite opt_hints_valid, extra_valid. reflexivity.
Qed.

Lemma root_valid m : inv_md m = true -> validates schema_ref (wrap (to_json m)) = true.
Proof.
  intros H. unfold validates. change FUEL with (S (S (55 + 7))). unfold wrap.
  unfold schema_ref at 2. rewrite validates_f_obj. apply and9; try reflexivity.
  unfold sub_props. look. cbn [forallb]. unfold member_ok. cbn [fst snd]. look.
  rewrite (ref_valid _ "GeffMetadata" md_schema); [reflexivity | reflexivity |].
  change (55 + 7)%nat with (S (S (S (S (S (S (S 55))))))). apply md_valid. exact H.
Qed.

(* ================================================================== the regenerated schema documents *)
Import Geff.Gen.Schema.

(* the published file is, up to annotations and member order, the schema the proofs above read *)
Lemma published_is_ref : schema_equiv schema_published schema_ref = true.
Proof. vm_compute. reflexivity. Qed.

Lemma valid_published m : inv_md m = true -> validates schema_published (wrap (to_json m)) = true.
Proof. intros H. rewrite (schema_equiv_sound _ _ published_is_ref). apply root_valid. exact H. Qed.

Lemma valid_published_text m : inv_md m = true -> validates schema_published (wrap (to_json_text m)) = true.
Proof. intros H. rewrite (to_json_text_finite m H). apply valid_published. exact H. Qed.

(* no drift: the shipped file and what regenerating it would write today *)
Lemma published_equiv_exported : schema_equiv schema_published schema_exported = true.
Proof. vm_compute. reflexivity. Qed.

Lemma no_drift d : validates schema_published d = validates schema_exported d.
Proof. apply schema_equiv_sound. exact published_equiv_exported. Qed.

(* ... and the pydantic model's own schema with the documented adjustment re-applied in Coq *)
Lemma published_equiv_model : schema_equiv schema_published (require_version schema_model_raw) = true.
Proof. vm_compute. reflexivity. Qed.

Lemma no_drift_model d : validates schema_published d = validates (require_version schema_model_raw) d.
Proof. apply schema_equiv_sound. exact published_equiv_model. Qed.

(* the adjustment matters: without it the two documents disagree on a document without geff_version *)
Definition doc_without_version : jv :=
  JObj [("geff", JObj [("directed", JBool true); ("node_props_metadata", JObj []); ("edge_props_metadata", JObj [])])].

Lemma adjustment_needed :
  validates schema_published doc_without_version = false /\ validates schema_model_raw doc_without_version = true.
Proof. split; vm_compute; reflexivity. Qed.

(* ================================================================== the domain inv_md and the invariants of C07 *)
Lemma inv_md_InvW m : inv_md m = true -> InvW m.
Proof.
  intros H. split_inv H. split.
  - split; [apply version_ok_iff; exact H|].
    split.
    { destruct (md_axes m) as [l|]; [|constructor]. cbn [olist olistb] in *. apply Forall_forall. intros a Ha.
      pose proof (forallb_In _ _ _ K5 Ha) as Hk. unfold axis_ok in Hk.
      do 4 (apply andb_true_iff in Hk; destruct Hk as [Hk _]). apply andb_true_iff in Hk. destruct Hk as [_ Hk].
      destruct (axis_after a) as [a'|] eqn:E; [|discriminate]. apply axis_after_iff in E. apply E. }
    split.
    { apply Forall_forall. intros kv Hin. pose proof (forallb_In _ _ _ K4 Hin) as Hk. unfold pm_okb in Hk.
      apply andb_true_iff in Hk. destruct Hk as [_ Hk]. apply smem_In. exact Hk. }
    split.
    { apply Forall_forall. intros kv Hin. pose proof (forallb_In _ _ _ K3 Hin) as Hk. unfold pm_okb in Hk.
      apply andb_true_iff in Hk. destruct Hk as [_ Hk]. apply smem_In. exact Hk. }
    destruct (md_related m) as [l|]; [|constructor]. cbn [olist olistb] in *. apply Forall_forall. intros r Hr.
    pose proof (forallb_In _ _ _ K1 Hr) as Hk. unfold related_okb in Hk.
    destruct (related_after r) as [r'|] eqn:E; [|discriminate]. apply related_after_iff in E. apply E.
  - apply md_after_ok_iff. exact K0.
Qed.

(* conversely: everything the constructor / parser accepts is in the domain as soon as its numbers are finite *)
Definition axis_finite (a : axis) : bool :=
  optfl_finite (ax_min a) && optfl_finite (ax_max a) && optfl_finite (ax_scale a) && optfl_finite (ax_offset a).

Definition md_finite (m : metadata) : bool :=
  forallb axis_finite (olistb (md_axes m)) && jfinite (JObj (md_extra m)).

Lemma v_opt_literal_ok allowed x o :
  v_opt (v_literal allowed) x = Ok o -> match o with Some t => smem t allowed | None => true end = true.
Proof.
  unfold v_opt. destruct x as [v|]; [|intros H; inversion H; reflexivity].
  destruct v; cbn; intros H; inversion H; try reflexivity.
  destruct (smem s allowed) eqn:E; [|discriminate]. inversion H; subst. exact E.
Qed.

Lemma axis_of_jv_ok v a : axis_of_jv v = Ok a -> axis_finite a = true -> axis_ok a = true.
Proof.
  unfold axis_of_jv. destruct v; try discriminate. intros H Hf.
  destruct (axis_fields kvs) as [a0|] eqn:E; cbn [rbind] in H; [|discriminate].
  pose proof H as H'. apply axis_after_iff in H'. destruct H' as [-> _].
  unfold axis_fields in E. bind_inv E. inversion E; subst. clear E.
  unfold axis_finite in Hf. cbn in Hf. repeat (apply andb_true_iff in Hf; destruct Hf as [Hf ?]).
  unfold axis_ok. cbn [ax_type ax_min ax_max ax_scale ax_offset].
  rewrite (v_opt_literal_ok _ _ _ E1), H. cbn [is_ok andb]. repeat (apply and_split); assumption.
Qed.

Lemma v_str_min1_nonempty v s : v_str_min1 v = Ok s -> negb (String.eqb s "") = true.
Proof.
  unfold v_str_min1. destruct v; try discriminate. destruct (String.eqb s0 "") eqn:E; [discriminate|].
  intros H. inversion H; subst. rewrite E. reflexivity.
Qed.

Lemma propmeta_of_jv_ok v p : propmeta_of_jv v = Ok p -> pm_okb p = true.
Proof.
  intros H. pose proof (propmeta_of_jv_dtype v p H) as Hd.
  unfold propmeta_of_jv in H. destruct v; try discriminate. bind_inv H. inversion H; subst. clear H.
  unfold pm_okb. cbn [pm_identifier pm_dtype] in *. apply and_split; [|apply smem_In; exact Hd].
  unfold v_req in E. destruct (jget "identifier" kvs); [|discriminate]. eapply v_str_min1_nonempty. exact E.
Qed.

Lemma mapM_forallb {A B} (f : A -> res B) (ok : B -> bool) :
  (forall x y, f x = Ok y -> ok y = true) -> forall l l', mapM f l = Ok l' -> forallb ok l' = true.
Proof.
  intros Hf l. induction l as [|x r IH]; intros l' H; cbn in H.
  - inversion H. reflexivity.
  - destruct (f x) as [y|] eqn:E; [|discriminate]. destruct (mapM f r) as [ys|] eqn:Er; [|discriminate].
    inversion H; subst. cbn. rewrite (Hf x y E), (IH ys eq_refl). reflexivity.
Qed.

Lemma v_pmdict_ok v d : v_pmdict v = Ok d -> forallb (fun kv => pm_okb (snd kv)) d = true.
Proof.
  unfold v_pmdict, v_dict. destruct v; try discriminate.
  apply mapM_forallb. intros kv y Hy. cbn in Hy.
  destruct (propmeta_of_jv (snd kv)) as [p|] eqn:Ep; [|discriminate]. inversion Hy; subst. cbn [snd].
  eapply propmeta_of_jv_ok. exact Ep.
Qed.

Lemma v_req_pmdict_ok x d : v_req v_pmdict x = Ok d -> forallb (fun kv => pm_okb (snd kv)) d = true.
Proof. unfold v_req. destruct x; [apply v_pmdict_ok | discriminate]. Qed.

Lemma v_opt_list_ok {A} (f : jv -> res A) (ok : A -> bool) x o :
  (forall v y, f v = Ok y -> ok y = true) -> v_opt (v_list f) x = Ok o -> forallb ok (olistb o) = true.
Proof.
  intros Hf H. unfold v_opt in H. destruct x as [v|]; [|inversion H; reflexivity].
  destruct v; try (inversion H; reflexivity); cbn in H; try discriminate.
  destruct (mapM f l) as [ys|] eqn:E; [|discriminate]. inversion H; subst. cbn [olistb].
  eapply mapM_forallb; eassumption.
Qed.

Lemma v_opt_track_ok x o : v_opt v_track x = Ok o -> forallb (fun kv => smem (fst kv) track_keys) (olistb o) = true.
Proof.
  unfold v_opt. destruct x as [v|]; [|intros H; inversion H; reflexivity].
  destruct v; cbn [v_track v_dict rmap]; try discriminate; [intros H; inversion H; reflexivity|].
  destruct (mapM _ kvs) as [ys|] eqn:E; [|discriminate]. intros H. inversion H; subst. cbn [olistb].
  eapply mapM_forallb; [|exact E]. intros kv y Hy. cbv beta in Hy.
  destruct (smem (fst kv) track_keys) eqn:Ek; [|unfold verr in Hy; discriminate].
  destruct (v_str (snd kv)); [|discriminate]. inversion Hy; subst. exact Ek.
Qed.

Lemma related_of_jv_ok v r : related_of_jv v = Ok r -> related_okb r = true.
Proof.
  unfold related_of_jv. destruct v; try discriminate. intros H. bind_inv H.
  pose proof H as H'. apply related_after_iff in H'. destruct H' as [-> _]. unfold related_okb. rewrite H. reflexivity.
Qed.

Lemma mapM_axis_ok l : forall ys, mapM axis_of_jv l = Ok ys -> forallb axis_finite ys = true -> forallb axis_ok ys = true.
Proof.
  induction l as [|a r IH]; intros ys El Hfa; cbn in El.
  - inversion El. reflexivity.
  - destruct (axis_of_jv a) as [a'|] eqn:Ea'; [|discriminate]. destruct (mapM axis_of_jv r) as [ys'|] eqn:Er; [|discriminate].
    inversion El; subst. cbn in Hfa |- *. apply andb_true_iff in Hfa. destruct Hfa as [F1 F2].
    rewrite (axis_of_jv_ok _ _ Ea' F1), (IH ys' eq_refl F2). reflexivity.
Qed.

Lemma construct_in_domain gv v m :
  version_ok gv = true -> construct gv v = Ok m -> md_finite m = true -> inv_md m = true.
Proof.
  intros Hg H Hf. unfold construct in H. destruct v; try discriminate.
  destruct (md_fields gv kvs) as [m0|] eqn:E; cbn [rbind] in H; [|discriminate].
  pose proof H as H'. apply md_after_iff in H'. destruct H' as [-> _].
  unfold md_after in H. destruct (md_after_ok m0) eqn:Ea; [|discriminate]. clear H.
  unfold md_fields in E. bind_inv E. inversion E; subst. clear E.
  unfold md_finite in Hf. cbn [md_axes md_extra] in Hf. apply andb_true_iff in Hf. destruct Hf as [Hfa Hfe].
  unfold inv_md. cbn [md_version md_axes md_node_props md_edge_props md_track md_related md_extra].
  rewrite Ea, Hfe.
  assert (Hv : version_ok x = true).
  { unfold v_default in E0. destruct (jget "geff_version" kvs) as [vv|]; [|inversion E0; subst; exact Hg].
    unfold v_version in E0. destruct vv; try discriminate. destruct (version_ok s) eqn:Es; [|discriminate].
    inversion E0; subst. exact Es. }
  rewrite Hv, (v_req_pmdict_ok _ _ E3), (v_req_pmdict_ok _ _ E4), (v_opt_track_ok _ _ E7).
  rewrite (v_opt_list_ok related_of_jv related_okb _ _ related_of_jv_ok E8).
  assert (Hax : forallb axis_ok (olistb x1) = true).
  { unfold v_opt in E2. destruct (jget "axes" kvs) as [va|]; [|inversion E2; reflexivity].
    destruct va; try (inversion E2; reflexivity); cbn in E2; try discriminate.
    destruct (mapM axis_of_jv l) as [ys|] eqn:El; [|discriminate]. inversion E2; subst. cbn [olistb] in *.
    eapply mapM_axis_ok; eassumption. }
  rewrite Hax. reflexivity.
Qed.

(* ================================================================== packaged statements for props/C08.v *)
Lemma roundtrip_text_both gv m : inv_md m = true ->
  to_json_text m = to_json m /\ of_json gv (to_json_text m) = Ok m.
Proof. intros H. split; [apply to_json_text_finite; exact H | apply roundtrip_text; exact H]. Qed.

Lemma attrs_all gv m st : inv_md m = true ->
  md_read gv (md_write m st) = Ok m
  /\ attr_get "geff" (md_write m st) = Some (to_json m)
  /\ (forall k, k <> "geff" -> attr_get k (md_write m st) = attr_get k st).
Proof.
  intros H. split; [apply attrs_roundtrip; exact H|]. split; [apply attrs_geff|].
  intros k Hk. apply attrs_foreign. exact Hk.
Qed.

Lemma equiv_all :
  schema_equiv schema_published schema_exported = true
  /\ schema_equiv schema_published (require_version schema_model_raw) = true
  /\ schema_equiv schema_published schema_ref = true.
Proof. split; [exact published_equiv_exported|]. split; [exact published_equiv_model | exact published_is_ref]. Qed.

(* the round trip through JSON text stated for every constructible object (no finiteness guard) *)
Definition roundtrip_text_full : Prop :=
  forall gv v m, version_ok gv = true -> construct gv v = Ok m -> of_json gv (to_json_text m) = Ok m.

Definition inf_axis_md : metadata :=
  mkMD "1.3" true (Some [mkAxis "x" None None (Some NInf) (Some PInf) None None None]) [] [] None None None None None [].

Lemma roundtrip_text_full_refuted : ~ roundtrip_text_full.
Proof.
  intros H. specialize (H "1.3" (to_json inf_axis_md) inf_axis_md eq_refl).
  assert (E : construct "1.3" (to_json inf_axis_md) = Ok inf_axis_md) by (vm_compute; reflexivity).
  specialize (H E). vm_compute in H. discriminate H.
Qed.
