(* SgLemmas.v -- spatial-graph: construct from a geff in the backend's domain (numeric, non-missing, fixed-shape
   properties, >= 1 axis, axis properties of one dtype) gives, through the SgGraphAdapter, exactly the canonical view
   of the geff; writing a spatial graph and reading it back gives the same adapter view. *)
From Geff Require Import Base Dtype DtypeLemmas Vlen VlenLemmas Tree TreeLemmas Validate Write Read RoundTrip WriteLemmas ReadLemmas
     ValidateLayout C01Lemmas Dicts Backends BackendsLemmas DictsLemmas.
From Coq Require Import Lia.
Open Scope string_scope.
Open Scope list_scope.

(* ---------- np.result_type of equal dtypes ---------- *)
Lemma max_bits_const p dt ds : ds <> [] -> Forall (fun d => d = dt) ds -> max_bits p ds = if p dt then bits dt else 0%nat.
Proof. intros Hne H. induction ds as [|d r IH]; [contradiction|]. apply Forall_cons_iff in H. destruct H as [-> Hr].
  cbn [max_bits]. destruct r as [|d' r'].
  - cbn. destruct (p dt); [apply Nat.max_0_r | reflexivity].
  - rewrite IH by (auto; discriminate). destruct (p dt); [apply Nat.max_id | reflexivity]. Qed.

Lemma result_type_const dt ds : ds <> [] -> Forall (fun d => d = dt) ds -> sg_dtype_ok dt = true -> result_type ds = Some dt.
Proof.
  intros Hne H Hok. unfold result_type. destruct ds as [|d r] eqn:E; [contradiction|]. rewrite <- E in *.
  assert (Hnum : forallb is_numeric ds = true).
  { apply forallb_forall. intros x Hx. eapply Forall_forall in H; eauto. subst x. destruct dt; try discriminate; reflexivity. }
  rewrite Hnum. unfold result_type_num. rewrite !(max_bits_const _ dt ds Hne H).
  destruct dt; try discriminate; reflexivity.
Qed.

(* ---------- np.stack / column extraction ---------- *)
Lemma map_nth_seq {A} (l : list A) d : map (fun i => nth i l d) (seq 0 (length l)) = l.
Proof. apply (nth_ext _ _ d d); [rewrite map_length, seq_length; reflexivity|].
  intros i Hi. rewrite map_length, seq_length in Hi.
  rewrite (nth_map_d (fun i => nth i l d) (seq 0 (length l)) i 0%nat d) by (rewrite seq_length; exact Hi).
  rewrite seq_nth by exact Hi. reflexivity. Qed.

Lemma flat_map_concat {A B} (f : A -> list B) l : flat_map f l = List.concat (map f l).
Proof. induction l as [|x l IH]; cbn; [reflexivity | rewrite IH; reflexivity]. Qed.

Lemma size1 k : size [k] = k. Proof. unfold size. cbn. apply Nat.mul_1_r. Qed.

Lemma col_of_stack n dt (cols : list arr) j :
  Forall (fun c => a_dt c = dt /\ length (a_flat c) = n) cols -> j < length cols ->
  col_of (mkarr dt [n; length cols] (stack_cols n dt cols)) j = mkarr dt [n] (a_flat (nth j cols (mkarr dt [] []))).
Proof.
  intros H Hj. unfold col_of. cbn [a_shape a_dt a_flat hd]. f_equal.
  unfold row_size. cbn [a_shape tl]. rewrite size1. unfold stack_cols. rewrite flat_map_concat.
  set (rows := map (fun i => map (fun c : arr => cast_payload (a_dt c) dt (nth i (a_flat c) 0%Z)) cols) (seq 0 n)).
  assert (Hrl : length rows = n) by (unfold rows; rewrite map_length, seq_length; reflexivity).
  rewrite <- Hrl at 1. rewrite chunks_concat.
  - unfold rows. rewrite map_map.
    assert (Hc : a_dt (nth j cols (mkarr dt [] [])) = dt /\ length (a_flat (nth j cols (mkarr dt [] []))) = n).
    { eapply Forall_forall in H; [exact H | apply nth_In; exact Hj]. }
    destruct Hc as [Hdt Hlen].
    etransitivity; [|apply (map_nth_seq (a_flat (nth j cols (mkarr dt [] []))) 0%Z)]. rewrite Hlen.
    apply map_ext. intros i.
    rewrite (nth_map_d (fun c : arr => cast_payload (a_dt c) dt (nth i (a_flat c) 0%Z)) cols j (mkarr dt [] []) 0%Z Hj).
    rewrite Hdt. apply cast_payload_same.
  - unfold rows. apply Forall_forall. intros row Hrow. apply in_map_iff in Hrow. destruct Hrow as [i [<- _]]. apply map_length.
Qed.

(* ---------- attribute dicts without missing values ---------- *)
Definition val_at (p : prop) (i : nat) : cval := match elem_val p i with Ok v => v | Err _ => CScalar SInt 0%Z end.

Lemma attrs_nomissing_fold i : forall ps acc,
  NoDup (akeys acc ++ akeys ps) ->
  (forall kv, In kv ps -> p_missing (snd kv) = None /\ exists v, elem_val (snd kv) i = Ok v) ->
  foldM (fun acc kv => upd_attrs (fst kv) (snd kv) i acc) ps acc = Ok (acc ++ map (fun kv => (fst kv, val_at (snd kv) i)) ps).
Proof.
  induction ps as [|[name p] ps IH]; intros acc Hnd H; cbn [foldM map]; [rewrite app_nil_r; reflexivity|].
  destruct (H (name, p) (or_introl eq_refl)) as [Hm [v Hv]]. cbn [fst snd] in *.
  unfold upd_attrs at 1. rewrite Hv. unfold elem_missing. rewrite Hm.
  assert (Hfresh : alookup name acc = None).
  { apply alookup_none_notin. intro Hin. cbn [akeys map fst] in Hnd. apply NoDup_remove_2 in Hnd. apply Hnd. apply in_or_app. left. exact Hin. }
  rewrite (aset_fresh _ _ _ Hfresh). rewrite IH.
  - rewrite <- app_assoc. cbn [app]. unfold val_at at 2. rewrite Hv. reflexivity.
  - rewrite akeys_app. cbn [akeys map fst]. rewrite <- app_assoc. cbn [app]. exact Hnd.
  - intros kv Hin. apply H. right. exact Hin.
Qed.

Lemma attrs_at_nomissing ps i : NoDup (akeys ps) ->
  (forall kv, In kv ps -> p_missing (snd kv) = None /\ exists v, elem_val (snd kv) i = Ok v) ->
  attrs_at ps i = Ok (map (fun kv => (fst kv, val_at (snd kv) i)) ps).
Proof. intros Hnd H. rewrite attrs_at_foldM. rewrite (attrs_nomissing_fold i ps [] Hnd H). reflexivity. Qed.

(* ---------- the domain of the backend ---------- *)
(* int8[k] / uint8[k]: spatial_graph (0.1.1) hands such an attribute of ONE node / edge (graph.node_attrs[node].name, which is what the
   SgGraphAdapter reads) back as a 0-d bytes array -- Cython turns the char[k] member into a C string: array(b'\x01\x02...', dtype='|S6')
   with an uninitialised tail for nodes -- although the array view graph.node_attrs[nodes].name holds the right int8 rows.  The model
   (canon_sg) reads every vector as a list of k numbers, so 8-bit VECTOR attributes -- and an 8-bit position -- are outside the domain
   of the spatial-graph theorems (open finding sg-8bit-vector-read-as-bytes; third-party). *)
Definition is_8bit (d : dtype) : bool := match d with DI8 | DU8 => true | _ => false end.

Definition sg_arr_ok (n : nat) (a : arr) : Prop :=
  sg_dtype_ok (a_dt a) = true /\
  ((a_shape a = [n] /\ length (a_flat a) = n) \/
   (exists k, a_shape a = [n; k] /\ length (a_flat a) = n * k /\ is_8bit (a_dt a) = false)).

Definition sg_prop_ok (n : nat) (p : prop) : Prop :=
  p_missing p = None /\ exists a, p_vals p = PFixed a /\ sg_arr_ok n a.

Record sg_dom (g : mgraph) (pos : string) (ids : list Z) (es : list (Z * Z)) (names : list string) (dt : dtype) : Prop := {
  sd_wf : wf_geff g ids es;
  sd_nonempty : ids <> [];
  sd_axes : option_map (map ax_name) (md_axes (g_md g)) = Some names;
  sd_names_ne : names <> [];
  sd_names_nodup : NoDup names;
  sd_iddt : sg_dtype_ok (a_dt (g_nids g)) = true;
  sd_nkeys : NoDup (akeys (g_nprops g));
  sd_ekeys : NoDup (akeys (g_eprops g));
  sd_nprops : Forall (fun kv => sg_prop_ok (length ids) (snd kv)) (g_nprops g);
  sd_eprops : Forall (fun kv => sg_prop_ok (length es) (snd kv)) (g_eprops g);
  sd_pos_fresh : ~ In pos (akeys (g_nprops g));
  sd_axis_props : forall nm, In nm names -> exists a, alookup nm (g_nprops g) = Some (mkprop (PFixed a) None) /\
                                                    a_shape a = [length ids] /\ a_dt a = dt;
  sd_dt8 : is_8bit dt = false
}.

Lemma sg_arr_row n a i : sg_arr_ok n a -> i < n -> exists v, row_cval a i = Ok v.
Proof.
  intros [Hdt Hsh] Hi. unfold row_cval.
  assert (Hk : exists k, sk_of (a_dt a) = Some k) by (destruct (a_dt a); try discriminate; eexists; reflexivity).
  destruct Hk as [k Hk]. apply Nat.ltb_lt in Hi.
  destruct Hsh as [[Hs _]|[kk [Hs _]]]; rewrite Hs, Hi, Hk; eexists; reflexivity.
Qed.

Lemma sg_prop_elem n p i : sg_prop_ok n p -> i < n -> p_missing p = None /\ exists v, elem_val p i = Ok v.
Proof. intros [Hm [a [Hv Ha]]] Hi. split; [exact Hm|]. unfold elem_val. rewrite Hv. eapply sg_arr_row; eauto. Qed.

Lemma ndim_le2 n a : sg_arr_ok n a -> Nat.leb (ndim a) 2 = true.
Proof. intros [_ [[Hs _]|[k [Hs _]]]]; unfold ndim; rewrite Hs; reflexivity. Qed.

(* deleting the axis properties from the attribute table *)
Fixpoint adel_all (names : list string) (l : list (string * arr)) : list (string * arr) :=
  match names with [] => l | nm :: r => adel_all r (adel nm l) end.

Lemma ahas_adel_other {V} k k' (l : list (string * V)) : k' <> k -> ahas k' (adel k l) = ahas k' l.
Proof. intro H. unfold ahas. rewrite alookup_adel_other by exact H. reflexivity. Qed.

Lemma foldM_del names : forall l, NoDup names -> (forall nm, In nm names -> ahas nm l = true) ->
  foldM (fun acc nm => if ahas nm acc then Ok (adel nm acc) else Err KeyError) names l = Ok (adel_all names l).
Proof. induction names as [|nm r IH]; intros l Hnd H; [reflexivity|]. cbn [foldM adel_all].
  rewrite (H nm (or_introl eq_refl)). apply NoDup_cons_iff in Hnd. destruct Hnd as [Hnotin Hnd]. apply IH; [exact Hnd|].
  intros nm' Hin. rewrite ahas_adel_other; [apply H; right; exact Hin|]. intro Hc. subst. contradiction. Qed.

Lemma alookup_adel_all names : forall (l : list (string * arr)) k, ~ In k names -> alookup k (adel_all names l) = alookup k l.
Proof. induction names as [|nm r IH]; intros l k Hk; [reflexivity|]. cbn [adel_all].
  rewrite IH by (intro Hc; apply Hk; right; exact Hc). apply alookup_adel_other. intro Hc. apply Hk. left. symmetry. exact Hc. Qed.

Lemma adel_keys_incl {V} k (l : list (string * V)) x : In x (akeys (adel k l)) -> In x (akeys l).
Proof. induction l as [|[k' v] l IH]; cbn; [tauto|]. destruct (String.eqb k k'); cbn; intro H; [right; apply IH; exact H|].
  destruct H as [H|H]; [left; exact H | right; apply IH; exact H]. Qed.
Lemma adel_all_keys_incl names : forall (l : list (string * arr)) x, In x (akeys (adel_all names l)) -> In x (akeys l).
Proof. induction names as [|nm r IH]; intros l x H; [exact H|]. cbn [adel_all] in H. apply IH in H. eapply adel_keys_incl; eauto. Qed.

Lemma forallb_adel {V} (f : string * V -> bool) k l : forallb f l = true -> forallb f (adel k l) = true.
Proof. induction l as [|[k' v] l IH]; cbn; [auto|]. intro H. apply andb_true_iff in H. destruct H as [H1 H2].
  destruct (String.eqb k k'); [apply IH; exact H2|]. cbn. rewrite H1. apply IH. exact H2. Qed.
Lemma forallb_adel_all (f : string * arr -> bool) names : forall l, forallb f l = true -> forallb f (adel_all names l) = true.
Proof. induction names as [|nm r IH]; intros l H; [exact H|]. cbn [adel_all]. apply IH. apply forallb_adel. exact H. Qed.

Lemma forallb_app_1 {A} (f : A -> bool) l x : forallb f l = true -> f x = true -> forallb f (l ++ [x]) = true.
Proof. intros H1 H2. rewrite forallb_app, H1. cbn. rewrite H2. reflexivity. Qed.

Lemma alookup_map_arr (ps : props) k : alookup k (map (fun kv => (fst kv, prop_arr (snd kv))) ps) = option_map prop_arr (alookup k ps).
Proof. induction ps as [|[k' p] ps IH]; cbn; [reflexivity|]. destruct (String.eqb k k'); [reflexivity | exact IH]. Qed.
Lemma akeys_map_arr (ps : props) : akeys (map (fun kv => (fst kv, prop_arr (snd kv))) ps) = akeys ps.
Proof. unfold akeys. rewrite map_map. reflexivity. Qed.

(* SgBackend.construct on a geff of the domain *)
Theorem sg_construct_canon g pos ids es names dt cg :
  sg_dom g pos ids es names dt -> canon_geff g = Ok cg ->
  exists s, sg_construct g pos = Ok s /\
            canon_sg s names (akeys (g_nprops g)) (akeys (g_eprops g)) = Ok cg /\
            sc_directed s = md_directed (g_md g) /\ sc_ndims s = length names /\ sc_nodes s = g_nids g /\ sc_edges s = g_eids g.
Proof.
  intros Hd Hc. pose proof (sd_wf _ _ _ _ _ _ Hd) as Hwf.
  set (n := length ids).
  assert (Hn0 : Nat.eqb n 0 = false) by (apply Nat.eqb_neq; unfold n; pose proof (sd_nonempty _ _ _ _ _ _ Hd); destruct ids; [contradiction | cbn; lia]).
  set (nattrs := map (fun kv : string * prop => (fst kv, prop_arr (snd kv))) (g_nprops g)).
  set (eattrs := map (fun kv : string * prop => (fst kv, prop_arr (snd kv))) (g_eprops g)).
  (* the axis columns *)
  set (colf := fun nm => match alookup nm nattrs with Some a => a | None => mkarr dt [] [] end).
  assert (Hcol : forall nm, In nm names -> alookup nm nattrs = Some (colf nm) /\ a_shape (colf nm) = [n] /\ a_dt (colf nm) = dt /\ length (a_flat (colf nm)) = n).
  { intros nm Hin. destruct (sd_axis_props _ _ _ _ _ _ Hd nm Hin) as [a [Hl [Hs Hdt]]].
    unfold colf, nattrs. rewrite alookup_map_arr, Hl. cbn. repeat split; auto.
    apply alookup_some_in in Hl. pose proof (sd_nprops _ _ _ _ _ _ Hd) as HF. eapply Forall_forall in HF; eauto.
    destruct HF as [_ [a' [Ha' [_ Hsh]]]]. cbn in Ha'. inversion Ha'; subst a'.
    destruct Hsh as [[_ Hlen]|[k [Hs' _]]]; [exact Hlen | rewrite Hs in Hs'; discriminate]. }
  set (cols := map colf names).
  assert (Hcols : mapM (fun nm => match alookup nm nattrs with Some a => Ok a | None => Err KeyError end) names = Ok cols).
  { apply mapM_ok. intros nm Hin. destruct (Hcol nm Hin) as [Hl _]. rewrite Hl. reflexivity. }
  assert (Hcols_all : Forall (fun c => a_dt c = dt /\ length (a_flat c) = n) cols).
  { apply Forall_forall. intros c Hc'. apply in_map_iff in Hc'. destruct Hc' as [nm [<- Hin]]. destruct (Hcol nm Hin) as [_ [_ [H1 H2]]]. auto. }
  assert (Hdtok : sg_dtype_ok dt = true).
  { pose proof (sd_names_ne _ _ _ _ _ _ Hd) as Hne. destruct names as [|nm0 r0] eqn:En; [contradiction|].
    destruct (sd_axis_props _ _ _ _ _ _ Hd nm0 (or_introl eq_refl)) as [a [Hl [_ Hdt]]].
    apply alookup_some_in in Hl. pose proof (sd_nprops _ _ _ _ _ _ Hd) as HF. eapply Forall_forall in HF; eauto.
    destruct HF as [_ [a' [Ha' [Hok _]]]]. cbn in Ha'. inversion Ha'; subst a'. rewrite Hdt in Hok. exact Hok. }
  set (position := mkarr dt [n; length cols] (stack_cols n dt cols)).
  set (nattrs1 := adel_all names nattrs).
  set (nattrs2 := nattrs1 ++ [(pos, position)]).
  assert (Hpos_fresh1 : alookup pos nattrs1 = None).
  { apply alookup_none_notin. intro Hin. apply adel_all_keys_incl in Hin. unfold nattrs in Hin. rewrite akeys_map_arr in Hin.
    exact (sd_pos_fresh _ _ _ _ _ _ Hd Hin). }
  assert (Hcols_len : length cols = length names) by (unfold cols; apply map_length).
  set (s := mksgc (md_directed (g_md g)) (length cols) (g_nids g) pos nattrs2 (g_eids g) eattrs).
  assert (Hnok : forallb (fun kv : string * arr => sg_dtype_ok (a_dt (snd kv))) nattrs = true).
  { apply forallb_forall. intros [k a] Hin. unfold nattrs in Hin. apply in_map_iff in Hin. destruct Hin as [[k' p] [Heq Hin]].
    inversion Heq; subst. pose proof (sd_nprops _ _ _ _ _ _ Hd) as HF. eapply Forall_forall in HF; eauto.
    destruct HF as [_ [a' [Ha' [Hok _]]]]. cbn [snd] in *. unfold prop_arr. rewrite Ha'. exact Hok. }
  assert (Heok : forallb (fun kv : string * arr => sg_dtype_ok (a_dt (snd kv))) eattrs = true).
  { apply forallb_forall. intros [k a] Hin. unfold eattrs in Hin. apply in_map_iff in Hin. destruct Hin as [[k' p] [Heq Hin]].
    inversion Heq; subst. pose proof (sd_eprops _ _ _ _ _ _ Hd) as HF. eapply Forall_forall in HF; eauto.
    destruct HF as [_ [a' [Ha' [Hok _]]]]. cbn [snd] in *. unfold prop_arr. rewrite Ha'. exact Hok. }
  assert (Hnnd : forallb (fun kv : string * arr => Nat.leb (ndim (snd kv)) 2) nattrs = true).
  { apply forallb_forall. intros [k a] Hin. unfold nattrs in Hin. apply in_map_iff in Hin. destruct Hin as [[k' p] [Heq Hin]].
    inversion Heq; subst. pose proof (sd_nprops _ _ _ _ _ _ Hd) as HF. eapply Forall_forall in HF; eauto.
    destruct HF as [_ [a' [Ha' Hok]]]. cbn [snd] in *. unfold prop_arr. rewrite Ha'. eapply ndim_le2; eauto. }
  assert (Hend : forallb (fun kv : string * arr => Nat.leb (ndim (snd kv)) 2) eattrs = true).
  { apply forallb_forall. intros [k a] Hin. unfold eattrs in Hin. apply in_map_iff in Hin. destruct Hin as [[k' p] [Heq Hin]].
    inversion Heq; subst. pose proof (sd_eprops _ _ _ _ _ _ Hd) as HF. eapply Forall_forall in HF; eauto.
    destruct HF as [_ [a' [Ha' Hok]]]. cbn [snd] in *. unfold prop_arr. rewrite Ha'. eapply ndim_le2; eauto. }
  assert (Hposinfo : sg_position n names nattrs = Ok (position, length cols)).
  { unfold sg_position. rewrite Hn0. unfold rbind. rewrite Hcols.
    remember cols as cs eqn:Ecs in |- *.
    destruct cs as [|c0 cr].
    { exfalso. pose proof (sd_names_ne _ _ _ _ _ _ Hd). unfold cols in Ecs. destruct names; [contradiction | discriminate]. }
    cbv iota. rewrite Ecs. assert (Ecols : cols = c0 :: cr) by (symmetry; exact Ecs).
    assert (Hc0 : In c0 cols) by (rewrite Ecols; left; reflexivity).
    assert (Hshapes : forallb (fun c => natlist_eqb (a_shape c) (a_shape c0)) cols = true).
    { apply forallb_forall. intros c Hc'. pose proof Hc0 as Hc0'.
      unfold cols in Hc', Hc0'. apply in_map_iff in Hc'. destruct Hc' as [nm [<- Hin]].
      apply in_map_iff in Hc0'. destruct Hc0' as [nm0 [<- Hin0]].
      destruct (Hcol nm Hin) as [_ [H1 _]]. destruct (Hcol nm0 Hin0) as [_ [H2 _]]. rewrite H1, H2. apply natlist_eqb_eq. reflexivity. }
    rewrite Hshapes. cbn [negb].
    rewrite (result_type_const dt (map a_dt cols)).
    - unfold cols in Hc0. apply in_map_iff in Hc0. destruct Hc0 as [nm0 [Hc0 Hin0]]. destruct (Hcol nm0 Hin0) as [_ [H2 _]].
      unfold ndim. rewrite <- Hc0, H2. cbn [length Nat.eqb negb]. reflexivity.
    - rewrite Ecols. discriminate.
    - apply Forall_forall. intros d0 Hd0. apply in_map_iff in Hd0. destruct Hd0 as [c [<- Hc']].
      eapply Forall_forall in Hcols_all; eauto. tauto.
    - exact Hdtok. }
  assert (Hs : sg_construct g pos = Ok s).
  { unfold sg_construct. rewrite (wg_nodes _ _ _ Hwf). cbn [rbind]. fold n.
    pose proof (sd_axes _ _ _ _ _ _ Hd) as Hax. destruct (md_axes (g_md g)) as [axs|] eqn:Eax; [|discriminate].
    cbn in Hax. inversion Hax as [Hnm]. pose proof (sd_names_ne _ _ _ _ _ _ Hd) as Hne.
    destruct axs as [|ax0 axr] eqn:Eaxs; [cbn in Hnm; subst names; contradiction|]. rewrite <- Eaxs in *. clear Eaxs.
    cbn [rbind]. rewrite Hnm. fold nattrs eattrs. rewrite Hposinfo. cbn [rbind].
    rewrite (foldM_del names nattrs (sd_names_nodup _ _ _ _ _ _ Hd)).
    - cbn [rbind]. fold nattrs1. rewrite (aset_fresh _ _ _ Hpos_fresh1). fold nattrs2.
      rewrite (sd_iddt _ _ _ _ _ _ Hd).
      assert (H2ok : forallb (fun kv : string * arr => sg_dtype_ok (a_dt (snd kv))) nattrs2 = true).
      { unfold nattrs2. apply forallb_app_1; [apply forallb_adel_all; exact Hnok | exact Hdtok]. }
      rewrite H2ok, Heok. cbn [andb negb].
      assert (H2nd : forallb (fun kv : string * arr => Nat.leb (ndim (snd kv)) 2) nattrs2 = true).
      { unfold nattrs2. apply forallb_app_1; [apply forallb_adel_all; exact Hnnd | reflexivity]. }
      rewrite H2nd, Hn0. cbn [andb negb]. rewrite (wg_edges _ _ _ Hwf). cbn [rbind].
      destruct es as [|e0 er] eqn:Ees; [reflexivity|]. cbv iota. rewrite <- Ees in *. rewrite Hend. cbn [negb].
      assert (Hep : forallb (fun e : Z * Z => zmem (fst e) ids && zmem (snd e) ids) es = true).
      { apply forallb_forall. intros e Hin. destruct (wg_endpoints _ _ _ Hwf e Hin) as [Hu Hv].
        apply andb_true_iff. split; apply zmem_In; assumption. }
      rewrite Hep. reflexivity.
    - intros nm Hin. destruct (Hcol nm Hin) as [Hl _]. apply ahas_true. eexists. exact Hl. }
  exists s. split; [exact Hs|]. split; [|unfold s; cbn; rewrite Hcols_len; auto].
  (* the adapter view *)
  destruct (canon_geff_unpack g ids es cg Hwf Hc) as [na [ea [-> [Hna [Hea [Hn He]]]]]].
  assert (Hnval : forall i, i < n -> nth i na [] = map (fun kv => (fst kv, val_at (snd kv) i)) (g_nprops g)).
  { intros i Hi. pose proof (Hn i Hi) as H1.
    rewrite (attrs_at_nomissing (g_nprops g) i (sd_nkeys _ _ _ _ _ _ Hd)) in H1.
    - inversion H1. reflexivity.
    - intros kv Hin. pose proof (sd_nprops _ _ _ _ _ _ Hd) as HF. eapply Forall_forall in HF; eauto. eapply sg_prop_elem; eauto. }
  assert (Heval : forall j, j < length es -> nth j ea [] = map (fun kv => (fst kv, val_at (snd kv) j)) (g_eprops g)).
  { intros j Hj. pose proof (He j Hj) as H1.
    rewrite (attrs_at_nomissing (g_eprops g) j (sd_ekeys _ _ _ _ _ _ Hd)) in H1.
    - inversion H1. reflexivity.
    - intros kv Hin. pose proof (sd_eprops _ _ _ _ _ _ Hd) as HF. eapply Forall_forall in HF; eauto. eapply sg_prop_elem; eauto. }
  unfold canon_sg. cbn [sc_nodes sc_edges s]. rewrite (wg_nodes _ _ _ Hwf), (wg_edges _ _ _ Hwf). cbn [rbind].
  (* node rows *)
  assert (Hnodeprop : forall i nm p, i < n -> In (nm, p) (g_nprops g) -> sg_node_prop s names i nm = Ok (val_at p i)).
  { intros i nm p Hi Hin.
    pose proof (sd_nprops _ _ _ _ _ _ Hd) as HF. eapply Forall_forall in HF; eauto. cbn [snd] in HF.
    destruct (sg_prop_elem _ _ i HF Hi) as [_ [v Hv]].
    assert (Hlk : alookup nm (g_nprops g) = Some p) by (apply alookup_in_nodup; [exact (sd_nkeys _ _ _ _ _ _ Hd) | exact Hin]).
    unfold sg_node_prop. cbn [sc_pos sc_nattrs s].
    assert (Hposl : alookup pos nattrs2 = Some position).
    { unfold nattrs2. rewrite alookup_app, Hpos_fresh1. cbn. rewrite String.eqb_refl. reflexivity. }
    destruct (index_of nm names) as [ix|] eqn:Eix.
    - rewrite Hposl.
      assert (Hix : ix < length names /\ nth ix names "" = nm).
      { clear -Eix. revert ix Eix. induction names as [|x r IH]; intros ix E; cbn in E; [discriminate|].
        destruct (String.eqb nm x) eqn:Ex.
        - inversion E; subst. apply String.eqb_eq in Ex. cbn. split; [lia | symmetry; exact Ex].
        - destruct (index_of nm r) as [j|]; [|discriminate]. inversion E; subst. destruct (IH j eq_refl) as [H1 H2]. cbn. split; [lia | exact H2]. }
      destruct Hix as [Hixl Hixn].
      assert (Hinn : In nm names) by (rewrite <- Hixn; apply nth_In; exact Hixl).
      unfold position. rewrite (col_of_stack n dt cols ix Hcols_all) by (rewrite Hcols_len; exact Hixl).
      assert (Hcx : nth ix cols (mkarr dt [] []) = colf nm).
      { unfold cols. rewrite (nth_map_d colf names ix "" (mkarr dt [] [])) by exact Hixl. rewrite Hixn. reflexivity. }
      rewrite Hcx. destruct (Hcol nm Hinn) as [Hl [Hsh [Hdt Hlen]]].
      unfold nattrs in Hl. rewrite alookup_map_arr, Hlk in Hl. cbn [option_map] in Hl. injection Hl as Hpa.
      unfold val_at, elem_val. destruct (sd_axis_props _ _ _ _ _ _ Hd nm Hinn) as [a [Hla [Hsa Hda]]].
      rewrite Hlk in Hla. injection Hla as Hp. subst p. cbn [p_vals]. cbn [prop_arr p_vals] in Hpa. rewrite <- Hpa.
      assert (Heqarr : mkarr dt [n] (a_flat a) = a).
      { clear -Hsa Hda. destruct a as [adt ash afl]. cbn [a_shape a_dt a_flat] in Hsa, Hda |- *. rewrite Hsa, Hda. reflexivity. }
      rewrite Heqarr. unfold elem_val in Hv. cbn [p_vals] in Hv. rewrite Hv. reflexivity.
    - assert (Hnotin : ~ In nm names).
      { clear -Eix. induction names as [|x r IH]; cbn in *; [tauto|]. destruct (String.eqb nm x) eqn:Ex; [discriminate|].
        destruct (index_of nm r); [discriminate|]. intros [H|H]; [subst; rewrite String.eqb_refl in Ex; discriminate | apply IH; auto]. }
      assert (Hne : nm <> pos).
      { intro Hc'. subst nm. apply (sd_pos_fresh _ _ _ _ _ _ Hd). apply in_map_iff. exists (pos, p). split; [reflexivity | exact Hin]. }
      assert (Hl2 : alookup nm nattrs2 = Some (prop_arr p)).
      { unfold nattrs2. rewrite alookup_app. unfold nattrs1. rewrite alookup_adel_all by exact Hnotin.
        unfold nattrs. rewrite alookup_map_arr, Hlk. reflexivity. }
      rewrite Hl2. unfold val_at, elem_val. destruct HF as [_ [a [Ha _]]]. unfold prop_arr. rewrite Ha.
      unfold elem_val in Hv. rewrite Ha in Hv. rewrite Hv. reflexivity. }
  assert (Hnrows : mapM (fun ii : nat * Z =>
             match mapM (fun nm => match sg_node_prop s names (fst ii) nm with Ok v => Ok (nm, v) | Err e => Err e end) (akeys (g_nprops g)) with
             | Ok at_ => Ok (snd ii, at_) | Err e => Err e end) (combine (seq 0 (length ids)) ids) = Ok (combine ids na)).
  { apply mapM_ext_ok; [rewrite !combine_length, seq_length; lia|].
    intros i da db Hi. rewrite combine_length, seq_length, Nat.min_id in Hi.
    rewrite (nth_indep _ da (0%nat, 0%Z)) by (rewrite combine_length, seq_length, Nat.min_id; exact Hi).
    rewrite (nth_indep _ db (0%Z, [])) by (rewrite combine_length; lia).
    rewrite !combine_nth by (try rewrite seq_length; lia). rewrite seq_nth by exact Hi. cbn [fst snd Nat.add].
    rewrite (Hnval i Hi).
    assert (Hm : mapM (fun nm => match sg_node_prop s names i nm with Ok v => Ok (nm, v) | Err e => Err e end) (akeys (g_nprops g))
                 = Ok (map (fun kv => (fst kv, val_at (snd kv) i)) (g_nprops g))).
    { unfold akeys. apply mapM_ext_ok; [rewrite !map_length; reflexivity|].
      intros j dj dk Hj. rewrite map_length in Hj.
      rewrite (nth_map_d fst (g_nprops g) j ("", mkprop (PVlen []) None) dj Hj).
      rewrite (nth_map_d (fun kv : string * prop => (fst kv, val_at (snd kv) i)) (g_nprops g) j ("", mkprop (PVlen []) None) dk Hj).
      destruct (nth j (g_nprops g) ("", mkprop (PVlen []) None)) as [nm p] eqn:Ej. cbn [fst snd].
      rewrite (Hnodeprop i nm p Hi); [reflexivity|]. rewrite <- Ej. apply nth_In. exact Hj. }
    rewrite Hm. reflexivity. }
  unfold rbind. rewrite Hnrows.
  assert (Herows : mapM (fun ie : nat * (Z * Z) =>
             match mapM (fun nm => match alookup nm (sc_eattrs s) with
                                   | None => Err OtherExn
                                   | Some a => match row_cval a (fst ie) with Ok v => Ok (nm, v) | Err e => Err e end
                                   end) (akeys (g_eprops g)) with
             | Ok at_ => Ok (snd ie, at_) | Err e => Err e end) (combine (seq 0 (length es)) es) = Ok (combine es ea)).
  { apply mapM_ext_ok; [rewrite !combine_length, seq_length; lia|].
    intros j da db Hj. rewrite combine_length, seq_length, Nat.min_id in Hj.
    rewrite (nth_indep _ da (0%nat, (0%Z, 0%Z))) by (rewrite combine_length, seq_length, Nat.min_id; exact Hj).
    rewrite (nth_indep _ db ((0%Z, 0%Z), [])) by (rewrite combine_length; lia).
    rewrite !combine_nth by (try rewrite seq_length; lia). rewrite seq_nth by exact Hj. cbn [fst snd Nat.add].
    rewrite (Heval j Hj).
    assert (Hm : mapM (fun nm => match alookup nm (sc_eattrs s) with
                                 | None => Err OtherExn
                                 | Some a => match row_cval a j with Ok v => Ok (nm, v) | Err e => Err e end
                                 end) (akeys (g_eprops g))
                 = Ok (map (fun kv => (fst kv, val_at (snd kv) j)) (g_eprops g))).
    { unfold akeys. apply mapM_ext_ok; [rewrite !map_length; reflexivity|].
      intros q dj dk Hq. rewrite map_length in Hq.
      rewrite (nth_map_d fst (g_eprops g) q ("", mkprop (PVlen []) None) dj Hq).
      rewrite (nth_map_d (fun kv : string * prop => (fst kv, val_at (snd kv) j)) (g_eprops g) q ("", mkprop (PVlen []) None) dk Hq).
      destruct (nth q (g_eprops g) ("", mkprop (PVlen []) None)) as [nm p] eqn:Eq. cbn [fst snd sc_eattrs s].
      assert (Hin : In (nm, p) (g_eprops g)) by (rewrite <- Eq; apply nth_In; exact Hq).
      assert (Hlk : alookup nm (g_eprops g) = Some p) by (apply alookup_in_nodup; [exact (sd_ekeys _ _ _ _ _ _ Hd) | exact Hin]).
      unfold eattrs. rewrite alookup_map_arr, Hlk. cbn [option_map].
      pose proof (sd_eprops _ _ _ _ _ _ Hd) as HF. eapply Forall_forall in HF; eauto. cbn [snd] in HF.
      destruct (sg_prop_elem _ _ j HF Hj) as [_ [v Hv]]. destruct HF as [_ [a [Ha _]]].
      unfold prop_arr, val_at, elem_val. rewrite Ha. unfold elem_val in Hv. rewrite Ha in Hv. rewrite Hv. reflexivity. }
    rewrite Hm. reflexivity. }
  rewrite Herows. reflexivity.
Qed.

(* ================= the backends agree ================= *)
(* one well-formed in-memory geff, constructed through the three backends: the adapter views coincide -- they all
   are the canonical view of the geff (spatial-graph on its domain) *)
Theorem backends_agree g ids es cg :
  wf_geff g ids es -> props_fit (length ids) (g_nprops g) -> props_fit (length es) (g_eprops g) ->
  canon_geff g = Ok cg ->
  nx_construct g = Ok cg /\
  (exists r, rx_construct g = Ok r /\ canon_rx r = Some cg) /\
  (forall pos names dt, sg_dom g pos ids es names dt ->
     exists s, sg_construct g pos = Ok s /\ canon_sg s names (akeys (g_nprops g)) (akeys (g_eprops g)) = Ok cg).
Proof.
  intros Hwf Hfn Hfe Hc. split; [|split].
  - eapply nx_construct_canon; eauto.
  - eapply rx_construct_canon; eauto.
  - intros pos names dt Hd. destruct (sg_construct_canon g pos ids es names dt cg Hd Hc) as [s [Hs [Hv _]]]. exists s. auto.
Qed.
