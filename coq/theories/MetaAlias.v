(* MetaAlias.v -- the operations of Meta.v with the PropMetadata INSTANCES made explicit (C07, audit F4):
   pydantic does not copy a model instance it is given, so one PropMetadata object can sit in the node
   and in the edge dictionary of a GeffMetadata (and in several GeffMetadata objects), copy.deepcopy
   preserves that sharing inside the copy, shallow copies (copy.copy, model_copy()) share everything
   with the original, and add_or_update_props_metadata assigns to .dtype / .varlength of the instance
   it finds -- IN PLACE, on its deep copy.

   PropMetadata instances live in a heap (addresses = positions); a metadata object refers to them by
   address (dictionaries in insertion order: key -> address); everything else in a GeffMetadata is never
   mutated in place by the operations of the property and stays a value (ao_md; its two property
   dictionaries are ignored).  `view h o` is what model_dump() shows.

   Where sharing comes from: the caller.  AConstruct / AAssign carry the list `sh` of keys for which the
   caller passed, in one dictionary, the very instance that the object holds (or is given) under the same
   key in the other dictionary.  With sh = [] everywhere this model is Meta.run (MetaAliasLemmas).
   Model only. *)
From Geff Require Import Base Meta.
From Geff.Gen Require Import Consts.
Open Scope string_scope.
Open Scope list_scope.

Definition pheap := list prop_meta.
Definition refs := list (string * nat).

Record aobj := mkAO { ao_md : metadata; ao_node : refs; ao_edge : refs }.

Definition pm_dummy : prop_meta := mkPM "" "" false None None None.
Definition hget (h : pheap) (a : nat) : prop_meta := nth a h pm_dummy.
Fixpoint hset (h : pheap) (a : nat) (c : prop_meta) : pheap :=
  match h, a with
  | [], _ => []
  | _ :: r, O => c :: r
  | x :: r, S a' => x :: hset r a' c
  end.

Definition deref (h : pheap) (r : refs) : pmdict := map (fun kr => (fst kr, hget h (snd kr))) r.

Definition with_props (m : metadata) (n e : pmdict) : metadata :=
  mkMD (md_version m) (md_directed m) (md_axes m) n e (md_sphere m) (md_ellipsoid m) (md_track m)
       (md_related m) (md_hints m) (md_extra m).

(* what model_dump() of the object shows *)
Definition view (h : pheap) (o : aobj) : metadata :=
  with_props (ao_md o) (deref h (ao_node o)) (deref h (ao_edge o)).

Fixpoint ref_of (k : string) (r : refs) : option nat :=
  match r with
  | [] => None
  | (k', a) :: t => if String.eqb k k' then Some a else ref_of k t
  end.

(* a validated dictionary becomes instances: a new cell per entry -- except that an entry whose key is
   in sh reuses the cell that `other` holds under the same key (the caller passed that very instance;
   its content then is the validated entry) *)
Fixpoint alloc_sh (h : pheap) (d : pmdict) (other : refs) (sh : list string) : pheap * refs :=
  match d with
  | [] => (h, [])
  | (k, p) :: r =>
      match (if smem k sh then ref_of k other else None) with
      | Some a =>
          if pm_eqb (hget h a) p
          then let hr := alloc_sh h r other sh in (fst hr, (k, a) :: snd hr)
          else let hr := alloc_sh (h ++ [p]) r other sh in (fst hr, (k, List.length h) :: snd hr)
      | None => let hr := alloc_sh (h ++ [p]) r other sh in (fst hr, (k, List.length h) :: snd hr)
      end
  end.
Definition alloc (h : pheap) (d : pmdict) : pheap * refs := alloc_sh h d [] [].

(* copy.deepcopy: new cells, the sharing pattern inside the object is kept (memo: old address -> new) *)
Fixpoint memo_get (a : nat) (memo : list (nat * nat)) : option nat :=
  match memo with
  | [] => None
  | (x, y) :: t => if Nat.eqb a x then Some y else memo_get a t
  end.
Fixpoint copy_refs (memo : list (nat * nat)) (h : pheap) (r : refs) : (list (nat * nat) * pheap) * refs :=
  match r with
  | [] => (memo, h, [])
  | (k, a) :: t =>
      match memo_get a memo with
      | Some a' => let x := copy_refs memo h t in (fst x, (k, a') :: snd x)
      | None => let x := copy_refs ((a, List.length h) :: memo) (h ++ [hget h a]) t in
                (fst x, (k, List.length h) :: snd x)
      end
  end.
Definition deepcopy (h : pheap) (o : aobj) : pheap * aobj :=
  let x := copy_refs [] h (ao_node o) in
  let y := copy_refs (fst (fst x)) (snd (fst x)) (ao_edge o) in
  (snd (fst y), mkAO (ao_md o) (snd x) (snd y)).

(* the loop of add_or_update_props_metadata on the deep copy: an existing key is updated through its
   instance, in place; a new key goes to md_dict *)
Fixpoint aprops_loop (h : pheap) (ex : refs) (fresh : pmdict) (ps : list prop_meta) : pheap * pmdict :=
  match ps with
  | [] => (h, fresh)
  | p :: r =>
      match ref_of (pm_identifier p) ex with
      | Some a =>
          let old := hget h a in
          aprops_loop (hset h a (mkPM (pm_identifier old) (pm_dtype p) (pm_varlength p)
                                      (pm_unit old) (pm_name old) (pm_description old))) ex fresh r
      | None => aprops_loop h ex (pm_set fresh (pm_identifier p) p) r
      end
  end.

Inductive copy_kind :=
| CDeep        (* copy.deepcopy, model_copy(deep=True) *)
| CShallow     (* copy.copy, model_copy() *)
| CRebuild.    (* write + read, model_dump_json + model_validate_json: a fresh object without sharing *)

Inductive aop :=
| AConstruct (kw : jv) (sh : list string)
| AAssign (i : nat) (f : field) (v : jv) (sh : list string)
| ACopy (i : nat) (how : copy_kind)
| AUpdateAxes (i : nat) (ls : axlists)
| ACreateOrUpdate (i : option nat) (directed axes : jv)
| AAddProps (i : nat) (props ctype : jv)
| AAxesFromLists (ls : axlists).

Record astate := mkAS { as_heap : pheap; as_pool : list aobj }.

Definition apush (s : astate) (h : pheap) (o : aobj) : astate * res unit :=
  (mkAS h (as_pool s ++ [o]), Ok tt).

Fixpoint apool_set (p : list aobj) (i : nat) (o : aobj) : list aobj :=
  match p, i with
  | [], _ => []
  | _ :: r, O => o :: r
  | x :: r, S j => x :: apool_set r j o
  end.

(* the object after pydantic has stored the validated value m1 of field f (before the mode="after" validator
   runs): a property dictionary becomes instances, every other field is a value *)
Definition stored_obj (h : pheap) (ob : aobj) (f : field) (m1 : metadata) (sh : list string) : pheap * aobj :=
  match f with
  | FNodeProps => let n := alloc_sh h (md_node_props m1) (ao_edge ob) sh in (fst n, mkAO m1 (snd n) (ao_edge ob))
  | FEdgeProps => let e := alloc_sh h (md_edge_props m1) (ao_node ob) sh in (fst e, mkAO m1 (ao_node ob) (snd e))
  | _ => (h, mkAO m1 (ao_node ob) (ao_edge ob))
  end.

Definition astep (gv : string) (s : astate) (o : aop) : astate * res unit :=
  let h := as_heap s in
  match o with
  | AConstruct kw sh =>
      match construct gv kw with
      | Err e => (s, Err e)
      | Ok m =>
          let n := alloc h (md_node_props m) in
          let e := alloc_sh (fst n) (md_edge_props m) (snd n) sh in
          apush s (fst e) (mkAO m (snd n) (snd e))
      end
  | AAssign i f v sh =>
      (* GeffMetadata.__setattr__ as the code runs it: snapshot of __dict__; pydantic validates the value with
         the field's validator (nothing stored on failure), STORES it, then runs the mode="after" validator
         on the object; on a validation error __setattr__ puts the snapshot back *)
      match nth_error (as_pool s) i with
      | None => (s, no_object)
      | Some ob =>
          match set_field (view h ob) f v with
          | Err e => (s, Err e)
          | Ok m1 =>
              let stored := stored_obj h ob f m1 sh in
              let p1 := apool_set (as_pool s) i (snd stored) in
              match md_after (view (fst stored) (snd stored)) with
              | Ok _ => (mkAS (fst stored) p1, Ok tt)
              | Err e => (mkAS (fst stored) (apool_set p1 i ob), Err e)
              end
          end
      end
  | ACopy i how =>
      match nth_error (as_pool s) i with
      | None => (s, no_object)
      | Some ob =>
          match how with
          | CDeep => let c := deepcopy h ob in apush s (fst c) (snd c)
          | CShallow => apush s h ob
          | CRebuild =>
              let n := alloc h (deref h (ao_node ob)) in
              let e := alloc (fst n) (deref h (ao_edge ob)) in
              apush s (fst e) (mkAO (ao_md ob) (snd n) (snd e))
          end
      end
  | AUpdateAxes i ls =>
      match nth_error (as_pool s) i with
      | None => (s, no_object)
      | Some ob =>
          match update_metadata_axes (view h ob) ls with
          | Err e => (s, Err e)
          | Ok m' => apush s h (mkAO m' (ao_node ob) (ao_edge ob))        (* model_copy(): shallow *)
          end
      end
  | ACreateOrUpdate None d a =>
      match create_or_update_metadata gv None d a with
      | Err e => (s, Err e)
      | Ok m' => apush s h (mkAO m' [] [])
      end
  | ACreateOrUpdate (Some i) d a =>
      match nth_error (as_pool s) i with
      | None => (s, no_object)
      | Some ob =>
          (* copy.deepcopy first, then the three assignments on the copy: a rejected one leaves the copy behind *)
          let c := deepcopy h ob in
          match create_or_update_metadata gv (Some (view (fst c) (snd c))) d a with
          | Err e => (mkAS (fst c) (as_pool s), Err e)
          | Ok m' => apush (mkAS (fst c) (as_pool s)) (fst c) (mkAO m' (ao_node (snd c)) (ao_edge (snd c)))
          end
      end
  | AAddProps i props ctype =>
      match nth_error (as_pool s) i with
      | None => (s, no_object)
      | Some ob =>
          match v_list propmeta_of_jv props with
          | Err e => (s, Err e)
          | Ok ps =>
              match v_literal ["node"; "edge"] ctype with
              | Err e => (s, Err e)
              | Ok ct =>
                  let c := deepcopy h ob in
                  let ob1 := snd c in
                  let node := String.eqb ct "node" in
                  let ex := if node then ao_node ob1 else ao_edge ob1 in
                  let l := aprops_loop (fst c) ex [] ps in
                  let nw := alloc (fst l) (snd l) in
                  apush s (fst nw)
                        (if node then mkAO (ao_md ob1) (ex ++ snd nw) (ao_edge ob1)
                         else mkAO (ao_md ob1) (ao_node ob1) (ex ++ snd nw))
              end
          end
      end
  | AAxesFromLists ls =>
      match axes_from_lists ls with Ok _ => (s, Ok tt) | Err e => (s, Err e) end
  end.

Fixpoint arun (gv : string) (s : astate) (ops : list aop) : astate :=
  match ops with
  | [] => s
  | o :: r => arun gv (fst (astep gv s o)) r
  end.

Definition views (s : astate) : pool := map (view (as_heap s)) (as_pool s).

Definition empty_state : astate := mkAS [] [].

(* forgetting the instances: the operation of Meta.v *)
Definition erase (o : aop) : op :=
  match o with
  | AConstruct kw _ => OConstruct kw
  | AAssign i f v _ => OAssign i f v
  | ACopy i _ => OCopy i
  | AUpdateAxes i ls => OUpdateAxes i ls
  | ACreateOrUpdate i d a => OCreateOrUpdate i d a
  | AAddProps i ps ct => OAddProps i ps ct
  | AAxesFromLists ls => OAxesFromLists ls
  end.
Definition no_sharing (o : aop) : bool :=
  match o with
  | AConstruct _ sh | AAssign _ _ _ sh => match sh with [] => true | _ => false end
  | _ => true
  end.
