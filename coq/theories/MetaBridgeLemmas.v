(* MetaBridgeLemmas.v -- the full metadata pipeline of write_arrays (MetaBridge.stored_md) against the reduced one
   (Write.final_metadata), the C10 statements on the FULL object, and the composition with C07 / C08:
     simulation           final_metadata g (abs I m) = rmap (abs I) (stored_md g m)
     stored_fields / stored_entries_kept / stored_entry / stored_minmax    C10 on the full object, field by field
     stored_InvW / stored_inv_md / stored_valid / stored_readback          invariants, schema validity, read-back
     end_to_end           write_arrays + validate_structure + read_to_memory + the above on one store *)
From Geff Require Import Base Dtype DtypeLemmas Vlen VlenLemmas Tree TreeLemmas Validate Write Read RoundTrip
                         WriteLemmas ReadLemmas C01Lemmas C10Lemmas MetaBridge.
From Geff Require Meta MetaLemmas Json MetaJson MetaJsonLemmas Schema.
From Geff.Gen Require Import Consts.
From Geff.Gen Require Schema.
Open Scope string_scope.
Open Scope list_scope.

(* ================================================================== small list facts *)
Lemma fold_left_map {A B C} (f : A -> B -> A) (g : C -> B) l : forall a,
  fold_left f (map g l) a = fold_left (fun acc x => f acc (g x)) l a.
Proof. induction l as [|x r IH]; intros a; cbn; [reflexivity | apply IH]. Qed.

Lemma aset_app_found {V} k (v : V) l l' : alookup k l <> None -> aset k v (l ++ l') = aset k v l ++ l'.
Proof. induction l as [|[k' v'] r IH]; cbn; [congruence|]. destruct (String.eqb k k'); [reflexivity|].
  intros H. rewrite IH by exact H. reflexivity. Qed.

Lemma akeys_map_snd {V W} (f : string * V -> W) (l : list (string * V)) :
  akeys (map (fun kv => (fst kv, f kv)) l) = akeys l.
Proof. unfold akeys. rewrite map_map. reflexivity. Qed.

(* ================================================================== dtype names *)
Lemma dtype_of_name_name d : dtype_of_name (dtype_name d) = d.
Proof. destruct d; reflexivity. Qed.

Lemma abs_full_pm I k d vl : abs_pm I (full_pm k (mkpm d vl None None None)) = mkpm d vl None None None.
Proof. unfold abs_pm, full_pm. cbn. rewrite dtype_of_name_name. reflexivity. Qed.

(* ================================================================== back-fill *)
Lemma backfill_abs I nids m nprops :
  backfill nids (abs I m) nprops = backfill_names nids (axes_names_opt m) nprops.
Proof. unfold backfill, backfill_names, axes_names_opt, abs. cbn [md_axes].
  destruct nprops as [ps|]; [|reflexivity]. destruct (Meta.md_axes m) as [axes|]; cbn [option_map]; [|reflexivity].
  destruct (option_eqb Nat.eqb (len0 nids) (Some 0%nat)); [|reflexivity]. f_equal.
  rewrite !fold_left_map. reflexivity. Qed.

(* ================================================================== property entries: the two merges agree *)
Definition tokens_none (pm : pmeta) : Prop := pm_unit pm = None /\ pm_name pm = None /\ pm_descr pm = None.

Lemma tokens_none_eq pm : tokens_none pm -> pm = mkpm (pm_dtype pm) (pm_varlength pm) None None None.
Proof. destruct pm as [d v u n de]. intros [H1 [H2 H3]]. cbn in *. subst. reflexivity. Qed.

Lemma props_meta_tokens ps : Forall (fun kv => tokens_none (snd kv)) (props_meta ps).
Proof. unfold props_meta. induction ps as [|[k p] r IH]; cbn; [constructor|].
  destruct (create_props_metadata k p) as [pm|] eqn:E; cbn; [|exact IH]. constructor; [|exact IH]. cbn.
  apply cpm_core_of_ok in E; unfold cpm_core in E. destruct (p_vals (upcast_prop p)) as [a|[|e0 r0]]; try discriminate.
  - destruct (valid_prop_dtype (a_dt a) && negb (k =? "")); inversion E; subst. repeat split.
  - destruct (forallb _ r0); [|discriminate]. destruct (valid_prop_dtype (v_dt e0) && negb (k =? "")); inversion E; subst. repeat split. Qed.

Lemma pm_haskey_spec k d : Meta.pm_haskey k d = match alookup k d with Some _ => true | None => false end.
Proof. induction d as [|[k' v] r IH]; [reflexivity|]. cbn. destruct (String.eqb k k'); [reflexivity | exact IH]. Qed.

Lemma alookup_abs_dict I k d : alookup k (abs_dict I d) = option_map (abs_pm I) (alookup k d).
Proof. unfold abs_dict. apply alookup_map. Qed.

Lemma update_existing_notin d p : ~ In (Meta.pm_identifier p) (map fst d) -> Meta.pm_update_existing d p = d.
Proof. unfold Meta.pm_update_existing. induction d as [|[k v] r IH]; intros Hn; [reflexivity|]. cbn.
  destruct (String.eqb k (Meta.pm_identifier p)) eqn:E.
  - apply String.eqb_eq in E. exfalso. apply Hn. left. exact E.
  - rewrite IH; [reflexivity|]. intro H. apply Hn. right. exact H. Qed.

Lemma update_existing_keys d p : map fst (Meta.pm_update_existing d p) = map fst d.
Proof. unfold Meta.pm_update_existing. rewrite map_map. apply map_ext. intros [k v]. cbn. destruct (String.eqb k _); reflexivity. Qed.

(* with distinct keys, updating "every entry of that key" is the dict assignment of the store model *)
Lemma abs_update_existing I d k pm old :
  NoDup (map fst d) -> alookup k d = Some old ->
  abs_dict I (Meta.pm_update_existing d (full_pm k pm)) =
  aset k (mkpm (pm_dtype pm) (pm_varlength pm) (pm_unit (abs_pm I old)) (pm_name (abs_pm I old)) (pm_descr (abs_pm I old)))
       (abs_dict I d).
Proof. induction d as [|[k' v] r IH]; intros Hnd Hl; [discriminate|]. inversion Hnd as [|? ? Hni Hnd']; subst.
  cbn in Hl. change (Meta.pm_update_existing ((k', v) :: r) (full_pm k pm))
    with ((if String.eqb k' k then (k', Meta.mkPM (Meta.pm_identifier v) (dtype_name (pm_dtype pm)) (pm_varlength pm)
                                             (Meta.pm_unit v) (Meta.pm_name v) (Meta.pm_description v)) else (k', v))
          :: Meta.pm_update_existing r (full_pm k pm)).
  cbn [abs_dict map aset fst snd]. destruct (String.eqb k k') eqn:E.
  - apply String.eqb_eq in E. subst k'. rewrite String.eqb_refl. inversion Hl; subst old.
    rewrite update_existing_notin by exact Hni. cbn [fst snd]. f_equal.
    unfold abs_pm. cbn. rewrite dtype_of_name_name. reflexivity.
  - rewrite String.eqb_sym, E. cbn [fst snd]. f_equal. apply IH; assumption. Qed.

Lemma abs_pm_set I d k p : abs_dict I (Meta.pm_set d k p) = aset k (abs_pm I p) (abs_dict I d).
Proof. unfold abs_dict. induction d as [|[k' v] r IH]; [reflexivity|]. cbn [Meta.pm_set map aset fst snd].
  destruct (String.eqb k k') eqn:E.
  - apply String.eqb_eq in E. subst. reflexivity.
  - cbn [map fst snd]. rewrite IH. reflexivity. Qed.

Lemma aset_tokens (l : list (string * pmeta)) k pm :
  Forall (fun kv => tokens_none (snd kv)) l -> tokens_none pm -> Forall (fun kv => tokens_none (snd kv)) (aset k pm l).
Proof. induction l as [|[k' v] r IH]; intros HF Hp; cbn.
  - constructor; [exact Hp | constructor].
  - inversion HF; subst. destruct (String.eqb k k'); constructor; auto. Qed.

(* the loop of add_or_update_props_metadata against the fold of the store model, on a split state *)
Lemma loop_sim I : forall new ex fresh,
  NoDup (map fst ex) ->
  Forall (fun kv => tokens_none (snd kv)) (abs_dict I fresh) ->
  Forall (fun kv => tokens_none (snd kv)) new ->
  fold_left upd_pm new (abs_dict I ex ++ abs_dict I fresh) =
  abs_dict I (fst (Meta.props_loop ex fresh (map (fun kv => full_pm (fst kv) (snd kv)) new))) ++
  abs_dict I (snd (Meta.props_loop ex fresh (map (fun kv => full_pm (fst kv) (snd kv)) new))).
Proof. induction new as [|[k pm] r IH]; intros ex fresh Hnd Hfr Hnew; [reflexivity|].
  inversion Hnew as [|? ? Hpm Hnew']; subst. cbn [fst snd] in Hpm.
  destruct pm as [d v u n de]. destruct Hpm as [Hu [Hn Hde]]. cbn in Hu, Hn, Hde. subst u n de.
  cbn [map fold_left Meta.props_loop fst snd]. change (Meta.pm_identifier (full_pm k (mkpm d v None None None))) with k.
  rewrite pm_haskey_spec. unfold upd_pm at 2. rewrite alookup_app, alookup_abs_dict.
  destruct (alookup k ex) as [old|] eqn:El; cbn [option_map].
  - rewrite aset_app_found by (rewrite alookup_abs_dict, El; discriminate).
    rewrite <- (abs_update_existing I ex k (mkpm d v None None None) old Hnd El).
    apply IH; [rewrite update_existing_keys; exact Hnd | exact Hfr | exact Hnew'].
  - assert (Hstep : match alookup k (abs_dict I fresh) with
                    | Some old => aset k (mkpm d v (pm_unit old) (pm_name old) (pm_descr old))
                                       (abs_dict I ex ++ abs_dict I fresh)
                    | None => (abs_dict I ex ++ abs_dict I fresh) ++ [(k, mkpm d v None None None)]
                    end = abs_dict I ex ++ abs_dict I (Meta.pm_set fresh k (full_pm k (mkpm d v None None None)))).
    { rewrite abs_pm_set, abs_full_pm.
      destruct (alookup k (abs_dict I fresh)) as [old|] eqn:Ef.
      - rewrite aset_app_fresh by (rewrite alookup_abs_dict, El; reflexivity). f_equal.
        apply alookup_some_in in Ef. rewrite Forall_forall in Hfr. destruct (Hfr _ Ef) as [H1 [H2 H3]]. cbn in H1, H2, H3.
        rewrite H1, H2, H3. reflexivity.
      - rewrite <- app_assoc. f_equal. symmetry. apply aset_fresh. exact Ef. }
    cbn [pm_dtype pm_varlength]. rewrite Hstep. apply IH; [exact Hnd | | exact Hnew'].
    rewrite abs_pm_set. apply aset_tokens; [exact Hfr|]. rewrite abs_full_pm. repeat split. Qed.

Lemma merge_sim I ex new :
  NoDup (map fst ex) -> Forall (fun kv => tokens_none (snd kv)) new ->
  add_or_update (abs_dict I ex) new = abs_dict I (Meta.props_merge ex (map (fun kv => full_pm (fst kv) (snd kv)) new)).
Proof. intros Hnd Hnew. unfold add_or_update, Meta.props_merge. cbn zeta.
  transitivity (fold_left upd_pm new (abs_dict I ex ++ abs_dict I [])); [cbn [abs_dict map]; rewrite app_nil_r; reflexivity|].
  rewrite (loop_sim I new ex [] Hnd (Forall_nil _) Hnew). unfold abs_dict. rewrite map_app. reflexivity. Qed.

(* ================================================================== axis ranges: the two computations agree on exact coordinates *)
Lemma select_In {A} keep : forall (rows : list A) x, In x (select keep rows) -> In x rows.
Proof. induction keep as [|b kr IH]; intros [|y yr] x H; cbn in H; try contradiction.
  destruct b; [destruct H as [<-|H]; [left; reflexivity | right; apply IH; exact H] | right; apply IH; exact H]. Qed.

Lemma firstn_In' {A} k : forall (l : list A) x, In x (firstn k l) -> In x l.
Proof. intros l x H. rewrite <- (firstn_skipn k l). apply in_or_app. left. exact H. Qed.
Lemma skipn_In' {A} k : forall (l : list A) x, In x (skipn k l) -> In x l.
Proof. intros l x H. rewrite <- (firstn_skipn k l). apply in_or_app. right. exact H. Qed.

Lemma chunks_In {A} k n : forall (l : list A) c x, In c (chunks k n l) -> In x c -> In x l.
Proof. induction n as [|n IH]; intros l c x Hc Hx; cbn in Hc; [contradiction|].
  destruct Hc as [<-|Hc]; [eapply firstn_In'; exact Hx | eapply skipn_In', IH; eauto]. Qed.

Lemma axis_values_In p a vs : p_vals p = PFixed a -> axis_values p = Some vs -> forall z, In z vs -> In z (a_flat a).
Proof. unfold axis_values. intros Ev. rewrite Ev. destruct (p_missing p) as [m|].
  - destruct (Nat.eqb _ _); [|discriminate]. intros H z Hz. inversion H; subst vs; clear H.
    apply in_concat in Hz. destruct Hz as [c [Hc Hz]]. apply select_In in Hc. eapply chunks_In; eauto.
  - intros H z Hz. inversion H; subst. exact Hz. Qed.

Lemma omapM_dec_exact vs : Forall (fun z => (Z.abs z <? TOK)%Z = true) vs -> omapM dec_fl vs = Some (map Meta.Fin vs).
Proof. induction vs as [|z r IH]; intros H; [reflexivity|]. inversion H as [|? ? Hz Hr]; subst. cbn [omapM map].
  unfold dec_fl at 1. rewrite Hz. rewrite (IH Hr). reflexivity. Qed.

Lemma fl_min2_fin a b : fl_min2 (Meta.Fin a) (Meta.Fin b) = Meta.Fin (Z.min a b).
Proof. unfold fl_min2. cbn. destruct (Z.leb_spec a b); [rewrite Z.min_l by lia | rewrite Z.min_r by lia]; reflexivity. Qed.
Lemma fl_max2_fin a b : fl_max2 (Meta.Fin a) (Meta.Fin b) = Meta.Fin (Z.max a b).
Proof. unfold fl_max2. cbn. destruct (Z.leb_spec a b); [rewrite Z.max_r by lia | rewrite Z.max_l by lia]; reflexivity. Qed.

Lemma fold_min_fin r : forall x, fold_left fl_min2 (map Meta.Fin r) (Meta.Fin x) = Meta.Fin (fold_left Z.min r x).
Proof. induction r as [|y r IH]; intros x; [reflexivity|]. cbn [map fold_left]. rewrite fl_min2_fin. apply IH. Qed.
Lemma fold_max_fin r : forall x, fold_left fl_max2 (map Meta.Fin r) (Meta.Fin x) = Meta.Fin (fold_left Z.max r x).
Proof. induction r as [|y r IH]; intros x; [reflexivity|]. cbn [map fold_left]. rewrite fl_max2_fin. apply IH. Qed.

Lemma flmin_fin vs : flmin_list (map Meta.Fin vs) = option_map Meta.Fin (zmin_list vs).
Proof. destruct vs as [|x r]; [reflexivity|]. cbn [map flmin_list zmin_list option_map]. rewrite fold_min_fin. reflexivity. Qed.
Lemma flmax_fin vs : flmax_list (map Meta.Fin vs) = option_map Meta.Fin (zmax_list vs).
Proof. destruct vs as [|x r]; [reflexivity|]. cbn [map flmax_list zmax_list option_map]. rewrite fold_max_fin. reflexivity. Qed.

Lemma np_extrema_exact d vs :
  is_numeric d = true -> Forall (fun z => payload_exact d z = true) vs ->
  np_extrema d vs = match zmin_list vs, zmax_list vs with
                    | Some lo, Some hi =>
                        let sc := if is_float d then 1%Z else fscale in Ok (Meta.Fin (lo * sc), Meta.Fin (hi * sc))
                    | _, _ => Err ValueError
                    end.
Proof. intros Hnum Hex. unfold np_extrema, payload_exact in *. destruct (is_float d) eqn:Ef.
  - rewrite (omapM_dec_exact vs Hex), flmin_fin, flmax_fin.
    destruct (zmin_list vs) as [lo|], (zmax_list vs) as [hi|]; cbn [option_map]; try reflexivity.
    rewrite !Z.mul_1_r. reflexivity.
  - rewrite Hnum. destruct (zmin_list vs) as [lo|] eqn:El; [|reflexivity]. destruct (zmax_list vs) as [hi|] eqn:Eh; [|reflexivity].
    apply zmin_list_spec in El. apply zmax_list_spec in Eh. destruct El as [Hlo _], Eh as [Hhi _].
    rewrite Forall_forall in Hex. pose proof (Hex _ Hlo) as H1. pose proof (Hex _ Hhi) as H2.
    apply Z.ltb_lt in H1, H2. unfold float_of_int. rewrite !round_bits_small by exact H1 || exact H2. reflexivity. Qed.

Lemma minmax_axis_sim I nprops a :
  match alookup (Meta.ax_name a) nprops with Some p => prop_exact p = true | None => True end ->
  minmax_axis nprops (abs_axis I a) = rmap (abs_axis I) (minmax_axis_full nprops a).
Proof. unfold minmax_axis, minmax_axis_full. cbn [abs_axis ax_name ax_tok].
  destruct (alookup (Meta.ax_name a) nprops) as [p|]; [|reflexivity]. intros Hex. unfold prop_exact in Hex.
  destruct (p_vals p) as [arr0|] eqn:Ev; [|reflexivity]. apply andb_true_iff in Hex. destruct Hex as [Hnum Hall].
  destruct (len0 arr0) as [[|n]|]; try reflexivity.
  destruct (axis_values p) as [vs|] eqn:Ea; [|reflexivity].
  rewrite (np_extrema_exact (a_dt arr0) vs Hnum).
  - destruct (zmin_list vs) as [lo|], (zmax_list vs) as [hi|]; try reflexivity.
  - rewrite Forall_forall. intros z Hz. rewrite forallb_forall in Hall. apply Hall. eapply axis_values_In; eauto. Qed.

Lemma mapM_minmax_sim I nprops : forall axes,
  Forall (fun a => match alookup (Meta.ax_name a) nprops with Some p => prop_exact p = true | None => True end) axes ->
  mapM (minmax_axis nprops) (map (abs_axis I) axes) = rmap (map (abs_axis I)) (mapM (minmax_axis_full nprops) axes).
Proof. induction axes as [|a r IH]; intros H; [reflexivity|]. inversion H as [|? ? Ha Hr]; subst. cbn [map mapM].
  rewrite (minmax_axis_sim I nprops a Ha). destruct (minmax_axis_full nprops a) as [a'|e]; [|reflexivity]. cbn [rmap].
  rewrite (IH Hr). destruct (mapM (minmax_axis_full nprops) r); reflexivity. Qed.

(* ================================================================== what one turn of the range loop keeps *)
Definition axis_kept (a a' : Meta.axis) : Prop :=
  Meta.ax_name a' = Meta.ax_name a /\ Meta.ax_type a' = Meta.ax_type a /\ Meta.ax_unit a' = Meta.ax_unit a /\
  Meta.ax_scale a' = Meta.ax_scale a /\ Meta.ax_scaled_unit a' = Meta.ax_scaled_unit a /\ Meta.ax_offset a' = Meta.ax_offset a.

Lemma minmax_full_kept nprops a a' : minmax_axis_full nprops a = Ok a' -> axis_kept a a'.
Proof. unfold minmax_axis_full, axis_kept. destruct (alookup (Meta.ax_name a) nprops) as [p|]; [|discriminate].
  destruct (p_vals p) as [arr0|]; [|discriminate]. destruct (len0 arr0) as [[|n]|]; try discriminate.
  - intros H. inversion H; subst. repeat split.
  - destruct (axis_values p) as [vs|]; [|discriminate]. destruct (np_extrema (a_dt arr0) vs) as [[lo hi]|]; [|discriminate].
    intros H. inversion H; subst. repeat split. Qed.

Lemma mapM_full_kept nprops axes axes' : mapM (minmax_axis_full nprops) axes = Ok axes' -> Forall2 axis_kept axes axes'.
Proof. apply mapM_Forall2. intros x y. apply minmax_full_kept. Qed.

Lemma kept_names l l' : Forall2 axis_kept l l' -> map Meta.ax_name l' = map Meta.ax_name l.
Proof. induction 1 as [|a a' r r' H _ IH]; [reflexivity|]. cbn. destruct H as [H _]. rewrite H, IH. reflexivity. Qed.

(* ================================================================== the "after" validator along the pipeline *)
Lemma key_ok_update d p : Forall MetaLemmas.key_ok d -> Forall MetaLemmas.key_ok (Meta.pm_update_existing d p).
Proof. unfold Meta.pm_update_existing. intros H. rewrite Forall_forall in *. intros kv Hin. apply in_map_iff in Hin.
  destruct Hin as [[k v] [E Hin]]. specialize (H _ Hin). unfold MetaLemmas.key_ok in *. cbn [fst snd] in *.
  destruct (String.eqb k (Meta.pm_identifier p)); subst kv; cbn; exact H. Qed.

Lemma key_ok_set d p : Forall MetaLemmas.key_ok d -> Forall MetaLemmas.key_ok (Meta.pm_set d (Meta.pm_identifier p) p).
Proof. induction d as [|[k v] r IH]; intros H; cbn.
  - constructor; [reflexivity | constructor].
  - inversion H; subst. destruct (String.eqb (Meta.pm_identifier p) k) eqn:E.
    + apply String.eqb_eq in E. constructor; [unfold MetaLemmas.key_ok; cbn; symmetry; exact E | assumption].
    + constructor; auto. Qed.

Lemma key_ok_loop ps : forall ex fresh, Forall MetaLemmas.key_ok ex -> Forall MetaLemmas.key_ok fresh ->
  Forall MetaLemmas.key_ok (fst (Meta.props_loop ex fresh ps)) /\ Forall MetaLemmas.key_ok (snd (Meta.props_loop ex fresh ps)).
Proof. induction ps as [|p r IH]; intros ex fresh He Hf; cbn; [split; assumption|].
  destruct (Meta.pm_haskey (Meta.pm_identifier p) ex); apply IH; auto using key_ok_update, key_ok_set. Qed.

Lemma keys_match_merge ex ps : Meta.keys_match ex = true -> Meta.keys_match (Meta.props_merge ex ps) = true.
Proof. rewrite !MetaLemmas.keys_match_spec. intros H. unfold Meta.props_merge. cbn zeta.
  destruct (key_ok_loop ps ex [] H (Forall_nil _)) as [H1 H2]. apply Forall_app. split; assumption. Qed.

Lemma md_after_ok_add_props m ps b : Meta.md_after_ok m = true -> Meta.md_after_ok (add_props m ps b) = true.
Proof. unfold Meta.md_after_ok, add_props. intros H. apply andb_true_iff in H. destruct H as [H Hke].
  apply andb_true_iff in H. destruct H as [H Hkn]. destruct b; cbn [Meta.md_hints Meta.md_node_props Meta.md_edge_props];
    change (Meta.axis_names (Meta.mkMD _ _ (Meta.md_axes m) _ _ _ _ _ _ _ _)) with (Meta.axis_names m); rewrite H; cbn [andb].
  - rewrite (keys_match_merge _ ps Hkn), Hke. reflexivity.
  - rewrite Hkn, (keys_match_merge _ ps Hke). reflexivity. Qed.

Lemma md_after_ok_set_axes m axes axes' :
  Meta.md_axes m = Some axes -> map Meta.ax_name axes' = map Meta.ax_name axes ->
  Meta.md_after_ok (Meta.set_axes_objs m axes') = Meta.md_after_ok m.
Proof. intros Ha Hn. unfold Meta.md_after_ok, Meta.set_axes_objs. cbn [Meta.md_hints Meta.md_node_props Meta.md_edge_props].
  unfold Meta.axis_names. cbn [Meta.md_axes]. rewrite Ha, Hn. reflexivity. Qed.

Lemma md_after_of_ok m : Meta.md_after_ok m = true -> Meta.md_after m = Ok m.
Proof. unfold Meta.md_after. intros ->. reflexivity. Qed.

(* compute_and_add_axis_min_max on a valid object: the assignment of the new axes is never rejected *)
Lemma compute_minmax_full_spec m nprops :
  Meta.md_after_ok m = true ->
  compute_minmax_full m nprops =
  match Meta.md_axes m with
  | None => Ok m
  | Some axes => rmap (Meta.set_axes_objs m) (mapM (minmax_axis_full nprops) axes)
  end.
Proof. intros Hok. unfold compute_minmax_full. destruct (Meta.md_axes m) as [axes|] eqn:Ea; [|reflexivity].
  destruct (mapM (minmax_axis_full nprops) axes) as [axes'|] eqn:Em; [|reflexivity]. cbn [rmap].
  apply md_after_of_ok. rewrite (md_after_ok_set_axes m axes axes' Ea); [exact Hok|]. apply kept_names. eapply mapM_full_kept; eauto. Qed.

Definition olistA {A} (o : option (list A)) : list A := match o with Some l => l | None => [] end.

Lemma compute_minmax_sim I m nprops :
  Meta.md_after_ok m = true ->
  Forall (fun a => match alookup (Meta.ax_name a) nprops with Some p => prop_exact p = true | None => True end)
         (olistA (Meta.md_axes m)) ->
  compute_minmax (abs I m) nprops = rmap (abs I) (compute_minmax_full m nprops).
Proof. intros Hok Hex. rewrite (compute_minmax_full_spec m nprops Hok). unfold compute_minmax. cbn [abs md_axes].
  destruct (Meta.md_axes m) as [axes|] eqn:Ea; cbn [option_map olistA] in *; [|cbn; unfold abs; rewrite Ea; reflexivity].
  rewrite (mapM_minmax_sim I nprops axes Hex). destruct (mapM (minmax_axis_full nprops) axes) as [axes'|]; reflexivity. Qed.

(* ================================================================== the coordinates hypothesis along back-fill and upcast *)
Lemma prop_exact_upcast p : prop_exact (upcast_prop p) = prop_exact p.
Proof. unfold upcast_prop, prop_exact. destruct (p_vals p) as [a|l] eqn:Ev; cbn [p_vals]; [|reflexivity].
  unfold upcast_arr. destruct (dtype_eqb (a_dt a) DF16) eqn:E; [|reflexivity].
  apply dtype_eqb_eq in E. cbn [a_dt a_flat]. rewrite E. reflexivity. Qed.

Lemma backfill_fold_lookup k ns : forall (acc : props) p,
  alookup k (fold_left (fun acc n => if ahas n acc then acc else acc ++ [(n, empty_f64_prop)]) ns acc) = Some p ->
  alookup k acc = Some p \/ p = empty_f64_prop.
Proof. induction ns as [|n r IH]; intros acc p H; cbn in H; [left; exact H|].
  apply IH in H. destruct H as [H|H]; [|right; exact H]. destruct (ahas n acc); [left; exact H|].
  rewrite alookup_app in H. destruct (alookup k acc) as [v|]; [left; exact H|]. cbn in H.
  destruct (String.eqb k n); [inversion H; right; reflexivity | discriminate]. Qed.

Lemma backfill_names_lookup nids names ps0 ps k p :
  backfill_names nids names (Some ps0) = Some ps -> alookup k ps = Some p -> alookup k ps0 = Some p \/ p = empty_f64_prop.
Proof. unfold backfill_names. destruct names as [ns|]; [|intros H; inversion H; subst; auto].
  destruct (option_eqb Nat.eqb (len0 nids) (Some 0%nat)); intros H; inversion H; subst; [|auto]. apply backfill_fold_lookup. Qed.

Lemma coords_transfer (ok : prop -> bool) g m ps :
  (forall p, ok (upcast_prop p) = ok p) -> ok empty_f64_prop = true ->
  coords_all ok g m = true ->
  backfill_names (w_nids g) (axes_names_opt m) (w_nprops g) = Some ps ->
  Forall (fun a => match alookup (Meta.ax_name a) (map (fun kv => (fst kv, upcast_prop (snd kv))) ps) with
                   | Some p => ok p = true | None => True end) (olistA (Meta.md_axes m)).
Proof. intros Hup Hemp Hc Hb. unfold coords_all in Hc. destruct (w_nprops g) as [ps0|] eqn:Ep; [|discriminate Hb].
  rewrite forallb_forall in Hc. rewrite Forall_forall. intros a Ha. specialize (Hc a Ha).
  rewrite alookup_map. destruct (alookup (Meta.ax_name a) ps) as [p|] eqn:El; cbn [option_map]; [|exact I].
  rewrite Hup. destruct (backfill_names_lookup _ _ _ _ _ _ Hb El) as [H|H]; [rewrite H in Hc; exact Hc | subst; exact Hemp]. Qed.

(* ================================================================== THE SIMULATION *)
(* On a caller object that passes its own validator and whose dicts have distinct keys, with axis coordinates inside
   the exact model, the reduced pipeline run on the abstraction is the abstraction of the full pipeline: same failures
   (same exception), and on success the stored smeta is the abstraction of the stored object -- for EVERY interning. *)
Theorem simulation I g m :
  Meta.md_after_ok m = true -> dict_keys_ok m = true -> coords_exact g m = true ->
  final_metadata g (abs I m) = rmap (abs I) (stored_md g m).
Proof. intros Hok Hkeys Hex. apply andb_true_iff in Hkeys. destruct Hkeys as [Hkn Hke].
  apply MetaLemmas.nodupb_NoDup in Hkn, Hke.
  unfold final_metadata, stored_md. cbn zeta. rewrite backfill_abs.
  set (nps := backfill_names (w_nids g) (axes_names_opt m) (w_nprops g)).
  set (nmeta := match nps with Some ps => props_meta ps | None => [] end).
  set (emeta := match w_eprops g with Some ps => props_meta ps | None => [] end).
  assert (Hnm : match nps with Some ps => props_meta_full ps | None => [] end = map (fun kv => full_pm (fst kv) (snd kv)) nmeta)
    by (unfold nmeta; destruct nps; reflexivity).
  assert (Hem : match w_eprops g with Some ps => props_meta_full ps | None => [] end = map (fun kv => full_pm (fst kv) (snd kv)) emeta)
    by (unfold emeta; destruct (w_eprops g); reflexivity).
  rewrite Hnm, Hem.
  assert (Htn : Forall (fun kv => tokens_none (snd kv)) nmeta) by (unfold nmeta; destruct nps; [apply props_meta_tokens | constructor]).
  assert (Hte : Forall (fun kv => tokens_none (snd kv)) emeta) by (unfold emeta; destruct (w_eprops g); [apply props_meta_tokens | constructor]).
  cbn [abs md_directed md_axes md_nprops md_eprops md_tok].
  rewrite (merge_sim I _ nmeta Hkn Htn), (merge_sim I _ emeta Hke Hte).
  set (m2 := add_props (add_props m (map (fun kv => full_pm (fst kv) (snd kv)) nmeta) true)
                       (map (fun kv => full_pm (fst kv) (snd kv)) emeta) false).
  change (mkmd (Meta.md_directed m) (option_map (map (abs_axis I)) (Meta.md_axes m)) _ _ _) with (abs I m2).
  destruct nps as [ps|] eqn:Enps; [|reflexivity].
  apply compute_minmax_sim.
  - unfold m2. apply md_after_ok_add_props, md_after_ok_add_props. exact Hok.
  - change (Meta.md_axes m2) with (Meta.md_axes m).
    apply (coords_transfer prop_exact g m ps prop_exact_upcast eq_refl Hex Enps). Qed.

(* ================================================================== float(int) is monotone *)
Section RoundBits.
Local Open Scope Z_scope.
Lemma rb_neg p z : round_bits p (- z) = - round_bits p z.
Proof. unfold round_bits. rewrite Z.abs_opp. destruct (Z.abs z <? 2 ^ p); [reflexivity|]. cbn zeta. rewrite Z.sgn_opp. lia. Qed.

(* the pieces of round_bits on a large non-negative argument *)
Lemma rb_big p a : 0 < p -> 2 ^ p <= a ->
  let e := Z.log2 a + 1 - p in
  let q := a / 2 ^ e in let r := a mod 2 ^ e in
  let q' := if (2 ^ (e - 1) <? r) || ((r =? 2 ^ (e - 1)) && Z.odd q) then q + 1 else q in
  round_bits p a = q' * 2 ^ e /\ 1 <= e /\ 0 < 2 ^ e /\ a = 2 ^ e * q + r /\ 0 <= r < 2 ^ e /\
  2 ^ (p - 1) <= q < 2 ^ p /\ 2 ^ Z.log2 a = 2 ^ (p - 1) * 2 ^ e /\ 2 ^ (Z.log2 a + 1) = 2 ^ p * 2 ^ e.
Proof. intros Hp Ha. cbn zeta.
  assert (H2p : 0 < 2 ^ p) by (apply Z.pow_pos_nonneg; lia).
  assert (Hapos : 0 < a) by lia.
  assert (HL : p <= Z.log2 a) by (apply Z.log2_le_pow2; lia).
  destruct (Z.log2_spec a Hapos) as [HL1 HL2].
  set (e := Z.log2 a + 1 - p). assert (He : 1 <= e) by (unfold e; lia).
  assert (H2e : 0 < 2 ^ e) by (apply Z.pow_pos_nonneg; lia).
  assert (E1 : 2 ^ Z.log2 a = 2 ^ (p - 1) * 2 ^ e) by (rewrite <- Z.pow_add_r by lia; f_equal; unfold e; lia).
  assert (E2 : 2 ^ (Z.log2 a + 1) = 2 ^ p * 2 ^ e) by (rewrite <- Z.pow_add_r by lia; f_equal; unfold e; lia).
  split.
  - unfold round_bits. rewrite Z.abs_eq by lia. destruct (Z.ltb_spec a (2 ^ p)); [lia|]. cbn zeta. fold e.
    rewrite Z.sgn_pos by lia. lia.
  - split; [exact He|]. split; [exact H2e|]. split; [apply Z.div_mod; lia|]. split; [apply Z.mod_pos_bound; lia|].
    split; [|split; assumption]. split.
    + apply Z.div_le_lower_bound; lia.
    + apply Z.div_lt_upper_bound; lia. Qed.

Lemma rb_nonneg_mono p a b : 0 < p -> 0 <= a -> a <= b -> round_bits p a <= round_bits p b.
Proof. intros Hp Ha Hab.
  assert (H2p : 0 < 2 ^ p) by (apply Z.pow_pos_nonneg; lia).
  destruct (Z.lt_ge_cases a (2 ^ p)) as [Hsa|Hba].
  - rewrite (round_bits_small p a) by (rewrite Z.abs_eq; lia).
    destruct (Z.lt_ge_cases b (2 ^ p)) as [Hsb|Hbb].
    + rewrite (round_bits_small p b) by (rewrite Z.abs_eq; lia). exact Hab.
    + destruct (rb_big p b Hp Hbb) as [Eb [He [H2e [Hdm [Hr [Hq [E1 E2]]]]]]]. rewrite Eb.
      assert (HL : p <= Z.log2 b) by (apply Z.log2_le_pow2; lia).
      assert (2 ^ p <= 2 ^ Z.log2 b) by (apply Z.pow_le_mono_r; lia).
      set (q := b / 2 ^ (Z.log2 b + 1 - p)) in *. set (r := b mod 2 ^ (Z.log2 b + 1 - p)) in *.
      set (E := 2 ^ (Z.log2 b + 1 - p)) in *.
      destruct ((2 ^ (Z.log2 b + 1 - p - 1) <? r) || ((r =? 2 ^ (Z.log2 b + 1 - p - 1)) && Z.odd q)); nia.
  - assert (Hbb : 2 ^ p <= b) by lia.
    destruct (rb_big p a Hp Hba) as [Ea [Hea [H2ea [Hdma [Hra [Hqa [E1a E2a]]]]]]].
    destruct (rb_big p b Hp Hbb) as [Eb [Heb [H2eb [Hdmb [Hrb [Hqb [E1b E2b]]]]]]].
    rewrite Ea, Eb. clear Ea Eb.
    assert (HLab : Z.log2 a <= Z.log2 b) by (apply Z.log2_le_mono; lia).
    destruct (Z.lt_ge_cases (Z.log2 a) (Z.log2 b)) as [Hlt|Hge].
    + assert (Hpw : 2 ^ (Z.log2 a + 1) <= 2 ^ Z.log2 b) by (apply Z.pow_le_mono_r; lia).
      set (qa := a / 2 ^ (Z.log2 a + 1 - p)) in *. set (ra := a mod 2 ^ (Z.log2 a + 1 - p)) in *.
      set (qb := b / 2 ^ (Z.log2 b + 1 - p)) in *. set (rb := b mod 2 ^ (Z.log2 b + 1 - p)) in *.
      set (Ea := 2 ^ (Z.log2 a + 1 - p)) in *. set (Eb := 2 ^ (Z.log2 b + 1 - p)) in *.
      destruct ((2 ^ (Z.log2 a + 1 - p - 1) <? ra) || ((ra =? 2 ^ (Z.log2 a + 1 - p - 1)) && Z.odd qa));
        destruct ((2 ^ (Z.log2 b + 1 - p - 1) <? rb) || ((rb =? 2 ^ (Z.log2 b + 1 - p - 1)) && Z.odd qb)); nia.
    + assert (HL : Z.log2 a = Z.log2 b) by lia. rewrite HL in *.
      set (qa := a / 2 ^ (Z.log2 b + 1 - p)) in *. set (ra := a mod 2 ^ (Z.log2 b + 1 - p)) in *.
      set (qb := b / 2 ^ (Z.log2 b + 1 - p)) in *. set (rb := b mod 2 ^ (Z.log2 b + 1 - p)) in *.
      set (E := 2 ^ (Z.log2 b + 1 - p)) in *. set (half := 2 ^ (Z.log2 b + 1 - p - 1)).
      assert (Hq : qa <= qb) by (unfold qa, qb; apply Z.div_le_mono; lia).
      destruct (Z.lt_ge_cases qa qb) as [Hqlt|Hqge].
      * destruct ((half <? ra) || ((ra =? half) && Z.odd qa)); destruct ((half <? rb) || ((rb =? half) && Z.odd qb)); nia.
      * assert (Hqe : qa = qb) by lia. assert (Hr : ra <= rb) by nia. rewrite Hqe.
        destruct (Z.ltb_spec half ra) as [H1|H1]; cbn [orb].
        -- destruct (Z.ltb_spec half rb) as [H2|H2]; [cbn [orb]; lia | lia].
        -- destruct (Z.eqb_spec ra half) as [H3|H3]; cbn [andb].
           ++ destruct (Z.odd qb); cbn.
              ** destruct (Z.ltb_spec half rb); cbn [orb]; [lia|]. destruct (Z.eqb_spec rb half); [cbn; lia | lia].
              ** destruct ((half <? rb) || ((rb =? half) && false)); nia.
           ++ destruct ((half <? rb) || ((rb =? half) && Z.odd qb)); nia. Qed.

Lemma rb_nonneg p a : 0 < p -> 0 <= a -> 0 <= round_bits p a.
Proof. intros Hp Ha. rewrite <- (round_bits_small p 0) at 1; [apply rb_nonneg_mono; lia|].
  cbn. apply Z.pow_pos_nonneg; lia. Qed.

Lemma round_bits_mono p a b : 0 < p -> a <= b -> round_bits p a <= round_bits p b.
Proof. intros Hp Hab. destruct (Z.le_gt_cases 0 a) as [Ha|Ha].
  - apply rb_nonneg_mono; lia.
  - destruct (Z.le_gt_cases 0 b) as [Hb|Hb].
    + pose proof (rb_nonneg p b Hp Hb). pose proof (rb_nonneg p (- a) Hp ltac:(lia)) as H1. rewrite rb_neg in H1. lia.
    + pose proof (rb_nonneg_mono p (- b) (- a) Hp ltac:(lia) ltac:(lia)) as H1. rewrite !rb_neg in H1. lia. Qed.
End RoundBits.

(* ================================================================== C10 on the full object: what is passed through *)
Lemma compute_minmax_full_inv m nprops m' : compute_minmax_full m nprops = Ok m' ->
  (Meta.md_axes m = None /\ m' = m) \/
  (exists axes axes', Meta.md_axes m = Some axes /\ mapM (minmax_axis_full nprops) axes = Ok axes' /\
                      m' = Meta.set_axes_objs m axes' /\ Meta.md_after_ok m' = true).
Proof. unfold compute_minmax_full. destruct (Meta.md_axes m) as [axes|] eqn:Ea.
  - destruct (mapM (minmax_axis_full nprops) axes) as [axes'|] eqn:Em; [|discriminate]. unfold Meta.md_after.
    destruct (Meta.md_after_ok (Meta.set_axes_objs m axes')) eqn:Eo; [|discriminate]. intros H. inversion H; subst.
    right. exists axes, axes'. repeat split; auto.
  - intros H. inversion H; subst. left. split; reflexivity. Qed.

(* the node / edge entries handed to add_or_update_props_metadata *)
Definition new_entries (ops : option props) : list Meta.prop_meta :=
  match ops with Some ps => props_meta_full ps | None => [] end.
Definition nps_of (g : wgraph) (m : Meta.metadata) : option props :=
  backfill_names (w_nids g) (axes_names_opt m) (w_nprops g).
Definition up_nprops (ps : props) : props := map (fun kv => (fst kv, upcast_prop (snd kv))) ps.

Theorem stored_fields g m m' :
  stored_md g m = Ok m' ->
  Meta.md_version m' = Meta.md_version m /\ Meta.md_directed m' = Meta.md_directed m /\
  Meta.md_sphere m' = Meta.md_sphere m /\ Meta.md_ellipsoid m' = Meta.md_ellipsoid m /\
  Meta.md_track m' = Meta.md_track m /\ Meta.md_related m' = Meta.md_related m /\
  Meta.md_hints m' = Meta.md_hints m /\ Meta.md_extra m' = Meta.md_extra m /\
  Meta.md_node_props m' = Meta.props_merge (Meta.md_node_props m) (new_entries (nps_of g m)) /\
  Meta.md_edge_props m' = Meta.props_merge (Meta.md_edge_props m) (new_entries (w_eprops g)) /\
  match Meta.md_axes m with
  | None => Meta.md_axes m' = None
  | Some axes => exists axes', Meta.md_axes m' = Some axes' /\ Forall2 axis_kept axes axes' /\
                 match nps_of g m with
                 | Some ps => mapM (minmax_axis_full (up_nprops ps)) axes = Ok axes'
                 | None => axes' = axes
                 end
  end.
Proof. unfold stored_md, nps_of, new_entries. cbn zeta.
  destruct (backfill_names (w_nids g) (axes_names_opt m) (w_nprops g)) as [ps|] eqn:Eb.
  - intros H. apply compute_minmax_full_inv in H. cbn [add_props Meta.md_axes] in H.
    destruct H as [[Ha ->]|[axes [axes' [Ha [Hm [-> _]]]]]]; cbn; rewrite Ha; repeat split; try reflexivity.
    exists axes'. split; [reflexivity|]. split; [eapply mapM_full_kept; eauto | exact Hm].
  - intros H. inversion H; subst. cbn. repeat split; try reflexivity. destruct (Meta.md_axes m) as [axes|]; [|reflexivity].
    exists axes. split; [reflexivity|]. split; [|reflexivity].
    clear. induction axes; constructor; [repeat split | assumption]. Qed.

(* ---- the caller's entries: identifier, unit, name, description survive the merge, whatever is written *)
Definition entry_kept (old new : Meta.prop_meta) : Prop :=
  Meta.pm_identifier new = Meta.pm_identifier old /\ Meta.pm_unit new = Meta.pm_unit old /\
  Meta.pm_name new = Meta.pm_name old /\ Meta.pm_description new = Meta.pm_description old.

Lemma loop_kept k old ps : forall ex fresh,
  (exists cur, In (k, cur) ex /\ entry_kept old cur) ->
  exists new, In (k, new) (fst (Meta.props_loop ex fresh ps)) /\ entry_kept old new.
Proof. induction ps as [|p r IH]; intros ex fresh H; cbn; [exact H|].
  destruct (Meta.pm_haskey (Meta.pm_identifier p) ex); apply IH; [|exact H].
  destruct H as [cur [Hin Hk]]. unfold Meta.pm_update_existing.
  destruct (String.eqb k (Meta.pm_identifier p)) eqn:E.
  - eexists. split; [apply in_map_iff; exists (k, cur); split; [cbn [fst snd]; rewrite E; reflexivity | exact Hin]|].
    destruct Hk as [H1 [H2 [H3 H4]]]. repeat split; cbn; assumption.
  - exists cur. split; [apply in_map_iff; exists (k, cur); split; [cbn [fst snd]; rewrite E; reflexivity | exact Hin] | exact Hk]. Qed.

Lemma merge_kept ex ps k old : In (k, old) ex ->
  exists new, In (k, new) (Meta.props_merge ex ps) /\ entry_kept old new.
Proof. intros Hin. unfold Meta.props_merge. cbn zeta.
  destruct (loop_kept k old ps ex []) as [new [Hn Hk]]; [exists old; split; [exact Hin | repeat split]|].
  exists new. split; [apply in_or_app; left; exact Hn | exact Hk]. Qed.

Theorem stored_entries_kept g m m' :
  stored_md g m = Ok m' ->
  (forall k old, In (k, old) (Meta.md_node_props m) -> exists new, In (k, new) (Meta.md_node_props m') /\ entry_kept old new) /\
  (forall k old, In (k, old) (Meta.md_edge_props m) -> exists new, In (k, new) (Meta.md_edge_props m') /\ entry_kept old new).
Proof. intros H. destruct (stored_fields g m m' H) as [_ [_ [_ [_ [_ [_ [_ [_ [Hn [He _]]]]]]]]]]. rewrite Hn, He.
  split; intros k old Hin; apply merge_kept; exact Hin. Qed.

(* ---- the entry of a written property, exactly *)
Definition updated (old p : Meta.prop_meta) : Meta.prop_meta :=
  Meta.mkPM (Meta.pm_identifier old) (Meta.pm_dtype p) (Meta.pm_varlength p)
            (Meta.pm_unit old) (Meta.pm_name old) (Meta.pm_description old).

Lemma alookup_update_other d p k :
  k <> Meta.pm_identifier p -> alookup k (Meta.pm_update_existing d p) = alookup k d.
Proof. intros Hne. unfold Meta.pm_update_existing. induction d as [|[k' v] r IH]; [reflexivity|]. cbn [map fst snd].
  destruct (String.eqb k' (Meta.pm_identifier p)) eqn:E; cbn [alookup]; destruct (String.eqb k k') eqn:E2; auto.
  apply String.eqb_eq in E, E2. congruence. Qed.

Lemma alookup_update_same d p old :
  alookup (Meta.pm_identifier p) d = Some old ->
  alookup (Meta.pm_identifier p) (Meta.pm_update_existing d p) = Some (updated old p).
Proof. unfold Meta.pm_update_existing. induction d as [|[k' v] r IH]; [discriminate|]. cbn [map fst snd alookup].
  destruct (String.eqb (Meta.pm_identifier p) k') eqn:E.
  - intros H. inversion H; subst. rewrite String.eqb_sym, E. cbn [alookup]. rewrite E. reflexivity.
  - intros H. rewrite String.eqb_sym, E. cbn [alookup]. rewrite E. apply IH. exact H. Qed.

Lemma alookup_pm_set d k p k' :
  alookup k' (Meta.pm_set d k p) = if String.eqb k' k then Some p else alookup k' d.
Proof. induction d as [|[k0 v] r IH]; cbn.
  - destruct (String.eqb k' k); reflexivity.
  - destruct (String.eqb k k0) eqn:E; cbn.
    + apply String.eqb_eq in E. subst k0. destruct (String.eqb k' k); reflexivity.
    + destruct (String.eqb k' k0) eqn:E2.
      * apply String.eqb_eq in E2. subst k0. rewrite String.eqb_sym, E. reflexivity.
      * exact IH. Qed.

Lemma loop_lookup_notin k ps : forall ex fresh,
  ~ In k (map Meta.pm_identifier ps) ->
  alookup k (fst (Meta.props_loop ex fresh ps)) = alookup k ex /\
  alookup k (snd (Meta.props_loop ex fresh ps)) = alookup k fresh.
Proof. induction ps as [|p r IH]; intros ex fresh Hn; [split; reflexivity|]. cbn.
  assert (Hne : k <> Meta.pm_identifier p) by (intro; apply Hn; left; congruence).
  assert (Hr : ~ In k (map Meta.pm_identifier r)) by (intro; apply Hn; right; assumption).
  destruct (Meta.pm_haskey (Meta.pm_identifier p) ex).
  - destruct (IH (Meta.pm_update_existing ex p) fresh Hr) as [H1 H2]. rewrite H1, H2, alookup_update_other by exact Hne. split; reflexivity.
  - destruct (IH ex (Meta.pm_set fresh (Meta.pm_identifier p) p) Hr) as [H1 H2]. rewrite H1, H2, alookup_pm_set.
    rewrite seqb_neq by exact Hne. split; reflexivity. Qed.

Lemma loop_lookup_in p ps : forall ex fresh,
  NoDup (map Meta.pm_identifier ps) -> In p ps -> alookup (Meta.pm_identifier p) fresh = None ->
  alookup (Meta.pm_identifier p) (fst (Meta.props_loop ex fresh ps) ++ snd (Meta.props_loop ex fresh ps)) =
  Some (match alookup (Meta.pm_identifier p) ex with Some old => updated old p | None => p end).
Proof. induction ps as [|q r IH]; intros ex fresh Hnd Hin Hf; [destruct Hin|].
  inversion Hnd as [|? ? Hni Hnd']; subst. cbn [Meta.props_loop]. destruct Hin as [->|Hin].
  - rewrite pm_haskey_spec. destruct (alookup (Meta.pm_identifier p) ex) as [old|] eqn:El.
    + destruct (loop_lookup_notin (Meta.pm_identifier p) r (Meta.pm_update_existing ex p) fresh Hni) as [H1 _].
      rewrite alookup_app, H1, (alookup_update_same ex p old El). reflexivity.
    + destruct (loop_lookup_notin (Meta.pm_identifier p) r ex (Meta.pm_set fresh (Meta.pm_identifier p) p) Hni) as [H1 H2].
      rewrite alookup_app, H1, El, H2, alookup_pm_set, seqb_refl. reflexivity.
  - assert (Hne : Meta.pm_identifier p <> Meta.pm_identifier q).
    { intro E. apply Hni. rewrite <- E. apply in_map. exact Hin. }
    destruct (Meta.pm_haskey (Meta.pm_identifier q) ex).
    + rewrite (IH (Meta.pm_update_existing ex q) fresh Hnd' Hin Hf), alookup_update_other by exact Hne. reflexivity.
    + rewrite (IH ex (Meta.pm_set fresh (Meta.pm_identifier q) q) Hnd' Hin); [reflexivity|].
      rewrite alookup_pm_set, seqb_neq by exact Hne. exact Hf. Qed.

Lemma merge_lookup ex ps p :
  NoDup (map Meta.pm_identifier ps) -> In p ps ->
  alookup (Meta.pm_identifier p) (Meta.props_merge ex ps) =
  Some (match alookup (Meta.pm_identifier p) ex with Some old => updated old p | None => p end).
Proof. intros Hnd Hin. unfold Meta.props_merge. cbn zeta. apply loop_lookup_in; auto. Qed.

Lemma props_meta_keys_sub ps k : In k (akeys (props_meta ps)) -> In k (akeys ps).
Proof. unfold props_meta, akeys. induction ps as [|[k0 p] r IH]; cbn; [auto|].
  destruct (create_props_metadata k0 p); cbn; [intros [H|H]; [left; exact H | right; apply IH; exact H] | intros H; right; apply IH; exact H]. Qed.

Lemma props_meta_nodup ps : NoDup (akeys ps) -> NoDup (akeys (props_meta ps)).
Proof. induction ps as [|[k0 p] r IH]; intros H; [constructor|]. inversion H as [|? ? Hni Hnd]; subst.
  change (props_meta ((k0, p) :: r)) with ((match create_props_metadata k0 p with Ok pm => [(k0, pm)] | Err _ => [] end) ++ props_meta r).
  destruct (create_props_metadata k0 p); cbn; [|apply IH; exact Hnd].
  constructor; [intro Hc; apply Hni; apply props_meta_keys_sub; exact Hc | apply IH; exact Hnd]. Qed.

Lemma props_meta_full_ids ps : map Meta.pm_identifier (props_meta_full ps) = akeys (props_meta ps).
Proof. unfold props_meta_full, akeys. rewrite map_map. reflexivity. Qed.

Lemma new_entry_in ops name p pm :
  In (name, p) (match ops with Some ps => ps | None => [] end) -> create_props_metadata name p = Ok pm ->
  In (full_pm name pm) (new_entries ops).
Proof. destruct ops as [ps|]; [|intros []]. intros Hin Hc. unfold new_entries, props_meta_full.
  apply in_map_iff. exists (name, pm). split; [reflexivity|]. eapply props_meta_in; eauto. Qed.

Lemma new_entries_nodup ops : NoDup (names_of ops) -> NoDup (map Meta.pm_identifier (new_entries ops)).
Proof. destruct ops as [ps|]; cbn; [|constructor]. intros H. rewrite props_meta_full_ids. apply props_meta_nodup. exact H. Qed.

(* every written property has exactly the caller's entry with dtype / varlength replaced, or a fresh entry *)
Theorem stored_entry g m m' :
  stored_md g m = Ok m' ->
  (NoDup (names_of (nps_of g m)) ->
   forall name p pm, In (name, p) (match nps_of g m with Some ps => ps | None => [] end) ->
     create_props_metadata name p = Ok pm ->
     alookup name (Meta.md_node_props m') =
     Some (match alookup name (Meta.md_node_props m) with
           | Some old => updated old (full_pm name pm)
           | None => full_pm name pm end)) /\
  (NoDup (names_of (w_eprops g)) ->
   forall name p pm, In (name, p) (match w_eprops g with Some ps => ps | None => [] end) ->
     create_props_metadata name p = Ok pm ->
     alookup name (Meta.md_edge_props m') =
     Some (match alookup name (Meta.md_edge_props m) with
           | Some old => updated old (full_pm name pm)
           | None => full_pm name pm end)).
Proof. intros H. destruct (stored_fields g m m' H) as [_ [_ [_ [_ [_ [_ [_ [_ [Hn [He _]]]]]]]]]]. rewrite Hn, He.
  split; intros Hnd name p pm Hin Hc.
  - apply (merge_lookup _ _ (full_pm name pm)); [apply new_entries_nodup; exact Hnd | eapply new_entry_in; eauto].
  - apply (merge_lookup _ _ (full_pm name pm)); [apply new_entries_nodup; exact Hnd | eapply new_entry_in; eauto]. Qed.

(* ---- the keys *)
Lemma pm_set_keys d k p k' : In k' (map fst (Meta.pm_set d k p)) <-> k' = k \/ In k' (map fst d).
Proof. induction d as [|[k0 v] r IH]; cbn; [intuition|]. destruct (String.eqb k k0) eqn:E; cbn.
  - apply String.eqb_eq in E. subst. intuition.
  - rewrite IH. intuition. Qed.

Lemma loop_keys k ps : forall ex fresh,
  In k (map fst (fst (Meta.props_loop ex fresh ps)) ++ map fst (snd (Meta.props_loop ex fresh ps))) <->
  In k (map fst ex) \/ In k (map fst fresh) \/ In k (map Meta.pm_identifier ps).
Proof. induction ps as [|p r IH]; intros ex fresh; cbn [Meta.props_loop map].
  - rewrite in_app_iff. cbn. intuition.
  - rewrite pm_haskey_spec. destruct (alookup (Meta.pm_identifier p) ex) as [old|] eqn:El.
    + rewrite IH, update_existing_keys. cbn [In]. split; [intuition|]. intros [H|[H|[H|H]]]; auto.
      left. subst k. apply alookup_some_in in El. apply (in_map fst) in El. exact El.
    + rewrite IH, pm_set_keys. cbn [In]. intuition. Qed.

Lemma merge_keys ex ps k :
  In k (map fst (Meta.props_merge ex ps)) <-> In k (map fst ex) \/ In k (map Meta.pm_identifier ps).
Proof. unfold Meta.props_merge. cbn zeta. rewrite map_app, loop_keys. cbn. intuition. Qed.

Theorem stored_keys g m m' :
  stored_md g m = Ok m' ->
  (forall k, In k (map fst (Meta.md_node_props m')) <->
             In k (map fst (Meta.md_node_props m)) \/ In k (akeys (metas_of (nps_of g m)))) /\
  (forall k, In k (map fst (Meta.md_edge_props m')) <->
             In k (map fst (Meta.md_edge_props m)) \/ In k (akeys (metas_of (w_eprops g)))).
Proof. intros H. destruct (stored_fields g m m' H) as [_ [_ [_ [_ [_ [_ [_ [_ [Hn [He _]]]]]]]]]]. rewrite Hn, He.
  split; intros k; rewrite merge_keys; unfold new_entries, metas_of.
  - destruct (nps_of g m); [rewrite props_meta_full_ids|]; reflexivity.
  - destruct (w_eprops g); [rewrite props_meta_full_ids|]; reflexivity. Qed.

(* ================================================================== np.min / np.max on floats *)
Definition not_nan (f : Meta.fl) : Prop := f <> Meta.NaN.
Definition fl_is_min (lo : Meta.fl) (fs : list Meta.fl) : Prop := In lo fs /\ forall v, In v fs -> MetaLemmas.fle lo v.
Definition fl_is_max (hi : Meta.fl) (fs : list Meta.fl) : Prop := In hi fs /\ forall v, In v fs -> MetaLemmas.fle v hi.

Lemma fle_refl a : not_nan a -> MetaLemmas.fle a a.
Proof. unfold not_nan. destruct a; cbn; intros; try exact I; try lia; congruence. Qed.
Lemma fle_trans a b c : MetaLemmas.fle a b -> MetaLemmas.fle b c -> MetaLemmas.fle a c.
Proof. destruct a, b, c; cbn; intros; try exact I; try contradiction; lia. Qed.
Lemma fle_not_nan_l a b : MetaLemmas.fle a b -> not_nan a.
Proof. unfold not_nan. destruct a, b; cbn; intros H; try contradiction; congruence. Qed.
Lemma fle_not_nan_r a b : MetaLemmas.fle a b -> not_nan b.
Proof. unfold not_nan. destruct a, b; cbn; intros H; try contradiction; congruence. Qed.

Lemma fl_min2_spec a b : not_nan a -> not_nan b ->
  (fl_min2 a b = a \/ fl_min2 a b = b) /\ MetaLemmas.fle (fl_min2 a b) a /\ MetaLemmas.fle (fl_min2 a b) b.
Proof. unfold not_nan, fl_min2. destruct a, b; cbn; intros Ha Hb; try congruence;
    try (destruct (Z.leb_spec z z0)); cbn; repeat split; auto; try lia. Qed.
Lemma fl_max2_spec a b : not_nan a -> not_nan b ->
  (fl_max2 a b = a \/ fl_max2 a b = b) /\ MetaLemmas.fle a (fl_max2 a b) /\ MetaLemmas.fle b (fl_max2 a b).
Proof. unfold not_nan, fl_max2. destruct a, b; cbn; intros Ha Hb; try congruence;
    try (destruct (Z.leb_spec z z0)); cbn; repeat split; auto; try lia. Qed.

Lemma fold_flmin_spec r : forall x, not_nan x -> Forall not_nan r -> fl_is_min (fold_left fl_min2 r x) (x :: r).
Proof. induction r as [|y r IH]; intros x Hx Hr; cbn [fold_left].
  - split; [left; reflexivity | intros v [<-|[]]; apply fle_refl; exact Hx].
  - inversion Hr as [|? ? Hy Hr']; subst. destruct (fl_min2_spec x y Hx Hy) as [Hsel [H1 H2]].
    destruct (IH (fl_min2 x y) (fle_not_nan_l _ _ H1) Hr') as [Hin Hle]. split.
    + destruct Hin as [Heq|Hin]; [|right; right; exact Hin]. rewrite <- Heq. destruct Hsel as [->| ->]; [left | right; left]; reflexivity.
    + intros v [Hv|[Hv|Hv]]; subst.
      * eapply fle_trans; [apply Hle; left; reflexivity | exact H1].
      * eapply fle_trans; [apply Hle; left; reflexivity | exact H2].
      * apply Hle. right. exact Hv. Qed.
Lemma fold_flmax_spec r : forall x, not_nan x -> Forall not_nan r -> fl_is_max (fold_left fl_max2 r x) (x :: r).
Proof. induction r as [|y r IH]; intros x Hx Hr; cbn [fold_left].
  - split; [left; reflexivity | intros v [<-|[]]; apply fle_refl; exact Hx].
  - inversion Hr as [|? ? Hy Hr']; subst. destruct (fl_max2_spec x y Hx Hy) as [Hsel [H1 H2]].
    destruct (IH (fl_max2 x y) (fle_not_nan_r _ _ H1) Hr') as [Hin Hle]. split.
    + destruct Hin as [Heq|Hin]; [|right; right; exact Hin]. rewrite <- Heq. destruct Hsel as [->| ->]; [left | right; left]; reflexivity.
    + intros v [Hv|[Hv|Hv]]; subst.
      * eapply fle_trans; [exact H1 | apply Hle; left; reflexivity].
      * eapply fle_trans; [exact H2 | apply Hle; left; reflexivity].
      * apply Hle. right. exact Hv. Qed.

Lemma fold_flmin_nan_acc r : fold_left fl_min2 r Meta.NaN = Meta.NaN.
Proof. induction r as [|y r IH]; [reflexivity | exact IH]. Qed.
Lemma fold_flmax_nan_acc r : fold_left fl_max2 r Meta.NaN = Meta.NaN.
Proof. induction r as [|y r IH]; [reflexivity | exact IH]. Qed.

Lemma not_nan_dec f : {f = Meta.NaN} + {not_nan f}.
Proof. unfold not_nan. destruct f; [right | right | right | left]; congruence. Qed.

Lemma fold_flmin_nan r : forall x, Exists (fun f => f = Meta.NaN) (x :: r) -> fold_left fl_min2 r x = Meta.NaN.
Proof. induction r as [|y r IH]; intros x H.
  - inversion H as [? ? Hx|? ? Hr]; subst; [reflexivity | inversion Hr].
  - cbn [fold_left]. destruct (not_nan_dec x) as [->|Hx]; [apply fold_flmin_nan_acc|]. apply IH.
    inversion H as [? ? Hx'|? ? Hr]; subst; [contradiction|].
    inversion Hr as [? ? Hy|? ? Hr']; subst; [|right; exact Hr'].
    left. unfold fl_min2. destruct x; reflexivity. Qed.
Lemma fold_flmax_nan r : forall x, Exists (fun f => f = Meta.NaN) (x :: r) -> fold_left fl_max2 r x = Meta.NaN.
Proof. induction r as [|y r IH]; intros x H.
  - inversion H as [? ? Hx|? ? Hr]; subst; [reflexivity | inversion Hr].
  - cbn [fold_left]. destruct (not_nan_dec x) as [->|Hx]; [apply fold_flmax_nan_acc|]. apply IH.
    inversion H as [? ? Hx'|? ? Hr]; subst; [contradiction|].
    inversion Hr as [? ? Hy|? ? Hr']; subst; [|right; exact Hr'].
    left. unfold fl_max2. destruct x; reflexivity. Qed.

Lemma forall_or_exists_nan fs : Forall not_nan fs \/ Exists (fun f => f = Meta.NaN) fs.
Proof. induction fs as [|f r [IH|IH]]; [left; constructor | | right; right; exact IH].
  destruct (not_nan_dec f) as [->|Hf]; [right; left; reflexivity | left; constructor; assumption]. Qed.

(* what (np.min, np.max) are: the extrema of the decoded coordinates; NaN as soon as one coordinate is NaN; the python
   float of the integer extrema for an integer / bool array *)
Definition extrema_spec (d : dtype) (vs : list Z) (lo hi : Meta.fl) : Prop :=
  if is_float d then
    exists fs, omapM dec_fl vs = Some fs /\
      ((Forall not_nan fs /\ fl_is_min lo fs /\ fl_is_max hi fs) \/
       (Exists (fun f => f = Meta.NaN) fs /\ lo = Meta.NaN /\ hi = Meta.NaN))
  else exists zl zh, is_min zl vs /\ is_max zh vs /\ lo = float_of_int zl /\ hi = float_of_int zh.

Lemma np_extrema_spec d vs lo hi : np_extrema d vs = Ok (lo, hi) -> extrema_spec d vs lo hi.
Proof. unfold np_extrema, extrema_spec. destruct (is_float d).
  - destruct (omapM dec_fl vs) as [fs|]; [|discriminate]. destruct fs as [|x r]; [discriminate|]. cbn [flmin_list flmax_list].
    intros H. inversion H; subst. exists (x :: r). split; [reflexivity|].
    destruct (forall_or_exists_nan (x :: r)) as [Hnn|Hn].
    + left. inversion Hnn; subst. split; [exact Hnn|]. split; [apply fold_flmin_spec | apply fold_flmax_spec]; assumption.
    + right. split; [exact Hn|]. split; [apply fold_flmin_nan | apply fold_flmax_nan]; exact Hn.
  - destruct (is_numeric d); [|discriminate]. destruct (zmin_list vs) as [zl|] eqn:El; [|discriminate].
    destruct (zmax_list vs) as [zh|] eqn:Eh; [|discriminate]. intros H. inversion H; subst.
    exists zl, zh. repeat split; try (apply zmin_list_spec; exact El); try (apply zmax_list_spec; exact Eh). Qed.

(* the written range never has min > max *)
Lemma extrema_not_gt d vs lo hi : np_extrema d vs = Ok (lo, hi) -> MetaLemmas.not_gt lo hi.
Proof. intros H. apply np_extrema_spec in H. unfold extrema_spec in H. destruct (is_float d).
  - destruct H as [fs [_ [[_ [[Hlo Hmin] [Hhi _]]]|[_ [-> ->]]]]]; [|reflexivity]. apply MetaLemmas.fle_not_gt. apply Hmin. exact Hhi.
  - destruct H as [zl [zh [[Hl Hmin] [[Hh _] [-> ->]]]]]. apply MetaLemmas.fle_not_gt. unfold float_of_int. cbn.
    pose proof (round_bits_mono 53 zl zh ltac:(lia) (Hmin zh Hh)). unfold Meta.FSCALE. lia. Qed.

(* ---- C10 on the full object: each axis after the write *)
Definition axis_truthful_full (nprops : props) (ax ax' : Meta.axis) : Prop :=
  axis_kept ax ax' /\
  exists p a, alookup (Meta.ax_name ax) nprops = Some p /\ p_vals p = PFixed a /\
    ((len0 a = Some 0%nat /\ ax' = ax) \/
     (exists n vs lo hi, len0 a = Some (S n) /\ axis_values p = Some vs /\ extrema_spec (a_dt a) vs lo hi /\
        Meta.ax_min ax' = Some lo /\ Meta.ax_max ax' = Some hi)).

Lemma minmax_axis_full_spec nprops ax ax' : minmax_axis_full nprops ax = Ok ax' -> axis_truthful_full nprops ax ax'.
Proof. intros H. split; [eapply minmax_full_kept; eauto|]. unfold minmax_axis_full in H.
  destruct (alookup (Meta.ax_name ax) nprops) as [p|]; [|discriminate]. destruct (p_vals p) as [a|] eqn:Ev; [|discriminate].
  exists p, a. split; [reflexivity|]. split; [exact Ev|]. destruct (len0 a) as [[|n]|]; try discriminate.
  - inversion H; subst. left. split; reflexivity.
  - destruct (axis_values p) as [vs|]; [|discriminate]. destruct (np_extrema (a_dt a) vs) as [[lo hi]|] eqn:En; [|discriminate].
    inversion H; subst. right. exists n, vs, lo, hi. repeat split; try reflexivity. apply np_extrema_spec. exact En. Qed.

Theorem stored_minmax g m m' axes ps :
  stored_md g m = Ok m' -> Meta.md_axes m = Some axes -> nps_of g m = Some ps ->
  exists axes', Meta.md_axes m' = Some axes' /\ Forall2 (axis_truthful_full (up_nprops ps)) axes axes'.
Proof. intros H Ha Hp. destruct (stored_fields g m m' H) as [_ [_ [_ [_ [_ [_ [_ [_ [_ [_ Hax]]]]]]]]]]. rewrite Ha, Hp in Hax.
  destruct Hax as [axes' [Ha' [_ Hm]]]. exists axes'. split; [exact Ha'|].
  eapply mapM_Forall2; [|exact Hm]. intros x y. apply minmax_axis_full_spec. Qed.

(* ================================================================== C07 along the pipeline: the stored object satisfies the invariants *)
Lemma mapM_Forall_pres {A B} (f : A -> res B) (P : A -> Prop) (Q : B -> Prop) :
  (forall x y, P x -> f x = Ok y -> Q y) -> forall l l', Forall P l -> mapM f l = Ok l' -> Forall Q l'.
Proof. intros HPQ. induction l as [|x r IH]; intros l' HP H; cbn in H.
  - inversion H. constructor.
  - inversion HP; subst. destruct (f x) as [y|] eqn:E; [|discriminate]. destruct (mapM f r) as [r'|]; [|discriminate].
    inversion H; subst. constructor; [eapply HPQ; eauto | apply IH; auto]. Qed.

Lemma minmax_axis_full_inv nprops ax ax' :
  MetaLemmas.axis_inv_gen MetaLemmas.not_gt ax -> minmax_axis_full nprops ax = Ok ax' ->
  MetaLemmas.axis_inv_gen MetaLemmas.not_gt ax'.
Proof. intros Hinv H. unfold minmax_axis_full in H.
  destruct (alookup (Meta.ax_name ax) nprops) as [p|]; [|discriminate]. destruct (p_vals p) as [a|]; [|discriminate].
  destruct (len0 a) as [[|n]|]; try discriminate; [inversion H; subst; exact Hinv|].
  destruct (axis_values p) as [vs|]; [|discriminate]. destruct (np_extrema (a_dt a) vs) as [[lo hi]|] eqn:En; [|discriminate].
  inversion H; subst. destruct Hinv as [_ [_ H3]]. unfold MetaLemmas.axis_inv_gen, set_minmax. cbn.
  split; [split; discriminate|]. split; [|exact H3].
  intros lo0 hi0 E1 E2. inversion E1; inversion E2; subst. eapply extrema_not_gt; eauto. Qed.

Lemma create_pm_valid k p pm : create_props_metadata k p = Ok pm ->
  valid_prop_dtype (pm_dtype pm) = true /\ negb (String.eqb k "") = true.
Proof. intros Hcpm0; apply cpm_core_of_ok in Hcpm0; revert Hcpm0. unfold cpm_core. destruct (p_vals (upcast_prop p)) as [a|[|e0 r0]]; try discriminate.
  - destruct (valid_prop_dtype (a_dt a) && negb (k =? "")) eqn:E; [|discriminate]. intros H. inversion H; subst. cbn.
    apply andb_true_iff in E. exact E.
  - destruct (forallb _ r0); [|discriminate]. destruct (valid_prop_dtype (v_dt e0) && negb (k =? "")) eqn:E; [|discriminate].
    intros H. inversion H; subst. cbn. apply andb_true_iff in E. exact E. Qed.

Lemma props_meta_in_inv ps k pm : In (k, pm) (props_meta ps) -> exists p, In (k, p) ps /\ create_props_metadata k p = Ok pm.
Proof. unfold props_meta. intros H. apply in_flat_map in H. destruct H as [[k0 p] [Hin H]]. cbn [fst snd] in H.
  destruct (create_props_metadata k0 p) as [pm0|] eqn:E; [|destruct H]. destruct H as [H|[]]. inversion H; subst.
  exists p. split; assumption. Qed.

Lemma new_entries_ok ops : Forall (fun p => MetaJson.pm_okb p = true) (new_entries ops).
Proof. destruct ops as [ps|]; [|constructor]. unfold new_entries, props_meta_full. rewrite Forall_forall. intros q Hq.
  apply in_map_iff in Hq. destruct Hq as [[k pm] [<- Hin]]. apply props_meta_in_inv in Hin. destruct Hin as [p [_ Hc]].
  destruct (create_pm_valid k p pm Hc) as [H1 H2]. unfold MetaJson.pm_okb, full_pm. cbn. rewrite H2. exact H1. Qed.

Lemma new_entries_dtype ops : Forall (fun p => In (Meta.pm_dtype p) valid_dtypes) (new_entries ops).
Proof. eapply Forall_impl; [|apply new_entries_ok]. intros p H. unfold MetaJson.pm_okb in H. apply andb_true_iff in H.
  apply smem_In. apply H. Qed.

Lemma stored_md_after_ok g m m' : Meta.md_after_ok m = true -> stored_md g m = Ok m' -> Meta.md_after_ok m' = true.
Proof. intros Hok. unfold stored_md. cbn zeta.
  set (m2 := add_props (add_props m _ true) _ false).
  assert (H2 : Meta.md_after_ok m2 = true) by (apply md_after_ok_add_props, md_after_ok_add_props; exact Hok).
  destruct (backfill_names _ _ _) as [ps|]; [|intros H; inversion H; subst; exact H2].
  intros H. apply compute_minmax_full_inv in H. destruct H as [[_ ->]|[axes [axes' [_ [_ [_ H]]]]]]; assumption. Qed.

Theorem stored_InvW g m m' : MetaLemmas.InvW m -> stored_md g m = Ok m' -> MetaLemmas.InvW m'.
Proof. intros [[Hv [Ha [Hn [He Hr]]]] Htop] H.
  pose proof (stored_md_after_ok g m m' (proj2 (MetaLemmas.md_after_ok_iff m) Htop) H) as Hok.
  destruct (stored_fields g m m' H) as [Ev [_ [_ [_ [_ [Er [_ [_ [En [Ee Hax]]]]]]]]]].
  destruct Htop as [_ [_ [Hkn Hke]]].
  split; [|apply MetaLemmas.md_after_ok_iff; exact Hok]. unfold MetaLemmas.nested_inv. rewrite Ev, Er, En, Ee.
  split; [exact Hv|]. split.
  - destruct (Meta.md_axes m) as [axes|]; [|rewrite Hax; constructor]. destruct Hax as [axes' [-> [_ Hm]]]. cbn [MetaLemmas.olist] in *.
    destruct (nps_of g m) as [ps|]; [|subst; exact Ha].
    eapply mapM_Forall_pres; [|exact Ha|exact Hm]. intros x y Hx Hy. eapply minmax_axis_full_inv; eauto.
  - split; [|split; [|exact Hr]].
    + apply (MetaLemmas.pm_ok_split _), MetaLemmas.props_merge_ok; [apply new_entries_dtype | apply MetaLemmas.pm_ok_split; split; assumption].
    + apply (MetaLemmas.pm_ok_split _), MetaLemmas.props_merge_ok; [apply new_entries_dtype | apply MetaLemmas.pm_ok_split; split; assumption]. Qed.

(* ================================================================== C08 along the pipeline: the stored object is in the domain of C08 *)
Lemma omapM_Forall2 {A B} (f : A -> option B) : forall l l', omapM f l = Some l' -> Forall2 (fun x y => f x = Some y) l l'.
Proof. induction l as [|x r IH]; intros l' H; cbn in H; [inversion H; constructor|].
  destruct (f x) as [y|] eqn:E; [|discriminate]. destruct (omapM f r) as [r'|]; [|discriminate]. inversion H; subst.
  constructor; [exact E | apply IH; reflexivity]. Qed.

Lemma decoded_all (P : Meta.fl -> Prop) (Q : Z -> Prop) vs fs :
  (forall z f, Q z -> dec_fl z = Some f -> P f) -> Forall Q vs -> omapM dec_fl vs = Some fs -> Forall P fs.
Proof. intros HPQ HQ H. apply omapM_Forall2 in H. induction H as [|z f r r' Hz _ IH]; [constructor|].
  inversion HQ; subst. constructor; [eapply HPQ; eauto | apply IH; assumption]. Qed.

Lemma np_extrema_finite d vs lo hi :
  Forall (fun z => payload_finite d z = true) vs -> np_extrema d vs = Ok (lo, hi) ->
  Json.fl_finite lo = true /\ Json.fl_finite hi = true.
Proof. intros Hfin H. apply np_extrema_spec in H. unfold extrema_spec in H. unfold payload_finite in Hfin.
  destruct (is_float d).
  - destruct H as [fs [Hd Hc]].
    assert (Hall : Forall (fun f => Json.fl_finite f = true) fs).
    { eapply (decoded_all _ (fun z => match dec_fl z with Some (Meta.Fin _) => true | _ => false end = true)); [|exact Hfin|exact Hd].
      intros z f Hz E. rewrite E in Hz. destruct f; try discriminate. reflexivity. }
    rewrite Forall_forall in Hall. destruct Hc as [[_ [[Hlo _] [Hhi _]]]|[Hex _]]; [split; apply Hall; assumption|].
    apply Exists_exists in Hex. destruct Hex as [f [Hin ->]]. specialize (Hall _ Hin). discriminate.
  - destruct H as [zl [zh [_ [_ [-> ->]]]]]. split; reflexivity. Qed.

Lemma axis_after_unit a : is_ok (Meta.axis_after a) = true ->
  Meta.truthy (Meta.ax_scaled_unit a) && Meta.is_none (Meta.ax_scale a) = false.
Proof. unfold Meta.axis_after. destruct (negb _); [discriminate|].
  destruct (Meta.ax_min a), (Meta.ax_max a); try destruct (Meta.fl_gt _ _); try discriminate;
    destruct (Meta.truthy (Meta.ax_scaled_unit a) && Meta.is_none (Meta.ax_scale a)); try discriminate; reflexivity. Qed.

Lemma minmax_axis_full_ok nprops ax ax' :
  match alookup (Meta.ax_name ax) nprops with Some p => prop_finite p = true | None => True end ->
  MetaJson.axis_ok ax = true -> minmax_axis_full nprops ax = Ok ax' -> MetaJson.axis_ok ax' = true.
Proof. intros Hfin Hok H. unfold minmax_axis_full in H.
  destruct (alookup (Meta.ax_name ax) nprops) as [p|]; [|discriminate]. unfold prop_finite in Hfin.
  destruct (p_vals p) as [a|] eqn:Ev; [|discriminate].
  destruct (len0 a) as [[|n]|]; try discriminate; [inversion H; subst; exact Hok|].
  destruct (axis_values p) as [vs|] eqn:Ea; [|discriminate]. destruct (np_extrema (a_dt a) vs) as [[lo hi]|] eqn:En; [|discriminate].
  inversion H; subst. clear H.
  assert (Hv : Forall (fun z => payload_finite (a_dt a) z = true) vs).
  { rewrite Forall_forall. intros z Hz. rewrite forallb_forall in Hfin. apply Hfin. eapply axis_values_In; eauto. }
  destruct (np_extrema_finite _ _ _ _ Hv En) as [Fl Fh]. pose proof (extrema_not_gt _ _ _ _ En) as Hgt.
  unfold MetaJson.axis_ok in *. apply andb_true_iff in Hok. destruct Hok as [Hok Hoff]. apply andb_true_iff in Hok. destruct Hok as [Hok Hsc].
  apply andb_true_iff in Hok. destruct Hok as [Hok _]. apply andb_true_iff in Hok. destruct Hok as [Hok _].
  apply andb_true_iff in Hok. destruct Hok as [Hty Haft].
  unfold set_minmax. cbn [Meta.ax_type Meta.ax_min Meta.ax_max Meta.ax_scale Meta.ax_offset MetaJson.optfl_finite].
  rewrite Hty, Hsc, Hoff, Fl, Fh. cbn [andb]. rewrite !andb_true_r.
  unfold Meta.axis_after. cbn [Meta.ax_min Meta.ax_max Meta.ax_scale Meta.ax_scaled_unit Meta.is_none Bool.eqb negb].
  unfold MetaLemmas.not_gt in Hgt. rewrite Hgt. rewrite (axis_after_unit ax Haft). reflexivity. Qed.

Lemma pm_okb_update d p : forallb (fun kv => MetaJson.pm_okb (snd kv)) d = true -> MetaJson.pm_okb p = true ->
  forallb (fun kv => MetaJson.pm_okb (snd kv)) (Meta.pm_update_existing d p) = true.
Proof. intros Hd Hp. unfold Meta.pm_update_existing. rewrite forallb_forall in *. intros kv Hin. apply in_map_iff in Hin.
  destruct Hin as [[k v] [E Hin]]. specialize (Hd _ Hin). cbn [fst snd] in *.
  destruct (String.eqb k (Meta.pm_identifier p)); subst kv; cbn [snd]; [|exact Hd].
  unfold MetaJson.pm_okb in *. cbn. apply andb_true_iff in Hd, Hp. apply andb_true_iff. split; [apply Hd | apply Hp]. Qed.

Lemma pm_okb_set d k p : forallb (fun kv => MetaJson.pm_okb (snd kv)) d = true -> MetaJson.pm_okb p = true ->
  forallb (fun kv => MetaJson.pm_okb (snd kv)) (Meta.pm_set d k p) = true.
Proof. intros Hd Hp. induction d as [|[k' v] r IH]; cbn; [rewrite Hp; reflexivity|]. cbn in Hd. apply andb_true_iff in Hd.
  destruct Hd as [H1 H2]. destruct (String.eqb k k'); cbn; [rewrite Hp, H2; reflexivity | rewrite H1, (IH H2); reflexivity]. Qed.

Lemma pm_okb_loop ps : forall ex fresh, Forall (fun p => MetaJson.pm_okb p = true) ps ->
  forallb (fun kv => MetaJson.pm_okb (snd kv)) ex = true -> forallb (fun kv => MetaJson.pm_okb (snd kv)) fresh = true ->
  forallb (fun kv => MetaJson.pm_okb (snd kv)) (fst (Meta.props_loop ex fresh ps)) = true /\
  forallb (fun kv => MetaJson.pm_okb (snd kv)) (snd (Meta.props_loop ex fresh ps)) = true.
Proof. induction ps as [|p r IH]; intros ex fresh Hps He Hf; cbn; [split; assumption|]. inversion Hps; subst.
  destruct (Meta.pm_haskey (Meta.pm_identifier p) ex); apply IH; auto using pm_okb_update, pm_okb_set. Qed.

Lemma pm_okb_merge ex ps : Forall (fun p => MetaJson.pm_okb p = true) ps ->
  forallb (fun kv => MetaJson.pm_okb (snd kv)) ex = true ->
  forallb (fun kv => MetaJson.pm_okb (snd kv)) (Meta.props_merge ex ps) = true.
Proof. intros Hps He. unfold Meta.props_merge. cbn zeta. destruct (pm_okb_loop ps ex [] Hps He eq_refl) as [H1 H2].
  rewrite forallb_app, H1, H2. reflexivity. Qed.

Lemma mapM_forallb_pres {A B} (f : A -> res B) (P : A -> Prop) (ok : A -> bool) (ok' : B -> bool) :
  (forall x y, P x -> ok x = true -> f x = Ok y -> ok' y = true) ->
  forall l l', Forall P l -> forallb ok l = true -> mapM f l = Ok l' -> forallb ok' l' = true.
Proof. intros HP. induction l as [|x r IH]; intros l' HF Hl H; cbn in H.
  - inversion H. reflexivity.
  - inversion HF; subst. cbn in Hl. apply andb_true_iff in Hl. destruct Hl as [Hx Hr].
    destruct (f x) as [y|] eqn:E; [|discriminate]. destruct (mapM f r) as [r'|]; [|discriminate]. inversion H; subst. cbn.
    rewrite (HP x y); auto. rewrite (IH r'); auto. Qed.

(* a caller object in the domain of C08 + finite coordinates: the stored object is in the domain of C08 *)
Theorem stored_inv_md g m m' :
  MetaJson.inv_md m = true -> coords_finite g m = true -> stored_md g m = Ok m' -> MetaJson.inv_md m' = true.
Proof. intros Hinv Hfin H. unfold MetaJson.inv_md in Hinv.
  apply andb_true_iff in Hinv. destruct Hinv as [Hinv Hext]. apply andb_true_iff in Hinv. destruct Hinv as [Hinv Haft].
  apply andb_true_iff in Hinv. destruct Hinv as [Hinv Hrel]. apply andb_true_iff in Hinv. destruct Hinv as [Hinv Htrk].
  apply andb_true_iff in Hinv. destruct Hinv as [Hinv Hep]. apply andb_true_iff in Hinv. destruct Hinv as [Hinv Hnp].
  apply andb_true_iff in Hinv. destruct Hinv as [Hver Hax].
  pose proof (stored_md_after_ok g m m' Haft H) as Hok.
  destruct (stored_fields g m m' H) as [Ev [_ [_ [_ [Et [Er [_ [Ex [En [Ee Haxes]]]]]]]]]].
  unfold MetaJson.inv_md. rewrite Ev, Et, Er, Ex, En, Ee, Hver, Htrk, Hrel, Hok, Hext. cbn [andb]. rewrite !andb_true_r.
  rewrite (pm_okb_merge _ _ (new_entries_ok _) Hnp), (pm_okb_merge _ _ (new_entries_ok _) Hep). rewrite !andb_true_r.
  destruct (Meta.md_axes m) as [axes|] eqn:Ea; [|rewrite Haxes; reflexivity].
  destruct Haxes as [axes' [-> [_ Hm]]]. cbn [MetaJson.olistb] in *.
  destruct (nps_of g m) as [ps|] eqn:Eps; [|subst; exact Hax].
  pose proof (coords_transfer prop_finite g m ps) as Hc. rewrite Ea in Hc. cbn [olistA] in Hc.
  eapply (mapM_forallb_pres _ _ MetaJson.axis_ok MetaJson.axis_ok); [|apply Hc|exact Hax|exact Hm].
  - intros x y Hx Hox Hy. eapply minmax_axis_full_ok; [|exact Hox|exact Hy]. exact Hx.
  - intros p. unfold prop_finite, upcast_prop. destruct (p_vals p) as [a|l] eqn:Evp; cbn [p_vals]; [|reflexivity].
    unfold upcast_arr. destruct (dtype_eqb (a_dt a) DF16) eqn:E; [|reflexivity]. apply dtype_eqb_eq in E. cbn [a_dt a_flat]. rewrite E. reflexivity.
  - reflexivity.
  - exact Hfin.
  - exact Eps. Qed.

(* hence: it satisfies the invariants, its document validates against the published schema, and GeffMetadata.read of
   the group it was written to returns exactly that object (whatever else the group's attributes hold) *)
Theorem stored_valid g m m' :
  MetaJson.inv_md m = true -> coords_finite g m = true -> stored_md g m = Ok m' ->
  MetaLemmas.InvW m' /\
  Schema.validates Gen.Schema.schema_published (MetaJson.wrap (MetaJson.to_json m')) = true /\
  (forall gv st, MetaJson.md_read gv (MetaJson.md_write m' st) = Ok m' /\
                 MetaJson.attr_get "geff" (MetaJson.md_write m' st) = Some (MetaJson.to_json m')).
Proof. intros Hinv Hfin H. pose proof (stored_inv_md g m m' Hinv Hfin H) as Hi.
  split; [apply MetaJsonLemmas.inv_md_InvW; exact Hi|]. split; [apply MetaJsonLemmas.valid_published; exact Hi|].
  intros gv st. split; [apply MetaJsonLemmas.attrs_roundtrip; exact Hi | apply MetaJsonLemmas.attrs_geff]. Qed.

(* ================================================================== the strong invariant (min <= max) and the NaN gap *)
Lemma inv_fle_nan_free a : MetaLemmas.axis_inv_gen MetaLemmas.fle a -> MetaLemmas.nan_free_axis a.
Proof. intros [H1 [H2 _]]. split; intro E.
  - destruct (Meta.ax_max a) as [hi|] eqn:Eh.
    + exact (H2 _ _ E eq_refl).
    + rewrite (proj2 H1 eq_refl) in E. discriminate.
  - destruct (Meta.ax_min a) as [lo|] eqn:El.
    + specialize (H2 _ _ eq_refl E). destruct lo; exact H2.
    + rewrite (proj1 H1 eq_refl) in E. discriminate. Qed.

Lemma dec_fl_nan z : dec_fl z = Some Meta.NaN -> z = (TOK + 1)%Z.
Proof. unfold dec_fl. destruct (Z.abs z <? TOK)%Z; [discriminate|]. destruct (Z.eqb_spec z (TOK + 1)); [auto|].
  destruct (z =? TOK + 2)%Z; [discriminate|]. destruct (z =? TOK + 3)%Z; [discriminate|]. destruct (z =? TOK + 4)%Z; discriminate. Qed.

Lemma np_extrema_nan_free d vs lo hi :
  Forall (fun z => payload_not_nan d z = true) vs -> np_extrema d vs = Ok (lo, hi) -> not_nan lo /\ not_nan hi.
Proof. intros Hnn H. apply np_extrema_spec in H. unfold extrema_spec in H. unfold payload_not_nan in Hnn. destruct (is_float d).
  - destruct H as [fs [Hd Hc]].
    assert (Hall : Forall not_nan fs).
    { eapply (decoded_all _ (fun z => negb (z =? TOK + 1)%Z = true)); [|exact Hnn|exact Hd].
      intros z f Hz E Ef. subst f. apply dec_fl_nan in E. subst z. rewrite Z.eqb_refl in Hz. discriminate. }
    rewrite Forall_forall in Hall. destruct Hc as [[_ [[Hlo _] [Hhi _]]]|[Hex _]]; [split; apply Hall; assumption|].
    apply Exists_exists in Hex. destruct Hex as [f [Hin ->]]. exfalso. apply (Hall _ Hin). reflexivity.
  - destruct H as [zl [zh [_ [_ [-> ->]]]]]. split; discriminate. Qed.

Lemma minmax_axis_full_nan_free nprops ax ax' :
  match alookup (Meta.ax_name ax) nprops with Some p => prop_nan_free p = true | None => True end ->
  MetaLemmas.nan_free_axis ax -> minmax_axis_full nprops ax = Ok ax' -> MetaLemmas.nan_free_axis ax'.
Proof. intros Hnn Hax H. unfold minmax_axis_full in H.
  destruct (alookup (Meta.ax_name ax) nprops) as [p|]; [|discriminate]. unfold prop_nan_free in Hnn.
  destruct (p_vals p) as [a|] eqn:Ev; [|discriminate].
  destruct (len0 a) as [[|n]|]; try discriminate; [inversion H; subst; exact Hax|].
  destruct (axis_values p) as [vs|] eqn:Ea; [|discriminate]. destruct (np_extrema (a_dt a) vs) as [[lo hi]|] eqn:En; [|discriminate].
  inversion H; subst. clear H.
  assert (Hv : Forall (fun z => payload_not_nan (a_dt a) z = true) vs).
  { rewrite Forall_forall. intros z Hz. rewrite forallb_forall in Hnn. apply Hnn. eapply axis_values_In; eauto. }
  destruct (np_extrema_nan_free _ _ _ _ Hv En) as [Hl Hh]. unfold MetaLemmas.nan_free_axis, set_minmax. cbn.
  split; intro E; inversion E; subst; [apply Hl | apply Hh]; reflexivity. Qed.

Lemma prop_nan_free_upcast p : prop_nan_free (upcast_prop p) = prop_nan_free p.
Proof. unfold prop_nan_free, upcast_prop. destruct (p_vals p) as [a|l] eqn:Evp; cbn [p_vals]; [|reflexivity].
  unfold upcast_arr. destruct (dtype_eqb (a_dt a) DF16) eqn:E; [|reflexivity]. apply dtype_eqb_eq in E. cbn [a_dt a_flat]. rewrite E. reflexivity. Qed.

(* with no NaN among the coordinates the property's own invariant (min <= max) is preserved *)
Theorem stored_Inv g m m' : MetaLemmas.Inv m -> coords_nan_free g m = true -> stored_md g m = Ok m' -> MetaLemmas.Inv m'.
Proof. intros Hinv Hnn H. apply MetaLemmas.InvW_nan_free_Inv; [|eapply stored_InvW; [apply MetaLemmas.Inv_InvW; exact Hinv | exact H]].
  destruct Hinv as [[_ [Ha _]] _]. unfold MetaLemmas.nan_free.
  destruct (stored_fields g m m' H) as [_ [_ [_ [_ [_ [_ [_ [_ [_ [_ Hax]]]]]]]]]].
  destruct (Meta.md_axes m) as [axes|] eqn:Ea; [|rewrite Hax; constructor]. destruct Hax as [axes' [-> [_ Hm]]]. cbn [MetaLemmas.olist] in *.
  assert (Hnf : Forall MetaLemmas.nan_free_axis axes) by (eapply Forall_impl; [|exact Ha]; apply inv_fle_nan_free).
  destruct (nps_of g m) as [ps|] eqn:Eps; [|subst; exact Hnf].
  pose proof (coords_transfer prop_nan_free g m ps prop_nan_free_upcast eq_refl Hnn Eps) as Hc. rewrite Ea in Hc. cbn [olistA] in Hc.
  eapply (mapM_Forall_pres _ (fun x => match alookup (Meta.ax_name x) (up_nprops ps) with Some p => prop_nan_free p = true | None => True end
                                        /\ MetaLemmas.nan_free_axis x)); [|apply Forall_and; [exact Hc | exact Hnf]|exact Hm].
  intros x y [Hx1 Hx2] Hy. eapply minmax_axis_full_nan_free; eauto. Qed.

(* the open finding nan-axis-bound seen from the writer: one NaN coordinate, and a caller object that satisfies every
   invariant is stored (the write succeeds, structure validation included) as a document with min = max = NaN: min <= max
   fails, and the document is not valid under the published schema (NaN is not a JSON number) *)
Definition nan_g : wgraph :=
  mkwg (mkarr DU8 [2%nat] [1; 2]%Z) (mkarr DU8 [0%nat; 2%nat] [])
       (Some [("x", mkprop (PFixed (mkarr DF64 [2%nat] [TOK + 1; 1024]%Z)) None)]) (Some []).
Definition nan_m : Meta.metadata :=
  Meta.mkMD "1.0" true (Some [Meta.mkAxis "x" None None None None None None None]) [] [] None None None None None [].
Definition nan_m' : Meta.metadata :=
  Meta.mkMD "1.0" true (Some [Meta.mkAxis "x" None None (Some Meta.NaN) (Some Meta.NaN) None None None])
            [("x", Meta.mkPM "x" "float64" false None None None)] [] None None None None None [].

Theorem stored_nan_refuted :
  MetaLemmas.Inv nan_m /\ MetaJson.inv_md nan_m = true /\ dict_keys_ok nan_m = true /\
  snd (run (write_arrays KObj nan_g (abs I0 nan_m) true false) None) = Ok tt /\
  stored_md nan_g nan_m = Ok nan_m' /\ ~ MetaLemmas.Inv nan_m' /\
  Schema.validates Gen.Schema.schema_published (MetaJson.wrap (MetaJson.to_json nan_m')) = false.
Proof. split; [|split; [vm_compute; reflexivity|split; [reflexivity|split; [vm_compute; reflexivity|split; [vm_compute; reflexivity|split]]]]].
  - apply MetaLemmas.InvW_nan_free_Inv; [|apply MetaJsonLemmas.inv_md_InvW; vm_compute; reflexivity].
    unfold MetaLemmas.nan_free. cbn. constructor; [split; discriminate | constructor].
  - intros [[_ [Ha _]] _]. cbn in Ha. inversion Ha as [|? ? [_ [H2 _]] _]; subst. apply (H2 Meta.NaN Meta.NaN eq_refl eq_refl).
  - vm_compute. reflexivity. Qed.

(* ================================================================== the pieces are the helper models of Meta.v *)
(* the entry create_props_metadata builds passes PropMetadata's validators unchanged *)
Lemma full_pm_validates name p pm : create_props_metadata name p = Ok pm ->
  Meta.propmeta_of_jv (MetaJson.pm_to_json (full_pm name pm)) = Ok (full_pm name pm).
Proof. intros H. destruct (create_pm_valid name p pm H) as [H1 H2]. apply MetaJsonLemmas.pm_rt.
  unfold MetaJson.pm_okb, full_pm. cbn. rewrite H2. exact H1. Qed.

(* add_props is Meta.add_or_update_props_metadata (the model tied to the code by C07's traces) called with the dumps *)
Lemma add_props_is_helper m ops (node : bool) :
  Meta.add_or_update_props_metadata m (Meta.JList (map MetaJson.pm_to_json (new_entries ops)))
                                    (Meta.JStr (if node then "node" else "edge"))
  = Ok (add_props m (new_entries ops) node).
Proof. unfold Meta.add_or_update_props_metadata, Meta.v_list.
  rewrite (MetaJsonLemmas.mapM_map_id Meta.propmeta_of_jv MetaJson.pm_to_json).
  - destruct node; reflexivity.
  - intros x Hx. apply MetaJsonLemmas.pm_rt. pose proof (new_entries_ok ops) as H. rewrite Forall_forall in H. apply H. exact Hx. Qed.

(* ================================================================== refinement form of the simulation *)
Corollary simulation_refines g m s :
  refines m s -> Meta.md_after_ok m = true -> dict_keys_ok m = true -> coords_exact g m = true ->
  match final_metadata g s, stored_md g m with
  | Ok s', Ok m' => refines m' s'
  | Err e, Err e' => e = e'
  | _, _ => False
  end.
Proof. intros [I <-] H1 H2 H3. rewrite (simulation I g m H1 H2 H3). destruct (stored_md g m) as [m'|e]; cbn; [exists I|]; reflexivity. Qed.

(* ================================================================== end to end on one store (C01 + C10 + C07 + C08) *)
Lemma payload_exact_finite d z : payload_exact d z = true -> payload_finite d z = true.
Proof. unfold payload_exact, payload_finite, dec_fl. destruct (is_float d); [|reflexivity]. intros ->. reflexivity. Qed.

Lemma prop_exact_finite p : prop_exact p = true -> prop_finite p = true.
Proof. unfold prop_exact, prop_finite. destruct (p_vals p) as [a|]; [|reflexivity]. intros H. apply andb_true_iff in H. destruct H as [_ H].
  rewrite forallb_forall in *. intros z Hz. apply payload_exact_finite. apply H. exact Hz. Qed.

Lemma coords_all_impl (ok ok' : prop -> bool) g m :
  (forall p, ok p = true -> ok' p = true) -> coords_all ok g m = true -> coords_all ok' g m = true.
Proof. intros Himp. unfold coords_all. destruct (w_nprops g) as [ps|]; [|reflexivity]. rewrite !forallb_forall.
  intros H a Ha. specialize (H a Ha). destruct (alookup (Meta.ax_name a) ps); [apply Himp; exact H | reflexivity]. Qed.

Lemma inv_md_after_ok m : MetaJson.inv_md m = true -> Meta.md_after_ok m = true.
Proof. unfold MetaJson.inv_md. intros H. apply andb_true_iff in H. destruct H as [H _]. apply andb_true_iff in H. apply H. Qed.

(* A caller object in the domain of C08 (valid, finite numbers), dicts with distinct keys, a well-formed graph with exact
   coordinates, a target that holds no geff: write_arrays succeeds, the store passes structural validation, read_to_memory
   returns the graph together with the abstraction of the object m' the full pipeline computes, and m' satisfies the invariants,
   its document validates against the published schema, and GeffMetadata.read returns m' itself. *)
Theorem end_to_end I k pre g m m' n e ov :
  clean k pre -> wf_input g (abs I m) n e ->
  MetaJson.inv_md m = true -> dict_keys_ok m = true -> coords_exact g m = true ->
  stored_md g m = Ok m' ->
  exists tr post,
    write_arrays k g (abs I m) true ov (init pre) = (mkst (Some post) tr, Ok tt) /\
    validate_structure k (Some post) = Ok tt /\
    read_to_memory k (Some post) true None None
      = Ok (mkmg (abs I m') (w_nids g) (w_eids g) (up_props (nps_of g m)) (up_props (w_eprops g))) /\
    MetaJson.inv_md m' = true /\ MetaLemmas.InvW m' /\
    Schema.validates Gen.Schema.schema_published (MetaJson.wrap (MetaJson.to_json m')) = true /\
    (forall gv st, MetaJson.md_read gv (MetaJson.md_write m' st) = Ok m').
Proof. intros Hc Hwf Hinv Hk Hex H.
  pose proof (simulation I g m (inv_md_after_ok m Hinv) Hk Hex) as Hsim. rewrite H in Hsim. cbn [rmap] in Hsim.
  destruct (write_then_read k pre g (abs I m) (abs I m') n e ov Hc Hwf Hsim) as [tr [post [Hw [Hv Hr]]]].
  rewrite backfill_abs in Hr. exists tr, post. split; [exact Hw|]. split; [exact Hv|]. split; [exact Hr|].
  pose proof (coords_all_impl prop_exact prop_finite g m prop_exact_finite Hex) as Hfin.
  split; [eapply stored_inv_md; eauto|]. destruct (stored_valid g m m' Hinv Hfin H) as [H1 [H2 H3]].
  split; [exact H1|]. split; [exact H2|]. intros gv st. apply H3. Qed.

(* ================================================================== the statements of props/C10.v *)
(* exactly one entry per stored property (the caller names no absent one), and every entry is the caller's with
   dtype / varlength replaced by those of the written data -- identifier, unit, name, description kept -- or a fresh one *)
Theorem full_props g m m' n e :
  wf_input g (abs I0 m) n e -> stored_md g m = Ok m' ->
  (forall k, In k (map fst (Meta.md_node_props m')) <-> In k (names_of (nps_of g m))) /\
  (forall k, In k (map fst (Meta.md_edge_props m')) <-> In k (names_of (w_eprops g))) /\
  (forall name p pm, In (name, p) (match nps_of g m with Some ps => ps | None => [] end) ->
     create_props_metadata name p = Ok pm ->
     alookup name (Meta.md_node_props m') =
     Some (match alookup name (Meta.md_node_props m) with
           | Some old => Meta.mkPM (Meta.pm_identifier old) (dtype_name (Tree.pm_dtype pm)) (Tree.pm_varlength pm)
                                   (Meta.pm_unit old) (Meta.pm_name old) (Meta.pm_description old)
           | None => Meta.mkPM name (dtype_name (Tree.pm_dtype pm)) (Tree.pm_varlength pm) None None None
           end)) /\
  (forall name p pm, In (name, p) (match w_eprops g with Some ps => ps | None => [] end) ->
     create_props_metadata name p = Ok pm ->
     alookup name (Meta.md_edge_props m') =
     Some (match alookup name (Meta.md_edge_props m) with
           | Some old => Meta.mkPM (Meta.pm_identifier old) (dtype_name (Tree.pm_dtype pm)) (Tree.pm_varlength pm)
                                   (Meta.pm_unit old) (Meta.pm_name old) (Meta.pm_description old)
           | None => Meta.mkPM name (dtype_name (Tree.pm_dtype pm)) (Tree.pm_varlength pm) None None None
           end)).
Proof. intros Hwf H.
  pose proof (wi_nprops _ _ _ _ Hwf) as Wn. pose proof (wi_eprops _ _ _ _ Hwf) as We.
  pose proof (wi_nstale _ _ _ _ Hwf) as Sn. pose proof (wi_estale _ _ _ _ Hwf) as Se.
  rewrite backfill_abs in Wn, Sn. fold (nps_of g m) in Wn, Sn. cbn [abs md_nprops md_eprops] in Sn, Se.
  unfold abs_dict in Sn, Se. rewrite akeys_map_snd in Sn, Se.
  assert (Hk : forall n0 ops, wf_props n0 ops -> akeys (metas_of ops) = names_of ops /\ NoDup (names_of ops)).
  { intros n0 ops Hw. destruct ops as [ps|]; [|split; [reflexivity | constructor]]. destruct (Hw ps eq_refl) as [Hnd HF].
    split; [|exact Hnd]. cbn. apply props_meta_keys. eapply Forall_impl; [|exact HF]. cbn; tauto. }
  destruct (Hk _ _ Wn) as [Kn Nn]. destruct (Hk _ _ We) as [Ke Ne].
  destruct (stored_keys g m m' H) as [K1 K2]. destruct (stored_entry g m m' H) as [E1 E2].
  split; [|split; [|split]].
  - intros k. rewrite K1, Kn. split; [intros [Hc|Hc]; [apply Sn; exact Hc | exact Hc] | intros Hc; right; exact Hc].
  - intros k. rewrite K2, Ke. split; [intros [Hc|Hc]; [apply Se; exact Hc | exact Hc] | intros Hc; right; exact Hc].
  - intros name p pm Hin Hc. rewrite (E1 Nn name p pm Hin Hc). reflexivity.
  - intros name p pm Hin Hc. rewrite (E2 Ne name p pm Hin Hc). reflexivity. Qed.

(* every caller field that does not depend on the data, one by one *)
Theorem full_passthrough g m m' :
  stored_md g m = Ok m' ->
  Meta.md_version m' = Meta.md_version m /\ Meta.md_directed m' = Meta.md_directed m /\
  Meta.md_sphere m' = Meta.md_sphere m /\ Meta.md_ellipsoid m' = Meta.md_ellipsoid m /\
  Meta.md_track m' = Meta.md_track m /\ Meta.md_related m' = Meta.md_related m /\
  Meta.md_hints m' = Meta.md_hints m /\ Meta.md_extra m' = Meta.md_extra m /\
  match Meta.md_axes m with
  | None => Meta.md_axes m' = None
  | Some axes => exists axes', Meta.md_axes m' = Some axes' /\ Forall2 axis_kept axes axes'
  end /\
  (forall k old, In (k, old) (Meta.md_node_props m) -> exists new, In (k, new) (Meta.md_node_props m') /\ entry_kept old new) /\
  (forall k old, In (k, old) (Meta.md_edge_props m) -> exists new, In (k, new) (Meta.md_edge_props m') /\ entry_kept old new).
Proof. intros H. destruct (stored_fields g m m' H) as [H1 [H2 [H3 [H4 [H5 [H6 [H7 [H8 [_ [_ Hax]]]]]]]]]].
  destruct (stored_entries_kept g m m' H) as [Kn Ke]. repeat (split; [assumption|]).
  split; [|split; assumption]. destruct (Meta.md_axes m) as [axes|]; [|exact Hax].
  destruct Hax as [axes' [Ha [Hk _]]]. exists axes'. split; assumption. Qed.
