(* MetaBridgeLemmas.v -- the full metadata pipeline of write_arrays (MetaBridge.stored_md) against the reduced one
   (Write.final_metadata), the C10 statements on the FULL object, and the composition with C07 / C08:
     simulation           final_metadata g (abs I m) = rmap (abs I) (stored_md g m)
     stored_fields / stored_entries_kept / stored_entry / stored_minmax    C10 on the full object, field by field
     stored_InvW / stored_inv_md / stored_valid / stored_readback          invariants, schema validity, read-back
     end_to_end           write_arrays + validate_structure + read_to_memory + the above on one store *)
From Geff Require Import Base Dtype DtypeLemmas Vlen VlenLemmas Tree TreeLemmas Validate Write Read RoundTrip
                         WriteLemmas ReadLemmas C01Lemmas C10Lemmas MetaBridge.
From Geff Require Meta MetaLemmas Json MetaJson MetaJsonLemmas Schema.
From Geff.Gen Require Import Consts.
From Geff.Gen Require Schema.
Open Scope string_scope.
Open Scope list_scope.

(* ================================================================== small list facts *)
Lemma fold_left_map {A B C} (f : A -> B -> A) (g : C -> B) l : forall a,
  fold_left f (map g l) a = fold_left (fun acc x => f acc (g x)) l a.
Proof. induction l as [|x r IH]; intros a; cbn; [reflexivity | apply IH]. Qed.

Lemma aset_app_found {V} k (v : V) l l' : alookup k l <> None -> aset k v (l ++ l') = aset k v l ++ l'.
Proof. induction l as [|[k' v'] r IH]; cbn; [congruence|]. destruct (String.eqb k k'); [reflexivity|].
  intros H. rewrite IH by exact H. reflexivity. Qed.

Lemma akeys_map_snd {V W} (f : string * V -> W) (l : list (string * V)) :
  akeys (map (fun kv => (fst kv, f kv)) l) = akeys l.
Proof. unfold akeys. rewrite map_map. reflexivity. Qed.

(* ================================================================== dtype names *)
Lemma dtype_of_name_name d : dtype_of_name (dtype_name d) = d.
Proof. destruct d; reflexivity. Qed.

Lemma abs_full_pm I k d vl : abs_pm I (full_pm k (mkpm d vl None None None)) = mkpm d vl None None None.
Proof. unfold abs_pm, full_pm. cbn. rewrite dtype_of_name_name. reflexivity. Qed.

(* ================================================================== back-fill *)
Lemma backfill_abs I nids m nprops :
  backfill nids (abs I m) nprops = backfill_names nids (axes_names_opt m) nprops.
Proof. unfold backfill, backfill_names, axes_names_opt, abs. cbn [md_axes].
  destruct nprops as [ps|]; [|reflexivity]. destruct (Meta.md_axes m) as [axes|]; cbn [option_map]; [|reflexivity].
  destruct (option_eqb Nat.eqb (len0 nids) (Some 0%nat)); [|reflexivity]. f_equal.
  rewrite !fold_left_map. reflexivity. Qed.

(* ================================================================== property entries: the two merges agree *)
Definition tokens_none (pm : pmeta) : Prop := pm_unit pm = None /\ pm_name pm = None /\ pm_descr pm = None.

Lemma tokens_none_eq pm : tokens_none pm -> pm = mkpm (pm_dtype pm) (pm_varlength pm) None None None.
Proof. destruct pm as [d v u n de]. intros [H1 [H2 H3]]. cbn in *. subst. reflexivity. Qed.

Lemma props_meta_tokens ps : Forall (fun kv => tokens_none (snd kv)) (props_meta ps).
Proof. unfold props_meta. induction ps as [|[k p] r IH]; cbn; [constructor|].
  destruct (create_props_metadata k p) as [pm|] eqn:E; cbn; [|exact IH]. constructor; [|exact IH]. cbn.
  unfold create_props_metadata in E. destruct (p_vals (upcast_prop p)) as [a|[|e0 r0]]; try discriminate.
  - destruct (valid_prop_dtype (a_dt a) && negb (k =? "")); inversion E; subst. repeat split.
  - destruct (forallb _ r0); [|discriminate]. destruct (valid_prop_dtype (v_dt e0) && negb (k =? "")); inversion E; subst. repeat split. Qed.

Lemma pm_haskey_alookup {V} k (d : list (string * V)) :
  (fix has (d : list (string * V)) := match d with [] => false | (k', _) :: r => String.eqb k k' || has r end) d
  = match alookup k d with Some _ => true | None => false end.
Proof. induction d as [|[k' v] r IH]; [reflexivity|]. cbn. destruct (String.eqb k k'); [reflexivity | exact IH]. Qed.

Lemma pm_haskey_spec k d : Meta.pm_haskey k d = match alookup k d with Some _ => true | None => false end.
Proof. induction d as [|[k' v] r IH]; [reflexivity|]. cbn. destruct (String.eqb k k'); [reflexivity | exact IH]. Qed.

Lemma alookup_abs_dict I k d : alookup k (abs_dict I d) = option_map (abs_pm I) (alookup k d).
Proof. unfold abs_dict. apply alookup_map. Qed.

Lemma update_existing_notin d p : ~ In (Meta.pm_identifier p) (map fst d) -> Meta.pm_update_existing d p = d.
Proof. unfold Meta.pm_update_existing. induction d as [|[k v] r IH]; intros Hn; [reflexivity|]. cbn.
  destruct (String.eqb k (Meta.pm_identifier p)) eqn:E.
  - apply String.eqb_eq in E. exfalso. apply Hn. left. exact E.
  - rewrite IH; [reflexivity|]. intro H. apply Hn. right. exact H. Qed.

Lemma update_existing_keys d p : map fst (Meta.pm_update_existing d p) = map fst d.
Proof. unfold Meta.pm_update_existing. rewrite map_map. apply map_ext. intros [k v]. cbn. destruct (String.eqb k _); reflexivity. Qed.

(* with distinct keys, updating "every entry of that key" is the dict assignment of the store model *)
Lemma abs_update_existing I d k pm old :
  NoDup (map fst d) -> alookup k d = Some old ->
  abs_dict I (Meta.pm_update_existing d (full_pm k pm)) =
  aset k (mkpm (pm_dtype pm) (pm_varlength pm) (pm_unit (abs_pm I old)) (pm_name (abs_pm I old)) (pm_descr (abs_pm I old)))
       (abs_dict I d).
Proof. induction d as [|[k' v] r IH]; intros Hnd Hl; [discriminate|]. inversion Hnd as [|? ? Hni Hnd']; subst.
  cbn in Hl. change (Meta.pm_update_existing ((k', v) :: r) (full_pm k pm))
    with ((if String.eqb k' k then (k', Meta.mkPM (Meta.pm_identifier v) (dtype_name (pm_dtype pm)) (pm_varlength pm)
                                             (Meta.pm_unit v) (Meta.pm_name v) (Meta.pm_description v)) else (k', v))
          :: Meta.pm_update_existing r (full_pm k pm)).
  cbn [abs_dict map aset fst snd]. destruct (String.eqb k k') eqn:E.
  - apply String.eqb_eq in E. subst k'. rewrite String.eqb_refl. inversion Hl; subst old.
    rewrite update_existing_notin by exact Hni. cbn [fst snd]. f_equal.
    unfold abs_pm. cbn. rewrite dtype_of_name_name. reflexivity.
  - rewrite String.eqb_sym, E. cbn [fst snd]. f_equal. apply IH; assumption. Qed.

Lemma abs_pm_set I d k p : abs_dict I (Meta.pm_set d k p) = aset k (abs_pm I p) (abs_dict I d).
Proof. unfold abs_dict. induction d as [|[k' v] r IH]; [reflexivity|]. cbn [Meta.pm_set map aset fst snd].
  destruct (String.eqb k k') eqn:E.
  - apply String.eqb_eq in E. subst. reflexivity.
  - cbn [map fst snd]. rewrite IH. reflexivity. Qed.

Lemma aset_tokens (l : list (string * pmeta)) k pm :
  Forall (fun kv => tokens_none (snd kv)) l -> tokens_none pm -> Forall (fun kv => tokens_none (snd kv)) (aset k pm l).
Proof. induction l as [|[k' v] r IH]; intros HF Hp; cbn.
  - constructor; [exact Hp | constructor].
  - inversion HF; subst. destruct (String.eqb k k'); constructor; auto. Qed.

(* the loop of add_or_update_props_metadata against the fold of the store model, on a split state *)
Lemma loop_sim I : forall new ex fresh,
  NoDup (map fst ex) ->
  Forall (fun kv => tokens_none (snd kv)) (abs_dict I fresh) ->
  Forall (fun kv => tokens_none (snd kv)) new ->
  fold_left upd_pm new (abs_dict I ex ++ abs_dict I fresh) =
  abs_dict I (fst (Meta.props_loop ex fresh (map (fun kv => full_pm (fst kv) (snd kv)) new))) ++
  abs_dict I (snd (Meta.props_loop ex fresh (map (fun kv => full_pm (fst kv) (snd kv)) new))).
Proof. induction new as [|[k pm] r IH]; intros ex fresh Hnd Hfr Hnew; [reflexivity|].
  inversion Hnew as [|? ? Hpm Hnew']; subst. cbn [fst snd] in Hpm.
  destruct pm as [d v u n de]. destruct Hpm as [Hu [Hn Hde]]. cbn in Hu, Hn, Hde. subst u n de.
  cbn [map fold_left Meta.props_loop fst snd]. change (Meta.pm_identifier (full_pm k (mkpm d v None None None))) with k.
  rewrite pm_haskey_spec. unfold upd_pm at 2. rewrite alookup_app, alookup_abs_dict.
  destruct (alookup k ex) as [old|] eqn:El; cbn [option_map].
  - rewrite aset_app_found by (rewrite alookup_abs_dict, El; discriminate).
    rewrite <- (abs_update_existing I ex k (mkpm d v None None None) old Hnd El).
    apply IH; [rewrite update_existing_keys; exact Hnd | exact Hfr | exact Hnew'].
  - assert (Hstep : match alookup k (abs_dict I fresh) with
                    | Some old => aset k (mkpm d v (pm_unit old) (pm_name old) (pm_descr old))
                                       (abs_dict I ex ++ abs_dict I fresh)
                    | None => (abs_dict I ex ++ abs_dict I fresh) ++ [(k, mkpm d v None None None)]
                    end = abs_dict I ex ++ abs_dict I (Meta.pm_set fresh k (full_pm k (mkpm d v None None None)))).
    { rewrite abs_pm_set, abs_full_pm.
      destruct (alookup k (abs_dict I fresh)) as [old|] eqn:Ef.
      - rewrite aset_app_fresh by (rewrite alookup_abs_dict, El; reflexivity). f_equal.
        apply alookup_some_in in Ef. rewrite Forall_forall in Hfr. destruct (Hfr _ Ef) as [H1 [H2 H3]]. cbn in H1, H2, H3.
        rewrite H1, H2, H3. reflexivity.
      - rewrite <- app_assoc. f_equal. symmetry. apply aset_fresh. exact Ef. }
    cbn [pm_dtype pm_varlength]. rewrite Hstep. apply IH; [exact Hnd | | exact Hnew'].
    rewrite abs_pm_set. apply aset_tokens; [exact Hfr|]. rewrite abs_full_pm. repeat split. Qed.

Lemma merge_sim I ex new :
  NoDup (map fst ex) -> Forall (fun kv => tokens_none (snd kv)) new ->
  add_or_update (abs_dict I ex) new = abs_dict I (Meta.props_merge ex (map (fun kv => full_pm (fst kv) (snd kv)) new)).
Proof. intros Hnd Hnew. unfold add_or_update, Meta.props_merge. cbn zeta.
  transitivity (fold_left upd_pm new (abs_dict I ex ++ abs_dict I [])); [cbn [abs_dict map]; rewrite app_nil_r; reflexivity|].
  rewrite (loop_sim I new ex [] Hnd (Forall_nil _) Hnew). unfold abs_dict. rewrite map_app. reflexivity. Qed.

(* ================================================================== axis ranges: the two computations agree on exact coordinates *)
Lemma select_In {A} keep : forall (rows : list A) x, In x (select keep rows) -> In x rows.
Proof. induction keep as [|b kr IH]; intros [|y yr] x H; cbn in H; try contradiction.
  destruct b; [destruct H as [<-|H]; [left; reflexivity | right; apply IH; exact H] | right; apply IH; exact H]. Qed.

Lemma firstn_In' {A} k : forall (l : list A) x, In x (firstn k l) -> In x l.
Proof. intros l x H. rewrite <- (firstn_skipn k l). apply in_or_app. left. exact H. Qed.
Lemma skipn_In' {A} k : forall (l : list A) x, In x (skipn k l) -> In x l.
Proof. intros l x H. rewrite <- (firstn_skipn k l). apply in_or_app. right. exact H. Qed.

Lemma chunks_In {A} k n : forall (l : list A) c x, In c (chunks k n l) -> In x c -> In x l.
Proof. induction n as [|n IH]; intros l c x Hc Hx; cbn in Hc; [contradiction|].
  destruct Hc as [<-|Hc]; [eapply firstn_In'; exact Hx | eapply skipn_In', IH; eauto]. Qed.

Lemma axis_values_In p a vs : p_vals p = PFixed a -> axis_values p = Some vs -> forall z, In z vs -> In z (a_flat a).
Proof. unfold axis_values. intros Ev. rewrite Ev. destruct (p_missing p) as [m|].
  - destruct (Nat.eqb _ _); [|discriminate]. intros H z Hz. inversion H; subst vs; clear H.
    apply in_concat in Hz. destruct Hz as [c [Hc Hz]]. apply select_In in Hc. eapply chunks_In; eauto.
  - intros H z Hz. inversion H; subst. exact Hz. Qed.

Lemma omapM_dec_exact vs : Forall (fun z => (Z.abs z <? TOK)%Z = true) vs -> omapM dec_fl vs = Some (map Meta.Fin vs).
Proof. induction vs as [|z r IH]; intros H; [reflexivity|]. inversion H as [|? ? Hz Hr]; subst. cbn [omapM map].
  unfold dec_fl at 1. rewrite Hz. rewrite (IH Hr). reflexivity. Qed.

Lemma fl_min2_fin a b : fl_min2 (Meta.Fin a) (Meta.Fin b) = Meta.Fin (Z.min a b).
Proof. unfold fl_min2. cbn. destruct (Z.leb_spec a b); [rewrite Z.min_l by lia | rewrite Z.min_r by lia]; reflexivity. Qed.
Lemma fl_max2_fin a b : fl_max2 (Meta.Fin a) (Meta.Fin b) = Meta.Fin (Z.max a b).
Proof. unfold fl_max2. cbn. destruct (Z.leb_spec a b); [rewrite Z.max_r by lia | rewrite Z.max_l by lia]; reflexivity. Qed.

Lemma fold_min_fin r : forall x, fold_left fl_min2 (map Meta.Fin r) (Meta.Fin x) = Meta.Fin (fold_left Z.min r x).
Proof. induction r as [|y r IH]; intros x; [reflexivity|]. cbn [map fold_left]. rewrite fl_min2_fin. apply IH. Qed.
Lemma fold_max_fin r : forall x, fold_left fl_max2 (map Meta.Fin r) (Meta.Fin x) = Meta.Fin (fold_left Z.max r x).
Proof. induction r as [|y r IH]; intros x; [reflexivity|]. cbn [map fold_left]. rewrite fl_max2_fin. apply IH. Qed.

Lemma flmin_fin vs : flmin_list (map Meta.Fin vs) = option_map Meta.Fin (zmin_list vs).
Proof. destruct vs as [|x r]; [reflexivity|]. cbn [map flmin_list zmin_list option_map]. rewrite fold_min_fin. reflexivity. Qed.
Lemma flmax_fin vs : flmax_list (map Meta.Fin vs) = option_map Meta.Fin (zmax_list vs).
Proof. destruct vs as [|x r]; [reflexivity|]. cbn [map flmax_list zmax_list option_map]. rewrite fold_max_fin. reflexivity. Qed.

Lemma np_extrema_exact d vs :
  is_numeric d = true -> Forall (fun z => payload_exact d z = true) vs ->
  np_extrema d vs = match zmin_list vs, zmax_list vs with
                    | Some lo, Some hi =>
                        let sc := if is_float d then 1%Z else fscale in Ok (Meta.Fin (lo * sc), Meta.Fin (hi * sc))
                    | _, _ => Err ValueError
                    end.
Proof. intros Hnum Hex. unfold np_extrema, payload_exact in *. destruct (is_float d) eqn:Ef.
  - rewrite (omapM_dec_exact vs Hex), flmin_fin, flmax_fin.
    destruct (zmin_list vs) as [lo|], (zmax_list vs) as [hi|]; cbn [option_map]; try reflexivity.
    rewrite !Z.mul_1_r. reflexivity.
  - rewrite Hnum. destruct (zmin_list vs) as [lo|] eqn:El; [|reflexivity]. destruct (zmax_list vs) as [hi|] eqn:Eh; [|reflexivity].
    apply zmin_list_spec in El. apply zmax_list_spec in Eh. destruct El as [Hlo _], Eh as [Hhi _].
    rewrite Forall_forall in Hex. pose proof (Hex _ Hlo) as H1. pose proof (Hex _ Hhi) as H2.
    apply Z.ltb_lt in H1, H2. unfold float_of_int. rewrite !round_bits_small by exact H1 || exact H2. reflexivity. Qed.

Lemma minmax_axis_sim I nprops a :
  match alookup (Meta.ax_name a) nprops with Some p => prop_exact p = true | None => True end ->
  minmax_axis nprops (abs_axis I a) = rmap (abs_axis I) (minmax_axis_full nprops a).
Proof. unfold minmax_axis, minmax_axis_full. cbn [abs_axis ax_name ax_tok].
  destruct (alookup (Meta.ax_name a) nprops) as [p|]; [|reflexivity]. intros Hex. unfold prop_exact in Hex.
  destruct (p_vals p) as [arr0|] eqn:Ev; [|reflexivity]. apply andb_true_iff in Hex. destruct Hex as [Hnum Hall].
  destruct (len0 arr0) as [[|n]|]; try reflexivity.
  destruct (axis_values p) as [vs|] eqn:Ea; [|reflexivity].
  rewrite (np_extrema_exact (a_dt arr0) vs Hnum).
  - destruct (zmin_list vs) as [lo|], (zmax_list vs) as [hi|]; try reflexivity.
  - rewrite Forall_forall. intros z Hz. rewrite forallb_forall in Hall. apply Hall. eapply axis_values_In; eauto. Qed.

Lemma mapM_minmax_sim I nprops : forall axes,
  Forall (fun a => match alookup (Meta.ax_name a) nprops with Some p => prop_exact p = true | None => True end) axes ->
  mapM (minmax_axis nprops) (map (abs_axis I) axes) = rmap (map (abs_axis I)) (mapM (minmax_axis_full nprops) axes).
Proof. induction axes as [|a r IH]; intros H; [reflexivity|]. inversion H as [|? ? Ha Hr]; subst. cbn [map mapM].
  rewrite (minmax_axis_sim I nprops a Ha). destruct (minmax_axis_full nprops a) as [a'|e]; [|reflexivity]. cbn [rmap].
  rewrite (IH Hr). destruct (mapM (minmax_axis_full nprops) r); reflexivity. Qed.

(* ================================================================== what one turn of the range loop keeps *)
Definition axis_kept (a a' : Meta.axis) : Prop :=
  Meta.ax_name a' = Meta.ax_name a /\ Meta.ax_type a' = Meta.ax_type a /\ Meta.ax_unit a' = Meta.ax_unit a /\
  Meta.ax_scale a' = Meta.ax_scale a /\ Meta.ax_scaled_unit a' = Meta.ax_scaled_unit a /\ Meta.ax_offset a' = Meta.ax_offset a.

Lemma minmax_full_kept nprops a a' : minmax_axis_full nprops a = Ok a' -> axis_kept a a'.
Proof. unfold minmax_axis_full, axis_kept. destruct (alookup (Meta.ax_name a) nprops) as [p|]; [|discriminate].
  destruct (p_vals p) as [arr0|]; [|discriminate]. destruct (len0 arr0) as [[|n]|]; try discriminate.
  - intros H. inversion H; subst. repeat split.
  - destruct (axis_values p) as [vs|]; [|discriminate]. destruct (np_extrema (a_dt arr0) vs) as [[lo hi]|]; [|discriminate].
    intros H. inversion H; subst. repeat split. Qed.

Lemma mapM_full_kept nprops axes axes' : mapM (minmax_axis_full nprops) axes = Ok axes' -> Forall2 axis_kept axes axes'.
Proof. apply mapM_Forall2. intros x y. apply minmax_full_kept. Qed.

Lemma kept_names l l' : Forall2 axis_kept l l' -> map Meta.ax_name l' = map Meta.ax_name l.
Proof. induction 1 as [|a a' r r' H _ IH]; [reflexivity|]. cbn. destruct H as [H _]. rewrite H, IH. reflexivity. Qed.

(* ================================================================== the "after" validator along the pipeline *)
Lemma key_ok_update d p : Forall MetaLemmas.key_ok d -> Forall MetaLemmas.key_ok (Meta.pm_update_existing d p).
Proof. unfold Meta.pm_update_existing. intros H. rewrite Forall_forall in *. intros kv Hin. apply in_map_iff in Hin.
  destruct Hin as [[k v] [E Hin]]. specialize (H _ Hin). unfold MetaLemmas.key_ok in *. cbn [fst snd] in *.
  destruct (String.eqb k (Meta.pm_identifier p)); subst kv; cbn; exact H. Qed.

Lemma key_ok_set d p : Forall MetaLemmas.key_ok d -> Forall MetaLemmas.key_ok (Meta.pm_set d (Meta.pm_identifier p) p).
Proof. induction d as [|[k v] r IH]; intros H; cbn.
  - constructor; [reflexivity | constructor].
  - inversion H; subst. destruct (String.eqb (Meta.pm_identifier p) k) eqn:E.
    + apply String.eqb_eq in E. constructor; [unfold MetaLemmas.key_ok; cbn; symmetry; exact E | assumption].
    + constructor; auto. Qed.

Lemma key_ok_loop ps : forall ex fresh, Forall MetaLemmas.key_ok ex -> Forall MetaLemmas.key_ok fresh ->
  Forall MetaLemmas.key_ok (fst (Meta.props_loop ex fresh ps)) /\ Forall MetaLemmas.key_ok (snd (Meta.props_loop ex fresh ps)).
Proof. induction ps as [|p r IH]; intros ex fresh He Hf; cbn; [split; assumption|].
  destruct (Meta.pm_haskey (Meta.pm_identifier p) ex); apply IH; auto using key_ok_update, key_ok_set. Qed.

Lemma keys_match_merge ex ps : Meta.keys_match ex = true -> Meta.keys_match (Meta.props_merge ex ps) = true.
Proof. rewrite !MetaLemmas.keys_match_spec. intros H. unfold Meta.props_merge. cbn zeta.
  destruct (key_ok_loop ps ex [] H (Forall_nil _)) as [H1 H2]. apply Forall_app. split; assumption. Qed.

Lemma md_after_ok_add_props m ps b : Meta.md_after_ok m = true -> Meta.md_after_ok (add_props m ps b) = true.
Proof. unfold Meta.md_after_ok, add_props. intros H. apply andb_true_iff in H. destruct H as [H Hke].
  apply andb_true_iff in H. destruct H as [H Hkn]. destruct b; cbn [Meta.md_hints Meta.md_node_props Meta.md_edge_props];
    change (Meta.axis_names (Meta.mkMD _ _ (Meta.md_axes m) _ _ _ _ _ _ _ _)) with (Meta.axis_names m); rewrite H; cbn [andb].
  - rewrite (keys_match_merge _ ps Hkn), Hke. reflexivity.
  - rewrite Hkn, (keys_match_merge _ ps Hke). reflexivity. Qed.

Lemma md_after_ok_set_axes m axes axes' :
  Meta.md_axes m = Some axes -> map Meta.ax_name axes' = map Meta.ax_name axes ->
  Meta.md_after_ok (Meta.set_axes_objs m axes') = Meta.md_after_ok m.
Proof. intros Ha Hn. unfold Meta.md_after_ok, Meta.set_axes_objs. cbn [Meta.md_hints Meta.md_node_props Meta.md_edge_props].
  unfold Meta.axis_names. cbn [Meta.md_axes]. rewrite Ha, Hn. reflexivity. Qed.

Lemma md_after_of_ok m : Meta.md_after_ok m = true -> Meta.md_after m = Ok m.
Proof. unfold Meta.md_after. intros ->. reflexivity. Qed.

(* compute_and_add_axis_min_max on a valid object: the assignment of the new axes is never rejected *)
Lemma compute_minmax_full_spec m nprops :
  Meta.md_after_ok m = true ->
  compute_minmax_full m nprops =
  match Meta.md_axes m with
  | None => Ok m
  | Some axes => rmap (Meta.set_axes_objs m) (mapM (minmax_axis_full nprops) axes)
  end.
Proof. intros Hok. unfold compute_minmax_full. destruct (Meta.md_axes m) as [axes|] eqn:Ea; [|reflexivity].
  destruct (mapM (minmax_axis_full nprops) axes) as [axes'|] eqn:Em; [|reflexivity]. cbn [rmap].
  apply md_after_of_ok. rewrite (md_after_ok_set_axes m axes axes' Ea); [exact Hok|]. apply kept_names. eapply mapM_full_kept; eauto. Qed.

Definition olistA {A} (o : option (list A)) : list A := match o with Some l => l | None => [] end.

Lemma compute_minmax_sim I m nprops :
  Meta.md_after_ok m = true ->
  Forall (fun a => match alookup (Meta.ax_name a) nprops with Some p => prop_exact p = true | None => True end)
         (olistA (Meta.md_axes m)) ->
  compute_minmax (abs I m) nprops = rmap (abs I) (compute_minmax_full m nprops).
Proof. intros Hok Hex. rewrite (compute_minmax_full_spec m nprops Hok). unfold compute_minmax. cbn [abs md_axes].
  destruct (Meta.md_axes m) as [axes|] eqn:Ea; cbn [option_map olistA] in *; [|cbn; unfold abs; rewrite Ea; reflexivity].
  rewrite (mapM_minmax_sim I nprops axes Hex). destruct (mapM (minmax_axis_full nprops) axes) as [axes'|]; reflexivity. Qed.

(* ================================================================== the coordinates hypothesis along back-fill and upcast *)
Lemma prop_exact_upcast p : prop_exact (upcast_prop p) = prop_exact p.
Proof. unfold upcast_prop, prop_exact. destruct (p_vals p) as [a|l] eqn:Ev; cbn [p_vals]; [|rewrite Ev; reflexivity].
  unfold upcast_arr. destruct (dtype_eqb (a_dt a) DF16) eqn:E; [|reflexivity].
  apply dtype_eqb_eq in E. cbn [a_dt a_flat]. rewrite E. reflexivity. Qed.

Lemma backfill_fold_lookup k ns : forall (acc : props) p,
  alookup k (fold_left (fun acc n => if ahas n acc then acc else acc ++ [(n, empty_f64_prop)]) ns acc) = Some p ->
  alookup k acc = Some p \/ p = empty_f64_prop.
Proof. induction ns as [|n r IH]; intros acc p H; cbn in H; [left; exact H|].
  apply IH in H. destruct H as [H|H]; [|right; exact H]. destruct (ahas n acc); [left; exact H|].
  rewrite alookup_app in H. destruct (alookup k acc) as [v|]; [left; exact H|]. cbn in H.
  destruct (String.eqb k n); [inversion H; right; reflexivity | discriminate]. Qed.

Lemma backfill_names_lookup nids names ps0 ps k p :
  backfill_names nids names (Some ps0) = Some ps -> alookup k ps = Some p -> alookup k ps0 = Some p \/ p = empty_f64_prop.
Proof. unfold backfill_names. destruct names as [ns|]; [|intros H; inversion H; subst; auto].
  destruct (option_eqb Nat.eqb (len0 nids) (Some 0%nat)); intros H; inversion H; subst; [|auto]. apply backfill_fold_lookup. Qed.

Lemma coords_transfer (ok : prop -> bool) g m ps :
  (forall p, ok (upcast_prop p) = ok p) -> ok empty_f64_prop = true ->
  coords_all ok g m = true ->
  backfill_names (w_nids g) (axes_names_opt m) (w_nprops g) = Some ps ->
  Forall (fun a => match alookup (Meta.ax_name a) (map (fun kv => (fst kv, upcast_prop (snd kv))) ps) with
                   | Some p => ok p = true | None => True end) (olistA (Meta.md_axes m)).
Proof. intros Hup Hemp Hc Hb. unfold coords_all in Hc. destruct (w_nprops g) as [ps0|] eqn:Ep; [|discriminate Hb].
  rewrite forallb_forall in Hc. rewrite Forall_forall. intros a Ha. specialize (Hc a Ha).
  rewrite alookup_map. destruct (alookup (Meta.ax_name a) ps) as [p|] eqn:El; cbn [option_map]; [|exact I].
  rewrite Hup. destruct (backfill_names_lookup _ _ _ _ _ _ Hb El) as [H|H]; [rewrite H in Hc; exact Hc | subst; exact Hemp]. Qed.

(* ================================================================== THE SIMULATION *)
(* On a caller object that passes its own validator and whose dicts have distinct keys, with axis coordinates inside
   the exact model, the reduced pipeline run on the abstraction is the abstraction of the full pipeline: same failures
   (same exception), and on success the stored smeta is the abstraction of the stored object -- for EVERY interning. *)
Theorem simulation I g m :
  Meta.md_after_ok m = true -> dict_keys_ok m = true -> coords_exact g m = true ->
  final_metadata g (abs I m) = rmap (abs I) (stored_md g m).
Proof. intros Hok Hkeys Hex. apply andb_true_iff in Hkeys. destruct Hkeys as [Hkn Hke].
  apply MetaLemmas.nodupb_NoDup in Hkn, Hke.
  unfold final_metadata, stored_md. cbn zeta. rewrite backfill_abs.
  set (nps := backfill_names (w_nids g) (axes_names_opt m) (w_nprops g)).
  set (nmeta := match nps with Some ps => props_meta ps | None => [] end).
  set (emeta := match w_eprops g with Some ps => props_meta ps | None => [] end).
  assert (Hnm : match nps with Some ps => props_meta_full ps | None => [] end = map (fun kv => full_pm (fst kv) (snd kv)) nmeta)
    by (unfold nmeta; destruct nps; reflexivity).
  assert (Hem : match w_eprops g with Some ps => props_meta_full ps | None => [] end = map (fun kv => full_pm (fst kv) (snd kv)) emeta)
    by (unfold emeta; destruct (w_eprops g); reflexivity).
  rewrite Hnm, Hem.
  assert (Htn : Forall (fun kv => tokens_none (snd kv)) nmeta) by (unfold nmeta; destruct nps; [apply props_meta_tokens | constructor]).
  assert (Hte : Forall (fun kv => tokens_none (snd kv)) emeta) by (unfold emeta; destruct (w_eprops g); [apply props_meta_tokens | constructor]).
  cbn [abs md_directed md_axes md_nprops md_eprops md_tok].
  rewrite (merge_sim I _ nmeta Hkn Htn), (merge_sim I _ emeta Hke Hte).
  set (m2 := add_props (add_props m (map (fun kv => full_pm (fst kv) (snd kv)) nmeta) true)
                       (map (fun kv => full_pm (fst kv) (snd kv)) emeta) false).
  change (mkmd (Meta.md_directed m) (option_map (map (abs_axis I)) (Meta.md_axes m)) _ _ _) with (abs I m2).
  destruct nps as [ps|] eqn:Enps; [|reflexivity].
  apply compute_minmax_sim.
  - unfold m2. apply md_after_ok_add_props, md_after_ok_add_props. exact Hok.
  - change (Meta.md_axes m2) with (Meta.md_axes m).
    apply (coords_transfer prop_exact g m ps prop_exact_upcast eq_refl Hex Enps). Qed.
