(* TracksCyc.v -- the cycle test of geff.validate.tracks.validate_tracklets, which Tracks.v left out
   ("C13 quantifies over acyclic graphs").  The repository's own test suite calls the validator on a 3-cycle
   (test_validate_tracklets[... Cycle in tracklet]); the harvested call showed the gap (model: valid,
   code: "Tracklet 10: Cycle detected.").

   nx.is_directed_acyclic_graph(S) is modelled by its meaning, computed as Kahn's peeling on the induced
   subgraph: repeatedly drop the nodes that have no predecessor among the remaining ones; S is acyclic iff
   nothing remains.  The code runs the test between the degree test and the connectivity test; every failing
   test ends in one message naming the tracklet, so the verdict per tracklet is a conjunction and the
   position of the conjunct is immaterial.

   Proved here: the peeling result is stable; a non-empty stable set contains a closed walk; hence on a graph
   without closed walks the cycle test always passes and the model with the test coincides with Tracks.v's
   (all theorems of C13 carry over); conversely a closed walk inside a class makes the test fail. *)
From Coq Require Import Lia.
From Geff Require Import Base GraphVal Reach Tracks TracksLemmas.
Open Scope Z_scope.
Open Scope list_scope.

Definition has_pred_in (SE : list (Z * Z)) (T : list Z) (u : Z) : bool :=
  existsb (fun e => (snd e =? u) && zmem (fst e) T) SE.
Definition strip (SE : list (Z * Z)) (T : list Z) : list Z := filter (has_pred_in SE T) T.
Fixpoint peel (fuel : nat) (SE : list (Z * Z)) (T : list Z) : list Z :=
  match fuel with
  | O => T
  | S f => let T' := strip SE T in
           if Nat.eqb (List.length T') (List.length T) then T else peel f SE T'
  end.
Definition is_dag (SE : list (Z * Z)) (T : list Z) : bool :=
  match peel (List.length T) SE T with [] => true | _ => false end.

(* validate_tracklets' per-tracklet test, with the cycle test *)
Definition check_class_c (E : list (Z * Z)) (T : list Z) : bool :=
  check_class E T && is_dag (induced E T) T.
Definition invalid_tracklets_c (E : list (Z * Z)) (NL : nlabels) : list Z :=
  filter (fun t => negb (check_class_c E (class_of NL t))) (labels_of NL).

(* ---------------- walks ---------------- *)
Inductive walk (E : list (Z * Z)) : Z -> Z -> Prop :=
| walk_one u v : In (u, v) E -> walk E u v
| walk_cons u w v : In (u, w) E -> walk E w v -> walk E u v.
Definition acyclic (E : list (Z * Z)) : Prop := forall u, ~ walk E u u.

Lemma walk_incl E E' u v : incl E E' -> walk E u v -> walk E' u v.
Proof.
  intros Hi Hw. induction Hw as [u v H|u w v H _ IH].
  - apply walk_one. apply Hi. exact H.
  - eapply walk_cons; [apply Hi; exact H|exact IH].
Qed.

Lemma induced_incl E T : incl (induced E T) E.
Proof. intros e He. apply induced_In in He. tauto. Qed.

(* ---------------- filter facts ---------------- *)
Lemma filter_length_le {A} (f : A -> bool) l : (List.length (filter f l) <= List.length l)%nat.
Proof. induction l as [|a l IH]; cbn; [lia|]. destruct (f a); cbn; lia. Qed.

Lemma filter_length_eq {A} (f : A -> bool) l :
  List.length (filter f l) = List.length l -> forall x, In x l -> f x = true.
Proof.
  induction l as [|a l IH]; cbn; intros HL x Hx; [contradiction|].
  destruct (f a) eqn:Fa.
  - cbn in HL. destruct Hx as [->|Hx]; [exact Fa|]. apply IH; [lia|exact Hx].
  - pose proof (filter_length_le f l). lia.
Qed.

Lemma has_pred_in_spec SE T u :
  has_pred_in SE T u = true <-> exists p, In p T /\ In (p, u) SE.
Proof.
  unfold has_pred_in. rewrite existsb_exists. split.
  - intros [[a b] [He Hc]]. cbn [fst snd] in Hc. apply andb_true_iff in Hc. destruct Hc as [Hb Ha].
    apply Z.eqb_eq in Hb. subst b. apply zmem_In in Ha. exists a. split; assumption.
  - intros [p [Hp He]]. exists (p, u). split; [exact He|]. cbn [fst snd]. rewrite Z.eqb_refl. cbn.
    apply zmem_In. exact Hp.
Qed.

(* ---------------- the peeling result is stable ---------------- *)
Definition stable (SE : list (Z * Z)) (R : list Z) : Prop :=
  forall u, In u R -> exists p, In p R /\ In (p, u) SE.

Lemma peel_stable SE : forall fuel T, (List.length T <= fuel)%nat -> stable SE (peel fuel SE T).
Proof.
  induction fuel as [|f IH]; intros T HL.
  - destruct T; [|cbn in HL; lia]. cbn. intros u [].
  - cbn [peel]. destruct (Nat.eqb (List.length (strip SE T)) (List.length T)) eqn:EQ.
    + apply Nat.eqb_eq in EQ. intros u Hu. apply has_pred_in_spec.
      unfold strip in EQ. exact (filter_length_eq _ _ EQ u Hu).
    + apply Nat.eqb_neq in EQ. apply IH. pose proof (filter_length_le (has_pred_in SE T) T). unfold strip in *. lia.
Qed.

Lemma peel_incl SE : forall fuel T, incl (peel fuel SE T) T.
Proof.
  induction fuel as [|f IH]; intros T; cbn [peel]; [apply incl_refl|].
  destruct (Nat.eqb _ _); [apply incl_refl|].
  intros x Hx. apply IH in Hx. unfold strip in Hx. apply filter_In in Hx. tauto.
Qed.

(* ---------------- a non-empty stable set contains a closed walk ---------------- *)
Fixpoint chain (SE : list (Z * Z)) (l : list Z) : Prop :=
  match l with
  | a :: ((b :: _) as t) => In (a, b) SE /\ chain SE t
  | _ => True
  end.

Lemma chain_build SE R r : stable SE R -> In r R ->
  forall n, exists l, List.length l = S n /\ incl l R /\ chain SE l.
Proof.
  intros Hst Hr. induction n as [|n [l [HL [Hi Hc]]]].
  - exists [r]. split; [reflexivity|]. split; [|cbn; exact I]. intros x [<-|[]]. exact Hr.
  - destruct l as [|h t]; [cbn in HL; lia|].
    destruct (Hst h (Hi h (or_introl eq_refl))) as [p [Hp He]].
    exists (p :: h :: t). split; [|split].
    + cbn in *. lia.
    + intros x [<-|Hx]; [exact Hp|apply Hi; exact Hx].
    + cbn [chain]. split; [exact He|exact Hc].
Qed.

Lemma chain_suffix SE : forall l1 l2, chain SE (l1 ++ l2) -> chain SE l2.
Proof.
  induction l1 as [|a l1 IH]; intros l2 H; [exact H|].
  apply IH. cbn [app] in H. destruct (l1 ++ l2) eqn:E; [cbn; exact I|]. cbn [chain] in H. tauto.
Qed.

Lemma chain_walk SE : forall l2 x y l3, chain SE (x :: l2 ++ y :: l3) -> walk SE x y.
Proof.
  induction l2 as [|z l2 IH]; intros x y l3 H.
  - cbn [app chain] in H. apply walk_one. tauto.
  - cbn [app] in H. cbn [chain] in H. destruct H as [He Hc].
    eapply walk_cons; [exact He|]. eapply IH. exact Hc.
Qed.

Lemma dup_split : forall l : list Z, ~ NoDup l -> exists a l1 l2 l3, l = l1 ++ a :: l2 ++ a :: l3.
Proof.
  induction l as [|a l IH]; intros H.
  - exfalso. apply H. constructor.
  - destruct (in_dec Z.eq_dec a l) as [Hin|Hnin].
    + apply in_split in Hin. destruct Hin as [l2 [l3 ->]]. exists a, [], l2, l3. reflexivity.
    + assert (~ NoDup l) as Hn by (intros Hn; apply H; constructor; assumption).
      destruct (IH Hn) as [b [l1 [l2 [l3 ->]]]]. exists b, (a :: l1), l2, l3. reflexivity.
Qed.

Lemma stable_cycle SE R r : stable SE R -> In r R -> exists u, In u R /\ walk SE u u.
Proof.
  intros Hst Hr. destruct (chain_build SE R r Hst Hr (List.length R)) as [l [HL [Hi Hc]]].
  assert (~ NoDup l) as Hn.
  { intros Hn. pose proof (NoDup_incl_length Hn Hi). lia. }
  destruct (dup_split l Hn) as [a [l1 [l2 [l3 ->]]]].
  exists a. split.
  - apply Hi. apply in_or_app. right. left. reflexivity.
  - apply chain_suffix in Hc. eapply chain_walk. exact Hc.
Qed.

(* ---------------- on graphs without closed walks the cycle test always passes ---------------- *)
Theorem is_dag_of_acyclic E T : acyclic E -> is_dag (induced E T) T = true.
Proof.
  intros Hac. unfold is_dag. destruct (peel (List.length T) (induced E T) T) as [|r R] eqn:EP; [reflexivity|].
  exfalso. pose proof (peel_stable (induced E T) (List.length T) T (le_n _)) as Hst. rewrite EP in Hst.
  destruct (stable_cycle _ _ r Hst (or_introl eq_refl)) as [u [_ Hw]].
  apply (Hac u). eapply walk_incl; [apply induced_incl|exact Hw].
Qed.

Theorem check_class_c_acyclic E T : acyclic E -> check_class_c E T = check_class E T.
Proof. intros H. unfold check_class_c. rewrite (is_dag_of_acyclic E T H). apply andb_true_r. Qed.

Theorem invalid_tracklets_c_acyclic E NL : acyclic E -> invalid_tracklets_c E NL = invalid_tracklets E NL.
Proof.
  intros H. unfold invalid_tracklets_c, invalid_tracklets. apply filter_ext. intros t.
  rewrite (check_class_c_acyclic E _ H). reflexivity.
Qed.

Theorem tracklets_c_iff E NL : wf_labelled E NL -> acyclic E ->
  (invalid_tracklets_c E NL = [] <-> L_spec E NL /\ C_spec E NL).
Proof. intros Hwf Hac. rewrite (invalid_tracklets_c_acyclic E NL Hac). apply tracklets_iff. exact Hwf. Qed.

(* the test only ever rejects more *)
Lemma check_class_c_le E T : check_class_c E T = true -> check_class E T = true.
Proof. unfold check_class_c. intros H. apply andb_true_iff in H. tauto. Qed.

(* ---------------- conversely: a closed walk inside the class survives the peeling ---------------- *)
(* the nodes of a closed walk u -> ... -> u, all inside T *)
Inductive walk_in (SE : list (Z * Z)) (T : list Z) : Z -> Z -> Prop :=
| wi_one u v : In u T -> In v T -> In (u, v) SE -> walk_in SE T u v
| wi_cons u w v : In u T -> In (u, w) SE -> walk_in SE T w v -> walk_in SE T u v.

(* a set of nodes in which every member has a predecessor inside the set is never touched by strip *)
Lemma strip_keeps SE T C : incl C T -> stable SE C -> incl C (strip SE T).
Proof.
  intros Hi Hst x Hx. unfold strip. apply filter_In. split; [apply Hi; exact Hx|].
  apply has_pred_in_spec. destruct (Hst x Hx) as [p [Hp He]]. exists p. split; [apply Hi; exact Hp|exact He].
Qed.

Lemma peel_keeps SE C : stable SE C -> forall fuel T, incl C T -> incl C (peel fuel SE T).
Proof.
  intros Hst. induction fuel as [|f IH]; intros T Hi; cbn [peel]; [exact Hi|].
  destruct (Nat.eqb _ _); [exact Hi|]. apply IH. apply strip_keeps; assumption.
Qed.

Theorem is_dag_false_of_stable E T C c : incl C T -> In c C -> stable (induced E T) C -> is_dag (induced E T) T = false.
Proof.
  intros Hi Hc Hst. unfold is_dag.
  pose proof (peel_keeps (induced E T) C Hst (List.length T) T Hi c Hc) as H.
  destruct (peel (List.length T) (induced E T) T); [destruct H|reflexivity].
Qed.

(* in particular: a tracklet all of whose nodes lie on one directed cycle (every node has a predecessor in the tracklet) is rejected,
   whatever the other tests say *)
Theorem cycle_class_rejected E T r : In r T ->
  (forall u, In u T -> exists p, In p T /\ In (p, u) E) -> check_class_c E T = false.
Proof.
  intros Hr Hall. unfold check_class_c. rewrite (is_dag_false_of_stable E T T r (incl_refl _) Hr).
  - apply andb_false_r.
  - intros u Hu. destruct (Hall u Hu) as [p [Hp He]]. exists p. split; [exact Hp|].
    apply induced_In. cbn [fst snd]. tauto.
Qed.
