(* TracksCyc.v -- validate_tracklets with its cycle test and its messages (geff.validate.tracks),
   in the order in which the code applies the checks to each tracklet:

     S = G.subgraph(t_nodes)
     1. max in/out degree of S > 1                     -> "Invalid path structure (branch or merge detected)."
     2. not nx.is_directed_acyclic_graph(S)            -> "Cycle detected."
     3. not nx.is_weakly_connected(S)                  -> "Not fully connected."
     4. an edge of S leaves a division / enters a merge of G
                                                      -> "Invalid path structure (division or merge inside the tracklet)."
     5. start = next(n for n, d in S.in_degree if d == 0); end = next(n for n, d in S.out_degree if d == 0)
        (StopIteration when there is none: Err OtherExn; TracksCycLemmas proves it never happens)
     6. the only predecessor of start in G has out-degree 1  -> "Not maximal. Path can extend backward to node p."
     7. the only successor of end in G has in-degree 1       -> "Not maximal. Path can extend forward to node s."

   nx.is_directed_acyclic_graph(S) = not has_cycle(S) = "topological_sort(S) does not raise NetworkXUnfeasible";
   topological_sort runs topological_generations = Kahn's algorithm by generations: generation 0 is the nodes of
   in-degree 0, a node enters generation k+1 when its last remaining predecessor is in generation k, and the graph
   has a cycle iff some node is never emitted (indegree_map non-empty at the end).  It is modelled as a FUELLED KAHN
   PEELING on the node set: one round removes every node none of whose predecessors remains (exactly one generation);
   |S| rounds; acyclic iff nothing remains.  The per-node counters of networkx (indegree_map) are modelled by their
   meaning (number of predecessors not yet emitted; DiGraph has no parallel edges, a self loop counts once and is
   never decremented because its node is never emitted).
   Tracks.v (the model without the cycle test and without messages) is left untouched. *)
From Geff Require Import Base GraphVal Reach Tracks.
Open Scope Z_scope.
Open Scope list_scope.

(* ---------------- is_directed_acyclic_graph ---------------- *)
(* one generation of Kahn's algorithm: keep the nodes that still have a predecessor among the remaining ones *)
Definition peel (SE : list (Z * Z)) (R : list Z) : list Z :=
  filter (fun v => existsb (fun p => zmem p R) (preds SE v)) R.

Fixpoint peel_iter (n : nat) (SE : list (Z * Z)) (R : list Z) : list Z :=
  match n with O => R | S n' => peel_iter n' SE (peel SE R) end.

Definition is_dag (SE : list (Z * Z)) (T : list Z) : bool :=
  match peel_iter (List.length T) SE T with [] => true | _ :: _ => false end.

(* ---------------- the checks, in order, with the message produced ---------------- *)
Inductive reason :=
| RBranch            (* Invalid path structure (branch or merge detected). *)
| RCycle             (* Cycle detected. *)
| RDisconnected      (* Not fully connected. *)
| RDivMerge          (* Invalid path structure (division or merge inside the tracklet). *)
| RBack (p : Z)      (* Not maximal. Path can extend backward to node p. *)
| RFwd (s : Z).      (* Not maximal. Path can extend forward to node s. *)

Definition reason_eqb (a b : reason) : bool :=
  match a, b with
  | RBranch, RBranch | RCycle, RCycle | RDisconnected, RDisconnected | RDivMerge, RDivMerge => true
  | RBack p, RBack q => p =? q
  | RFwd p, RFwd q => p =? q
  | _, _ => false
  end.

Definition deg_ok (SE : list (Z * Z)) (T : list Z) : bool :=
  forallb (fun u => Nat.leb (List.length (succs SE u)) 1 && Nat.leb (List.length (preds SE u)) 1) T.

Definition inner_linking (E SE : list (Z * Z)) : bool :=
  forallb (fun e => Nat.eqb (outdeg E (fst e)) 1 && Nat.eqb (indeg E (snd e)) 1) SE.

(* np.asarray(node_ids, dtype=np.int64): ids are uint64 in a geff; the conversion is injective on [0, 2^64), so the
   graph is unchanged up to renaming, but a node id >= 2^63 is PRINTED by the message as its int64 wrap *)
Definition as_int64 (z : Z) : Z := if z >=? 9223372036854775808 then z - 18446744073709551616 else z.

Definition back_msg (E : list (Z * Z)) (st : Z) : option reason :=
  match preds E st with
  | [p] => if Nat.eqb (outdeg E p) 1 then Some (RBack (as_int64 p)) else None
  | _ => None
  end.
Definition fwd_msg (E : list (Z * Z)) (en : Z) : option reason :=
  match succs E en with
  | [s] => if Nat.eqb (indeg E s) 1 then Some (RFwd (as_int64 s)) else None
  | _ => None
  end.

(* the first node of in-degree / out-degree 0 in S (iteration order of the subgraph view: TracksCycLemmas proves
   that at this point there is exactly one such node, so the order is immaterial) *)
Definition start_node (SE : list (Z * Z)) (T : list Z) : option Z :=
  find (fun u => Nat.eqb (List.length (preds SE u)) 0) T.
Definition end_node (SE : list (Z * Z)) (T : list Z) : option Z :=
  find (fun u => Nat.eqb (List.length (succs SE u)) 0) T.

(* None: the tracklet is accepted; Some r: one message; Err: the loop body raises *)
Definition class_result (E : list (Z * Z)) (T : list Z) : res (option reason) :=
  let SE := induced E T in
  if negb (deg_ok SE T) then Ok (Some RBranch)
  else if negb (is_dag SE T) then Ok (Some RCycle)
  else if negb (connected E T) then Ok (Some RDisconnected)
  else if negb (inner_linking E SE) then Ok (Some RDivMerge)
  else match start_node SE T, end_node SE T with
       | Some st, Some en =>
           Ok (match back_msg E st with Some r => Some r | None => fwd_msg E en end)
       | _, _ => Err OtherExn          (* StopIteration out of next(...) *)
       end.

Fixpoint collect_msgs (E : list (Z * Z)) (NL : nlabels) (ts : list Z) : res (list (Z * reason)) :=
  match ts with
  | [] => Ok []
  | t :: r =>
      match class_result E (class_of NL t) with
      | Err e => Err e
      | Ok o =>
          match collect_msgs E NL r with
          | Err e => Err e
          | Ok l => Ok (match o with Some x => (t, x) :: l | None => l end)
          end
      end
  end.

(* return not errors, errors *)
Definition validate_tracklets (E : list (Z * Z)) (NL : nlabels) : res (bool * list (Z * reason)) :=
  match collect_msgs E NL (labels_of NL) with
  | Err e => Err e
  | Ok l => Ok (match l with [] => true | _ :: _ => false end, l)
  end.

(* verdict-level view: the per-class test of Tracks.v plus the cycle test *)
Definition check_class_all (E : list (Z * Z)) (T : list Z) : bool :=
  check_class E T && is_dag (induced E T) T.
Definition invalid_tracklets_all (E : list (Z * Z)) (NL : nlabels) : list Z :=
  filter (fun t => negb (check_class_all E (class_of NL t))) (labels_of NL).
