(* WriteTotal.v -- "the write succeeds" without assuming it (audit item 9).
   C01 / C02 / C06 carried two premises that are "the model's failing functions succeed": `encodable` inside wf_input and
   `final_metadata g md = Ok md'`.  Here both are characterised declaratively:
     storable name p           <->  encodable (name, p)        (non-empty name, geff dtype, one rank and dtype for var-length)
     wf_input + axes_have_data  ->  final_metadata succeeds     (the only failure left under wf_input is an axis property
                                                                 whose array holds fewer values than its shape says)
   and C01's round trip is restated with no success premise (write_then_read_total). *)
From Coq Require Import Lia.
From Geff Require Import Base Dtype DtypeLemmas Vlen VlenLemmas Tree TreeLemmas Validate Write Read RoundTrip WriteLemmas ReadLemmas
     ValidateLayout C01Lemmas.
From Geff.Gen Require Import Consts.
Open Scope string_scope.
Open Scope list_scope.

(* a property the writer can store under `name`: the name is not empty; a fixed-shape property has, after the float16 -> float32
   upcast, one of geff's dtypes; a variable-length property has at least one element, all its elements AS GIVEN have one dtype
   (a float16 element beside a float32 element is rejected, although both would be float32 after the upcast) and one rank, and that
   dtype, after the upcast, is one of geff's *)
Definition storable (name : string) (p : prop) : Prop :=
  name <> "" /\
  match p_vals p with
  | PFixed a => valid_prop_dtype (a_dt (upcast_arr a)) = true
  | PVlen [] => False
  | PVlen (e :: r) =>
      valid_prop_dtype (v_dt (upcast_varr e)) = true /\
      Forall (fun x => v_dt x = v_dt e /\ length (v_shape x) = length (v_shape e)) r
  end.

Lemma name_nonempty_b name : negb (String.eqb name "") = true <-> name <> "".
Proof. rewrite Bool.negb_true_iff. split.
  - intros H E. subst. discriminate.
  - intros H. destruct (String.eqb name "") eqn:E; [apply String.eqb_eq in E; contradiction | reflexivity]. Qed.

Lemma upcast_varr_shape x : v_shape (upcast_varr x) = v_shape x.
Proof. unfold upcast_varr. destruct (dtype_eqb (v_dt x) DF16); reflexivity. Qed.
Lemma upcast_varr_dt_eq x e : v_dt x = v_dt e -> v_dt (upcast_varr x) = v_dt (upcast_varr e).
Proof. intros H. unfold upcast_varr. rewrite H. destruct (dtype_eqb (v_dt e) DF16); cbn; [reflexivity | exact H]. Qed.

Theorem encodable_iff name p : encodable (name, p) <-> storable name p.
Proof.
  unfold encodable, storable, create_props_metadata, vlen_dtypes_uniform, cpm_core, encode_prop. cbn [fst snd].
  destruct p as [vals miss]. unfold upcast_prop. cbn [p_vals p_missing].
  destruct vals as [a|[|e r]]; cbn [p_vals map].
  - (* fixed *)
    split.
    + intros (pm & enc & H & _). destruct (valid_prop_dtype (a_dt (upcast_arr a))) eqn:Ev; [|discriminate].
      destruct (negb (String.eqb name "")) eqn:En; [|discriminate]. split; [apply name_nonempty_b; exact En | reflexivity].
    + intros [Hn Hv]. rewrite Hv. apply name_nonempty_b in Hn. rewrite Hn. cbn. eexists; eexists; split; reflexivity.
  - split; [intros (pm & enc & H & _); discriminate | intros [_ []]].
  - (* variable length *)
    pose proof (serialize_ok_iff (upcast_varr e :: map upcast_varr r)) as Hser. unfold uniform, uniform_with in Hser.
    split.
    + intros (pm & enc & H & He).
      destruct (forallb (fun x => dtype_eqb (v_dt x) (v_dt e)) r) eqn:Eo; [|discriminate].
      destruct (forallb (fun x => dtype_eqb (v_dt x) (v_dt (upcast_varr e))) (map upcast_varr r)) eqn:Ef; [|discriminate].
      destruct (valid_prop_dtype (v_dt (upcast_varr e))) eqn:Ev; [|discriminate].
      destruct (negb (String.eqb name "")) eqn:En; [|discriminate].
      split; [apply name_nonempty_b; exact En|]. split; [reflexivity|].
      assert (Hu : Forall (fun a => length (v_shape a) = length (v_shape (upcast_varr e)) /\ v_dt a = v_dt (upcast_varr e))
                          (upcast_varr e :: map upcast_varr r)).
      { apply Hser. destruct (serialize (upcast_varr e :: map upcast_varr r)) as [[rows data]|er]; [eexists; reflexivity | discriminate]. }
      inversion Hu as [|? ? _ Hr]; subst. rewrite Forall_forall in Hr. apply Forall_forall. intros x Hx. split.
      * rewrite forallb_forall in Eo. apply dtype_eqb_eq. exact (Eo x Hx).
      * destruct (Hr (upcast_varr x) (in_map upcast_varr r x Hx)) as [Hl _]. rewrite !upcast_varr_shape in Hl. exact Hl.
    + intros [Hn [Hv HF]]. apply name_nonempty_b in Hn. rewrite Forall_forall in HF.
      assert (Eo : forallb (fun x => dtype_eqb (v_dt x) (v_dt e)) r = true).
      { apply forallb_forall. intros x Hx. destruct (HF x Hx) as [Hd _]. apply dtype_eqb_eq. exact Hd. }
      assert (Ef : forallb (fun x => dtype_eqb (v_dt x) (v_dt (upcast_varr e))) (map upcast_varr r) = true).
      { apply forallb_forall. intros y Hy. apply in_map_iff in Hy. destruct Hy as [x [<- Hx]]. destruct (HF x Hx) as [Hd _].
        apply dtype_eqb_eq. apply upcast_varr_dt_eq. exact Hd. }
      rewrite Eo, Ef, Hv, Hn. cbn [andb].
      assert (Hu : Forall (fun a => length (v_shape a) = length (v_shape (upcast_varr e)) /\ v_dt a = v_dt (upcast_varr e))
                          (upcast_varr e :: map upcast_varr r)).
      { constructor; [split; reflexivity|]. apply Forall_forall. intros y Hy. apply in_map_iff in Hy. destruct Hy as [x [<- Hx]].
        destruct (HF x Hx) as [Hd Hl]. rewrite !upcast_varr_shape. split; [exact Hl | apply upcast_varr_dt_eq; exact Hd]. }
      apply Hser in Hu. destruct Hu as [[rows data] Hs]. rewrite Hs. eexists; eexists; split; reflexivity.
Qed.

(* ---------- final_metadata ---------- *)
(* every axis property holds at least one value when the graph has nodes (true of every real array: a 1-D array of n > 0
   entries holds n values; the model's `arr` keeps shape and values apart, so the theorems must say it) *)
Definition axes_have_data (g : wgraph) (md : smeta) : Prop :=
  forall axes ps ax a, md_axes md = Some axes -> backfill (w_nids g) md (w_nprops g) = Some ps -> In ax axes ->
    In (ax_name ax, mkprop (PFixed a) None) ps -> wf_arr a = true.

Lemma alookup_map_snd {A B} (f : A -> B) k (l : list (string * A)) :
  alookup k (map (fun kv => (fst kv, f (snd kv))) l) = option_map f (alookup k l).
Proof. induction l as [|[k0 v0] r IH]; cbn; [reflexivity|]. destruct (String.eqb k k0); [reflexivity | exact IH]. Qed.

Lemma zmin_zmax_some l : l <> [] -> exists lo hi, zmin_list l = Some lo /\ zmax_list l = Some hi.
Proof. destruct l as [|x r]; [congruence|]. intros _. cbn. eexists; eexists; split; reflexivity. Qed.

Lemma upcast_arr_flat a : a_flat (upcast_arr a) = a_flat a.
Proof. unfold upcast_arr. destruct (dtype_eqb (a_dt a) DF16); reflexivity. Qed.

Lemma minmax_axis_total (ps : props) ax a n0 :
  NoDup (akeys ps) -> In (ax_name ax, mkprop (PFixed a) None) ps -> a_shape a = [n0] -> wf_arr a = true ->
  exists ax', minmax_axis (map (fun kv => (fst kv, upcast_prop (snd kv))) ps) ax = Ok ax'.
Proof.
  intros Hnd Hin Hsh Hwf. unfold minmax_axis.
  rewrite alookup_map_snd, (alookup_in_nodup _ _ _ Hnd Hin). cbn [option_map upcast_prop p_vals p_missing].
  unfold len0. rewrite upcast_arr_shape, Hsh.
  destruct n0 as [|n0]; [eexists; reflexivity|].
  unfold axis_values. cbn [p_vals p_missing]. rewrite upcast_arr_flat.
  unfold wf_arr in Hwf. rewrite Hsh in Hwf. apply Nat.eqb_eq in Hwf. cbn in Hwf.
  destruct (zmin_zmax_some (a_flat a)) as (lo & hi & Hlo & Hhi).
  { intros E. rewrite E in Hwf. cbn in Hwf. lia. }
  rewrite Hlo, Hhi. eexists; reflexivity.
Qed.

Lemma mapM_total {A B} (f : A -> res B) l : (forall x, In x l -> exists y, f x = Ok y) -> exists ys, mapM f l = Ok ys.
Proof. induction l as [|x r IH]; intros H; cbn; [eexists; reflexivity|].
  destruct (H x (or_introl eq_refl)) as [y Hy]. rewrite Hy.
  destruct IH as [ys Hys]; [intros z Hz; apply H; right; exact Hz|]. rewrite Hys. eexists; reflexivity. Qed.

Theorem final_metadata_total g md n e :
  wf_input g md n e -> axes_have_data g md -> exists md', final_metadata g md = Ok md'.
Proof.
  intros Hwf Hdata. unfold final_metadata. cbn zeta.
  destruct (backfill (w_nids g) md (w_nprops g)) as [ps|] eqn:Eb; [|eexists; reflexivity].
  unfold compute_minmax. cbn [md_axes md_directed md_nprops md_eprops md_tok].
  destruct (md_axes md) as [axes|] eqn:Ea; [|eexists; reflexivity].
  destruct (wi_axes _ _ _ _ Hwf axes Ea) as [ps' [Hps' Hall]]. rewrite Eb in Hps'. inversion Hps'; subst ps'; clear Hps'.
  destruct (wi_nprops _ _ _ _ Hwf ps Eb) as [Hnd _].
  destruct (mapM_total (minmax_axis (map (fun kv => (fst kv, upcast_prop (snd kv))) ps)) axes) as [axes' Hm].
  - intros ax Hin. destruct (Hall ax Hin) as (a & n0 & Hinp & Hsh).
    eapply minmax_axis_total; eauto.
  - rewrite Hm. eexists; reflexivity.
Qed.

(* C01 with no success premise: a clean target, a well-formed input whose axis properties hold their values *)
Theorem write_then_read_total k pre g md n e ov :
  clean k pre -> wf_input g md n e -> axes_have_data g md ->
  exists md' tr post,
    final_metadata g md = Ok md' /\
    write_arrays k g md true ov (init pre) = (mkst (Some post) tr, Ok tt) /\
    validate_structure k (Some post) = Ok tt /\
    read_to_memory k (Some post) true None None
    = Ok (mkmg md' (w_nids g) (w_eids g)
               (up_props (backfill (w_nids g) md (w_nprops g))) (up_props (w_eprops g))).
Proof.
  intros Hc Hwf Hd. destruct (final_metadata_total g md n e Hwf Hd) as [md' Hfm].
  destruct (write_then_read k pre g md md' n e ov Hc Hwf Hfm) as (tr & post & H1 & H2 & H3).
  exists md', tr, post. repeat split; assumption.
Qed.

(* the property premise of wf_input, with `encodable` replaced by its declarative reading *)
Theorem wf_props_declarative n ops :
  wf_props n ops <->
  forall ps, ops = Some ps -> NoDup (akeys ps) /\ Forall (fun kv => storable (fst kv) (snd kv) /\ wf_prop n (snd kv)) ps.
Proof.
  unfold wf_props. split; intros H ps Hps; destruct (H ps Hps) as [Hnd HF]; (split; [exact Hnd|]);
    (eapply Forall_impl; [|exact HF]); intros [name p] [H1 H2]; (split; [|exact H2]); apply encodable_iff; exact H1.
Qed.
