(* RestrictSpec.v -- a declarative reading of `restrict` (C09): which rows are kept, by index.
   select keep rows keeps exactly the rows whose index is flagged; under a node mask an edge row is
   kept exactly when it is selected by the edge mask (if any) and both its endpoints are among the kept node ids. *)
From Coq Require Import List ZArith Bool Lia.
From Geff Require Import Base Dtype Vlen Tree Validate Write Read ReadMaskLemmas.
Import ListNotations.
Open Scope list_scope.

Lemma select_In_iff {A} (keep : list bool) : forall (rows : list A) x,
  In x (select keep rows) <-> exists i, nth_error keep i = Some true /\ nth_error rows i = Some x.
Proof.
  induction keep as [|b kr IH]; intros rows x; cbn [select].
  - split; [intros [] | intros [i [H _]]; destruct i; discriminate].
  - destruct rows as [|y yr].
    + split; [intros [] | intros [i [_ H]]; destruct i; discriminate].
    + destruct b.
      * cbn [In]. rewrite IH. split.
        -- intros [<-|[i [H1 H2]]]; [exists 0%nat; split; reflexivity | exists (S i); split; assumption].
        -- intros [[|i] [H1 H2]]; cbn in *; [left; congruence | right; exists i; split; assumption].
      * rewrite IH. split.
        -- intros [i [H1 H2]]. exists (S i). split; assumption.
        -- intros [[|i] [H1 H2]]; cbn in *; [discriminate | exists i; split; assumption].
Qed.

Lemma and_masks_nth a : forall b j,
  nth_error (and_masks a b) j = Some true <-> nth_error a j = Some true /\ nth_error b j = Some true.
Proof.
  induction a as [|x ar IH]; intros b j; cbn [and_masks].
  - split; [destruct j; discriminate | intros [H _]; destruct j; discriminate].
  - destruct b as [|y br].
    + split; [destruct j; discriminate | intros [_ H]; destruct j; discriminate].
    + destruct j as [|j]; cbn [nth_error].
      * split; [intros H; inversion H as [Hx]; apply andb_true_iff in Hx; destruct Hx as [-> ->]; split; reflexivity
               | intros [H1 H2]; inversion H1; inversion H2; reflexivity].
      * apply IH.
Qed.

Definition erows (a : arr) : list (list Z) := chunks (row_size a) (hd 0%nat (a_shape a)) (a_flat a).

Lemma edges_kept_nth eids kept j r :
  nth_error (erows eids) j = Some r ->
  (nth_error (edges_kept eids kept) j = Some true <-> forall x, In x r -> In x kept).
Proof.
  intros Hr. unfold edges_kept. fold (erows eids). rewrite nth_error_map, Hr. cbn [option_map]. split.
  - intros H x Hx. inversion H as [Hf]. rewrite forallb_forall in Hf. apply zmem_In. apply Hf. exact Hx.
  - intros H. f_equal. apply forallb_forall. intros x Hx. apply zmem_In. apply H. exact Hx.
Qed.

(* the edge rows of restrict g (Some keep) em: exactly the stored rows selected by em (when given) whose endpoints are all kept nodes *)
Theorem restrict_edges_exact g keep em r :
  let kept := a_flat (g_nids (restrict g (Some keep) em)) in
  let mask := match em with Some m => and_masks m (edges_kept (g_eids g) kept) | None => edges_kept (g_eids g) kept end in
  a_flat (g_eids (restrict g (Some keep) em)) = List.concat (select mask (erows (g_eids g))) /\
  (In r (select mask (erows (g_eids g))) <->
   exists j, nth_error (erows (g_eids g)) j = Some r /\
             match em with Some m => nth_error m j = Some true | None => True end /\
             forall x, In x r -> In x kept).
Proof.
  cbn zeta. unfold restrict. cbn [g_eids g_nids]. unfold edge_mask_of.
  set (kept := a_flat (mask_rows (Some keep) (g_nids g))). split.
  - destruct em as [m|]; reflexivity.
  - rewrite select_In_iff. split.
    + intros [j [Hm Hr]]. exists j. split; [exact Hr|]. destruct em as [m|].
      * apply and_masks_nth in Hm. destruct Hm as [H1 H2]. split; [exact H1|]. apply (edges_kept_nth _ _ _ _ Hr). exact H2.
      * split; [exact I|]. apply (edges_kept_nth _ _ _ _ Hr). exact Hm.
    + intros [j [Hr [Hem Hk]]]. exists j. split; [|exact Hr]. destruct em as [m|].
      * apply and_masks_nth. split; [exact Hem|]. apply (edges_kept_nth _ _ _ _ Hr). exact Hk.
      * apply (edges_kept_nth _ _ _ _ Hr). exact Hk.
Qed.

(* the kept nodes: exactly the stored ids whose index is flagged, in stored order (1-D id array) *)
Theorem restrict_nodes_exact g keep em x :
  row_size (g_nids g) = 1%nat ->
  In x (a_flat (g_nids (restrict g (Some keep) em))) <->
  exists i, nth_error keep i = Some true /\ nth_error (erows (g_nids g)) i = Some [x].
Proof.
  intros Hrs. unfold restrict. cbn [g_nids]. unfold mask_rows. cbn [a_flat]. fold (erows (g_nids g)). split.
  - intros H. apply in_concat in H. destruct H as [row [Hrow Hx]]. apply select_In_iff in Hrow. destruct Hrow as [i [Hk Hr]].
    exists i. split; [exact Hk|].
    assert (Hgen : forall n (l : list Z) j rw, nth_error (chunks 1 n l) j = Some rw -> (List.length rw <= 1)%nat).
    { induction n as [|n IH]; intros l j rw Hj; cbn [chunks] in Hj; [destruct j; discriminate|].
      destruct j as [|j]; cbn in Hj; [|eapply IH; exact Hj]. inversion Hj; subst rw. destruct l as [|a0 [|b0 l]]; cbn; lia. }
    assert (Hlen : (List.length row <= 1)%nat).
    { unfold erows in Hr. rewrite Hrs in Hr. eapply Hgen. exact Hr. }
    destruct row as [|a [|b row]]; cbn in Hlen; [destruct Hx | destruct Hx as [->|[]]; exact Hr | lia].
  - intros [i [Hk Hr]]. apply in_concat. exists [x]. split; [apply select_In_iff; exists i; split; assumption | left; reflexivity].
Qed.
