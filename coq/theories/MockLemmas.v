(* MockLemmas.v -- proofs about Mock.v (C20): the edge enumeration (count, no self edge, no
   repeated ordered / unordered pair, endpoints are nodes), the closed form of what
   create_dummy_in_mem_geff returns, the structure validation of what create_mock_geff
   writes, and the equality of the store view and the in-memory view. *)
From Coq Require Import ZifyBool.
From Coq Require Import Permutation.
From Geff Require Import Base Dtype DtypeLemmas GraphVal GraphValLemmas Vlen VlenLemmas Mock.
Open Scope Z_scope.
Open Scope list_scope.

(* ================= generic list facts ================= *)
Lemma In_firstn {A} k (l : list A) x : In x (firstn k l) -> In x l.
Proof.
  revert l. induction k as [|k IH]; intros [|y r] H; cbn in H; try contradiction.
  destruct H as [H|H]; [left; exact H | right; apply IH; exact H].
Qed.

Lemma NoDup_firstn {A} k (l : list A) : NoDup l -> NoDup (firstn k l).
Proof.
  revert l. induction k as [|k IH]; intros [|y r] H; cbn; try constructor.
  - inversion H as [|? ? Hn Hr]; subst. intro Hin. apply Hn. eapply In_firstn; exact Hin.
  - inversion H; subst. apply IH. assumption.
Qed.

Lemma NoDup_app_intro {A} (l1 l2 : list A) :
  NoDup l1 -> NoDup l2 -> (forall x, In x l1 -> In x l2 -> False) -> NoDup (l1 ++ l2).
Proof.
  induction l1 as [|x r IH]; intros H1 H2 Hd; cbn; [exact H2|].
  inversion H1 as [|? ? Hn Hr]; subst. constructor.
  - intro Hin. apply in_app_or in Hin. destruct Hin as [Hin|Hin]; [exact (Hn Hin)|].
    apply (Hd x); [left; reflexivity | exact Hin].
  - apply IH; [exact Hr | exact H2 |]. intros y Hy1 Hy2. apply (Hd y); [right; exact Hy1 | exact Hy2].
Qed.

Lemma NoDup_middle {A} (a b c : list A) :
  NoDup (a ++ c) -> NoDup b -> (forall x, In x b -> ~ In x (a ++ c)) -> NoDup (a ++ b ++ c).
Proof.
  intros Hac Hb Hd. apply (Permutation_NoDup (l := b ++ a ++ c)); [apply Permutation_app_swap_app|].
  apply NoDup_app_intro; [exact Hb | exact Hac | intros x H1 H2; exact (Hd x H1 H2)].
Qed.

Lemma NoDup_flat_map {A B} (f : A -> list B) (l : list A) :
  NoDup l -> (forall x, In x l -> NoDup (f x)) ->
  (forall x y b, In x l -> In y l -> In b (f x) -> In b (f y) -> x = y) ->
  NoDup (flat_map f l).
Proof.
  induction l as [|a r IH]; intros Hl Hf Hd; cbn; [constructor|].
  inversion Hl as [|? ? Hn Hr]; subst.
  apply NoDup_app_intro.
  - apply Hf. left; reflexivity.
  - apply IH; [exact Hr | |].
    + intros x Hx. apply Hf. right; exact Hx.
    + intros x y b Hx Hy. apply Hd; right; assumption.
  - intros b Hb1 Hb2. apply in_flat_map in Hb2. destruct Hb2 as [y [Hy Hby]].
    assert (a = y) as -> by (apply (Hd a y b); [left; reflexivity | right; exact Hy | exact Hb1 | exact Hby]).
    exact (Hn Hy).
Qed.

Lemma NoDup_map_inj {A B} (f : A -> B) (l : list A) :
  (forall x y, In x l -> In y l -> f x = f y -> x = y) -> NoDup l -> NoDup (map f l).
Proof.
  induction l as [|a r IH]; intros Hinj Hl; cbn; [constructor|].
  inversion Hl as [|? ? Hn Hr]; subst. constructor.
  - intro Hin. apply in_map_iff in Hin. destruct Hin as [y [Hfy Hy]].
    assert (y = a) as -> by (apply Hinj; [right; exact Hy | left; reflexivity | exact Hfy]).
    exact (Hn Hy).
  - apply IH; [|exact Hr]. intros x y Hx Hy. apply Hinj; right; assumption.
Qed.

Lemma length_flat_map {A B} (f : A -> list B) (l : list A) :
  length (flat_map f l) = list_sum (map (fun x => length (f x)) l).
Proof. induction l as [|a r IH]; cbn; [reflexivity|]. rewrite app_length, IH. reflexivity. Qed.

(* ================= the edge enumeration ================= *)
Lemma in_fwd_pairs n i j : In (i, j) (fwd_pairs n) <-> (i < j /\ j < n)%nat.
Proof.
  unfold fwd_pairs, pairs_off. rewrite in_flat_map. split.
  - intros [off [Hoff Hin]]. apply in_seq in Hoff. apply in_map_iff in Hin.
    destruct Hin as [k [Hk Hks]]. apply in_seq in Hks. inversion Hk; subst. lia.
  - intros [Hij Hjn]. exists (j - i)%nat. split.
    + apply in_seq. lia.
    + apply in_map_iff. exists i. split; [f_equal; lia | apply in_seq; lia].
Qed.

Lemma in_fwd_pairs' n p : In p (fwd_pairs n) <-> (fst p < snd p /\ snd p < n)%nat.
Proof. destruct p as [i j]. apply in_fwd_pairs. Qed.

Lemma NoDup_fwd_pairs n : NoDup (fwd_pairs n).
Proof.
  unfold fwd_pairs. apply NoDup_flat_map.
  - apply seq_NoDup.
  - intros off _. unfold pairs_off. apply NoDup_map_inj; [|apply seq_NoDup].
    intros x y _ _ H. inversion H. reflexivity.
  - intros a b p _ _ Ha Hb. unfold pairs_off in Ha, Hb.
    apply in_map_iff in Ha. apply in_map_iff in Hb.
    destruct Ha as [i [Hi _]]. destruct Hb as [k [Hk _]]. subst p. inversion Hk. lia.
Qed.

Lemma sum_offsets k : forall a, (2 * list_sum (map (fun off => a + k - off) (seq a k)) = k * (k + 1))%nat.
Proof.
  induction k as [|k IH]; intro a; [reflexivity|].
  change (seq a (S k)) with (a :: seq (S a) k). rewrite map_cons.
  change (list_sum ((a + S k - a)%nat :: ?l)) with ((a + S k - a) + list_sum l)%nat.
  rewrite (map_ext_in (fun off => a + S k - off)%nat (fun off => S a + k - off)%nat) by (intros; lia).
  specialize (IH (S a)).
  remember (list_sum (map (fun off => (S a + k - off)%nat) (seq (S a) k))) as s eqn:Es. clear Es.
  replace (a + S k - a)%nat with (S k) by lia. nia.
Qed.

Lemma length_fwd_pairs n : (2 * length (fwd_pairs n) = n * (n - 1))%nat.
Proof.
  unfold fwd_pairs. rewrite length_flat_map.
  destruct n as [|m]; [reflexivity|].
  replace (S m - 1)%nat with m by lia.
  rewrite (map_ext_in (fun x => length (pairs_off (S m) x)) (fun off => 1 + m - off)%nat).
  - pose proof (sum_offsets m 1). nia.
  - intros off _. unfold pairs_off. rewrite map_length, seq_length. lia.
Qed.

Lemma in_node_pairs d n p :
  In p (node_pairs d n) -> (fst p <> snd p /\ fst p < n /\ snd p < n /\ (d = false -> fst p < snd p))%nat.
Proof.
  unfold node_pairs. intro H. apply in_app_or in H. destruct H as [H|H].
  - apply in_fwd_pairs' in H. lia.
  - destruct d; [|destruct H]. apply in_map_iff in H. destruct H as [q [Hq Hin]].
    apply in_fwd_pairs' in Hin. subst p. unfold swap. cbn. repeat split; try lia; try discriminate.
Qed.

Lemma NoDup_node_pairs d n : NoDup (node_pairs d n).
Proof.
  unfold node_pairs. apply NoDup_app_intro.
  - apply NoDup_fwd_pairs.
  - destruct d; [|constructor]. apply NoDup_map_inj; [|apply NoDup_fwd_pairs].
    intros [a b] [c e] _ _ H. unfold swap in H. cbn in H. inversion H. reflexivity.
  - intros p H1 H2. destruct d; [|destruct H2].
    apply in_fwd_pairs' in H1. apply in_map_iff in H2. destruct H2 as [q [Hq Hin]].
    apply in_fwd_pairs' in Hin. subst p. unfold swap in H1. cbn in H1. lia.
Qed.

Lemma length_node_pairs d n : 0 <= n -> Z.of_nat (length (node_pairs d (Z.to_nat n))) = max_possible d n.
Proof.
  intro Hn. unfold node_pairs, max_possible.
  pose proof (length_fwd_pairs (Z.to_nat n)) as HL.
  rewrite app_length.
  assert (Hm : 2 * Z.of_nat (length (fwd_pairs (Z.to_nat n))) = n * (n - 1)).
  { destruct (Z.to_nat n) as [|m] eqn:E.
    - cbn in *. assert (n = 0) by lia. subst n. reflexivity.
    - assert (n = Z.of_nat (S m)) as -> by lia.
      replace (Z.of_nat (S m) - 1) with (Z.of_nat (S m - 1)) by lia. nia. }
  destruct d.
  - rewrite map_length. lia.
  - cbn [length]. rewrite Nat.add_0_r. rewrite <- Hm.
    rewrite Z.mul_comm, Z.div_mul by lia. reflexivity.
Qed.

Lemma mock_edges_length d n e : 0 <= n ->
  Z.of_nat (length (mock_edges d n e)) = Z.max 0 (Z.min e (max_possible d n)).
Proof.
  intro Hn. unfold mock_edges. rewrite map_length, firstn_length.
  pose proof (length_node_pairs d n Hn). lia.
Qed.

Lemma max_possible_nonneg d n : 0 <= n -> 0 <= max_possible d n.
Proof. intro Hn. rewrite <- (length_node_pairs d n Hn). lia. Qed.

Lemma mock_edges_in d n e x : In x (mock_edges d n e) ->
  exists i j, x = (Z.of_nat i, Z.of_nat j) /\
              (i <> j /\ i < Z.to_nat n /\ j < Z.to_nat n /\ (d = false -> i < j))%nat.
Proof.
  unfold mock_edges. intro H. apply in_map_iff in H. destruct H as [[i j] [Hx Hin]].
  apply In_firstn in Hin. apply in_node_pairs in Hin. cbn in Hin.
  exists i, j. split; [symmetry; exact Hx | exact Hin].
Qed.

Lemma zpair_inj p q : zpair p = zpair q -> p = q.
Proof. destruct p, q. unfold zpair. cbn. intro H. inversion H. f_equal; lia. Qed.

Lemma mock_edges_NoDup d n e : NoDup (mock_edges d n e).
Proof.
  unfold mock_edges. apply NoDup_map_inj.
  - intros x y _ _. apply zpair_inj.
  - apply NoDup_firstn. apply NoDup_node_pairs.
Qed.

Lemma mock_edges_norm n e : map norm_edge (mock_edges false n e) = mock_edges false n e.
Proof.
  rewrite <- (map_id (mock_edges false n e)) at 2. apply map_ext_in.
  intros x Hx. apply mock_edges_in in Hx. destruct Hx as [i [j [-> [_ [_ [_ Hlt]]]]]].
  specialize (Hlt eq_refl). unfold norm_edge. cbn. f_equal; lia.
Qed.

Definition arange_ids (n : Z) : list Z := map Z.of_nat (seq 0 (Z.to_nat n)).

Lemma arange_ids_NoDup n : NoDup (arange_ids n).
Proof. unfold arange_ids. apply NoDup_map_inj; [intros; lia | apply seq_NoDup]. Qed.

Lemma arange_ids_In n i : (i < Z.to_nat n)%nat -> In (Z.of_nat i) (arange_ids n).
Proof. intro H. unfold arange_ids. apply in_map. apply in_seq. lia. Qed.

(* the explicit validity conditions of the property *)
Definition valid_graph (directed : bool) (ids : list Z) (edges : list edge) : Prop :=
  NoDup ids /\
  (forall e, In e edges -> In (fst e) ids /\ In (snd e) ids) /\
  (forall e, In e edges -> fst e <> snd e) /\
  NoDup (if directed then edges else map norm_edge edges).

Lemma mock_edges_valid d n e : valid_graph d (arange_ids n) (mock_edges d n e).
Proof.
  repeat split.
  - apply arange_ids_NoDup.
  - apply mock_edges_in in H. destruct H as [i [j [-> [_ [Hi _]]]]]. cbn. apply arange_ids_In. exact Hi.
  - apply mock_edges_in in H. destruct H as [i [j [-> [_ [_ [Hj _]]]]]]. cbn. apply arange_ids_In. exact Hj.
  - intros x Hx. apply mock_edges_in in Hx. destruct Hx as [i [j [-> [Hne _]]]]. cbn. lia.
  - destruct d; [apply mock_edges_NoDup | rewrite mock_edges_norm; apply mock_edges_NoDup].
Qed.

Lemma valid_graph_check d ids edges : valid_graph d ids edges <-> graph_check d ids edges = None.
Proof. unfold valid_graph. symmetry. apply graph_check_none_iff. Qed.

(* ================= dictionaries and metadata lists ================= *)
Lemma dict_set_fresh {V} k (v : V) d : ~ In k (map fst d) -> dict_set k v d = d ++ [(k, v)].
Proof.
  intro H. unfold dict_set. destruct (smem k (map fst d)) eqn:E; [|reflexivity].
  apply smem_In in E. contradiction.
Qed.

Lemma md_set_fresh p md : ~ In (pm_name p) (map pm_name md) -> md_set p md = md ++ [p].
Proof.
  intro H. unfold md_set, pm_mem. destruct (smem (pm_name p) (map pm_name md)) eqn:E; [|reflexivity].
  apply smem_In in E. contradiction.
Qed.

Lemma NoDup_app_r_fresh {A} (l : list A) x r : NoDup (l ++ x :: r) -> ~ In x l.
Proof. intros H Hin. apply NoDup_remove_2 in H. apply H. apply in_or_app. left; exact Hin. Qed.

Lemma NoDup_app_l {A} (l r : list A) : NoDup (l ++ r) -> NoDup l.
Proof.
  induction l as [|x l IH]; intro H; [constructor|]. cbn in H. inversion H as [|? ? Hn Hr]; subst.
  constructor; [intro Hin; apply Hn; apply in_or_app; left; exact Hin | apply IH; exact Hr].
Qed.

Lemma NoDup_app_r {A} (l r : list A) : NoDup (l ++ r) -> NoDup r.
Proof. induction l as [|x l IH]; intro H; [exact H|]. cbn in H. inversion H; subst. apply IH. assumption. Qed.

(* a fresh metadata dict receiving a list of distinct names keeps it as it is *)
Lemma aou_fold_fresh ms : forall acc, NoDup (map pm_name (acc ++ ms)) ->
  fold_left aou_step ms ([], acc) = ([], acc ++ ms).
Proof.
  induction ms as [|m r IH]; intros acc H; cbn [fold_left]; [rewrite app_nil_r; reflexivity|].
  unfold aou_step at 2. cbn [fst snd pm_mem map smem existsb].
  rewrite md_set_fresh.
  - rewrite IH; [rewrite <- app_assoc; reflexivity|]. rewrite <- app_assoc. exact H.
  - rewrite map_app in H. cbn [map] in H. apply NoDup_app_r_fresh in H. exact H.
Qed.

Lemma add_or_update_fresh ms : NoDup (map pm_name ms) -> add_or_update [] ms = ms.
Proof. intro H. unfold add_or_update. rewrite (aou_fold_fresh ms []); [reflexivity | exact H]. Qed.

(* updating with entries that agree (name present, same dtype / varlength) changes nothing *)
Definition agrees (existing : list pmeta) (p : pmeta) : Prop :=
  In (pm_name p) (map pm_name existing) /\
  forall m, In m existing -> pm_name m = pm_name p -> pm_dt m = pm_dt p /\ pm_varlen m = pm_varlen p.

Lemma pm_update_agrees existing p : agrees existing p -> map (pm_update p) existing = existing.
Proof.
  intros [_ H]. rewrite <- (map_id existing) at 2. apply map_ext_in. intros m Hm.
  unfold pm_update. destruct (String.eqb (pm_name m) (pm_name p)) eqn:E; [|reflexivity].
  apply String.eqb_eq in E. destruct (H m Hm E) as [<- <-]. destruct m; reflexivity.
Qed.

Lemma add_or_update_agrees existing ms : Forall (agrees existing) ms -> add_or_update existing ms = existing.
Proof.
  intro H. unfold add_or_update.
  assert (fold_left aou_step ms (existing, []) = (existing, [])) as ->; [|cbn; apply app_nil_r].
  induction H as [|p r Hp Hr IH]; [reflexivity|]. cbn [fold_left].
  unfold aou_step at 2. cbn [fst snd]. unfold pm_mem.
  destruct Hp as [Hin Hag]. apply smem_In in Hin. rewrite Hin.
  rewrite pm_update_agrees; [exact IH|]. split; [apply smem_In; exact Hin | exact Hag].
Qed.

(* ================= entries: what the generator creates, in closed form ================= *)
Definition entry := (string * parr * option string)%type.   (* name, array, unit *)
Definition e_name (e : entry) : string := fst (fst e).
Definition e_arr (e : entry) : parr := snd (fst e).
Definition e_unit (e : entry) : option string := snd e.
Definition e_kv (e : entry) : string * parr := fst e.

Definition meta_of (e : entry) : pmeta :=
  match a_payload (e_arr e) with
  | PVarlen (e0 :: _) => {| pm_name := e_name e; pm_dt := v_dt e0; pm_varlen := true; pm_unit := e_unit e |}
  | _ => {| pm_name := e_name e; pm_dt := a_dt (e_arr e); pm_varlen := false; pm_unit := e_unit e |}
  end.

(* an array fit for `count` graph elements *)
(* the dtype PropMetadata is asked to record is one of VALID_DTYPES *)
Definition stored_ok (a : parr) : Prop :=
  match a_payload a with
  | PVarlen (e0 :: _) => storable (v_dt e0) = true
  | PVarlen [] => True
  | _ => storable (a_dt a) = true
  end.
Definition arr_wf (count : nat) (a : parr) : Prop :=
  a_len a = count /\ (forall ms, a_missing a = Some ms -> length ms = count) /\
  match a_payload a with
  | PVarlen elems => elems <> [] /\ uniform elems /\ Forall wf_varr elems /\ length elems = count /\ a_tail a = []
  | _ => True
  end /\ stored_ok a.

Lemma uniform_forallb e0 r : uniform (e0 :: r) -> forallb (fun e => dtype_eqb (v_dt e) (v_dt e0)) (e0 :: r) = true.
Proof.
  unfold uniform, uniform_with. intro H. apply forallb_forall. intros x Hx.
  rewrite Forall_forall in H. destruct (H x Hx) as [_ Hd]. apply dtype_eqb_eq. exact Hd.
Qed.

Lemma cpm_ok name a u count : arr_wf count a -> create_props_metadata name a u = Ok (meta_of (name, a, u)).
Proof.
  intros [_ [_ [H Hst]]]. unfold create_props_metadata, meta_of, e_arr, e_name, e_unit, stored_ok in *. cbn [fst snd].
  destruct (a_payload a) as [k|x y k|k|s k| |elems]; try (rewrite Hst; reflexivity).
  destruct H as [Hne [Hu _]]. destruct elems as [|e0 r]; [contradiction|].
  rewrite (uniform_forallb e0 r Hu), Hst. reflexivity.
Qed.

(* an array that PropMetadata accepts is not a float16 array: the upcast leaves it alone *)
Lemma upcast_id count a : arr_wf count a -> upcast_arr a = a.
Proof.
  intros [_ [_ [_ Hst]]]. unfold upcast_arr, stored_ok in *.
  destruct (a_payload a) as [k|x y k|k|s k| |elems]; try reflexivity;
    try (destruct (dtype_eqb (a_dt a) DF16) eqn:E; [|reflexivity]; apply dtype_eqb_eq in E; rewrite E in Hst; discriminate Hst).
  destruct elems as [|e0 r]; [reflexivity|].
  destruct (dtype_eqb (v_dt e0) DF16) eqn:E; [|reflexivity]. apply dtype_eqb_eq in E. rewrite E in Hst. discriminate Hst.
Qed.

(* every dtype name numpy knows in the table is one PropMetadata accepts *)
Lemma np_dtype_storable s dt : np_dtype s = Some dt -> storable dt = true.
Proof.
  unfold np_dtype, np_table. cbn [assoc].
  repeat (match goal with |- context [String.eqb ?a s] => destruct (String.eqb a s) end;
          [intro H; inversion H; reflexivity|]).
  discriminate.
Qed.


Lemma meta_of_name e : pm_name (meta_of e) = e_name e.
Proof. unfold meta_of. destruct (a_payload (e_arr e)) as [| | | | |[|e0 r]]; reflexivity. Qed.

Lemma meta_of_names l : map pm_name (map meta_of l) = map e_name l.
Proof. rewrite map_map. apply map_ext. intro e. apply meta_of_name. Qed.

(* ---- axes ---- *)
Definition not_varlen (pl : payload) : Prop := match pl with PVarlen _ => False | _ => True end.

Definition axis_entry (inc : bool) (n : nat) (name unit dts : string) (pl : payload) : list entry :=
  if inc then match np_dtype dts with Some dt => [(name, mk_arr dt n pl, Some unit)] | None => [] end else [].
Definition axis_rec (inc : bool) (n : nat) (name type unit : string) : list axis :=
  if inc then [{| ax_name := name; ax_type := type; ax_unit := unit; ax_bounded := Nat.ltb 0 n |}] else [].
(* the dtype name of an included axis is one numpy knows, and an ordered one unless there are no nodes *)
Definition axis_dtype_ok (inc : bool) (n : nat) (dts : string) : Prop :=
  inc = true -> exists dt, np_dtype dts = Some dt /\ ((0 < n)%nat -> is_numeric dt = true).

Lemma mk_arr_wf dt n pl : not_varlen pl -> storable dt = true -> arr_wf n (mk_arr dt n pl).
Proof.
  intros H Hst. unfold arr_wf, stored_ok, mk_arr. cbn. split; [reflexivity|]. split; [intros ms Hms; discriminate|].
  destruct pl; try (split; [exact I | exact Hst]). contradiction.
Qed.

Lemma add_axis_if_spec inc n name type unit dts pl ps ms axs st' :
  not_varlen pl ->
  add_axis_if inc n name type unit dts pl (ps, ms, axs) = Ok st' ->
  (inc = true -> ~ In name (map fst ps)) ->
  st' = (ps ++ map e_kv (axis_entry inc n name unit dts pl),
         ms ++ map meta_of (axis_entry inc n name unit dts pl),
         axs ++ axis_rec inc n name type unit)
  /\ axis_dtype_ok inc n dts.
Proof.
  intros Hpl H Hfresh. unfold add_axis_if, axis_entry, axis_rec, axis_dtype_ok in *. destruct inc.
  - unfold add_axis in H. destruct (np_dtype dts) as [dt|] eqn:Edt; [|discriminate].
    destruct (Nat.ltb 0 n && negb (is_numeric dt)) eqn:Eord; [discriminate|].
    rewrite (cpm_ok name (mk_arr dt n pl) (Some unit) n (mk_arr_wf dt n pl Hpl (np_dtype_storable _ _ Edt))) in H.
    rewrite dict_set_fresh in H by (apply Hfresh; reflexivity).
    inversion H; subst st'; clear H. split; [reflexivity|].
    intros _. exists dt. split; [reflexivity|]. intro Hn.
    apply Nat.ltb_lt in Hn. rewrite Hn in Eord. cbn in Eord. destruct (is_numeric dt); [reflexivity | discriminate].
  - inversion H; subst st'. cbn. rewrite !app_nil_r. split; [reflexivity | intro; discriminate].
Qed.

Lemma axis_entry_names inc n name unit dts pl x :
  In x (map e_name (axis_entry inc n name unit dts pl)) -> inc = true /\ x = name.
Proof.
  unfold axis_entry. destruct inc; [|intros []]. destruct (np_dtype dts); [|intros []].
  cbn. intros [H|[]]. split; [reflexivity | symmetry; exact H].
Qed.

Lemma map_fst_e_kv l : map fst (map e_kv l) = map e_name l.
Proof. rewrite map_map. reflexivity. Qed.

Definition axis_entries (p : params) (n : nat) : list entry :=
  axis_entry (p_t p) n s_t s_second (p_time p) (PTime n) ++
  axis_entry (p_z p) n s_z s_nanometer (p_pos p) (PLin 5 1 n) ++
  axis_entry (p_y p) n s_y s_nanometer (p_pos p) (PLin 1000 5000 n) ++
  axis_entry (p_x p) n s_x s_nanometer (p_pos p) (PLin 10 1 n).
Definition axis_recs (p : params) (n : nat) : list axis :=
  axis_rec (p_t p) n s_t s_time s_second ++ axis_rec (p_z p) n s_z s_space s_nanometer ++
  axis_rec (p_y p) n s_y s_space s_nanometer ++ axis_rec (p_x p) n s_x s_space s_nanometer.
Definition axis_names (p : params) : list string :=
  (if p_t p then [s_t] else []) ++ (if p_z p then [s_z] else []) ++
  (if p_y p then [s_y] else []) ++ (if p_x p then [s_x] else []).
Definition axes_dtypes_ok (p : params) (n : nat) : Prop :=
  axis_dtype_ok (p_t p) n (p_time p) /\
  axis_dtype_ok (p_z p || p_y p || p_x p) n (p_pos p).

Lemma axis_entry_ok_names inc n name unit dts pl :
  axis_dtype_ok inc n dts -> map e_name (axis_entry inc n name unit dts pl) = if inc then [name] else [].
Proof.
  unfold axis_dtype_ok, axis_entry. destruct inc; [|reflexivity]. intro H.
  destruct (H eq_refl) as [dt [-> _]]. reflexivity.
Qed.

Ltac fresh_name H :=
  let Hx := fresh in
  intros _ Hx; rewrite ?app_nil_l, ?map_app, ?map_fst_e_kv in Hx;
  repeat (apply in_app_or in Hx; destruct Hx as [Hx|Hx]);
  apply axis_entry_names in Hx; destruct Hx as [_ Hx]; discriminate Hx.

Lemma add_axes_spec p n st :
  add_axes p n = Ok st ->
  st = (map e_kv (axis_entries p n), map meta_of (axis_entries p n), axis_recs p n)
  /\ axes_dtypes_ok p n /\ map e_name (axis_entries p n) = axis_names p.
Proof.
  unfold add_axes. intro H.
  destruct (add_axis_if (p_t p) n s_t s_time s_second (p_time p) (PTime n) ([], [], [])) as [st1|] eqn:E1; [|discriminate].
  apply add_axis_if_spec in E1; [|exact I|intros _ []]. destruct E1 as [-> Ht].
  destruct (add_axis_if (p_z p) n s_z s_space s_nanometer (p_pos p) (PLin 5 1 n) _) as [st2|] eqn:E2; [|discriminate].
  apply add_axis_if_spec in E2; [|exact I|fresh_name E2]. destruct E2 as [-> Hz].
  destruct (add_axis_if (p_y p) n s_y s_space s_nanometer (p_pos p) (PLin 1000 5000 n) _) as [st3|] eqn:E3; [|discriminate].
  apply add_axis_if_spec in E3; [|exact I|fresh_name E3]. destruct E3 as [-> Hy].
  apply add_axis_if_spec in H; [|exact I|fresh_name H]. destruct H as [-> Hx].
  unfold axis_entries, axis_recs, axis_names, axes_dtypes_ok. cbn [app].
  rewrite !map_app, <- !app_assoc. split; [reflexivity|]. split.
  - split; [exact Ht|]. unfold axis_dtype_ok in *. intro Hinc.
    destruct (p_z p); [apply Hz; reflexivity|]. destruct (p_y p); [apply Hy; reflexivity|].
    destruct (p_x p); [apply Hx; reflexivity | discriminate].
  - rewrite !axis_entry_ok_names by assumption. reflexivity.
Qed.

(* ---- extra properties ---- *)
Definition dtype_payload (name dts : string) (count : nat) : payload :=
  if String.eqb dts "str" then PNames name count
  else if smem dts arange_dtype_names then PArange count else PLin 1 10 count.

(* a float16 array comes back as float32 (create_props_metadata) *)
Definition up_dt (dt : dtype) : dtype := if dtype_eqb dt DF16 then DF32 else dt.

Definition extra_entry (count : nat) (kv : pkey * pval) : list entry :=
  match kv with
  | (KStr name, VDtype dts) =>
      match np_dtype dts with
      | Some dt => [(name, mk_arr dt count (dtype_payload name dts count), None)]
      | None => []
      end
  | (KStr name, VArray dt len tail) =>
      [(name, {| a_dt := up_dt dt; a_len := len; a_tail := tail; a_payload := PGiven; a_missing := None |}, None)]
  | _ => []
  end.
Definition items_of (ex : extras) : list (pkey * pval) := match ex with EDict items => items | _ => [] end.
Definition extra_entries (count : nat) (ex : extras) : list entry := flat_map (extra_entry count) (items_of ex).
Definition item_names (items : list (pkey * pval)) : list string :=
  flat_map (fun kv => match fst kv with KStr s => [s] | KOther => [] end) items.

(* a documented item: string key; a DTypeStr name or an array with one entry per graph element whose dtype
   (float16 counted as float32) is one geff can store -- not bytes, not object.  (An object array of arrays,
   VObjArray, is modelled but left outside the statements: see plain_items.) *)
Definition item_ok (count : nat) (kv : pkey * pval) : Prop :=
  match kv with
  | (KStr _, VDtype dts) => In dts prop_dtype_names
  | (KStr _, VArray dt len _) => len = count /\ storable (up_dt dt) = true
  | _ => False
  end.
(* the value is not an object array *)
Definition plain_item (kv : pkey * pval) : Prop := match snd kv with VObjArray _ => False | _ => True end.
Definition plain_items (ex : extras) : Prop := Forall plain_item (items_of ex).
Definition extras_ok (count : nat) (ex : extras) : Prop :=
  ex <> ENotDict /\ Forall (item_ok count) (items_of ex).

Lemma prop_dtype_names_known dts : In dts prop_dtype_names -> exists dt, np_dtype dts = Some dt.
Proof.
  unfold prop_dtype_names. cbn. intros H.
  repeat (destruct H as [<-|H]; [eexists; reflexivity|]). destruct H.
Qed.

Lemma dtype_payload_not_varlen name dts count : not_varlen (dtype_payload name dts count).
Proof. unfold dtype_payload. destruct (String.eqb dts "str"); [exact I|]. destruct (smem dts arange_dtype_names); exact I. Qed.

Definition plain (e : entry) : Prop := not_varlen (a_payload (e_arr e)) /\ a_missing (e_arr e) = None /\ e_unit e = None.

Lemma upcast_given dt len tail :
  upcast_arr {| a_dt := dt; a_len := len; a_tail := tail; a_payload := PGiven; a_missing := None |} =
  {| a_dt := up_dt dt; a_len := len; a_tail := tail; a_payload := PGiven; a_missing := None |}.
Proof. unfold upcast_arr, up_dt. cbn. destruct (dtype_eqb dt DF16); reflexivity. Qed.

Lemma extra_one_spec reserved count kv name a m :
  plain_item kv ->
  extra_one reserved count kv = Ok (name, a) ->
  create_props_metadata name (upcast_arr a) None = Ok m ->
  item_ok count kv /\ extra_entry count kv = [(name, upcast_arr a, None)] /\ fst kv = KStr name /\
  arr_wf count (upcast_arr a) /\ plain (name, upcast_arr a, None) /\ ~ In name reserved.
Proof.
  destruct kv as [[k|] v]; unfold extra_one, plain_item; cbn [fst snd]; [|discriminate].
  destruct (smem k reserved) eqn:Eres; [discriminate|].
  assert (Hres : ~ In k reserved) by (intro Hin; apply smem_In in Hin; congruence).
  destruct v as [dts|dt len tail| |elems]; [| |discriminate|contradiction].
  - unfold gen_values. destruct (smem dts prop_dtype_names) eqn:Em; cbn [negb]; [|discriminate].
    apply smem_In in Em. destruct (np_dtype dts) as [dt|] eqn:Edt; [|discriminate].
    intros _ H _. fold (dtype_payload k dts count) in H. inversion H; subst name a; clear H.
    cbn [item_ok extra_entry]. rewrite Edt.
    pose proof (mk_arr_wf dt count (dtype_payload k dts count) (dtype_payload_not_varlen _ _ _) (np_dtype_storable _ _ Edt)) as Hwf.
    rewrite (upcast_id count _ Hwf).
    split; [exact Em|]. split; [reflexivity|]. split; [reflexivity|].
    split; [exact Hwf|].
    split; [|exact Hres]. split; [apply dtype_payload_not_varlen | split; reflexivity].
  - destruct (Nat.eqb len count) eqn:El; [|discriminate]. apply Nat.eqb_eq in El.
    intros _ H Hc. inversion H; subst name a; clear H. rewrite upcast_given in *. cbn [item_ok extra_entry].
    assert (Hst : storable (up_dt dt) = true).
    { unfold create_props_metadata in Hc. cbn [a_payload a_dt] in Hc. destruct (storable (up_dt dt)); [reflexivity | discriminate]. }
    split; [split; [exact El | exact Hst]|]. split; [reflexivity|]. split; [reflexivity|].
    split; [|split; [split; [exact I | split; reflexivity] | exact Hres]].
    unfold arr_wf, stored_ok. cbn. split; [exact El|]. split; [intros ms Hms; discriminate | split; [exact I | exact Hst]].
Qed.

Lemma add_extras_spec reserved count items : forall ps ms ps' ms',
  Forall plain_item items ->
  add_extras reserved count items ps ms = Ok (ps', ms') ->
  NoDup (item_names items) ->
  (forall x, In x (map fst ps) -> In x (item_names items) -> In x reserved) ->
  ps' = ps ++ map e_kv (flat_map (extra_entry count) items) /\
  ms' = ms ++ map meta_of (flat_map (extra_entry count) items) /\
  map e_name (flat_map (extra_entry count) items) = item_names items /\
  Forall (fun e => arr_wf count (e_arr e) /\ plain e) (flat_map (extra_entry count) items) /\
  Forall (item_ok count) items /\
  (forall x, In x (item_names items) -> ~ In x reserved).
Proof.
  induction items as [|kv r IH]; intros ps ms ps' ms' Hpl H Hnd Hps; cbn [add_extras] in H.
  - inversion H; subst. cbn. rewrite !app_nil_r. repeat split; try constructor. intros x [].
  - inversion Hpl as [|? ? Hpl1 Hplr]; subst.
    destruct (extra_one reserved count kv) as [[name a]|] eqn:E1; [|discriminate].
    cbv zeta in H.
    destruct (create_props_metadata name (upcast_arr a) None) as [m|] eqn:Ec; [|discriminate].
    destruct (extra_one_spec reserved count kv name a m Hpl1 E1 Ec) as [Hok [Hent [Hkey [Hwf [Hplain Hres]]]]].
    rewrite (cpm_ok name (upcast_arr a) None count Hwf) in Ec. inversion Ec; subst m; clear Ec.
    assert (Hnames : item_names (kv :: r) = name :: item_names r).
    { unfold item_names. cbn [flat_map]. rewrite Hkey. reflexivity. }
    rewrite Hnames in Hnd, Hps. inversion Hnd as [|? ? Hfresh Hndr]; subst.
    rewrite dict_set_fresh in H.
    2:{ intro Hin. apply Hres. apply Hps; [exact Hin | left; reflexivity]. }
    apply IH in H; [|exact Hplr|exact Hndr|].
    + destruct H as [-> [-> [Hn [Hf [Hi Hr]]]]]. cbn [flat_map]. rewrite Hent. cbn [app map].
      rewrite <- !app_assoc. cbn [app]. repeat split.
      * rewrite Hnames. unfold e_name at 1. cbn [fst]. f_equal. exact Hn.
      * constructor; [split; assumption | exact Hf].
      * constructor; assumption.
      * rewrite Hnames. intros x [<-|Hx]; [exact Hres | apply Hr; exact Hx].
    + intros x Hx Hxr. rewrite map_app in Hx. cbn [map fst] in Hx. apply in_app_or in Hx. destruct Hx as [Hx|[<-|[]]].
      * apply Hps; [exact Hx | right; exact Hxr].
      * contradiction.
Qed.

Lemma with_extras_spec ex reserved count ps ms ps' ms' :
  plain_items ex ->
  with_extras ex reserved count ps ms = Ok (ps', ms') ->
  NoDup (item_names (items_of ex)) ->
  (forall x, In x (map fst ps) -> In x reserved) ->
  ps' = ps ++ map e_kv (extra_entries count ex) /\
  ms' = ms ++ map meta_of (extra_entries count ex) /\
  map e_name (extra_entries count ex) = item_names (items_of ex) /\
  Forall (fun e => arr_wf count (e_arr e) /\ plain e) (extra_entries count ex) /\
  extras_ok count ex /\
  (forall x, In x (item_names (items_of ex)) -> ~ In x reserved).
Proof.
  unfold with_extras, extra_entries, extras_ok, plain_items. destruct ex as [| |items]; cbn [items_of]; intros Hpl H Hnd Hps.
  - inversion H; subst. cbn. rewrite !app_nil_r. repeat split; try constructor. discriminate. intros x [].
  - discriminate.
  - apply add_extras_spec in H; [|exact Hpl|exact Hnd|intros x Hx _; apply Hps; exact Hx].
    destruct H as [H1 [H2 [H3 [H4 [H5 H6]]]]].
    repeat split; try assumption. discriminate.
Qed.

(* ---- the variable-length and the sparse property ---- *)
Lemma varlen_elem_wf i : wf_varr (varlen_elem i).
Proof. unfold wf_varr, varlen_elem, size. cbn. rewrite repeat_length. lia. Qed.

Lemma varlen_prop_wf n : (0 < n)%nat -> arr_wf n (varlen_prop n).
Proof.
  intro Hn. unfold arr_wf, stored_ok, varlen_prop. cbn [a_len a_missing a_payload a_tail a_dt]. split; [reflexivity|]. split.
  - intros ms H. inversion H. rewrite map_length, seq_length. reflexivity.
  - split; [|destruct n; [lia | reflexivity]]. repeat split.
    + destruct n; [lia|]. cbn. discriminate.
    + destruct n; [lia|]. unfold uniform, uniform_with. cbn [map seq].
      apply Forall_forall. intros x Hx. change (varlen_elem 0 :: map varlen_elem (seq 1 n)) with (map varlen_elem (seq 0 (S n))) in Hx.
      apply in_map_iff in Hx. destruct Hx as [i [<- _]]. split; reflexivity.
    + apply Forall_forall. intros x Hx. apply in_map_iff in Hx. destruct Hx as [i [<- _]]. apply varlen_elem_wf.
    + rewrite map_length, seq_length. reflexivity.
Qed.

Lemma sparse_prop_wf k : arr_wf k (sparse_prop k).
Proof.
  unfold arr_wf, stored_ok, sparse_prop. cbn. split; [reflexivity|]. split; [|split; [exact I | reflexivity]].
  intros ms H. inversion H. rewrite map_length, seq_length. reflexivity.
Qed.

Definition varlen_entries (inc : bool) (n : nat) : list entry :=
  if inc then [(s_var_length, varlen_prop n, None)] else [].
Definition sparse_entries (inc : bool) (k : nat) : list entry :=
  if inc then [(s_sparse_prop, sparse_prop k, None)] else [].

Lemma add_varlen_spec inc n ps ms ps' ms' :
  add_varlen inc n ps ms = Ok (ps', ms') ->
  (inc = true -> ~ In s_var_length (map fst ps)) ->
  ps' = ps ++ map e_kv (varlen_entries inc n) /\ ms' = ms ++ map meta_of (varlen_entries inc n) /\
  (inc = true -> (0 < n)%nat).
Proof.
  unfold add_varlen, varlen_entries. destruct inc; intros H Hf.
  - destruct n as [|n].
    + cbn in H. discriminate.
    + rewrite (cpm_ok s_var_length (varlen_prop (S n)) None (S n)) in H by (apply varlen_prop_wf; lia).
      rewrite dict_set_fresh in H by (apply Hf; reflexivity).
      inversion H; subst. repeat split. lia.
  - inversion H; subst. cbn. rewrite !app_nil_r. repeat split. discriminate.
Qed.

Lemma add_sparse_spec inc n ne nps nms eps ems r :
  add_sparse inc n ne nps nms eps ems = Ok r ->
  (inc = true -> ~ In s_sparse_prop (map fst nps)) ->
  (inc = true -> ~ In s_sparse_prop (map fst eps)) ->
  r = (nps ++ map e_kv (sparse_entries inc n), nms ++ map meta_of (sparse_entries inc n),
       eps ++ map e_kv (sparse_entries inc ne), ems ++ map meta_of (sparse_entries inc ne)).
Proof.
  unfold add_sparse, sparse_entries. destruct inc; intros H Hn He.
  - rewrite (cpm_ok _ _ None n (sparse_prop_wf n)), (cpm_ok _ _ None ne (sparse_prop_wf ne)) in H.
    rewrite !dict_set_fresh in H by (first [apply Hn | apply He]; reflexivity).
    inversion H; subst. reflexivity.
  - inversion H; subst. cbn. rewrite !app_nil_r. reflexivity.
Qed.

(* ================= create_dummy_in_mem_geff in closed form ================= *)
Definition nn (p : params) : nat := Z.to_nat (p_n p).
Definition pedges (p : params) : list edge := mock_edges (p_directed p) (p_n p) (p_e p).
Definition ne (p : params) : nat := length (pedges p).

Definition node_entries (p : params) : list entry :=
  axis_entries p (nn p) ++ extra_entries (nn p) (p_enp p) ++
  varlen_entries (p_varlen p) (nn p) ++ sparse_entries (p_missing p) (nn p).
Definition edge_entries (p : params) : list entry :=
  extra_entries (ne p) (p_eep p) ++ sparse_entries (p_missing p) (ne p).

Definition flag_names_n (p : params) : list string :=
  (if p_varlen p then [s_var_length] else []) ++ (if p_missing p then [s_sparse_prop] else []).
Definition flag_names_e (p : params) : list string := if p_missing p then [s_sparse_prop] else [].

(* the request is not contradictory: no two properties of the same name on one side (as repaired, the
   generators reject a request that is: dummy_spec below derives names_ok from acceptance) *)
Definition names_ok (p : params) : Prop :=
  NoDup (axis_names p ++ item_names (items_of (p_enp p)) ++ flag_names_n p) /\
  NoDup (item_names (items_of (p_eep p)) ++ flag_names_e p).

(* What every theorem supposes about the parameters; it restricts nothing the documented interface offers:
   - the keys of a Python dict are distinct (the model writes a dict as a list of items);
   - no extra property is given as an object array of arrays (the model handles those, VObjArray, and the
     correspondence runs them, but the statements below do not speak about them). *)
Definition dict_keys_ok (p : params) : Prop :=
  NoDup (item_names (items_of (p_enp p))) /\ NoDup (item_names (items_of (p_eep p))).
Definition req_wf (p : params) : Prop := dict_keys_ok p /\ plain_items (p_enp p) /\ plain_items (p_eep p).

Lemma generated_node_eq p :
  generated_node (p_t p) (p_z p) (p_y p) (p_x p) (p_varlen p) (p_missing p) = axis_names p ++ flag_names_n p.
Proof. reflexivity. Qed.
Lemma generated_edge_eq p : generated_edge (p_missing p) = flag_names_e p.
Proof. reflexivity. Qed.

Lemma generated_nodup p : NoDup (axis_names p ++ flag_names_n p).
Proof.
  unfold axis_names, flag_names_n.
  destruct (p_t p), (p_z p), (p_y p), (p_x p), (p_varlen p), (p_missing p); cbn [app];
    repeat (constructor; [cbn; intuition discriminate|]); constructor.
Qed.

Lemma names_ok_intro p :
  dict_keys_ok p ->
  (forall x, In x (item_names (items_of (p_enp p))) -> ~ In x (axis_names p ++ flag_names_n p)) ->
  (forall x, In x (item_names (items_of (p_eep p))) -> ~ In x (flag_names_e p)) ->
  names_ok p.
Proof.
  intros [Hdn Hde] Hn He. split.
  - apply NoDup_middle; [apply generated_nodup | exact Hdn | exact Hn].
  - apply NoDup_app_intro; [exact Hde | unfold flag_names_e; destruct (p_missing p); repeat constructor; intros [] |].
    intros x H1 H2. exact (He x H1 H2).
Qed.

Lemma names_ok_elim p : names_ok p ->
  dict_keys_ok p /\
  (forall x, In x (item_names (items_of (p_enp p))) -> ~ In x (axis_names p ++ flag_names_n p)) /\
  (forall x, In x (item_names (items_of (p_eep p))) -> ~ In x (flag_names_e p)).
Proof.
  intros [Hn He].
  assert (Hn' : NoDup (item_names (items_of (p_enp p)) ++ axis_names p ++ flag_names_n p)).
  { apply (Permutation_NoDup (l := axis_names p ++ item_names (items_of (p_enp p)) ++ flag_names_n p));
      [apply Permutation_app_swap_app | exact Hn]. }
  split; [split; [apply NoDup_app_l in Hn'; exact Hn' | apply NoDup_app_l in He; exact He]|]. split.
  - intros x Hx Hg. apply in_split in Hx. destruct Hx as [l1 [l2 Heq]]. rewrite Heq, <- app_assoc in Hn'. cbn [app] in Hn'.
    apply NoDup_remove_2 in Hn'. apply Hn'. apply in_or_app. right. apply in_or_app. right. exact Hg.
  - intros x Hx Hg. apply in_split in Hx. destruct Hx as [l1 [l2 Heq]]. rewrite Heq, <- app_assoc in He. cbn [app] in He.
    apply NoDup_remove_2 in He. apply He. apply in_or_app. right. apply in_or_app. right. exact Hg.
Qed.

Definition spec_geff (p : params) (iddt : dtype) : geff :=
  {| g_meta := {| m_directed := p_directed p; m_axes := axis_recs p (nn p);
                  m_nprops := map meta_of (node_entries p); m_eprops := map meta_of (edge_entries p) |};
     g_iddt := iddt; g_ids := arange_ids (p_n p); g_edt := iddt; g_edges := pedges p;
     g_nprops := map e_kv (node_entries p); g_eprops := map e_kv (edge_entries p) |}.

(* what acceptance says about the parameters (and, conversely, what makes the generator accept) *)
Definition accepted_params (p : params) (iddt : dtype) : Prop :=
  np_dtype (p_id p) = Some iddt /\
  (is_integer iddt = true -> p_n p <= dt_max iddt + 1) /\
  axes_dtypes_ok p (nn p) /\
  extras_ok (nn p) (p_enp p) /\ extras_ok (ne p) (p_eep p) /\
  (p_varlen p = true -> (0 < nn p)%nat) /\
  is_numeric iddt = true.                                      (* np.arange(n, dtype="str") is a TypeError *)

Lemma sparse_entries_names inc k : map e_name (sparse_entries inc k) = if inc then [s_sparse_prop] else [].
Proof. destruct inc; reflexivity. Qed.
Lemma varlen_entries_names inc k : map e_name (varlen_entries inc k) = if inc then [s_var_length] else [].
Proof. destruct inc; reflexivity. Qed.

Theorem dummy_spec p g : req_wf p -> dummy p = Ok g ->
  exists iddt, accepted_params p iddt /\ names_ok p /\ g = spec_geff p iddt.
Proof.
  intros [[Hdn Hde] [Hpn Hpe]] H. unfold dummy in H.
  destruct (np_dtype (p_id p)) as [iddt|] eqn:Eid; [|discriminate].
  destruct (is_integer iddt && (dt_max iddt + 1 <? p_n p)) eqn:Ecap; [discriminate|].
  destruct (is_numeric iddt) eqn:Enum; cbn [negb] in H; [|discriminate].
  cbv zeta in H. fold (nn p) in H. fold (pedges p) in H. fold (ne p) in H.
  destruct (add_axes p (nn p)) as [[[np0 nm0] axes]|] eqn:E0; [|discriminate].
  apply add_axes_spec in E0. destruct E0 as [E0 [Hax Hnames]]. inversion E0; subst np0 nm0 axes; clear E0.
  rewrite generated_node_eq, generated_edge_eq in H.
  destruct (with_extras (p_enp p) _ (nn p) _ _) as [[np1 nm1]|] eqn:E1; [|discriminate].
  apply with_extras_spec in E1; [|exact Hpn|exact Hdn|].
  2:{ intros x Hx. rewrite map_fst_e_kv, Hnames in Hx. apply in_or_app. left. exact Hx. }
  destruct E1 as [-> [-> [Hxn [_ [Hxo Hrn]]]]].
  destruct (with_extras (p_eep p) _ (ne p) [] []) as [[ep1 em1]|] eqn:E2; [|discriminate].
  apply with_extras_spec in E2; [|exact Hpe|exact Hde|intros x []].
  destruct E2 as [-> [-> [Hen [_ [Heo Hre]]]]]. cbn [app] in H.
  pose proof (names_ok_intro p (conj Hdn Hde) Hrn Hre) as Hnok. destruct Hnok as [Hn He].
  destruct (add_varlen (p_varlen p) (nn p) _ _) as [[np2 nm2]|] eqn:E3; [|discriminate].
  apply add_varlen_spec in E3.
  2:{ intros Hv Hin. rewrite map_app, !map_fst_e_kv, Hnames, Hxn in Hin.
      unfold flag_names_n in Hn. rewrite Hv in Hn. rewrite !app_assoc in Hn. apply NoDup_app_l in Hn.
      rewrite <- app_assoc in Hn. cbn [app] in Hn. rewrite app_assoc in Hn. apply NoDup_app_r_fresh in Hn. exact (Hn Hin). }
  destruct E3 as [-> [-> Hvl]].
  destruct (add_sparse (p_missing p) (nn p) (ne p) _ _ _ _) as [[[[np3 nm3] ep2] em2]|] eqn:E4; [|discriminate].
  apply add_sparse_spec in E4.
  2:{ intros Hm Hin. rewrite !map_app, !map_fst_e_kv, Hnames, Hxn, varlen_entries_names in Hin.
      unfold flag_names_n in Hn. rewrite Hm in Hn. rewrite !app_assoc in Hn. apply NoDup_app_r_fresh in Hn.
      rewrite <- ?app_assoc in Hn. rewrite <- ?app_assoc in Hin. exact (Hn Hin). }
  2:{ intros Hm Hin. rewrite map_fst_e_kv, Hen in Hin. unfold flag_names_e in He. rewrite Hm in He.
      apply NoDup_app_r_fresh in He. exact (He Hin). }
  inversion E4; subst np3 nm3 ep2 em2; clear E4.
  inversion H; subst g; clear H.
  exists iddt. split.
  - split; [exact Eid|]. split.
    + intro Hi. rewrite Hi in Ecap. cbn in Ecap. lia.
    + split; [exact Hax|]. split; [exact Hxo|]. split; [exact Heo | split; [exact Hvl | exact Enum]].
  - split; [split; assumption|]. unfold spec_geff, node_entries, edge_entries, arange_ids. fold (nn p).
    rewrite <- !map_app, <- !app_assoc.
    rewrite !add_or_update_fresh.
    + reflexivity.
    + rewrite meta_of_names, map_app, Hen, sparse_entries_names. exact He.
    + rewrite meta_of_names, !map_app, Hnames, Hxn, varlen_entries_names, sparse_entries_names. exact Hn.
Qed.

(* ================= facts about the entries of an accepted request ================= *)
Lemma axis_dtype_ok_weaken (a b : bool) n dts : axis_dtype_ok (a || b) n dts -> axis_dtype_ok a n dts.
Proof. unfold axis_dtype_ok. intros H Ha. apply H. rewrite Ha. reflexivity. Qed.
Lemma axis_dtype_ok_weaken_r (a b : bool) n dts : axis_dtype_ok (a || b) n dts -> axis_dtype_ok b n dts.
Proof. unfold axis_dtype_ok. intros H Hb. apply H. rewrite Hb. apply orb_true_r. Qed.

Lemma axes_dtypes_each p n : axes_dtypes_ok p n ->
  axis_dtype_ok (p_t p) n (p_time p) /\ axis_dtype_ok (p_z p) n (p_pos p) /\
  axis_dtype_ok (p_y p) n (p_pos p) /\ axis_dtype_ok (p_x p) n (p_pos p).
Proof.
  intros [Ht Hp]. split; [exact Ht|].
  split; [apply (axis_dtype_ok_weaken _ (p_y p)), (axis_dtype_ok_weaken _ (p_x p)); exact Hp|].
  split; [apply (axis_dtype_ok_weaken_r (p_z p)), (axis_dtype_ok_weaken _ (p_x p)); exact Hp|].
  apply (axis_dtype_ok_weaken_r (p_z p || p_y p)); exact Hp.
Qed.

Lemma axis_entries_names p n : axes_dtypes_ok p n -> map e_name (axis_entries p n) = axis_names p.
Proof.
  intro H. apply axes_dtypes_each in H. destruct H as [Ht [Hz [Hy Hx]]].
  unfold axis_entries, axis_names. rewrite !map_app, !axis_entry_ok_names by assumption. reflexivity.
Qed.

Lemma extra_entry_ok count kv : item_ok count kv ->
  exists name a, extra_entry count kv = [(name, a, None)] /\ fst kv = KStr name /\ arr_wf count a /\ plain (name, a, None).
Proof.
  destruct kv as [[k|] [dts|dt len tail| |elems]]; cbn [item_ok]; intro H; try contradiction.
  - destruct (prop_dtype_names_known dts H) as [dt Hdt]. cbn [extra_entry]. rewrite Hdt.
    eexists _, _. split; [reflexivity|]. split; [reflexivity|].
    split; [apply mk_arr_wf; [apply dtype_payload_not_varlen | exact (np_dtype_storable _ _ Hdt)]|].
    split; [apply dtype_payload_not_varlen | split; reflexivity].
  - destruct H as [Hlen Hst]. subst len. cbn [extra_entry]. eexists _, _. split; [reflexivity|]. split; [reflexivity|].
    split; [|split; [exact I | split; reflexivity]].
    unfold arr_wf, stored_ok. cbn. split; [reflexivity|]. split; [intros ms Hms; discriminate | split; [exact I | exact Hst]].
Qed.

Lemma extra_entries_facts count ex : extras_ok count ex ->
  map e_name (extra_entries count ex) = item_names (items_of ex) /\
  Forall (fun e => arr_wf count (e_arr e) /\ plain e) (extra_entries count ex).
Proof.
  intros [_ H]. unfold extra_entries. induction H as [|kv r Hkv Hr [IH1 IH2]]; [split; constructor|].
  destruct (extra_entry_ok count kv Hkv) as [name [a [He [Hk [Hwf Hpl]]]]].
  cbn [flat_map]. rewrite He. cbn [app map]. split.
  - unfold item_names. cbn [flat_map]. rewrite Hk. cbn [app]. f_equal. exact IH1.
  - constructor; [split; assumption | exact IH2].
Qed.

(* an axis entry is a plain 1-D array of node length without a mask *)
Definition axis_like (n : nat) (e : entry) : Prop :=
  exists dt pl, not_varlen pl /\ storable dt = true /\ e_arr e = mk_arr dt n pl.

Lemma axis_entry_like inc n name unit dts pl : not_varlen pl ->
  Forall (axis_like n) (axis_entry inc n name unit dts pl).
Proof.
  intro Hpl. unfold axis_entry. destruct inc; [|constructor]. destruct (np_dtype dts) as [dt|] eqn:Edt; [|constructor].
  constructor; [|constructor]. exists dt, pl. split; [exact Hpl | split; [exact (np_dtype_storable _ _ Edt) | reflexivity]].
Qed.

Lemma axis_entries_like p n : Forall (axis_like n) (axis_entries p n).
Proof. unfold axis_entries. repeat (apply Forall_app; split); apply axis_entry_like; exact I. Qed.

Lemma axis_like_wf n e : axis_like n e -> arr_wf n (e_arr e).
Proof. intros [dt [pl [Hpl [Hst ->]]]]. apply mk_arr_wf; assumption. Qed.

Lemma node_entries_names p iddt : accepted_params p iddt ->
  map e_name (node_entries p) = axis_names p ++ item_names (items_of (p_enp p)) ++ flag_names_n p.
Proof.
  intros [_ [_ [Hax [Hxn _]]]]. unfold node_entries, flag_names_n.
  rewrite !map_app, (axis_entries_names p (nn p) Hax), varlen_entries_names, sparse_entries_names.
  destruct (extra_entries_facts _ _ Hxn) as [-> _]. reflexivity.
Qed.

Lemma edge_entries_names p iddt : accepted_params p iddt ->
  map e_name (edge_entries p) = item_names (items_of (p_eep p)) ++ flag_names_e p.
Proof.
  intros [_ [_ [_ [_ [Hxe _]]]]]. unfold edge_entries, flag_names_e.
  rewrite map_app, sparse_entries_names. destruct (extra_entries_facts _ _ Hxe) as [-> _]. reflexivity.
Qed.

Lemma node_entries_wf p iddt : accepted_params p iddt -> Forall (fun e => arr_wf (nn p) (e_arr e)) (node_entries p).
Proof.
  intros [_ [_ [_ [Hxn [_ [Hvl _]]]]]]. unfold node_entries.
  apply Forall_app; split; [|apply Forall_app; split; [|apply Forall_app; split]].
  - eapply Forall_impl; [|apply axis_entries_like]. intros e. apply axis_like_wf.
  - destruct (extra_entries_facts _ _ Hxn) as [_ H]. eapply Forall_impl; [|exact H]. intros e [He _]. exact He.
  - unfold varlen_entries. destruct (p_varlen p); [|constructor]. constructor; [|constructor].
    apply varlen_prop_wf. apply Hvl. reflexivity.
  - unfold sparse_entries. destruct (p_missing p); [|constructor]. constructor; [|constructor]. apply sparse_prop_wf.
Qed.

Lemma edge_entries_wf p iddt : accepted_params p iddt -> Forall (fun e => arr_wf (ne p) (e_arr e)) (edge_entries p).
Proof.
  intros [_ [_ [_ [_ [Hxe _]]]]]. unfold edge_entries. apply Forall_app; split.
  - destruct (extra_entries_facts _ _ Hxe) as [_ H]. eapply Forall_impl; [|exact H]. intros e [He _]. exact He.
  - unfold sparse_entries. destruct (p_missing p); [|constructor]. constructor; [|constructor]. apply sparse_prop_wf.
Qed.

(* ================= write_arrays on a consistent geff ================= *)
Definition sprop_of (a : parr) : sprop :=
  match a_payload a with
  | PVarlen elems =>
      match serialize elems with
      | Ok (rows, data) =>
          {| sp_dt := DU64; sp_len := length rows; sp_tail := match rows with r :: _ => [length r] | [] => [] end;
             sp_payload := PGiven; sp_rows := rows; sp_missing := a_missing a; sp_data := Some (ser_dtype elems, data) |}
      | Err _ =>
          {| sp_dt := a_dt a; sp_len := a_len a; sp_tail := a_tail a; sp_payload := PGiven; sp_rows := [];
             sp_missing := a_missing a; sp_data := None |}
      end
  | pl => {| sp_dt := a_dt a; sp_len := a_len a; sp_tail := a_tail a; sp_payload := pl; sp_rows := [];
             sp_missing := a_missing a; sp_data := None |}
  end.

Lemma serialize_wf elems count :
  elems <> [] -> uniform elems -> length elems = count ->
  exists rows data, serialize elems = Ok (rows, data) /\ length rows = count.
Proof.
  intros _ Hu Hl. destruct (proj2 (serialize_ok_iff elems) Hu) as [[rows data] Hs].
  exists rows, data. split; [exact Hs|].
  unfold serialize in Hs. apply ser_go_rows in Hs. destruct Hs as [_ Ht].
  rewrite <- Hl, <- (map_length (@tl nat) rows), Ht, map_length. reflexivity.
Qed.

Lemma write_prop_ok count name a : arr_wf count a ->
  write_prop (name, a) = Ok (meta_of (name, a, None), (name, sprop_of a)).
Proof.
  intro Hwf. unfold write_prop. cbn [fst snd]. rewrite (upcast_id count a Hwf). cbv zeta.
  rewrite (cpm_ok name a None count Hwf).
  unfold sprop_of. destruct Hwf as [_ [_ [Hp _]]].
  destruct (a_payload a) as [k|x y k|k|s k| |elems]; try reflexivity.
  destruct Hp as [Hne [Hu [_ [Hl _]]]].
  destruct (serialize_wf elems count Hne Hu Hl) as [rows [data [Hs _]]]. rewrite Hs. reflexivity.
Qed.

Definition strip_unit (e : entry) : entry := (e_name e, e_arr e, None).
Definition sp_kv (e : entry) : string * sprop := (e_name e, sprop_of (e_arr e)).

Lemma write_props_ok count ents : Forall (fun e => arr_wf count (e_arr e)) ents ->
  write_props (map e_kv ents) = Ok (map meta_of (map strip_unit ents), map sp_kv ents).
Proof.
  intro H. unfold write_props.
  assert (mapM write_prop (map e_kv ents) = Ok (map (fun e => (meta_of (strip_unit e), sp_kv e)) ents)) as ->.
  { induction H as [|e r He Hr IH]; [reflexivity|]. cbn [map mapM].
    destruct e as [[name a] u]. unfold e_kv at 1. cbn [fst].
    rewrite (write_prop_ok count name a He), IH. reflexivity. }
  rewrite !map_map. reflexivity.
Qed.

(* the view of what was stored is the view of what was given *)
Lemma sprop_view_of count name a : arr_wf count a -> sprop_view (name, sprop_of a) = parr_view (name, a).
Proof.
  intros [Hlen [_ [Hp _]]]. unfold sprop_view, parr_view, sprop_of. cbn [fst snd].
  destruct (a_payload a) as [k|x y k|k|s k| |elems]; try reflexivity.
  destruct Hp as [Hne [Hu [Hwf [Hl Ht]]]].
  destruct (serialize_wf elems count Hne Hu Hl) as [rows [data [Hs Hr]]]. rewrite Hs.
  cbn [sp_data sp_len sp_rows sp_missing sp_dt sp_tail sp_payload].
  rewrite (serialize_deserialize elems rows data Hwf Hs).
  destruct elems as [|e0 r]; [contradiction|]. cbn [ser_dtype].
  rewrite Hr, Hlen, Ht. reflexivity.
Qed.

Lemma sprop_views count ents : Forall (fun e => arr_wf count (e_arr e)) ents ->
  map sprop_view (map sp_kv ents) = map parr_view (map e_kv ents).
Proof.
  intro H. induction H as [|e r He Hr IH]; [reflexivity|]. cbn [map]. rewrite IH. f_equal.
  destruct e as [[name a] u]. unfold sp_kv, e_kv, e_name, e_arr. cbn [fst snd]. apply (sprop_view_of count). exact He.
Qed.

(* metadata derived from the arrays agrees with the metadata the generator declared *)
Lemma find_meta_In name metas m :
  NoDup (map pm_name metas) -> In m metas -> pm_name m = name -> find_meta name metas = Some m.
Proof.
  unfold find_meta. induction metas as [|x r IH]; intros Hnd Hin Hn; [destruct Hin|].
  cbn [find]. cbn [map] in Hnd. inversion Hnd as [|? ? Hx Hr]; subst.
  destruct Hin as [->|Hin].
  - rewrite String.eqb_refl. reflexivity.
  - destruct (String.eqb (pm_name x) (pm_name m)) eqn:E.
    + apply String.eqb_eq in E. exfalso. apply Hx. rewrite E. apply in_map. exact Hin.
    + apply IH; [exact Hr | exact Hin | reflexivity].
Qed.

Lemma meta_of_strip e : pm_name (meta_of (strip_unit e)) = pm_name (meta_of e) /\
  pm_dt (meta_of (strip_unit e)) = pm_dt (meta_of e) /\ pm_varlen (meta_of (strip_unit e)) = pm_varlen (meta_of e).
Proof.
  unfold meta_of, strip_unit, e_arr, e_name. cbn [fst snd].
  destruct (a_payload (snd (fst e))) as [| | | | |[|e0 r]]; repeat split.
Qed.

Lemma derived_meta_agrees ents :
  NoDup (map e_name ents) -> Forall (agrees (map meta_of ents)) (map meta_of (map strip_unit ents)).
Proof.
  intro Hnd. apply Forall_forall. intros m Hm. apply in_map_iff in Hm. destruct Hm as [e' [<- He']].
  apply in_map_iff in He'. destruct He' as [e [<- He]].
  destruct (meta_of_strip e) as [Hn [Hd Hv]]. split.
  - rewrite Hn. apply in_map. apply in_map. exact He.
  - intros m Hm Hname. apply in_map_iff in Hm. destruct Hm as [e2 [<- He2]].
    rewrite Hn in Hname. rewrite !meta_of_name in Hname.
    assert (e2 = e) as ->; [|rewrite Hd, Hv; split; reflexivity].
    clear - Hnd He He2 Hname. induction ents as [|x r IH]; [destruct He|].
    cbn [map] in Hnd. inversion Hnd as [|? ? Hx Hr]; subst.
    destruct He as [->|He], He2 as [->|He2]; try reflexivity.
    + exfalso. apply Hx. rewrite <- Hname. apply in_map. exact He2.
    + exfalso. apply Hx. rewrite Hname. apply in_map. exact He.
    + apply IH; assumption.
Qed.

(* structure validation of the written properties *)
Lemma check_prop_ok count ents e :
  NoDup (map e_name ents) -> In e ents -> arr_wf count (e_arr e) ->
  check_prop count (map meta_of ents) (sp_kv e) = true.
Proof.
  intros Hnd He Hwf. unfold check_prop, sp_kv. cbn [fst snd].
  rewrite (find_meta_In (e_name e) (map meta_of ents) (meta_of e)).
  2:{ rewrite meta_of_names. exact Hnd. }
  2:{ apply in_map. exact He. }
  2:{ apply meta_of_name. }
  destruct Hwf as [Hlen [Hms [Hp _]]]. unfold meta_of, sprop_of.
  destruct (a_payload (e_arr e)) as [k|x y k|k|s k| |elems] eqn:Epl; cbn [pm_varlen pm_dt sp_data sp_dt sp_len sp_missing];
    try (rewrite dtype_eqb_refl, Hlen, Nat.eqb_refl; cbn;
         destruct (a_missing (e_arr e)) as [ms|] eqn:Em; [rewrite (Hms ms eq_refl), Nat.eqb_refl|]; reflexivity).
  destruct Hp as [Hne [Hu [_ [Hl _]]]].
  destruct (serialize_wf elems count Hne Hu Hl) as [rows [data [Hs Hr]]]. rewrite Hs.
  destruct elems as [|e0 r]; [contradiction|]. cbn [pm_varlen pm_dt sp_data sp_dt sp_len sp_missing ser_dtype].
  rewrite !dtype_eqb_refl, Hr, Nat.eqb_refl. cbn.
  destruct (a_missing (e_arr e)) as [ms|] eqn:Em; [rewrite (Hms ms eq_refl), Nat.eqb_refl|]; reflexivity.
Qed.

Lemma validate_props_ok count ents :
  NoDup (map e_name ents) -> Forall (fun e => arr_wf count (e_arr e)) ents ->
  validate_props count (map meta_of ents) (map sp_kv ents) = true.
Proof.
  intros Hnd Hwf. unfold validate_props. apply andb_true_iff. split.
  - apply forallb_forall. intros m Hm. apply in_map_iff in Hm. destruct Hm as [e [<- He]].
    apply smem_In. rewrite map_map. rewrite meta_of_name.
    change (In (e_name e) (map (fun x => fst (sp_kv x)) ents)). apply in_map_iff. exists e. split; [reflexivity | exact He].
  - apply forallb_forall. intros kv Hkv. apply in_map_iff in Hkv. destruct Hkv as [e [<- He]].
    apply check_prop_ok; [exact Hnd | exact He |]. rewrite Forall_forall in Hwf. apply Hwf. exact He.
Qed.

Lemma assoc_In {V} k (v : V) l : NoDup (map fst l) -> In (k, v) l -> assoc k l = Some v.
Proof.
  induction l as [|[k' v'] r IH]; intros Hnd Hin; [destruct Hin|].
  cbn [assoc]. cbn [map fst] in Hnd. inversion Hnd as [|? ? Hx Hr]; subst.
  destruct Hin as [Heq|Hin].
  - inversion Heq; subst. rewrite String.eqb_refl. reflexivity.
  - destruct (String.eqb k' k) eqn:E.
    + apply String.eqb_eq in E. subst k'. exfalso. apply Hx. change k with (fst (k, v)). apply in_map. exact Hin.
    + apply IH; assumption.
Qed.

Lemma mapM_id {A} (f : A -> res A) l : (forall x, In x l -> f x = Ok x) -> mapM f l = Ok l.
Proof.
  induction l as [|x r IH]; intro H; [reflexivity|]. cbn [mapM].
  rewrite (H x (or_introl eq_refl)), IH; [reflexivity|]. intros y Hy. apply H. right; exact Hy.
Qed.

Lemma axis_rec_entry inc n name type unit dts pl ax :
  not_varlen pl -> axis_dtype_ok inc n dts -> In ax (axis_rec inc n name type unit) ->
  exists e, In e (axis_entry inc n name unit dts pl) /\ e_name e = ax_name ax /\ axis_like n e /\
            ax_bounded ax = Nat.ltb 0 n.
Proof.
  intros Hpl Hok Hin. unfold axis_rec, axis_entry in *. destruct inc; [|destruct Hin].
  destruct (Hok eq_refl) as [dt [Edt _]]. rewrite Edt. destruct Hin as [<-|[]].
  eexists. split; [left; reflexivity|]. split; [reflexivity|]. split; [|reflexivity].
  exists dt, pl. split; [exact Hpl | split; [exact (np_dtype_storable _ _ Edt) | reflexivity]].
Qed.

Lemma axis_recs_entry p n ax : axes_dtypes_ok p n -> In ax (axis_recs p n) ->
  exists e, In e (axis_entries p n) /\ e_name e = ax_name ax /\ axis_like n e /\ ax_bounded ax = Nat.ltb 0 n.
Proof.
  intros Hok Hin. apply axes_dtypes_each in Hok. destruct Hok as [Ht [Hz [Hy Hx]]].
  unfold axis_recs in Hin. unfold axis_entries.
  apply in_app_or in Hin. destruct Hin as [Hin|Hin].
  { destruct (axis_rec_entry _ _ _ _ _ _ (PTime n) _ I Ht Hin) as [e [He Hr]]. exists e. split; [|exact Hr].
    apply in_or_app. left. exact He. }
  apply in_app_or in Hin. destruct Hin as [Hin|Hin].
  { destruct (axis_rec_entry _ _ _ _ _ _ (PLin 5 1 n) _ I Hz Hin) as [e [He Hr]]. exists e. split; [|exact Hr].
    apply in_or_app. right. apply in_or_app. left. exact He. }
  apply in_app_or in Hin. destruct Hin as [Hin|Hin].
  { destruct (axis_rec_entry _ _ _ _ _ _ (PLin 1000 5000 n) _ I Hy Hin) as [e [He Hr]]. exists e. split; [|exact Hr].
    apply in_or_app. right. apply in_or_app. right. apply in_or_app. left. exact He. }
  destruct (axis_rec_entry _ _ _ _ _ _ (PLin 10 1 n) _ I Hx Hin) as [e [He Hr]]. exists e. split; [|exact Hr].
  apply in_or_app. right. apply in_or_app. right. apply in_or_app. right. exact He.
Qed.

Lemma fold_left_unchanged {A B} (f : A -> B -> A) (l : list B) (d : A) :
  (forall x, In x l -> f d x = d) -> fold_left f l d = d.
Proof.
  induction l as [|x r IH]; intro H; [reflexivity|]. cbn [fold_left].
  rewrite (H x (or_introl eq_refl)). apply IH. intros y Hy. apply H. right; exact Hy.
Qed.

(* the store of an accepted request, in closed form *)
Definition spec_store (p : params) (iddt : dtype) : store :=
  {| s_meta := {| m_directed := p_directed p; m_axes := axis_recs p (nn p);
                  m_nprops := map meta_of (node_entries p); m_eprops := map meta_of (edge_entries p) |};
     s_iddt := iddt; s_ids := arange_ids (p_n p); s_edt := iddt; s_edges := pedges p;
     s_nprops := map sp_kv (node_entries p); s_eprops := map sp_kv (edge_entries p) |}.

Theorem write_arrays_spec p iddt :
  names_ok p -> accepted_params p iddt -> is_integer iddt = true ->
  exists st, write_arrays (spec_geff p iddt) = Ok st /\
             store_view st = mem_view (spec_geff p iddt) /\
             validate_structure st = Ok tt /\
             fill_empty_axes (spec_geff p iddt) = g_nprops (spec_geff p iddt) /\
             st = spec_store p iddt.
Proof.
  intros [Hn He] Hacc Hint.
  pose proof (node_entries_names p iddt Hacc) as Hnn. pose proof (edge_entries_names p iddt Hacc) as Hen.
  pose proof (node_entries_wf p iddt Hacc) as Hnw. pose proof (edge_entries_wf p iddt Hacc) as Hew.
  assert (HndN : NoDup (map e_name (node_entries p))) by (rewrite Hnn; exact Hn).
  assert (HndE : NoDup (map e_name (edge_entries p))) by (rewrite Hen; exact He).
  assert (Hax : axes_dtypes_ok p (nn p)) by (destruct Hacc as [_ [_ [H _]]]; exact H).
  (* every axis has its property *)
  assert (Haxis : forall ax, In ax (axis_recs p (nn p)) ->
            exists e, In e (node_entries p) /\ e_name e = ax_name ax /\ axis_like (nn p) e /\ ax_bounded ax = Nat.ltb 0 (nn p)).
  { intros ax Hin. destruct (axis_recs_entry p (nn p) ax Hax Hin) as [e [H1 H2]]. exists e. split; [|exact H2].
    unfold node_entries. apply in_or_app. left. exact H1. }
  assert (Hfill : fill_empty_axes (spec_geff p iddt) = g_nprops (spec_geff p iddt)).
  { unfold fill_empty_axes. destruct (Nat.eqb (length (g_ids (spec_geff p iddt))) 0); [|reflexivity].
    apply fold_left_unchanged. intros ax Hin. cbn [spec_geff g_meta m_axes] in Hin.
    destruct (Haxis ax Hin) as [e [H1 [H2 _]]].
    assert (smem (ax_name ax) (map fst (g_nprops (spec_geff p iddt))) = true) as ->; [|reflexivity].
    apply smem_In. cbn [spec_geff g_nprops]. rewrite map_fst_e_kv, <- H2. apply in_map. exact H1. }
  unfold write_arrays. rewrite Hfill.
  cbn [spec_geff g_iddt g_edt g_nprops g_eprops g_meta m_axes m_nprops m_eprops m_directed g_ids g_edges].
  rewrite dtype_eqb_refl, Hint. cbn [negb].
  rewrite (write_props_ok (nn p) (node_entries p) Hnw), (write_props_ok (ne p) (edge_entries p) Hew).
  rewrite mapM_id.
  2:{ intros ax Hin. destruct (Haxis ax Hin) as [e [H1 [H2 [[dt [pl [_ [_ H3]]]] H4]]]].
      unfold axis_min_max. rewrite (assoc_In (ax_name ax) (e_arr e) (map e_kv (node_entries p))).
      - rewrite H3. cbn [mk_arr a_len]. destruct (Nat.eqb (nn p) 0) eqn:E0; [reflexivity|].
        apply Nat.eqb_neq in E0. destruct ax as [a b c d]. cbn [ax_name ax_type ax_unit ax_bounded] in *. rewrite H4.
        assert (Nat.ltb 0 (nn p) = true) as -> by (apply Nat.ltb_lt; lia). reflexivity.
      - rewrite map_fst_e_kv. exact HndN.
      - rewrite <- H2. apply in_map_iff. exists e. split; [destruct e as [[? ?] ?]; reflexivity | exact H1]. }
  rewrite !add_or_update_agrees by (apply derived_meta_agrees; assumption).
  match goal with |- context [validate_structure ?s] => set (st := s) end.
  assert (Hval : validate_structure st = Ok tt).
  { unfold validate_structure, st. cbn [s_iddt s_edt s_ids s_edges s_meta s_nprops s_eprops m_nprops m_eprops m_axes].
    rewrite Hint.
    assert (length (arange_ids (p_n p)) = nn p) as -> by (unfold arange_ids; rewrite map_length, seq_length; reflexivity).
    fold (ne p).
    rewrite (validate_props_ok (nn p) (node_entries p) HndN Hnw), (validate_props_ok (ne p) (edge_entries p) HndE Hew).
    assert (validate_axes (axis_recs p (nn p)) (map sp_kv (node_entries p)) = true) as ->; [|reflexivity].
    unfold validate_axes. apply forallb_forall. intros ax Hin.
    destruct (Haxis ax Hin) as [e [H1 [H2 [[dt [pl [Hpl [_ H3]]]] _]]]].
    rewrite (assoc_In (ax_name ax) (sprop_of (e_arr e)) (map sp_kv (node_entries p))).
    - rewrite H3. unfold sprop_of, mk_arr. cbn [a_payload]. destruct pl; try reflexivity. contradiction.
    - rewrite map_map. exact HndN.
    - rewrite <- H2. apply in_map_iff. exists e. split; [reflexivity | exact H1]. }
  exists st. rewrite Hval. split; [reflexivity|]. split; [|split; [reflexivity | split; reflexivity]].
  unfold store_view, mem_view, st.
  cbn [s_iddt s_edt s_ids s_edges s_meta s_nprops s_eprops m_nprops m_eprops m_axes m_directed
       spec_geff g_iddt g_edt g_nprops g_eprops g_meta g_ids g_edges].
  rewrite (sprop_views (nn p) _ Hnw), (sprop_views (ne p) _ Hew). reflexivity.
Qed.

(* ================= the request, and "the result carries exactly the request" ================= *)
(* a property as a reader sees it: name, dtype, variable-length?, missing-bearing? *)
Definition psummary := (string * dtype * bool * bool)%type.
Definition pv_summary (q : pview) : psummary := (pv_name q, pv_dt q, pv_varlen q, negb (is_none (pv_missing q))).
Definition pm_summary (m : pmeta) : string * dtype * bool := (pm_name m, pm_dt m, pm_varlen m).
Definition ax_summary (a : axis) : string * string * string := (ax_name a, ax_type a, ax_unit a).

Definition req_axis (inc : bool) (name : string) (odt : option dtype) : list psummary :=
  if inc then match odt with Some dt => [(name, dt, false, false)] | None => [] end else [].
Definition req_extra (kv : pkey * pval) : list psummary :=
  match kv with
  | (KStr name, VDtype dts) => match np_dtype dts with Some dt => [(name, dt, false, false)] | None => [] end
  | (KStr name, VArray dt _ _) => [(name, up_dt dt, false, false)]   (* a float16 array is stored as float32 *)
  | _ => []
  end.
Definition req_sparse (inc : bool) : list psummary := if inc then [(s_sparse_prop, DF64, false, true)] else [].
Definition req_varlen (inc : bool) : list psummary := if inc then [(s_var_length, DU64, true, true)] else [].
Definition req_nprops (p : params) : list psummary :=
  (req_axis (p_t p) s_t (np_dtype (p_time p)) ++ req_axis (p_z p) s_z (np_dtype (p_pos p)) ++
   req_axis (p_y p) s_y (np_dtype (p_pos p)) ++ req_axis (p_x p) s_x (np_dtype (p_pos p))) ++
  flat_map req_extra (items_of (p_enp p)) ++ req_varlen (p_varlen p) ++ req_sparse (p_missing p).
Definition req_eprops (p : params) : list psummary :=
  flat_map req_extra (items_of (p_eep p)) ++ req_sparse (p_missing p).
Definition req_axes (p : params) : list (string * string * string) :=
  (if p_t p then [(s_t, s_time, s_second)] else []) ++ (if p_z p then [(s_z, s_space, s_nanometer)] else []) ++
  (if p_y p then [(s_y, s_space, s_nanometer)] else []) ++ (if p_x p then [(s_x, s_space, s_nanometer)] else []).

Definition fits (count : nat) (q : pview) : Prop :=
  pv_len q = count /\ forall ms, pv_missing q = Some ms -> length ms = count.

Definition honours (p : params) (v : gview) : Prop :=
  gv_ids v = arange_ids (p_n p) /\
  Z.of_nat (length (gv_edges v)) = Z.max 0 (Z.min (p_e p) (max_possible (p_directed p) (p_n p))) /\
  gv_directed v = p_directed p /\
  np_dtype (p_id p) = Some (gv_iddt v) /\ gv_edt v = gv_iddt v /\
  map ax_summary (gv_axes v) = req_axes p /\
  map pv_summary (gv_nprops v) = req_nprops p /\
  map pv_summary (gv_eprops v) = req_eprops p /\
  map pm_summary (gv_nmeta v) = map fst (req_nprops p) /\
  map pm_summary (gv_emeta v) = map fst (req_eprops p) /\
  Forall (fits (length (gv_ids v))) (gv_nprops v) /\
  Forall (fits (length (gv_edges v))) (gv_eprops v).

Definition e_summary (e : entry) : psummary := pv_summary (parr_view (e_kv e)).

Lemma axis_entry_summary inc n name unit dts pl : not_varlen pl ->
  map e_summary (axis_entry inc n name unit dts pl) = req_axis inc name (np_dtype dts).
Proof.
  intro Hpl. unfold axis_entry, req_axis. destruct inc; [|reflexivity]. destruct (np_dtype dts) as [dt|]; [|reflexivity].
  destruct pl; try reflexivity. contradiction.
Qed.

Lemma extra_entry_summary count kv : map e_summary (extra_entry count kv) = req_extra kv.
Proof.
  destruct kv as [[k|] [dts|dt len tail| |elems]]; try reflexivity.
  cbn [extra_entry req_extra]. destruct (np_dtype dts) as [dt|]; [|reflexivity].
  unfold e_summary, e_kv, parr_view, mk_arr, dtype_payload. cbn [map fst snd a_payload].
  destruct (String.eqb dts "str"); [reflexivity|]. destruct (smem dts arange_dtype_names); reflexivity.
Qed.

Lemma extra_entries_summary count ex : map e_summary (extra_entries count ex) = flat_map req_extra (items_of ex).
Proof.
  unfold extra_entries. induction (items_of ex) as [|kv r IH]; [reflexivity|].
  cbn [flat_map]. rewrite map_app, IH, extra_entry_summary. reflexivity.
Qed.

Lemma varlen_entries_summary inc n : (inc = true -> (0 < n)%nat) ->
  map e_summary (varlen_entries inc n) = req_varlen inc.
Proof.
  unfold varlen_entries, req_varlen. destruct inc; [|reflexivity]. intro H. specialize (H eq_refl).
  destruct n as [|m]; [lia|]. reflexivity.
Qed.

Lemma sparse_entries_summary inc k : map e_summary (sparse_entries inc k) = req_sparse inc.
Proof. destruct inc; reflexivity. Qed.

Lemma node_entries_summary p iddt : accepted_params p iddt -> map e_summary (node_entries p) = req_nprops p.
Proof.
  intros [_ [_ [_ [_ [_ [Hvl _]]]]]]. unfold node_entries, req_nprops, axis_entries.
  rewrite !map_app, !axis_entry_summary by exact I.
  rewrite extra_entries_summary, (varlen_entries_summary _ _ Hvl), sparse_entries_summary. reflexivity.
Qed.

Lemma edge_entries_summary p : map e_summary (edge_entries p) = req_eprops p.
Proof. unfold edge_entries, req_eprops. rewrite map_app, extra_entries_summary, sparse_entries_summary. reflexivity. Qed.

Lemma meta_summary count e : arr_wf count (e_arr e) -> pm_summary (meta_of e) = fst (e_summary e).
Proof.
  intros [_ [_ [H _]]]. unfold pm_summary, meta_of, e_summary, pv_summary, parr_view, e_kv, e_arr, e_name in *.
  destruct e as [[name a] u]. cbn [fst snd] in *.
  destruct (a_payload a) as [k|x y k|k|s k| |elems]; try reflexivity.
  destruct H as [Hne _]. destruct elems as [|e0 r]; [contradiction | reflexivity].
Qed.

Lemma metas_summary count ents : Forall (fun e => arr_wf count (e_arr e)) ents ->
  map pm_summary (map meta_of ents) = map fst (map e_summary ents).
Proof.
  intro H. induction H as [|e r He Hr IH]; [reflexivity|]. cbn [map]. rewrite IH, (meta_summary count e He). reflexivity.
Qed.

Lemma entry_fits count e : arr_wf count (e_arr e) -> fits count (parr_view (e_kv e)).
Proof.
  intros [Hl [Hm _]]. unfold fits, parr_view, e_kv, e_arr in *. destruct e as [[name a] u]. cbn [fst snd] in *.
  destruct (a_payload a); cbn [pv_len pv_missing]; split; assumption.
Qed.

Lemma axis_recs_summary p n : map ax_summary (axis_recs p n) = req_axes p.
Proof. unfold axis_recs, req_axes, axis_rec. destruct (p_t p), (p_z p), (p_y p), (p_x p); reflexivity. Qed.

Theorem spec_honours p iddt : 0 <= p_n p -> accepted_params p iddt -> honours p (mem_view (spec_geff p iddt)).
Proof.
  intros Hn0 Hacc. unfold honours, mem_view.
  cbn [spec_geff g_iddt g_edt g_nprops g_eprops g_meta g_ids g_edges m_axes m_nprops m_eprops m_directed
       gv_ids gv_edges gv_directed gv_iddt gv_edt gv_axes gv_nprops gv_eprops gv_nmeta gv_emeta].
  pose proof (node_entries_wf p iddt Hacc) as Hnw. pose proof (edge_entries_wf p iddt Hacc) as Hew.
  split; [reflexivity|]. split; [apply mock_edges_length; exact Hn0|]. split; [reflexivity|].
  split; [destruct Hacc as [H _]; exact H|]. split; [reflexivity|].
  split; [apply axis_recs_summary|].
  split; [rewrite !map_map; exact (node_entries_summary p iddt Hacc)|].
  split; [rewrite !map_map; exact (edge_entries_summary p)|].
  split; [rewrite (metas_summary _ _ Hnw), (node_entries_summary p iddt Hacc); reflexivity|].
  split; [rewrite (metas_summary _ _ Hew), (edge_entries_summary p); reflexivity|].
  assert (length (arange_ids (p_n p)) = nn p) as -> by (unfold arange_ids; rewrite map_length, seq_length; reflexivity).
  fold (ne p). split.
  - rewrite map_map. apply Forall_map. eapply Forall_impl; [|exact Hnw]. intros e He. apply entry_fits. exact He.
  - rewrite map_map. apply Forall_map. eapply Forall_impl; [|exact Hew]. intros e He. apply entry_fits. exact He.
Qed.

(* ================= the converse: which requests are accepted ================= *)
Lemma add_axis_if_ok inc n name type unit dts pl ps ms axs :
  not_varlen pl -> axis_dtype_ok inc n dts -> (inc = true -> ~ In name (map fst ps)) ->
  add_axis_if inc n name type unit dts pl (ps, ms, axs) =
  Ok (ps ++ map e_kv (axis_entry inc n name unit dts pl),
      ms ++ map meta_of (axis_entry inc n name unit dts pl),
      axs ++ axis_rec inc n name type unit).
Proof.
  intros Hpl Hok Hfresh. unfold add_axis_if, axis_entry, axis_rec. destruct inc.
  - destruct (Hok eq_refl) as [dt [Hdt Hnum]]. unfold add_axis. rewrite Hdt.
    assert (Nat.ltb 0 n && negb (is_numeric dt) = false) as ->.
    { destruct (Nat.ltb 0 n) eqn:E; [|reflexivity]. apply Nat.ltb_lt in E. rewrite (Hnum E). reflexivity. }
    rewrite (cpm_ok name (mk_arr dt n pl) (Some unit) n (mk_arr_wf dt n pl Hpl (np_dtype_storable _ _ Hdt))).
    rewrite dict_set_fresh by (apply Hfresh; reflexivity). reflexivity.
  - cbn. rewrite !app_nil_r. reflexivity.
Qed.

Lemma add_axes_ok p n : axes_dtypes_ok p n ->
  add_axes p n = Ok (map e_kv (axis_entries p n), map meta_of (axis_entries p n), axis_recs p n).
Proof.
  intro H. apply axes_dtypes_each in H. destruct H as [Ht [Hz [Hy Hx]]]. unfold add_axes.
  rewrite (add_axis_if_ok _ _ _ _ _ _ (PTime n) _ _ _ I Ht) by (intros _ []).
  rewrite (add_axis_if_ok _ _ _ _ _ _ (PLin 5 1 n) _ _ _ I Hz) by (fresh_name Hz).
  rewrite (add_axis_if_ok _ _ _ _ _ _ (PLin 1000 5000 n) _ _ _ I Hy) by (fresh_name Hy).
  rewrite (add_axis_if_ok _ _ _ _ _ _ (PLin 10 1 n) _ _ _ I Hx) by (fresh_name Hx).
  unfold axis_entries, axis_recs. cbn [app]. rewrite !map_app, <- !app_assoc. reflexivity.
Qed.

Lemma extra_one_ok reserved count kv : item_ok count kv ->
  (forall name, fst kv = KStr name -> ~ In name reserved) ->
  exists name a, extra_one reserved count kv = Ok (name, a) /\ extra_entry count kv = [(name, upcast_arr a, None)] /\
                 fst kv = KStr name /\ arr_wf count (upcast_arr a).
Proof.
  intros H Hres. destruct (extra_entry_ok count kv H) as [name [a [He [Hk [Hwf _]]]]].
  destruct kv as [[k|] [dts|dt len tail| |elems]]; cbn [item_ok] in H; try contradiction; cbn [fst] in Hk; inversion Hk; subst k.
  - assert (Hr : smem name reserved = false).
    { destruct (smem name reserved) eqn:E; [|reflexivity]. apply smem_In in E. exfalso. exact (Hres name eq_refl E). }
    unfold extra_one. cbn [fst snd]. rewrite Hr. unfold gen_values.
    assert (smem dts prop_dtype_names = true) as -> by (apply smem_In; exact H). cbn [negb].
    cbn [extra_entry] in He |- *. destruct (np_dtype dts) as [dt|]; [|discriminate].
    fold (dtype_payload name dts count). inversion He; subst a.
    eexists _, _. split; [reflexivity|]. rewrite (upcast_id count _ Hwf). split; [reflexivity|]. split; [reflexivity | exact Hwf].
  - assert (Hr : smem name reserved = false).
    { destruct (smem name reserved) eqn:E; [|reflexivity]. apply smem_In in E. exfalso. exact (Hres name eq_refl E). }
    destruct H as [Hlen Hst]. unfold extra_one. cbn [fst snd]. rewrite Hr. subst len. rewrite Nat.eqb_refl.
    cbn [extra_entry] in He |- *. inversion He; subst a.
    eexists _, _. split; [reflexivity|]. rewrite upcast_given. split; [reflexivity|]. split; [reflexivity | exact Hwf].
Qed.

Lemma add_extras_ok reserved count items : forall ps ms,
  Forall (item_ok count) items -> NoDup (map fst ps ++ item_names items) ->
  (forall x, In x (item_names items) -> ~ In x reserved) ->
  add_extras reserved count items ps ms =
  Ok (ps ++ map e_kv (flat_map (extra_entry count) items), ms ++ map meta_of (flat_map (extra_entry count) items)).
Proof.
  induction items as [|kv r IH]; intros ps ms Hok Hnd Hres; cbn [add_extras flat_map map].
  - rewrite !app_nil_r. reflexivity.
  - inversion Hok as [|? ? Hkv Hr]; subst.
    destruct (extra_one_ok reserved count kv Hkv) as [name [a [H1 [H2 [H3 H4]]]]].
    { intros nm Hnm. apply Hres. unfold item_names. cbn [flat_map]. rewrite Hnm. left. reflexivity. }
    rewrite H1. cbv zeta. rewrite (cpm_ok name (upcast_arr a) None count H4), H2.
    assert (Hnames : item_names (kv :: r) = name :: item_names r).
    { unfold item_names. cbn [flat_map]. rewrite H3. reflexivity. }
    rewrite Hnames in Hnd, Hres.
    rewrite dict_set_fresh by (apply NoDup_app_r_fresh in Hnd; exact Hnd).
    rewrite IH; [|exact Hr|rewrite map_app; cbn [map fst]; rewrite <- app_assoc; exact Hnd|intros x Hx; apply Hres; right; exact Hx].
    cbn [app map]. rewrite <- !app_assoc. reflexivity.
Qed.

Lemma with_extras_ok ex reserved count ps ms :
  extras_ok count ex -> NoDup (map fst ps ++ item_names (items_of ex)) ->
  (forall x, In x (item_names (items_of ex)) -> ~ In x reserved) ->
  with_extras ex reserved count ps ms = Ok (ps ++ map e_kv (extra_entries count ex), ms ++ map meta_of (extra_entries count ex)).
Proof.
  intros [Hnd Hok] Hnames Hres. unfold with_extras, extra_entries. destruct ex as [| |items]; cbn [items_of] in *.
  - cbn. rewrite !app_nil_r. reflexivity.
  - contradiction.
  - apply add_extras_ok; assumption.
Qed.

Lemma add_varlen_ok inc n ps ms :
  (inc = true -> (0 < n)%nat) -> (inc = true -> ~ In s_var_length (map fst ps)) ->
  add_varlen inc n ps ms = Ok (ps ++ map e_kv (varlen_entries inc n), ms ++ map meta_of (varlen_entries inc n)).
Proof.
  intros Hn Hf. unfold add_varlen, varlen_entries. destruct inc.
  - rewrite (cpm_ok s_var_length (varlen_prop n) None n) by (apply varlen_prop_wf; apply Hn; reflexivity).
    rewrite dict_set_fresh by (apply Hf; reflexivity). reflexivity.
  - cbn. rewrite !app_nil_r. reflexivity.
Qed.

Lemma add_sparse_ok inc n ne nps nms eps ems :
  (inc = true -> ~ In s_sparse_prop (map fst nps)) -> (inc = true -> ~ In s_sparse_prop (map fst eps)) ->
  add_sparse inc n ne nps nms eps ems =
  Ok (nps ++ map e_kv (sparse_entries inc n), nms ++ map meta_of (sparse_entries inc n),
      eps ++ map e_kv (sparse_entries inc ne), ems ++ map meta_of (sparse_entries inc ne)).
Proof.
  intros Hn He. unfold add_sparse, sparse_entries. destruct inc.
  - rewrite (cpm_ok _ _ None n (sparse_prop_wf n)), (cpm_ok _ _ None ne (sparse_prop_wf ne)).
    rewrite !dict_set_fresh by (first [apply Hn | apply He]; reflexivity). reflexivity.
  - cbn. rewrite !app_nil_r. reflexivity.
Qed.

Theorem dummy_accepts p iddt : names_ok p -> accepted_params p iddt -> dummy p = Ok (spec_geff p iddt).
Proof.
  intros Hnok Hacc. destruct (names_ok_elim p Hnok) as [_ [Hrn Hre]]. destruct Hnok as [Hn He].
  pose proof (node_entries_names p iddt Hacc) as Hnn. pose proof (edge_entries_names p iddt Hacc) as Hen.
  destruct Hacc as [Hid [Hcap [Hax [Hxn [Hxe [Hvl Hnum]]]]]].
  pose proof (axis_entries_names p (nn p) Hax) as Hnames.
  destruct (extra_entries_facts _ _ Hxn) as [Hxnn _]. destruct (extra_entries_facts _ _ Hxe) as [Hxen _].
  unfold dummy. rewrite Hid.
  assert (is_integer iddt && (dt_max iddt + 1 <? p_n p) = false) as ->.
  { destruct (is_integer iddt) eqn:Ei; [|reflexivity]. specialize (Hcap eq_refl). cbn. lia. }
  rewrite Hnum. cbn [negb].
  cbv zeta. fold (nn p). fold (pedges p). fold (ne p).
  rewrite (add_axes_ok p (nn p) Hax).
  rewrite generated_node_eq, generated_edge_eq.
  rewrite (with_extras_ok _ _ _ _ _ Hxn); [| |exact Hrn].
  2:{ rewrite map_fst_e_kv, Hnames. rewrite app_assoc in Hn. apply NoDup_app_l in Hn. exact Hn. }
  rewrite (with_extras_ok _ _ _ _ _ Hxe); [|cbn [map fst app]; apply NoDup_app_l in He; exact He|exact Hre].
  cbn [app].
  rewrite add_varlen_ok; [|exact Hvl|].
  2:{ intros Hv Hin. rewrite map_app, !map_fst_e_kv, Hnames, Hxnn in Hin.
      unfold flag_names_n in Hn. rewrite Hv in Hn. rewrite !app_assoc in Hn. apply NoDup_app_l in Hn.
      rewrite <- app_assoc in Hn. cbn [app] in Hn. rewrite app_assoc in Hn. apply NoDup_app_r_fresh in Hn. exact (Hn Hin). }
  rewrite add_sparse_ok.
  2:{ intros Hm Hin. rewrite !map_app, !map_fst_e_kv, Hnames, Hxnn, varlen_entries_names in Hin.
      unfold flag_names_n in Hn. rewrite Hm in Hn. rewrite !app_assoc in Hn. apply NoDup_app_r_fresh in Hn.
      rewrite <- ?app_assoc in Hn. rewrite <- ?app_assoc in Hin. exact (Hn Hin). }
  2:{ intros Hm Hin. rewrite map_fst_e_kv, Hxen in Hin. unfold flag_names_e in He. rewrite Hm in He.
      apply NoDup_app_r_fresh in He. exact (He Hin). }
  unfold spec_geff, node_entries, edge_entries, arange_ids. fold (nn p).
  rewrite <- !map_app, <- !app_assoc.
  rewrite !add_or_update_fresh.
  - reflexivity.
  - rewrite meta_of_names. fold (edge_entries p). rewrite Hen. exact He.
  - rewrite meta_of_names. fold (node_entries p). rewrite Hnn. exact Hn.
Qed.

(* ================= the theorems of C20 ================= *)
Definition view_valid (v : gview) : Prop := valid_graph (gv_directed v) (gv_ids v) (gv_edges v).

Lemma spec_valid p iddt : view_valid (mem_view (spec_geff p iddt)).
Proof. unfold view_valid, mem_view. cbn. apply mock_edges_valid. Qed.

Lemma view_valid_check v : view_valid v -> graph_valid v = Ok tt.
Proof. unfold view_valid, graph_valid. intro H. apply valid_graph_check in H. rewrite H. reflexivity. Qed.

(* (0 <= num_nodes is part of the statement because the model is the code's meaning for a non-negative count
   only: for a negative one numpy's linspace / zeros raise where the model, which counts in nat, goes on) *)
Theorem dummy_iff p g : req_wf p -> 0 <= p_n p ->
  (dummy p = Ok g <-> exists iddt, (accepted_params p iddt /\ names_ok p) /\ g = spec_geff p iddt).
Proof.
  intros Hw _. split.
  - intro H. destruct (dummy_spec p g Hw H) as [iddt [Hacc [Hn ->]]]. exists iddt. split; [split; assumption | reflexivity].
  - intros [iddt [[Hacc Hn] ->]]. apply dummy_accepts; assumption.
Qed.

(* a contradictory request (an extra property named like a generated one) is never accepted *)
Theorem dummy_rejects_clash p g : req_wf p -> dummy p = Ok g -> names_ok p.
Proof. intros Hw H. destruct (dummy_spec p g Hw H) as [iddt [_ [Hn _]]]. exact Hn. Qed.

Theorem dummy_honours p g : req_wf p -> 0 <= p_n p -> dummy p = Ok g ->
  honours p (mem_view g) /\ view_valid (mem_view g) /\ graph_valid (mem_view g) = Ok tt.
Proof.
  intros Hw H0 H. destruct (dummy_spec p g Hw H) as [iddt [Hacc [_ ->]]].
  split; [apply spec_honours; assumption|]. split; [apply spec_valid|]. apply view_valid_check, spec_valid.
Qed.

Theorem mock_spec p st g : req_wf p -> 0 <= p_n p -> mock p = Ok (st, g) ->
  exists iddt, accepted_params p iddt /\ names_ok p /\ is_integer iddt = true /\ g = spec_geff p iddt /\
               write_arrays g = Ok st /\ store_view st = mem_view g /\ validate_structure st = Ok tt.
Proof.
  intros Hw _ H. unfold mock in H. destruct (dummy p) as [g0|] eqn:Ed; [|discriminate].
  destruct (dummy_spec p g0 Hw Ed) as [iddt [Hacc [Hn ->]]].
  destruct (write_arrays (spec_geff p iddt)) as [st0|] eqn:Ew; [|discriminate].
  assert (Hint : is_integer iddt = true).
  { unfold write_arrays in Ew. cbn [spec_geff g_iddt g_edt] in Ew. rewrite dtype_eqb_refl in Ew. cbn [negb] in Ew.
    destruct (is_integer iddt); [reflexivity | discriminate]. }
  destruct (write_arrays_spec p iddt Hn Hacc Hint) as [st1 [H1 [H2 [H3 [H4 _]]]]].
  rewrite Ew in H1. inversion H1; subst st1; clear H1.
  rewrite H4 in H. inversion H; subst st g; clear H.
  exists iddt. split; [exact Hacc|]. split; [exact Hn|]. split; [exact Hint|]. split; [reflexivity|].
  split; [exact Ew|]. split; [exact H2 | exact H3].
Qed.

Theorem mock_store p st g : req_wf p -> 0 <= p_n p -> mock p = Ok (st, g) ->
  exists iddt, accepted_params p iddt /\ names_ok p /\ is_integer iddt = true /\ st = spec_store p iddt.
Proof.
  intros Hw H0 H. destruct (mock_spec p st g Hw H0 H) as [iddt [Hacc [Hn [Hint [-> [Hwr _]]]]]].
  destruct (write_arrays_spec p iddt Hn Hacc Hint) as [st1 [H1 [_ [_ [_ H5]]]]].
  exists iddt. split; [exact Hacc|]. split; [exact Hn|]. split; [exact Hint | congruence].
Qed.

Theorem mock_accepts p iddt : names_ok p -> accepted_params p iddt -> is_integer iddt = true ->
  exists st, mock p = Ok (st, spec_geff p iddt).
Proof.
  intros Hn Hacc Hint. unfold mock. rewrite (dummy_accepts p iddt Hn Hacc).
  destruct (write_arrays_spec p iddt Hn Hacc Hint) as [st [H1 [_ [_ [H4 _]]]]].
  rewrite H1, H4. exists st. reflexivity.
Qed.

Theorem mock_honours p st g : req_wf p -> 0 <= p_n p -> mock p = Ok (st, g) ->
  store_view st = mem_view g /\ validate_structure st = Ok tt /\
  honours p (mem_view g) /\ view_valid (mem_view g) /\ graph_valid (mem_view g) = Ok tt.
Proof.
  intros Hw H0 H. destruct (mock_spec p st g Hw H0 H) as [iddt [Hacc [_ [_ [-> [_ [Hsame Hval]]]]]]].
  split; [exact Hsame|]. split; [exact Hval|].
  split; [apply spec_honours; assumption|]. split; [apply spec_valid|]. apply view_valid_check, spec_valid.
Qed.

(* ---- a variable-length / a missing-bearing property exactly when requested ---- *)
Definition s_name (s : psummary) : string := fst (fst (fst s)).
Definition s_varlen (s : psummary) : bool := snd (fst s).
Definition s_missing (s : psummary) : bool := snd s.

Lemma filter_map_comm {A B} (f : A -> B) (g : B -> bool) l : filter g (map f l) = map f (filter (fun x => g (f x)) l).
Proof. induction l as [|x r IH]; [reflexivity|]. cbn. destruct (g (f x)); cbn; rewrite IH; reflexivity. Qed.

Lemma req_axis_plain g inc name odt : (forall s, s_varlen s = false -> s_missing s = false -> g s = false) ->
  filter g (req_axis inc name odt) = [].
Proof. intro H. unfold req_axis. destruct inc; [|reflexivity]. destruct odt; [|reflexivity]. cbn. rewrite H; reflexivity. Qed.

Lemma req_extras_plain g items : (forall s, s_varlen s = false -> s_missing s = false -> g s = false) ->
  filter g (flat_map req_extra items) = [].
Proof.
  intro H. induction items as [|kv r IH]; [reflexivity|]. cbn [flat_map]. rewrite filter_app, IH, app_nil_r.
  destruct kv as [[k|] [dts|dt len tail| |elems]]; try reflexivity; cbn [req_extra].
  - destruct (np_dtype dts); [|reflexivity]. cbn. rewrite H; reflexivity.
  - cbn. rewrite H; reflexivity.
Qed.

Lemma req_nprops_varlen p : map s_name (filter s_varlen (req_nprops p)) = if p_varlen p then [s_var_length] else [].
Proof.
  unfold req_nprops. rewrite !filter_app, !req_axis_plain, req_extras_plain by (intros s Hv _; exact Hv).
  unfold req_varlen, req_sparse. destruct (p_varlen p), (p_missing p); reflexivity.
Qed.
Lemma req_nprops_missing p : map s_name (filter s_missing (req_nprops p)) = flag_names_n p.
Proof.
  unfold req_nprops. rewrite !filter_app, !req_axis_plain, req_extras_plain by (intros s _ Hm; exact Hm).
  unfold req_varlen, req_sparse, flag_names_n. destruct (p_varlen p), (p_missing p); reflexivity.
Qed.
Lemma req_eprops_varlen p : filter s_varlen (req_eprops p) = [].
Proof.
  unfold req_eprops. rewrite filter_app, req_extras_plain by (intros s Hv _; exact Hv).
  unfold req_sparse. destruct (p_missing p); reflexivity.
Qed.
Lemma req_eprops_missing p : map s_name (filter s_missing (req_eprops p)) = flag_names_e p.
Proof.
  unfold req_eprops. rewrite filter_app, req_extras_plain by (intros s _ Hm; exact Hm).
  unfold req_sparse, flag_names_e. destruct (p_missing p); reflexivity.
Qed.

Definition pv_has_missing (q : pview) : bool := negb (is_none (pv_missing q)).

Theorem honours_flags p v : honours p v ->
  map pv_name (filter pv_varlen (gv_nprops v)) = (if p_varlen p then [s_var_length] else []) /\
  map pv_name (filter pv_has_missing (gv_nprops v)) = flag_names_n p /\
  filter pv_varlen (gv_eprops v) = [] /\
  map pv_name (filter pv_has_missing (gv_eprops v)) = flag_names_e p.
Proof.
  intros [_ [_ [_ [_ [_ [_ [Hn [He _]]]]]]]].
  pose proof (req_nprops_varlen p) as H1. pose proof (req_nprops_missing p) as H2.
  pose proof (req_eprops_varlen p) as H3. pose proof (req_eprops_missing p) as H4.
  rewrite <- Hn in H1, H2. rewrite <- He in H3, H4.
  rewrite filter_map_comm, map_map in H1, H2, H4. rewrite filter_map_comm in H3.
  split; [exact H1|]. split; [exact H2|]. split; [|exact H4].
  apply map_eq_nil in H3. exact H3.
Qed.

(* ---- the wrappers ---- *)
Lemma simple_names_ok n e d z y x : names_ok (simple_params n e d z y x).
Proof.
  unfold names_ok, axis_names, flag_names_n, flag_names_e. cbn [simple_params p_t p_z p_y p_x p_enp p_eep p_varlen p_missing items_of item_names flat_map fst app].
  split.
  - destruct z, y, x; repeat constructor; cbn; intuition discriminate.
  - repeat constructor; cbn; intuition discriminate.
Qed.

Lemma empty_names_ok d : names_ok (empty_params d).
Proof. unfold names_ok. cbn. split; constructor. Qed.

Lemma simple_req_wf n e d z y x : req_wf (simple_params n e d z y x).
Proof.
  unfold req_wf, dict_keys_ok, plain_items, plain_item. cbn. split; [split; [constructor|]|split; [constructor|]].
  - repeat constructor; cbn; intuition discriminate.
  - repeat constructor.
Qed.
Lemma empty_req_wf d : req_wf (empty_params d).
Proof. unfold req_wf, dict_keys_ok, plain_items. cbn. repeat split; constructor. Qed.

Lemma simple_accepted n e d z y x : 0 <= n <= 2 ^ 64 -> accepted_params (simple_params n e d z y x) DU64.
Proof.
  intro Hn. unfold accepted_params. cbn [simple_params p_id p_n p_enp p_eep p_varlen].
  split; [reflexivity|]. split; [intros _; cbn; lia|]. split.
  - split; intros _; exists DF64; split; reflexivity.
  - split; [split; [discriminate | constructor]|]. split; [|split; [discriminate | reflexivity]].
    split; [discriminate|]. cbn [items_of]. repeat constructor; cbn; tauto.
Qed.

Lemma empty_accepted d : accepted_params (empty_params d) DU64.
Proof.
  unfold accepted_params. cbn [empty_params p_id p_n p_enp p_eep p_varlen].
  split; [reflexivity|]. split; [intros _; cbn; lia|]. split.
  - split; intro H; discriminate H.
  - split; [split; [discriminate | constructor]|]. split; [split; [discriminate | constructor] | split; [discriminate | reflexivity]].
Qed.

Lemma max_possible_spec directed n : 0 <= n ->
  0 <= max_possible directed n /\
  max_possible directed n = Z.of_nat (length (node_pairs directed (Z.to_nat n))).
Proof. intro Hn. split; [apply max_possible_nonneg; exact Hn | symmetry; apply length_node_pairs; exact Hn]. Qed.

Lemma honours_unfold p v : honours p v <->
  gv_ids v = arange_ids (p_n p) /\
  Z.of_nat (length (gv_edges v)) = Z.max 0 (Z.min (p_e p) (max_possible (p_directed p) (p_n p))) /\
  gv_directed v = p_directed p /\
  np_dtype (p_id p) = Some (gv_iddt v) /\ gv_edt v = gv_iddt v /\
  map ax_summary (gv_axes v) = req_axes p /\
  map pv_summary (gv_nprops v) = req_nprops p /\
  map pv_summary (gv_eprops v) = req_eprops p /\
  map pm_summary (gv_nmeta v) = map fst (req_nprops p) /\
  map pm_summary (gv_emeta v) = map fst (req_eprops p) /\
  Forall (fits (length (gv_ids v))) (gv_nprops v) /\
  Forall (fits (length (gv_edges v))) (gv_eprops v).
Proof. reflexivity. Qed.

Lemma wrappers_spec n e d z y x :
  (req_wf (simple_params n e d z y x) /\ names_ok (simple_params n e d z y x)) /\
  (0 <= n <= 2 ^ 64 -> exists st, mock (simple_params n e d z y x) = Ok (st, spec_geff (simple_params n e d z y x) DU64)) /\
  req_eprops (simple_params n e d z y x) = [("score"%string, DF64, false, false); ("color"%string, DI64, false, false)] /\
  req_nprops (simple_params n e d z y x) =
    [(s_t, DF64, false, false)] ++ (if z then [(s_z, DF64, false, false)] else []) ++
    (if y then [(s_y, DF64, false, false)] else []) ++ (if x then [(s_x, DF64, false, false)] else []) /\
  simple_2d n e d = mock (simple_params n e d false true true) /\
  simple_3d n e d = mock (simple_params n e d true true true) /\
  simple_temporal n e d = mock (simple_params n e d false false false).
Proof.
  split; [split; [apply simple_req_wf | apply simple_names_ok]|]. split.
  - intro Hn. apply mock_accepts; [apply simple_names_ok | apply simple_accepted; exact Hn | reflexivity].
  - split; [reflexivity|]. split; [destruct z, y, x; reflexivity|]. repeat split.
Qed.

Lemma empty_spec d :
  (req_wf (empty_params d) /\ names_ok (empty_params d)) /\
  (exists st, empty_geff d = Ok (st, spec_geff (empty_params d) DU64)) /\
  req_nprops (empty_params d) = [] /\ req_eprops (empty_params d) = [] /\ req_axes (empty_params d) = [].
Proof.
  split; [split; [apply empty_req_wf | apply empty_names_ok]|]. split.
  - apply mock_accepts; [apply empty_names_ok | apply empty_accepted | reflexivity].
  - repeat split.
Qed.
