(* C03Lemmas.v -- the round-trip statements of C03 assembled: geff.write of a networkx / rustworkx graph into a
   fresh store, geff.read through the same library, adapter view = the graph that was written. *)
From Geff Require Import Base Dtype DtypeLemmas Vlen VlenLemmas Tree TreeLemmas Validate Write Read RoundTrip WriteLemmas ReadLemmas
     ValidateLayout C01Lemmas Dicts Backends BackendsLemmas DictsLemmas ListColLemmas Names.
From Coq Require Import Lia.
Open Scope string_scope.
Open Scope list_scope.

(* the graph that comes back is the graph that was written: same directedness, same node ids and edges in the same
   order, and on every node / edge exactly the properties it had, with their values and value kinds (cvf v) *)
Definition same_graph (cvf : pyval -> option cval) (d : bool) (g : dgraph) (cg : cgraph) : Prop :=
  cg_directed cg = d /\
  map fst (cg_nodes cg) = map fst (d_nodes g) /\
  map fst (cg_edges cg) = map fst (d_edges g) /\
  (forall i name, i < length (d_nodes g) ->
     alookup name (snd (nth i (cg_nodes cg) (0%Z, []))) = cv_lookup cvf (snd (nth i (d_nodes g) (0%Z, []))) name) /\
  (forall j name, j < length (d_edges g) ->
     alookup name (snd (nth j (cg_edges cg) ((0%Z, 0%Z), []))) = cv_lookup cvf (snd (nth j (d_edges g) ((0%Z, 0%Z), []))) name).

Lemma run_api_write k (m : M unit) post tr :
  m (init None) = (mkst (Some post) tr, Ok tt) -> run (api_write k m) None = (Some post, Ok tt).
Proof. intros H. unfold run, api_write, bind. rewrite (check_for_geff_clean k None I). rewrite H. reflexivity. Qed.

Theorem nx_roundtrip cvf d g mdtok axtok : dom_dicts cvf d g ->
  exists post mg cg,
    run (api_write KObj (nx_write KObj d g None mdtok axtok)) None = (Some post, Ok tt) /\
    validate_structure KObj (Some post) = Ok tt /\
    read_to_memory KObj (Some post) true None None = Ok mg /\
    nx_construct mg = Ok cg /\
    same_graph cvf d g cg.
Proof.
  intros Hdom. destruct (dicts_roundtrip cvf KObj d g mdtok Hdom)
    as [tr [post [mg [cg [Hw [Hval [Hrd [Hwf [Hd [_ [_ [Hc [Hcd [Hn [He [Hna Hea]]]]]]]]]]]]]]]].
  exists post, mg, cg. split; [|split; [exact Hval|split; [exact Hrd|split]]].
  - apply (run_api_write KObj _ post tr). unfold nx_write, fresh_md, bind, lift. exact Hw.
  - eapply nx_construct_canon; eauto.
  - unfold same_graph. repeat split; auto.
    + intros i name Hi. apply Hna. rewrite map_length. exact Hi.
    + intros j name Hj. apply Hea. rewrite map_length. exact Hj.
Qed.

(* rustworkx: the written graph is identified through node_id_dict (rx_target), the read graph through to_rx_id_map *)
Theorem rx_roundtrip cvf d g idmap g' mdtok axtok : rx_target idmap g = Ok g' -> dom_dicts cvf d g' ->
  exists post mg r cg,
    run (api_write KObj (rx_write KObj d g idmap None mdtok axtok)) None = (Some post, Ok tt) /\
    validate_structure KObj (Some post) = Ok tt /\
    read_to_memory KObj (Some post) true None None = Ok mg /\
    rx_construct mg = Ok r /\ canon_rx r = Some cg /\
    same_graph cvf d g' cg.
Proof.
  intros Ht Hdom. destruct (dicts_roundtrip cvf KObj d g' mdtok Hdom)
    as [tr [post [mg [cg [Hw [Hval [Hrd [Hwf [Hd [Hfn [Hfe [Hc [Hcd [Hn [He [Hna Hea]]]]]]]]]]]]]]]].
  destruct (rx_construct_canon mg _ _ cg Hwf Hfn Hfe Hc) as [r [Hr Hcr]].
  exists post, mg, r, cg. split; [|split; [exact Hval|split; [exact Hrd|split; [exact Hr|split; [exact Hcr|]]]]].
  - apply (run_api_write KObj _ post tr). unfold rx_write, fresh_md, bind, lift. rewrite Ht. exact Hw.
  - unfold same_graph. repeat split; auto.
    + intros i name Hi. apply Hna. rewrite map_length. exact Hi.
    + intros j name Hj. apply Hea. rewrite map_length. exact Hj.
Qed.

(* what rx_target does: ids go through node_id_dict (or stay), payloads and edge data are untouched *)
Definition tr_id (idmap : option (list (Z * Z))) (i : Z) : option Z :=
  match idmap with None => Some i | Some m => klookup Z.eqb i m end.

Lemma rx_translate_spec idmap g g' : rx_translate idmap g = Ok g' ->
  map snd (d_nodes g') = map snd (d_nodes g) /\ map snd (d_edges g') = map snd (d_edges g) /\
  map (fun nd => Some (fst nd)) (d_nodes g') = map (fun nd => tr_id idmap (fst nd)) (d_nodes g) /\
  map (fun ed => (Some (fst (fst ed)), Some (snd (fst ed)))) (d_edges g')
  = map (fun ed => (tr_id idmap (fst (fst ed)), tr_id idmap (snd (fst ed)))) (d_edges g).
Proof.
  unfold rx_translate, rbind. intro H.
  match type of H with (match ?m with _ => _ end) = _ => destruct m as [nodes|] eqn:En; [|discriminate] end.
  match type of H with (match ?m with _ => _ end) = _ => destruct m as [edges|] eqn:Ee; [|discriminate] end.
  inversion H; subst g'; clear H. cbn [d_nodes d_edges].
  assert (Hn : map snd nodes = map snd (d_nodes g) /\ map (fun nd => Some (fst nd)) nodes = map (fun nd => tr_id idmap (fst nd)) (d_nodes g)).
  { clear Ee. revert nodes En. induction (d_nodes g) as [|[i a] l IH]; intros nodes En; cbn in En.
    - inversion En. split; reflexivity.
    - unfold tr_id. cbn [fst snd] in *. destruct idmap as [m|].
      + destruct (klookup Z.eqb i m) as [j|] eqn:Ej; [|discriminate].
        match type of En with (match ?mm with _ => _ end) = _ => destruct mm as [r|] eqn:Er; [|discriminate] end.
        inversion En; subst. destruct (IH r eq_refl) as [H1 H2]. cbn. rewrite H1, Ej. unfold tr_id in H2. rewrite H2. split; reflexivity.
      + match type of En with (match ?mm with _ => _ end) = _ => destruct mm as [r|] eqn:Er; [|discriminate] end.
        inversion En; subst. destruct (IH r eq_refl) as [H1 H2]. cbn. rewrite H1. unfold tr_id in H2. rewrite H2. split; reflexivity. }
  assert (He : map snd edges = map snd (d_edges g) /\
               map (fun ed : (Z * Z) * attrs => (Some (fst (fst ed)), Some (snd (fst ed)))) edges
               = map (fun ed => (tr_id idmap (fst (fst ed)), tr_id idmap (snd (fst ed)))) (d_edges g)).
  { clear En Hn. revert edges Ee. induction (d_edges g) as [|[[u v] a] l IH]; intros edges Ee; cbn in Ee.
    - inversion Ee. split; reflexivity.
    - unfold tr_id. cbn [fst snd] in *. destruct idmap as [m|].
      + destruct (klookup Z.eqb u m) as [u'|] eqn:Eu; [|discriminate]. destruct (klookup Z.eqb v m) as [v'|] eqn:Ev; [|discriminate].
        match type of Ee with (match ?mm with _ => _ end) = _ => destruct mm as [r|] eqn:Er; [|discriminate] end.
        inversion Ee; subst. destruct (IH r eq_refl) as [H1 H2]. cbn. rewrite H1, Eu, Ev. unfold tr_id in H2. rewrite H2. split; reflexivity.
      + match type of Ee with (match ?mm with _ => _ end) = _ => destruct mm as [r|] eqn:Er; [|discriminate] end.
        inversion Ee; subst. destruct (IH r eq_refl) as [H1 H2]. cbn. rewrite H1. unfold tr_id in H2. rewrite H2. split; reflexivity. }
  tauto.
Qed.

(* ================= what a property NAME and a string VALUE may be ================= *)
(* Names: Names.name_ok (one path segment that is no reserved member name of zarr).
   String values are interned tokens ("" = 0); numpy stores them in a fixed-width <U array, whose elements LOSE their trailing NUL
   characters ("a\x00" reads back "a", "\x00" reads back ""): the open finding str-trailing-nul-stripped.  The interning convention
   makes that visible: a string with k >= 1 trailing NULs is interned as  token(string without them) + k * nul_base,  so the tokens
   below nul_base are exactly the strings that do not end in NUL, and the round-trip theorems speak about those. *)
Definition nul_base : Z := (2 ^ 32)%Z.
Definition str_tok_ok (t : Z) : bool := ((0 <=? t) && (t <? nul_base))%Z.
Fixpoint strs_ok_val (v : pyval) : bool :=
  match v with
  | PStr t => str_tok_ok t
  | PList l => forallb strs_ok_val l
  | _ => true
  end.
Definition strs_ok (col : list (option pyval)) : bool :=
  forallb (fun o => match o with Some v => strs_ok_val v | None => true end) col.
(* what the code does to such a token (not used by the model, which keeps tokens: the theorems exclude them) *)
Definition nul_stripped (t : Z) : Z := (t mod nul_base)%Z.

(* ================= the explicit domain: scalar attributes ================= *)
(* every property column holds Python scalars that numpy -- with the fill value where an element lacks the property --
   types alike (col_dt): all bool, all ints of the int64 range, all ints of [2^63, 2^64) on every element, all float, all str *)
Record dom_scalar (d : bool) (g : dgraph) : Prop := {
  ds_range : Forall (fun z => (0 <= z < 2 ^ 64)%Z) (map fst (d_nodes g));
  ds_distinct : distinctb Z.eqb (map fst (d_nodes g)) = true;
  ds_edistinct : distinctb (ekey_eqb d) (map fst (d_edges g)) = true;
  ds_endpoints : forall e, In e (map fst (d_edges g)) -> In (fst e) (map fst (d_nodes g)) /\ In (snd e) (map fst (d_nodes g));
  ds_ncols : forall name, In name (keys_of (map snd (d_nodes g))) ->
             name_ok name = true /\ strs_ok (column (map snd (d_nodes g)) name) = true /\
             exists dt, col_dt (column (map snd (d_nodes g)) name) = Some dt;
  ds_ecols : forall name, In name (keys_of (map snd (d_edges g))) ->
             name_ok name = true /\ strs_ok (column (map snd (d_edges g)) name) = true /\
             exists dt, col_dt (column (map snd (d_edges g)) name) = Some dt
}.

Lemma keys_nonempty (data : list attrs) name : In name (keys_of data) -> data <> [].
Proof. intros H E. subst data. destruct H. Qed.

Lemma scalar_cols_ok (data : list attrs) :
  (forall name, In name (keys_of data) -> name <> "" /\ exists dt, col_dt (column data name) = Some dt) ->
  cols_ok cv_scalar data (keys_of data).
Proof.
  intros H. apply Forall_forall. intros name Hin. destruct (H name Hin) as [Hne [dt Hdt]]. split; [exact Hne|].
  assert (Hc : column data name <> []).
  { intro E. apply (keys_nonempty data name Hin). apply length_zero_iff_nil. rewrite <- (column_length data name), E. reflexivity. }
  destruct (scalar_column _ dt Hdt Hc) as [p [Hp [Hg _]]]. exists p. auto.
Qed.

Lemma dom_scalar_dicts d g : dom_scalar d g -> dom_dicts cv_scalar d g.
Proof. intros H. constructor; try apply H.
  - apply scalar_cols_ok. intros name Hin. destruct (ds_ncols _ _ H name Hin) as [Hn [_ Hd]]. split; [apply name_ok_nonempty; exact Hn | exact Hd].
  - apply scalar_cols_ok. intros name Hin. destruct (ds_ecols _ _ H name Hin) as [Hn [_ Hd]]. split; [apply name_ok_nonempty; exact Hn | exact Hd]. Qed.

(* the whole round trip as one function of the written graph *)
Definition nx_rt (d : bool) (g : dgraph) (mdtok axtok : Z) : res cgraph :=
  let (post, r) := run (api_write KObj (nx_write KObj d g None mdtok axtok)) None in
  match r with
  | Err e => Err e
  | Ok _ => match read_to_memory KObj post true None None with
            | Err e => Err e
            | Ok mg => nx_construct mg
            end
  end.

Definition rx_rt (d : bool) (g : dgraph) (idmap : option (list (Z * Z))) (mdtok axtok : Z) : res cgraph :=
  let (post, r) := run (api_write KObj (rx_write KObj d g idmap None mdtok axtok)) None in
  match r with
  | Err e => Err e
  | Ok _ => match read_to_memory KObj post true None None with
            | Err e => Err e
            | Ok mg => match rx_construct mg with
                       | Err e => Err e
                       | Ok r => match canon_rx r with Some cg => Ok cg | None => Err OtherExn end
                       end
            end
  end.

Theorem nx_rt_scalar d g mdtok axtok : dom_scalar d g ->
  exists cg, nx_rt d g mdtok axtok = Ok cg /\ same_graph cv_scalar d g cg.
Proof. intros H. destruct (nx_roundtrip cv_scalar d g mdtok axtok (dom_scalar_dicts d g H)) as [post [mg [cg [Hw [_ [Hr [Hc Hs]]]]]]].
  exists cg. split; [|exact Hs]. unfold nx_rt. rewrite Hw, Hr. exact Hc. Qed.

Theorem rx_rt_scalar d g idmap g' mdtok axtok : rx_target idmap g = Ok g' -> dom_scalar d g' ->
  exists cg, rx_rt d g idmap mdtok axtok = Ok cg /\ same_graph cv_scalar d g' cg.
Proof. intros Ht H. destruct (rx_roundtrip cv_scalar d g idmap g' mdtok axtok Ht (dom_scalar_dicts d g' H))
    as [post [mg [r [cg [Hw [_ [Hr [Hc [Hcr Hs]]]]]]]]].
  exists cg. split; [|exact Hs]. unfold rx_rt. rewrite Hw, Hr, Hc, Hcr. reflexivity. Qed.

(* the fill value has the type of the value it stands in for (bool before int) *)
Lemma default_kind v : sk_of_py (default_for_value v) = sk_of_py v /\ (is_plist v = false -> scalar_payload (default_for_value v) = 0%Z).
Proof. destruct v; cbn; auto. Qed.

(* ---------- the property text without the int64 guard is false: a computed witness ---------- *)
(* "plain" columns: the present values are scalars of one Python type, ints anywhere in [-2^63, 2^64) *)
Definition plain_col (col : list (option pyval)) : Prop :=
  exists k, forall v, In (Some v) col -> sk_of_py v = Some k /\ forall z, v = PInt z -> (- 2 ^ 63 <= z < 2 ^ 64)%Z.

Record dom_plain (d : bool) (g : dgraph) : Prop := {
  dp_range : Forall (fun z => (0 <= z < 2 ^ 64)%Z) (map fst (d_nodes g));
  dp_distinct : distinctb Z.eqb (map fst (d_nodes g)) = true;
  dp_edistinct : distinctb (ekey_eqb d) (map fst (d_edges g)) = true;
  dp_endpoints : forall e, In e (map fst (d_edges g)) -> In (fst e) (map fst (d_nodes g)) /\ In (snd e) (map fst (d_nodes g));
  dp_ncols : forall name, In name (keys_of (map snd (d_nodes g))) ->
             name_ok name = true /\ strs_ok (column (map snd (d_nodes g)) name) = true /\ plain_col (column (map snd (d_nodes g)) name);
  dp_ecols : forall name, In name (keys_of (map snd (d_edges g))) ->
             name_ok name = true /\ strs_ok (column (map snd (d_edges g)) name) = true /\ plain_col (column (map snd (d_edges g)) name)
}.

Definition nx_roundtrip_full : Prop :=
  forall d g mdtok axtok, dom_plain d g -> exists cg, nx_rt d g mdtok axtok = Ok cg /\ same_graph cv_scalar d g cg.

Definition ex_big : dgraph := mkdg [(1%Z, [("p", PInt 1)]); (2%Z, [("p", PInt (2 ^ 63))])] [].
Definition ex_big_missing : dgraph := mkdg [(1%Z, [("p", PInt (2 ^ 63 + 5))]); (2%Z, [])] [].

Lemma ex_big_plain : dom_plain true ex_big.
Proof. constructor.
  - repeat constructor; cbn; lia.
  - reflexivity.
  - reflexivity.
  - intros e [].
  - intros name Hin. vm_compute in Hin. destruct Hin as [<-|[]]. split; [reflexivity|]. split; [reflexivity|].
    exists SInt. intros v Hv. vm_compute in Hv. destruct Hv as [Hv|[Hv|[]]]; inversion Hv; subst; (split; [reflexivity|]); intros z Hz; inversion Hz; subst; lia.
  - intros name [].
Qed.

Lemma ex_big_result : nx_rt true ex_big 0 0
  = Ok (mkcg true [(1%Z, [("p", CScalar SFloat 1024)]); (2%Z, [("p", CScalar SFloat (2 ^ 63 * 1024))])] []).
Proof. vm_compute. reflexivity. Qed.

Theorem nx_roundtrip_refuted : ~ nx_roundtrip_full.
Proof.
  intro H. destruct (H true ex_big 0%Z 0%Z ex_big_plain) as [cg [Hrt [_ [_ [_ [Hn _]]]]]].
  rewrite ex_big_result in Hrt. inversion Hrt; subst cg. specialize (Hn 0%nat "p" ltac:(cbn; lia)).
  vm_compute in Hn. discriminate.
Qed.

(* the same with an element that merely lacks the property: the fill value 0 is an int64 *)
Lemma ex_big_missing_result : nx_rt true ex_big_missing 0 0
  = Ok (mkcg true [(1%Z, [("p", CScalar SFloat (2 ^ 63 * 1024))]); (2%Z, [])] []).
Proof. vm_compute. reflexivity. Qed.

(* ================= the full value domain: scalars, fixed-shape lists, ragged lists ================= *)
Record dom_values (d : bool) (g : dgraph) : Prop := {
  dv_range : Forall (fun z => (0 <= z < 2 ^ 64)%Z) (map fst (d_nodes g));
  dv_distinct : distinctb Z.eqb (map fst (d_nodes g)) = true;
  dv_edistinct : distinctb (ekey_eqb d) (map fst (d_edges g)) = true;
  dv_endpoints : forall e, In e (map fst (d_edges g)) -> In (fst e) (map fst (d_nodes g)) /\ In (snd e) (map fst (d_nodes g));
  dv_ncols : forall name, In name (keys_of (map snd (d_nodes g))) ->
             name_ok name = true /\ strs_ok (column (map snd (d_nodes g)) name) = true /\ val_col (column (map snd (d_nodes g)) name);
  dv_ecols : forall name, In name (keys_of (map snd (d_edges g))) ->
             name_ok name = true /\ strs_ok (column (map snd (d_edges g)) name) = true /\ val_col (column (map snd (d_edges g)) name)
}.

Lemma dom_values_dicts d g : dom_values d g -> dom_dicts cv_of_py d g.
Proof. intros H. constructor; try apply H.
  - apply values_cols_ok. intros name Hin. destruct (dv_ncols _ _ H name Hin) as [Hn [_ Hv]]. split; [apply name_ok_nonempty; exact Hn | exact Hv].
  - apply values_cols_ok. intros name Hin. destruct (dv_ecols _ _ H name Hin) as [Hn [_ Hv]]. split; [apply name_ok_nonempty; exact Hn | exact Hv]. Qed.

Lemma dom_scalar_values d g : dom_scalar d g -> dom_values d g.
Proof. intros H. constructor; try apply H.
  - intros name Hin. destruct (ds_ncols _ _ H name Hin) as [Hne [Hs Hd]]. split; [exact Hne|]. split; [exact Hs|]. split; [|left; exact Hd].
    intro E. apply (keys_nonempty _ name Hin). apply length_zero_iff_nil. rewrite <- (column_length _ name), E. reflexivity.
  - intros name Hin. destruct (ds_ecols _ _ H name Hin) as [Hne [Hs Hd]]. split; [exact Hne|]. split; [exact Hs|]. split; [|left; exact Hd].
    intro E. apply (keys_nonempty _ name Hin). apply length_zero_iff_nil. rewrite <- (column_length _ name), E. reflexivity. Qed.

Theorem nx_rt_values d g mdtok axtok : dom_values d g ->
  exists cg, nx_rt d g mdtok axtok = Ok cg /\ same_graph cv_of_py d g cg.
Proof. intros H. destruct (nx_roundtrip cv_of_py d g mdtok axtok (dom_values_dicts d g H)) as [post [mg [cg [Hw [_ [Hr [Hc Hs]]]]]]].
  exists cg. split; [|exact Hs]. unfold nx_rt. rewrite Hw, Hr. exact Hc. Qed.

Theorem rx_rt_values d g idmap g' mdtok axtok : rx_target idmap g = Ok g' -> dom_values d g' ->
  exists cg, rx_rt d g idmap mdtok axtok = Ok cg /\ same_graph cv_of_py d g' cg.
Proof. intros Ht H. destruct (rx_roundtrip cv_of_py d g idmap g' mdtok axtok Ht (dom_values_dicts d g' H))
    as [post [mg [r [cg [Hw [_ [Hr [Hc [Hcr Hs]]]]]]]]].
  exists cg. split; [|exact Hs]. unfold rx_rt. rewrite Hw, Hr, Hc, Hcr. reflexivity. Qed.

(* an empty list next to an int list: numpy types [] as float64, the whole ragged column becomes float64 (open finding) *)
Definition ex_empty_list : dgraph :=
  mkdg [(1%Z, [("p", PList [PInt (2 ^ 53 + 1); PInt (-128)])]); (2%Z, [("p", PList [])])] [].
Lemma ex_empty_list_result : nx_rt true ex_empty_list 0 0
  = Ok (mkcg true [(1%Z, [("p", CArr SFloat [2%nat] [2 ^ 53 * 1024; -128 * 1024]%Z)]); (2%Z, [("p", CArr SFloat [0%nat] [])])] []).
Proof. vm_compute. reflexivity. Qed.
