(* C03Lemmas.v -- the round-trip statements of C03 assembled: geff.write of a networkx / rustworkx graph into a
   fresh store, geff.read through the same library, adapter view = the graph that was written. *)
From Geff Require Import Base Dtype DtypeLemmas Vlen VlenLemmas Tree TreeLemmas Validate Write Read RoundTrip WriteLemmas ReadLemmas
     ValidateLayout C01Lemmas Dicts Backends BackendsLemmas DictsLemmas.
From Coq Require Import Lia.
Open Scope string_scope.
Open Scope list_scope.

(* the graph that comes back is the graph that was written: same directedness, same node ids and edges in the same
   order, and on every node / edge exactly the properties it had, with their values and value kinds (cvf v) *)
Definition same_graph (cvf : pyval -> option cval) (d : bool) (g : dgraph) (cg : cgraph) : Prop :=
  cg_directed cg = d /\
  map fst (cg_nodes cg) = map fst (d_nodes g) /\
  map fst (cg_edges cg) = map fst (d_edges g) /\
  (forall i name, i < length (d_nodes g) ->
     alookup name (snd (nth i (cg_nodes cg) (0%Z, []))) = cv_lookup cvf (snd (nth i (d_nodes g) (0%Z, []))) name) /\
  (forall j name, j < length (d_edges g) ->
     alookup name (snd (nth j (cg_edges cg) ((0%Z, 0%Z), []))) = cv_lookup cvf (snd (nth j (d_edges g) ((0%Z, 0%Z), []))) name).

Lemma run_api_write k (m : M unit) post tr :
  m (init None) = (mkst (Some post) tr, Ok tt) -> run (api_write k m) None = (Some post, Ok tt).
Proof. intros H. unfold run, api_write, bind. rewrite (check_for_geff_clean k None I). rewrite H. reflexivity. Qed.

Theorem nx_roundtrip cvf d g mdtok axtok : dom_dicts cvf d g ->
  exists post mg cg,
    run (api_write KObj (nx_write KObj d g None mdtok axtok)) None = (Some post, Ok tt) /\
    validate_structure KObj (Some post) = Ok tt /\
    read_to_memory KObj (Some post) true None None = Ok mg /\
    nx_construct mg = Ok cg /\
    same_graph cvf d g cg.
Proof.
  intros Hdom. destruct (dicts_roundtrip cvf KObj d g mdtok Hdom)
    as [tr [post [mg [cg [Hw [Hval [Hrd [Hwf [Hd [_ [_ [Hc [Hcd [Hn [He [Hna Hea]]]]]]]]]]]]]]]].
  exists post, mg, cg. split; [|split; [exact Hval|split; [exact Hrd|split]]].
  - apply (run_api_write KObj _ post tr). unfold nx_write, fresh_md, bind, lift. exact Hw.
  - eapply nx_construct_canon; eauto.
  - unfold same_graph. repeat split; auto.
    + intros i name Hi. apply Hna. rewrite map_length. exact Hi.
    + intros j name Hj. apply Hea. rewrite map_length. exact Hj.
Qed.

(* rustworkx: the written graph is identified through node_id_dict (rx_target), the read graph through to_rx_id_map *)
Theorem rx_roundtrip cvf d g idmap g' mdtok axtok : rx_target idmap g = Ok g' -> dom_dicts cvf d g' ->
  exists post mg r cg,
    run (api_write KObj (rx_write KObj d g idmap None mdtok axtok)) None = (Some post, Ok tt) /\
    validate_structure KObj (Some post) = Ok tt /\
    read_to_memory KObj (Some post) true None None = Ok mg /\
    rx_construct mg = Ok r /\ canon_rx r = Some cg /\
    same_graph cvf d g' cg.
Proof.
  intros Ht Hdom. destruct (dicts_roundtrip cvf KObj d g' mdtok Hdom)
    as [tr [post [mg [cg [Hw [Hval [Hrd [Hwf [Hd [Hfn [Hfe [Hc [Hcd [Hn [He [Hna Hea]]]]]]]]]]]]]]]].
  destruct (rx_construct_canon mg _ _ cg Hwf Hfn Hfe Hc) as [r [Hr Hcr]].
  exists post, mg, r, cg. split; [|split; [exact Hval|split; [exact Hrd|split; [exact Hr|split; [exact Hcr|]]]]].
  - apply (run_api_write KObj _ post tr). unfold rx_write, fresh_md, bind, lift. rewrite Ht. exact Hw.
  - unfold same_graph. repeat split; auto.
    + intros i name Hi. apply Hna. rewrite map_length. exact Hi.
    + intros j name Hj. apply Hea. rewrite map_length. exact Hj.
Qed.

(* what rx_target does: ids go through node_id_dict (or stay), payloads and edge data are untouched *)
Definition tr_id (idmap : option (list (Z * Z))) (i : Z) : option Z :=
  match idmap with None => Some i | Some m => klookup Z.eqb i m end.

Lemma rx_translate_spec idmap g g' : rx_translate idmap g = Ok g' ->
  map snd (d_nodes g') = map snd (d_nodes g) /\ map snd (d_edges g') = map snd (d_edges g) /\
  map (fun nd => Some (fst nd)) (d_nodes g') = map (fun nd => tr_id idmap (fst nd)) (d_nodes g) /\
  map (fun ed => (Some (fst (fst ed)), Some (snd (fst ed)))) (d_edges g')
  = map (fun ed => (tr_id idmap (fst (fst ed)), tr_id idmap (snd (fst ed)))) (d_edges g).
Proof.
  unfold rx_translate, rbind. intro H.
  match type of H with (match ?m with _ => _ end) = _ => destruct m as [nodes|] eqn:En; [|discriminate] end.
  match type of H with (match ?m with _ => _ end) = _ => destruct m as [edges|] eqn:Ee; [|discriminate] end.
  inversion H; subst g'; clear H. cbn [d_nodes d_edges].
  assert (Hn : map snd nodes = map snd (d_nodes g) /\ map (fun nd => Some (fst nd)) nodes = map (fun nd => tr_id idmap (fst nd)) (d_nodes g)).
  { clear Ee. revert nodes En. induction (d_nodes g) as [|[i a] l IH]; intros nodes En; cbn in En.
    - inversion En. split; reflexivity.
    - unfold tr_id. cbn [fst snd] in *. destruct idmap as [m|].
      + destruct (klookup Z.eqb i m) as [j|] eqn:Ej; [|discriminate].
        match type of En with (match ?mm with _ => _ end) = _ => destruct mm as [r|] eqn:Er; [|discriminate] end.
        inversion En; subst. destruct (IH r eq_refl) as [H1 H2]. cbn. rewrite H1, Ej. unfold tr_id in H2. rewrite H2. split; reflexivity.
      + match type of En with (match ?mm with _ => _ end) = _ => destruct mm as [r|] eqn:Er; [|discriminate] end.
        inversion En; subst. destruct (IH r eq_refl) as [H1 H2]. cbn. rewrite H1. unfold tr_id in H2. rewrite H2. split; reflexivity. }
  assert (He : map snd edges = map snd (d_edges g) /\
               map (fun ed : (Z * Z) * attrs => (Some (fst (fst ed)), Some (snd (fst ed)))) edges
               = map (fun ed => (tr_id idmap (fst (fst ed)), tr_id idmap (snd (fst ed)))) (d_edges g)).
  { clear En Hn. revert edges Ee. induction (d_edges g) as [|[[u v] a] l IH]; intros edges Ee; cbn in Ee.
    - inversion Ee. split; reflexivity.
    - unfold tr_id. cbn [fst snd] in *. destruct idmap as [m|].
      + destruct (klookup Z.eqb u m) as [u'|] eqn:Eu; [|discriminate]. destruct (klookup Z.eqb v m) as [v'|] eqn:Ev; [|discriminate].
        match type of Ee with (match ?mm with _ => _ end) = _ => destruct mm as [r|] eqn:Er; [|discriminate] end.
        inversion Ee; subst. destruct (IH r eq_refl) as [H1 H2]. cbn. rewrite H1, Eu, Ev. unfold tr_id in H2. rewrite H2. split; reflexivity.
      + match type of Ee with (match ?mm with _ => _ end) = _ => destruct mm as [r|] eqn:Er; [|discriminate] end.
        inversion Ee; subst. destruct (IH r eq_refl) as [H1 H2]. cbn. rewrite H1. unfold tr_id in H2. rewrite H2. split; reflexivity. }
  tauto.
Qed.
