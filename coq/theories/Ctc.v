(* Ctc.v -- model of geff.convert._ctc.from_ctc_to_geff (as repaired: the "z" column exists
   whenever the frames are 3-D, a one-row track table is a table, a graph without links gets a
   (0,2) edge array).

   Abstraction boundary: skimage.measure.regionprops.  A frame is the list it returns, one entry per
   label present, (label, centroid); centroids are float payloads (value * 2^10, Dtype.v) given in
   array-axis order (z, y, x) -- the z entry is ignored for 2-D frames.  tifffile, dask and the pixel
   content of the exported label volume are runtime (oracle-only); the shape of that volume, whether and
   with which relative path the related object is recorded, are modelled.

   The converter ends in write_arrays (Write.v); the observable is read_to_memory (Read.v) of what
   it left at the target.  Model only; proofs in CtcLemmas.v. *)
From Geff Require Import Base Dtype Vlen Tree Validate Write Read GraphVal.
From Geff.Gen Require Import Consts.
Open Scope string_scope.
Open Scope list_scope.
Open Scope Z_scope.

(* ---------- the dataset ---------- *)
Record cent := mkcent { c_z : Z; c_y : Z; c_x : Z }.
Definition region := (Z * cent)%type.                 (* obj.label, obj.centroid *)
Definition frame := list region.
Record row := mkrow { r_L : Z; r_B : Z; r_E : Z; r_P : Z }.   (* one line of man_track.txt / res_track.txt *)

(* segmentation_store: None | Path/str | a store object (with its root directory, if it has one) *)
Inductive segtarget := SegNone | SegPath (p : list string) | SegStore (root : option (list string)).

Record ctc := mkctc {
  d_dir : bool;                      (* ctc_path exists *)
  d_table : option (list row);       (* the track table, None when neither file exists *)
  d_is3d : bool;                     (* frame.ndim == 3 *)
  d_fshape : list nat;               (* frame.shape *)
  d_frames : list frame;             (* sorted *.tif files through regionprops *)
  d_geff : list string;              (* components of the absolute geff path (suffix .geff applied) *)
  d_seg : segtarget;
  d_seg_exists : bool;               (* the segmentation target already holds an array *)
  d_tczyx : bool;
  d_overwrite : bool }.

(* ---------- the frame loop: node numbering and property columns ---------- *)
Record cnode := mkcn { n_id : Z; n_t : Z; n_lab : Z; n_c : cent }.

Fixpoint enum_frame (t id : Z) (f : frame) : list cnode :=
  match f with
  | [] => []
  | (l, c) :: r => mkcn id t l c :: enum_frame t (id + 1) r
  end.
Fixpoint enum_frames (t id : Z) (fs : list frame) : list cnode :=
  match fs with
  | [] => []
  | f :: r => enum_frame t id f ++ enum_frames (t + 1) (id + Z.of_nat (length f)) r
  end.
Definition nodes_of (fs : list frame) : list cnode := enum_frames 0 0 fs.

(* tracks: dict label -> node ids in order of appearance (insertion-ordered) *)
Definition tracks := list (Z * list Z).
Fixpoint track_add (tr : tracks) (l id : Z) : tracks :=
  match tr with
  | [] => [(l, [id])]
  | (k, ids) :: r => if k =? l then (k, ids ++ [id]) :: r else (k, ids) :: track_add r l id
  end.
Definition build_tracks (ns : list cnode) : tracks :=
  fold_left (fun tr n => track_add tr (n_lab n) (n_id n)) ns [].
Fixpoint tlookup (l : Z) (tr : tracks) : option (list Z) :=
  match tr with
  | [] => None
  | (k, ids) :: r => if k =? l then Some ids else tlookup l r
  end.

(* edges between consecutive occurrences: for i in range(len(ids) - 1): (ids[i], ids[i+1]) *)
Fixpoint consec {A} (ids : list A) : list (A * A) :=
  match ids with
  | a :: r => match r with b :: _ => (a, b) :: consec r | [] => [] end
  | [] => []
  end.
Definition track_edges (tr : tracks) : list edge := flat_map (fun kv => consec (snd kv)) tr.

(* one table row with a parent: (tracks[parent][-1], tracks[child][0]) *)
Definition link_edge (tr : tracks) (r : row) : res edge :=
  match tlookup (r_L r) tr with
  | None => Err KeyError
  | Some cs =>
      match tlookup (r_P r) tr with
      | None => Err KeyError
      | Some ps => Ok (last ps 0, hd 0 cs)
      end
  end.
Definition with_parent (rows : list row) : list row := filter (fun r => 0 <? r_P r) rows.

(* ---------- what is handed to write_arrays ---------- *)
Definition col (dt : dtype) (f : cnode -> Z) (ns : list cnode) : prop :=
  mkprop (PFixed (mkarr dt [length ns] (map f ns))) None.

Definition ctc_props (is3d : bool) (ns : list cnode) : props :=
  [("tracklet_id", col DI64 n_lab ns); ("t", col DI64 n_t ns);
   ("x", col DF64 (fun n => c_x (n_c n)) ns); ("y", col DF64 (fun n => c_y (n_c n)) ns)]
  ++ (if is3d then [("z", col DF64 (fun n => c_z (n_c n)) ns)] else []).

Definition flat_edges (es : list edge) : list Z := flat_map (fun e => [fst e; snd e]) es.

Definition ctc_wgraph (is3d : bool) (ns : list cnode) (es : list edge) : wgraph :=
  mkwg (mkarr DU64 [length ns] (map n_id ns))
       (mkarr DU64 [length es; 2%nat] (flat_edges es))
       (Some (ctc_props is3d ns))
       (Some []).

(* axis type carried in the opaque axis token: 1 = time, 2 = space *)
Definition tok_time : Z := 1.
Definition tok_space : Z := 2.
Definition ctc_axes (is3d : bool) : list axis :=
  mkax "t" None None tok_time ::
  (if is3d then [mkax "z" None None tok_space] else []) ++
  [mkax "y" None None tok_space; mkax "x" None None tok_space].
Definition ctc_md (is3d : bool) : smeta := mkmd true (Some (ctc_axes is3d)) [] [] 0.

(* the graph logic between the existence checks and write_arrays *)
Definition graph_edges (ns : list cnode) (rows : list row) : res (list edge) :=
  let tr := build_tracks ns in
  match mapM (link_edge tr) (with_parent rows) with
  | Err e => Err e
  | Ok links => Ok (track_edges tr ++ links)
  end.

Definition convert (d : ctc) : res (wgraph * smeta) :=
  let ns := nodes_of (d_frames d) in
  match ns with
  | [] => Err ValueError                               (* "No nodes found in the CTC directory" *)
  | _ =>
      match d_table d with
      | None => Err FileNotFoundError
      | Some rows =>
          match graph_edges ns rows with
          | Err e => Err e
          | Ok es => Ok (ctc_wgraph (d_is3d d) ns es, ctc_md (d_is3d d))
          end
      end
  end.

(* ---------- segmentation volume and related object ---------- *)
Definition seg_requested (d : ctc) : bool := match d_seg d with SegNone => false | _ => true end.

(* (len(sorted_files), *n_1_padding, *frame.shape), n_1_padding = (1,) * (5 - frame.ndim - 1) when tczyx *)
Definition seg_shape (d : ctc) : list nat :=
  length (d_frames d) ::
  (if d_tczyx d then repeat 1%nat (5 - length (d_fshape d) - 1)%nat else []) ++ d_fshape d.

(* os.path.relpath(path, start) on absolute, normalised component lists *)
Fixpoint common_len (a b : list string) : nat :=
  match a, b with
  | x :: a', y :: b' => if String.eqb x y then S (common_len a' b') else O
  | _, _ => O
  end.
Definition relpath (path start : list string) : list string :=
  let i := common_len start path in
  match repeat ".." (length start - i) ++ skipn i path with
  | [] => ["."]
  | l => l
  end.
(* resolving a relative path against a directory: os.path.normpath(os.path.join(start, rel)) *)
Definition norm_step (acc : list string) (c : string) : list string :=
  if String.eqb c "." then acc
  else if String.eqb c ".." then removelast acc
  else acc ++ [c].
Definition resolve (start rel : list string) : list string := fold_left norm_step rel start.

(* the RelatedObject recorded in the metadata: (type, path, label_prop) *)
Definition related (d : ctc) : list (string * list string * option string) :=
  match d_seg d with
  | SegNone => []
  | SegPath p => [("labels", relpath p (d_geff d), Some "tracklet_id")]
  | SegStore (Some p) => [("labels", relpath p (d_geff d), Some "tracklet_id")]
  | SegStore None => []                               (* no .root: warning, nothing recorded *)
  end.

(* ---------- from_ctc_to_geff on the target tree ---------- *)
Open Scope m_scope.
Definition from_ctc_to_geff (d : ctc) : M unit :=
  if negb (d_dir d) then fail FileNotFoundError
  else match d_table d with
  | None => fail FileNotFoundError
  | Some _ =>
      do ex <- check_for_geff KPath;
      (if ex then (if d_overwrite d then delete_geff KPath else fail FileExistsError) else ret tt) ;;
      (* first loop iteration: zarr.open_array(segmentation_store, mode = "w" if overwrite else "w-") *)
      (if seg_requested d && negb (match d_frames d with [] => true | _ => false end)
          && d_seg_exists d && negb (d_overwrite d)
       then fail FileExistsError else ret tt) ;;
      do gm <- lift (convert d);
      write_arrays KPath (fst gm) (snd gm) true false
  end.

(* what the caller sees beside the graph *)
Record cextra := mkcx {
  x_tracklet : option string;                                   (* track_node_props["tracklet"] *)
  x_related : list (string * list string * option string);
  x_seg_shape : option (list nat) }.

Definition extra_of (d : ctc) : cextra :=
  mkcx (Some "tracklet_id") (related d) (if seg_requested d then Some (seg_shape d) else None).

(* the node labelling declared as tracklet annotation, and the edges, read off a converted graph *)
Definition labelled (ns : list cnode) : list (Z * Z) := map (fun n => (n_id n, n_lab n)) ns.
