(* TrackMateFast.v -- a decision procedure for `tracks_connected` that the correspondence can afford on documents with
   hundreds of spots.  `tracks_connectedb` (TrackMateProps.v) recomputes a fuelled reachability set for every pair of linked
   spots (about |V|^5 steps); here the links are merged one after the other into a table spot -> representative
   (|E| * |V| steps), and two spots of one track must end with the same representative.

   Sound (tracks_connected_fast_sound), which is what the harness needs: it evaluates `premises_fast` on every generated
   document and compares with what the generator meant.  No completeness claim (none is needed: on a connected document a
   `false` answer would show up as a mismatch of the correspondence). *)
From Coq Require Import Relations.
From Geff Require Import Base Dtype Tree Reach Tracks TrackMate TrackMateLemmas TrackMateProps.
Open Scope Z_scope.
Open Scope list_scope.

Definition ltab := list (Z * Z).                         (* spot id -> representative *)
Fixpoint zlookup (n : Z) (m : ltab) : option Z :=
  match m with
  | [] => None
  | (k, r) :: m' => if k =? n then Some r else zlookup n m'
  end.
Definition rep (m : ltab) (n : Z) : Z := match zlookup n m with Some r => r | None => n end.

Definition relabel (b a : Z) (m : ltab) : ltab := map (fun kv => (fst kv, if snd kv =? b then a else snd kv)) m.
(* one link: the class of its target joins the class of its source (links to unknown spots are skipped) *)
Definition merge (V : list Z) (m : ltab) (e : edge) : ltab :=
  if memb (fst e) V && memb (snd e) V
  then let a := rep m (fst e) in let b := rep m (snd e) in if a =? b then m else relabel b a m
  else m.
Definition classes (V : list Z) (E : list edge) : ltab := fold_left (merge V) E (map (fun n => (n, n)) V).

(* every entry is joined to its representative *)
Definition tab_ok (E : list edge) (V : list Z) (m : ltab) : Prop := forall n r, In (n, r) m -> conn E V n r.

Lemma zlookup_In n m r : zlookup n m = Some r -> In (n, r) m.
Proof.
  induction m as [|[k r'] m IH]; cbn; [discriminate|]. destruct (k =? n) eqn:Ek.
  - intros H. inversion H; subst. apply Z.eqb_eq in Ek. subst. left; reflexivity.
  - intros H. right. apply IH; exact H.
Qed.

Lemma rep_conn E V m n : tab_ok E V m -> conn E V n (rep m n).
Proof.
  intros Hm. unfold rep. destruct (zlookup n m) as [r|] eqn:El; [|apply rt_refl].
  apply Hm. apply zlookup_In; exact El.
Qed.

Lemma merge_ok E V m e : In e E -> tab_ok E V m -> tab_ok E V (merge V m e).
Proof.
  intros He Hm. unfold merge. destruct (memb (fst e) V && memb (snd e) V) eqn:Em; [|exact Hm].
  apply andb_true_iff in Em. destruct Em as [Hu Hv]. apply memb_In in Hu, Hv.
  destruct (rep m (fst e) =? rep m (snd e)) eqn:Er; [exact Hm|].
  intros n r Hin. unfold relabel in Hin. apply in_map_iff in Hin. destruct Hin as [[k r0] [Heq Hin]]. cbn in Heq.
  inversion Heq; subst n. clear Heq. pose proof (Hm k r0 Hin) as Hk.
  destruct (r0 =? rep m (snd e)) eqn:Eb.
  - apply Z.eqb_eq in Eb. subst r0. subst r.
    (* k ~ rep(snd e) ~ snd e ~ fst e ~ rep(fst e) *)
    apply (conn_trans E V k (rep m (snd e))); [exact Hk|].
    apply (conn_trans E V _ (snd e)); [apply conn_sym; apply rep_conn; exact Hm|].
    apply (conn_trans E V _ (fst e)); [|apply rep_conn; exact Hm].
    apply rt_step. split; [exact Hv|]. split; [exact Hu|]. right. destruct e; exact He.
  - subst r. exact Hk.
Qed.

Lemma fold_merge_ok E V : forall E' m, incl E' E -> tab_ok E V m -> tab_ok E V (fold_left (merge V) E' m).
Proof.
  induction E' as [|e E' IH]; intros m Hi Hm; cbn; [exact Hm|].
  apply IH; [intros x Hx; apply Hi; right; exact Hx|]. apply merge_ok; [apply Hi; left; reflexivity | exact Hm].
Qed.

Lemma classes_ok E V : tab_ok E V (classes V E).
Proof.
  unfold classes. apply fold_merge_ok; [apply incl_refl|].
  intros n r Hin. apply in_map_iff in Hin. destruct Hin as [k [Heq _]]. inversion Heq; subst. apply rt_refl.
Qed.

Lemma same_rep_conn E V u v : rep (classes V E) u = rep (classes V E) v -> conn E V u v.
Proof.
  intros H. apply (conn_trans E V u (rep (classes V E) u)); [apply rep_conn; apply classes_ok|].
  rewrite H. apply conn_sym. apply rep_conn. apply classes_ok.
Qed.

(* per link: (track id, representative of the source, representative of the target), computed once *)
Definition link_reps (d : tm) : list (Z * (Z * Z)) :=
  let m := classes (spot_ids d) (links d) in
  map (fun l => (fst l, (rep m (fst (link_edge l)), rep m (snd (link_edge l))))) (tlinks d).

Definition tracks_connected_fast (d : tm) : bool :=
  let rs := link_reps d in
  forallb (fun a => (fst (snd a) =? snd (snd a)) &&
                    forallb (fun b => negb (fst a =? fst b) || (fst (snd a) =? fst (snd b))) rs) rs.

Theorem tracks_connected_fast_sound d : tracks_connected_fast d = true -> tracks_connected d.
Proof.
  intros H u v t Hu Hv. unfold tracks_connected_fast in H.
  destruct (tof_in _ _ _ Hu) as [lu [Hlu [Htu Hfu]]]. destruct (tof_in _ _ _ Hv) as [lv [Hlv [Htv Hfv]]].
  set (m := classes (spot_ids d) (links d)) in *.
  assert (Hin : forall l, In l (tlinks d) ->
            In (fst l, (rep m (fst (link_edge l)), rep m (snd (link_edge l)))) (link_reps d)).
  { intros l Hl. unfold link_reps. fold m. apply in_map_iff. exists l. split; [reflexivity | exact Hl]. }
  pose proof (forallb_In _ _ _ H (Hin lu Hlu)) as Ha. cbn [fst snd] in Ha. apply andb_true_iff in Ha. destruct Ha as [Hau Hab].
  pose proof (forallb_In _ _ _ H (Hin lv Hlv)) as Hb. cbn [fst snd] in Hb. apply andb_true_iff in Hb. destruct Hb as [Hbv _].
  pose proof (forallb_In _ _ _ Hab (Hin lv Hlv)) as Huv. cbn [fst snd] in Huv.
  rewrite Hfu, Hfv, Z.eqb_refl in Huv. cbn [negb orb] in Huv. apply Z.eqb_eq in Hau, Hbv, Huv.
  apply same_rep_conn. fold m.
  assert (Ru : rep m u = rep m (fst (link_edge lu))).
  { unfold touches in Htu. apply orb_true_iff in Htu. destruct Htu as [E|E]; apply Z.eqb_eq in E; subst u; congruence. }
  assert (Rv : rep m v = rep m (fst (link_edge lv))).
  { unfold touches in Htv. apply orb_true_iff in Htv. destruct Htv as [E|E]; apply Z.eqb_eq in E; subst v; congruence. }
  congruence.
Qed.

(* the premises of the C16 theorems, decided *)
Definition premises_fast (d : tm) : bool := wf_tmb d && tracks_connected_fast d.
Theorem premises_fast_sound d : premises_fast d = true -> wf_tm d /\ tracks_connected d.
Proof.
  unfold premises_fast. intros H. apply andb_true_iff in H. destruct H as [Hw Hc].
  split; [apply wf_tmb_sound; exact Hw | apply tracks_connected_fast_sound; exact Hc].
Qed.
