(* SpecLemmas.v -- the library's reader (Read.v) and the specification decoder (SpecDecode.v) agree. *)
From Geff Require Import Base Dtype DtypeLemmas Vlen VlenLemmas Tree TreeLemmas Validate ValidateLemmas Write Read RoundTrip ReadMaskLemmas SpecDecode.
From Geff.Gen Require Import Consts.
Open Scope string_scope.
Open Scope list_scope.

Lemma product_size sh : product sh = size sh. Proof. reflexivity. Qed.
Lemma split_rows_chunks {A} w n (l : list A) : split_rows w n l = chunks w n l.
Proof. revert l. induction n as [|n IH]; intros l; cbn; [reflexivity | rewrite IH; reflexivity]. Qed.

(* one row: the reader's deser_one on the row converted to nat = the spec's slice_elem on the raw row *)
Lemma deser_slice data row :
  deser_one data (map Z.to_nat row) = match slice_elem data row with Some x => Ok x | None => match row with [] => Err IndexError | _ => Err ValueError end end.
Proof. destruct row as [|off sh]; cbn; [reflexivity|].
  unfold product, size. destruct (Nat.eqb _ _); reflexivity. Qed.

Lemma mapM_all_some {A B} (f : A -> res B) (g : A -> option B) l r :
  (forall x, In x l -> forall y, f x = Ok y <-> g x = Some y) ->
  mapM f l = Ok r <-> all_some (map g l) = Some r.
Proof. revert r. induction l as [|x l IH]; intros r H; cbn.
  - split; intro E; inversion E; reflexivity.
  - assert (Hl : forall z, In z l -> forall y, f z = Ok y <-> g z = Some y) by (intros z Hz; apply H; right; exact Hz).
    pose proof (H x (or_introl eq_refl)) as Hx.
    destruct (f x) as [y|e].
    + assert (Hg : g x = Some y) by (exact (proj1 (Hx y) eq_refl)). rewrite Hg.
      destruct (mapM f l) as [ys|e'].
      * assert (Ha : all_some (map g l) = Some ys) by (exact (proj1 (IH ys Hl) eq_refl)). rewrite Ha. split; intro E; inversion E; reflexivity.
      * destruct (all_some (map g l)) as [ys|] eqn:Ea; [|split; discriminate].
        pose proof (proj2 (IH ys Hl) eq_refl) as Hc. discriminate.
    + destruct (g x) as [y|] eqn:Eg; [|split; discriminate].
      pose proof (proj2 (Hx y) eq_refl) as Hc. discriminate.
Qed.

Lemma mapM_map {A B C} (f : B -> res C) (g : A -> B) l : mapM f (map g l) = mapM (fun x => f (g x)) l.
Proof. induction l as [|x r IH]; cbn; [reflexivity | rewrite IH; reflexivity]. Qed.

(* the offset table: rows of the reader = rows of the spec decoder, converted *)
Lemma deserialize_slices v d els :
  (exists n rest, a_shape v = n :: rest) ->
  deserialize (table_rows v) (a_flat d) = Ok els <->
  match a_shape v with
  | n :: rest => all_some (map (slice_elem (a_flat d)) (split_rows (product rest) n (a_flat v))) = Some els
  | [] => False
  end.
Proof. intros [n [rest Hsh]]. rewrite Hsh. unfold deserialize, table_rows, row_size. rewrite Hsh. cbn [hd tl].
  rewrite (split_rows_chunks (product rest) n (a_flat v)), chunks_map.
  change (product rest) with (size rest).
  set (rows := chunks (size rest) n (a_flat v)).
  rewrite mapM_map. apply mapM_all_some. intros row _ y. rewrite deser_slice.
  destruct (slice_elem (a_flat d) row) as [x|]; [split; intro E; inversion E; reflexivity|].
  destruct row; split; discriminate.
Qed.

(* ---------- reflexivity of the comparisons ---------- *)
Lemma list_eqb_refl {A} (eqb : A -> A -> bool) : (forall x, eqb x x = true) -> forall l, list_eqb eqb l l = true.
Proof. intros H. induction l as [|x r IH]; cbn; [reflexivity | rewrite H, IH; reflexivity]. Qed.
Lemma zlist_eqb_refl l : zlist_eqb l l = true. Proof. apply list_eqb_refl. apply Z.eqb_refl. Qed.
Lemma natlist_eqb_refl l : natlist_eqb l l = true. Proof. apply list_eqb_refl. apply Nat.eqb_refl. Qed.
Lemma elem_eqb_refl e : elem_eqb e e = true.
Proof. unfold elem_eqb. rewrite natlist_eqb_refl, zlist_eqb_refl. reflexivity. Qed.
Lemma miss_eqb_refl m : miss_eqb m m = true. Proof. destruct m; cbn; [apply zlist_eqb_refl | reflexivity]. Qed.

Lemma sprop_eqb_refl sp : sprop_eqb sp sp = true.
Proof. destruct sp as [[dt sh fl|dt els] ms]; unfold sprop_eqb; cbn [sp_values sp_missing svalues_eqb].
  - rewrite dtype_eqb_refl, natlist_eqb_refl, zlist_eqb_refl, miss_eqb_refl. reflexivity.
  - rewrite dtype_eqb_refl, (list_eqb_refl elem_eqb elem_eqb_refl), miss_eqb_refl. reflexivity. Qed.

(* ---------- one property group ---------- *)
Definition decode_from (v : arr) (mo dopt : option arr) : option sprop :=
  let ms := option_map a_flat mo in
  match dopt with
  | None => Some (mksprop (SFixed (a_dt v) (a_shape v) (a_flat v)) ms)
  | Some d =>
      match a_shape v with
      | n :: rest =>
          match all_some (map (slice_elem (a_flat d)) (split_rows (product rest) n (a_flat v))) with
          | Some els => Some (mksprop (SVar (a_dt d) els) ms)
          | None => None
          end
      | [] => None
      end
  end.

Lemma decode_prop_eq a ch v mo dopt :
  alookup path_VALUES ch = Some (ZA v) -> alookup path_MISSING ch = option_map ZA mo ->
  alookup path_DATA ch = option_map ZA dopt -> decode_prop (ZG a ch) = decode_from v mo dopt.
Proof. intros Hv Hm Hd. unfold decode_prop, member, decode_from.
  change "values" with path_VALUES. change "missing" with path_MISSING. change "data" with path_DATA.
  rewrite Hv, Hm, Hd. destruct mo, dopt; reflexivity. Qed.

Lemma load_missing_ok mo : (forall m0, mo = Some m0 -> a_dt m0 = DBool) ->
  match mo with
  | Some m0 => if dtype_eqb (a_dt m0) DBool then Ok (Some m0) else Err OtherExn
  | None => Ok None end = Ok mo.
Proof. intros H. destruct mo as [m0|]; [rewrite (H m0 eq_refl); reflexivity | reflexivity]. Qed.

Lemma map_pair_id {A B} (l : list (A * B)) : map (fun e => (fst e, snd e)) l = l.
Proof. induction l as [|[x y] r IH]; cbn; [reflexivity | rewrite IH; reflexivity]. Qed.

Theorem prop_agree root grp name len pm a ch :
  get_path root [grp; path_PROPS; name] = Some (ZG a ch) -> prop_conformant len pm (ZG a ch) ->
  exists zp, read_prop root grp name = Ok zp /\
    match load_prop zp None pm, decode_prop (ZG a ch) with
    | Ok p, Some sp => sprop_eqb sp (of_prop p) = true
    | Err _, None => True
    | _, _ => False
    end.
Proof.
  intros Hget (a' & ch' & Heq & (v & Hv & (n & rest & Hsh & _) & Hvl) & Hm). inversion Heq; subst a' ch'; clear Heq.
  unfold read_prop. rewrite Hget.
  assert (Hev : expect_array (ZG a ch) path_VALUES = Ok v) by (apply expect_array_ok; exact Hv).
  rewrite Hev. cbn [rbind].
  assert (Hmiss : exists mo, (if ahas path_MISSING ch then rmap Some (expect_array (ZG a ch) path_MISSING) else Ok None) = Ok mo /\
                    alookup path_MISSING ch = option_map ZA mo /\
                    (forall m0, mo = Some m0 -> a_dt m0 = DBool)).
  { destruct Hm as [Hn|[m0 [Hm0 [_ Hd]]]].
    - exists None. rewrite (proj2 (ahas_false _ _) Hn). repeat split; auto. intros m0 E. discriminate.
    - exists (Some m0). assert (Hh : ahas path_MISSING ch = true) by (apply ahas_true; eauto). rewrite Hh.
      rewrite (proj2 (expect_array_ok a ch path_MISSING m0) Hm0). repeat split; auto. intros m1 E. inversion E; subst. exact Hd. }
  destruct Hmiss as [mo [Hrm [Hlm Hbool]]]. rewrite Hrm. cbn [rbind].
  destruct (pm_varlength pm) eqn:Evl.
  - (* variable length *)
    destruct Hvl as [Hdu [_ [d [Hd [Hdd _]]]]].
    assert (Hh : ahas path_DATA ch = true) by (apply ahas_true; eauto). rewrite Hh.
    rewrite (proj2 (expect_array_ok a ch path_DATA d) Hd). cbn [rbind rmap].
    eexists. split; [reflexivity|].
    rewrite (decode_prop_eq a ch v mo (Some d) Hv Hlm Hd).
    unfold load_prop, decode_from. cbn [zp_values zp_missing zp_data mask_rows]. rewrite Evl, Hdu. cbn [dtype_eqb negb].
    rewrite Hdd, dtype_eqb_refl. cbn [negb]. rewrite (load_missing_ok mo Hbool). cbn [rbind].
    pose proof (deserialize_slices v d) as Hds. rewrite Hsh in *.
    destruct (deserialize (table_rows v) (a_flat d)) as [els|e] eqn:Ed.
    + assert (Hs : all_some (map (slice_elem (a_flat d)) (split_rows (product rest) n (a_flat v))) = Some els).
      { apply (Hds els); [eauto | reflexivity]. }
      rewrite Hs. unfold sprop_eqb, of_prop. cbn [sp_values sp_missing p_vals p_missing svalues_eqb].
      rewrite map_map. cbn [v_shape v_flat]. rewrite map_pair_id.
      rewrite (list_eqb_refl elem_eqb elem_eqb_refl), miss_eqb_refl, !andb_true_r.
      destruct els as [|e0 r]; cbn; [apply orb_true_r | rewrite dtype_eqb_refl; reflexivity].
    + destruct (all_some (map (slice_elem (a_flat d)) (split_rows (product rest) n (a_flat v)))) as [els|] eqn:Es.
      * assert (Hc : Err e = Ok els) by (apply (Hds els); [eauto | reflexivity]). discriminate.
      * exact I.
  - (* fixed *)
    destruct Hvl as [Hdt Hnd].
    rewrite (proj2 (ahas_false _ _) Hnd). cbn [rbind rmap].
    eexists. split; [reflexivity|].
    rewrite (decode_prop_eq a ch v mo None Hv Hlm Hnd).
    unfold load_prop, decode_from. cbn [zp_values zp_missing zp_data mask_rows]. rewrite Evl, Hdt, dtype_eqb_refl. cbn [negb].
    rewrite (load_missing_ok mo Hbool). cbn [rbind].
    unfold of_prop. cbn [p_vals p_missing]. rewrite ?Hdt. apply sprop_eqb_refl.
Qed.

(* ---------- forward: what the writer stores for a property decodes, by the specification, to that property ---------- *)
From Geff Require Import WriteLemmas ReadLemmas ValidateLayout.

Theorem forward_prop name n p pm :
  wf_prop n p -> create_props_metadata name p = Ok pm -> (exists enc, encode_prop p = Ok enc) ->
  exists sp, decode_prop (snd (stored (name, p))) = Some sp /\ sprop_eqb sp (of_prop (upcast_prop p)) = true.
Proof.
  intros Hwf Hpm [[[v m] d] He].
  assert (Hval : validate_prop n [(name, pm)] (stored (name, p)) = Ok tt).
  { eapply validate_prop_stored; eauto. cbn. rewrite String.eqb_refl. reflexivity. }
  unfold stored in *. cbn [fst snd] in *. rewrite He in *.
  apply validate_prop_iff in Hval. destruct Hval as [pm' [Hl Hconf]].
  cbn in Hl. rewrite String.eqb_refl in Hl. inversion Hl; subst pm'; clear Hl.
  set (root := ZG [] [("g", ZG [] [(path_PROPS, ZG [] [(name, prop_group v m d)])])]).
  assert (Hget : get_path root ["g"; path_PROPS; name] = Some (prop_group v m d)).
  { unfold root. cbn. unfold get. cbn. rewrite String.eqb_refl. reflexivity. }
  destruct (prop_agree root "g" name n pm [] (prop_members v m d) Hget Hconf) as [zp [Hr Hmatch]].
  rewrite (read_prop_stored _ _ _ _ _ _ Hget) in Hr. inversion Hr; subst zp; clear Hr.
  rewrite (prop_roundtrip name n p pm v m d Hwf Hpm He) in Hmatch.
  change (ZG [] (prop_members v m d)) with (prop_group v m d) in Hmatch.
  destruct (decode_prop (prop_group v m d)) as [sp|]; [|contradiction].
  exists sp. split; [reflexivity | exact Hmatch].
Qed.

(* ---------- whole stores: the library's full read equals the specification decoding ---------- *)
Definition decode_kv (kv : string * znode) : option (string * sprop) :=
  match decode_prop (snd kv) with Some p => Some (fst kv, p) | None => None end.

Definition rel_kv (s : string * sprop) (p : string * prop) : Prop :=
  fst s = fst p /\ sprop_eqb (snd s) (of_prop (snd p)) = true.

Lemma decode_all root grp len pmd : forall pc ps,
  (forall name node, In (name, node) pc -> exists pm, alookup name pmd = Some pm /\ prop_conformant len pm node) ->
  (forall name node, In (name, node) pc -> get_path root [grp; path_PROPS; name] = Some node) ->
  load_props root grp (akeys pc) pmd None = Ok ps ->
  exists sps, all_some (map decode_kv pc) = Some sps /\ Forall2 rel_kv sps ps.
Proof.
  unfold load_props. induction pc as [|[name node] pc IH]; intros ps Hconf Hget H; cbn [akeys map mapM] in H.
  - inversion H; subst. exists []. split; [reflexivity | constructor].
  - destruct (Hconf name node (or_introl eq_refl)) as [pm [Hl Hc]].
    pose proof Hc as Hc'. destruct Hc' as (a & ch & -> & _).
    destruct (prop_agree root grp name len pm a ch (Hget name _ (or_introl eq_refl)) Hc) as [zp [Hr Hmatch]].
    cbn [fst] in H. rewrite Hr in H. cbn [rbind] in H. rewrite Hl in H.
    destruct (load_prop zp None pm) as [p|e]; [|discriminate]. cbn [rbind] in H.
    match type of H with match ?m with _ => _ end = _ => destruct m as [ps'|e] eqn:Em; [|discriminate] end.
    inversion H; subst ps; clear H.
    destruct (decode_prop (ZG a ch)) as [sp|] eqn:Ed; [|contradiction].
    destruct (IH ps') as [sps [Hs HF]].
    + intros n0 nd0 Hin. apply Hconf. right. exact Hin.
    + intros n0 nd0 Hin. apply Hget. right. exact Hin.
    + exact Em.
    + exists ((name, sp) :: sps). split.
      * cbn [map all_some]. unfold decode_kv at 1. cbn [fst snd]. rewrite Ed, Hs. reflexivity.
      * constructor; [split; [reflexivity | exact Hmatch] | exact HF].
Qed.

Lemma forall2_dict_eqb : forall sps ps,
  Forall2 rel_kv sps ps -> NoDup (akeys ps) -> dict_eqb sprop_eqb sps (of_props ps) = true.
Proof.
  intros sps ps HF Hnd. unfold dict_eqb.
  assert (Hlen : length sps = length (of_props ps)).
  { unfold of_props. rewrite map_length. clear Hnd. induction HF as [|x y l l' _ _ IH]; cbn [length]; [reflexivity | rewrite IH; reflexivity]. }
  rewrite Hlen, Nat.eqb_refl. cbn [andb].
  apply forallb_forall. intros [k s] Hin.
  (* find the partner of (k, s) *)
  assert (Hp : exists p, In (k, p) ps /\ sprop_eqb s (of_prop p) = true).
  { clear Hnd Hlen. induction HF as [|[k1 s1] [k2 p2] l l' [Hk Hs] _ IH]; [destruct Hin|].
    cbn [fst snd] in *. destruct Hin as [Heq|Hin].
    - inversion Heq; subst. exists p2. split; [left; reflexivity | exact Hs].
    - destruct (IH Hin) as [p [Hp1 Hp2]]. exists p. split; [right; exact Hp1 | exact Hp2]. }
  destruct Hp as [p [Hinp Heq]]. cbn [fst snd].
  rewrite (alookup_in_nodup k (of_prop p) (of_props ps)).
  - exact Heq.
  - unfold of_props, akeys. rewrite map_map. exact Hnd.
  - unfold of_props. apply in_map_iff. exists (k, p). split; [reflexivity | exact Hinp].
Qed.

(* property groups of a nodes/edges group are uniquely named (true of every real hierarchy: members are a dict) *)
Definition unique_members (root : znode) : Prop :=
  forall grp g pg, grp = path_NODES \/ grp = path_EDGES ->
    get root grp = Some g -> get g path_PROPS = Some pg -> NoDup (akeys (children pg)).

Lemma group_converse root grp (md_props : list (string * pmeta)) len ga gch ps :
  unique_members root -> grp = path_NODES \/ grp = path_EDGES -> get root grp = Some (ZG ga gch) ->
  match alookup path_PROPS gch with
  | None => md_props = []
  | Some pg => is_group pg = true /\ props_conformant len md_props pg
  end ->
  forall names, prop_names root grp = Ok names ->
  load_props root grp names md_props None = Ok ps ->
  exists sps, decode_props (ZG ga gch) = Some sps /\ dict_eqb sprop_eqb sps (of_props (dict_of ps)) = true.
Proof.
  intros Huniq Hgrp0 Hg Hconf names Hnames Hload.
  unfold prop_names, expect_group in Hnames. rewrite Hg in Hnames. cbn [rbind] in Hnames.
  unfold decode_props, member. change "props" with path_PROPS.
  unfold get in Hnames. cbn [children] in Hnames.
  destruct (alookup path_PROPS gch) as [pg|] eqn:Ep.
  - destruct Hconf as [Hgrp [Hkeys Hall]]. destruct pg as [x|pa pc]; [discriminate|]. inversion Hnames; subst names; clear Hnames.
    assert (Hallg : forall kv, In kv pc -> is_group (snd kv) = true).
    { intros [n0 nd0] Hin. destruct (Hall n0 nd0 Hin) as [pm [_ (a & ch & -> & _)]]. reflexivity. }
    rewrite (ReadLemmas.filter_all _ pc Hallg) in Hload.
    assert (Hnd : NoDup (akeys pc)).
    { apply (Huniq grp (ZG ga gch) (ZG pa pc) Hgrp0 Hg). unfold get. cbn [children]. exact Ep. }
    destruct (decode_all root grp len md_props pc ps) as [sps [Hs HF]].
    + intros n0 nd0 Hin. apply Hall. exact Hin.
    + intros n0 nd0 Hin. cbn [get_path]. rewrite Hg. unfold get at 1. cbn [children]. rewrite Ep.
      unfold get. cbn [children]. rewrite (alookup_in_nodup n0 nd0 pc Hnd Hin). reflexivity.
    + exact Hload.
    + exists sps. split; [exact Hs|].
      destruct (load_props_spec _ _ _ _ _ _ Hload) as [Hk _].
      assert (Hndps : NoDup (akeys ps)) by (rewrite Hk; exact Hnd).
      rewrite (ReadLemmas.dict_of_nodup _ Hndps). apply forall2_dict_eqb; assumption.
  - inversion Hnames; subst names. unfold load_props in Hload. cbn in Hload. inversion Hload; subst ps.
    exists []. split; reflexivity.
Qed.

Theorem read_is_spec_decode k root g :
  unique_members root ->
  read_to_memory k (Some root) true None None = Ok g ->
  exists sg, spec_decode root = Some sg /\ sgraph_eqb sg (of_mgraph g) = true.
Proof.
  intros Huniq H. unfold read_to_memory, reader_init in H.
  destruct (validate_structure k (Some root)) as [[]|e] eqn:Ev; [|discriminate]. cbn [rbind] in H.
  apply validate_iff in Ev.
  destruct Ev as (md & Hmd & na & nch & ea & ech & nids & eids & Hng & Heg & Hni & Hei & _ & _ & _ & _ & Hnp & Hep & _).
  destruct root as [x|ra rch]; [cbn in Hng; discriminate|]. cbn [open_storelike rbind] in H.
  unfold read_metadata in H. rewrite Hmd in H. cbn [rbind] in H.
  cbn [get_path] in H. rewrite Hng, Heg in H. unfold get at 1 2 in H. cbn [children] in H. rewrite Hni, Hei in H. cbn [rbind] in H.
  destruct (prop_names (ZG ra rch) path_NODES) as [nn|e] eqn:Enn; [|discriminate].
  destruct (prop_names (ZG ra rch) path_EDGES) as [en|e] eqn:Een; [|discriminate]. cbn [rbind] in H.
  unfold build in H. cbn [rd_nnames rd_enames rd_root rd_md rd_nids rd_eids mask_rows] in H.
  destruct (mapM (read_prop (ZG ra rch) path_NODES) nn) as [zn|e]; [|discriminate].
  destruct (mapM (read_prop (ZG ra rch) path_EDGES) en) as [ze|e]; [|discriminate]. cbn [rbind] in H.
  destruct (load_props (ZG ra rch) path_NODES nn (md_nprops md) None) as [nps|e] eqn:Enp; [|discriminate]. cbn [rbind] in H.
  destruct (load_props (ZG ra rch) path_EDGES en (md_eprops md) None) as [eps|e] eqn:Eep; [|discriminate]. cbn [rbind] in H.
  inversion H; subst g; clear H.
  destruct (group_converse _ path_NODES (md_nprops md) (hd 0%nat (a_shape nids)) na nch nps Huniq (or_introl eq_refl) Hng Hnp nn Enn Enp) as [snp [Hsn Hen]].
  destruct (group_converse _ path_EDGES (md_eprops md) (hd 0%nat (a_shape eids)) ea ech eps Huniq (or_intror eq_refl) Heg Hep en Een Eep) as [sep [Hse Hee]].
  unfold spec_decode, member. change "nodes" with path_NODES. change "edges" with path_EDGES. change "ids" with path_IDS.
  unfold get in Hng, Heg. cbn [children] in Hng, Heg. rewrite Hng, Heg, Hni, Hei, Hsn, Hse.
  eexists. split; [reflexivity|].
  unfold sgraph_eqb, of_mgraph. cbn [sg_nids sg_eids sg_nprops sg_eprops g_nids g_eids g_nprops g_eprops].
  rewrite Hen, Hee. unfold arr_eqb. rewrite !dtype_eqb_refl, !natlist_eqb_refl, !zlist_eqb_refl. reflexivity.
Qed.

(* ---------- forward, whole store: what write_arrays leaves decodes, by the specification, to the graph written ---------- *)
From Geff Require Import C01Lemmas.

Lemma unique_members_layout pre g nps md' n e :
  alookup path_NODES (base_children pre) = None -> alookup path_EDGES (base_children pre) = None ->
  wf_props n nps -> wf_props e (w_eprops g) -> unique_members (layout pre g nps md').
Proof.
  intros Hn He Hwn Hwe grp gg pg Hgrp Hget Hp.
  assert (Hgn : get (layout pre g nps md') path_NODES = Some (grp_node (w_nids g) nps)).
  { unfold layout, get. cbn [children]. rewrite alookup_app, Hn. reflexivity. }
  assert (Hge : get (layout pre g nps md') path_EDGES = Some (grp_node (w_eids g) (w_eprops g))).
  { unfold layout, get. cbn [children]. rewrite alookup_app, He. reflexivity. }
  assert (Hgen : forall ids ops m0, wf_props m0 ops -> get (grp_node ids ops) path_PROPS = Some pg -> NoDup (akeys (children pg))).
  { intros ids ops m0 Hw Hq. unfold get, grp_node in Hq. cbn [children alookup] in Hq.
    change (String.eqb path_PROPS path_IDS) with false in Hq. cbn [alookup] in Hq.
    destruct ops as [ps|]; cbn in Hq; [|discriminate]. inversion Hq; subst pg.
    cbn [children]. rewrite akeys_stored. apply (Hw ps eq_refl). }
  destruct Hgrp as [ -> | -> ].
  - rewrite Hgn in Hget. inversion Hget; subst gg. exact (Hgen _ _ n Hwn Hp).
  - rewrite Hge in Hget. inversion Hget; subst gg. exact (Hgen _ _ e Hwe Hp).
Qed.

Theorem write_then_spec_decode k pre g md md' n e ov :
  clean k pre -> wf_input g md n e -> final_metadata g md = Ok md' ->
  exists tr post sg,
    write_arrays k g md true ov (init pre) = (mkst (Some post) tr, Ok tt) /\
    validate_structure k (Some post) = Ok tt /\
    spec_decode post = Some sg /\
    sgraph_eqb sg (mksg (w_nids g) (w_eids g)
                        (of_props (up_props (backfill (w_nids g) md (w_nprops g))))
                        (of_props (up_props (w_eprops g)))) = true.
Proof.
  intros Hc Hwf Hfm.
  set (nps := backfill (w_nids g) md (w_nprops g)) in *.
  assert (Hcn : alookup path_NODES (base_children pre) = None /\ alookup path_EDGES (base_children pre) = None).
  { destruct pre as [[x|a0 ch0]|]; cbn [clean] in Hc; cbn; [contradiction | tauto | auto]. }
  destruct Hcn as [Hcn Hce].
  destruct (write_then_read_layout k pre g md md' n e ov Hc Hwf Hfm) as [[tr Hw] [Hv Hr]]. fold nps in Hw, Hv, Hr.
  destruct (read_is_spec_decode k _ _ (unique_members_layout pre g nps md' n e Hcn Hce (wi_nprops _ _ _ _ Hwf) (wi_eprops _ _ _ _ Hwf)) Hr)
    as [sg [Hs He]].
  exists tr, (layout pre g nps md'), sg. split; [exact Hw|]. split; [exact Hv|]. split; [exact Hs | exact He].
Qed.
