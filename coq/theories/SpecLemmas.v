(* SpecLemmas.v -- the library's reader (Read.v) and the specification decoder (SpecDecode.v) agree. *)
From Geff Require Import Base Dtype DtypeLemmas Vlen VlenLemmas Tree TreeLemmas Validate ValidateLemmas Write Read RoundTrip ReadMaskLemmas SpecDecode.
From Geff.Gen Require Import Consts.
Open Scope string_scope.
Open Scope list_scope.

Lemma product_size sh : product sh = size sh. Proof. reflexivity. Qed.
Lemma split_rows_chunks {A} w n (l : list A) : split_rows w n l = chunks w n l.
Proof. revert l. induction n as [|n IH]; intros l; cbn; [reflexivity | rewrite IH; reflexivity]. Qed.

(* one row: the reader's deser_one on the row converted to nat = the spec's slice_elem on the raw row *)
Lemma deser_slice data row :
  deser_one data (map Z.to_nat row) = match slice_elem data row with Some x => Ok x | None => match row with [] => Err IndexError | _ => Err ValueError end end.
Proof. destruct row as [|off sh]; cbn; [reflexivity|].
  unfold product, size. destruct (Nat.eqb _ _); reflexivity. Qed.

Lemma mapM_all_some {A B} (f : A -> res B) (g : A -> option B) l r :
  (forall x, In x l -> forall y, f x = Ok y <-> g x = Some y) ->
  mapM f l = Ok r <-> all_some (map g l) = Some r.
Proof. revert r. induction l as [|x l IH]; intros r H; cbn.
  - split; intro E; inversion E; reflexivity.
  - assert (Hl : forall z, In z l -> forall y, f z = Ok y <-> g z = Some y) by (intros z Hz; apply H; right; exact Hz).
    pose proof (H x (or_introl eq_refl)) as Hx.
    destruct (f x) as [y|e].
    + assert (Hg : g x = Some y) by (exact (proj1 (Hx y) eq_refl)). rewrite Hg.
      destruct (mapM f l) as [ys|e'].
      * assert (Ha : all_some (map g l) = Some ys) by (exact (proj1 (IH ys Hl) eq_refl)). rewrite Ha. split; intro E; inversion E; reflexivity.
      * destruct (all_some (map g l)) as [ys|] eqn:Ea; [|split; discriminate].
        pose proof (proj2 (IH ys Hl) eq_refl) as Hc. discriminate.
    + destruct (g x) as [y|] eqn:Eg; [|split; discriminate].
      pose proof (proj2 (Hx y) eq_refl) as Hc. discriminate.
Qed.

Lemma mapM_map {A B C} (f : B -> res C) (g : A -> B) l : mapM f (map g l) = mapM (fun x => f (g x)) l.
Proof. induction l as [|x r IH]; cbn; [reflexivity | rewrite IH; reflexivity]. Qed.

(* the offset table: rows of the reader = rows of the spec decoder, converted *)
Lemma deserialize_slices v d els :
  (exists n rest, a_shape v = n :: rest) ->
  deserialize (table_rows v) (a_flat d) = Ok els <->
  match a_shape v with
  | n :: rest => all_some (map (slice_elem (a_flat d)) (split_rows (product rest) n (a_flat v))) = Some els
  | [] => False
  end.
Proof. intros [n [rest Hsh]]. rewrite Hsh. unfold deserialize, table_rows, row_size. rewrite Hsh. cbn [hd tl].
  rewrite (split_rows_chunks (product rest) n (a_flat v)), chunks_map.
  change (product rest) with (size rest).
  set (rows := chunks (size rest) n (a_flat v)).
  rewrite mapM_map. apply mapM_all_some. intros row _ y. rewrite deser_slice.
  destruct (slice_elem (a_flat d) row) as [x|]; [split; intro E; inversion E; reflexivity|].
  destruct row; split; discriminate.
Qed.

(* ---------- reflexivity of the comparisons ---------- *)
Lemma list_eqb_refl {A} (eqb : A -> A -> bool) : (forall x, eqb x x = true) -> forall l, list_eqb eqb l l = true.
Proof. intros H. induction l as [|x r IH]; cbn; [reflexivity | rewrite H, IH; reflexivity]. Qed.
Lemma zlist_eqb_refl l : zlist_eqb l l = true. Proof. apply list_eqb_refl. apply Z.eqb_refl. Qed.
Lemma natlist_eqb_refl l : natlist_eqb l l = true. Proof. apply list_eqb_refl. apply Nat.eqb_refl. Qed.
Lemma elem_eqb_refl e : elem_eqb e e = true.
Proof. unfold elem_eqb. rewrite natlist_eqb_refl, zlist_eqb_refl. reflexivity. Qed.
Lemma miss_eqb_refl m : miss_eqb m m = true. Proof. destruct m; cbn; [apply zlist_eqb_refl | reflexivity]. Qed.

Lemma sprop_eqb_refl sp : sprop_eqb sp sp = true.
Proof. destruct sp as [[dt sh fl|dt els] ms]; unfold sprop_eqb; cbn [sp_values sp_missing svalues_eqb].
  - rewrite dtype_eqb_refl, natlist_eqb_refl, zlist_eqb_refl, miss_eqb_refl. reflexivity.
  - rewrite dtype_eqb_refl, (list_eqb_refl elem_eqb elem_eqb_refl), miss_eqb_refl. reflexivity. Qed.

(* ---------- one property group ---------- *)
Definition decode_from (v : arr) (mo dopt : option arr) : option sprop :=
  let ms := option_map a_flat mo in
  match dopt with
  | None => Some (mksprop (SFixed (a_dt v) (a_shape v) (a_flat v)) ms)
  | Some d =>
      match a_shape v with
      | n :: rest =>
          match all_some (map (slice_elem (a_flat d)) (split_rows (product rest) n (a_flat v))) with
          | Some els => Some (mksprop (SVar (a_dt d) els) ms)
          | None => None
          end
      | [] => None
      end
  end.

Lemma decode_prop_eq a ch v mo dopt :
  alookup path_VALUES ch = Some (ZA v) -> alookup path_MISSING ch = option_map ZA mo ->
  alookup path_DATA ch = option_map ZA dopt -> decode_prop (ZG a ch) = decode_from v mo dopt.
Proof. intros Hv Hm Hd. unfold decode_prop, member, decode_from.
  change "values" with path_VALUES. change "missing" with path_MISSING. change "data" with path_DATA.
  rewrite Hv, Hm, Hd. destruct mo, dopt; reflexivity. Qed.

Lemma load_missing_ok mo : (forall m0, mo = Some m0 -> a_dt m0 = DBool) ->
  match mo with
  | Some m0 => if dtype_eqb (a_dt m0) DBool then Ok (Some m0) else Err OtherExn
  | None => Ok None end = Ok mo.
Proof. intros H. destruct mo as [m0|]; [rewrite (H m0 eq_refl); reflexivity | reflexivity]. Qed.

Lemma map_pair_id {A B} (l : list (A * B)) : map (fun e => (fst e, snd e)) l = l.
Proof. induction l as [|[x y] r IH]; cbn; [reflexivity | rewrite IH; reflexivity]. Qed.

Theorem prop_agree root grp name len pm a ch :
  get_path root [grp; path_PROPS; name] = Some (ZG a ch) -> prop_conformant len pm (ZG a ch) ->
  exists zp, read_prop root grp name = Ok zp /\
    match load_prop zp None pm, decode_prop (ZG a ch) with
    | Ok p, Some sp => sprop_eqb sp (of_prop p) = true
    | Err _, None => True
    | _, _ => False
    end.
Proof.
  intros Hget (a' & ch' & Heq & (v & Hv & (n & rest & Hsh & _) & Hvl) & Hm). inversion Heq; subst a' ch'; clear Heq.
  unfold read_prop. rewrite Hget.
  assert (Hev : expect_array (ZG a ch) path_VALUES = Ok v) by (apply expect_array_ok; exact Hv).
  rewrite Hev. cbn [rbind].
  assert (Hmiss : exists mo, (if ahas path_MISSING ch then rmap Some (expect_array (ZG a ch) path_MISSING) else Ok None) = Ok mo /\
                    alookup path_MISSING ch = option_map ZA mo /\
                    (forall m0, mo = Some m0 -> a_dt m0 = DBool)).
  { destruct Hm as [Hn|[m0 [Hm0 [_ Hd]]]].
    - exists None. rewrite (proj2 (ahas_false _ _) Hn). repeat split; auto. intros m0 E. discriminate.
    - exists (Some m0). assert (Hh : ahas path_MISSING ch = true) by (apply ahas_true; eauto). rewrite Hh.
      rewrite (proj2 (expect_array_ok a ch path_MISSING m0) Hm0). repeat split; auto. intros m1 E. inversion E; subst. exact Hd. }
  destruct Hmiss as [mo [Hrm [Hlm Hbool]]]. rewrite Hrm. cbn [rbind].
  destruct (pm_varlength pm) eqn:Evl.
  - (* variable length *)
    destruct Hvl as [Hdu [d [Hd Hdd]]].
    assert (Hh : ahas path_DATA ch = true) by (apply ahas_true; eauto). rewrite Hh.
    rewrite (proj2 (expect_array_ok a ch path_DATA d) Hd). cbn [rbind rmap].
    eexists. split; [reflexivity|].
    rewrite (decode_prop_eq a ch v mo (Some d) Hv Hlm Hd).
    unfold load_prop, decode_from. cbn [zp_values zp_missing zp_data mask_rows]. rewrite Evl, Hdu. cbn [dtype_eqb negb].
    rewrite Hdd, dtype_eqb_refl. cbn [negb]. rewrite (load_missing_ok mo Hbool). cbn [rbind].
    pose proof (deserialize_slices v d) as Hds. rewrite Hsh in *.
    destruct (deserialize (table_rows v) (a_flat d)) as [els|e] eqn:Ed.
    + assert (Hs : all_some (map (slice_elem (a_flat d)) (split_rows (product rest) n (a_flat v))) = Some els).
      { apply (Hds els); [eauto | reflexivity]. }
      rewrite Hs. unfold sprop_eqb, of_prop. cbn [sp_values sp_missing p_vals p_missing svalues_eqb].
      rewrite map_map. cbn [v_shape v_flat]. rewrite map_pair_id.
      rewrite (list_eqb_refl elem_eqb elem_eqb_refl), miss_eqb_refl, !andb_true_r.
      destruct els as [|e0 r]; cbn; [apply orb_true_r | rewrite dtype_eqb_refl; reflexivity].
    + destruct (all_some (map (slice_elem (a_flat d)) (split_rows (product rest) n (a_flat v)))) as [els|] eqn:Es.
      * assert (Hc : Err e = Ok els) by (apply (Hds els); [eauto | reflexivity]). discriminate.
      * exact I.
  - (* fixed *)
    destruct Hvl as [Hdt Hnd].
    rewrite (proj2 (ahas_false _ _) Hnd). cbn [rbind rmap].
    eexists. split; [reflexivity|].
    rewrite (decode_prop_eq a ch v mo None Hv Hlm Hnd).
    unfold load_prop, decode_from. cbn [zp_values zp_missing zp_data mask_rows]. rewrite Evl, Hdt, dtype_eqb_refl. cbn [negb].
    rewrite (load_missing_ok mo Hbool). cbn [rbind].
    unfold of_prop. cbn [p_vals p_missing]. rewrite ?Hdt. apply sprop_eqb_refl.
Qed.

(* ---------- forward: what the writer stores for a property decodes, by the specification, to that property ---------- *)
From Geff Require Import WriteLemmas ReadLemmas ValidateLayout.

Theorem forward_prop name n p pm :
  wf_prop n p -> create_props_metadata name p = Ok pm -> (exists enc, encode_prop p = Ok enc) ->
  exists sp, decode_prop (snd (stored (name, p))) = Some sp /\ sprop_eqb sp (of_prop (upcast_prop p)) = true.
Proof.
  intros Hwf Hpm [[[v m] d] He].
  assert (Hval : validate_prop n [(name, pm)] (stored (name, p)) = Ok tt).
  { eapply validate_prop_stored; eauto. cbn. rewrite String.eqb_refl. reflexivity. }
  unfold stored in *. cbn [fst snd] in *. rewrite He in *.
  apply validate_prop_iff in Hval. destruct Hval as [pm' [Hl Hconf]].
  cbn in Hl. rewrite String.eqb_refl in Hl. inversion Hl; subst pm'; clear Hl.
  set (root := ZG [] [("g", ZG [] [(path_PROPS, ZG [] [(name, prop_group v m d)])])]).
  assert (Hget : get_path root ["g"; path_PROPS; name] = Some (prop_group v m d)).
  { unfold root. cbn. unfold get. cbn. rewrite String.eqb_refl. reflexivity. }
  destruct (prop_agree root "g" name n pm [] (prop_members v m d) Hget Hconf) as [zp [Hr Hmatch]].
  rewrite (read_prop_stored _ _ _ _ _ _ Hget) in Hr. inversion Hr; subst zp; clear Hr.
  rewrite (prop_roundtrip name n p pm v m d Hwf Hpm He) in Hmatch.
  change (ZG [] (prop_members v m d)) with (prop_group v m d) in Hmatch.
  destruct (decode_prop (prop_group v m d)) as [sp|]; [|contradiction].
  exists sp. split; [reflexivity | exact Hmatch].
Qed.
