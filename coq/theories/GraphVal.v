(* GraphVal.v -- model of geff.validate.graph (four graph validators with their
   offender lists), geff.validate.shapes (sphere / ellipsoid) and the dispatch of
   geff.validate.data.validate_data on the graph/sphere/ellipsoid flags.
   Ids are Z (any integer dtype is embedded in Z; numpy compares within one dtype,
   which is the numeric order).  Model only. *)
From Geff Require Import Base.
Open Scope Z_scope.
Open Scope list_scope.

Definition edge := (Z * Z)%type.

Definition pair_eqb (a b : edge) : bool := (fst a =? fst b) && (snd a =? snd b).
Definition pair_leb (a b : edge) : bool :=
  (fst a <? fst b) || ((fst a =? fst b) && (snd a <=? snd b)).

(* ---------- np.unique: sorted distinct values ---------- *)
Fixpoint insert {A} (leb : A -> A -> bool) (x : A) (l : list A) : list A :=
  match l with
  | [] => [x]
  | y :: r => if leb x y then x :: y :: r else y :: insert leb x r
  end.
Fixpoint isort {A} (leb : A -> A -> bool) (l : list A) : list A :=
  match l with [] => [] | x :: r => insert leb x (isort leb r) end.

Fixpoint dedup {A} (eqb : A -> A -> bool) (l : list A) : list A :=
  match l with
  | [] => []
  | x :: r => if existsb (eqb x) r then dedup eqb r else x :: dedup eqb r
  end.

Definition count {A} (eqb : A -> A -> bool) (x : A) (l : list A) : nat :=
  List.length (filter (eqb x) l).

Definition unique_z (l : list Z) : list Z := isort Z.leb (dedup Z.eqb l).
Definition unique_e (l : list edge) : list edge := isort pair_leb (dedup pair_eqb l).

(* ---------- the four validators: (valid, offenders) ---------- *)
Definition nonunique_ids (ids : list Z) : list Z :=
  filter (fun x => Nat.ltb 1 (count Z.eqb x ids)) (unique_z ids).
Definition validate_unique_node_ids (ids : list Z) : bool * list Z :=
  match nonunique_ids ids with [] => (true, []) | l => (false, l) end.

Definition edge_has_nodes (ids : list Z) (e : edge) : bool := zmem (fst e) ids && zmem (snd e) ids.
Definition invalid_edges (ids : list Z) (edges : list edge) : list edge :=
  filter (fun e => negb (edge_has_nodes ids e)) edges.
Definition validate_nodes_for_edges (ids : list Z) (edges : list edge) : bool * list edge :=
  let bad := invalid_edges ids edges in (match bad with [] => true | _ => false end, bad).

Definition self_nodes (edges : list edge) : list Z :=
  unique_z (map fst (filter (fun e => fst e =? snd e) edges)).
Definition validate_no_self_edges (edges : list edge) : bool * list Z :=
  let bad := self_nodes edges in (match bad with [] => true | _ => false end, bad).

Definition repeated_edges (edges : list edge) : list edge :=
  filter (fun e => Nat.ltb 1 (count pair_eqb e edges)) (unique_e edges).
Definition validate_no_repeated_edges (edges : list edge) : bool * list edge :=
  let bad := repeated_edges edges in (match bad with [] => true | _ => false end, bad).

(* an undirected edge as an unordered pair: np.sort(edge_ids, axis=1) *)
Definition norm_edge (e : edge) : edge := (Z.min (fst e) (snd e), Z.max (fst e) (snd e)).

(* the graph part of validate_data: which check raises first (None = passes) *)
Inductive graph_fault := FNonUnique | FMissingNodes | FSelfEdge | FRepeated.

Definition graph_check (directed : bool) (ids : list Z) (edges : list edge) : option graph_fault :=
  if negb (fst (validate_unique_node_ids ids)) then Some FNonUnique
  else if negb (fst (validate_nodes_for_edges ids edges)) then Some FMissingNodes
  else if negb (fst (validate_no_self_edges edges)) then Some FSelfEdge
  else if negb (fst (validate_no_repeated_edges (if directed then edges else map norm_edge edges)))
       then Some FRepeated
  else None.

(* ---------- shapes ---------- *)
(* rows of an array selected by "not missing" *)
Fixpoint keep_present {A} (miss : list bool) (rows : list A) : list A :=
  match miss, rows with
  | m :: ms, r :: rs => if m then keep_present ms rs else r :: keep_present ms rs
  | _, _ => []
  end.
Definition present {A} (miss : option (list bool)) (rows : list A) : list A :=
  match miss with None => rows | Some m => keep_present m rows end.

(* validate_sphere on values[~missing]; radii are scaled integers (sign is what matters) *)
Definition sphere_ok (ndim : nat) (radii : list Z) (miss : option (list bool)) : bool :=
  Nat.eqb ndim 1 && forallb (fun r => 0 <=? r) (present miss radii).

(* matrices as lists of rows *)
Definition matrix := list (list Z).

Definition mat_get (m : matrix) (i j : nat) : Z := nth j (nth i m []) 0.
Definition symmetric (n : nat) (m : matrix) : bool :=
  forallb (fun i => forallb (fun j => mat_get m i j =? mat_get m j i) (seq 0 n)) (seq 0 n).

(* determinant by cofactor expansion along the first row; n is the side (fuel) *)
Fixpoint remove_nth {A} (k : nat) (l : list A) : list A :=
  match k, l with
  | _, [] => []
  | O, _ :: r => r
  | S k', x :: r => x :: remove_nth k' r
  end.
Fixpoint alt_sum (sign : Z) (l : list Z) : Z :=
  match l with [] => 0 | x :: r => sign * x + alt_sum (- sign) r end.
Fixpoint det (n : nat) (m : matrix) : Z :=
  match n with
  | O => 1
  | S n' =>
      match m with
      | [] => 0
      | row0 :: rest =>
          alt_sum 1 (map (fun j => nth j row0 0 * det n' (map (remove_nth j) rest)) (seq 0 (S n')))
      end
  end.
(* k-th leading principal minor *)
Definition leading (k : nat) (m : matrix) : matrix := map (firstn k) (firstn k m).
(* positive-definite (for a symmetric matrix) by Sylvester's criterion *)
Definition pos_def (n : nat) (m : matrix) : bool :=
  forallb (fun k => 0 <? det k (leading k m)) (seq 1 n).

(* validate_ellipsoid on values[~missing]:
   shape = (N, r, c) given as ndim/r/c, spatial = number of axes of type "space" *)
Definition ellipsoid_ok (spatial : nat) (ndim r c : nat) (mats : list matrix) (miss : option (list bool)) : bool :=
  Nat.ltb 0 spatial && Nat.eqb ndim 3 && Nat.eqb r c && Nat.eqb r spatial &&
  forallb (fun m => symmetric r m && pos_def r m) (present miss mats).

(* ---------- dispatch of validate_data (graph / sphere / ellipsoid part) ---------- *)
Record vconfig := { c_graph : bool; c_sphere : bool; c_ellipsoid : bool }.
Record vdata := {
  d_directed : bool; d_ids : list Z; d_edges : list edge;
  d_spatial : nat;                                                    (* # axes of type space *)
  d_sphere : option (nat * list Z * option (list bool));               (* declared sphere property *)
  d_ellipsoid : option (nat * nat * nat * list matrix * option (list bool)) }.

Definition validate_data (cfg : vconfig) (d : vdata) : res unit :=
  if c_graph cfg && match graph_check (d_directed d) (d_ids d) (d_edges d) with Some _ => true | None => false end
  then Err ValueError
  else if c_sphere cfg && match d_sphere d with
                          | Some (nd, rs, ms) => negb (sphere_ok nd rs ms) | None => false end
  then Err ValueError
  else if c_ellipsoid cfg && match d_ellipsoid d with
                             | Some (nd, r, c, ms, mi) => negb (ellipsoid_ok (d_spatial d) nd r c ms mi)
                             | None => false end
  then Err ValueError
  else Ok tt.
