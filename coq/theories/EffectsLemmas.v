(* EffectsLemmas.v -- read-only programs do not mutate; the repaired metadata helper writes fresh cells only. *)
From Geff Require Import Base Dtype Vlen Tree Validate Write Read Effects.
From Geff.Gen Require Import Consts.
Open Scope string_scope.
Open Scope list_scope.

Lemma st_eta s : mkst (s_root s) (s_trace s) = s. Proof. destruct s; reflexivity. Qed.

Lemma ro_ret {A} (a : A) : readonly (ret a). Proof. intros s. reflexivity. Qed.
Lemma ro_fail {A} e : readonly (@fail A e). Proof. intros s. reflexivity. Qed.
Lemma ro_lift {A} (r : res A) : readonly (lift r). Proof. intros s. reflexivity. Qed.
Lemma ro_get_root : readonly get_root. Proof. intros s. reflexivity. Qed.
Lemma ro_bind {A B} (m : M A) (f : A -> M B) : readonly m -> (forall a, readonly (f a)) -> readonly (bind m f).
Proof. intros Hm Hf s. unfold bind. specialize (Hm s). destruct (m s) as [s1 [a|e]]; cbn in *; subst; [apply Hf | reflexivity]. Qed.

(* opening read-only (or r+) never changes the store -- whatever is or is not there *)
Theorem open_r_readonly k : readonly (open_eff k MR).
Proof. unfold open_eff. apply ro_bind; [apply ro_get_root|]. intros [[x|a ch]|]; first [apply ro_ret | apply ro_fail]. Qed.
Theorem open_rplus_readonly k : readonly (open_eff k MRplus).
Proof. unfold open_eff. apply ro_bind; [apply ro_get_root|]. intros [[x|a ch]|]; first [apply ro_ret | apply ro_fail]. Qed.

(* opening in append mode (zarr's default) creates a group exactly when nothing is there *)
Theorem open_a_creates k s : s_root s = None -> s_root (fst (open_eff k MA s)) = Some empty_group.
Proof. intros H. unfold open_eff, bind, get_root. rewrite H. reflexivity. Qed.

Theorem validate_readonly k : readonly (validate_m k).
Proof. unfold validate_m. apply ro_bind; [apply ro_get_root|]. intros r. apply ro_lift. Qed.
Theorem metadata_read_readonly k : readonly (metadata_read_m k).
Proof. unfold metadata_read_m. apply ro_bind; [apply open_r_readonly|]. intros _. apply ro_bind; [apply ro_get_root|].
  intros [root|]; [apply ro_lift | apply ro_fail]. Qed.
Theorem reader_readonly k v nn en nm em : readonly (reader_m k v nn en nm em).
Proof. unfold reader_m. apply ro_bind; [apply ro_get_root|]. intros r. destruct (reader_init k r v); [apply ro_lift | apply ro_fail]. Qed.
Theorem read_to_memory_readonly k v : readonly (read_to_memory_m k v).
Proof. unfold read_to_memory_m. apply ro_bind; [apply ro_get_root|]. intros r. apply ro_lift. Qed.

(* every zarr open of the read side, in the source as it is now, is mode "r" *)
Definition all_read_only (opens : list (string * string * string)) : bool :=
  forallb (fun t => match parse_mode (snd t) with Some MR => true | _ => false end) opens.

(* ---------- heap: the repaired helper never writes a cell that existed before ---------- *)
Lemma hget_app_old h c a : a < length h -> hget (h ++ [c]) a = hget h a.
Proof. intros H. unfold hget. now apply nth_error_app1. Qed.

Lemma hset_length h a c : length (hset h a c) = length h.
Proof. revert a. induction h as [|x r IH]; intros [|a]; cbn; auto. Qed.

Lemma hget_hset_other h a b c : a <> b -> hget (hset h b c) a = hget h a.
Proof. unfold hget. revert a b. induction h as [|x r IH]; intros [|a] [|b] H; cbn; auto; try contradiction.
  all: try (apply IH; intro; subst; contradiction). Qed.

Theorem minmax_preserves_old refs : forall h ranges h' refs' a,
  minmax_axes h refs ranges = (h', refs') -> a < length h -> hget h' a = hget h a.
Proof.
  induction refs as [|r rs IH]; intros h ranges h' refs' a H Ha; cbn in H.
  - inversion H; reflexivity.
  - destruct ranges as [|c cs]; [inversion H; reflexivity|].
    unfold halloc in H.
    set (old := match hget h r with Some o => o | None => (None, None) end) in *.
    destruct (minmax_axes (hset (h ++ [old]) (length h) c) rs cs) as [h3 rs'] eqn:E. inversion H; subst h' refs'.
    rewrite (IH _ _ _ _ a E).
    + rewrite hget_hset_other by lia. apply hget_app_old. exact Ha.
    + rewrite hset_length, app_length. cbn. lia.
Qed.

(* so every reference the caller holds still sees what it saw *)
Corollary minmax_preserves_caller h refs ranges h' refs' caller_refs :
  minmax_axes h refs ranges = (h', refs') -> Forall (fun a => a < length h) caller_refs ->
  view h' caller_refs = view h caller_refs.
Proof. intros H HF. unfold view. apply map_ext_in. intros a Ha. rewrite Forall_forall in HF.
  eapply minmax_preserves_old; eauto. Qed.

(* whereas assigning through the shared reference is seen by the caller *)
Theorem inplace_changes_caller :
  exists h refs ranges, view (fst (minmax_axes_inplace h refs ranges)) refs <> view h refs.
Proof. exists [(Some 0%Z, Some 9%Z)], [0%nat], [(Some 3%Z, Some 5%Z)]. vm_compute. discriminate. Qed.
