(* TrackMateDicts.v -- ONE write_dicts model.  TrackMate.v (written before Dicts.v existed) carries its own model of the part of
   NxBackend.write / write_dicts / dict_props_to_arr the converter exercises (col_values, col_default, col_arr, roi_arr, missing_arr,
   ids_arr, wgraph_of).  This file proves that on the value classes the converter produces -- int64-range ints, floats, strings,
   polygons (lists of equally long float tuples, equal or different point counts) -- that private model COINCIDES with Dicts.v
   (dict_prop: filled / determine_default / asarray / the ValueError route into construct_var_len_props / missing_arr;
   node_ids_arr / edge_ids_arr; dicts_wgraph), so that every C16 statement about stored features rests on the model C03 ties to the
   three graph libraries and C05 / C06 tie to the store.

   Translation of values (tr_val): VInt z -> PInt z, VFlt f -> PFloat f, VRoi (Some pts) -> the nested list of floats,
   VStr r -> PStr (r_tok r - 1): TrackMate.v numbers strings by stok (stok "" = 1), Dicts.v fixes the empty string as token 0; string
   tokens are an arbitrary injective numbering on both sides, the shift is the renaming between them (shift_str on stored arrays).
   Property names: Python builds them as a set; TrackMate.keys_of and Dicts.keys_of are two enumerations of that set (last / first
   occurrence) -- Dicts.dict_props_to_arr takes the list of names as an argument and is used here with TrackMate's enumeration. *)
From Geff Require Import Base Dtype DtypeLemmas Vlen VlenLemmas Tree TreeLemmas Validate Write Read GraphVal GraphValLemmas
  WriteLemmas ReadLemmas RoundTrip TrackMate TrackMateLemmas TrackMateCols.
From Geff Require Dicts Backends BackendsLemmas DictsLemmas ListColLemmas BackendsMdLemmas.
From Geff.Gen Require Import Consts.
From Coq Require Import Lia.
Open Scope string_scope.
Open Scope list_scope.
Open Scope Z_scope.

(* ---------- translation ---------- *)
Definition tr_val (v : val) : Dicts.pyval :=
  match v with
  | VInt z => Dicts.PInt z
  | VFlt f => Dicts.PFloat f
  | VStr r => Dicts.PStr (r_tok r - 1)
  | VRoi (Some pts) => Dicts.PList (map (fun p => Dicts.PList (map Dicts.PFloat p)) pts)
  | VRoi None => Dicts.PList []                      (* Python None: outside both models *)
  end.
Definition tr_attrs (a : attrs) : Dicts.attrs := map (fun kv => (fst kv, tr_val (snd kv))) a.

(* the renaming of string tokens on a stored property *)
Definition shift_str (p : prop) : prop :=
  match p_vals p with
  | PFixed a => if dtype_eqb (a_dt a) DStr then mkprop (PFixed (mkarr DStr (a_shape a) (map (fun z => z - 1) (a_flat a)))) (p_missing p) else p
  | PVlen _ => p
  end.

Lemma alookup_tr name a : alookup name (tr_attrs a) = option_map tr_val (alookup name a).
Proof. induction a as [|[k v] r IH]; [reflexivity|]. cbn. destruct (String.eqb name k); [reflexivity | exact IH]. Qed.

Lemma column_tr name elts : Dicts.column (map tr_attrs elts) name = map (fun a => option_map tr_val (alookup name a)) elts.
Proof. unfold Dicts.column. rewrite map_map. apply map_ext. intro a. apply alookup_tr. Qed.

(* ---------- the missing mask ---------- *)
Lemma missing_same name elts :
  Dicts.missing_arr (Dicts.column (map tr_attrs elts) name) = missing_arr (col_missing name elts).
Proof.
  rewrite column_tr. unfold Dicts.missing_arr, missing_arr, col_missing.
  assert (He : existsb is_none (map (fun a => option_map tr_val (alookup name a)) elts) = existsb (fun b => b) (map (fun a => negb (ahas name a)) elts)).
  { induction elts as [|a r IH]; [reflexivity|]. cbn. rewrite IH. unfold ahas. destruct (alookup name a); reflexivity. }
  rewrite He. destruct (existsb (fun b => b) _); [|reflexivity]. rewrite !map_length, !map_map. do 2 f_equal.
  apply map_ext. intro a. unfold ahas. destruct (alookup name a); reflexivity.
Qed.

(* ---------- the fill value ---------- *)
Lemma somes_first name elts :
  somes (map (fun a => option_map tr_val (alookup name a)) elts)
  = match first_present name elts with
    | Some v => tr_val v :: tl (somes (map (fun a => option_map tr_val (alookup name a)) elts))
    | None => []
    end.
Proof. induction elts as [|a r IH]; [reflexivity|]. cbn. destruct (alookup name a) as [v|]; [reflexivity | exact IH]. Qed.

Lemma default_tr name elts v : first_present name elts = Some v ->
  Dicts.determine_default (Dicts.column (map tr_attrs elts) name) = Dicts.default_for_value (tr_val v).
Proof. intros H. rewrite column_tr. unfold Dicts.determine_default. rewrite somes_first, H. reflexivity. Qed.

Lemma filled_tr name elts v0 : first_present name elts = Some v0 ->
  Dicts.filled (Dicts.column (map tr_attrs elts) name)
  = map (fun a => match alookup name a with Some v => tr_val v | None => Dicts.default_for_value (tr_val v0) end) elts.
Proof. intros H. unfold Dicts.filled. rewrite (default_tr name elts v0 H), column_tr, map_map. apply map_ext. intro a.
  destruct (alookup name a); reflexivity. Qed.

(* ---------- scalar columns ---------- *)
Lemma col_dt_all (col : list (option Dicts.pyval)) d : Dicts.filled col <> [] -> d <> DObj ->
  Forall (fun v => Dicts.is_plist v = false /\ Dicts.scalar_dt v = d) (Dicts.filled col) -> DictsLemmas.col_dt col = Some d.
Proof.
  intros Hne Hd H. unfold DictsLemmas.col_dt. destruct (Dicts.filled col) as [|v r]; [contradiction|].
  apply Forall_cons_iff in H. destruct H as [[Hv Hdv] Hr]. rewrite Hdv.
  assert (H1 : DictsLemmas.same_dt d v = true) by (unfold DictsLemmas.same_dt; rewrite Hv, Hdv, dtype_eqb_refl; reflexivity).
  assert (H2 : forallb (DictsLemmas.same_dt d) r = true).
  { apply forallb_forall. intros y Hy. eapply Forall_forall in Hr; eauto. destruct Hr as [Hy1 Hy2].
    unfold DictsLemmas.same_dt. rewrite Hy1, Hy2, dtype_eqb_refl. reflexivity. }
  rewrite H1, H2. destruct d; try reflexivity. contradiction.
Qed.

Definition col_kind (k : vkind) (elts : list attrs) (name : string) : Prop :=
  forall a v, In a elts -> alookup name a = Some v -> has_kind k v.

Lemma scalar_bridge k elts name : In name (keys_of elts) -> col_kind k elts name -> k <> KR ->
  Dicts.dict_prop (Dicts.column (map tr_attrs elts) name) = Ok (shift_str (scalar_prop k name elts)).
Proof.
  intros Hin Hpres Hnr. destruct (first_present_some _ _ Hin) as [v0 Hfp].
  destruct (first_present_in _ _ _ Hfp) as [a0 [Ha0 Hl0]].
  pose proof (Hpres a0 v0 Ha0 Hl0) as Hk0.
  assert (Hne : elts <> []) by (intros ->; destruct Ha0).
  set (col := Dicts.column (map tr_attrs elts) name).
  assert (Hcl : length col = length elts) by (unfold col, Dicts.column; rewrite !map_length; reflexivity).
  assert (Hcne : col <> []) by (intro E; apply Hne; apply length_zero_iff_nil; rewrite <- Hcl, E; reflexivity).
  assert (Hfne : Dicts.filled col <> []).
  { intro E. apply Hcne. apply length_zero_iff_nil. rewrite <- (DictsLemmas.filled_length col), E. reflexivity. }
  pose proof (filled_tr name elts v0 Hfp) as Hfill. fold col in Hfill.
  assert (Hgen : forall d (pay : attrs -> Z),
            d <> DObj ->
            (forall a, In a elts -> let v := match alookup name a with Some v => tr_val v | None => Dicts.default_for_value (tr_val v0) end in
                                    Dicts.is_plist v = false /\ Dicts.scalar_dt v = d /\ Dicts.scalar_payload v = pay a) ->
            Dicts.dict_prop col = Ok (mkprop (PFixed (mkarr d [length elts] (map pay elts))) (missing_arr (col_missing name elts)))).
  { intros d pay Hd Hall.
    assert (HF : Forall (fun v => Dicts.is_plist v = false /\ Dicts.scalar_dt v = d) (Dicts.filled col)).
    { rewrite Hfill. apply Forall_forall. intros v Hv. apply in_map_iff in Hv. destruct Hv as [a [<- Ha]]. destruct (Hall a Ha) as [H1 [H2 _]]. auto. }
    destruct (DictsLemmas.scalar_column col d (col_dt_all col d Hfne Hd HF) Hcne) as [p [Hp [_ Hv]]].
    rewrite Hp. f_equal. pose proof (BackendsMdLemmas.dict_prop_missing col p Hp) as Hm.
    destruct p as [pv pm]. cbn in Hv, Hm. subst pv pm. rewrite Hcl. unfold col at 2. rewrite missing_same. do 4 f_equal.
    rewrite Hfill, map_map. apply map_ext_in. intros a Ha. destruct (Hall a Ha) as [_ [_ H3]]. exact H3. }
  unfold scalar_prop, shift_str. cbn [p_vals p_missing a_dt a_shape a_flat].
  destruct k; [| | |congruence]; cbn [kdtype dtype_eqb].
  - (* int *)
    destruct v0 as [z0| | |]; cbn in Hk0; try tauto.
    apply (Hgen DI64 (cell KI name)); [discriminate|]. intros a Ha. cbv zeta. unfold cell.
    destruct (alookup name a) as [w|] eqn:E.
    + specialize (Hpres a w Ha E). destruct w as [z| | |]; cbn in Hpres; try tauto. cbn [tr_val Dicts.is_plist Dicts.scalar_dt Dicts.scalar_payload zof].
      split; [reflexivity|]. split; [|reflexivity].
      apply andb_true_iff in Hpres. destruct Hpres as [H1 H2]. apply Z.leb_le in H1. apply Z.leb_le in H2.
      assert (Hr : ((- 2 ^ 63 <=? z) && (z <? 2 ^ 63)) = true) by (apply andb_true_iff; split; [apply Z.leb_le | apply Z.ltb_lt]; lia).
      rewrite Hr. reflexivity.
    + cbn. auto.
  - (* float *)
    destruct v0 as [|f0| |]; cbn in Hk0; try tauto.
    apply (Hgen DF64 (cell KF name)); [discriminate|]. intros a Ha. cbv zeta. unfold cell.
    destruct (alookup name a) as [w|] eqn:E.
    + specialize (Hpres a w Ha E). destruct w as [|f| |]; cbn in Hpres; try contradiction. cbn. auto.
    + cbn. auto.
  - (* str *)
    destruct v0 as [| |r0|]; cbn in Hk0; try tauto.
    rewrite (Hgen DStr (fun a => cell KS name a - 1)); [|discriminate|].
    + rewrite map_map. reflexivity.
    + intros a Ha. cbv zeta. unfold cell. destruct (alookup name a) as [w|] eqn:E.
      * specialize (Hpres a w Ha E). destruct w as [| |r|]; cbn in Hpres; try contradiction. cbn. auto.
      * cbn. auto.
Qed.

(* ---------- polygon columns ---------- *)
Open Scope nat_scope.
Definition tr_pts (pts : list (list Z)) : Dicts.pyval := Dicts.PList (map (fun p => Dicts.PList (map Dicts.PFloat p)) pts).

Lemma py_shape_plist l : Dicts.py_shape (Dicts.PList l) = Dicts.common_shape (map Dicts.py_shape l).
Proof. reflexivity. Qed.

Lemma py_shape_row p : Dicts.py_shape (Dicts.PList (map Dicts.PFloat p)) = Some [length p].
Proof. cbn [Dicts.py_shape]. destruct p as [|x r]; [reflexivity|]. cbn [map Dicts.common_shape Dicts.py_shape].
  assert (H : forallb (fun o : option (list nat) => match o with Some s' => natlist_eqb [] s' | None => false end)
                      (map Dicts.py_shape (map Dicts.PFloat r)) = true).
  { apply forallb_forall. intros o Ho. apply in_map_iff in Ho. destruct Ho as [y [<- Hy]]. apply in_map_iff in Hy. destruct Hy as [q [<- _]]. reflexivity. }
  rewrite H. cbn [length]. rewrite !map_length. reflexivity. Qed.

Lemma py_shape_pts pts sh : rect pts = Some sh -> Dicts.py_shape (tr_pts pts) = Some [fst sh; snd sh].
Proof.
  unfold rect, tr_pts. destruct pts as [|p r]; [discriminate|].
  destruct (forallb (fun q => Nat.eqb (length q) (length p)) r) eqn:E; [|discriminate]. intro H. inversion H; subst sh; clear H.
  rewrite py_shape_plist. cbn [map Dicts.common_shape fst snd]. rewrite py_shape_row.
  assert (Hall : forallb (fun o : option (list nat) => match o with Some s' => natlist_eqb [length p] s' | None => false end)
                         (map Dicts.py_shape (map (fun p0 => Dicts.PList (map Dicts.PFloat p0)) r)) = true).
  { apply forallb_forall. intros o Ho. apply in_map_iff in Ho. destruct Ho as [y [<- Hy]]. apply in_map_iff in Hy. destruct Hy as [q [<- Hq]].
    rewrite py_shape_row. rewrite forallb_forall in E. specialize (E q Hq). apply Nat.eqb_eq in E. rewrite E. apply natlist_eqb_eq. reflexivity. }
  rewrite Hall. cbn [length]. rewrite !map_length. reflexivity.
Qed.

Lemma py_leaves_pts pts : Dicts.py_leaves (tr_pts pts) = map Dicts.PFloat (List.concat pts).
Proof. unfold tr_pts. cbn [Dicts.py_leaves]. induction pts as [|p r IH]; [reflexivity|]. cbn [map flat_map List.concat]. rewrite map_app, IH. f_equal.
  cbn [Dicts.py_leaves]. induction p as [|x q IHq]; [reflexivity|]. cbn. rewrite IHq. reflexivity. Qed.

Lemma leaves_dt_floats l : Dicts.leaves_dt (map Dicts.PFloat l) = Some DF64.
Proof. destruct l as [|x r]; [reflexivity|]. cbn [map Dicts.leaves_dt Dicts.scalar_dt].
  assert (H : fold_left (fun acc y => match acc with Some a => Dicts.sjoin a (Dicts.scalar_dt y) | None => None end) (map Dicts.PFloat r) (Some DF64) = Some DF64).
  { induction r as [|y r IH]; [reflexivity|]. cbn [map fold_left Dicts.scalar_dt]. exact IH. }
  rewrite H. reflexivity. Qed.

Lemma cast_floats l : map (Dicts.cast_leaf DF64) (map Dicts.PFloat l) = l.
Proof. rewrite map_map. rewrite <- (map_id l) at 2. apply map_ext. intro q. reflexivity. Qed.

Lemma elem_asarray_pts pts sh : rect pts = Some sh ->
  Dicts.elem_asarray (tr_pts pts) = Ok (roi_varr (sh, List.concat pts)).
Proof. intro H. unfold Dicts.elem_asarray. rewrite (py_shape_pts pts sh H), py_leaves_pts, leaves_dt_floats, cast_floats. reflexivity. Qed.

Lemma tr_val_roi pts : tr_val (VRoi (Some pts)) = tr_pts pts. Proof. reflexivity. Qed.

(* the whole column *)
Lemma roi_column vals es : Forall2 roi_rel vals es -> vals <> [] ->
  mapM Dicts.elem_asarray (map tr_val vals) = Ok (map roi_varr es) /\
  match es with
  | [] => True
  | e0 :: r =>
      if forallb (fun e => sh_eqb (fst e) (fst e0)) r
      then Dicts.asarray (map tr_val vals)
           = Dicts.AFixed (mkarr DF64 [length vals; fst (fst e0); snd (fst e0)] (flat_map (fun e => snd e) es))
      else Dicts.asarray (map tr_val vals) = Dicts.ARagged
  end.
Proof.
  intros HF Hne. split.
  - clear Hne. induction HF as [|v e vs es' [pts [-> [Hr Hs]]] HF' IH]; [reflexivity|]. cbn [map mapM]. rewrite tr_val_roi.
    rewrite (elem_asarray_pts pts (fst e) Hr).
    assert (IH' : mapM Dicts.elem_asarray (map tr_val vs) = Ok (map roi_varr es')) by exact IH.
    rewrite IH'. destruct e as [sh fl]. cbn [fst snd] in *. subst fl. reflexivity.
  - destruct es as [|e0 r]; [exact I|].
    assert (Hshapes : map Dicts.py_shape (map tr_val vals) = map (fun e : nat * nat * list Z => Some [fst (fst e); snd (fst e)]) (e0 :: r)).
    { clear Hne. induction HF as [|v e vs es' [pts [-> [Hr Hs]]] _ IH]; [reflexivity|]. cbn [map]. rewrite tr_val_roi, (py_shape_pts pts (fst e) Hr), IH. reflexivity. }
    assert (Hleaves : Dicts.py_leaves (Dicts.PList (map tr_val vals)) = map Dicts.PFloat (flat_map (fun e : nat * nat * list Z => snd e) (e0 :: r))).
    { clear Hne Hshapes. cbn [Dicts.py_leaves]. induction HF as [|v e vs es' [pts [-> [Hr Hs]]] _ IH]; [reflexivity|].
      cbn [map flat_map]. rewrite tr_val_roi, py_leaves_pts, IH, map_app, Hs. reflexivity. }
    assert (Hlen : length vals = length (e0 :: r)).
    { clear -HF. induction HF; cbn; [reflexivity | f_equal; assumption]. }
    assert (Hb : forallb (fun o : option (list nat) => match o with Some s' => natlist_eqb [fst (fst e0); snd (fst e0)] s' | None => false end)
                         (map (fun e : nat * nat * list Z => Some [fst (fst e); snd (fst e)]) r)
                 = forallb (fun e : nat * nat * list Z => sh_eqb (fst e) (fst e0)) r).
    { clear. induction r as [|e r IH]; [reflexivity|]. cbn [map forallb]. rewrite IH. f_equal.
      unfold sh_eqb, natlist_eqb. cbn [list_eqb]. rewrite andb_true_r, (Nat.eqb_sym (fst (fst e0))), (Nat.eqb_sym (snd (fst e0))). reflexivity. }
    unfold Dicts.asarray. cbn [Dicts.py_shape]. rewrite Hshapes. cbn [map Dicts.common_shape]. rewrite Hb.
    destruct (forallb (fun e => sh_eqb (fst e) (fst e0)) r); [|reflexivity].
    rewrite Hleaves, leaves_dt_floats, cast_floats. cbn [length]. rewrite map_length. rewrite Hlen. reflexivity.
Qed.

Lemma roi_values name elts : In name (keys_of elts) -> col_kind KR elts name ->
  exists v0, first_present name elts = Some v0 /\ col_values name elts <> [] /\ Forall (has_kind KR) (col_values name elts) /\
             Dicts.filled (Dicts.column (map tr_attrs elts) name) = map tr_val (col_values name elts).
Proof.
  intros Hin Hpres. destruct (first_present_some _ _ Hin) as [v0 Hfp]. exists v0. split; [exact Hfp|].
  destruct (first_present_in _ _ _ Hfp) as [a0 [Ha0 Hl0]]. pose proof (Hpres a0 v0 Ha0 Hl0) as Hk0.
  assert (Hd : col_default name elts = v0).
  { unfold col_default. rewrite Hfp. destruct v0 as [| | |p]; cbn in Hk0; try contradiction. reflexivity. }
  split; [|split].
  - intros E. apply (f_equal (@length val)) in E. rewrite col_values_length in E. destruct elts; [destruct Ha0 | discriminate].
  - apply Forall_forall. intros v Hv. unfold col_values in Hv. apply in_map_iff in Hv. destruct Hv as [a [<- Ha]].
    destruct (alookup name a) as [w|] eqn:E; [apply (Hpres a w Ha E) | rewrite Hd; exact Hk0].
  - rewrite (filled_tr name elts v0 Hfp). unfold col_values. rewrite map_map. apply map_ext. intro a.
    destruct (alookup name a); [reflexivity|]. rewrite Hd. destruct v0 as [| | |[pts|]]; cbn in Hk0; try contradiction. reflexivity.
Qed.

Lemma roi_bridge elts name : In name (keys_of elts) -> col_kind KR elts name ->
  Dicts.dict_prop (Dicts.column (map tr_attrs elts) name) = Ok (mkprop (roi_pv name elts) (missing_arr (col_missing name elts))).
Proof.
  intros Hin Hpres. destruct (roi_values name elts Hin Hpres) as [v0 [Hfp [Hne [Hall Hfill]]]].
  destruct (mapM_roi_elem _ Hall) as [es [Hes HF]]. destruct (roi_column _ es HF Hne) as [Hel Has].
  destruct (roi_arr_spec _ Hne Hall) as [pv [Hpv _]]. rewrite col_values_length in Hpv.
  unfold roi_pv. rewrite Hpv. unfold roi_arr in Hpv. rewrite Hes in Hpv.
  unfold Dicts.dict_prop. rewrite Hfill, missing_same.
  destruct es as [|e0 r]; [discriminate|].
  destruct (forallb (fun e => sh_eqb (fst e) (fst e0)) r).
  - rewrite Has. inversion Hpv; subst pv. rewrite col_values_length. reflexivity.
  - rewrite Has, Hel. rewrite map_map.
    destruct (construct (map (fun e => Some (roi_varr e)) (e0 :: r))) as [[elems ms]|e]; [|discriminate].
    inversion Hpv; subst pv. reflexivity.
Qed.
Close Scope nat_scope.

(* ---------- every property of typed elements; the name list is TrackMate's enumeration of the key set ---------- *)
Lemma shift_str_other p : match p_vals p with PFixed a => a_dt a <> DStr | PVlen _ => True end -> shift_str p = p.
Proof. unfold shift_str. destruct (p_vals p) as [a|]; [|reflexivity]. intro H. destruct (dtype_eqb (a_dt a) DStr) eqn:E; [|reflexivity].
  apply dtype_eqb_eq in E. contradiction. Qed.

Lemma roi_pv_not_str name elts : match roi_pv name elts with PFixed a => a_dt a <> DStr | PVlen _ => True end.
Proof. unfold roi_pv, roi_arr. destruct (mapM roi_elem (col_values name elts)) as [[|e0 es]|]; try (cbn; discriminate).
  destruct (forallb (fun e => sh_eqb (fst e) (fst e0)) es); [cbn; discriminate|].
  destruct (construct _) as [[elems ms]|]; [exact I | cbn; discriminate]. Qed.

Theorem tprop_bridge kf elts name : Forall (typedk kf) elts -> In name (keys_of elts) ->
  Dicts.dict_prop (Dicts.column (map tr_attrs elts) name) = Ok (shift_str (tprop kf elts name)).
Proof.
  intros Hty Hin.
  assert (Hk : col_kind (kf name) elts name).
  { intros a v Ha Hl. rewrite Forall_forall in Hty. apply (Hty a Ha name v Hl). }
  unfold tprop. destruct (kf name) eqn:E; try (apply scalar_bridge; [exact Hin | exact Hk | discriminate]).
  rewrite shift_str_other by (cbn [p_vals]; apply roi_pv_not_str). apply roi_bridge; assumption.
Qed.

Definition shift_props (ps : props) : props := map (fun kv => (fst kv, shift_str (snd kv))) ps.

Theorem dict_props_bridge kf elts : Forall (typedk kf) elts ->
  Dicts.dict_props_to_arr (map tr_attrs elts) (keys_of elts) = Ok (shift_props (tprops kf elts)).
Proof.
  intros Hty. unfold Dicts.dict_props_to_arr, shift_props, tprops. rewrite map_map. cbn [fst snd].
  apply mapM_ok. intros name Hin. rewrite (tprop_bridge kf elts name Hty Hin). reflexivity.
Qed.

(* both models agree on the TrackMate side too (TrackMateCols.dict_props_ok): one statement *)
Theorem dict_props_coincide kf elts : Forall (typedk kf) elts ->
  exists ps, dict_props_to_arr elts = Ok ps /\ Dicts.dict_props_to_arr (map tr_attrs elts) (keys_of elts) = Ok (shift_props ps).
Proof. intros Hty. exists (tprops kf elts). split; [apply dict_props_ok; exact Hty | apply dict_props_bridge; exact Hty]. Qed.

(* ---------- ids ---------- *)
Lemma ids_bridge ids a : ids_arr ids = Ok a -> Dicts.node_ids_arr ids = Ok a /\ Forall (fun z => 0 <= z < 2 ^ 63) ids.
Proof.
  unfold ids_arr, Dicts.node_ids_arr. destruct ids as [|z r]; [intro H; inversion H; split; [reflexivity | constructor]|].
  destruct (existsb (fun z0 => z0 <? 0) (z :: r)) eqn:E1; [discriminate|].
  destruct (forallb (fun z0 => z0 <? 2 ^ 63) (z :: r)) eqn:E2; [|discriminate]. intro H. inversion H; subst a; clear H.
  assert (Hr : Forall (fun x => 0 <= x < 2 ^ 63) (z :: r)).
  { apply Forall_forall. intros x Hx. split.
    - destruct (x <? 0) eqn:Ex; [|apply Z.ltb_ge; exact Ex]. exfalso.
      assert (existsb (fun z0 => z0 <? 0) (z :: r) = true) by (apply existsb_exists; exists x; auto). congruence.
    - rewrite forallb_forall in E2. apply Z.ltb_lt. apply E2. exact Hx. }
  split; [|exact Hr].
  rewrite BackendsLemmas.existsb_false_all; [reflexivity|]. intros x Hx. eapply Forall_forall in Hr; eauto. apply Z.leb_gt. lia.
Qed.

Definition dg_of (g : graph) : Dicts.dgraph :=
  Dicts.mkdg (map (fun n : Z * attrs => (fst n, tr_attrs (snd n))) (g_nodes g))
             (map (fun e : edge * attrs => (fst e, tr_attrs (snd e))) (edges_out g)).

Definition shift_wgraph (w : wgraph) : wgraph :=
  mkwg (w_nids w) (w_eids w) (option_map shift_props (w_nprops w)) (option_map shift_props (w_eprops w)).

(* the arrays handed to write_arrays: TrackMate.wgraph_of and Dicts.dicts_wgraph *)
Theorem wgraph_bridge kfn kfe g w :
  Forall (typedk kfn) (map snd (g_nodes g)) -> Forall (typedk kfe) (map snd (edges_out g)) ->
  (forall e, In e (map fst (edges_out g)) -> In (fst e) (map fst (g_nodes g)) /\ In (snd e) (map fst (g_nodes g))) ->
  wgraph_of g = Ok w ->
  Dicts.dicts_wgraph (dg_of g) (keys_of (map snd (g_nodes g))) (keys_of (map snd (edges_out g))) = Ok (shift_wgraph w).
Proof.
  intros Hn He Hend Hw. unfold wgraph_of in Hw.
  destruct (ids_arr (map fst (g_nodes g))) as [na|] eqn:Eid; [|discriminate].
  rewrite (dict_props_ok kfn _ Hn), (dict_props_ok kfe _ He) in Hw. inversion Hw; subst w; clear Hw.
  destruct (ids_bridge _ _ Eid) as [Hid Hrange].
  unfold Dicts.dicts_wgraph, dg_of. cbn [Dicts.d_nodes Dicts.d_edges]. unfold edge in *.
  assert (Hf1 : map fst (map (fun n : Z * attrs => (fst n, tr_attrs (snd n))) (g_nodes g)) = map fst (g_nodes g)) by (rewrite map_map; reflexivity).
  assert (Hf2 : map fst (map (fun e : (Z * Z) * attrs => (fst e, tr_attrs (snd e))) (edges_out g)) = map fst (edges_out g)) by (rewrite map_map; reflexivity).
  assert (Hm1 : map snd (map (fun n : Z * attrs => (fst n, tr_attrs (snd n))) (g_nodes g)) = map tr_attrs (map snd (g_nodes g))) by (rewrite !map_map; reflexivity).
  assert (Hm2 : map snd (map (fun e : (Z * Z) * attrs => (fst e, tr_attrs (snd e))) (edges_out g)) = map tr_attrs (map snd (edges_out g))) by (rewrite !map_map; reflexivity).
  rewrite Hf1, Hf2, Hm1, Hm2, Hid.
  assert (Hedge : Dicts.edge_ids_arr (map fst (edges_out g))
                  = Ok (mkarr DU64 [length (edges_out g); 2%nat] (eflat (map fst (edges_out g))))).
  { unfold Dicts.edge_ids_arr. rewrite BackendsLemmas.existsb_false_all.
    - rewrite map_length. reflexivity.
    - intros z Hz. unfold Dicts.flat_pairs in Hz. apply in_flat_map in Hz. destruct Hz as [e [Hein Hz]].
      destruct (Hend e Hein) as [Hu Hv].
      assert (Hzin : In z (map fst (g_nodes g))) by (cbn in Hz; destruct Hz as [<-|[<-|[]]]; assumption).
      eapply Forall_forall in Hrange; eauto. apply orb_false_iff. split; [apply Z.ltb_ge | apply Z.leb_gt]; lia. }
  rewrite Hedge, (dict_props_bridge kfn _ Hn), (dict_props_bridge kfe _ He). reflexivity.
Qed.

(* ================= the converter: the graph it builds from a well-formed document ================= *)
From Geff Require Import TrackMateValid TrackMateProps.
From Geff Require DictsCrash.

(* the dictionaries NxBackend.write hands to write_dicts for the converted document *)
Definition dg_final (d : tm) (ds dt : bool) : Dicts.dgraph := dg_of (final_graph d ds dt).

Theorem tm_dicts_wgraph d ds dt : wf_tm d ->
  Dicts.dicts_wgraph (dg_final d ds dt) (keys_of (nelts d ds dt)) (keys_of (map snd (eouts d ds dt)))
  = Ok (shift_wgraph (wgraph_final d ds dt)).
Proof.
  intros W. unfold dg_final, nelts, eouts.
  apply (wgraph_bridge (nkind d) (ekind d)).
  - exact (final_nodes_typed d ds dt W).
  - apply (final_edges_typed d ds dt _ W). intros e He. apply (Permutation.Permutation_in _ (eouts_perm d ds dt W) He).
  - intros e He. apply in_map_iff in He. destruct He as [ea [<- Hea]].
    apply (final_endpoints d ds dt W ea). apply (Permutation.Permutation_in _ (eouts_perm d ds dt W) Hea).
  - exact (wgraph_of_final d ds dt W).
Qed.

(* write_dicts of Dicts.v on those dictionaries IS write_arrays on the arrays TrackMate.v computes (string tokens renamed) *)
Theorem tm_write_dicts d ds dt md s : wf_tm d ->
  Dicts.write_dicts KPath (dg_final d ds dt) (keys_of (nelts d ds dt)) (keys_of (map snd (eouts d ds dt))) md s
  = write_arrays KPath (shift_wgraph (wgraph_final d ds dt)) md true false s.
Proof. intros W. apply DictsCrash.write_dicts_arrays. apply tm_dicts_wgraph. exact W. Qed.

Lemma alookup_shift name ps : alookup name (shift_props ps) = option_map shift_str (alookup name ps).
Proof. induction ps as [|[k p] r IH]; [reflexivity|]. cbn. destruct (String.eqb name k); [reflexivity | exact IH]. Qed.

(* C16_features on the Dicts model: the node property Dicts.dict_props_to_arr computes for a declared spot feature *)
Theorem tm_dicts_feature d ds dt dc b : wf_tm d -> In dc (sdecls d) -> d_isint dc = Some b ->
  (exists sp, In sp (kept_spots d ds dt) /\ ahas (d_feat dc) (sp_attrs sp) = true) ->
  exists nps, Dicts.dict_props_to_arr (map tr_attrs (nelts d ds dt)) (keys_of (nelts d ds dt)) = Ok nps /\
              alookup (d_feat dc) nps = Some (feat_prop b (d_feat dc) (map sp_attrs (kept_spots d ds dt))).
Proof.
  intros W Hdc Hb Hex. exists (shift_props (nprops_of d ds dt)). split.
  - apply dict_props_bridge. exact (final_nodes_typed d ds dt W).
  - rewrite alookup_shift.
    assert (Hne : kept_spots d ds dt <> []) by (destruct Hex as [sp [Hsp _]]; intro E; rewrite E in Hsp; destruct Hsp).
    pose proof (spot_feature_column d ds dt dc b W Hdc Hb Hex) as H. rewrite (nps_final_nonempty d ds dt Hne) in H. rewrite H.
    cbn [option_map]. f_equal. apply shift_str_other. unfold feat_prop. cbn [p_vals a_dt]. destruct b; discriminate.
Qed.

Theorem tm_dicts_edge_feature d ds dt dc b : wf_tm d -> In dc (edecls d) -> d_isint dc = Some b ->
  (exists e, In e (final_edges d ds dt) /\ ahas (d_feat dc) (link_attrs d e) = true) ->
  exists eps, Dicts.dict_props_to_arr (map tr_attrs (map snd (eouts d ds dt))) (keys_of (map snd (eouts d ds dt))) = Ok eps /\
              alookup (d_feat dc) eps = Some (feat_prop b (d_feat dc) (map (link_attrs d) (final_edges d ds dt))).
Proof.
  intros W Hdc Hb Hex. exists (shift_props (eprops_of d ds dt)). split.
  - apply dict_props_bridge. apply (final_edges_typed d ds dt _ W). intros e He. apply (Permutation.Permutation_in _ (eouts_perm d ds dt W) He).
  - rewrite alookup_shift. rewrite (edge_feature_column d ds dt dc b W Hdc Hb Hex).
    cbn [option_map]. f_equal. apply shift_str_other. unfold feat_prop. cbn [p_vals a_dt]. destruct b; discriminate.
Qed.
