(* KeyTie.v -- what the correspondence checks compare between a raw key dump (KeyStore.v) and the tree the harness obtains
   through the zarr API (storelib.dump_tree):

     tie  : kinds of the nodes, member names, array dtype / shape / CONTENTS (chunk grid assembled by the model, fill values for
            absent chunks), attribute KEYS of every group, and for the root's "geff" attribute the verdict and the skeleton of the
            metadata object that Meta.construct (the metadata model of C07/C08) builds from the RAW document: directed, axis names,
            property names with dtype and varlength.
     Not compared (erased on both sides): the opaque tokens of the abstract tree (foreign attribute values, unit / name /
            description of property metadata, the remaining metadata fields, axis min / max).

   spec_keys_ok: the key-level reading of "the on-disk layout means what the specification says": the hierarchy the KEYS hold is
            decoded by SpecDecode (written from the specification, literal member names) into the intended graph, and the root
            carries an attribute named "geff" whose document is valid metadata.
   Model-side support only, no proofs. *)
From Geff Require Import Base Dtype Vlen Tree SpecDecode KeyStore.
From Geff Require Meta.
Open Scope string_scope.
Open Scope list_scope.

Definition all_dtypes : list dtype :=
  [DBool; DI8; DI16; DI32; DI64; DU8; DU16; DU32; DU64; DF16; DF32; DF64; DStr; DBytes; DObj].
Definition dtype_of_name (s : string) : dtype :=
  match find (fun d => String.eqb (dtype_name d) s) all_dtypes with Some d => d | None => DObj end.

Definition skel_pm (kv : string * Meta.prop_meta) : string * pmeta :=
  (fst kv, mkpm (dtype_of_name (Meta.pm_dtype (snd kv))) (Meta.pm_varlength (snd kv)) None None None).
Definition skel_md (m : Meta.metadata) : smeta :=
  mkmd (Meta.md_directed m)
       (option_map (map (fun a => mkax (Meta.ax_name a) None None 0%Z)) (Meta.md_axes m))
       (map skel_pm (Meta.md_node_props m)) (map skel_pm (Meta.md_edge_props m)) 0%Z.

(* the attribute abstraction of the tie: gv = Some GEFF_VERSION -> the root's geff document is judged by Meta.construct;
   gv = None (document outside the encoding of the metadata model) -> only its presence is kept *)
Definition A_tie (gv : option string) (root : bool) (k : string) (doc : Meta.jv) : aval :=
  if root && String.eqb k "geff" then
    match gv with
    | Some v => AGeff (match Meta.construct v doc with Ok mm => Some (skel_md mm) | Err _ => None end)
    | None => AGeff None
    end
  else AOther 0%Z.

Definition erase_pm (kv : string * pmeta) : string * pmeta :=
  (fst kv, mkpm (pm_dtype (snd kv)) (pm_varlength (snd kv)) None None None).
Definition erase_md (m : smeta) : smeta :=
  mkmd (md_directed m) (option_map (map (fun a => mkax (ax_name a) None None 0%Z)) (md_axes m))
       (map erase_pm (md_nprops m)) (map erase_pm (md_eprops m)) 0%Z.
Definition erase_aval (gv : option string) (v : aval) : aval :=
  match v with
  | AGeff m => match gv with Some _ => AGeff (option_map erase_md m) | None => AGeff None end
  | AOther _ => AOther 0%Z
  end.
Fixpoint erase_tree (gv : option string) (t : znode) : znode :=
  match t with
  | ZA a => ZA a
  | ZG attrs ch =>
      ZG (map (fun kv => (fst kv, erase_aval gv (snd kv))) attrs)
         ((fix go (l : list (string * znode)) : list (string * znode) :=
             match l with [] => [] | (n, c) :: r => (n, erase_tree gv c) :: go r end) ch)
  end.

(* the raw keys hold the hierarchy the zarr API shows *)
Definition tie (f : fmt) (raw : kstore) (gv : option string) (api : option znode) : bool :=
  match tree_of_keys (A_tie gv) f raw, api with
  | Some t, Some a => tree_eqb t (erase_tree gv a)
  | None, None => true
  | _, _ => false
  end.

(* the raw keys hold the intended graph, the way the specification lays it out *)
Definition osg_eqb' (a : option sgraph) (b : sgraph) : bool :=
  match a with Some x => sgraph_eqb x b | None => false end.
Definition geff_valid (gv : option string) (t : znode) : bool :=
  match t with
  | ZG a _ => match alookup "geff" a, gv with
              | Some (AGeff (Some _)), Some _ => true
              | Some (AGeff _), None => true          (* present; validity not judged *)
              | _, _ => false
              end
  | ZA _ => false
  end.
Definition spec_keys_ok (f : fmt) (raw : kstore) (gv : option string) (intended : sgraph) : bool :=
  match tree_of_keys (A_tie gv) f raw with
  | Some t => osg_eqb' (spec_decode t) intended && geff_valid gv t
  | None => false
  end.
