(* ListColLemmas.v -- property columns whose values are nested lists: fixed shape (one N-D array) and ragged
   (variable-length property through construct_var_len_props); extends DictsLemmas.scalar_column. *)
From Geff Require Import Base Dtype DtypeLemmas Vlen VlenLemmas Tree TreeLemmas Validate Write Read RoundTrip WriteLemmas ReadLemmas
     ValidateLayout C01Lemmas Dicts Backends BackendsLemmas DictsLemmas.
From Coq Require Import Lia.
Open Scope string_scope.
Open Scope list_scope.

(* ---------- induction over nested lists ---------- *)
Fixpoint pyval_ind' (P : pyval -> Prop)
  (Hb : forall b, P (PBool b)) (Hi : forall z, P (PInt z)) (Hf : forall q, P (PFloat q)) (Hs : forall t, P (PStr t))
  (Hl : forall l, Forall P l -> P (PList l)) (v : pyval) {struct v} : P v :=
  match v with
  | PBool b => Hb b
  | PInt z => Hi z
  | PFloat q => Hf q
  | PStr t => Hs t
  | PList l => Hl l ((fix go (l : list pyval) : Forall P l :=
                        match l with
                        | [] => Forall_nil P
                        | x :: r => Forall_cons x (pyval_ind' P Hb Hi Hf Hs Hl x) (go r)
                        end) l)
  end.

Lemma flat_map_const_length {A B} (f : A -> list B) k l : Forall (fun x => length (f x) = k) l -> length (flat_map f l) = length l * k.
Proof. induction l as [|x l IH]; intro H; cbn; [reflexivity|]. apply Forall_cons_iff in H. destruct H as [Hx Hl].
  rewrite app_length, Hx, IH by exact Hl. lia. Qed.

Lemma size_cons n sh : size (n :: sh) = n * size sh. Proof. reflexivity. Qed.

Lemma common_shape_inv shs sh : common_shape shs = Some sh ->
  (shs = [] /\ sh = [0%nat]) \/ exists s, sh = length shs :: s /\ Forall (fun o => o = Some s) shs.
Proof.
  unfold common_shape. destruct shs as [|[s|] r]; intro H; [left; inversion H; auto | | discriminate].
  destruct (forallb (fun o : option (list nat) => match o with Some s' => natlist_eqb s s' | None => false end) r) eqn:E; [|discriminate].
  inversion H; subst. right. exists s. split; [reflexivity|]. constructor; [reflexivity|].
  apply Forall_forall. intros o Ho. eapply forallb_forall in E; eauto. destruct o as [s'|]; [|discriminate].
  apply natlist_eqb_eq in E. subst. reflexivity.
Qed.

(* a nested list of shape sh has size sh leaves *)
Lemma leaves_length v : forall sh, py_shape v = Some sh -> length (py_leaves v) = size sh.
Proof.
  induction v as [b|z|q|t|l IH] using pyval_ind'; intros sh H; cbn in H; try (inversion H; reflexivity).
  cbn [py_leaves]. destruct (common_shape_inv _ _ H) as [[Hn Hs]|[s [Hs Hall]]].
  - apply map_eq_nil in Hn. subst. reflexivity.
  - subst sh. rewrite map_length, size_cons. apply flat_map_const_length.
    apply Forall_forall. intros x Hx. eapply Forall_forall in IH; eauto. apply IH.
    eapply Forall_forall in Hall; [exact Hall | apply in_map; exact Hx].
Qed.

(* ---------- the canonical value of a (nested list) Python value ---------- *)
Definition leaves_kind (ls : list pyval) : option sk :=
  match ls with
  | [] => None
  | x :: r =>
      match sk_of_py x with
      | Some k => if forallb (fun y => match sk_of_py y with Some k' => sk_eqb k k' | None => false end) r then Some k else None
      | None => None
      end
  end.

(* a list without any leaf ([] , [[], []], ...) has no element kind of its own: numpy types it float64, and a zero-size
   array reads back as an empty (nested) list -- its canonical value is the empty array of its shape *)
Definition cv_of_py (v : pyval) : option cval :=
  match v with
  | PList _ => match py_shape v with
               | Some sh => match py_leaves v with
                            | [] => Some (CArr SFloat sh [])
                            | ls => match leaves_kind ls with
                                    | Some k => Some (CArr k sh (map scalar_payload ls))
                                    | None => None
                                    end
                            end
               | None => None
               end
  | _ => cv_scalar v
  end.

Lemma cv_of_py_scalar v : is_plist v = false -> cv_of_py v = cv_scalar v.
Proof. destruct v; cbn; intro H; try reflexivity; discriminate. Qed.

Lemma sk_eqb_refl k : sk_eqb k k = true. Proof. destruct k; reflexivity. Qed.

(* a list value: rectangular of shape sh, non-empty, every leaf a scalar numpy types as d *)
Definition leaf_ok (d : dtype) (x : pyval) : Prop := is_plist x = false /\ scalar_dt x = d.
Definition list_val (d : dtype) (sh : list nat) (v : pyval) : Prop :=
  is_plist v = true /\ py_shape v = Some sh /\ Forall (leaf_ok d) (py_leaves v) /\ py_leaves v <> [].

Definition ok_dt (d : dtype) : Prop := d = DBool \/ d = DI64 \/ d = DU64 \/ d = DF64 \/ d = DStr.
Lemma ok_dt_sk d : ok_dt d -> exists k, sk_of d = Some k.
Proof. intros [->|[->|[->|[->| ->]]]]; eexists; reflexivity. Qed.
Lemma ok_dt_notobj d : ok_dt d -> d <> DObj.
Proof. intros [->|[->|[->|[->| ->]]]]; discriminate. Qed.

Lemma leaves_kind_ok d k ls : ok_dt d -> sk_of d = Some k -> ls <> [] -> Forall (leaf_ok d) ls -> leaves_kind ls = Some k.
Proof.
  intros Hok Hk Hne H. destruct ls as [|x r]; [contradiction|]. apply Forall_cons_iff in H. destruct H as [[Hx Hdx] Hr].
  assert (Hsk : forall y, leaf_ok d y -> sk_of_py y = Some k).
  { intros y [Hy Hdy]. rewrite <- (sk_scalar_dt y Hy); rewrite Hdy; [exact Hk | apply ok_dt_notobj; exact Hok]. }
  unfold leaves_kind. rewrite (Hsk x (conj Hx Hdx)).
  assert (Hall : forallb (fun y => match sk_of_py y with Some k' => sk_eqb k k' | None => false end) r = true).
  { apply forallb_forall. intros y Hy. eapply Forall_forall in Hr; eauto. rewrite (Hsk y Hr). apply sk_eqb_refl. }
  rewrite Hall. reflexivity.
Qed.

Lemma cv_of_list d k sh v : ok_dt d -> sk_of d = Some k -> list_val d sh v ->
  cv_of_py v = Some (CArr k sh (map scalar_payload (py_leaves v))).
Proof. intros Hok Hk [Hpl [Hsh [Hlv Hne]]]. destruct v; try discriminate. unfold cv_of_py. rewrite Hsh.
  pose proof (leaves_kind_ok d k _ Hok Hk Hne Hlv) as Hlk.
  destruct (py_leaves (PList l)) as [|x r] eqn:El; [contradiction|]. rewrite Hlk. reflexivity. Qed.

Lemma map_flat_map {A B C} (f : B -> C) (g : A -> list B) l : map f (flat_map g l) = flat_map (fun x => map f (g x)) l.
Proof. induction l as [|x l IH]; cbn; [reflexivity | rewrite map_app, IH; reflexivity]. Qed.

Lemma Forall_flat_map {A B} (P : B -> Prop) (g : A -> list B) l : Forall (fun x => Forall P (g x)) l -> Forall P (flat_map g l).
Proof. induction l as [|x l IH]; intro H; cbn; [constructor|]. apply Forall_cons_iff in H. destruct H as [Hx Hl].
  apply Forall_app. split; [exact Hx | apply IH; exact Hl]. Qed.

Lemma leaf_payloads d ls : Forall (leaf_ok d) ls -> map (cast_leaf d) ls = map scalar_payload ls.
Proof. intro H. apply map_ext_in. intros x Hx. eapply Forall_forall in H; eauto. destruct H as [_ Hd].
  unfold cast_leaf. rewrite Hd. apply cast_payload_same. Qed.

Lemma leaves_dt_ok d ls : ok_dt d -> ls <> [] -> Forall (leaf_ok d) ls -> leaves_dt ls = Some d.
Proof. intros Hok Hne H. apply leaves_dt_same; [exact Hne | apply ok_dt_notobj; exact Hok | exact H]. Qed.

(* ---------- fixed-shape list columns: one (N, *sh) array ---------- *)
Theorem fixed_list_column col d sh : ok_dt d -> sh <> [] -> filled col <> [] ->
  Forall (list_val d sh) (filled col) ->
  exists p, dict_prop col = Ok p /\ good_col cv_of_py col p.
Proof.
  intros Hok Hsh Hne Hall. destruct (ok_dt_sk d Hok) as [k Hk].
  set (vals := filled col) in *. set (n := length col).
  assert (Hn : length vals = n) by apply filled_length.
  set (rowf := fun v => map scalar_payload (py_leaves v)).
  set (a := mkarr d (n :: sh) (List.concat (map rowf vals))).
  assert (Hrowlen : Forall (fun r => length r = size sh) (map rowf vals)).
  { apply Forall_forall. intros r Hr. apply in_map_iff in Hr. destruct Hr as [v [<- Hv]].
    eapply Forall_forall in Hall; eauto. destruct Hall as [_ [Hs _]]. unfold rowf. rewrite map_length. apply leaves_length. exact Hs. }
  assert (Has : asarray vals = AFixed a).
  { unfold asarray.
    assert (Hps : py_shape (PList vals) = Some (n :: sh)).
    { cbn [py_shape]. destruct vals as [|v r] eqn:Ev; [contradiction|].
      apply Forall_cons_iff in Hall. destruct Hall as [[_ [Hsv _]] Hr]. cbn [map common_shape]. rewrite Hsv.
      assert (Hfa : forallb (fun o : option (list nat) => match o with Some s' => natlist_eqb sh s' | None => false end) (map py_shape r) = true).
      { apply forallb_forall. intros o Ho. apply in_map_iff in Ho. destruct Ho as [y [<- Hy]].
        eapply Forall_forall in Hr; eauto. destruct Hr as [_ [Hsy _]]. rewrite Hsy. apply natlist_eqb_eq. reflexivity. }
      rewrite Hfa. cbn [length]. rewrite map_length. cbn [length] in Hn. rewrite Hn. reflexivity. }
    rewrite Hps. cbn [py_leaves].
    assert (Hleaves : Forall (leaf_ok d) (flat_map py_leaves vals)).
    { apply Forall_flat_map. eapply Forall_impl; [|exact Hall]. cbn. intros v [_ [_ [H _]]]. exact H. }
    assert (Hlne : flat_map py_leaves vals <> []).
    { destruct vals as [|v r]; [contradiction|]. apply Forall_cons_iff in Hall. destruct Hall as [[_ [_ [_ Hv]]] _].
      cbn [flat_map]. intro E. apply app_eq_nil in E. destruct E as [E _]. contradiction. }
    rewrite (leaves_dt_ok d _ Hok Hlne Hleaves). unfold a. f_equal. f_equal.
    rewrite (leaf_payloads d _ Hleaves). rewrite map_flat_map. apply flat_map_concat_map. }
  exists (mkprop (PFixed a) (missing_arr col)). split; [unfold dict_prop; fold vals; rewrite Has; reflexivity|].
  assert (Hrow : forall i, i < n -> elem_val (mkprop (PFixed a) (missing_arr col)) i = Ok (CArr k sh (rowf (nth i vals (PInt 0))))).
  { intros i Hi. unfold elem_val, row_cval. cbn [p_vals a a_shape a_dt a_flat]. apply Nat.ltb_lt in Hi. rewrite Hi, Hk. apply Nat.ltb_lt in Hi.
    assert (Hch : chunks (size sh) n (List.concat (map rowf vals)) = map rowf vals).
    { rewrite <- Hn, <- (map_length rowf vals). apply chunks_concat. exact Hrowlen. }
    rewrite Hch. rewrite (nth_map_d rowf vals i (PInt 0) []) by lia.
    destruct sh as [|s0 sr]; [contradiction|]. reflexivity. }
  constructor.
  - intros i Hi. eexists. apply Hrow. exact Hi.
  - intros i Hi. rewrite (elem_missing_ext _ (PFixed (mkarr DBool [0%nat] []))). apply missing_arr_spec. exact Hi.
  - intros i v Hv. assert (Hi : i < n) by (apply nth_error_Some; rewrite Hv; discriminate).
    pose proof (filled_nth_some col i v Hv) as Hf. fold vals in Hf.
    assert (Hin : In v vals) by (eapply nth_error_In; eauto).
    eapply Forall_forall in Hall; eauto.
    exists (CArr k sh (rowf v)). split; [apply (cv_of_list d k sh v Hok Hk Hall)|].
    rewrite (Hrow i Hi). f_equal. f_equal. f_equal. apply nth_error_nth. exact Hf.
  - split; cbn [p_vals p_missing].
    + exists sh. reflexivity.
    + pose proof (missing_arr_len col) as Hm. destruct (missing_arr col); cbn; tauto.
  - unfold upcast_prop, upcast_arr, a. cbn [p_vals p_missing a_dt]. destruct Hok as [->|[->|[->|[->| ->]]]]; reflexivity.
  - intros name Hname. unfold encodable. cbn [fst snd]. unfold create_props_metadata, vlen_dtypes_uniform, cpm_core, encode_prop, upcast_prop, upcast_arr, a.
    cbn [p_vals p_missing a_dt].
    assert (Hf16 : dtype_eqb d DF16 = false) by (destruct Hok as [->|[->|[->|[->| ->]]]]; reflexivity).
    rewrite Hf16. cbn [p_vals a_dt]. rewrite (valid_scalar_dt d Hok).
    destruct (String.eqb name "") eqn:E; [apply String.eqb_eq in E; contradiction|]. cbn. eexists. eexists. split; reflexivity.
  - split; [reflexivity|]. cbn [p_missing]. pose proof (missing_arr_len col) as Hm. destruct (missing_arr col); tauto.
Qed.

(* ---------- ragged list columns: a variable-length property ---------- *)
Lemma max_bits_const' p dt ds : ds <> [] -> Forall (fun d => d = dt) ds -> max_bits p ds = if p dt then bits dt else 0%nat.
Proof. intros Hne H. induction ds as [|d r IH]; [contradiction|]. apply Forall_cons_iff in H. destruct H as [-> Hr].
  cbn [max_bits]. destruct r as [|d' r'].
  - cbn. destruct (p dt); [apply Nat.max_0_r | reflexivity].
  - rewrite IH by (auto; discriminate). destruct (p dt); [apply Nat.max_id | reflexivity]. Qed.

Lemma result_type_ok_dt dt ds : ds <> [] -> Forall (fun d => d = dt) ds -> ok_dt dt -> result_type ds = Some dt.
Proof.
  intros Hne H Hok. unfold result_type. destruct ds as [|d0 r] eqn:E; [contradiction|]. rewrite <- E in *.
  assert (Hd0 : d0 = dt) by (rewrite E in H; apply Forall_cons_iff in H; tauto). subst d0.
  destruct (forallb is_numeric ds) eqn:Hnum.
  - unfold result_type_num. rewrite !(max_bits_const' _ dt ds Hne H).
    destruct Hok as [->|[->|[->|[->| ->]]]]; try reflexivity.
    exfalso. rewrite E in Hnum. cbn in Hnum. discriminate.
  - assert (Hall : forallb (dtype_eqb dt) ds = true).
    { apply forallb_forall. intros x Hx. eapply Forall_forall in H; eauto. subst x. apply dtype_eqb_refl. }
    rewrite Hall. reflexivity.
Qed.

Lemma max_rank_const r (elems : list varr) : elems <> [] -> Forall (fun e => length (v_shape e) = r) elems -> max_rank elems = r.
Proof. intros Hne H. induction elems as [|e es IH]; [contradiction|]. apply Forall_cons_iff in H. destruct H as [He Hes].
  cbn [max_rank]. rewrite He. destruct es as [|e' es']; [cbn; apply Nat.max_0_r|]. rewrite IH by (auto; discriminate). apply Nat.max_id. Qed.

Lemma somes_map_some {A} (l : list A) : somes (map Some l) = l.
Proof. induction l as [|x l IH]; cbn; [reflexivity | rewrite IH; reflexivity]. Qed.

Lemma pad_shape_same r sh : length sh = r -> pad_shape r sh = sh.
Proof. intro H. unfold pad_shape. rewrite H, Nat.sub_diag. reflexivity. Qed.

Definition elem_of (d : dtype) (v : pyval) : varr :=
  {| v_dt := d; v_shape := match py_shape v with Some sh => sh | None => [] end; v_flat := map scalar_payload (py_leaves v) |}.

Theorem ragged_list_column col d r : ok_dt d -> filled col <> [] ->
  py_shape (PList (filled col)) = None ->
  Forall (fun v => exists sh, length sh = r /\ list_val d sh v) (filled col) ->
  exists p, dict_prop col = Ok p /\ good_col cv_of_py col p.
Proof.
  intros Hok Hne Hrag Hall. destruct (ok_dt_sk d Hok) as [k Hk].
  set (vals := filled col) in *. set (n := length col).
  assert (Hn : length vals = n) by apply filled_length.
  set (elems := map (elem_of d) vals).
  assert (Helem : forall v, In v vals -> elem_asarray v = Ok (elem_of d v) /\ length (v_shape (elem_of d v)) = r /\ wf_varr (elem_of d v)).
  { intros v Hv. eapply Forall_forall in Hall; eauto. destruct Hall as [sh [Hr [_ [Hs [Hl Hlne]]]]].
    unfold elem_asarray, elem_of. rewrite Hs, (leaves_dt_ok d _ Hok Hlne Hl), (leaf_payloads d _ Hl). cbn [v_shape v_flat].
    split; [reflexivity|]. split; [exact Hr|]. unfold wf_varr. cbn [v_flat v_shape]. rewrite map_length. apply leaves_length. exact Hs. }
  assert (Hm : mapM elem_asarray vals = Ok elems) by (apply mapM_ok; intros v Hv; apply (Helem v Hv)).
  assert (Helems_ne : elems <> []) by (unfold elems; destruct vals; [contradiction | discriminate]).
  assert (Hdts : Forall (fun x => x = d) (map v_dt elems)).
  { apply Forall_forall. intros x Hx. apply in_map_iff in Hx. destruct Hx as [e [<- He]]. unfold elems in He.
    apply in_map_iff in He. destruct He as [v [<- _]]. reflexivity. }
  assert (Hranks : Forall (fun e => length (v_shape e) = r) elems).
  { apply Forall_forall. intros e He. unfold elems in He. apply in_map_iff in He. destruct He as [v [<- Hv]]. apply (Helem v Hv). }
  assert (Hctd : common_type_dims (map Some elems) = Ok (d, r)).
  { unfold common_type_dims. rewrite somes_map_some. destruct elems as [|e0 er] eqn:Ee; [contradiction|]. rewrite <- Ee in *.
    rewrite (result_type_ok_dt d (map v_dt elems)); [| rewrite Ee; discriminate | exact Hdts | exact Hok].
    assert (Hcc : forallb (fun a => can_cast_safe (v_dt a) d) elems = true).
    { apply forallb_forall. intros a Ha. assert (Hda : v_dt a = d).
      { eapply Forall_forall in Hdts; [exact Hdts | apply in_map; exact Ha]. }
      rewrite Hda. apply can_cast_refl. }
    rewrite Hcc. rewrite (max_rank_const r elems Helems_ne Hranks). reflexivity. }
  assert (Hnorm : map (normalise_one d r) (map Some elems) = elems).
  { rewrite map_map. rewrite <- (map_id elems) at 2. apply map_ext_in. intros e He. cbn [normalise_one].
    assert (Hde : v_dt e = d) by (eapply Forall_forall in Hdts; [exact Hdts | apply in_map; exact He]).
    eapply Forall_forall in Hranks; eauto. rewrite (pad_shape_same r _ Hranks). rewrite Hde.
    rewrite (map_ext _ (fun z => z) (cast_payload_same d)), map_id. destruct e; cbn in *. subst. reflexivity. }
  set (p := mkprop (PVlen elems) (missing_arr col)).
  assert (Hp : dict_prop col = Ok p).
  { unfold dict_prop. fold vals. unfold asarray. rewrite Hrag. rewrite Hm. unfold construct. rewrite Hctd, Hnorm. reflexivity. }
  exists p. split; [exact Hp|].
  assert (Hrow : forall i, i < n -> elem_val p i = Ok (CArr k (v_shape (elem_of d (nth i vals (PInt 0)))) (v_flat (elem_of d (nth i vals (PInt 0)))))).
  { intros i Hi. unfold elem_val, p. cbn [p_vals]. unfold elems. rewrite nth_error_map.
    rewrite (nth_error_nth' vals (PInt 0)) by lia. cbn [option_map]. cbn [v_dt elem_of]. rewrite Hk. reflexivity. }
  constructor.
  - intros i Hi. eexists. apply Hrow. exact Hi.
  - intros i Hi. unfold p. rewrite (elem_missing_ext _ (PFixed (mkarr DBool [0%nat] []))). apply missing_arr_spec. exact Hi.
  - intros i v Hv. assert (Hi : i < n) by (apply nth_error_Some; rewrite Hv; discriminate).
    pose proof (filled_nth_some col i v Hv) as Hf. fold vals in Hf.
    assert (Hin : In v vals) by (eapply nth_error_In; eauto).
    pose proof Hall as Hall'. eapply Forall_forall in Hall'; eauto. destruct Hall' as [sh [Hr Hlv]].
    exists (CArr k sh (map scalar_payload (py_leaves v))). split; [apply (cv_of_list d k sh v Hok Hk Hlv)|].
    rewrite (Hrow i Hi). rewrite (nth_error_nth _ _ (PInt 0) Hf). unfold elem_of. cbn [v_shape v_flat].
    destruct Hlv as [_ [Hs _]]. rewrite Hs. reflexivity.
  - split; cbn [p_vals p_missing p].
    + split; [unfold elems; rewrite map_length; exact Hn|]. apply Forall_forall. intros e He. unfold elems in He.
      apply in_map_iff in He. destruct He as [v [<- Hv]]. apply (Helem v Hv).
    + pose proof (missing_arr_len col) as Hmm. destruct (missing_arr col); cbn; tauto.
  - unfold p. apply upcast_prop_vlen_id. apply Forall_forall. intros x Hx.
    assert (Hdx : v_dt x = d) by (eapply Forall_forall in Hdts; [exact Hdts | apply in_map; exact Hx]).
    rewrite Hdx. destruct Hok as [->|[->|[->|[->| ->]]]]; discriminate.
  - intros name Hname. unfold encodable. cbn [fst snd]. unfold create_props_metadata, vlen_dtypes_uniform, cpm_core, encode_prop.
    assert (Hup : upcast_prop p = p).
    { unfold p. apply upcast_prop_vlen_id. apply Forall_forall. intros x Hx.
      assert (Hdx : v_dt x = d) by (eapply Forall_forall in Hdts; [exact Hdts | apply in_map; exact Hx]).
      rewrite Hdx. destruct Hok as [->|[->|[->|[->| ->]]]]; discriminate. }
    rewrite Hup. cbn [p_vals p].
    destruct elems as [|e0 er] eqn:Ee; [contradiction|]. rewrite <- Ee in *.
    assert (Hde0 : v_dt e0 = d) by (eapply Forall_forall in Hdts; [exact Hdts | rewrite Ee; left; reflexivity]).
    assert (Hsame : forallb (fun x => dtype_eqb (v_dt x) (v_dt e0)) er = true).
    { apply forallb_forall. intros x Hx. assert (Hdx : v_dt x = d) by (eapply Forall_forall in Hdts; [exact Hdts | rewrite Ee; right; apply in_map; exact Hx]).
      rewrite Hdx, Hde0. apply dtype_eqb_refl. }
    rewrite Ee. rewrite Hsame, Hde0, (valid_scalar_dt d Hok).
    destruct (String.eqb name "") eqn:E; [apply String.eqb_eq in E; contradiction|]. cbn [andb negb].
    assert (Hser : exists res, serialize (e0 :: er) = Ok res).
    { apply serialize_ok_iff. unfold uniform, uniform_with. rewrite <- Ee. apply Forall_forall. intros x Hx.
      assert (Hrx : length (v_shape x) = r) by (eapply Forall_forall in Hranks; eauto).
      assert (Hr0 : length (v_shape e0) = r) by (eapply Forall_forall in Hranks; [exact Hranks | rewrite Ee; left; reflexivity]).
      assert (Hdx : v_dt x = d) by (eapply Forall_forall in Hdts; [exact Hdts | apply in_map; exact Hx]).
      split; congruence. }
    destruct Hser as [[rows data] Hser]. rewrite Hser. eexists. eexists. split; reflexivity.
  - split; [cbn [plen p_vals p]; unfold elems; rewrite map_length, Hn; reflexivity|].
    cbn [p_missing p]. pose proof (missing_arr_len col) as Hmm. destruct (missing_arr col); tauto.
Qed.

(* ---------- columns of lists without any leaf: every value is [] (or [[], []], ... of one shape) ---------- *)
Lemma chunks_nil_nth {A} k : forall n i, nth i (chunks k n (@nil A)) [] = [].
Proof. induction n as [|n IH]; intros [|i]; cbn [chunks nth]; try reflexivity.
  - destruct k; reflexivity.
  - replace (skipn k (@nil A)) with (@nil A) by (destruct k; reflexivity). apply IH. Qed.

Lemma flat_map_nil {A B} (f : A -> list B) l : (forall x, In x l -> f x = []) -> flat_map f l = [].
Proof. induction l as [|x l IH]; intro H; cbn; [reflexivity|]. rewrite (H x (or_introl eq_refl)), IH; [reflexivity|]. intros y Hy. apply H. right. exact Hy. Qed.

Definition empty_val (sh : list nat) (v : pyval) : Prop := is_plist v = true /\ py_shape v = Some sh.

Theorem empty_list_column col sh : sh <> [] -> size sh = 0 -> filled col <> [] ->
  Forall (empty_val sh) (filled col) ->
  exists p, dict_prop col = Ok p /\ good_col cv_of_py col p.
Proof.
  intros Hsh Hz Hne Hall. set (vals := filled col) in *. set (n := length col).
  assert (Hn : length vals = n) by apply filled_length.
  assert (Hnl : forall v, In v vals -> py_leaves v = []).
  { intros v Hv. eapply Forall_forall in Hall; eauto. destruct Hall as [_ Hs]. apply length_zero_iff_nil. rewrite (leaves_length v sh Hs). exact Hz. }
  set (a := mkarr DF64 (n :: sh) []).
  assert (Has : asarray vals = AFixed a).
  { unfold asarray.
    assert (Hps : py_shape (PList vals) = Some (n :: sh)).
    { cbn [py_shape]. destruct vals as [|v r] eqn:Ev; [contradiction|].
      apply Forall_cons_iff in Hall. destruct Hall as [[_ Hsv] Hr]. cbn [map common_shape]. rewrite Hsv.
      assert (Hfa : forallb (fun o : option (list nat) => match o with Some s' => natlist_eqb sh s' | None => false end) (map py_shape r) = true).
      { apply forallb_forall. intros o Ho. apply in_map_iff in Ho. destruct Ho as [y [<- Hy]].
        eapply Forall_forall in Hr; eauto. destruct Hr as [_ Hsy]. rewrite Hsy. apply natlist_eqb_eq. reflexivity. }
      rewrite Hfa. cbn [length]. rewrite map_length. cbn [length] in Hn. rewrite Hn. reflexivity. }
    rewrite Hps. cbn [py_leaves].
    assert (Hfl : flat_map py_leaves vals = []) by (apply flat_map_nil; exact Hnl).
    rewrite Hfl. reflexivity. }
  exists (mkprop (PFixed a) (missing_arr col)). split; [unfold dict_prop; fold vals; rewrite Has; reflexivity|].
  assert (Hrow : forall i, i < n -> elem_val (mkprop (PFixed a) (missing_arr col)) i = Ok (CArr SFloat sh [])).
  { intros i Hi. unfold elem_val, row_cval. cbn [p_vals a a_shape a_dt a_flat sk_of]. apply Nat.ltb_lt in Hi. rewrite Hi.
    rewrite chunks_nil_nth. destruct sh as [|s0 sr]; [contradiction|]. reflexivity. }
  constructor.
  - intros i Hi. eexists. apply Hrow. exact Hi.
  - intros i Hi. rewrite (elem_missing_ext _ (PFixed (mkarr DBool [0%nat] []))). apply missing_arr_spec. exact Hi.
  - intros i v Hv. assert (Hi : i < n) by (apply nth_error_Some; rewrite Hv; discriminate).
    pose proof (filled_nth_some col i v Hv) as Hf. fold vals in Hf.
    assert (Hin : In v vals) by (eapply nth_error_In; eauto).
    pose proof Hall as Hall'. eapply Forall_forall in Hall'; eauto. destruct Hall' as [Hpl Hs].
    exists (CArr SFloat sh []). split; [|apply Hrow; exact Hi].
    destruct v; try discriminate. unfold cv_of_py. rewrite Hs, (Hnl _ Hin). reflexivity.
  - split; cbn [p_vals p_missing].
    + exists sh. reflexivity.
    + pose proof (missing_arr_len col) as Hm. destruct (missing_arr col); cbn; tauto.
  - reflexivity.
  - intros name Hname. unfold encodable. cbn [fst snd]. unfold create_props_metadata, vlen_dtypes_uniform, cpm_core, encode_prop, upcast_prop, upcast_arr, a.
    cbn [p_vals p_missing a_dt dtype_eqb]. cbn [p_vals a_dt].
    assert (Hv : valid_prop_dtype DF64 = true) by (vm_compute; reflexivity). rewrite Hv.
    destruct (String.eqb name "") eqn:E; [apply String.eqb_eq in E; contradiction|]. cbn. eexists. eexists. split; reflexivity.
  - split; [reflexivity|]. cbn [p_missing]. pose proof (missing_arr_len col) as Hm. destruct (missing_arr col); tauto.
Qed.

(* ---------- the value domain of a property column ---------- *)
(* the values, together with the fill value used where an element lacks the property, are
   (1) Python scalars numpy types alike, or (2) nested lists of one shape with leaves numpy types alike, or
   (3) nested lists of one rank but different shapes, each with leaves numpy types alike (a ragged column) *)
Definition val_col (col : list (option pyval)) : Prop :=
  col <> [] /\
  ((exists d, col_dt col = Some d) \/
   (exists d sh, ok_dt d /\ sh <> [] /\ Forall (list_val d sh) (filled col)) \/
   (exists d r, ok_dt d /\ py_shape (PList (filled col)) = None /\
                Forall (fun v => exists sh, length sh = r /\ list_val d sh v) (filled col)) \/
   (* (4) nested lists of ONE shape without any leaf (every value is [], or [[], []], ...): a float64 array of size 0 *)
   (exists sh, sh <> [] /\ size sh = 0 /\ Forall (empty_val sh) (filled col))).

Lemma good_col_scalar_ext col p : good_col cv_scalar col p -> good_col cv_of_py col p.
Proof. intros H. constructor; try apply H.
  intros i v Hv. destruct (gc_value _ _ _ H i v Hv) as [c [Hc He]]. exists c. split; [|exact He].
  destruct v; cbn in *; try exact Hc. unfold cv_scalar in Hc. cbn in Hc. discriminate. Qed.

Theorem val_col_good col : val_col col -> exists p, dict_prop col = Ok p /\ good_col cv_of_py col p.
Proof.
  intros [Hne [[d Hd]|[[d [sh [Hok [Hsh Hall]]]]|[[d [r [Hok [Hrag Hall]]]]|[sh [Hsh [Hz Hall]]]]]]].
  - destruct (scalar_column col d Hd Hne) as [p [Hp [Hg _]]]. exists p. split; [exact Hp | apply good_col_scalar_ext; exact Hg].
  - apply (fixed_list_column col d sh Hok Hsh); [|exact Hall].
    intro E. apply Hne. apply length_zero_iff_nil. rewrite <- filled_length, E. reflexivity.
  - apply (ragged_list_column col d r Hok); [|exact Hrag | exact Hall].
    intro E. apply Hne. apply length_zero_iff_nil. rewrite <- filled_length, E. reflexivity.
  - apply (empty_list_column col sh Hsh Hz); [|exact Hall].
    intro E. apply Hne. apply length_zero_iff_nil. rewrite <- filled_length, E. reflexivity.
Qed.

Lemma values_cols_ok (data : list attrs) :
  (forall name, In name (keys_of data) -> name <> "" /\ val_col (column data name)) ->
  cols_ok cv_of_py data (keys_of data).
Proof. intros H. apply Forall_forall. intros name Hin. destruct (H name Hin) as [Hne Hv]. split; [exact Hne | apply val_col_good; exact Hv]. Qed.
