(* SpecRange.v -- declarative reading of "the offset rows of a variable-length property point inside its data array"
   (docs/specification.md: "The values array will contain the offset and shape of the relevant section of data in the data
   array"), as a proposition and as the boolean the correspondence check evaluates on real stores.  Model only; the
   equivalence of the two and the totality of the reader under it are proved in ConverseTotal.v. *)
From Geff Require Import Base Dtype Vlen Tree SpecDecode.
From Geff.Gen Require Import Consts.
Open Scope string_scope.
Open Scope list_scope.

(* a row (offset, shape...) of the values table of a variable-length property points inside a data array of `len` items:
   the slice offset .. offset + product(shape) lies inside the array; an element with no items needs no room *)
Definition row_in_range (len : nat) (row : list Z) : Prop :=
  match row with
  | [] => False
  | off :: shape => product (map Z.to_nat shape) = 0%nat \/ Z.to_nat off + product (map Z.to_nat shape) <= len
  end.

Definition prop_in_range (pg : znode) : Prop :=
  match member pg "values", member pg "data" with
  | Some (ZA v), Some (ZA d) =>
      match a_shape v with
      | n :: rest => Forall (row_in_range (length (a_flat d))) (split_rows (product rest) n (a_flat v))
      | [] => True
      end
  | _, _ => True
  end.

Definition group_in_range (g : znode) : Prop :=
  forall pg name node, member g "props" = Some pg -> In (name, node) (children pg) -> prop_in_range node.

Definition offsets_in_range (root : znode) : Prop :=
  forall grp g, grp = path_NODES \/ grp = path_EDGES -> get root grp = Some g -> group_in_range g.

(* the same, decidable *)
Definition row_in_range_b (len : nat) (row : list Z) : bool :=
  match row with
  | [] => false
  | off :: shape => Nat.eqb (product (map Z.to_nat shape)) 0 || Nat.leb (Z.to_nat off + product (map Z.to_nat shape)) len
  end.

Definition prop_in_range_b (pg : znode) : bool :=
  match member pg "values", member pg "data" with
  | Some (ZA v), Some (ZA d) =>
      match a_shape v with
      | n :: rest => forallb (row_in_range_b (length (a_flat d))) (split_rows (product rest) n (a_flat v))
      | [] => true
      end
  | _, _ => true
  end.

Definition group_in_range_b (g : znode) : bool :=
  match member g "props" with
  | Some pg => forallb (fun kv => prop_in_range_b (snd kv)) (children pg)
  | None => true
  end.

Definition offsets_in_range_b (root : znode) : bool :=
  forallb (fun grp => match get root grp with Some g => group_in_range_b g | None => true end) [path_NODES; path_EDGES].
