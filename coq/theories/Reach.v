(* Reach.v -- fuelled undirected reachability inside a vertex set, proved sound and complete
   w.r.t. the reflexive-transitive closure of the symmetric adjacency restricted to V. *)
From Coq Require Import Relations.
From Geff Require Import Base.
Open Scope Z_scope.
Open Scope list_scope.

Definition node := Z.
Definition edge := (node * node)%type.

Definition memb (x : node) (l : list node) : bool := existsb (Z.eqb x) l.
Lemma memb_In x l : memb x l = true <-> In x l.
Proof. unfold memb. rewrite existsb_exists. split.
  - intros [y [Hy He]]. apply Z.eqb_eq in He. subst. exact Hy.
  - intros H. exists x. split; [exact H | apply Z.eqb_refl]. Qed.

(* undirected adjacency restricted to vertex set V *)
Definition adjb (E : list edge) (u v : node) : bool :=
  existsb (fun e => (Z.eqb (fst e) u && Z.eqb (snd e) v) || (Z.eqb (fst e) v && Z.eqb (snd e) u)) E.
Definition adj (E : list edge) (u v : node) : Prop := In (u, v) E \/ In (v, u) E.
Lemma adjb_adj E u v : adjb E u v = true <-> adj E u v.
Proof. unfold adjb, adj. rewrite existsb_exists. split.
  - intros [[a b] [Hin H]]. cbn in H. apply orb_true_iff in H. destruct H as [H|H];
    apply andb_true_iff in H; destruct H as [H1 H2]; apply Z.eqb_eq in H1, H2; subst; auto.
  - intros [H|H]; [exists (u,v) | exists (v,u)]; split; auto; cbn; rewrite !Z.eqb_refl; cbn; auto using orb_true_r.
Qed.

(* one expansion round inside V *)
Definition expand (E : list edge) (V S : list node) : list node :=
  S ++ filter (fun v => negb (memb v S) && existsb (fun u => adjb E u v) S) V.

Fixpoint iter (n : nat) (E : list edge) (V S : list node) : list node :=
  match n with O => S | S n' => iter n' E V (expand E V S) end.

Definition reach (E : list edge) (V : list node) (r : node) : list node :=
  iter (length V) E V [r].

(* connectivity inside V *)
Definition radj (E : list edge) (V : list node) (u v : node) : Prop := In u V /\ In v V /\ adj E u v.
Definition conn E V := clos_refl_trans node (radj E V).

Lemma expand_incl E V S : incl S (expand E V S).
Proof. unfold expand. intros x Hx. apply in_or_app. auto. Qed.

Lemma expand_In E V S v : In v (expand E V S) <-> In v S \/ (In v V /\ ~ In v S /\ exists u, In u S /\ adj E u v).
Proof. unfold expand. rewrite in_app_iff, filter_In. split.
  - intros [H|[HV H]]; auto. right. apply andb_true_iff in H. destruct H as [H1 H2].
    split; auto. split.
    + intro Hc. apply memb_In in Hc. rewrite Hc in H1. discriminate.
    + apply existsb_exists in H2. destruct H2 as [u [Hu Ha]]. exists u. split; auto. apply adjb_adj; auto.
  - intros [H|[HV [Hn [u [Hu Ha]]]]]; auto. right. split; auto. apply andb_true_iff. split.
    + destruct (memb v S) eqn:Em; auto. apply memb_In in Em. contradiction.
    + apply existsb_exists. exists u. split; auto. apply adjb_adj; auto.
Qed.

(* Soundness *)
Lemma iter_sound E V r n S : (forall x, In x S -> conn E V r x) -> incl S V ->
  forall x, In x (iter n E V S) -> conn E V r x.
Proof. revert S. induction n as [|n IH]; intros S HS HV x Hx; cbn in Hx; auto.
  eapply IH; [| |exact Hx].
  - intros y Hy. apply expand_In in Hy. destruct Hy as [Hy|[HyV [_ [u [Hu Ha]]]]]; auto.
    eapply rt_trans; [apply HS; exact Hu|]. apply rt_step. split; [apply HV; auto|]. auto.
  - intros y Hy. apply expand_In in Hy. destruct Hy as [Hy|[HyV _]]; auto.
Qed.

Theorem reach_sound E V r x : In r V -> In x (reach E V r) -> conn E V r x.
Proof. intros Hr Hx. unfold reach in Hx. eapply iter_sound; [| |exact Hx].
  - intros y [<-|[]]. apply rt_refl.
  - intros y [<-|[]]. exact Hr. Qed.

(* Completeness: via fixpoint within length V rounds *)

Lemma NoDup_app_intro {A} (l l' : list A) :
  NoDup l -> NoDup l' -> (forall x, In x l -> ~ In x l') -> NoDup (l ++ l').
Proof. induction l as [|a l IH]; intros Hl Hl' Hd; cbn; auto.
  inversion Hl as [|? ? Hna Hnd]; subst. constructor.
  - rewrite in_app_iff. intros [H|H]; [contradiction|]. apply (Hd a); cbn; auto.
  - apply IH; auto. intros x Hx. apply Hd. cbn; auto. Qed.

Definition fresh (E : list edge) (V S : list node) : list node :=
  filter (fun v => negb (memb v S) && existsb (fun u => adjb E u v) S) V.
Lemma expand_eq E V S : expand E V S = S ++ fresh E V S. Proof. reflexivity. Qed.

Lemma fresh_notin E V S x : In x (fresh E V S) -> ~ In x S.
Proof. unfold fresh. rewrite filter_In. intros [_ H] Hc. apply andb_true_iff in H. destruct H as [H _].
  apply memb_In in Hc. rewrite Hc in H. discriminate. Qed.
Lemma fresh_inV E V S x : In x (fresh E V S) -> In x V.
Proof. unfold fresh. rewrite filter_In. tauto. Qed.

Lemma expand_NoDup E V S : NoDup V -> NoDup S -> NoDup (expand E V S).
Proof. intros HV HS. rewrite expand_eq. apply NoDup_app_intro; auto.
  - apply NoDup_filter; auto.
  - intros x Hx Hf. eapply fresh_notin; eauto. Qed.
Lemma expand_inclV E V S : incl S V -> incl (expand E V S) V.
Proof. intros H x Hx. rewrite expand_eq in Hx. apply in_app_iff in Hx. destruct Hx; auto. eapply fresh_inV; eauto. Qed.

Lemma iter_stable_id E V n S : fresh E V S = [] -> iter n E V S = S.
Proof. intros H. induction n as [|n IH]; cbn; auto. rewrite expand_eq, H, app_nil_r. exact IH. Qed.

Lemma iter_fix E V : NoDup V -> forall n S, NoDup S -> incl S V -> (length V <= length S + n)%nat ->
  fresh E V (iter n E V S) = [].
Proof. intros HV. induction n as [|n IH]; intros S HS Hi Hlen; cbn.
  - assert (Hvs : incl V S) by (apply NoDup_length_incl; auto; lia).
    destruct (fresh E V S) as [|x l] eqn:Ef; auto. exfalso.
    assert (Hx : In x (fresh E V S)) by (rewrite Ef; cbn; auto).
    apply (fresh_notin _ _ _ _ Hx). apply Hvs. eapply fresh_inV; eauto.
  - destruct (fresh E V S) as [|x l] eqn:Ef.
    + rewrite expand_eq, Ef, app_nil_r. rewrite iter_stable_id; auto.
    + apply IH.
      * apply expand_NoDup; auto.
      * apply expand_inclV; auto.
      * rewrite expand_eq, Ef, app_length. cbn. lia.
Qed.

Lemma fresh_nil_closed E V S : fresh E V S = [] ->
  forall u v, In u S -> radj E V u v -> In v S.
Proof. intros Hf u v Hu [HuV [HvV Ha]].
  destruct (memb v S) eqn:Em; [apply memb_In; auto|]. exfalso.
  assert (In v (fresh E V S)).
  { unfold fresh. apply filter_In. split; auto. rewrite Em. cbn.
    apply existsb_exists. exists u. split; auto. apply adjb_adj; auto. }
  rewrite Hf in H. inversion H. Qed.

Lemma iter_incl E V n S : incl S (iter n E V S).
Proof. revert S. induction n as [|n IH]; intros S x Hx; cbn; auto. apply IH. apply expand_incl. exact Hx. Qed.

Theorem reach_complete E V r x : NoDup V -> In r V -> conn E V r x -> In x (reach E V r).
Proof. intros HV Hr Hc. unfold reach.
  assert (Hfix : fresh E V (iter (length V) E V [r]) = []).
  { apply iter_fix.
    + exact HV.
    + constructor; [intros []|constructor].
    + intros y [<-|[]]; auto.
    + cbn. lia. }
  apply clos_rt_rtn1 in Hc.
  induction Hc as [|b c Hbc Hrb IH].
  - apply iter_incl. cbn; auto.
  - eapply fresh_nil_closed; eauto.
Qed.

(* connectivity is an equivalence on V *)
Lemma radj_sym E V u v : radj E V u v -> radj E V v u.
Proof. intros [Hu [Hv [H|H]]]; repeat split; auto; [right|left]; exact H. Qed.

Lemma conn_sym E V u v : conn E V u v -> conn E V v u.
Proof.
  intros H. induction H as [x y Hxy|x|x y z _ IH1 _ IH2].
  - apply rt_step. apply radj_sym. exact Hxy.
  - apply rt_refl.
  - eapply rt_trans; eauto.
Qed.

Lemma conn_trans E V u v w : conn E V u v -> conn E V v w -> conn E V u w.
Proof. intros H1 H2. eapply rt_trans; eauto. Qed.

(* a connection that leaves its start stays inside V *)
Lemma conn_in E V u v : conn E V u v -> u = v \/ (In u V /\ In v V).
Proof.
  intros H. induction H as [x y [Hx [Hy _]]|x|x y z _ IH1 _ IH2]; auto.
  destruct IH1 as [->|[H1 H2]]; [exact IH2|]. destruct IH2 as [<-|[H3 H4]]; auto.
Qed.
