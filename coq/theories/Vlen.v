(* Vlen.v -- model of geff.core_io._serialization (serialize / deserialize of
   variable-length properties) and of geff.core_io._utils._get_common_type_dims /
   construct_var_len_props.  Model only (executable); proofs are in VlenLemmas.v. *)
From Geff Require Import Base Dtype.
Open Scope nat_scope.
Open Scope list_scope.

(* an element of a variable-length property: a numpy array *)
Record varr := { v_dt : dtype; v_shape : list nat; v_flat : list Z }.

Definition size (sh : list nat) : nat := fold_right Nat.mul 1 sh.
Definition wf_varr (a : varr) : Prop := length (v_flat a) = size (v_shape a).
Definition wf_varrb (a : varr) : bool := Nat.eqb (length (v_flat a)) (size (v_shape a)).

(* ---------------- serialize_vlen_property_data ---------------- *)
(* rows of the `values` table are  offset :: shape ; data is the concatenation
   of the ravelled elements.  ndim / dtype of the first element are remembered
   and every later element is compared with them (ValueError otherwise). *)
Fixpoint ser_go (nd : option nat) (dt : option dtype) (off : nat) (vals : list varr)
  : res (list (list nat) * list Z) :=
  match vals with
  | [] => Ok ([], [])
  | a :: r =>
      if match nd with None => true | Some n => Nat.eqb n (length (v_shape a)) end then
        if match dt with None => true | Some d => dtype_eqb d (v_dt a) end then
          match ser_go (Some (length (v_shape a))) (Some (v_dt a)) (off + size (v_shape a)) r with
          | Ok (rows, data) => Ok ((off :: v_shape a) :: rows, v_flat a ++ data)
          | Err e => Err e
          end
        else Err ValueError
      else Err ValueError
  end.

Definition serialize (vals : list varr) : res (list (list nat) * list Z) :=
  ser_go None None 0 vals.

(* dtype of the data array: that of the elements, int64 for an empty sequence *)
Definition ser_dtype (vals : list varr) : dtype :=
  match vals with [] => DI64 | a :: _ => v_dt a end.

(* ---------------- deserialize_vlen_property_data ---------------- *)
(* numpy slicing truncates at the end of `data`; reshape then raises ValueError *)
Definition deser_one (data : list Z) (row : list nat) : res (list nat * list Z) :=
  match row with
  | [] => Err IndexError
  | off :: sh =>
      let chunk := firstn (size sh) (skipn off data) in
      if Nat.eqb (length chunk) (size sh) then Ok (sh, chunk) else Err ValueError
  end.

Definition deserialize (rows : list (list nat)) (data : list Z) : res (list (list nat * list Z)) :=
  mapM (deser_one data) rows.

(* ---------------- np.result_type over a set of dtypes ---------------- *)
Definition is_signed (d : dtype) : bool := match kind_of d with KInt => true | _ => false end.
Definition is_unsigned (d : dtype) : bool := match kind_of d with KUint => true | _ => false end.

Fixpoint max_bits (p : dtype -> bool) (ds : list dtype) : nat :=
  match ds with
  | [] => 0
  | d :: r => if p d then Nat.max (bits d) (max_bits p r) else max_bits p r
  end.

Definition mfb (int_bits : nat) : nat :=
  match int_bits with 0 => 0 | _ => min_float_bits int_bits end.

(* np.result_type over ds for numeric dtypes: a function of four maxima, hence of
   the *set* of dtypes (this is what makes normalisation order-free). *)
Definition result_type_num (ds : list dtype) : dtype :=
  let f := max_bits is_float ds in
  let s := max_bits is_signed ds in
  let u := max_bits is_unsigned ds in
  if Nat.ltb 0 f then flt (Nat.max f (Nat.max (mfb s) (mfb u)))
  else if Nat.ltb 0 s then
    (if Nat.ltb u s then sint s else if Nat.eqb u 64 then DF64 else sint (2 * u))
  else if Nat.ltb 0 u then uint u
  else DBool.

(* non-numeric dtypes (strings, bytes, object) only combine with themselves *)
Definition result_type (ds : list dtype) : option dtype :=
  match ds with
  | [] => None
  | d :: _ =>
      if forallb is_numeric ds then Some (result_type_num ds)
      else if forallb (dtype_eqb d) ds then Some d else None
  end.

(* ---------------- _get_common_type_dims / construct_var_len_props ---------------- *)
Fixpoint somes {A} (l : list (option A)) : list A :=
  match l with [] => [] | None :: r => somes r | Some a :: r => a :: somes r end.

Fixpoint max_rank (l : list varr) : nat :=
  match l with [] => 0 | a :: r => Nat.max (length (v_shape a)) (max_rank r) end.

(* Ok (dtype, ndim); all-None or empty => (int64, 1) with a warning;
   incompatible dtypes => ValueError *)
Definition common_type_dims (l : list (option varr)) : res (dtype * nat) :=
  match somes l with
  | [] => Ok (DI64, 1)
  | elems =>
      match result_type (map v_dt elems) with
      | None => Err ValueError
      | Some dt =>
          if forallb (fun a => can_cast_safe (v_dt a) dt) elems
          then Ok (dt, max_rank elems) else Err ValueError
      end
  end.

Definition pad_shape (nd : nat) (sh : list nat) : list nat :=
  repeat 1 (nd - length sh) ++ sh.

Definition is_none {A} (o : option A) : bool := match o with None => true | Some _ => false end.

Definition normalise_one (dt : dtype) (nd : nat) (o : option varr) : varr :=
  match o with
  | None => {| v_dt := dt; v_shape := repeat 0 nd; v_flat := repeat 0%Z (size (repeat 0 nd)) |}
  | Some a => {| v_dt := dt; v_shape := pad_shape nd (v_shape a);
                 v_flat := map (cast_payload (v_dt a) dt) (v_flat a) |}
  end.

Definition construct (l : list (option varr)) : res (list varr * option (list bool)) :=
  match common_type_dims l with
  | Err e => Err e
  | Ok (dt, nd) =>
      let miss := map is_none l in
      Ok (map (normalise_one dt nd) l, if existsb (fun b => b) miss then Some miss else None)
  end.
