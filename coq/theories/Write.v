(* Write.v -- model of the write path of geff.core_io: check_for_geff, delete_geff,
   write_id_arrays, write_props_arrays (create_props_metadata, serialize), the metadata
   pipeline (add_or_update_props_metadata, compute_and_add_axis_min_max), GeffMetadata.write,
   and write_arrays with its validate-then-clean-up tail.  A state monad over the abstract
   tree records the state after every mutation (the trace used for crash points).
   Model only; proofs in WriteLemmas.v. *)
From Geff Require Import Base Dtype Vlen Tree Validate.
From Geff.Gen Require Import Consts.
Open Scope string_scope.
Open Scope list_scope.

(* ---------- state + trace + exceptions ---------- *)
Record st := mkst { s_root : option znode; s_trace : list (option znode) (* newest first *) }.
Definition M (A : Type) := st -> st * res A.
Definition ret {A} (a : A) : M A := fun s => (s, Ok a).
Definition fail {A} (e : exn) : M A := fun s => (s, Err e).
Definition bind {A B} (m : M A) (f : A -> M B) : M B :=
  fun s => match m s with (s', Ok a) => f a s' | (s', Err e) => (s', Err e) end.
Definition lift {A} (r : res A) : M A := fun s => (s, r).
Definition get_root : M (option znode) := fun s => (s, Ok (s_root s)).
(* one store mutation at the granularity of the model *)
Definition set_root (r : option znode) : M unit :=
  fun s => (mkst r (r :: s_trace s), Ok tt).
(* try: body / except <any>: handler *)
Definition try_any {A} (m : M A) (h : M A) : M A :=
  fun s => match m s with (s', Ok a) => (s', Ok a) | (s', Err _) => h s' end.

Declare Scope m_scope.
Delimit Scope m_scope with M.
Notation "'do' x <- m ; k" := (bind m (fun x => k)) (at level 200, x pattern, m at level 100, k at level 200) : m_scope.
Notation "m ;; k" := (bind m (fun _ => k)) (at level 199, right associativity) : m_scope.
Open Scope m_scope.

Fixpoint forM {A} (f : A -> M unit) (l : list A) : M unit :=
  match l with [] => ret tt | x :: r => f x ;; forM f r end.

Definition init (r : option znode) : st := mkst r [].
Definition run {A} (m : M A) (r : option znode) : option znode * res A :=
  let (s, x) := m (init r) in (s_root s, x).

(* ---------- zarr primitives (as geff uses them) ---------- *)
(* zarr.open_group(store, mode="a"): creates the root group when there is none *)
Definition setup_group : M znode :=
  do r <- get_root;
  match r with
  | None => set_root (Some empty_group) ;; ret empty_group
  | Some (ZA _) => fail OtherExn
  | Some g => ret g
  end.

(* group[path] = array : replaces the member, creates missing parents *)
Definition set_item (p : list string) (a : arr) : M unit :=
  do g <- setup_group;
  match put_path g p (ZA a) with
  | Some g' => set_root (Some g')
  | None => fail OtherExn
  end.

(* group.require_group(path) *)
Definition require_group (p : list string) : M unit :=
  do g <- setup_group;
  match get_path g p with
  | Some (ZG _ _) => ret tt
  | Some (ZA _) => fail OtherExn
  | None => match put_path g p empty_group with Some g' => set_root (Some g') | None => fail OtherExn end
  end.

(* parent.create_group(name): ContainsGroupError / ContainsArrayError (both ValueError) when the member exists *)
Definition create_group (p : list string) (name : string) : M unit :=
  do g <- setup_group;
  match get_path g (p ++ [name]) with
  | Some _ => fail ValueError
  | None => match put_path g (p ++ [name]) empty_group with Some g' => set_root (Some g') | None => fail OtherExn end
  end.

(* ---------- check_for_geff / delete_geff ---------- *)
Definition check_for_geff (k : skind) : M bool :=
  do r <- get_root;
  match k with
  | KPath => ret (match r with Some _ => true | None => false end)
  | KObj => ret (match r with
                 | Some (ZG a _) => ahas "geff" a
                 | _ => false
                 end)
  end.

Definition del_member (name : string) : M unit :=
  do g <- setup_group;
  match get g name with
  | Some _ => set_root (Some (del_child g name))
  | None => ret tt
  end.

Definition del_geff_attr : M unit :=
  do g <- setup_group;
  if ahas "geff" (attrs_of g) then set_root (Some (del_attr g "geff")) else fail KeyError.

(* the geff attribute goes first (un-commit), then the groups: whatever an interrupted deletion leaves is not a geff *)
Definition delete_geff (k : skind) : M unit :=
  setup_group ;;
  del_geff_attr ;;
  del_member path_NODES ;;
  del_member path_EDGES ;;
  do g <- setup_group;
  match children g, k with
  | [], KPath => set_root None                     (* shutil.rmtree of the whole path *)
  | _, _ => ret tt
  end.

(* ---------- in-memory input of the writer ---------- *)
Record wgraph := mkwg { w_nids : arr; w_eids : arr; w_nprops : option props; w_eprops : option props }.

(* float16 is upcast to float32 (value preserving: the payload encoding is unchanged) *)
Definition upcast_arr (a : arr) : arr :=
  if dtype_eqb (a_dt a) DF16 then mkarr DF32 (a_shape a) (a_flat a) else a.
Definition upcast_varr (e : varr) : varr :=
  if dtype_eqb (v_dt e) DF16 then Build_varr DF32 (v_shape e) (v_flat e) else e.
Definition upcast_prop (p : prop) : prop :=
  match p_vals p with
  | PFixed a => mkprop (PFixed (upcast_arr a)) (p_missing p)
  | PVlen l => mkprop (PVlen (map upcast_varr l)) (p_missing p)     (* every element of a var-length property is upcast too *)
  end.

(* create_props_metadata: dtype and varlength of a property (after the float16 upcast) *)
Definition new_pm (d : dtype) (vl : bool) : pmeta := mkpm d vl None None None.
(* the dtype check of a variable-length property runs on the elements AS GIVEN, before the float16 upcast: a float16 element
   next to a float32 element is "two dtypes" (ValueError), although both would be float32 after the upcast *)
Definition vlen_dtypes_uniform (p : prop) : bool :=
  match p_vals p with
  | PVlen (e :: r) => forallb (fun x => dtype_eqb (v_dt x) (v_dt e)) r
  | _ => true
  end.
Definition cpm_core (name : string) (p : prop) : res pmeta :=
  match p_vals (upcast_prop p) with
  | PFixed a =>
      if valid_prop_dtype (a_dt a) && negb (String.eqb name "") then Ok (new_pm (a_dt a) false) else Err ValueError
  | PVlen [] => Err IndexError
  | PVlen (e :: r) =>
      if forallb (fun x => dtype_eqb (v_dt x) (v_dt e)) r
      then (if valid_prop_dtype (v_dt e) && negb (String.eqb name "") then Ok (new_pm (v_dt e) true) else Err ValueError)
      else Err ValueError
  end.

Definition create_props_metadata (name : string) (p : prop) : res pmeta :=
  if vlen_dtypes_uniform p then cpm_core name p else Err ValueError.

(* the rows of the values table of a variable-length property, as a uint64 array *)
Definition rows_arr (rows : list (list nat)) : arr :=
  mkarr DU64 (match rows with [] => [0%nat] | r :: _ => [length rows; length r] end)
        (map Z.of_nat (List.concat rows)).
Definition data_arr (elems : list varr) (data : list Z) : arr :=
  mkarr (ser_dtype elems) [length data] data.

(* the three arrays stored for one property: values, missing, data *)
Definition encode_prop (p : prop) : res (arr * option arr * option arr) :=
  match p_vals (upcast_prop p) with
  | PFixed a => Ok (a, p_missing p, None)
  | PVlen elems =>
      match serialize elems with
      | Ok (rows, data) => Ok (rows_arr rows, p_missing p, Some (data_arr elems data))
      | Err e => Err e
      end
  end.

Definition write_one_prop (grp : string) (kv : string * prop) : M unit :=
  let (name, p) := kv in
  do _ <- lift (create_props_metadata name p);
  do enc <- lift (encode_prop p);
  let '(v, m, d) := enc in
  create_group [grp; path_PROPS] name ;;
  set_item [grp; path_PROPS; name; path_VALUES] v ;;
  (match m with Some ma => set_item [grp; path_PROPS; name; path_MISSING] ma | None => ret tt end) ;;
  (match d with Some da => set_item [grp; path_PROPS; name; path_DATA] da | None => ret tt end).

Definition write_props_arrays (grp : string) (ps : props) : M unit :=
  require_group [grp; path_PROPS] ;;
  forM (write_one_prop grp) ps.

(* metadata entries returned by write_props_arrays (pure part; errors surface in write_one_prop first) *)
Definition props_meta (ps : props) : list (string * pmeta) :=
  flat_map (fun kv => match create_props_metadata (fst kv) (snd kv) with Ok pm => [(fst kv, pm)] | Err _ => [] end) ps.

Definition write_id_arrays (nids eids : arr) : M unit :=
  if negb (dtype_eqb (a_dt nids) (a_dt eids)) then fail TypeError
  else if negb (is_integer (a_dt nids)) then fail TypeError
  else
    setup_group ;;
    set_item [path_NODES; path_IDS] nids ;;
    set_item [path_EDGES; path_IDS] eids.

(* ---------- metadata pipeline ---------- *)
Definition upd_pm (existing : list (string * pmeta)) (kv : string * pmeta) : list (string * pmeta) :=
  let (name, pm) := kv in
  match alookup name existing with
  | Some old => aset name (mkpm (pm_dtype pm) (pm_varlength pm) (pm_unit old) (pm_name old) (pm_descr old)) existing
  | None => existing ++ [(name, pm)]
  end.
Definition add_or_update (existing new : list (string * pmeta)) : list (string * pmeta) :=
  fold_left upd_pm new existing.

(* rows of a fixed array selected by the complement of the missing mask (values[np.logical_not(missing)]) *)
Fixpoint chunks {A} (k : nat) (n : nat) (l : list A) : list (list A) :=
  match n with O => [] | S n' => firstn k l :: chunks k n' (skipn k l) end.
Fixpoint select {A} (keep : list bool) (rows : list A) : list A :=
  match keep, rows with
  | b :: kr, x :: xr => if b then x :: select kr xr else select kr xr
  | _, _ => []
  end.
Definition zmin_list (l : list Z) : option Z :=
  match l with [] => None | x :: r => Some (fold_left Z.min r x) end.
Definition zmax_list (l : list Z) : option Z :=
  match l with [] => None | x :: r => Some (fold_left Z.max r x) end.

(* the values of an axis property over which min/max are taken; None = outside the model *)
Definition axis_values (p : prop) : option (list Z) :=
  match p_vals p with
  | PFixed a =>
      match p_missing p with
      | None => Some (a_flat a)
      | Some m =>
          if Nat.eqb (length (a_flat m)) (hd 0%nat (a_shape a))
          then Some (List.concat (select (map (fun z => Z.eqb z 0) (a_flat m))
                                         (chunks (row_size a) (hd 0%nat (a_shape a)) (a_flat a))))
          else None
      end
  | PVlen _ => None
  end.

Definition minmax_axis (nprops : props) (ax : axis) : res axis :=
  match alookup (ax_name ax) nprops with
  | None => Err ValueError
  | Some p =>
      match p_vals p with
      | PVlen _ => Err OtherExn
      | PFixed a =>
          match len0 a with
          | None => Err TypeError
          | Some O => Ok ax
          | Some _ =>
              match axis_values p with
              | None => Err IndexError
              | Some vs =>
                  match zmin_list vs, zmax_list vs with
                  | Some lo, Some hi =>
                      (* .item() of an integer coordinate becomes a float in the metadata: same number, float payload *)
                      let sc := if is_float (a_dt a) then 1%Z else fscale in
                      Ok (mkax (ax_name ax) (Some (lo * sc)%Z) (Some (hi * sc)%Z) (ax_tok ax))
                  | _, _ => Err ValueError
                  end
              end
          end
      end
  end.

Definition compute_minmax (md : smeta) (nprops : props) : res smeta :=
  match md_axes md with
  | None => Ok md
  | Some axes =>
      match mapM (minmax_axis nprops) axes with
      | Ok axes' => Ok (mkmd (md_directed md) (Some axes') (md_nprops md) (md_eprops md) (md_tok md))
      | Err e => Err e
      end
  end.

(* axis properties created for an empty graph *)
Definition empty_f64_prop : prop := mkprop (PFixed (mkarr DF64 [0%nat] [])) None.
Definition backfill (nids : arr) (md : smeta) (nprops : option props) : option props :=
  match nprops, md_axes md with
  | Some ps, Some axes =>
      if option_eqb Nat.eqb (len0 nids) (Some 0%nat)
      then Some (fold_left (fun acc ax => if ahas (ax_name ax) acc then acc else acc ++ [(ax_name ax, empty_f64_prop)]) axes ps)
      else Some ps
  | _, _ => nprops
  end.

(* GeffMetadata.write: zarr.open_group(store) (mode a) then attrs["geff"] = dump *)
Definition write_metadata (md : smeta) : M unit :=
  do g <- setup_group;
  set_root (Some (set_attr g "geff" (AGeff (Some md)))).

Definition final_metadata (g : wgraph) (md : smeta) : res smeta :=
  let nps := backfill (w_nids g) md (w_nprops g) in
  let nmeta := match nps with Some ps => props_meta ps | None => [] end in
  let emeta := match w_eprops g with Some ps => props_meta ps | None => [] end in
  let md1 := mkmd (md_directed md) (md_axes md) (add_or_update (md_nprops md) nmeta) (md_eprops md) (md_tok md) in
  let md2 := mkmd (md_directed md1) (md_axes md1) (md_nprops md1) (add_or_update (md_eprops md1) emeta) (md_tok md1) in
  match nps with
  | Some ps => compute_minmax md2 (map (fun kv => (fst kv, upcast_prop (snd kv))) ps)
  | None => Ok md2
  end.

Definition write_arrays (k : skind) (g : wgraph) (md : smeta) (validate overwrite : bool) : M unit :=
  do exists_ <- check_for_geff k;
  (if exists_ then (if overwrite then delete_geff k else fail FileExistsError) else ret tt) ;;
  write_id_arrays (w_nids g) (w_eids g) ;;
  (match len0 (w_nids g) with None => fail TypeError | Some _ => ret tt end) ;;
  let nps := backfill (w_nids g) md (w_nprops g) in
  (match nps with Some ps => write_props_arrays path_NODES ps | None => ret tt end) ;;
  (match w_eprops g with Some ps => write_props_arrays path_EDGES ps | None => ret tt end) ;;
  do md' <- lift (final_metadata g md);
  write_metadata md' ;;
  if validate then
    do r <- get_root;
    match validate_structure k r with
    | Ok _ => ret tt
    | Err ValueError => try_any (delete_geff k) (ret tt) ;; fail ValueError
    | Err e => fail e
    end
  else ret tt.

(* geff.write (_graph_libs/_api_wrapper.py): the wrapper's own overwrite guard, then the backend writer, which reaches write_arrays
   (through write_dicts) with its default overwrite=False -- two guards in a row.  The model starts at the arrays the backend hands
   over (the dictionaries -> arrays step is Dicts.v / C03). *)
Definition api_write (k : skind) (g : wgraph) (md : smeta) (validate overwrite : bool) : M unit :=
  do exists_ <- check_for_geff k;
  (if exists_ then (if overwrite then delete_geff k else fail FileExistsError) else ret tt) ;;
  write_arrays k g md validate false.
