(* Effects.v -- what the read side may do to a store (C18): the effect of zarr's open modes on the abstract
   store, the read-side entry points as programs of the store monad, and a small heap model of the
   shallow-copy / deep-copy discipline of the metadata helpers on the write side.  Model only. *)
From Geff Require Import Base Dtype Vlen Tree Validate Write Read.
From Geff.Gen Require Import Consts.
Open Scope string_scope.
Open Scope list_scope.

(* ---------- zarr.open_group(store, mode=...) ---------- *)
Inductive omode := MR | MRplus | MA | MW | MWminus.
Definition parse_mode (s : string) : option omode :=
  if String.eqb s "r" then Some MR else if String.eqb s "r+" then Some MRplus
  else if String.eqb s "a" then Some MA else if String.eqb s "default" then Some MA   (* zarr's default is append *)
  else if String.eqb s "w" then Some MW else if String.eqb s "w-" then Some MWminus else None.

(* zarr's GroupNotFoundError is a FileNotFoundError (and a ValueError); a missing directory raises FileNotFoundError *)
Definition absent_error (k : skind) : exn := FileNotFoundError.

Definition open_eff (k : skind) (m : omode) : M unit :=
  (do r <- get_root;
   match m, r with
   | (MR | MRplus), Some (ZG _ _) => ret tt
   | MR, None => fail (absent_error k)
   | MRplus, None => fail FileNotFoundError
   | (MR | MRplus), Some (ZA _) => fail ValueError
   | MA, None => set_root (Some empty_group)
   | MA, Some (ZG _ _) => ret tt
   | MA, Some (ZA _) => fail ValueError
   | MW, _ => set_root (Some empty_group)
   | MWminus, None => set_root (Some empty_group)
   | MWminus, Some _ => fail FileExistsError
   end)%M.

(* a program is read-only when it returns the very state it was given (store and trace) *)
Definition readonly {A} (m : M A) : Prop := forall s, fst (m s) = s.

(* ---------- read-side entry points ---------- *)
(* validate_structure opens through open_storelike (mode r; its error classes are part of Validate.validate_structure) *)
Definition validate_m (k : skind) : M unit := (do r <- get_root; lift (validate_structure k r))%M.
Definition metadata_read_m (k : skind) : M smeta :=
  (open_eff k MR ;; do r <- get_root; match r with Some root => lift (read_metadata root) | None => fail ValueError end)%M.
Definition reader_m (k : skind) (validate : bool) (nn en : option (list string)) (nm em : option (list bool)) : M mgraph :=
  (do r <- get_root;
   match reader_init k r validate with
   | Ok rd => lift (build rd nn en nm em)
   | Err e => fail e
   end)%M.
Definition read_to_memory_m (k : skind) (validate : bool) : M mgraph :=
  (do r <- get_root; lift (read_to_memory k r validate None None))%M.

(* ---------- aliasing of metadata objects on the write side ---------- *)
(* Axis objects live in a heap; a metadata object refers to them by address.  model_copy() is shallow (same
   addresses), copy.deepcopy allocates fresh cells.  Only min/max matter here. *)
Definition cell := (option Z * option Z)%type.
Definition heap := list cell.
Definition hget (h : heap) (a : nat) : option cell := nth_error h a.
Definition halloc (h : heap) (c : cell) : heap * nat := (h ++ [c], length h).
Fixpoint hset (h : heap) (a : nat) (c : cell) : heap :=
  match h, a with
  | [], _ => []
  | _ :: r, O => c :: r
  | x :: r, S a' => x :: hset r a' c
  end.

(* compute_and_add_axis_min_max as repaired: every axis is copied before its range is assigned *)
Fixpoint minmax_axes (h : heap) (refs : list nat) (ranges : list cell) : heap * list nat :=
  match refs, ranges with
  | r :: rs, c :: cs =>
      let (h1, r') := halloc h (match hget h r with Some old => old | None => (None, None) end) in
      let h2 := hset h1 r' c in
      let (h3, rs') := minmax_axes h2 rs cs in
      (h3, r' :: rs')
  | _, _ => (h, [])
  end.

(* the in-place variant (what the code did before the repair): assigns through the shared reference *)
Fixpoint minmax_axes_inplace (h : heap) (refs : list nat) (ranges : list cell) : heap * list nat :=
  match refs, ranges with
  | r :: rs, c :: cs => let (h', rs') := minmax_axes_inplace (hset h r c) rs cs in (h', r :: rs')
  | _, _ => (h, [])
  end.

(* what a holder of references sees *)
Definition view (h : heap) (refs : list nat) : list (option cell) := map (hget h) refs.
