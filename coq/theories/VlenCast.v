(* VlenCast.v -- what a payload MEANS: the rational number denoted by a payload at a
   numeric dtype, and the declarative statement "the cast preserved the value".
   Definitions only (no model function is unfolded here); proofs in VlenCastLemmas.v.

   Payload encoding (Dtype.v): bool 0/1, integers themselves, floats the value
   times fscale = 1024.  `denote` undoes it. *)
From Coq Require Import QArith.
From Geff Require Import Base Dtype.
Open Scope Z_scope.

Definition denote (d : dtype) (z : Z) : Q :=
  if is_float d then Qmake z 1024 else inject_Z z.

(* the value denoted by payload z at dtype d is the value denoted by the cast payload at d' *)
Definition cast_exact (d d' : dtype) (z : Z) : Prop :=
  Qeq (denote d' (cast_payload d d' z)) (denote d z).

(* the two 64-bit integer dtypes: the only sources whose safe cast to a float can round *)
Definition is_int64 (d : dtype) : bool :=
  match d with DI64 | DU64 => true | _ => false end.

(* the side condition under which a safe cast of payload z is exact *)
Definition exact_side (d d' : dtype) (z : Z) : Prop :=
  (is_int64 d && is_float d' = false) \/ Z.abs z <= 2 ^ 53.

(* objects: an element of an object array is a Python value; the payload carries a
   3-bit tag (VlenX.v: 0 int, 1 float, 2 bool, 3 str token, 4 None, 5 bytes token) *)
Definition obj_tag (d : dtype) : Z :=
  match kind_of d with KInt | KUint => 0 | KFloat => 1 | KBool => 2 | KOther => 6 end.
Definition obj_denote (p : Z) : option Q :=
  let v := p / 8 in
  match p mod 8 with
  | 0 => Some (inject_Z v)
  | 1 => Some (Qmake v 1024)
  | 2 => Some (inject_Z v)
  | _ => None
  end.
