(* ModelDomain.v -- the inputs on which the store model (Tree.v / Write.v) is FAITHFUL to the code, stated as a premise of the
   whole-store theorems of C01 / C02 / C06 instead of being left to the generators.
   The tree model keeps member names abstract and dtypes symbolic, so it accepts two kinds of property that the code does not
   store as the model says:
     * a property whose name is not one usable zarr path segment (Names.name_ok: "a/b" creates nested groups and the write is
       refused; ".", "..", the reserved member names of zarr) -- observed on the real write by the C03 correspondence (IName) and
       by the C01 oracle (a clean refusal or an exact round trip is demanded);
     * a bytes array: numpy names its dtype bytes<8*width> ("bytes24"), which is not in VALID_DTYPES, so every real bytes array is
       rejected, while the model's DBytes carries the bare name.
   Model only (definitions); the premise is not needed by any proof -- it restricts the CLAIM to where the model was tied. *)
From Geff Require Import Base Dtype Vlen Tree Write Names.
Open Scope list_scope.

Definition not_bytes (p : prop) : Prop :=
  match p_vals p with
  | PFixed a => a_dt a <> DBytes
  | PVlen els => Forall (fun e => v_dt e <> DBytes) els
  end.
Definition prop_in_domain (kv : string * prop) : Prop := name_ok (fst kv) = true /\ not_bytes (snd kv).
Definition props_in_domain (ops : option props) : Prop := forall ps, ops = Some ps -> Forall prop_in_domain ps.
(* node properties after the empty-graph axis backfill, and edge properties *)
Definition in_domain (g : wgraph) (md : smeta) : Prop :=
  props_in_domain (backfill (w_nids g) md (w_nprops g)) /\ props_in_domain (w_eprops g).
