(* EntryLemmas.v -- C06 / C05 for every writing entry point (Entry.v): refusal without mutation, overwrite = the same call
   on the location with the old geff removed (exactly when that location is vacant for the inner guard), the refutation otherwise,
   and the crash statement.  Everything is derived from overwrite_guard / delete_geff_root / cleaned / write_core_crash /
   delete_geff_states (CrashLemmas.v, OverwriteLemmas.v); nothing about write_core is re-proved. *)
From Geff Require Import Base Dtype DtypeLemmas Vlen VlenLemmas Tree TreeLemmas Validate ValidateLemmas Write Read RoundTrip
     WriteLemmas ReadLemmas ValidateLayout C01Lemmas CrashLemmas OverwriteLemmas Entry.
From Geff Require Ctc TrackMate.
From Geff.Gen Require Import Consts.
Open Scope string_scope.
Open Scope list_scope.

(* ================= 1. the own guard in front of any program ================= *)
Lemma guard_refuse k s : exists_geff k (s_root s) = true -> overwrite_guard k false s = (s, Err FileExistsError).
Proof. intros H. unfold overwrite_guard, bind. rewrite check_for_geff_spec, H. reflexivity. Qed.

Lemma guard_delete k s : exists_geff k (s_root s) = true -> overwrite_guard k true s = delete_geff k s.
Proof. intros H. unfold overwrite_guard, bind. rewrite check_for_geff_spec, H. reflexivity. Qed.

Lemma guarded_refuse {A} k (m : M A) s :
  exists_geff k (s_root s) = true -> (overwrite_guard k false ;; m)%M s = (s, Err FileExistsError).
Proof. intros H. unfold bind. rewrite (guard_refuse k s H). reflexivity. Qed.

Lemma guarded_vacant {A} k ov (m : M A) s :
  exists_geff k (s_root s) = false -> (overwrite_guard k ov ;; m)%M s = m s.
Proof. intros H. unfold bind. rewrite (guard_skip k ov s H). reflexivity. Qed.

Lemma guarded_overwrite {A} k (m : M A) s a ch :
  s_root s = Some (ZG a ch) -> ahas "geff" a = true ->
  exists tr, delete_geff k s = (mkst (cleaned k a ch) tr, Ok tt) /\
             (overwrite_guard k true ;; m)%M s = m (mkst (cleaned k a ch) tr).
Proof. intros Hs Hg. destruct (delete_geff_root k s a ch Hs Hg) as [tr Hd]. exists tr. split; [exact Hd|].
  assert (Hex : exists_geff k (s_root s) = true) by (rewrite Hs; destruct k; [reflexivity | exact Hg]).
  unfold bind. rewrite (guard_delete k s Hex), Hd. reflexivity. Qed.

(* when is the location still occupied for the inner guard once the old geff is deleted: never for a store object; for a path
   exactly when the directory holds something beside nodes and edges *)
Lemma cleaned_path_occupied a ch :
  exists_geff KPath (cleaned KPath a ch) = negb (match adel path_EDGES (adel path_NODES ch) with [] => true | _ => false end).
Proof. unfold cleaned. destruct (adel path_EDGES (adel path_NODES ch)); reflexivity. Qed.

Lemma cleaned_path_vacant_iff a ch :
  exists_geff KPath (cleaned KPath a ch) = false <-> adel path_EDGES (adel path_NODES ch) = [].
Proof. rewrite cleaned_path_occupied. destruct (adel path_EDGES (adel path_NODES ch)); cbn; split; intro H; try reflexivity; discriminate. Qed.

Lemma cleaned_path_vacant_none a ch : exists_geff KPath (cleaned KPath a ch) = false -> cleaned KPath a ch = None.
Proof. intros H. apply cleaned_path_vacant_iff in H. unfold cleaned. rewrite H. reflexivity. Qed.

(* ================= 2. the crash invariant behind a guard ================= *)
(* started where the root has no geff attribute, every state the program adds is unrecognised except possibly the last one of a
   successful run, and a failed run ends unrecognised *)
Definition safe_from (k : skind) (m : M unit) : Prop :=
  forall s, alookup "geff" (oattrs (s_root s)) = None ->
    let (s', r) := m s in
    exists new, s_trace s' = new ++ s_trace s /\ new_ok k r new /\ (r <> Ok tt -> unrecognised k (s_root s')).

(* programs that never create the geff attribute *)
Definition keeps_nogeff {A} (p : M A) : Prop :=
  forall s, alookup "geff" (oattrs (s_root s)) = None ->
    let (s', r) := p s in
    exists new, s_trace s' = new ++ s_trace s /\
      Forall (fun st => alookup "geff" (oattrs st) = None) new /\ alookup "geff" (oattrs (s_root s')) = None.

Lemma attrs_stable_keeps {A} (p : M A) : attrs_stable p -> keeps_nogeff p.
Proof. intros Hp s Hng. specialize (Hp s). destruct (p s) as [s' r]. destruct Hp as [new [Ht [HF Ha]]].
  exists new. split; [exact Ht|]. split; [|rewrite Ha; exact Hng].
  eapply Forall_impl; [|exact HF]. cbn. intros st Hst. rewrite Hst. exact Hng. Qed.

Lemma safe_core k g md v : safe_from k (write_core k g md v).
Proof. intros s Hng. exact (write_core_crash k g md v s Hng). Qed.

Lemma safe_fail k e : safe_from k (fail e).
Proof. intros s Hng. cbn. exists []. split; [reflexivity|]. split; [exact I|]. intros _. apply no_geff_unrecognised. exact Hng. Qed.

Lemma safe_write_arrays_false k g md v : safe_from k (write_arrays k g md v false).
Proof. intros s Hng. rewrite write_arrays_eq. unfold bind at 1. unfold overwrite_guard, bind at 1. rewrite check_for_geff_spec.
  destruct (exists_geff k (s_root s)).
  - cbn. exists []. split; [reflexivity|]. split; [exact I|]. intros _. apply no_geff_unrecognised. exact Hng.
  - unfold ret at 1. cbn iota beta. exact (write_core_crash k g md v s Hng). Qed.

Lemma safe_lift_bind {A} k (x : res A) (f : A -> M unit) : (forall a, safe_from k (f a)) -> safe_from k (bind (lift x) f).
Proof. intros Hf s Hng. unfold bind, lift. destruct x as [a|e].
  - exact (Hf a s Hng).
  - exists []. split; [reflexivity|]. split; [exact I|]. intros _. apply no_geff_unrecognised. exact Hng. Qed.

Lemma safe_keeps_bind {A} k (p : M A) (f : A -> M unit) :
  keeps_nogeff p -> (forall a, safe_from k (f a)) -> safe_from k (bind p f).
Proof. intros Hp Hf s Hng. unfold bind. specialize (Hp s Hng). destruct (p s) as [s1 [a|e]].
  - destruct Hp as [n1 [Ht1 [HF1 Ha1]]].
    assert (HU1 : Forall (unrecognised k) n1) by (eapply Forall_impl; [|exact HF1]; intros st; apply no_geff_unrecognised).
    specialize (Hf a s1 Ha1). destruct (f a s1) as [s2 r]. destruct Hf as [n2 [Ht2 [Hn2 Hr2]]].
    exists (n2 ++ n1). split; [rewrite Ht2, Ht1, app_assoc; reflexivity|]. split; [|exact Hr2].
    destruct n2 as [|x l]; cbn.
    + apply new_ok_all. exact HU1.
    + destruct Hn2 as [Hl Hx]. split; [apply Forall_app; auto | exact Hx].
  - destruct Hp as [n1 [Ht1 [HF1 Ha1]]].
    assert (HU1 : Forall (unrecognised k) n1) by (eapply Forall_impl; [|exact HF1]; intros st; apply no_geff_unrecognised).
    exists n1. split; [exact Ht1|]. split; [apply new_ok_all; exact HU1|]. intros _. apply no_geff_unrecognised. exact Ha1. Qed.

(* C05 behind any own guard, from ANY pre-state: once the guard has let the program through (nothing there, or the old geff
   deleted), no recorded state is recognised before the commit, and a failure ends unrecognised; if the guard refuses nothing was
   touched (empty trace) *)
Theorem guarded_crash k ov (m : M unit) : safe_from k m -> forall pre,
  let (s', r) := (overwrite_guard k ov ;; m)%M (init pre) in
  new_ok k r (s_trace s') /\ (r <> Ok tt -> s_trace s' <> [] -> unrecognised k (s_root s')).
Proof.
  intros Hm pre. unfold bind at 1. unfold overwrite_guard, bind at 1. rewrite check_for_geff_spec. cbn [s_root init].
  destruct (exists_geff k pre) eqn:Eex.
  - destruct ov.
    + pose proof (delete_geff_states k (init pre)) as Hd.
      destruct (delete_geff k (init pre)) as [s1 [u|e]] eqn:Ed.
      * destruct Hd as [n1 [Ht1 [HF1 HP1]]]. cbn in Ht1. rewrite app_nil_r in Ht1.
        assert (HU1 : Forall (unrecognised k) n1) by (eapply Forall_impl; [|exact HF1]; intros st; apply nodes_gone_unrecognised).
        destruct u. pose proof (delete_geff_ok_no_geff k _ _ Ed) as Hng.
        specialize (Hm s1 Hng). destruct (m s1) as [s' r]. destruct Hm as [new [Ht [Hn Hr]]].
        rewrite Ht, Ht1. split.
        -- destruct new as [|f l]; cbn.
           ++ apply new_ok_all. exact HU1.
           ++ destruct Hn as [Hl Hf]. split; [apply Forall_app; auto | exact Hf].
        -- intros Hne _. apply Hr. exact Hne.
      * destruct Hd as [n1 [Ht1 [HF1 HP1]]]. cbn in Ht1. rewrite app_nil_r in Ht1. rewrite Ht1.
        assert (HU1 : Forall (unrecognised k) n1) by (eapply Forall_impl; [|exact HF1]; intros st; apply nodes_gone_unrecognised).
        split; [apply new_ok_all; exact HU1 | intros _ _; apply nodes_gone_unrecognised; exact HP1].
    + cbn. split; [exact I|]. intros _ H. exfalso. apply H. reflexivity.
  - unfold ret at 1. cbn iota beta.
    specialize (Hm (init pre) (exists_geff_false _ _ Eex)). destruct (m (init pre)) as [s' r]. destruct Hm as [new [Ht [Hn Hr]]].
    cbn in Ht. rewrite app_nil_r in Ht. rewrite Ht. split; [exact Hn | intros Hne _; apply Hr; exact Hne].
Qed.

(* ================= 3. guarded_write: geff.write and the converters whose in-between steps leave the target alone ================= *)
Lemma api_as_guarded k g md v ov s : api_write k g md v ov s = guarded_write k ov (Ok (g, md)) v s.
Proof. rewrite api_write_eq. unfold guarded_write, bind, lift. destruct (overwrite_guard k ov s) as [s1 [u|e]]; reflexivity. Qed.

Theorem guarded_write_refuse k conv v s :
  exists_geff k (s_root s) = true -> guarded_write k false conv v s = (s, Err FileExistsError).
Proof. intros H. unfold guarded_write. apply (guarded_refuse k _ s H). Qed.

(* nothing there: the conversion result goes through write_arrays as if the overwrite flag had been handed on *)
Theorem guarded_write_vacant k ov conv v s :
  exists_geff k (s_root s) = false ->
  guarded_write k ov conv v s =
  match conv with Ok gm => write_arrays k (fst gm) (snd gm) v ov s | Err e => (s, Err e) end.
Proof. intros H. unfold guarded_write. rewrite (guarded_vacant k ov _ s H). unfold bind, lift. destruct conv as [gm|e]; [|reflexivity].
  rewrite !write_arrays_eq. unfold bind. rewrite (guard_skip k false s H), (guard_skip k ov s H). reflexivity. Qed.

(* overwrite over a geff: the old geff is deleted first, whatever the conversion will do; then the inner guard decides *)
Theorem guarded_write_overwrite k conv v s a ch :
  s_root s = Some (ZG a ch) -> ahas "geff" a = true ->
  exists tr, delete_geff k s = (mkst (cleaned k a ch) tr, Ok tt) /\
    guarded_write k true conv v s =
    match conv with
    | Err e => (mkst (cleaned k a ch) tr, Err e)
    | Ok gm => if exists_geff k (cleaned k a ch)
               then (mkst (cleaned k a ch) tr, Err FileExistsError)
               else write_core k (fst gm) (snd gm) v (mkst (cleaned k a ch) tr)
    end.
Proof. intros Hs Hg. unfold guarded_write.
  destruct (guarded_overwrite k (do gm <- lift conv; write_arrays k (fst gm) (snd gm) v false)%M s a ch Hs Hg) as [tr [Hd He]].
  exists tr. split; [exact Hd|]. rewrite He. unfold bind, lift. destruct conv as [gm|e]; [|reflexivity].
  rewrite write_arrays_eq. unfold bind at 1. unfold overwrite_guard at 1, bind at 1. rewrite check_for_geff_spec. cbn [s_root].
  destruct (exists_geff k (cleaned k a ch)); reflexivity. Qed.

(* ... so it equals write_arrays(overwrite=True) of the converted graph exactly when the cleaned location is vacant *)
Theorem guarded_write_as_arrays k g md v s a ch :
  s_root s = Some (ZG a ch) -> ahas "geff" a = true -> exists_geff k (cleaned k a ch) = false ->
  guarded_write k true (Ok (g, md)) v s = write_arrays k g md v true s.
Proof. intros Hs Hg Hc. rewrite <- api_as_guarded. apply (api_overwrite_same k a ch g md v s Hs Hg Hc). Qed.

(* ... and otherwise the old geff is gone and the call has failed, whatever was to be written *)
Theorem guarded_write_beside k conv v s a ch :
  s_root s = Some (ZG a ch) -> ahas "geff" a = true -> exists_geff k (cleaned k a ch) = true ->
  exists tr, guarded_write k true conv v s =
             (mkst (cleaned k a ch) tr, Err (match conv with Ok _ => FileExistsError | Err e => e end)).
Proof. intros Hs Hg Hc. destruct (guarded_write_overwrite k conv v s a ch Hs Hg) as [tr [_ H]]. exists tr. rewrite H, Hc.
  destruct conv; reflexivity. Qed.

Lemma safe_guarded_body k conv v : safe_from k (do gm <- lift conv; write_arrays k (fst gm) (snd gm) v false)%M.
Proof. apply safe_lift_bind. intros gm. apply safe_write_arrays_false. Qed.

Theorem guarded_write_crash k ov conv v pre :
  let (s', r) := guarded_write k ov conv v (init pre) in
  new_ok k r (s_trace s') /\ (r <> Ok tt -> s_trace s' <> [] -> unrecognised k (s_root s')).
Proof. unfold guarded_write. apply (guarded_crash k ov _ (safe_guarded_body k conv v)). Qed.

(* ================= 4. the converters as guarded programs ================= *)
Definition ctc_body (d : Ctc.ctc) (vol : arr) : M unit :=
  (seg_export d vol ;; do gm <- lift (Ctc.convert d); write_arrays KPath (fst gm) (snd gm) true false)%M.

Lemma ctc_write_eq d vol s :
  ctc_write d vol s =
  if Ctc.d_dir d && match Ctc.d_table d with Some _ => true | None => false end
  then (overwrite_guard KPath (Ctc.d_overwrite d) ;; ctc_body d vol)%M s
  else (s, Err FileNotFoundError).
Proof. unfold ctc_write, ctc_body. destruct (Ctc.d_dir d); [|reflexivity]. destruct (Ctc.d_table d); reflexivity. Qed.

(* the label volume goes elsewhere: the program of Ctc.v (C15) *)
Lemma ctc_write_outside d vol s : seg_rel d = None -> ctc_write d vol s = Ctc.from_ctc_to_geff d s.
Proof. intros Hrel. unfold ctc_write, Ctc.from_ctc_to_geff, seg_export. rewrite Hrel.
  destruct (Ctc.d_dir d); [|reflexivity]. cbn [negb]. destruct (Ctc.d_table d) as [rows|]; [|reflexivity].
  unfold overwrite_guard, bind. destruct (check_for_geff KPath s) as [s0 [ex|e]]; [|reflexivity].
  destruct ((if ex then if Ctc.d_overwrite d then delete_geff KPath else fail FileExistsError else ret tt) s0) as [s1 [u|e]]; [|reflexivity].
  unfold has_frames. destruct (Ctc.seg_requested d), (Ctc.d_frames d), (Ctc.d_seg_exists d), (Ctc.d_overwrite d); reflexivity. Qed.

(* what stands between the two guards when the label volume goes elsewhere: its target may be refused, the graph logic may fail *)
Definition ctc_conv (d : Ctc.ctc) : res (wgraph * smeta) :=
  if Ctc.seg_requested d && has_frames d && Ctc.d_seg_exists d && negb (Ctc.d_overwrite d) then Err FileExistsError
  else Ctc.convert d.

Lemma ctc_body_outside d vol s :
  match seg_rel d with None => true | Some _ => negb (Ctc.seg_requested d && has_frames d) end = true ->
  ctc_body d vol s = (do gm <- lift (ctc_conv d); write_arrays KPath (fst gm) (snd gm) true false)%M s.
Proof. intros H. unfold ctc_body, seg_export, ctc_conv.
  destruct (Ctc.seg_requested d && has_frames d) eqn:E; cbn [andb].
  - destruct (seg_rel d); [discriminate|].
    destruct (Ctc.d_seg_exists d && negb (Ctc.d_overwrite d)); reflexivity.
  - reflexivity. Qed.

Lemma tm_write_eq d ds dt ov s :
  TrackMate.from_trackmate d ds dt ov s =
  if TrackMate.tm_exists d then guarded_write KPath ov (tm_conv d ds dt) true s else (s, Err FileNotFoundError).
Proof. unfold TrackMate.from_trackmate, guarded_write, tm_conv. destruct (TrackMate.tm_exists d); [|reflexivity]. cbn [negb].
  unfold overwrite_guard, bind, lift. destruct (check_for_geff KPath s) as [s0 [ex|e]]; [|reflexivity].
  destruct ((if ex then if ov then delete_geff KPath else fail FileExistsError else ret tt) s0) as [s1 [u|e]]; [|reflexivity].
  destruct (TrackMate.convert d ds dt) as [c|e]; reflexivity. Qed.

(* ================= 5. every entry point, uniformly ================= *)
(* the program behind the own guard *)
Definition e_body (c : ecall) : M unit :=
  match c with
  | EArrays k g md v _ | EDicts k g md v => write_core k g md v
  | EApi k g md v _ => write_arrays k g md v false
  | ECtc d vol => ctc_body d vol
  | ETm d ds dt _ => (do gm <- lift (tm_conv d ds dt); write_arrays KPath (fst gm) (snd gm) true false)%M
  end.
(* the conversion of the two-guard entry points (for the writers: the graph itself) and their validation flag *)
Definition e_conv (c : ecall) : res (wgraph * smeta) :=
  match c with
  | EArrays _ g md _ _ | EDicts _ g md _ | EApi _ g md _ _ => Ok (g, md)
  | ECtc d _ => ctc_conv d
  | ETm d ds dt _ => tm_conv d ds dt
  end.
Definition e_v (c : ecall) : bool :=
  match c with EArrays _ _ _ v _ | EDicts _ _ _ v | EApi _ _ _ v _ => v | ECtc _ _ | ETm _ _ _ _ => true end.

Lemma e_run_eq c s :
  e_run c s = if e_ready c then (overwrite_guard (e_kind c) (e_ov c) ;; e_body c)%M s else (s, Err FileNotFoundError).
Proof. destruct c as [k g md v ov|k g md v|k g md v ov|d vol|d ds dt ov]; cbn [e_run e_ready e_kind e_ov e_body].
  - apply write_arrays_eq.
  - unfold dicts_write. apply write_arrays_eq.
  - apply api_write_eq.
  - apply ctc_write_eq.
  - rewrite tm_write_eq. unfold guarded_write. reflexivity. Qed.

Lemma e_run_two_guards c s :
  e_two_guards c = true ->
  e_run c s = if e_ready c then guarded_write (e_kind c) (e_ov c) (e_conv c) (e_v c) s else (s, Err FileNotFoundError).
Proof. destruct c as [k g md v ov|k g md v|k g md v ov|d vol|d ds dt ov]; cbn [e_two_guards]; intros H; try discriminate;
    cbn [e_run e_ready e_kind e_ov e_conv e_v].
  - apply api_as_guarded.
  - rewrite ctc_write_eq. destruct (Ctc.d_dir d && _); [|reflexivity].
    unfold guarded_write, bind. destruct (overwrite_guard KPath (Ctc.d_overwrite d) s) as [s1 [u|e]]; [|reflexivity].
    apply (ctc_body_outside d vol s1 H).
  - apply tm_write_eq. Qed.

Lemma safe_seg_export d vol : keeps_nogeff (seg_export d vol).
Proof.
  assert (Hret : keeps_nogeff (@ret unit tt)).
  { intros s Hng. cbn. exists []. split; [reflexivity|]. split; [constructor | exact Hng]. }
  assert (Hfail : forall e, keeps_nogeff (@fail unit e)).
  { intros e s Hng. cbn. exists []. split; [reflexivity|]. split; [constructor | exact Hng]. }
  unfold seg_export. destruct (Ctc.seg_requested d && has_frames d); [|exact Hret].
  destruct (seg_rel d) as [rel|]; [|destruct (_ && _); [apply Hfail | exact Hret]].
  intros s Hng. unfold bind at 1. unfold get_root at 1.
  destruct (_ && negb (Ctc.d_overwrite d)); [apply (Hfail FileExistsError s Hng)|].
  unfold seg_put, bind, get_root. destruct s as [root tr]. cbn [s_root s_trace] in *.
  destruct (put_path (match root with Some g => g | None => empty_group end) rel (ZA vol)) as [g'|] eqn:Ep; cbn.
  2:{ exists []. split; [reflexivity|]. split; [constructor | exact Hng]. }
  assert (Hg' : alookup "geff" (oattrs (Some g')) = None).
  { destruct rel as [|x rel].
    - cbn in Ep. inversion Ep; subst. reflexivity.
    - assert (Hne : x :: rel <> []) by discriminate.
      cbn [oattrs]. rewrite (put_path_attrs _ _ _ _ Hne Ep). destruct root as [g|]; [exact Hng | reflexivity]. }
  exists [Some g']. split; [reflexivity|]. split; [constructor; [exact Hg' | constructor] | exact Hg'].
Qed.

Lemma safe_e_body c : safe_from (e_kind c) (e_body c).
Proof. destruct c as [k g md v ov|k g md v|k g md v ov|d vol|d ds dt ov]; cbn [e_kind e_body].
  - apply safe_core.
  - apply safe_core.
  - apply safe_write_arrays_false.
  - unfold ctc_body. apply safe_keeps_bind; [apply safe_seg_export|]. intros _. apply safe_guarded_body.
  - apply safe_guarded_body. Qed.

(* ---------- C06, refusal: no entry point touches a location that holds a geff unless overwrite was requested ---------- *)
Theorem entry_refuse c pre :
  exists_geff (e_kind c) pre = true -> e_ov c = false ->
  e_run c (init pre) = (init pre, Err (if e_ready c then FileExistsError else FileNotFoundError)).
Proof. intros He Ho. rewrite e_run_eq, Ho. destruct (e_ready c); [|reflexivity]. apply (guarded_refuse _ _ (init pre) He). Qed.

(* ---------- C06, nothing there: the overwrite flag is irrelevant ---------- *)
Theorem entry_vacant c s :
  exists_geff (e_kind c) (s_root s) = false ->
  e_run c s = if e_ready c then e_body c s else (s, Err FileNotFoundError).
Proof. intros He. rewrite e_run_eq. destruct (e_ready c); [|reflexivity]. apply (guarded_vacant _ _ _ s He). Qed.

(* ---------- C06, overwrite: the old geff is deleted completely, then the call continues as on the cleaned location ---------- *)
Theorem entry_overwrite c s a ch :
  e_ready c = true -> e_ov c = true -> s_root s = Some (ZG a ch) -> ahas "geff" a = true ->
  exists tr, delete_geff (e_kind c) s = (mkst (cleaned (e_kind c) a ch) tr, Ok tt) /\
    e_run c s = e_body c (mkst (cleaned (e_kind c) a ch) tr) /\
    (exists_geff (e_kind c) (cleaned (e_kind c) a ch) = false -> e_run c s = e_run c (mkst (cleaned (e_kind c) a ch) tr)).
Proof. intros Hr Ho Hs Hg. rewrite e_run_eq, Hr, Ho.
  destruct (guarded_overwrite (e_kind c) (e_body c) s a ch Hs Hg) as [tr [Hd He]]. exists tr. split; [exact Hd|]. split; [exact He|].
  intros Hv. rewrite He, e_run_eq, Hr. symmetry. apply (guarded_vacant _ _ _ (mkst _ tr) Hv). Qed.

(* ... which for the entry points with two guards in a row is a refusal whenever the cleaned location still counts as occupied:
   the old geff is gone and the call raises, for EVERY input *)
Theorem entry_overwrite_beside c s a ch :
  e_two_guards c = true -> e_ready c = true -> e_ov c = true ->
  s_root s = Some (ZG a ch) -> ahas "geff" a = true -> exists_geff (e_kind c) (cleaned (e_kind c) a ch) = true ->
  exists tr, e_run c s = (mkst (cleaned (e_kind c) a ch) tr,
                          Err (match e_conv c with Ok _ => FileExistsError | Err e => e end)).
Proof. intros H2 Hr Ho Hs Hg Hc. rewrite (e_run_two_guards c s H2), Hr, Ho.
  apply (guarded_write_beside _ _ _ s a ch Hs Hg Hc). Qed.

(* ... and otherwise exactly write_arrays(overwrite=True) of the converted graph *)
Theorem entry_overwrite_as_arrays c s a ch g md :
  e_two_guards c = true -> e_ready c = true -> e_ov c = true -> e_conv c = Ok (g, md) ->
  s_root s = Some (ZG a ch) -> ahas "geff" a = true -> exists_geff (e_kind c) (cleaned (e_kind c) a ch) = false ->
  e_run c s = write_arrays (e_kind c) g md (e_v c) true s.
Proof. intros H2 Hr Ho Hcv Hs Hg Hc. rewrite (e_run_two_guards c s H2), Hr, Ho, Hcv.
  apply (guarded_write_as_arrays _ g md _ s a ch Hs Hg Hc). Qed.

(* complete replacement through a converter / graph writer (validation on): what C06_replace says of write_arrays *)
Theorem entry_replaces c a ch g md md' n e :
  e_two_guards c = true -> e_ready c = true -> e_ov c = true -> e_v c = true -> e_conv c = Ok (g, md) ->
  ahas "geff" a = true -> exists_geff (e_kind c) (cleaned (e_kind c) a ch) = false ->
  wf_input g md n e -> final_metadata g md = Ok md' ->
  let k := e_kind c in
  let post := layout (cleaned k a ch) g (backfill (w_nids g) md (w_nprops g)) md' in
  (exists tr, e_run c (init (Some (ZG a ch))) = (mkst (Some post) tr, Ok tt)) /\
  validate_structure k (Some post) = Ok tt /\
  read_to_memory k (Some post) true None None
  = Ok (mkmg md' (w_nids g) (w_eids g) (up_props (backfill (w_nids g) md (w_nprops g))) (up_props (w_eprops g))).
Proof. intros H2 Hr Ho Hv Hcv Hg Hc Hwf Hfm. cbv zeta.
  rewrite (entry_overwrite_as_arrays c (init (Some (ZG a ch))) a ch g md H2 Hr Ho Hcv eq_refl Hg Hc), Hv.
  assert (Hk : e_kind c = KPath \/ e_kind c = KObj) by (destruct (e_kind c); auto).
  exact (overwrite_replaces (e_kind c) a ch g md md' n e Hg Hk Hwf Hfm). Qed.

(* ---------- C05: every entry point, every pre-state, every input ---------- *)
Theorem entry_crash c pre :
  let (s', r) := e_run c (init pre) in
  new_ok (e_kind c) r (s_trace s') /\ (r <> Ok tt -> s_trace s' <> [] -> unrecognised (e_kind c) (s_root s')).
Proof. rewrite e_run_eq. destruct (e_ready c).
  - apply (guarded_crash (e_kind c) (e_ov c) (e_body c) (safe_e_body c)).
  - cbn. split; [exact I|]. intros _ H. exfalso. apply H. reflexivity. Qed.

(* ---------- the label volume inside the geff directory: the conversion never succeeds ---------- *)
Lemma seg_put_ok_root p vol s s' : seg_put p vol s = (s', Ok tt) -> exists n, s_root s' = Some n.
Proof. unfold seg_put, bind, get_root.
  destruct (put_path _ p (ZA vol)) as [g'|]; [|discriminate]. cbn. intros H. inversion H; subst. eexists. reflexivity. Qed.

Theorem ctc_seg_inside_fails d vol s rel :
  seg_rel d = Some rel -> Ctc.seg_requested d = true -> Ctc.d_frames d <> [] ->
  snd (ctc_write d vol s) <> Ok tt.
Proof. intros Hrel Hreq Hfr. rewrite ctc_write_eq. destruct (Ctc.d_dir d && _); [|discriminate].
  unfold bind at 1. destruct (overwrite_guard KPath (Ctc.d_overwrite d) s) as [s1 [u|e]]; [|discriminate].
  unfold ctc_body, bind at 1. unfold seg_export. rewrite Hrel, Hreq. unfold has_frames.
  destruct (Ctc.d_frames d) as [|f fr] eqn:Ef; [contradiction|]. cbn [andb].
  unfold bind at 1. unfold get_root at 1.
  destruct (_ && negb (Ctc.d_overwrite d)); [discriminate|].
  destruct (seg_put rel vol s1) as [s2 [u2|e]] eqn:Es; [|discriminate]. destruct u2.
  destruct (seg_put_ok_root _ _ _ _ Es) as [n Hn].
  unfold bind, lift. destruct (Ctc.convert d) as [gm|e]; [|discriminate].
  rewrite write_arrays_eq. unfold bind. rewrite (guard_refuse KPath s2); [discriminate|]. rewrite Hn. reflexivity. Qed.
