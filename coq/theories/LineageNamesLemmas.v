(* LineageNamesLemmas.v -- which lineages validate_lineages names, stated against weak connectivity (conn, Reach.v)
   instead of against the boolean test of the model (props/C14.v: C14_names_spec, C14_names_first). *)
From Coq Require Import Relations.
From Geff Require Import Base GraphVal GraphValLemmas Reach Tracks TracksLemmas.
Open Scope Z_scope.
Open Scope list_scope.

(* the nodes labelled t are exactly one weakly connected component of the graph whose node set is the node list plus
   every id mentioned by an edge *)
Definition lineage_class_ok (E : list (Z * Z)) (NL : nlabels) (t : Z) : Prop :=
  exists r, In r (class_of NL t) /\ forall x, In x (class_of NL t) <-> conn E (all_nodes E NL) r x.

Lemma class_first_in_all E NL t r T' : class_of NL t = r :: T' -> In r (all_nodes E NL).
Proof.
  intros Hc. apply all_nodes_In. left. apply (class_sub_nodes NL t). rewrite Hc. left; reflexivity.
Qed.

(* with the first node of the class as the reference node (what the code does: any member would do) *)
Theorem lineages_names_first E NL t :
  In t (invalid_lineages E NL) <->
  In t (labels_of NL) /\
  exists r T', class_of NL t = r :: T' /\ ~ (forall x, In x (r :: T') <-> conn E (all_nodes E NL) r x).
Proof.
  unfold invalid_lineages. rewrite filter_In, negb_true_iff. split.
  - intros [Ht Hc]. split; [exact Ht|]. destruct (class_nonempty NL t Ht) as [r [T' Hcl]]. exists r, T'.
    split; [exact Hcl|]. intros Hall. rewrite Hcl in Hc.
    rewrite (proj2 (check_lineage_spec E (all_nodes E NL) r T' (all_nodes_NoDup E NL) (class_first_in_all E NL t r T' Hcl)) Hall) in Hc.
    discriminate.
  - intros [Ht [r [T' [Hcl Hn]]]]. split; [exact Ht|]. rewrite Hcl.
    destruct (check_lineage E (all_nodes E NL) (r :: T')) eqn:Ec; [|reflexivity]. exfalso. apply Hn.
    apply (check_lineage_spec E (all_nodes E NL) r T' (all_nodes_NoDup E NL) (class_first_in_all E NL t r T' Hcl)). exact Ec.
Qed.

Theorem lineages_names_spec E NL t :
  In t (invalid_lineages E NL) <-> In t (labels_of NL) /\ ~ lineage_class_ok E NL t.
Proof.
  rewrite lineages_names_first. split.
  - intros [Ht [r [T' [Hcl Hn]]]]. split; [exact Ht|]. intros [r' [Hr' Hall]]. apply Hn. rewrite <- Hcl.
    assert (Hrr : conn E (all_nodes E NL) r' r). { apply Hall. rewrite Hcl. left; reflexivity. }
    intros x. rewrite Hall. split; intros H.
    + eapply conn_trans; [apply conn_sym; exact Hrr | exact H].
    + eapply conn_trans; [exact Hrr | exact H].
  - intros [Ht Hn]. split; [exact Ht|]. destruct (class_nonempty NL t Ht) as [r [T' Hcl]]. exists r, T'.
    split; [exact Hcl|]. intros Hall. apply Hn. exists r. rewrite Hcl. split; [left; reflexivity | exact Hall].
Qed.

(* whole-validator form: accepted iff every lineage id labels exactly one weakly connected component *)
Theorem lineages_nil_classes E NL :
  invalid_lineages E NL = [] <-> forall t, In t (labels_of NL) -> lineage_class_ok E NL t.
Proof.
  split.
  - intros H t Ht. destruct (class_nonempty NL t Ht) as [r [T' Hcl]].
    assert (Hnot : ~ In t (invalid_lineages E NL)) by (rewrite H; intros []).
    rewrite lineages_names_first in Hnot.
    exists r. rewrite Hcl. split; [left; reflexivity|].
    destruct (check_lineage E (all_nodes E NL) (r :: T')) eqn:Ec.
    + apply (check_lineage_spec E (all_nodes E NL) r T' (all_nodes_NoDup E NL) (class_first_in_all E NL t r T' Hcl)). exact Ec.
    + exfalso. apply Hnot. split; [exact Ht|]. exists r, T'. split; [exact Hcl|]. intros Hall.
      rewrite (proj2 (check_lineage_spec E (all_nodes E NL) r T' (all_nodes_NoDup E NL) (class_first_in_all E NL t r T' Hcl)) Hall) in Ec.
      discriminate.
  - intros H. destruct (invalid_lineages E NL) as [|t l] eqn:El; [reflexivity|]. exfalso.
    assert (Hin : In t (invalid_lineages E NL)) by (rewrite El; left; reflexivity).
    apply lineages_names_spec in Hin. destruct Hin as [Ht Hn]. exact (Hn (H t Ht)).
Qed.
