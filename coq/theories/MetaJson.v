(* MetaJson.v -- serialisation of the metadata objects of Meta.v (C08):
     to_json        GeffMetadata.model_dump(mode="json")       (geff_spec/_schema.py, used by write)
     to_json_text   json.loads(model_dump_json())              (`geff info`, model_validate_json)
     of_json        GeffMetadata.model_validate(dict)          (= Meta.construct: the same validators)
     md_write       GeffMetadata.write(store)   on the attribute map of the store's root group
     md_read        GeffMetadata.read(store)
   and the boolean domain predicate inv_md ("a valid metadata object whose numbers JSON can
   express"), plus schema_ref: the published schema as the validity proof reads it (compact,
   annotations removed, enumerations taken from the translator-generated constants); the
   regenerated geff-schema.json is tied to it by Schema.schema_equiv, evaluated in Coq.
   Model only, no proofs. *)
From Geff Require Import Base Meta Json Schema.
From Geff.Gen Require Import Consts.
Open Scope string_scope.
Open Scope Z_scope.
Open Scope list_scope.

(* ------------------------------------------------------------------ model_dump(mode="json") *)
(* fields in declaration order; typed float fields keep their python float (also inf/nan: only
   the JSON *text* encoder turns those into null), free-form `extra` values are walked by the
   JSON-mode serialiser of `Any`, which nulls non-finite floats *)
Definition axis_to_json (a : axis) : jv :=
  JObj [("name", JStr (ax_name a)); ("type", jv_of_optstr (ax_type a)); ("unit", jv_of_optstr (ax_unit a));
        ("min", jv_of_optfl (ax_min a)); ("max", jv_of_optfl (ax_max a)); ("scale", jv_of_optfl (ax_scale a));
        ("scaled_unit", jv_of_optstr (ax_scaled_unit a)); ("offset", jv_of_optfl (ax_offset a))].

Definition pm_to_json (p : prop_meta) : jv :=
  JObj [("identifier", JStr (pm_identifier p)); ("dtype", JStr (pm_dtype p)); ("varlength", JBool (pm_varlength p));
        ("unit", jv_of_optstr (pm_unit p)); ("name", jv_of_optstr (pm_name p));
        ("description", jv_of_optstr (pm_description p))].

Definition related_to_json (r : related) : jv :=
  JObj [("type", JStr (ro_type r)); ("path", JStr (ro_path r)); ("label_prop", jv_of_optstr (ro_label_prop r))].

Definition hints_to_json (h : hints) : jv :=
  JObj [("display_horizontal", JStr (dh_horizontal h)); ("display_vertical", JStr (dh_vertical h));
        ("display_depth", jv_of_optstr (dh_depth h)); ("display_time", jv_of_optstr (dh_time h))].

Definition pmdict_to_json (d : pmdict) : jv := JObj (map (fun kv => (fst kv, pm_to_json (snd kv))) d).

Definition track_to_json (t : list (string * string)) : jv := JObj (map (fun kv => (fst kv, JStr (snd kv))) t).

Definition jv_of_opt {A} (f : A -> jv) (o : option A) : jv := match o with Some x => f x | None => JNull end.

Definition to_json (m : metadata) : jv :=
  JObj [("geff_version", JStr (md_version m));
        ("directed", JBool (md_directed m));
        ("axes", jv_of_opt (fun l => JList (map axis_to_json l)) (md_axes m));
        ("node_props_metadata", pmdict_to_json (md_node_props m));
        ("edge_props_metadata", pmdict_to_json (md_edge_props m));
        ("sphere", jv_of_optstr (md_sphere m));
        ("ellipsoid", jv_of_optstr (md_ellipsoid m));
        ("track_node_props", jv_of_opt track_to_json (md_track m));
        ("related_objects", jv_of_opt (fun l => JList (map related_to_json l)) (md_related m));
        ("display_hints", jv_of_opt hints_to_json (md_hints m));
        ("extra", jnull_nonfinite (JObj (md_extra m)))].

(* model_dump_json() read back as a JSON value: the text encoder writes every remaining
   non-finite float as null *)
Definition to_json_text (m : metadata) : jv := jnull_nonfinite (to_json m).

(* model_validate / model_validate_json / the parse inside GeffMetadata.read.
   gv is GEFF_VERSION, the default of an absent geff_version *)
Definition of_json (gv : string) (v : jv) : res metadata := construct gv v.

(* the document the published schema describes: the attributes of a geff group *)
Definition wrap (j : jv) : jv := JObj [("geff", j)].

(* ------------------------------------------------------------------ zarr attributes *)
(* the store as GeffMetadata.write / read see it: the attribute map of the root group, or no
   group at all (both zarr formats: the format only changes where zarr keeps the map) *)
Definition attrs := list (string * jv).
Definition gstate := option attrs.

(* zarr.open_group(store) (default mode "a" creates the group), then attrs["geff"] = dump *)
Definition md_write (m : metadata) (st : gstate) : gstate :=
  match st with
  | None => Some [("geff", to_json m)]
  | Some a => Some (jset "geff" (to_json m) a)
  end.

(* zarr.open_group(store, mode="r"); "geff" in attrs; isinstance(.., Mapping); model_validate *)
Definition md_read (gv : string) (st : gstate) : res metadata :=
  match st with
  | None => Err FileNotFoundError
  | Some a =>
      match jget "geff" a with
      | None => Err ValueError
      | Some (JObj kvs) => of_json gv (JObj kvs)
      | Some _ => Err ValueError
      end
  end.

Definition attr_get (k : string) (st : gstate) : option jv :=
  match st with None => None | Some a => jget k a end.

(* ------------------------------------------------------------------ the domain of the property *)
Definition optfl_finite (o : option fl) : bool := match o with Some f => fl_finite f | None => true end.

(* what the Axis validators guarantee, plus finite numbers *)
Definition axis_ok (a : axis) : bool :=
  match ax_type a with Some t => smem t valid_axis_types | None => true end
  && is_ok (axis_after a)
  && optfl_finite (ax_min a) && optfl_finite (ax_max a) && optfl_finite (ax_scale a) && optfl_finite (ax_offset a).

Definition pm_okb (p : prop_meta) : bool :=
  negb (String.eqb (pm_identifier p) "") && smem (pm_dtype p) valid_dtypes.

Definition related_okb (r : related) : bool := is_ok (related_after r).

Definition olistb {A} (o : option (list A)) : list A := match o with Some l => l | None => [] end.

Definition inv_md (m : metadata) : bool :=
  version_ok (md_version m)
  && forallb axis_ok (olistb (md_axes m))
  && forallb (fun kv => pm_okb (snd kv)) (md_node_props m)
  && forallb (fun kv => pm_okb (snd kv)) (md_edge_props m)
  && forallb (fun kv => smem (fst kv) track_keys) (olistb (md_track m))
  && forallb related_okb (olistb (md_related m))
  && md_after_ok m
  && jfinite (JObj (md_extra m)).

(* ------------------------------------------------------------------ the published schema, as the proofs read it *)
Definition s_type (t : string) : jv := JObj [("type", JStr t)].
Definition s_null : jv := s_type "null".
Definition s_opt (s : jv) : jv := JObj [("anyOf", JList [s; s_null])].
Definition s_enum (l : list string) : jv := JObj [("enum", JList (map JStr l)); ("type", JStr "string")].
Definition s_ref (name : string) : jv := JObj [("$ref", JStr ("#/$defs/" ++ name))].
Definition s_unit : jv :=
  JObj [("anyOf", JList [s_type "string"; s_enum valid_space_units; s_enum valid_time_units; s_null])].
Definition s_str_min1 : jv := JObj [("minLength", JInt 1); ("type", JStr "string")].

Definition axis_schema : jv :=
  JObj [("properties", JObj [("name", s_type "string"); ("type", s_opt (s_enum valid_axis_types)); ("unit", s_unit);
                             ("min", s_opt (s_type "number")); ("max", s_opt (s_type "number"));
                             ("scale", s_opt (s_type "number")); ("scaled_unit", s_unit);
                             ("offset", s_opt (s_type "number"))]);
        ("required", JList [JStr "name"]);
        ("type", JStr "object")].

Definition hints_schema : jv :=
  JObj [("properties", JObj [("display_horizontal", s_type "string"); ("display_vertical", s_type "string");
                             ("display_depth", s_opt (s_type "string")); ("display_time", s_opt (s_type "string"))]);
        ("required", JList [JStr "display_horizontal"; JStr "display_vertical"]);
        ("type", JStr "object")].

Definition pm_schema : jv :=
  JObj [("properties", JObj [("identifier", s_str_min1); ("dtype", s_str_min1); ("varlength", s_type "boolean");
                             ("unit", s_opt (s_type "string")); ("name", s_opt (s_type "string"));
                             ("description", s_opt (s_type "string"))]);
        ("required", JList [JStr "identifier"; JStr "dtype"]);
        ("type", JStr "object")].

Definition related_schema : jv :=
  JObj [("properties", JObj [("type", s_type "string"); ("path", s_type "string");
                             ("label_prop", s_opt (s_type "string"))]);
        ("required", JList [JStr "type"; JStr "path"]);
        ("type", JStr "object")].

Definition md_schema : jv :=
  JObj [("properties",
         JObj [("geff_version", JObj [("pattern", JStr version_pattern_lit); ("type", JStr "string")]);
               ("directed", s_type "boolean");
               ("axes", s_opt (JObj [("items", s_ref "Axis"); ("type", JStr "array")]));
               ("node_props_metadata", JObj [("additionalProperties", s_ref "PropMetadata"); ("type", JStr "object")]);
               ("edge_props_metadata", JObj [("additionalProperties", s_ref "PropMetadata"); ("type", JStr "object")]);
               ("sphere", s_opt (s_type "string"));
               ("ellipsoid", s_opt (s_type "string"));
               ("track_node_props",
                s_opt (JObj [("additionalProperties", s_type "string");
                             ("propertyNames", JObj [("enum", JList (map JStr track_keys))]);
                             ("type", JStr "object")]));
               ("related_objects", s_opt (JObj [("items", s_ref "RelatedObject"); ("type", JStr "array")]));
               ("display_hints", s_opt (s_ref "DisplayHint"));
               ("extra", JObj [("additionalProperties", JBool true); ("type", JStr "object")])]);
        ("required", JList [JStr "directed"; JStr "node_props_metadata"; JStr "edge_props_metadata"; JStr "geff_version"]);
        ("type", JStr "object")].

Definition schema_ref : jv :=
  JObj [("$defs", JObj [("Axis", axis_schema); ("DisplayHint", hints_schema); ("GeffMetadata", md_schema);
                        ("PropMetadata", pm_schema); ("RelatedObject", related_schema)]);
        ("properties", JObj [("geff", s_ref "GeffMetadata")]);
        ("required", JList [JStr "geff"]);
        ("type", JStr "object")].
