(* MetaKeys.v -- GeffMetadata.write / GeffMetadata.read on the KEYS of a zarr store (KeyStore.v), both formats
   (C08, audit G3: the attribute-map model MetaJson.md_write is a list function; "in either zarr format" was
   tested only).

     GeffMetadata.write(store):  group = zarr.open_group(store)          # mode "a", format probed: 3, then 2
                                 group.attrs["geff"] = model_dump(mode="json")
     zarr format 2: the attributes ARE the document .zattrs; the assignment rewrites that key only
                    (.zgroup stays; a consolidated-metadata cache .zmetadata, when present, is refreshed by zarr:
                    it is outside this model, like in KeyStore.v);
     zarr format 3: the attributes are the member `attributes` of the group document zarr.json; the assignment
                    rewrites that document: every other member (zarr_format, node_type, consolidated_metadata)
                    is kept;
     no root group: open_group creates one, in zarr's default format 3.
   Model only; proofs in MetaKeysLemmas.v. *)
From Geff Require Import Base Dtype Vlen Tree KeyStore.
From Geff Require Meta Json MetaJson.
Open Scope string_scope.
Open Scope list_scope.

(* store[k] = v : replace the first binding or append *)
Fixpoint kset (k : key) (v : kval) (ks : kstore) : kstore :=
  match ks with
  | [] => [(k, v)]
  | (k', x) :: r => if key_eqb k k' then (k', v) :: r else (k', x) :: kset k v r
  end.

(* which root group open_group finds: format 3 is probed first *)
Inductive root_state := RNone | RGroup (f : fmt) (attrs : list (string * jv)) | ROther.
Definition probe_root (ks : kstore) : root_state :=
  match node_doc V3 ks with
  | NDGroup a => RGroup V3 a
  | NDNone => match node_doc V2 ks with
              | NDGroup a => RGroup V2 a
              | NDNone => RNone
              | _ => ROther
              end
  | _ => ROther
  end.

(* the members zarr writes into a format-3 group document; a document with any other member is rejected by zarr
   (GroupMetadata.__init__) before anything is written *)
Definition v3_members : list string := ["attributes"; "zarr_format"; "consolidated_metadata"; "node_type"].
Definition v3_doc_known (d : list (string * jv)) : bool := forallb (fun kv => smem (fst kv) v3_members) d.

Definition md_write_k (m : Meta.metadata) (ks : kstore) : res kstore :=
  let dump := MetaJson.to_json m in
  match probe_root ks with
  | RNone => Ok (kset ["zarr.json"] (KDoc (JObj [("attributes", JObj [("geff", dump)]); ("zarr_format", JInt 3);
                                                    ("node_type", JStr "group")])) ks)
  | RGroup V2 a => Ok (kset [".zattrs"] (KDoc (JObj (Json.jset "geff" dump a))) ks)
  | RGroup V3 a =>
      match klookup ["zarr.json"] ks with
      | Some (KDoc (JObj d)) =>
          if v3_doc_known d then Ok (kset ["zarr.json"] (KDoc (JObj (Json.jset "attributes" (JObj (Json.jset "geff" dump a)) d))) ks)
          else Err TypeError
      | _ => Err OtherExn                      (* not reachable: probe_root found the document *)
      end
  | ROther => Err ValueError                   (* an array, or a document zarr does not accept, at the root *)
  end.

(* GeffMetadata.read(store): zarr.open_group(store, mode="r"), then the attribute-map reader of MetaJson *)
Definition md_read_k (gv : string) (ks : kstore) : res Meta.metadata :=
  match probe_root ks with
  | RGroup _ a => MetaJson.md_read gv (Some a)
  | RNone => Err FileNotFoundError
  | ROther => Err ValueError
  end.

(* the attribute map of the root group, whichever format *)
Definition root_attrs_any (ks : kstore) : option (list (string * jv)) :=
  match probe_root ks with RGroup _ a => Some a | _ => None end.
