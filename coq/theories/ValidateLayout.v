(* ValidateLayout.v -- the structural validator model accepts what the writer model lays out
   for a well-formed graph (used by C01, C02 forward, C05, C10). *)
From Geff Require Import Base Dtype DtypeLemmas Vlen VlenLemmas Tree TreeLemmas Validate Write Read RoundTrip WriteLemmas ReadLemmas.
From Geff.Gen Require Import Consts.
Open Scope string_scope.
Open Scope list_scope.

Lemma forM__ok {A} (f : A -> res unit) l : (forall x, In x l -> f x = Ok tt) -> forM_ f l = Ok tt.
Proof. induction l as [|x r IH]; intros H; cbn; [reflexivity|].
  rewrite (H x (or_introl eq_refl)). apply IH. intros y Hy. apply H. right. exact Hy. Qed.

Lemma guard_true b : b = true -> guard b = Ok tt. Proof. intros ->. reflexivity. Qed.

Lemma validate_prop_stored n pmd name p pm pm' :
  wf_prop n p -> create_props_metadata name p = Ok pm -> (exists enc, encode_prop p = Ok enc) ->
  alookup name pmd = Some pm' -> pm_dtype pm' = pm_dtype pm -> pm_varlength pm' = pm_varlength pm ->
  validate_prop n pmd (stored (name, p)) = Ok tt.
Proof.
  intros [Hv Hm] Hpm [[[v m] d] He] Hl Hd Hvl.
  unfold stored. cbn [fst snd]. rewrite He. unfold validate_prop. rewrite Hl.
  unfold prop_group. change (ZG [] (prop_members v m d)) with (prop_group v m d).
  destruct (read_prop_group v m d) as [Hev [Hhm [Hhd [Hem Hed]]]]. cbn zeta in *.
  assert (Hhv : ahas path_VALUES (prop_members v m d) = true) by reflexivity.
  rewrite Hhv. cbn [guard rbind]. rewrite Hev. cbn [rbind].
  apply cpm_core_of_ok in Hpm; unfold cpm_core in Hpm. unfold encode_prop in He. destruct p as [vals miss].
  unfold upcast_prop in *. cbn [p_vals p_missing] in *.
  assert (Hmiss_ok : forall x, m = Some x -> a_dt x = DBool /\ a_shape x = [n]).
  { intros x Hx. destruct vals as [a|elems]; cbn [p_vals] in He.
    - inversion He; subst. cbn in Hm. exact Hm.
    - destruct (serialize (map upcast_varr elems)) as [[rows data]|]; [|discriminate]. inversion He; subst. cbn in Hm. exact Hm. }
  assert (Htail : (if ahas path_MISSING (prop_members v m d)
                   then (let! m0 := expect_array (prop_group v m d) path_MISSING in
                         let! _ := guard (Nat.eqb (ndim m0) 1) in
                         let! _ := guard (option_eqb Nat.eqb (len0 m0) (Some n)) in
                         guard (dtype_eqb (a_dt m0) DBool))%res
                   else Ok tt) = Ok tt).
  { cbn [children prop_group] in Hhm. rewrite Hhm. destruct m as [x|]; [|reflexivity].
    rewrite (Hem x eq_refl). destruct (Hmiss_ok x eq_refl) as [Hdt Hsh]. cbn [rbind].
    unfold ndim, len0. rewrite Hsh, Hdt. cbn. rewrite Nat.eqb_refl. reflexivity. }
  destruct vals as [a|elems]; cbn [p_vals] in *.
  - (* fixed *)
    destruct (valid_prop_dtype (a_dt (upcast_arr a)) && negb (String.eqb name "")); [|discriminate].
    inversion Hpm; subst pm; clear Hpm. inversion He; subst v m d; clear He.
    cbn [new_pm pm_dtype pm_varlength] in Hd, Hvl. rewrite Hvl.
    destruct Hv as [rest Hsh].
    unfold ndim, len0. rewrite upcast_arr_shape, Hsh. cbn [length Nat.leb guard rbind].
    rewrite Hd, dtype_eqb_refl. cbn [guard rbind]. cbn [children prop_group] in Hhd. rewrite Hhd. cbn [negb guard rbind].
    cbn [option_eqb]. rewrite Nat.eqb_refl. cbn [guard rbind]. exact Htail.
  - (* variable length *)
    destruct (map upcast_varr elems) as [|e0 r] eqn:Eup; [discriminate|].
    destruct (forallb (fun x => dtype_eqb (v_dt x) (v_dt e0)) r); [|discriminate].
    destruct (valid_prop_dtype (v_dt e0) && negb (String.eqb name "")); [|discriminate].
    inversion Hpm; subst pm; clear Hpm.
    destruct (serialize (e0 :: r)) as [[rows data]|] eqn:Hser; [|discriminate].
    inversion He; subst v m d; clear He.
    cbn [new_pm pm_dtype pm_varlength] in Hd, Hvl. rewrite Hvl.
    destruct Hv as [Hlen0 _].
    assert (Hlen : length (e0 :: r) = n) by (rewrite <- Eup, map_length; exact Hlen0).
    pose proof (serialize_rows_count _ _ _ Hser) as Hcnt.
    destruct rows as [|row rows]; [cbn in Hcnt; discriminate|].
    assert (Hnd : Nat.leb 1 (ndim (rows_arr (row :: rows))) = true) by reflexivity.
    assert (Hdu : dtype_eqb (a_dt (rows_arr (row :: rows))) DU64 = true) by reflexivity.
    assert (Hl0 : len0 (rows_arr (row :: rows)) = Some (length (row :: rows))) by reflexivity.
    rewrite Hnd. cbn [guard rbind]. rewrite (Hed _ eq_refl). cbn [rbind]. rewrite Hdu. cbn [guard rbind].
    assert (Hn2 : Nat.eqb (ndim (rows_arr (row :: rows))) 2 = true) by reflexivity.
    assert (Hn1 : Nat.eqb (ndim (data_arr (e0 :: r) data)) 1 = true) by reflexivity.
    rewrite Hn2, Hn1. cbn [guard rbind].
    cbn [data_arr a_dt ser_dtype]. rewrite Hd, dtype_eqb_refl. cbn [guard rbind].
    rewrite Hl0, Hcnt, Hlen. cbn [option_eqb]. rewrite Nat.eqb_refl. cbn [guard rbind]. exact Htail.
Qed.

Lemma nil_of_no_keys {V} (l : list (string * V)) : (forall k, In k (akeys l) -> False) -> l = [].
Proof. destruct l as [|[k v] r]; [reflexivity|]. intros H. exfalso. apply (H k). left. reflexivity. Qed.

(* a nodes/edges group of the layout passes the props-group validation *)
Lemma validate_props_layout n ops pmd existing :
  wf_props n ops -> pmd = add_or_update existing (metas_of ops) ->
  (forall k0, In k0 (akeys existing) -> In k0 (names_of ops)) ->
  match ops with
  | Some ps => validate_props_group (ZG [] (map stored ps)) n pmd = Ok tt
  | None => pmd = []
  end.
Proof.
  intros Hwf Hpmd Hstale. destruct ops as [ps|].
  - destruct (Hwf ps eq_refl) as [Hnd HF].
    assert (Henc : Forall encodable ps) by (eapply Forall_impl; [|exact HF]; cbn; tauto).
    unfold validate_props_group. cbn [children].
    rewrite guard_true.
    + cbn [rbind]. apply forM__ok. intros [name nd] Hin.
      apply in_map_iff in Hin. destruct Hin as [[name' p] [Heq Hin]].
      rewrite <- Heq. rewrite Forall_forall in HF. destruct (HF _ Hin) as [[pm [enc [Hpm He]]] Hwfp]. cbn [fst snd] in *.
      destruct (meta_lookup_ok existing (Some ps) n Hwf name' p pm Hin Hpm) as [pm' [Hl [Hd Hv]]].
      eapply validate_prop_stored; eauto. subst pmd. exact Hl.
    + apply forallb_forall. intros [k0 v0] Hin. cbn [fst]. apply ahas_in. rewrite akeys_stored.
      apply (in_map fst) in Hin. cbn [fst] in Hin. subst pmd. fold (akeys (add_or_update existing (metas_of (Some ps)))) in Hin.
      apply add_or_update_keys in Hin. destruct Hin as [H|H]; [apply (Hstale _ H)|].
      cbn [metas_of] in H. rewrite props_meta_keys in H; auto.
  - subst pmd. cbn [metas_of]. unfold add_or_update. cbn. apply nil_of_no_keys. intros k0 Hk. apply (Hstale k0 Hk).
Qed.

(* every axis of the final metadata names a 1-D node property without missing values *)
Definition axes_ok (md' : smeta) (nps : option props) : Prop :=
  forall axes, md_axes md' = Some axes ->
  exists ps, nps = Some ps /\
  forall ax, In ax axes -> exists a n0, In (ax_name ax, mkprop (PFixed a) None) ps /\ a_shape a = [n0].

Theorem validate_layout k pre g nps md md' n e :
  alookup path_NODES (base_children pre) = None -> alookup path_EDGES (base_children pre) = None ->
  a_shape (w_nids g) = [n] -> a_shape (w_eids g) = [e; 2%nat] ->
  a_dt (w_nids g) = a_dt (w_eids g) -> is_integer (a_dt (w_nids g)) = true ->
  wf_props n nps -> wf_props e (w_eprops g) ->
  md_nprops md' = add_or_update (md_nprops md) (metas_of nps) ->
  md_eprops md' = add_or_update (md_eprops md) (metas_of (w_eprops g)) ->
  (forall k0, In k0 (akeys (md_nprops md)) -> In k0 (names_of nps)) ->
  (forall k0, In k0 (akeys (md_eprops md)) -> In k0 (names_of (w_eprops g))) ->
  axes_ok md' nps ->
  validate_structure k (Some (layout pre g nps md')) = Ok tt.
Proof.
  intros Hn He Hsn Hse Hdt Hint Hwn Hwe Hmn Hme Hstn Hste Hax.
  set (root := layout pre g nps md').
  assert (Hgn : get root path_NODES = Some (grp_node (w_nids g) nps)).
  { unfold root, layout, get. cbn [children]. rewrite alookup_app, Hn. reflexivity. }
  assert (Hge : get root path_EDGES = Some (grp_node (w_eids g) (w_eprops g))).
  { unfold root, layout, get. cbn [children]. rewrite alookup_app, He. reflexivity. }
  assert (Hmd : read_metadata root = Ok md').
  { unfold read_metadata, geff_attr, root, layout. cbn [attrs_of]. rewrite alookup_aset_same. reflexivity. }
  unfold validate_structure.
  unfold root at 1. unfold layout at 1. cbn [open_storelike rbind]. fold (layout pre g nps md'). fold root.
  rewrite Hmd. cbn [rbind]. unfold expect_group. rewrite Hgn. unfold grp_node at 1. cbn [rbind]. fold (grp_node (w_nids g) nps).
  (* nodes *)
  assert (Hvn : validate_nodes_group (grp_node (w_nids g) nps) md' = Ok tt).
  { unfold validate_nodes_group, expect_array. unfold get at 1. unfold grp_node at 1. cbn [children alookup].
    rewrite seqb_refl. cbn [rbind]. rewrite Hint. cbn [guard rbind]. unfold ndim. rewrite Hsn. cbn [length Nat.eqb guard rbind hd].
    pose proof (validate_props_layout n nps (md_nprops md') (md_nprops md) Hwn Hmn Hstn) as Hp.
    destruct nps as [ps|].
    - unfold get, grp_node. cbn [children alookup]. change (String.eqb path_PROPS path_IDS) with false. cbn [alookup].
      rewrite seqb_refl. unfold expect_group, get. cbn [children alookup].
      change (String.eqb path_PROPS path_IDS) with false. cbn [alookup]. rewrite seqb_refl. cbn [rbind]. exact Hp.
    - unfold get, grp_node. cbn [children alookup]. change (String.eqb path_PROPS path_IDS) with false. cbn [alookup].
      rewrite Hp. reflexivity. }
  rewrite Hvn. cbn [rbind]. rewrite Hge. unfold grp_node at 1. cbn [rbind]. fold (grp_node (w_eids g) (w_eprops g)).
  (* edges *)
  assert (Hve : validate_edges_group (grp_node (w_eids g) (w_eprops g)) md' = Ok tt).
  { unfold validate_edges_group, expect_array. unfold get at 1. unfold grp_node at 1. cbn [children alookup].
    rewrite seqb_refl. cbn [rbind]. rewrite Hse. cbn [guard rbind]. rewrite <- Hdt, Hint. cbn [guard rbind hd].
    pose proof (validate_props_layout e (w_eprops g) (md_eprops md') (md_eprops md) Hwe Hme Hste) as Hp.
    destruct (w_eprops g) as [ps|].
    - unfold get, grp_node. cbn [children alookup]. change (String.eqb path_PROPS path_IDS) with false. cbn [alookup].
      rewrite seqb_refl. exact Hp.
    - unfold get, grp_node. cbn [children alookup]. change (String.eqb path_PROPS path_IDS) with false. cbn [alookup].
      rewrite Hp. reflexivity. }
  rewrite Hve. cbn [rbind].
  unfold expect_array, get, grp_node. cbn [children alookup]. rewrite !seqb_refl. cbn [rbind].
  rewrite Hdt, dtype_eqb_refl. cbn [guard rbind].
  (* axes *)
  unfold validate_axes. destruct (md_axes md') as [axes|] eqn:Eax; [|reflexivity].
  destruct axes as [|ax0 axr]; [reflexivity|]. set (axes := ax0 :: axr) in *.
  destruct (Hax axes Eax) as [ps [Hps Hall]]. subst nps.
  unfold expect_group. rewrite Hgn. unfold grp_node at 1. cbn [rbind].
  unfold get at 1. cbn [children alookup]. change (String.eqb path_PROPS path_IDS) with false. cbn [alookup].
  rewrite seqb_refl. cbn [rbind].
  apply forM__ok. intros ax Hin. destruct (Hall ax Hin) as [a [n0 [Hinp Hsh]]].
  destruct (Hwn ps eq_refl) as [Hnd HF].
  unfold validate_axis, get. cbn [children].
  rewrite (alookup_in_nodup (ax_name ax) (prop_group (upcast_arr a) None None) (map stored ps)).
  - unfold prop_group, prop_members. cbn [children app alookup]. rewrite seqb_refl.
    change (String.eqb path_MISSING path_VALUES) with false. cbn [alookup guard rbind].
    unfold expect_array, get. cbn [children alookup]. rewrite seqb_refl. cbn [rbind]. unfold ndim.
    rewrite upcast_arr_shape, Hsh. reflexivity.
  - rewrite akeys_stored. exact Hnd.
  - apply in_map_iff. exists (ax_name ax, mkprop (PFixed a) None). split; [|exact Hinp]. reflexivity.
Qed.
