(* Backends.v -- model of geff._graph_libs: NxBackend / RxBackend / SgBackend (construct, write),
   Backend.read (= read_to_memory ; construct), the api wrapper geff.write / geff.read / geff.construct,
   and the canonical-graph view each backend's GraphAdapter gives (get_node_ids, get_edge_ids,
   has_/get_node_prop, has_/get_edge_prop).  The graph libraries' own containers are modelled by their
   observable API: maps from node / edge keys to attribute dicts in insertion order (networkx), node payload
   list + edge list + id map (rustworkx), typed attribute arrays (spatial-graph).
   Composes Dicts.v (write_dicts) with Write.v / Read.v.  Model only; proofs in BackendsLemmas.v. *)
From Geff Require Import Base Dtype Vlen Tree Validate Write Read Dicts.
From Geff.Gen Require Import Consts.
Open Scope string_scope.
Open Scope list_scope.
Open Scope res_scope.

(* ---------- canonical values: what a Python value / numpy element is, up to list-vs-ndarray ---------- *)
Inductive sk := SBool | SInt | SFloat | SStr.
Inductive cval := CScalar (k : sk) (z : Z) | CArr (k : sk) (sh : list nat) (flat : list Z).
Notation cattrs := (list (string * cval)) (only parsing).

Definition sk_eqb (a b : sk) : bool :=
  match a, b with SBool, SBool | SInt, SInt | SFloat, SFloat | SStr, SStr => true | _, _ => false end.
Definition cval_eqb (a b : cval) : bool :=
  match a, b with
  | CScalar k z, CScalar k' z' => sk_eqb k k' && Z.eqb z z'
  | CArr k s f, CArr k' s' f' => sk_eqb k k' && natlist_eqb s s' && zlist_eqb f f'
  | _, _ => false
  end.

(* the Python type .tolist() / .item() gives for an element of an array of this dtype *)
Definition sk_of (d : dtype) : option sk :=
  match d with
  | DBool => Some SBool
  | DI8 | DI16 | DI32 | DI64 | DU8 | DU16 | DU32 | DU64 => Some SInt
  | DF16 | DF32 | DF64 => Some SFloat
  | DStr => Some SStr
  | _ => None
  end.

(* ---------- keyed tables (Python dicts keyed by node id / edge tuple), insertion ordered ---------- *)
Fixpoint klookup {K V} (eqb : K -> K -> bool) (k : K) (l : list (K * V)) : option V :=
  match l with
  | [] => None
  | (k', v) :: r => if eqb k k' then Some v else klookup eqb k r
  end.
Definition khas {K V} (eqb : K -> K -> bool) (k : K) (l : list (K * V)) : bool :=
  match klookup eqb k l with Some _ => true | None => false end.
Fixpoint kupdate {K V} (eqb : K -> K -> bool) (k : K) (f : V -> V) (l : list (K * V)) : list (K * V) :=
  match l with
  | [] => []
  | (k', v) :: r => if eqb k k' then (k', f v) :: r else (k', v) :: kupdate eqb k f r
  end.
Fixpoint kset {K V} (eqb : K -> K -> bool) (k : K) (v : V) (l : list (K * V)) : list (K * V) :=
  match l with
  | [] => [(k, v)]
  | (k', v') :: r => if eqb k k' then (k', v) :: r else (k', v') :: kset eqb k v r
  end.

(* an edge key: ordered pair in a directed graph, unordered otherwise *)
Definition ekey_eqb (directed : bool) (a b : Z * Z) : bool :=
  (Z.eqb (fst a) (fst b) && Z.eqb (snd a) (snd b))
  || (negb directed && Z.eqb (fst a) (snd b) && Z.eqb (snd a) (fst b)).

Fixpoint foldM {A B} (f : B -> A -> res B) (l : list A) (b : B) : res B :=
  match l with
  | [] => Ok b
  | x :: r => match f b x with Ok b' => foldM f r b' | Err e => Err e end
  end.

(* ---------- elements of an in-memory property ---------- *)
(* values[idx] as a Python value (.tolist() of a fixed array row, the ndarray of a var-length property) *)
Definition row_cval (a : arr) (i : nat) : res cval :=
  match a_shape a with
  | [] => Err IndexError
  | n :: rest =>
      if Nat.ltb i n then
        match sk_of (a_dt a) with
        | None => Err OtherExn
        | Some k =>
            let row := nth i (chunks (size rest) n (a_flat a)) [] in
            Ok (match rest with [] => CScalar k (hd 0%Z row) | _ => CArr k rest row end)
        end
      else Err IndexError
  end.

Definition elem_val (p : prop) (i : nat) : res cval :=
  match p_vals p with
  | PFixed a => row_cval a i
  | PVlen elems =>
      match nth_error elems i with
      | None => Err IndexError
      | Some e => match sk_of (v_dt e) with
                  | Some k => Ok (CArr k (v_shape e) (v_flat e))
                  | None => Err OtherExn
                  end
      end
  end.

(* missing[idx] ; no mask: never missing *)
Definition elem_missing (p : prop) (i : nat) : res bool :=
  match p_missing p with
  | None => Ok false
  | Some m => match nth_error (a_flat m) i with
              | Some z => Ok (negb (Z.eqb z 0))
              | None => Err IndexError
              end
  end.

(* len(values) *)
Definition plen (p : prop) : option nat :=
  match p_vals p with PFixed a => len0 a | PVlen es => Some (length es) end.

Fixpoint pairs_of (l : list Z) : list (Z * Z) :=
  match l with
  | a :: b :: r => (a, b) :: pairs_of r
  | _ => []
  end.

(* edge_ids.tolist() of an (E,2) array; any other shape is outside the model *)
Definition edge_rows (eids : arr) : res (list (Z * Z)) :=
  match a_shape eids with
  | [_; 2%nat] => Ok (pairs_of (a_flat eids))
  | _ => Err OtherExn
  end.
Definition node_list (nids : arr) : res (list Z) :=
  match a_shape nids with
  | [_] => Ok (a_flat nids)
  | _ => Err OtherExn
  end.

(* ---------- the canonical graph (also the model of a networkx Graph / DiGraph) ---------- *)
Record cgraph := mkcg { cg_directed : bool; cg_nodes : list (Z * cattrs); cg_edges : list ((Z * Z) * cattrs) }.

(* ================= networkx ================= *)
(* _set_property_values: graph.nodes[id][name] = value for every element that is not flagged missing *)
Fixpoint set_vals {K} (eqb : K -> K -> bool) (name : string) (p : prop) (ids : list K) (i : nat)
         (tbl : list (K * cattrs)) : res (list (K * cattrs)) :=
  match ids with
  | [] => Ok tbl
  | id :: r =>
      let! v := elem_val p i in
      let! ig := elem_missing p i in
      if ig then set_vals eqb name p r (S i) tbl
      else if khas eqb id tbl then set_vals eqb name p r (S i) (kupdate eqb id (aset name v) tbl)
      else Err KeyError
  end.

Definition nx_add_node (nodes : list (Z * cattrs)) (id : Z) : list (Z * cattrs) :=
  if khas Z.eqb id nodes then nodes else nodes ++ [(id, [])].

(* add_edges_from: both endpoints become nodes, an existing edge is kept *)
Definition nx_add_edge (d : bool) (st : list (Z * cattrs) * list ((Z * Z) * cattrs)) (e : Z * Z)
  : list (Z * cattrs) * list ((Z * Z) * cattrs) :=
  (nx_add_node (nx_add_node (fst st) (fst e)) (snd e),
   if khas (ekey_eqb d) e (snd st) then snd st else snd st ++ [(e, [])]).

Definition nx_construct (g : mgraph) : res cgraph :=
  let d := md_directed (g_md g) in
  let! ids := node_list (g_nids g) in
  let nodes0 := fold_left nx_add_node ids [] in
  let! nodes1 := foldM (fun tbl kv => set_vals Z.eqb (fst kv) (snd kv) ids 0 tbl) (g_nprops g) nodes0 in
  let! es := edge_rows (g_eids g) in
  let st := fold_left (nx_add_edge d) es (nodes1, []) in
  let! edges1 := foldM (fun tbl kv => set_vals (ekey_eqb d) (fst kv) (snd kv) es 0 tbl) (g_eprops g) (snd st) in
  Ok (mkcg d (fst st) edges1).

(* metadata a dict-based backend hands to write_dicts: create_or_update_metadata(None, directed), then
   update_metadata_axes(axis_names) ; duplicate axis names are rejected by the metadata model *)
Definition has_dup (l : list string) : bool := negb (Nat.eqb (length (dedup l)) (length l)).
Definition fresh_md (directed : bool) (axes : option (list string)) (mdtok axtok : Z) : res smeta :=
  match axes with
  | None => Ok (mkmd directed None [] [] mdtok)
  | Some names =>
      if has_dup names then Err ValueError
      else Ok (mkmd directed (Some (map (fun n => mkax n None None axtok) names)) [] [] mdtok)
  end.

(* NxBackend.write: names are the keys found on any node / edge *)
Definition nx_write (k : skind) (directed : bool) (g : dgraph) (axes : option (list string)) (mdtok axtok : Z) : M unit :=
  bind (lift (fresh_md directed axes mdtok axtok)) (fun md =>
  write_dicts k g (keys_of (map snd (d_nodes g))) (keys_of (map snd (d_edges g))) md).

(* ================= rustworkx ================= *)
(* a PyGraph / PyDiGraph: payload of node index i at position i, edges between indices, and
   graph.attrs["to_rx_id_map"] (geff id -> index) *)
Record rxc := mkrxc { rc_directed : bool; rc_nodes : list cattrs; rc_edges : list ((Z * Z) * cattrs);
                      rc_map : list (Z * Z) }.

Fixpoint set_nth {A} (i : nat) (f : A -> A) (l : list A) : list A :=
  match l, i with
  | [], _ => []
  | x :: r, O => f x :: r
  | x :: r, S i' => x :: set_nth i' f r
  end.

(* the loop  for idx, val in zip(current_indices, values)  over the non-missing positions *)
Fixpoint rx_fill_go (name : string) (p : prop) (n i : nat) (tbl : list cattrs) : res (list cattrs) :=
  match n with
  | O => Ok tbl
  | S n' =>
      let! ig := elem_missing p i in
      if ig then rx_fill_go name p n' (S i) tbl
      else let! v := elem_val p i in
           rx_fill_go name p n' (S i) (set_nth i (aset name v) tbl)
  end.

Definition rx_fill_prop (n : nat) (tbl : list cattrs) (kv : string * prop) : res (list cattrs) :=
  let (name, p) := kv in
  match p_missing p with
  | Some m =>
      (* indices[~missing]: the boolean index must have length n *)
      if negb (Nat.eqb (length (a_flat m)) n) then Err IndexError else rx_fill_go name p n 0 tbl
  | None =>
      (* zip(indices, values, strict=True) *)
      if negb (option_eqb Nat.eqb (plen p) (Some n)) then
        match plen p with None => Err TypeError | Some _ => Err ValueError end
      else rx_fill_go name p n 0 tbl
  end.

(* rustworkx node indices of a fresh graph: 0 .. n-1 *)
Definition zseq (n : nat) : list Z := map Z.of_nat (seq 0 n).

Definition rx_construct (g : mgraph) : res rxc :=
  let d := md_directed (g_md g) in
  let! ids := node_list (g_nids g) in
  let n := length ids in
  let! nodes := foldM (rx_fill_prop n) (g_nprops g) (repeat [] n) in
  (* dict(zip(node_ids, rx_node_ids)) *)
  let idmap := fold_left (fun acc kv => kset Z.eqb (fst kv) (snd kv) acc) (combine ids (zseq n)) [] in
  let! es := edge_rows (g_eids g) in
  match es with
  | [] => Ok (mkrxc d nodes [] idmap)
  | _ =>
      let! es' := mapM (fun e => match klookup Z.eqb (fst e) idmap, klookup Z.eqb (snd e) idmap with
                                 | Some u, Some v => Ok (u, v)
                                 | _, _ => Err KeyError
                                 end) es in
      let! datas := foldM (rx_fill_prop (length es)) (g_eprops g) (repeat [] (length es)) in
      Ok (mkrxc d nodes (combine es' datas) idmap)
  end.

(* RxBackend.write: node data keyed by node_indices() (or node_id_dict[i]) *)
Definition rx_translate (idmap : option (list (Z * Z))) (g : dgraph) : res dgraph :=
  let tr := fun i => match idmap with
                     | None => Ok i
                     | Some m => match klookup Z.eqb i m with Some j => Ok j | None => Err KeyError end
                     end in
  let! nodes := mapM (fun nd => let! j := tr (fst nd) in Ok (j, snd nd)) (d_nodes g) in
  let! edges := mapM (fun ed => let! u := tr (fst (fst ed)) in let! v := tr (snd (fst ed)) in Ok ((u, v), snd ed)) (d_edges g) in
  Ok (mkdg nodes edges).

(* the dict graph handed to write_dicts: nothing at all for a graph without nodes *)
Definition rx_target (idmap : option (list (Z * Z))) (g : dgraph) : res dgraph :=
  match d_nodes g with
  | [] => Ok (mkdg [] [])
  | _ => rx_translate idmap g
  end.

Definition rx_write (k : skind) (directed : bool) (g : dgraph) (idmap : option (list (Z * Z)))
           (axes : option (list string)) (mdtok axtok : Z) : M unit :=
  bind (lift (fresh_md directed axes mdtok axtok)) (fun md =>
  bind (lift (rx_target idmap g)) (fun g' =>
  write_dicts k g' (keys_of (map snd (d_nodes g'))) (keys_of (map snd (d_edges g'))) md)).

(* the adapter view of a rustworkx graph read from a geff: node ids through the inverse of to_rx_id_map *)
Definition inv_map (m : list (Z * Z)) (i : Z) : option Z :=
  match find (fun kv => Z.eqb (snd kv) i) m with Some kv => Some (fst kv) | None => None end.
Fixpoint opt_all {A} (l : list (option A)) : option (list A) :=
  match l with
  | [] => Some []
  | None :: _ => None
  | Some a :: r => match opt_all r with Some r' => Some (a :: r') | None => None end
  end.
Definition canon_rx (g : rxc) : option cgraph :=
  match opt_all (map (fun ia => match inv_map (rc_map g) (fst ia) with Some id => Some (id, snd ia) | None => None end)
                     (combine (zseq (length (rc_nodes g))) (rc_nodes g))),
        opt_all (map (fun ed => match inv_map (rc_map g) (fst (fst ed)), inv_map (rc_map g) (snd (fst ed)) with
                                | Some u, Some v => Some ((u, v), snd ed)
                                | _, _ => None
                                end) (rc_edges g)) with
  | Some ns, Some es => Some (mkcg (rc_directed g) ns es)
  | _, _ => None
  end.

(* ================= spatial-graph ================= *)
(* a SpatialGraph / SpatialDiGraph: typed node / edge attribute arrays (node_attr_dtypes order),
   the position attribute among the node attributes *)
Record sgc := mksgc { sc_directed : bool; sc_ndims : nat; sc_nodes : arr; sc_pos : string;
                      sc_nattrs : list (string * arr); sc_edges : arr; sc_eattrs : list (string * arr) }.

(* base types spatial-graph accepts in a dtype string *)
Definition sg_dtype_ok (d : dtype) : bool :=
  match d with
  | DF32 | DF64 | DI8 | DI16 | DI32 | DI64 | DU8 | DU16 | DU32 | DU64 => true
  | _ => false
  end.

(* node_props[name]["values"] ; a var-length property is an object array *)
Definition prop_arr (p : prop) : arr :=
  match p_vals p with PFixed a => a | PVlen es => mkarr DObj [length es] [] end.

(* np.stack(cols, axis=1) of 1-D columns of length n, cast to the common dtype *)
Definition stack_cols (n : nat) (dt : dtype) (cols : list arr) : list Z :=
  flat_map (fun i => map (fun c => cast_payload (a_dt c) dt (nth i (a_flat c) 0%Z)) cols) (seq 0 n).

(* the position attribute: zeros of shape (0,1) for an empty graph, else the stacked axis properties *)
Definition sg_position (n : nat) (names : list string) (nattrs : list (string * arr)) : res (arr * nat) :=
  if Nat.eqb n 0 then Ok (mkarr DF64 [0%nat; 1%nat] [], 1%nat)
  else
    let! cols := mapM (fun nm => match alookup nm nattrs with Some a => Ok a | None => Err KeyError end) names in
    match cols with
    | [] => Err ValueError                                   (* need at least one array to stack *)
    | c0 :: _ =>
        if negb (forallb (fun c => natlist_eqb (a_shape c) (a_shape c0)) cols) then Err ValueError
        else match result_type (map a_dt cols) with
             | None => Err ValueError
             | Some dt =>
                 if negb (Nat.eqb (ndim c0) 1) then Err ValueError   (* position of rank 3: add_nodes rejects the buffer *)
                 else Ok (mkarr dt [n; length cols] (stack_cols n dt cols), length cols)
             end
    end.

Definition sg_construct (g : mgraph) (pos : string) : res sgc :=
  let md := g_md g in
  let! ids := node_list (g_nids g) in
  let n := length ids in
  let! names := (match md_axes md with
                 | None | Some [] => if Nat.eqb n 0 then Ok [] else Err ValueError
                 | Some axs => Ok (map ax_name axs)
                 end) in
  let nattrs := map (fun kv => (fst kv, prop_arr (snd kv))) (g_nprops g) in
  let eattrs := map (fun kv => (fst kv, prop_arr (snd kv))) (g_eprops g) in
  let! posinfo := sg_position n names nattrs in
  let (position, ndims) := posinfo in
  (* for name in position_attrs: del node_attrs[name] *)
  let! nattrs1 := foldM (fun acc nm => if ahas nm acc then Ok (adel nm acc) else Err KeyError) names nattrs in
  let nattrs2 := aset pos position nattrs1 in
  (* create_graph: every dtype string must name a supported base type *)
  if negb (sg_dtype_ok (a_dt (g_nids g)) && forallb (fun kv => sg_dtype_ok (a_dt (snd kv))) nattrs2
           && forallb (fun kv => sg_dtype_ok (a_dt (snd kv))) eattrs) then Err ValueError
  else if negb (Nat.eqb n 0) && negb (forallb (fun kv => Nat.leb (ndim (snd kv)) 2) nattrs2) then Err ValueError
  else
    let! es := edge_rows (g_eids g) in
    if Nat.eqb n 0 then Ok (mksgc (md_directed md) ndims (g_nids g) pos nattrs2 (g_eids g) eattrs)
    else
      match es with
      | [] => Ok (mksgc (md_directed md) ndims (g_nids g) pos nattrs2 (g_eids g) eattrs)
      | _ =>
          if negb (forallb (fun kv => Nat.leb (ndim (snd kv)) 2) eattrs) then Err ValueError
          else if forallb (fun e => zmem (fst e) ids && zmem (snd e) ids) es
          then Ok (mksgc (md_directed md) ndims (g_nids g) pos nattrs2 (g_eids g) eattrs)
          else Err IndexError
      end.

(* values[:, i] of a 2-D array *)
Definition col_of (a : arr) (i : nat) : arr :=
  let n := hd 0%nat (a_shape a) in
  mkarr (a_dt a) [n] (map (fun row => nth i row 0%Z) (chunks (row_size a) n (a_flat a))).

(* the unsquish step of write_props_arrays (one entry {pos: names}); props.update then del props[pos] *)
Definition unsquish (pos : string) (names : list string) (ps : props) : res props :=
  match alookup pos ps with
  | None => Err KeyError
  | Some p =>
      match p_vals p with
      | PVlen _ => Err ValueError
      | PFixed a =>
          match a_shape a with
          | [_; kdim] =>
              if negb (Nat.leb (length names) kdim) then Err IndexError
              else
                let cols := map (fun ix => (snd ix, mkprop (PFixed (col_of a (fst ix))) (p_missing p)))
                                (combine (seq 0 (length names)) names) in
                Ok (adel pos (fold_left (fun acc kv => aset (fst kv) (snd kv) acc) cols ps))
          | _ => Err ValueError
          end
      end
  end.

(* write_arrays with node_props_unsquish (the property dict is edited in place inside write_props_arrays,
   so the metadata pipeline sees the unsquished properties) *)
Definition final_metadata_of (nps eps : option props) (md : smeta) : res smeta :=
  let nmeta := match nps with Some ps => props_meta ps | None => [] end in
  let emeta := match eps with Some ps => props_meta ps | None => [] end in
  let md1 := mkmd (md_directed md) (md_axes md) (add_or_update (md_nprops md) nmeta) (md_eprops md) (md_tok md) in
  let md2 := mkmd (md_directed md1) (md_axes md1) (md_nprops md1) (add_or_update (md_eprops md1) emeta) (md_tok md1) in
  match nps with
  | Some ps => compute_minmax md2 (map (fun kv => (fst kv, upcast_prop (snd kv))) ps)
  | None => Ok md2
  end.

Definition write_arrays_u (k : skind) (g : wgraph) (md : smeta) (u : option (string * list string))
           (validate overwrite : bool) : M unit :=
  do exists_ <- check_for_geff k;
  (if exists_ then (if overwrite then delete_geff k else fail FileExistsError) else ret tt) ;;
  write_id_arrays (w_nids g) (w_eids g) ;;
  (match len0 (w_nids g) with None => fail TypeError | Some _ => ret tt end) ;;
  let nps0 := backfill (w_nids g) md (w_nprops g) in
  do nps <- lift (match nps0, u with
                  | Some ps, Some (pos, names) => rmap Some (unsquish pos names ps)
                  | _, _ => Ok nps0
                  end);
  (match nps with Some ps => write_props_arrays path_NODES ps | None => ret tt end) ;;
  (match w_eprops g with Some ps => write_props_arrays path_EDGES ps | None => ret tt end) ;;
  do md' <- lift (final_metadata_of nps (w_eprops g) md);
  write_metadata md' ;;
  if validate then
    do r <- get_root;
    match validate_structure k r with
    | Ok _ => ret tt
    | Err ValueError => try_any (delete_geff k) (ret tt) ;; fail ValueError
    | Err e => fail e
    end
  else ret tt.

(* graph.roi as floats: bounding box of the positions, zeros for an empty graph *)
Definition column_vals (a : arr) (i : nat) : list Z := a_flat (col_of a i).
Definition roi_of (position : arr) (i : nat) : res (Z * Z) :=
  match a_shape position with
  | [_; kdim] =>
      if negb (Nat.ltb i kdim) then Err IndexError
      else
        let sc := if is_float (a_dt position) then 1%Z else fscale in
        match zmin_list (column_vals position i), zmax_list (column_vals position i) with
        | Some lo, Some hi => Ok ((lo * sc)%Z, (hi * sc)%Z)
        | _, _ => Ok (0%Z, 0%Z)
        end
  | _ => Err OtherExn
  end.

Definition sg_write (k : skind) (g : sgc) (md : option smeta) (axis_names : option (list string))
           (mdtok axtok : Z) : M unit :=
  let n := length (a_flat (sc_nodes g)) in
  do names <- lift (match axis_names, md with
                    | Some l, _ => Ok l
                    | None, Some m =>
                        match md_axes m with
                        | Some axs => Ok (map ax_name axs)
                        | None => if Nat.eqb n 0 then Ok [] else Err ValueError
                        end
                    | None, None => if Nat.eqb n 0 then Ok [] else Err ValueError
                    end);
  do position <- lift (match alookup (sc_pos g) (sc_nattrs g) with Some a => Ok a | None => Err OtherExn end);
  do axes <- lift (mapM (fun ix => let! mm := roi_of position (fst ix) in
                                   Ok (mkax (snd ix) (Some (fst mm)) (Some (snd mm)) axtok))
                        (combine (seq 0 (length names)) names));
  do md0 <- lift (if has_dup names then Err ValueError
                  else Ok (match md with
                           | Some m => mkmd (sc_directed g) (Some axes) (md_nprops m) (md_eprops m) (md_tok m)
                           | None => mkmd (sc_directed g) (Some axes) [] [] mdtok
                           end));
  (if negb (Nat.eqb (sc_ndims g) (length names)) && negb (Nat.eqb n 0) then fail ValueError else ret tt) ;;
  let nps := map (fun kv => (fst kv, mkprop (PFixed (snd kv)) None)) (sc_nattrs g) in
  let eps := map (fun kv => (fst kv, mkprop (PFixed (snd kv)) None)) (sc_eattrs g) in
  write_arrays_u k (mkwg (sc_nodes g) (sc_edges g) (Some nps) (Some eps)) md0 (Some (sc_pos g, names)) true false.

(* SgGraphAdapter: every property is present; an axis name indexes the position attribute *)
Fixpoint index_of (s : string) (l : list string) : option nat :=
  match l with
  | [] => None
  | x :: r => if String.eqb s x then Some 0%nat else option_map S (index_of s r)
  end.

Definition sg_node_prop (g : sgc) (axes : list string) (i : nat) (name : string) : res cval :=
  match index_of name axes with
  | Some ix =>
      match alookup (sc_pos g) (sc_nattrs g) with
      | None => Err OtherExn
      | Some position => row_cval (col_of position ix) i
      end
  | None =>
      match alookup name (sc_nattrs g) with
      | None => Err OtherExn
      | Some a => row_cval a i
      end
  end.

Definition canon_sg (g : sgc) (axes nnames enames : list string) : res cgraph :=
  let! ids := node_list (sc_nodes g) in
  let! es := edge_rows (sc_edges g) in
  let! ns := mapM (fun ii => let! at_ := mapM (fun nm => let! v := sg_node_prop g axes (fst ii) nm in Ok (nm, v)) nnames in
                             Ok (snd ii, at_))
                  (combine (seq 0 (length ids)) ids) in
  let! eds := mapM (fun ie => let! at_ := mapM (fun nm => match alookup nm (sc_eattrs g) with
                                                           | None => Err OtherExn
                                                           | Some a => let! v := row_cval a (fst ie) in Ok (nm, v)
                                                           end) enames in
                              Ok (snd ie, at_))
                   (combine (seq 0 (length es)) es) in
  Ok (mkcg (sc_directed g) ns eds).

(* ================= the api wrapper ================= *)
(* geff.write: existing geff -> FileExistsError (overwrite=False), then the backend of the graph's type *)
Definition api_write (k : skind) (w : M unit) : M unit :=
  do exists_ <- check_for_geff k;
  if exists_ then fail FileExistsError else w.

(* the canonical view of an in-memory geff itself: element i carries the properties not flagged missing *)
Definition attrs_at (ps : props) (i : nat) : res cattrs :=
  foldM (fun acc kv => let! v := elem_val (snd kv) i in
                       let! ig := elem_missing (snd kv) i in
                       Ok (if ig then acc else aset (fst kv) v acc)) ps [].

Definition canon_geff (g : mgraph) : res cgraph :=
  let! ids := node_list (g_nids g) in
  let! es := edge_rows (g_eids g) in
  let! ns := mapM (fun ii => let! a := attrs_at (g_nprops g) (fst ii) in Ok (snd ii, a)) (combine (seq 0 (length ids)) ids) in
  let! eds := mapM (fun ie => let! a := attrs_at (g_eprops g) (fst ie) in Ok (snd ie, a)) (combine (seq 0 (length es)) es) in
  Ok (mkcg (md_directed (g_md g)) ns eds).
