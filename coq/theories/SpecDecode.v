(* SpecDecode.v -- a decoder of geff stores written from docs/specification.md alone
   (nodes/ids, edges/ids, props/<name>/{values,missing,data}, one offset-plus-shape row per
   element of a variable-length property).  It looks at the hierarchy only -- never at the
   metadata -- and shares no definition with Read.v / Write.v / Vlen.v beyond the tree type.
   Model only; the agreement with the library's reader is proved in SpecLemmas.v. *)
From Geff Require Import Base Dtype Tree.
Open Scope string_scope.
Open Scope list_scope.

(* a decoded property: its values (an ndarray, or one ndarray per element) and the optional missing flags *)
Inductive svalues := SFixed (dt : dtype) (shape : list nat) (flat : list Z)
                   | SVar (dt : dtype) (elems : list (list nat * list Z)).
Record sprop := mksprop { sp_values : svalues; sp_missing : option (list Z) }.
Record sgraph := mksg { sg_nids : arr; sg_eids : arr;
                        sg_nprops : list (string * sprop); sg_eprops : list (string * sprop) }.

Definition product (sh : list nat) : nat := fold_right Nat.mul 1%nat sh.

Fixpoint split_rows {A} (width : nat) (count : nat) (l : list A) : list (list A) :=
  match count with
  | O => []
  | S c => firstn width l :: split_rows width c (skipn width l)
  end.

(* "The values array will contain the offset and shape of the relevant section of data in the data array." *)
Definition slice_elem (data : list Z) (row : list Z) : option (list nat * list Z) :=
  match row with
  | [] => None
  | off :: shape =>
      let sh := map Z.to_nat shape in
      let piece := firstn (product sh) (skipn (Z.to_nat off) data) in
      if Nat.eqb (length piece) (product sh) then Some (sh, piece) else None
  end.

Fixpoint all_some {A} (l : list (option A)) : option (list A) :=
  match l with
  | [] => Some []
  | None :: _ => None
  | Some x :: r => match all_some r with Some xs => Some (x :: xs) | None => None end
  end.

Definition member (n : znode) (name : string) : option znode :=
  match n with ZG _ ch => alookup name ch | ZA _ => None end.

Definition decode_prop (pg : znode) : option sprop :=
  match member pg "values" with
  | Some (ZA v) =>
      let miss := match member pg "missing" with Some (ZA m) => Some (Some (a_flat m)) | None => Some None | _ => None end in
      match miss with
      | None => None
      | Some ms =>
          match member pg "data" with
          | None => Some (mksprop (SFixed (a_dt v) (a_shape v) (a_flat v)) ms)
          | Some (ZA d) =>
              match a_shape v with
              | n :: rest =>        (* one row per element; (N, ndim+1) in the specification, so the row width is product rest *)
                  match all_some (map (slice_elem (a_flat d)) (split_rows (product rest) n (a_flat v))) with
                  | Some els => Some (mksprop (SVar (a_dt d) els) ms)
                  | None => None
                  end
              | [] => None
              end
          | Some (ZG _ _) => None
          end
      end
  | _ => None
  end.

Definition decode_props (grp : znode) : option (list (string * sprop)) :=
  match member grp "props" with
  | None => Some []                                   (* the props group is optional *)
  | Some (ZG _ ch) =>
      all_some (map (fun kv => match decode_prop (snd kv) with Some p => Some (fst kv, p) | None => None end) ch)
  | Some (ZA _) => None
  end.

Definition spec_decode (root : znode) : option sgraph :=
  match member root "nodes", member root "edges" with
  | Some ng, Some eg =>
      match member ng "ids", member eg "ids" with
      | Some (ZA nids), Some (ZA eids) =>
          match decode_props ng, decode_props eg with
          | Some np, Some ep => Some (mksg nids eids np ep)
          | _, _ => None
          end
      | _, _ => None
      end
  | _, _ => None
  end.

(* ---------- comparison with what the library returns ---------- *)
(* the graph denoted by an in-memory geff: a mask that is absent and a mask that is all false denote the same thing *)
Definition all_false (l : list Z) : bool := forallb (fun z => Z.eqb z 0) l.
Definition miss_eqb (a b : option (list Z)) : bool :=
  match a, b with
  | None, None => true
  | Some x, Some y => zlist_eqb x y
  | None, Some y => all_false y
  | Some x, None => all_false x
  end.
Definition elem_eqb (a b : list nat * list Z) : bool := natlist_eqb (fst a) (fst b) && zlist_eqb (snd a) (snd b).
Definition svalues_eqb (a b : svalues) : bool :=
  match a, b with
  | SFixed d1 s1 f1, SFixed d2 s2 f2 => dtype_eqb d1 d2 && natlist_eqb s1 s2 && zlist_eqb f1 f2
  | SVar d1 e1, SVar d2 e2 => (dtype_eqb d1 d2 || match e1 with [] => true | _ => false end) && list_eqb elem_eqb e1 e2
  | _, _ => false
  end.
Definition sprop_eqb (a b : sprop) : bool := svalues_eqb (sp_values a) (sp_values b) && miss_eqb (sp_missing a) (sp_missing b).

Definition of_prop (p : prop) : sprop :=
  mksprop (match p_vals p with
           | PFixed a => SFixed (a_dt a) (a_shape a) (a_flat a)
           | PVlen els => SVar (match els with e :: _ => Vlen.v_dt e | [] => DI64 end)
                               (map (fun e => (Vlen.v_shape e, Vlen.v_flat e)) els)
           end)
          (option_map a_flat (p_missing p)).
Definition of_props (ps : props) : list (string * sprop) := map (fun kv => (fst kv, of_prop (snd kv))) ps.
Definition of_mgraph (g : mgraph) : sgraph := mksg (g_nids g) (g_eids g) (of_props (g_nprops g)) (of_props (g_eprops g)).

Definition sgraph_eqb (a b : sgraph) : bool :=
  arr_eqb (sg_nids a) (sg_nids b) && arr_eqb (sg_eids a) (sg_eids b)
  && dict_eqb sprop_eqb (sg_nprops a) (sg_nprops b) && dict_eqb sprop_eqb (sg_eprops a) (sg_eprops b).
