(* TrackMateCols.v -- dict_props_to_arr of TrackMate.v on elements whose values are typed by their key:
   every property succeeds, scalar columns are (dtype by kind, value or fill value, missing mask), ROI
   columns are a 3-D array (equal polygons) or an object array of (points, dim) arrays. *)
From Coq Require Import Permutation.
From Geff Require Import Base Dtype DtypeLemmas Vlen VlenLemmas Tree TreeLemmas Validate Write Read GraphVal GraphValLemmas
  WriteLemmas ReadLemmas RoundTrip TrackMate TrackMateLemmas.
From Geff.Gen Require Import Consts.
Open Scope string_scope.
Open Scope list_scope.
Open Scope Z_scope.

Definition typedk (kf : string -> vkind) (a : attrs) : Prop :=
  forall k v, alookup k a = Some v -> has_kind (kf k) v.

(* ---------- keys, first present value, column values ---------- *)
Lemma keys_of_In elts k : In k (keys_of elts) <-> exists a, In a elts /\ In k (akeys a).
Proof. unfold keys_of. rewrite (dedup_In String.eqb String.eqb_eq), in_flat_map. reflexivity. Qed.

Lemma keys_of_NoDup elts : NoDup (keys_of elts).
Proof. apply (dedup_NoDup String.eqb String.eqb_eq). Qed.

Lemma first_present_in name elts v : first_present name elts = Some v -> exists a, In a elts /\ alookup name a = Some v.
Proof. induction elts as [|a r IH]; cbn; [discriminate|]. destruct (alookup name a) as [w|] eqn:E.
  - intros H. inversion H; subst. exists a. auto.
  - intros H. destruct (IH H) as [b [Hb Hl]]. exists b. auto. Qed.

Lemma first_present_some name elts : In name (keys_of elts) -> exists v, first_present name elts = Some v.
Proof.
  intros H. apply keys_of_In in H. destruct H as [a [Ha Hk]]. induction elts as [|b r IH]; [destruct Ha|].
  cbn. destruct (alookup name b) as [w|] eqn:E; [eauto|]. destruct Ha as [->|Ha]; [|auto].
  apply ahas_in in Hk. apply ahas_true in Hk. destruct Hk as [v Hv]. congruence.
Qed.

Lemma col_values_length name elts : length (col_values name elts) = length elts.
Proof. unfold col_values. apply map_length. Qed.
Lemma col_missing_length name elts : length (col_missing name elts) = length elts.
Proof. unfold col_missing. apply map_length. Qed.

(* ---------- np.asarray on homogeneous value lists ---------- *)
Lemma col_arr_int vals : Forall (has_kind KI) vals ->
  col_arr vals = Ok (PFixed (mkarr DI64 [length vals] (map zof vals))).
Proof.
  intros H. unfold col_arr.
  assert (H1 : forallb is_vint vals = true).
  { apply forallb_forall. intros v Hv. rewrite Forall_forall in H. specialize (H v Hv). destruct v; cbn in *; tauto. }
  assert (H2 : forallb (fun v => in_range DI64 (zof v)) vals = true).
  { apply forallb_forall. intros v Hv. rewrite Forall_forall in H. specialize (H v Hv). destruct v; cbn in *; tauto. }
  rewrite H1, H2. reflexivity.
Qed.

Lemma col_arr_flt vals : Forall (fun v => has_kind KF v \/ v = VInt 0) vals -> Exists (has_kind KF) vals ->
  col_arr vals = Ok (PFixed (mkarr DF64 [length vals] (map fof vals))).
Proof.
  intros H He. unfold col_arr.
  assert (H1 : forallb is_vint vals = false).
  { apply Exists_exists in He. destruct He as [v [Hv Hk]]. apply not_true_is_false. intros Hf.
    rewrite forallb_forall in Hf. specialize (Hf v Hv). destruct v; cbn in *; try discriminate; tauto. }
  assert (H2 : forallb is_vnum vals = true).
  { apply forallb_forall. intros v Hv. rewrite Forall_forall in H. destruct (H v Hv) as [Hk| ->]; [|reflexivity].
    destruct v; cbn in *; tauto. }
  rewrite H1, H2. reflexivity.
Qed.

Lemma col_arr_str v0 vals : Forall (has_kind KS) (v0 :: vals) ->
  col_arr (v0 :: vals) = Ok (PFixed (mkarr DStr [length (v0 :: vals)] (map zof (v0 :: vals)))).
Proof.
  intros H. unfold col_arr.
  assert (Hs : forallb is_vstr (v0 :: vals) = true).
  { apply forallb_forall. intros v Hv. rewrite Forall_forall in H. specialize (H v Hv). destruct v; cbn in *; tauto. }
  inversion H as [|? ? H0 _]; subst. destruct v0; cbn in H0; try tauto.
  cbn [forallb is_vint is_vnum andb]. cbn [forallb] in Hs. rewrite Hs. reflexivity.
Qed.

Lemma col_arr_roi v0 vals : Forall (has_kind KR) (v0 :: vals) -> col_arr (v0 :: vals) = roi_arr (length (v0 :: vals)) (v0 :: vals).
Proof.
  intros H. unfold col_arr.
  assert (Hs : forallb is_vroi (v0 :: vals) = true).
  { apply forallb_forall. intros v Hv. rewrite Forall_forall in H. specialize (H v Hv). destruct v; cbn in *; tauto. }
  inversion H as [|? ? H0 _]; subst. destruct v0; cbn in H0; try tauto.
  cbn [forallb is_vint is_vnum is_vstr andb]. cbn [forallb] in Hs. rewrite Hs. reflexivity.
Qed.

(* ---------- scalar columns ---------- *)
Definition kdtype (k : vkind) : dtype := match k with KI => DI64 | KF => DF64 | KS => DStr | KR => DF64 end.
(* what is stored for one element: its value, or the fill value (0, 0.0, "") *)
Definition cell (k : vkind) (name : string) (a : attrs) : Z :=
  match alookup name a with
  | Some v => zof v
  | None => match k with KS => stok "" | _ => 0 end
  end.
Definition scalar_prop (k : vkind) (name : string) (elts : list attrs) : prop :=
  mkprop (PFixed (mkarr (kdtype k) [length elts] (map (cell k name) elts))) (missing_arr (col_missing name elts)).

Lemma fof_zero : fof (VInt 0) = 0.
Proof. reflexivity. Qed.

Lemma prop_of_scalar kf elts name k :
  Forall (typedk kf) elts -> In name (keys_of elts) -> kf name = k -> k <> KR ->
  prop_of elts name = Ok (name, scalar_prop k name elts).
Proof.
  intros Hty Hin Hk Hnr. destruct (first_present_some _ _ Hin) as [v0 Hfp].
  destruct (first_present_in _ _ _ Hfp) as [a0 [Ha0 Hl0]].
  assert (Hk0 : has_kind k v0). { rewrite Forall_forall in Hty. rewrite <- Hk. apply (Hty a0 Ha0 name v0 Hl0). }
  assert (Hpres : forall a v, In a elts -> alookup name a = Some v -> has_kind k v).
  { intros a v Ha Hl. rewrite Forall_forall in Hty. rewrite <- Hk. apply (Hty a Ha name v Hl). }
  unfold prop_of, scalar_prop.
  assert (Hne : elts <> []) by (intros ->; destruct Ha0).
  destruct k; [| | |congruence].
  - (* int *)
    assert (Hd : col_default name elts = VInt 0).
    { unfold col_default. rewrite Hfp. destruct v0; cbn in Hk0; try tauto; try reflexivity. }
    rewrite col_arr_int.
    + rewrite col_values_length. do 5 f_equal. unfold col_values. rewrite map_map. apply map_ext. intros a. unfold cell.
      destruct (alookup name a); [reflexivity | rewrite Hd; reflexivity].
    + apply Forall_forall. intros v Hv. unfold col_values in Hv. apply in_map_iff in Hv. destruct Hv as [a [<- Ha]].
      destruct (alookup name a) as [w|] eqn:E; [apply (Hpres a w Ha E) | rewrite Hd; reflexivity].
  - (* float *)
    assert (Hd : col_default name elts = VInt 0).
    { unfold col_default. rewrite Hfp. destruct v0; cbn in Hk0; try tauto; try reflexivity. }
    rewrite col_arr_flt.
    + rewrite col_values_length. do 5 f_equal. unfold col_values. rewrite map_map. apply map_ext_in. intros a Ha. unfold cell.
      destruct (alookup name a) as [w|] eqn:E; [|rewrite Hd; reflexivity].
      specialize (Hpres a w Ha E). destruct w; cbn in Hpres; try tauto; try reflexivity.
    + apply Forall_forall. intros v Hv. unfold col_values in Hv. apply in_map_iff in Hv. destruct Hv as [a [<- Ha]].
      destruct (alookup name a) as [w|] eqn:E; [left; apply (Hpres a w Ha E) | right; exact Hd].
    + apply Exists_exists. exists v0. split; [|exact Hk0]. unfold col_values. apply in_map_iff. exists a0. rewrite Hl0. auto.
  - (* str *)
    assert (Hd : col_default name elts = VStr empty_str).
    { unfold col_default. rewrite Hfp. destruct v0; cbn in Hk0; try tauto; try reflexivity. }
    assert (Hall : Forall (has_kind KS) (col_values name elts)).
    { apply Forall_forall. intros v Hv. unfold col_values in Hv. apply in_map_iff in Hv. destruct Hv as [a [<- Ha]].
      destruct (alookup name a) as [w|] eqn:E; [apply (Hpres a w Ha E) | rewrite Hd; exact I]. }
    destruct (col_values name elts) as [|w ws] eqn:Ec.
    { exfalso. apply Hne. apply length_zero_iff_nil. rewrite <- (col_values_length name elts), Ec. reflexivity. }
    rewrite (col_arr_str w ws Hall). rewrite <- Ec, col_values_length. do 5 f_equal.
    unfold col_values. rewrite map_map. apply map_ext. intros a. unfold cell.
    destruct (alookup name a); [reflexivity | rewrite Hd; reflexivity].
Qed.

(* ---------- ROI columns ---------- *)
Lemma roi_elem_ok v : has_kind KR v -> exists pts sh, v = VRoi (Some pts) /\ rect pts = Some sh /\ roi_elem v = Ok (sh, List.concat pts).
Proof.
  destruct v as [| | |[pts|]]; cbn; try tauto. intros H. destruct (rect pts) as [sh|] eqn:E; [|congruence].
  exists pts, sh. auto.
Qed.

Definition roi_rel (v : val) (e : nat * nat * list Z) : Prop :=
  exists pts, v = VRoi (Some pts) /\ rect pts = Some (fst e) /\ snd e = List.concat pts.

Lemma mapM_roi_elem vals : Forall (has_kind KR) vals -> exists es, mapM roi_elem vals = Ok es /\ Forall2 roi_rel vals es.
Proof.
  induction vals as [|v r IH]; intros H; [exists []; split; [reflexivity | constructor]|].
  inversion H as [|? ? Hv Hr]; subst. destruct (IH Hr) as [es [Hes HF]].
  destruct (roi_elem_ok v Hv) as [pts [sh [-> [Hre Hel]]]]. exists ((sh, List.concat pts) :: es). cbn [mapM]. rewrite Hel, Hes.
  split; [reflexivity|]. constructor; [|exact HF]. exists pts. auto.
Qed.

Lemma all_df64_result ds : ds <> [] -> Forall (fun d => d = DF64) ds -> result_type ds = Some DF64.
Proof.
  intros Hne H. destruct ds as [|d r]; [congruence|]. unfold result_type.
  assert (Hn : forallb is_numeric (d :: r) = true).
  { apply forallb_forall. intros x Hx. rewrite Forall_forall in H. rewrite (H x Hx). reflexivity. }
  rewrite Hn. f_equal. unfold result_type_num.
  assert (Hf : max_bits is_float (d :: r) = 64%nat /\ max_bits is_signed (d :: r) = 0%nat /\ max_bits is_unsigned (d :: r) = 0%nat).
  { clear Hn Hne. inversion H as [|? ? Hd Hr]; subst. clear H.
    assert (Hs : max_bits is_signed r = 0%nat /\ max_bits is_unsigned r = 0%nat).
    { induction Hr as [|x l Hx _ IH]; [split; reflexivity|]. subst x. cbn. exact IH. }
    assert (Hr' : max_bits is_float r = 64%nat \/ max_bits is_float r = 0%nat).
    { clear Hs. induction Hr as [|x l Hx _ IH]; [right; reflexivity|]. subst x. cbn. destruct IH as [-> | ->]; left; reflexivity. }
    cbn. destruct Hs as [-> ->]. destruct Hr' as [-> | ->]; repeat split; reflexivity. }
  destruct Hf as [-> [-> ->]]. reflexivity.
Qed.

Lemma construct_roi es : es <> [] ->
  construct (map (fun e => Some (roi_varr e)) es) = Ok (map roi_varr es, None).
Proof.
  intros Hne. unfold construct, common_type_dims.
  assert (Hs : somes (map (fun e => Some (roi_varr e)) es) = map roi_varr es).
  { clear Hne. induction es as [|e r IH]; cbn; [reflexivity | rewrite IH; reflexivity]. }
  rewrite Hs. destruct (map roi_varr es) as [|x xs] eqn:Em; [destruct es; [congruence | discriminate]|].
  rewrite <- Em.
  assert (Hdt : Forall (fun d => d = DF64) (map v_dt (map roi_varr es))).
  { rewrite map_map. apply Forall_forall. intros d Hd. apply in_map_iff in Hd. destruct Hd as [e [<- _]]. reflexivity. }
  rewrite all_df64_result; [| rewrite Em; discriminate | exact Hdt].
  assert (Hc : forallb (fun a => can_cast_safe (v_dt a) DF64) (map roi_varr es) = true).
  { apply forallb_forall. intros a Ha. apply in_map_iff in Ha. destruct Ha as [e [<- _]]. reflexivity. }
  rewrite Hc.
  assert (Hr : max_rank (map roi_varr es) = 2%nat).
  { clear Hs Em Hdt Hc. destruct es as [|e r]; [congruence|]. clear Hne. cbn [map max_rank roi_varr v_shape length].
    induction r as [|e' r' IH]; [reflexivity|]. cbn [map max_rank roi_varr v_shape length]. cbn [map max_rank roi_varr v_shape length] in IH.
    destruct (max_rank (map roi_varr r')) as [|[|[|k]]]; cbn in *; try reflexivity; lia. }
  rewrite Hr. f_equal. f_equal.
  - rewrite map_map. apply map_ext. intros e. unfold normalise_one, roi_varr, pad_shape. cbn [v_shape v_dt v_flat length Nat.sub repeat app].
    f_equal. rewrite <- (map_id (snd e)) at 2. apply map_ext. intros z. reflexivity.
  - assert (Hm : existsb (fun b => b) (map is_none (map (fun e => Some (roi_varr e)) es)) = false).
    { clear. induction es as [|e r IH]; cbn; [reflexivity | exact IH]. }
    rewrite Hm. reflexivity.
Qed.

(* element i of a stored property: (shape, flat values) *)
Definition pv_elem (pv : pvals) (i : nat) : option (list nat * list Z) :=
  match pv with
  | PFixed a => option_map (fun r => (tl (a_shape a), r)) (nth_error (chunks (row_size a) (hd 0%nat (a_shape a)) (a_flat a)) i)
  | PVlen elems => option_map (fun v => (v_shape v, v_flat v)) (nth_error elems i)
  end.

Lemma concat_length_uniform (l : list (list Z)) d : (forall q, In q l -> length q = d) -> length (List.concat l) = (length l * d)%nat.
Proof. induction l as [|q t IH]; intros H; [reflexivity|].
  cbn [List.concat length]. rewrite app_length, IH, (H q (or_introl eq_refl)); [cbn; lia|]. intros x Hx. apply H. right; exact Hx. Qed.

Lemma rect_concat_length pts sh : rect pts = Some sh -> length (List.concat pts) = (fst sh * snd sh)%nat.
Proof.
  unfold rect. destruct pts as [|p r]; [discriminate|].
  destruct (forallb (fun q => Nat.eqb (length q) (length p)) r) eqn:E; [|discriminate]. intros H. inversion H; subst. clear H.
  unfold fst, snd. rewrite forallb_forall in E. apply concat_length_uniform.
  intros q [<-|Hq]; [reflexivity|]. apply Nat.eqb_eq. apply E. exact Hq.
Qed.

Lemma flat_map_concat_map {A B} (f : A -> list B) l : flat_map f l = List.concat (map f l).
Proof. induction l as [|x r IH]; cbn; [reflexivity | rewrite IH; reflexivity]. Qed.

Lemma Forall2_len {A B} (R : A -> B -> Prop) l l' : Forall2 R l l' -> length l = length l'.
Proof. induction 1; cbn; congruence. Qed.

(* the ROI column of elements that all carry a polygon *)
Lemma roi_arr_spec vals : vals <> [] -> Forall (has_kind KR) vals ->
  exists pv, roi_arr (length vals) vals = Ok pv /\
    (forall i pts, nth_error vals i = Some (VRoi (Some pts)) ->
       exists sh, rect pts = Some sh /\ pv_elem pv i = Some ([fst sh; snd sh], List.concat pts)) /\
    ((exists sh flat, pv = PFixed (mkarr DF64 [length vals; fst sh; snd sh] flat) /\ length flat = (length vals * (fst sh * snd sh))%nat) \/
     (exists elems, pv = PVlen elems /\ length elems = length vals /\
        Forall (fun v => v_dt v = DF64 /\ length (v_shape v) = 2%nat /\ wf_varr v) elems)).
Proof.
  intros Hne Hk. destruct (mapM_roi_elem vals Hk) as [es [Hes HF]]. unfold roi_arr. rewrite Hes.
  assert (Hlen : length es = length vals) by (symmetry; eapply Forall2_len; exact HF).
  destruct es as [|e0 es']; [destruct vals; [congruence | discriminate]|].
  assert (Hwf : forall e, In e (e0 :: es') -> length (snd e) = (fst (fst e) * snd (fst e))%nat).
  { intros e He. clear -HF He. induction HF as [|v x vs xs Hr _ IH]; [destruct He|].
    destruct He as [<-|He]; [|auto]. destruct Hr as [pts [_ [Hre ->]]]. apply rect_concat_length. exact Hre. }
  assert (Hnth : forall i pts, nth_error vals i = Some (VRoi (Some pts)) ->
            exists e, nth_error (e0 :: es') i = Some e /\ rect pts = Some (fst e) /\ snd e = List.concat pts).
  { clear -HF. induction HF as [|v x vs xs Hr _ IH]; intros i pts Hi; [destruct i; discriminate|].
    destruct i as [|i]; cbn in Hi |- *.
    - inversion Hi; subst v. destruct Hr as [pts' [Hv [Hre Hs]]]. inversion Hv; subst pts'. exists x. auto.
    - apply IH. exact Hi. }
  destruct (forallb (fun e => sh_eqb (fst e) (fst e0)) es') eqn:Eall.
  - (* one 3-D array *)
    assert (Hsh : forall e, In e (e0 :: es') -> fst e = fst e0).
    { intros e [<-|He]; [reflexivity|]. rewrite forallb_forall in Eall. specialize (Eall e He). unfold sh_eqb in Eall.
      apply andb_true_iff in Eall. destruct Eall as [E1 E2]. apply Nat.eqb_eq in E1, E2. destruct (fst e), (fst e0); cbn in *; subst; reflexivity. }
    eexists. split; [reflexivity|]. split.
    + intros i pts Hi. destruct (Hnth i pts Hi) as [e [He [Hre Hs]]]. exists (fst e). split; [exact Hre|].
      unfold pv_elem. cbn [a_shape a_flat hd tl]. unfold row_size. cbn [a_shape tl].
      assert (Hsz : size [fst (fst e0); snd (fst e0)] = (fst (fst e0) * snd (fst e0))%nat) by (unfold size; cbn; lia).
      rewrite flat_map_concat_map, <- Hlen, <- (map_length (fun e1 : nat * nat * list Z => snd e1) (e0 :: es')).
      rewrite chunks_concat.
      * rewrite nth_error_map, He. cbn [option_map]. rewrite (Hsh e (nth_error_In _ _ He)), Hs. reflexivity.
      * apply Forall_forall. intros row Hrow. apply in_map_iff in Hrow. destruct Hrow as [e1 [<- He1]].
        rewrite (Hwf e1 He1), (Hsh e1 He1), Hsz. reflexivity.
    + left. exists (fst e0), (flat_map (fun e => snd e) (e0 :: es')). split; [reflexivity|].
      rewrite <- Hlen. clear -Hwf Hsh. induction (e0 :: es') as [|e r IH] in Hwf, Hsh |- *; [reflexivity|].
      cbn [flat_map length]. rewrite app_length, IH; [|intros; apply Hwf; right; assumption | intros; apply Hsh; right; assumption].
      rewrite (Hwf e (or_introl eq_refl)), (Hsh e (or_introl eq_refl)). lia.
  - (* object array of (points, dim) arrays *)
    rewrite construct_roi; [|discriminate]. eexists. split; [reflexivity|]. split.
    + intros i pts Hi. destruct (Hnth i pts Hi) as [e [He [Hre Hs]]]. exists (fst e). split; [exact Hre|].
      unfold pv_elem. rewrite nth_error_map, He. cbn [option_map roi_varr v_shape v_flat]. rewrite Hs. reflexivity.
    + right. eexists. split; [reflexivity|]. split; [rewrite map_length; exact Hlen|].
      apply Forall_forall. intros v Hv. apply in_map_iff in Hv. destruct Hv as [e [<- He]].
      unfold roi_varr, wf_varr. cbn [v_dt v_shape v_flat length]. repeat split.
      rewrite (Hwf e He). unfold size. cbn. lia.
Qed.

(* ---------- every property of typed elements ---------- *)
Definition roi_pv (name : string) (elts : list attrs) : pvals :=
  match roi_arr (length elts) (col_values name elts) with Ok pv => pv | Err _ => PFixed (mkarr DF64 [] []) end.
Definition tprop (kf : string -> vkind) (elts : list attrs) (name : string) : prop :=
  match kf name with
  | KR => mkprop (roi_pv name elts) (missing_arr (col_missing name elts))
  | k => scalar_prop k name elts
  end.

Lemma roi_col_kinds kf elts name : Forall (typedk kf) elts -> In name (keys_of elts) -> kf name = KR ->
  col_values name elts <> [] /\ Forall (has_kind KR) (col_values name elts).
Proof.
  intros Hty Hin Hk. destruct (first_present_some _ _ Hin) as [v0 Hfp].
  destruct (first_present_in _ _ _ Hfp) as [a0 [Ha0 Hl0]]. rewrite Forall_forall in Hty.
  assert (Hk0 : has_kind KR v0) by (rewrite <- Hk; apply (Hty a0 Ha0 name v0 Hl0)).
  split.
  - intros E. apply (f_equal (@length val)) in E. rewrite col_values_length in E. destruct elts; [destruct Ha0 | discriminate].
  - apply Forall_forall. intros v Hv. unfold col_values in Hv. apply in_map_iff in Hv. destruct Hv as [a [<- Ha]].
    destruct (alookup name a) as [w|] eqn:E; [rewrite <- Hk; apply (Hty a Ha name w E)|].
    unfold col_default. rewrite Hfp. destruct v0 as [| | |p]; cbn in Hk0; try tauto; try exact Hk0.
Qed.

Lemma prop_of_total kf elts name : Forall (typedk kf) elts -> In name (keys_of elts) ->
  prop_of elts name = Ok (name, tprop kf elts name).
Proof.
  intros Hty Hin. unfold tprop. destruct (kf name) eqn:Hk;
    try (apply (prop_of_scalar kf elts name _ Hty Hin Hk); discriminate).
  destruct (roi_col_kinds kf elts name Hty Hin Hk) as [Hne Hall].
  destruct (roi_arr_spec _ Hne Hall) as [pv [Hpv _]]. rewrite col_values_length in Hpv.
  unfold prop_of, roi_pv. destruct (col_values name elts) as [|w ws] eqn:Ec; [congruence|].
  assert (Hl : length (w :: ws) = length elts) by (rewrite <- Ec; apply col_values_length).
  rewrite (col_arr_roi w ws Hall), Hl, Hpv. reflexivity.
Qed.

Definition tprops (kf : string -> vkind) (elts : list attrs) : props := map (fun k => (k, tprop kf elts k)) (keys_of elts).

Lemma dict_props_ok kf elts : Forall (typedk kf) elts -> dict_props_to_arr elts = Ok (tprops kf elts).
Proof. intros Hty. unfold dict_props_to_arr, tprops. apply mapM_ok_map. intros k Hk. apply prop_of_total; assumption. Qed.

Lemma akeys_tprops kf elts : akeys (tprops kf elts) = keys_of elts.
Proof. unfold tprops, akeys. rewrite map_map. cbn. apply map_id. Qed.

Lemma alookup_tprops kf elts k : In k (keys_of elts) -> alookup k (tprops kf elts) = Some (tprop kf elts k).
Proof.
  intros Hk. apply alookup_in_nodup; [rewrite akeys_tprops; apply keys_of_NoDup|].
  unfold tprops. apply in_map_iff. exists k. auto.
Qed.

Lemma missing_arr_wf n miss : length miss = n -> wf_missing n (missing_arr miss).
Proof. intros H. unfold missing_arr. destruct (existsb (fun b => b) miss); cbn; [|exact I]. split; [reflexivity | rewrite H; reflexivity]. Qed.

Lemma valid_di64 : valid_prop_dtype DI64 = true. Proof. reflexivity. Qed.
Lemma valid_df64 : valid_prop_dtype DF64 = true. Proof. reflexivity. Qed.
Lemma valid_dstr : valid_prop_dtype DStr = true. Proof. reflexivity. Qed.

Lemma fixed_encodable name dt sh flat miss : name <> "" -> valid_prop_dtype dt = true -> dt <> DF16 ->
  encodable (name, mkprop (PFixed (mkarr dt sh flat)) miss).
Proof.
  intros Hn Hv Hd. unfold encodable, create_props_metadata, vlen_dtypes_uniform, cpm_core, encode_prop, upcast_prop, upcast_arr. cbn [fst snd p_vals p_missing a_dt].
  assert (E : dtype_eqb dt DF16 = false) by (destruct dt; try reflexivity; congruence). rewrite E. cbn [p_vals a_dt].
  rewrite Hv, (seqb_neq _ _ Hn). cbn. eexists. eexists. split; reflexivity.
Qed.

Lemma tprop_wf kf elts name : Forall (typedk kf) elts -> In name (keys_of elts) -> name <> "" ->
  encodable (name, tprop kf elts name) /\ wf_prop (length elts) (tprop kf elts name).
Proof.
  intros Hty Hin Hne. unfold tprop.
  assert (Hm : wf_missing (length elts) (missing_arr (col_missing name elts))) by (apply missing_arr_wf, col_missing_length).
  destruct (kf name) eqn:Hk.
  1-3: (split; [apply fixed_encodable; [exact Hne | reflexivity | discriminate] | split; [cbn; eexists; reflexivity | exact Hm]]).
  destruct (roi_col_kinds kf elts name Hty Hin Hk) as [Hnv Hall].
  destruct (roi_arr_spec _ Hnv Hall) as [pv [Hpv [_ Hform]]]. rewrite col_values_length in Hpv, Hform.
  unfold roi_pv. rewrite Hpv. destruct Hform as [[sh [flat [-> _]]] | [elems [-> [Hlen HF]]]].
  - split; [apply fixed_encodable; [exact Hne | reflexivity | discriminate] | split; [cbn; eexists; reflexivity | exact Hm]].
  - split.
    + unfold encodable, create_props_metadata, vlen_dtypes_uniform, cpm_core, encode_prop. cbn [fst snd].
      rewrite (upcast_prop_vlen_id elems _) by (eapply Forall_impl; [|exact HF]; cbn; intros x [Hx _]; rewrite Hx; discriminate).
      cbn [p_vals p_missing].
      destruct elems as [|e r]; [destruct elts; [destruct (keys_of_In [] name) as [H _]; destruct (H Hin) as [? [[] _]] | discriminate]|].
      assert (Hsame : forallb (fun x => dtype_eqb (v_dt x) (v_dt e)) r = true).
      { apply forallb_forall. intros x Hx. rewrite Forall_forall in HF. destruct (HF x (or_intror Hx)) as [-> _].
        destruct (HF e (or_introl eq_refl)) as [-> _]. reflexivity. }
      rewrite Hsame. rewrite Forall_forall in HF. destruct (HF e (or_introl eq_refl)) as [He [He2 _]]. rewrite He, valid_df64, (seqb_neq _ _ Hne). cbn [andb negb].
      assert (Hu : uniform (e :: r)).
      { cbn. apply Forall_forall. intros x Hx. destruct (HF x Hx) as [Hx1 [Hx2 _]]. split; congruence. }
      apply serialize_ok_iff in Hu. destruct Hu as [[rows data] Hs]. rewrite Hs. eexists. eexists. split; reflexivity.
    + split; [|exact Hm]. cbn. split; [exact Hlen|]. eapply Forall_impl; [|exact HF]. cbn. tauto.
Qed.

Lemma tprops_wf kf elts : Forall (typedk kf) elts -> (forall a k, In a elts -> In k (akeys a) -> k <> "") ->
  wf_props (length elts) (Some (tprops kf elts)).
Proof.
  intros Hty Hne ps Hps. inversion Hps; subst ps. split; [rewrite akeys_tprops; apply keys_of_NoDup|].
  apply Forall_forall. intros kv Hkv. unfold tprops in Hkv. apply in_map_iff in Hkv. destruct Hkv as [k [<- Hk]].
  cbn [snd]. apply tprop_wf; [exact Hty | exact Hk|].
  apply keys_of_In in Hk. destruct Hk as [a [Ha Hka]]. apply (Hne a k Ha Hka).
Qed.

(* nothing to upcast: no float16 column *)
Lemma tprop_upcast kf elts name : Forall (typedk kf) elts -> In name (keys_of elts) -> upcast_prop (tprop kf elts name) = tprop kf elts name.
Proof.
  intros Hty Hin. unfold tprop. destruct (kf name) eqn:Hk; try reflexivity.
  destruct (roi_col_kinds kf elts name Hty Hin Hk) as [Hnv Hall].
  destruct (roi_arr_spec _ Hnv Hall) as [pv [Hpv [_ Hform]]]. rewrite col_values_length in Hpv, Hform.
  unfold roi_pv. rewrite Hpv. destruct Hform as [[sh [flat [-> _]]] | [elems [-> [_ HF]]]]; [reflexivity|].
  apply upcast_prop_vlen_id. eapply Forall_impl; [|exact HF]. cbn. intros x [Hx _]. rewrite Hx. discriminate.
Qed.

Lemma tprops_upcast kf elts : Forall (typedk kf) elts -> up_props (Some (tprops kf elts)) = tprops kf elts.
Proof.
  intros Hty. unfold up_props, tprops. rewrite map_map. apply map_ext_in. intros k Hk. cbn [fst snd].
  rewrite (tprop_upcast kf elts k Hty Hk). reflexivity.
Qed.
