(* Names.v -- which strings can be the NAME of a property (a member of nodes/props or edges/props).
   A property called `name` is stored as the zarr group <nodes|edges>/props/<name>; zarr normalises the
   path, so a name is usable only when it is ONE path segment that is not one of zarr's own member names:
     * not empty;
     * no "/" and no "\" (zarr turns "\" into "/"): "a/b" creates the group a with a member b, the
       property "a/b" is then "in the metadata but missing from the property group" (ValueError), and
       {"a", "a/b"} together collide (ContainsGroupError);
     * not "." and not ".." (zarr: "The path ... is invalid because its string representation contains
       '.' or '..' segments", ValueError);
     * not a reserved member name of either zarr format: ".zarray", ".zgroup", ".zattrs", ".zmetadata"
       (format 2: the group's own metadata documents live under these keys), "zarr.json" (format 3).
   The tree model of the store (Tree.v) has no zarr_format and keeps member names abstract, so ONE predicate
   excludes the reserved names of both formats.  Observed on the real code (zarr 3.x, both formats): every
   name rejected here makes geff.write raise (ValueError / ContainsGroupError) and leaves no geff behind --
   except the reserved names of the OTHER format, which round-trip; every other string tried (spaces, tabs,
   newlines, "a.b", "..a", "...", 300 characters, non-ASCII, "values", "missing", "c") round-trips.
   Pure definitions and their unfolding lemmas; no property statements. *)
From Coq Require Import List Bool String Ascii.
Import ListNotations.
Open Scope string_scope.

Fixpoint str_has (c : ascii) (s : string) : bool :=
  match s with
  | EmptyString => false
  | String a r => Ascii.eqb a c || str_has c r
  end.

Definition reserved_names : list string := [".zarray"; ".zgroup"; ".zattrs"; ".zmetadata"; "zarr.json"].

Definition name_ok (s : string) : bool :=
  negb (String.eqb s "")
  && negb (str_has "/"%char s) && negb (str_has "\"%char s)
  && negb (String.eqb s ".") && negb (String.eqb s "..")
  && negb (existsb (String.eqb s) reserved_names).

(* per zarr format (tied to the real write by the C03 correspondence, input IName): one usable path segment that is not a reserved
   member name of THAT format; name_ok is the conjunction over both formats *)
Definition seg_ok (s : string) : bool :=
  negb (String.eqb s "")
  && negb (str_has "/"%char s) && negb (str_has "\"%char s)
  && negb (String.eqb s ".") && negb (String.eqb s "..").
Definition reserved_v2 : list string := [".zarray"; ".zgroup"; ".zattrs"; ".zmetadata"].
Definition reserved_v3 : list string := ["zarr.json"].
Definition name_ok_fmt (v3 : bool) (s : string) : bool :=
  seg_ok s && negb (existsb (String.eqb s) (if v3 then reserved_v3 else reserved_v2)).

Lemma name_ok_both s : name_ok s = name_ok_fmt false s && name_ok_fmt true s.
Proof. unfold name_ok, name_ok_fmt, seg_ok, reserved_names, reserved_v2, reserved_v3. cbn [existsb].
  destruct (String.eqb s ""), (str_has "/"%char s), (str_has "\"%char s), (String.eqb s "."), (String.eqb s ".."),
    (String.eqb s ".zarray"), (String.eqb s ".zgroup"), (String.eqb s ".zattrs"), (String.eqb s ".zmetadata"), (String.eqb s "zarr.json"); reflexivity. Qed.

Lemma name_ok_nonempty s : name_ok s = true -> s <> "".
Proof. unfold name_ok. intros H E. subst s. discriminate. Qed.

Lemma name_ok_no_slash s : name_ok s = true -> str_has "/"%char s = false /\ str_has "\"%char s = false.
Proof. unfold name_ok. intro H. repeat (apply andb_true_iff in H; destruct H as [H ?]).
  split; apply negb_true_iff; assumption. Qed.

Lemma name_ok_not_reserved s : name_ok s = true -> ~ In s reserved_names /\ s <> "." /\ s <> "..".
Proof. unfold name_ok. intro H. repeat (apply andb_true_iff in H; destruct H as [H ?]).
  repeat match goal with Hn : negb _ = true |- _ => apply negb_true_iff in Hn end.
  split; [|split].
  - intro Hin. assert (existsb (String.eqb s) reserved_names = true) by (apply existsb_exists; exists s; split; [exact Hin | apply String.eqb_refl]). congruence.
  - intro E. subst s. discriminate.
  - intro E. subst s. discriminate. Qed.

(* what is and is not a name (computed) *)
Example name_ok_examples :
  map name_ok ["a"; "score"; " "; "a.b"; "..a"; "..."; "values"; "c"]
  = [true; true; true; true; true; true; true; true] /\
  map name_ok [""; "a/b"; "/a"; "a/"; "a\b"; "."; ".."; ".zarray"; ".zgroup"; ".zattrs"; ".zmetadata"; "zarr.json"]
  = [false; false; false; false; false; false; false; false; false; false; false; false].
Proof. split; reflexivity. Qed.
