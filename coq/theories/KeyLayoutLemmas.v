(* KeyLayoutLemmas.v -- the key-level store of what write_arrays leaves (the tie of KeyStore.v to C02):
     keys_of_layout      the keys of the written tree, listed explicitly with the member names of the SPECIFICATION as literals
                         ("nodes", "edges", "ids", "props", "values", "missing", "data"; the writer model takes them from
                         geff/_path.py through Gen/Consts.v, so the statement fails to compile when a path constant changes)
     ids_document_v2/v3  the array documents at nodes/ids and edges/ids carry the dtype and shape the specification prescribes
     write_keys_decode   write_arrays, then the layout function, then the abstraction function, then the specification decoder:
                         the graph given to the writer. *)
From Geff Require Import Base Dtype DtypeLemmas Vlen VlenLemmas Tree TreeLemmas Validate Write Read RoundTrip WriteLemmas ReadLemmas
  C01Lemmas SpecDecode SpecLemmas KeyStore KeyStoreLemmas.
From Geff Require Meta.
From Geff.Gen Require Import Consts.
Open Scope string_scope.
Open Scope list_scope.

(* ---------- the expected keys, written from the specification's layout section ---------- *)
Definition opt_keys (f : fmt) (name : string) (o : option arr) : kstore :=
  match o with Some x => prefix name (array_keys f x) | None => [] end.
(* props/<name>/ : a group holding the arrays values, missing (optional), data (variable-length properties only) *)
Definition prop_keys (f : fmt) (p : prop) : kstore :=
  match encode_prop p with
  | Ok (v, m, d) => group_docs f [] ++ prefix "values" (array_keys f v) ++ opt_keys f "missing" m ++ opt_keys f "data" d
  | Err _ => group_docs f []
  end.
Definition props_keys (f : fmt) (ps : props) : kstore :=
  group_docs f [] ++ flat_map (fun kv => prefix (fst kv) (prop_keys f (snd kv))) ps.
(* nodes/ and edges/ : a group holding the array ids and, optionally, the group props *)
Definition grp_keys (f : fmt) (ids : arr) (ops : option props) : kstore :=
  group_docs f [] ++ prefix "ids" (array_keys f ids)
  ++ match ops with Some ps => prefix "props" (props_keys f ps) | None => [] end.

Definition root_attr_docs (C : bool -> string -> aval -> Meta.jv) (pre : option znode) (md' : smeta) : list (string * Meta.jv) :=
  map (fun kv => (fst kv, C true (fst kv) (snd kv))) (aset "geff" (AGeff (Some md')) (base_attrs pre)).
Definition layout_keys C (f : fmt) (pre : option znode) (g : wgraph) (nps : option props) (md' : smeta) : kstore :=
  group_docs f (root_attr_docs C pre md')
  ++ blocks f (conc_children C (base_children pre))
  ++ prefix "nodes" (grp_keys f (w_nids g) nps)
  ++ prefix "edges" (grp_keys f (w_eids g) (w_eprops g)).

(* ---------- keys of the pieces ---------- *)
Lemma blocks_app f a b : blocks f (a ++ b) = blocks f a ++ blocks f b.
Proof. unfold blocks. apply flat_map_app. Qed.

Lemma conc_children_app C a b : conc_children C (a ++ b) = conc_children C a ++ conc_children C b.
Proof. unfold conc_children. apply map_app. Qed.

Lemma keys_prop_group C f v m d :
  keys_of_jtree f (conc_tree C false (prop_group v m d))
  = group_docs f [] ++ prefix "values" (array_keys f v) ++ opt_keys f "missing" m ++ opt_keys f "data" d.
Proof. unfold prop_group, prop_members. rewrite conc_group, keys_of_group. f_equal.
  rewrite !conc_children_app, !blocks_app. unfold opt_keys.
  destruct m, d; cbn [conc_children map blocks flat_map fst snd conc_tree app]; rewrite ?app_nil_r; reflexivity. Qed.

Lemma keys_stored C f kv : keys_of_jtree f (conc_tree C false (snd (stored kv))) = prop_keys f (snd kv).
Proof. unfold stored, prop_keys. cbn [snd]. destruct (encode_prop (snd kv)) as [[[v m] d]|e].
  - apply keys_prop_group.
  - unfold empty_group. rewrite conc_group, keys_of_group. cbn [map conc_children blocks flat_map]. apply app_nil_r. Qed.

Lemma keys_props_group C f ps :
  keys_of_jtree f (conc_tree C false (ZG [] (map stored ps))) = props_keys f ps.
Proof. rewrite conc_group, keys_of_group. unfold props_keys. f_equal.
  unfold blocks, conc_children. rewrite map_map. induction ps as [|kv r IH]; [reflexivity|].
  cbn [map flat_map fst snd]. rewrite IH, keys_stored. reflexivity. Qed.

Lemma keys_grp_node C f ids ops :
  keys_of_jtree f (conc_tree C false (grp_node ids ops)) = grp_keys f ids ops.
Proof. unfold grp_node, grp_keys. rewrite conc_group, keys_of_group. f_equal.
  destruct ops as [ps|].
  - cbn [conc_children map blocks flat_map fst snd]. rewrite keys_props_group, app_nil_r. reflexivity.
  - cbn [conc_children map blocks flat_map fst snd conc_tree]. rewrite !app_nil_r. reflexivity. Qed.

(* the keys of the written tree *)
Theorem keys_of_layout C f pre g nps md' :
  keys_of_tree C f (layout pre g nps md') = layout_keys C f pre g nps md'.
Proof. unfold keys_of_tree, layout, layout_keys. rewrite conc_group, keys_of_group. f_equal.
  rewrite conc_children_app, blocks_app. f_equal.
  cbn [conc_children map blocks flat_map fst snd]. rewrite !keys_grp_node, app_nil_r. reflexivity. Qed.

(* ---------- where the specification's documents are ---------- *)
Lemma klookup_blocks_notin f nm k ch : ~ In nm (map fst ch) -> klookup (nm :: k) (blocks f ch) = None.
Proof. unfold blocks. induction ch as [|[n c] r IH]; cbn [flat_map fst snd map]; intro H; [reflexivity|].
  rewrite klookup_app.
  assert (Hn : klookup (nm :: k) (prefix n (keys_of_jtree f c)) = None).
  { unfold prefix. induction (keys_of_jtree f c) as [|[k' v'] q IHq]; cbn; [reflexivity|].
    unfold key_eqb. cbn. rewrite (seqb_neq nm n) by (intro E; apply H; left; symmetry; exact E). exact IHq. }
  rewrite Hn. apply IH. intro Hin. apply H. right. exact Hin. Qed.

Lemma klookup_group_docs_long f a x y r : klookup (x :: y :: r) (group_docs f a) = None.
Proof. destruct f; cbn; unfold key_eqb; cbn; rewrite ?andb_false_r; reflexivity. Qed.

Lemma alookup_none_map_fst {V} k (l : list (string * V)) : alookup k l = None -> ~ In k (map fst l).
Proof. intro H. apply alookup_none_notin in H. exact H. Qed.

Lemma conc_children_names C ch : map fst (conc_children C ch) = map fst ch.
Proof. unfold conc_children. rewrite map_map. reflexivity. Qed.

Lemma klookup_grp_ids f ids ops d0 dr :
  klookup ("ids" :: d0 :: dr) (grp_keys f ids ops) = klookup (d0 :: dr) (array_keys f ids).
Proof. unfold grp_keys.
  rewrite klookup_app, klookup_group_docs_long, klookup_app, klookup_prefix.
  destruct (klookup (d0 :: dr) (array_keys f ids)) eqn:E; [reflexivity|].
  destruct ops as [ps|]; [|reflexivity].
  unfold prefix. induction (props_keys f ps) as [|[k' v'] q IHq]; cbn; [reflexivity|].
  unfold key_eqb. cbn. exact IHq. Qed.

Lemma klookup_layout_nodes C f pre g nps md' d0 dr :
  alookup "nodes" (base_children pre) = None ->
  klookup ("nodes" :: "ids" :: d0 :: dr) (layout_keys C f pre g nps md') = klookup (d0 :: dr) (array_keys f (w_nids g)).
Proof. intro Hn. unfold layout_keys.
  rewrite klookup_app, klookup_group_docs_long, klookup_app.
  rewrite klookup_blocks_notin by (rewrite conc_children_names; apply alookup_none_map_fst; exact Hn).
  rewrite klookup_app, klookup_prefix, klookup_grp_ids.
  destruct (klookup (d0 :: dr) (array_keys f (w_nids g))); [reflexivity|].
  unfold prefix. induction (grp_keys f (w_eids g) (w_eprops g)) as [|[k' v'] q IHq]; cbn; [reflexivity|].
  unfold key_eqb. cbn. exact IHq. Qed.

Lemma klookup_layout_edges C f pre g nps md' d0 dr :
  alookup "nodes" (base_children pre) = None -> alookup "edges" (base_children pre) = None ->
  klookup ("edges" :: "ids" :: d0 :: dr) (layout_keys C f pre g nps md') = klookup (d0 :: dr) (array_keys f (w_eids g)).
Proof. intros Hn He. unfold layout_keys.
  rewrite klookup_app, klookup_group_docs_long, klookup_app.
  rewrite klookup_blocks_notin by (rewrite conc_children_names; apply alookup_none_map_fst; exact He).
  rewrite klookup_app.
  assert (Hx : klookup ("edges" :: "ids" :: d0 :: dr) (prefix "nodes" (grp_keys f (w_nids g) nps)) = None).
  { unfold prefix. induction (grp_keys f (w_nids g) nps) as [|[k' v'] q IHq]; cbn; [reflexivity|].
    unfold key_eqb. cbn. exact IHq. }
  rewrite Hx, klookup_prefix, klookup_grp_ids. reflexivity. Qed.

(* nodes/ids and edges/ids, zarr format 2: the key .zarray holds a document with the ids' dtype (numpy typestr) and shape *)
Theorem ids_document_v2 C pre g nps md' k :
  clean k pre ->
  klookup ["nodes"; "ids"; ".zarray"] (layout_keys C V2 pre g nps md') = Some (KDoc (zarray_doc (w_nids g))) /\
  klookup ["edges"; "ids"; ".zarray"] (layout_keys C V2 pre g nps md') = Some (KDoc (zarray_doc (w_eids g))) /\
  forall a, jfield "dtype" (zarray_doc a) = Some (JStr (v2_dtype_str (a_dt a))) /\
            jfield "shape" (zarray_doc a) = Some (jnats_doc (a_shape a)) /\
            jfield "zarr_format" (zarray_doc a) = Some (JInt 2).
Proof. intro Hc.
  assert (Hcn : alookup "nodes" (base_children pre) = None /\ alookup "edges" (base_children pre) = None).
  { destruct pre as [[x|a0 ch0]|]; cbn [clean] in Hc; cbn; [contradiction | tauto | auto]. }
  destruct Hcn as [Hn He]. split; [|split].
  - rewrite (klookup_layout_nodes _ _ _ _ _ _ _ _ Hn). reflexivity.
  - rewrite (klookup_layout_edges _ _ _ _ _ _ _ _ Hn He). reflexivity.
  - intro a. repeat split; reflexivity. Qed.

(* zarr format 3: the key zarr.json holds a document with node_type array, the data type name and the shape *)
Theorem ids_document_v3 C pre g nps md' k :
  clean k pre ->
  klookup ["nodes"; "ids"; "zarr.json"] (layout_keys C V3 pre g nps md') = Some (KDoc (v3_array_doc (w_nids g))) /\
  klookup ["edges"; "ids"; "zarr.json"] (layout_keys C V3 pre g nps md') = Some (KDoc (v3_array_doc (w_eids g))) /\
  forall a, jfield "data_type" (v3_array_doc a) = Some (JStr (v3_dtype_name (a_dt a))) /\
            jfield "shape" (v3_array_doc a) = Some (jnats_doc (a_shape a)) /\
            jfield "node_type" (v3_array_doc a) = Some (JStr "array") /\
            jfield "zarr_format" (v3_array_doc a) = Some (JInt 3).
Proof. intro Hc.
  assert (Hcn : alookup "nodes" (base_children pre) = None /\ alookup "edges" (base_children pre) = None).
  { destruct pre as [[x|a0 ch0]|]; cbn [clean] in Hc; cbn; [contradiction | tauto | auto]. }
  destruct Hcn as [Hn He]. split; [|split].
  - rewrite (klookup_layout_nodes _ _ _ _ _ _ _ _ Hn). reflexivity.
  - rewrite (klookup_layout_edges _ _ _ _ _ _ _ _ Hn He). reflexivity.
  - intro a. repeat split; reflexivity. Qed.

(* the metadata sits in the root's attribute document under the key "geff" (.zattrs / zarr.json "attributes") *)
Lemma jget_map_C (C : bool -> string -> aval -> Meta.jv) k l :
  Meta.jget k (map (fun kv => (fst kv, C true (fst kv) (snd kv))) l) = option_map (C true k) (alookup k l).
Proof. induction l as [|[k' v] r IH]; cbn; [reflexivity|]. destruct (String.eqb k k') eqn:E; [|exact IH].
  apply String.eqb_eq in E. subst. reflexivity. Qed.

Theorem geff_attribute_key C f pre g nps md' :
  root_attrs f (layout_keys C f pre g nps md') = Some (root_attr_docs C pre md') /\
  Meta.jget "geff" (root_attr_docs C pre md') = Some (C true "geff" (AGeff (Some md'))).
Proof. split.
  - rewrite <- keys_of_layout. unfold keys_of_tree, layout. rewrite conc_group. unfold root_attrs. rewrite node_doc_group. reflexivity.
  - unfold root_attr_docs. rewrite jget_map_C, alookup_aset_same. reflexivity. Qed.

(* ---------- from the writer to the keys and back to the graph ---------- *)
Theorem write_keys_decode A C f k pre g md md' n e ov :
  clean k pre -> wf_input g md n e -> final_metadata g md = Ok md' ->
  exists tr post sg,
    write_arrays k g md true ov (init pre) = (mkst (Some post) tr, Ok tt) /\
    keys_of_tree C f post = layout_keys C f pre g (backfill (w_nids g) md (w_nprops g)) md' /\
    (wf_tree post = true -> attrs_rt A C true post ->
     tree_of_keys A f (keys_of_tree C f post) = Some post /\
     option_map (fun t => spec_decode t) (tree_of_keys A f (keys_of_tree C f post)) = Some (Some sg)) /\
    sgraph_eqb sg (mksg (w_nids g) (w_eids g)
                        (of_props (up_props (backfill (w_nids g) md (w_nprops g))))
                        (of_props (up_props (w_eprops g)))) = true.
Proof. intros Hc Hwf Hfm.
  destruct (write_then_spec_decode k pre g md md' n e ov Hc Hwf Hfm) as [tr [post [sg [Hw [Hv [Hs He]]]]]].
  pose proof (write_then_read_layout k pre g md md' n e ov Hc Hwf Hfm) as [[tr' Hw'] _].
  rewrite Hw in Hw'. inversion Hw'; subst post.
  exists tr, (layout pre g (backfill (w_nids g) md (w_nprops g)) md'), sg.
  split; [exact Hw|]. split; [apply keys_of_layout|]. split; [|exact He].
  intros Hwft Hrt. rewrite (tree_keys_roundtrip A C f _ Hwft Hrt). split; [reflexivity|]. cbn [option_map]. rewrite Hs. reflexivity. Qed.

(* ---------- the written tree is a well-formed hierarchy ---------- *)
(* numpy arrays hold size(shape) values: the part of well-formedness that C01's wf_input leaves implicit *)
Definition np_prop (p : prop) : Prop :=
  match p_vals p with PFixed a => wf_arr a = true | PVlen _ => True end /\
  match p_missing p with Some m => wf_arr m = true | None => True end.
Definition np_props (ops : option props) : Prop := forall ps, ops = Some ps -> Forall (fun kv => np_prop (snd kv)) ps.
Definition np_input (g : wgraph) (md : smeta) : Prop :=
  wf_arr (w_nids g) = true /\ wf_arr (w_eids g) = true /\
  np_props (backfill (w_nids g) md (w_nprops g)) /\ np_props (w_eprops g).
Definition wf_pre (pre : option znode) : Prop := match pre with Some t => wf_tree t = true | None => True end.

Lemma wf_tree_group a ch : wf_tree (ZG a ch) = nodupb (map fst ch) && forallb (fun nc => wf_tree (snd nc)) ch.
Proof. cbn [wf_tree]. f_equal. induction ch as [|[n c] r IH]; cbn; [reflexivity|]. rewrite IH. reflexivity. Qed.

Lemma valid_storable d : valid_prop_dtype d = true -> storable d = true.
Proof. destruct d; intro H; try reflexivity. vm_compute in H. discriminate. Qed.
Lemma integer_storable d : is_integer d = true -> storable d = true.
Proof. destruct d; intro H; try reflexivity; discriminate. Qed.

Lemma concat_length_uniform {A} (rows : list (list A)) k :
  Forall (fun r => length r = k) rows -> length (List.concat rows) = length rows * k.
Proof. induction rows as [|r rs IH]; intro H; cbn; [reflexivity|].
  apply Forall_cons_iff in H. destruct H as [Hr Hrs]. rewrite app_length, (IH Hrs), Hr. reflexivity. Qed.

Lemma wf_rows_arr rows k : Forall (fun r => length r = k) rows -> wf_arr (rows_arr rows) = true.
Proof. intro H. unfold wf_arr, rows_arr. apply Nat.eqb_eq. destruct rows as [|r rs]; [reflexivity|].
  cbn [a_flat a_shape]. rewrite map_length, (concat_length_uniform _ k H).
  apply Forall_cons_iff in H. destruct H as [Hr _]. rewrite Hr. unfold size. cbn [fold_right]. lia. Qed.

Lemma wf_upcast a : wf_arr (upcast_arr a) = wf_arr a.
Proof. unfold upcast_arr. destruct (dtype_eqb (a_dt a) DF16); reflexivity. Qed.

Lemma wf_stored n kv : encodable kv -> wf_prop n (snd kv) -> np_prop (snd kv) -> wf_tree (snd (stored kv)) = true.
Proof. intros [pm [enc [Hpm Henc]]] [Hv Hm] [Nv Nm]. unfold stored. cbn [snd]. rewrite Henc. destruct enc as [[v m] d].
  apply cpm_core_of_ok in Hpm; unfold cpm_core in Hpm. unfold encode_prop in Henc.
  destruct (snd kv) as [vals miss]. unfold upcast_prop in *. cbn [p_vals p_missing] in *.
  assert (Hmiss : match miss with Some x => wf_arr x && storable (a_dt x) = true | None => True end).
  { destruct miss as [x|]; [|exact I]. cbn in Hm. destruct Hm as [Hdt _]. rewrite Nm, Hdt. reflexivity. }
  destruct vals as [a|elems]; cbn [p_vals] in *.
  - destruct (valid_prop_dtype (a_dt (upcast_arr a))) eqn:Hvd; [|discriminate].
    inversion Henc; subst v m d. unfold prop_group, prop_members. rewrite wf_tree_group.
    destruct miss as [x|]; cbn [app map fst snd forallb wf_tree]; rewrite wf_upcast, Nv, (valid_storable _ Hvd); cbn [andb].
    + rewrite Hmiss. reflexivity.
    + reflexivity.
  - destruct (map upcast_varr elems) as [|e r]; [discriminate|].
    destruct (forallb (fun x => dtype_eqb (v_dt x) (v_dt e)) r); [|discriminate].
    destruct (valid_prop_dtype (v_dt e)) eqn:Hvd; [|discriminate].
    destruct (serialize (e :: r)) as [[rows data]|err] eqn:Hser; [|discriminate].
    inversion Henc; subst v m d. unfold prop_group, prop_members. rewrite wf_tree_group.
    assert (Hr : wf_arr (rows_arr rows) && storable (a_dt (rows_arr rows)) = true).
    { rewrite (wf_rows_arr _ _ (serialize_rows_length _ _ _ _ Hser)). unfold rows_arr. destruct rows; reflexivity. }
    assert (Hd : wf_arr (data_arr (e :: r) data) && storable (a_dt (data_arr (e :: r) data)) = true).
    { unfold data_arr, wf_arr. cbn [a_flat a_shape a_dt ser_dtype]. unfold size. cbn [fold_right].
      rewrite Nat.mul_1_r, Nat.eqb_refl, (valid_storable _ Hvd). reflexivity. }
    destruct miss as [x|]; cbn [app map fst snd forallb wf_tree]; rewrite Hr, Hd; cbn [andb].
    + rewrite Hmiss. reflexivity.
    + reflexivity. Qed.

Lemma NoDup_nodupb l : NoDup l -> nodupb l = true.
Proof. induction 1 as [|x l Hnotin _ IH]; [reflexivity|]. apply nodupb_cons. split; assumption. Qed.

Lemma wf_grp_node n ids ops :
  wf_arr ids = true -> storable (a_dt ids) = true -> wf_props n ops -> np_props ops -> wf_tree (grp_node ids ops) = true.
Proof. intros Hw Hs Hp Hn. unfold grp_node. rewrite wf_tree_group. destruct ops as [ps|].
  - destruct (Hp ps eq_refl) as [Hnd HF]. specialize (Hn ps eq_refl).
    cbn [map fst snd forallb]. change (wf_tree (ZA ids)) with (wf_arr ids && storable (a_dt ids)). rewrite Hw, Hs. cbn [andb].
    change (nodupb [path_IDS; path_PROPS]) with true. cbn [andb]. rewrite andb_true_r.
    rewrite wf_tree_group. apply andb_true_iff. split.
    + rewrite map_map. cbn [fst stored]. apply NoDup_nodupb. exact Hnd.
    + apply forallb_forall. intros nc Hin. apply in_map_iff in Hin. destruct Hin as [kv [<- Hin]].
      rewrite Forall_forall in HF, Hn. destruct (HF kv Hin) as [He Hwp]. apply (wf_stored n kv He Hwp (Hn kv Hin)).
  - cbn [map fst snd forallb wf_tree]. rewrite Hw, Hs. reflexivity. Qed.

Lemma nodupb_app_two l a b : nodupb l = true -> ~ In a l -> ~ In b l -> a <> b -> nodupb (l ++ [a; b]) = true.
Proof. induction l as [|x r IH]; intros Hl Ha Hb Hab.
  - cbn. rewrite (seqb_neq _ _ Hab). reflexivity.
  - cbn [app]. apply nodupb_cons in Hl. destruct Hl as [Hx Hr]. apply nodupb_cons. split.
    + rewrite in_app_iff. intros [H|[H|[H|[]]]]; [contradiction | subst; apply Ha; left; reflexivity | subst; apply Hb; left; reflexivity].
    + apply IH; [exact Hr | intro H; apply Ha; right; exact H | intro H; apply Hb; right; exact H | exact Hab]. Qed.

Theorem wf_tree_layout k pre g md md' n e :
  clean k pre -> wf_pre pre -> wf_input g md n e -> np_input g md ->
  wf_tree (layout pre g (backfill (w_nids g) md (w_nprops g)) md') = true.
Proof. intros Hc Hpre Hwf [Hn [He [Hnp Hep]]]. unfold layout. rewrite wf_tree_group.
  assert (Hcn : ~ In path_NODES (map fst (base_children pre)) /\ ~ In path_EDGES (map fst (base_children pre))).
  { destruct pre as [[x|a0 ch0]|]; cbn [clean] in Hc; cbn [base_children children map]; [contradiction | | tauto].
    destruct Hc as [_ [_ [H1 H2]]]. split; apply alookup_none_notin; assumption. }
  destruct Hcn as [Hcn Hce].
  assert (Hb : nodupb (map fst (base_children pre)) = true /\ forallb (fun nc => wf_tree (snd nc)) (base_children pre) = true).
  { destruct pre as [[x|a0 ch0]|]; cbn [base_children children]; [split; reflexivity | | split; reflexivity].
    cbn [wf_pre] in Hpre. rewrite wf_tree_group in Hpre. apply andb_true_iff in Hpre. exact Hpre. }
  destruct Hb as [Hb1 Hb2].
  pose proof (integer_storable _ (wi_int _ _ _ _ Hwf)) as Hsn.
  assert (Hse : storable (a_dt (w_eids g)) = true) by (rewrite <- (wi_dtype _ _ _ _ Hwf); exact Hsn).
  apply andb_true_iff. split.
  - rewrite map_app. cbn [map fst]. apply nodupb_app_two; [exact Hb1 | exact Hcn | exact Hce | discriminate].
  - rewrite forallb_app, Hb2. cbn [forallb snd andb].
    rewrite (wf_grp_node n _ _ Hn Hsn (wi_nprops _ _ _ _ Hwf) Hnp), (wf_grp_node e _ _ He Hse (wi_eprops _ _ _ _ Hwf) Hep). reflexivity. Qed.

(* end to end, all premises explicit: clean target, well-formed input (C01), numpy arrays, a well-formed foreign hierarchy beside
   it, attributes that survive the JSON concretisation: write_arrays, the layout function, the abstraction function and the
   specification decoder return the graph given to the writer *)
Theorem write_keys_spec A C f k pre g md md' n e ov :
  clean k pre -> wf_pre pre -> wf_input g md n e -> np_input g md -> final_metadata g md = Ok md' ->
  attrs_rt A C true (layout pre g (backfill (w_nids g) md (w_nprops g)) md') ->
  exists tr post t sg,
    write_arrays k g md true ov (init pre) = (mkst (Some post) tr, Ok tt) /\
    tree_of_keys A f (keys_of_tree C f post) = Some t /\ t = post /\
    spec_decode t = Some sg /\
    sgraph_eqb sg (mksg (w_nids g) (w_eids g)
                        (of_props (up_props (backfill (w_nids g) md (w_nprops g))))
                        (of_props (up_props (w_eprops g)))) = true.
Proof. intros Hc Hpre Hwf Hnp Hfm Hrt.
  destruct (write_then_spec_decode k pre g md md' n e ov Hc Hwf Hfm) as [tr [post [sg [Hw [Hv [Hs He]]]]]].
  pose proof (write_then_read_layout k pre g md md' n e ov Hc Hwf Hfm) as [[tr' Hw'] _].
  rewrite Hw in Hw'. inversion Hw'; subst post.
  exists tr, (layout pre g (backfill (w_nids g) md (w_nprops g)) md'), (layout pre g (backfill (w_nids g) md (w_nprops g)) md'), sg.
  split; [exact Hw|]. split; [|split; [reflexivity | split; [exact Hs | exact He]]].
  apply tree_keys_roundtrip; [|exact Hrt]. eapply wf_tree_layout; eauto. Qed.

Theorem write_keys_layout C f k pre g md md' n e ov :
  clean k pre -> wf_input g md n e -> final_metadata g md = Ok md' ->
  exists tr post,
    write_arrays k g md true ov (init pre) = (mkst (Some post) tr, Ok tt) /\
    keys_of_tree C f post = layout_keys C f pre g (backfill (w_nids g) md (w_nprops g)) md'.
Proof. intros Hc Hwf Hfm.
  destruct (write_keys_decode (fun _ _ _ => AOther 0%Z) C f k pre g md md' n e ov Hc Hwf Hfm) as [tr [post [sg [Hw [Hk _]]]]].
  exists tr, post. split; assumption. Qed.
