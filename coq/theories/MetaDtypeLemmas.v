(* MetaDtypeLemmas.v -- what Meta.v's reading of pydantic's lax bool parsing and of numpy's dtype
   strings amounts to (C07, audit findings F1 / F3):
   * convert_dtype on a string is decided by np_valid_name alone (the finite table np_names only
     carries names that are not allowed and never changes an outcome);
   * np_valid_name only returns allowed names;
   * v_bool on a string is membership of the ASCII-lower-cased string in pydantic's two lists;
   * the scope predicate on input values used by the _decides theorems of props/C07.v. *)
From Geff Require Import Base Meta MetaLemmas.
From Geff.Gen Require Import Consts.
Open Scope string_scope.
Open Scope Z_scope.
Open Scope list_scope.

Lemma assoc_In k l v : assoc k l = Some v -> In (k, v) l.
Proof.
  induction l as [|[k' v'] r IH]; cbn; [discriminate|].
  destruct (String.eqb k k') eqn:E.
  - intros H. inversion H; subst. apply String.eqb_eq in E. subst. left. reflexivity.
  - intros H. right. apply IH. exact H.
Qed.

Lemma forallb_In' {A} (f : A -> bool) l x : forallb f l = true -> In x l -> f x = true.
Proof. intros H Hin. rewrite forallb_forall in H. apply H. exact Hin. Qed.

Definition name_allowed (n : string) : bool := smem n valid_dtypes && negb (String.eqb n "").

Lemma np_single_allowed : forallb (fun kv => name_allowed (snd kv)) np_single = true.
Proof. vm_compute. reflexivity. Qed.
Lemma np_dict_allowed : forallb (fun kv => name_allowed (snd kv)) np_dict = true.
Proof. vm_compute. reflexivity. Qed.

Lemma np_sized_allowed k v n : np_sized k v = Some n -> name_allowed n = true.
Proof.
  unfold np_sized.
  repeat match goal with |- context [if ?c then _ else _] => destruct c end;
    intros H; inversion H; subst; vm_compute; reflexivity.
Qed.

(* np_valid_name only ever answers with an allowed, non-empty name *)
Lemma np_valid_name_allowed s n : np_valid_name s = Some n -> name_allowed n = true.
Proof.
  unfold np_valid_name.
  set (stage1 := match strip_endian s with
                 | EmptyString => None
                 | String c EmptyString => assoc (String c EmptyString) np_single
                 | String k rest => match strtol_all rest with Some v => np_sized k v | None => None end
                 end).
  assert (H1 : forall m, stage1 = Some m -> name_allowed m = true).
  { intros m. unfold stage1. destruct (strip_endian s) as [|c r]; [discriminate|].
    destruct r as [|d r'].
    - intros H. apply assoc_In in H. apply (forallb_In' _ _ _ np_single_allowed H).
    - destruct (strtol_all (String d r')) as [v|]; [|discriminate]. apply np_sized_allowed. }
  destruct stage1 as [m|].
  - intros H. inversion H; subst. apply H1. reflexivity.
  - intros H. apply assoc_In in H. apply (forallb_In' _ _ _ np_dict_allowed H).
Qed.

Lemma np_valid_name_valid s n : np_valid_name s = Some n -> In n valid_dtypes /\ n <> "".
Proof.
  intros H. apply np_valid_name_allowed in H. unfold name_allowed in H. apply andb_true_iff in H.
  destruct H as [H1 H2]. split; [apply smem_In; exact H1|]. intros ->. discriminate.
Qed.

(* the table agrees with the grammar: an entry with an allowed name is a spelling np_valid_name maps to that
   name, an entry with another name is a spelling np_valid_name does not accept *)
Definition table_entry_consistent (kv : string * string) : bool :=
  if smem (snd kv) valid_dtypes
  then option_eqb String.eqb (np_valid_name (fst kv)) (Some (snd kv))
  else match np_valid_name (fst kv) with None => true | Some _ => false end.

Lemma np_names_consistent : forallb table_entry_consistent np_names = true.
Proof. vm_compute. reflexivity. Qed.

(* PropMetadata._convert_dtype on a string: numpy's allowed name, or a validation error *)
Lemma convert_dtype_str s :
  convert_dtype (JStr s) = match np_valid_name s with Some n => Ok n | None => Err ValueError end.
Proof.
  unfold convert_dtype, np_dtype_name. destruct (np_valid_name s) as [n|] eqn:E.
  - pose proof (np_valid_name_allowed _ _ E) as H. unfold name_allowed in H. apply andb_true_iff in H.
    destruct H as [H1 H2]. rewrite H1. unfold v_str_min1. apply negb_true_iff in H2. rewrite H2. reflexivity.
  - destruct (assoc s np_names) as [n|] eqn:Ea; [|reflexivity].
    apply assoc_In in Ea. pose proof (forallb_In' _ _ _ np_names_consistent Ea) as T.
    unfold table_entry_consistent in T. cbn [fst snd] in T. rewrite E in T.
    destruct (smem n valid_dtypes); [cbn in T; discriminate | reflexivity].
Qed.

(* in particular the outcome never depends on the table *)
Lemma convert_dtype_str_ok s n : convert_dtype (JStr s) = Ok n <-> np_valid_name s = Some n.
Proof.
  rewrite convert_dtype_str. destruct (np_valid_name s) as [m|]; split; intros H; inversion H; reflexivity.
Qed.

(* ---------------------------------------------------------------- bool *)
Lemma bool_lists_disjoint : forallb (fun s => negb (smem s bool_false_strs)) bool_true_strs = true.
Proof. vm_compute. reflexivity. Qed.

Lemma v_bool_str s b :
  v_bool (JStr s) = Ok b <->
  (b = true /\ In (lower s) bool_true_strs) \/ (b = false /\ In (lower s) bool_false_strs).
Proof.
  cbn [v_bool]. destruct (smem (lower s) bool_true_strs) eqn:Et.
  - split.
    + intros H. inversion H; subst. left. split; [reflexivity | apply smem_In; exact Et].
    + intros [[-> _]|[-> Hf]]; [reflexivity|].
      apply smem_In in Et. pose proof (forallb_In' _ _ _ bool_lists_disjoint Et) as D. cbn beta in D.
      apply negb_true_iff in D. apply smem_In in Hf. congruence.
  - destruct (smem (lower s) bool_false_strs) eqn:Ef.
    + split.
      * intros H. inversion H; subst. right. split; [reflexivity | apply smem_In; exact Ef].
      * intros [[_ Ht]|[-> _]]; [apply smem_In in Ht; congruence | reflexivity].
    + split; [discriminate|]. intros [[_ H]|[_ H]]; apply smem_In in H; congruence.
Qed.

Lemma lower_ascii_idem c : lower_ascii (lower_ascii c) = lower_ascii c.
Proof.
  destruct c as [[] [] [] [] [] [] [] []]; vm_compute; reflexivity.
Qed.
Lemma lower_idem s : lower (lower s) = lower s.
Proof. induction s as [|c r IH]; cbn; [reflexivity|]. rewrite lower_ascii_idem, IH. reflexivity. Qed.

(* only the ASCII-case-folded string matters *)
Lemma v_bool_case_insensitive s s' : lower s = lower s' -> v_bool (JStr s) = v_bool (JStr s').
Proof. intros H. cbn [v_bool]. rewrite H. reflexivity. Qed.

(* ---------------------------------------------------------------- scope of the lax-parsing description *)
(* dtype strings: Meta.dtype_in_scope (no control character, none of , ( ) and no leading digit). *)
(* numeric strings and large ints offered to float fields, and non-ASCII digits in version strings, are
   the other places where the model follows pydantic only on part of the inputs (harness ASSUMPTIONS):
   pydantic parses a string for a float field with Rust's f64 parser after trimming blanks and dropping
   underscores ("1.5", " 1", "1_0", "nan", "+Inf", "n_an" are numbers); the model rejects every string.
   A string bound to a float field of an Axis is in scope when it holds no digit and no letter n / N
   (every spelling of nan / inf / infinity has one); an int is in scope when it is exactly a float
   (|z| <= 2^53); a version string is in scope when it is ASCII (the model's \d is [0-9]). *)
Definition float_keys : list string := ["min"; "max"; "scale"; "offset"].
Fixpoint any_char (f : ascii -> bool) (s : string) : bool :=
  match s with EmptyString => false | String c r => f c || any_char f r end.
Definition is_letter_n (c : ascii) : bool := (Ascii.eqb c "n" || Ascii.eqb c "N")%char.
Definition float_str_in_scope (s : string) : bool := negb (any_char is_digit s) && negb (any_char is_letter_n s).
Definition float_int_in_scope (z : Z) : bool := (- 9007199254740992 <=? z) && (z <=? 9007199254740992).
Definition is_ascii (c : ascii) : bool := Nat.ltb (nat_of_ascii c) 128.

Definition member_in_scope (k : string) (x : jv) : bool :=
  match x with
  | JStr s => (if String.eqb k "dtype" then dtype_in_scope s else true)
              && (if smem k float_keys then float_str_in_scope s else true)
              && (if String.eqb k "geff_version" then all_chars is_ascii s else true)
  | JInt z => if smem k float_keys then float_int_in_scope z else true
  | _ => true
  end.

Fixpoint values_in_scope (v : jv) : bool :=
  match v with
  | JList l => (fix go (l : list jv) : bool := match l with [] => true | x :: r => values_in_scope x && go r end) l
  | JObj kvs =>
      (fix go (kvs : list (string * jv)) : bool :=
         match kvs with
         | [] => true
         | (k, x) :: r => member_in_scope k x && values_in_scope x && go r
         end) kvs
  | _ => true
  end.

(* the scope of an assignment: the value is looked at as the value of its field *)
Definition field_key (f : field) : string :=
  match f with
  | FVersion => "geff_version" | FDirected => "directed" | FAxes => "axes" | FNodeProps => "node_props_metadata"
  | FEdgeProps => "edge_props_metadata" | FSphere => "sphere" | FEllipsoid => "ellipsoid" | FTrack => "track_node_props"
  | FRelated => "related_objects" | FHints => "display_hints" | FExtra => "extra" | FUnknown => "bogus_field"
  end.
Definition assign_in_scope (f : field) (v : jv) : bool :=
  match f with
  | FExtra => true                                         (* free-form: no validator reads the strings *)
  | _ => values_in_scope (JObj [(field_key f, v)])
  end.
Definition construct_in_scope (kvs : list (string * jv)) : bool :=
  values_in_scope (JObj (filter (fun kv => negb (String.eqb (fst kv) "extra")) kvs)).
