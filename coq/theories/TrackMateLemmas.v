(* TrackMateLemmas.v -- vocabulary of property C16 (what a well-formed TrackMate document is, what it
   says: spots, links, track membership, which spots the discard options keep) and the proofs about
   TrackMate.v: _build_data computes `final_graph`, the columns handed to write_arrays, the metadata,
   and the composition with the write / read / validate models. *)
From Coq Require Import Permutation Relations.
From Geff Require Import Base Dtype DtypeLemmas Vlen VlenLemmas Tree TreeLemmas Validate Write Read GraphVal GraphValLemmas
  Reach Tracks TracksLemmas WriteLemmas ReadLemmas RoundTrip ValidateLayout C01Lemmas TrackMate.
From Geff.Gen Require Import Consts.
Open Scope string_scope.
Open Scope list_scope.
Open Scope Z_scope.

(* ================================================================== *)
(* 1. Reading the document                                             *)
(* ================================================================== *)
Definition raw_int (r : raw) : option Z := match r_parse r with PInt z _ => Some z | _ => None end.
Definition xint (k : string) (a : xattrs) : option Z :=
  match alookup k a with Some r => raw_int r | None => None end.
Definition zdef (o : option Z) : Z := match o with Some z => z | None => 0 end.

Definition spots_of (d : tm) : list spot := match tm_spots d with Some l => l | None => [] end.
Definition tracks_of (d : tm) : list track := match tm_tracks d with Some l => l | None => [] end.
Definition sdecls (d : tm) : list decl := match tm_decls d with Some (s, _, _) => s | None => [] end.
Definition edecls (d : tm) : list decl := match tm_decls d with Some (_, e, _) => e | None => [] end.
Definition tdecls (d : tm) : list decl := match tm_decls d with Some (_, _, t) => t | None => [] end.

Definition spot_id (sp : spot) : Z := zdef (xint "ID" (sp_attrs sp)).
Definition spot_ids (d : tm) : list Z := map spot_id (spots_of d).
Definition edge_of (ea : xattrs) : edge := (zdef (xint "SPOT_SOURCE_ID" ea), zdef (xint "SPOT_TARGET_ID" ea)).
Definition track_id (tr : track) : Z := zdef (xint "TRACK_ID" (tr_attrs tr)).

(* every link of the document with the id of the track that lists it, in document order *)
Definition tlinks (d : tm) : list (Z * xattrs) :=
  flat_map (fun tr => map (fun ea => (track_id tr, ea)) (tr_edges tr)) (tracks_of d).
Definition link_edge (l : Z * xattrs) : edge := edge_of (snd l).
Definition links (d : tm) : list edge := map link_edge (tlinks d).

Definition touches (e : edge) (n : Z) : bool := (fst e =? n) || (snd e =? n).
(* the track containing spot n: the track of the first link that touches it *)
Fixpoint tof (ls : list (Z * xattrs)) (n : Z) : option Z :=
  match ls with
  | [] => None
  | l :: r => if touches (link_edge l) n then Some (fst l) else tof r n
  end.
Definition track_of (d : tm) (n : Z) : option Z := tof (tlinks d) n.
Definition linked (d : tm) (n : Z) : bool := match track_of d n with Some _ => true | None => false end.

(* the ids listed in FilteredTracks *)
Definition kept_ids (d : tm) : option (list Z) :=
  match tm_filtered d with
  | None => None
  | Some l => Some (flat_map (fun o => match o with Some r => match raw_int r with Some z => [z] | None => [] end | None => [] end) l)
  end.
(* does the conversion with the given options keep spot n *)
Definition keepb (d : tm) (dspots dtracks : bool) (n : Z) : bool :=
  (negb dspots || linked d n) &&
  (negb dtracks || match kept_ids d with
                   | None => true
                   | Some keep => match track_of d n with Some t => zmem t keep | None => false end
                   end).

(* ================================================================== *)
(* 2. Well-formed documents                                            *)
(* ================================================================== *)
Definition is_some {A} (o : option A) : bool := match o with Some _ => true | None => false end.

Definition decl_okb (sp ti : string) (dc : decl) : bool :=
  negb (String.eqb (d_feat dc) "") && is_some (d_isint dc) &&
  match d_dim dc with Some dim => is_some (dim_unit sp ti dim) | None => false end.

Definition int_rawb (r : raw) : bool :=
  match r_parse r with PInt z _ => in_range DI64 z | _ => false end.
(* an attribute converts, and to the kind of value its key stands for *)
Definition attr_okb (md : mdmap) (kv : string * raw) : bool :=
  negb (String.eqb (fst kv) "") &&
  match alookup (fst kv) md with
  | Some (Some true) => int_rawb (snd kv)
  | Some (Some false) => match r_parse (snd kv) with PStr => false | _ => true end
  | Some None => false
  | None => if String.eqb (fst kv) "ID" || String.eqb (fst kv) "ROI_N_POINTS" then int_rawb (snd kv) else true
  end.

Definition has_key (k : string) (a : xattrs) : bool := ahas k a.

Definition spot_okb (md : mdmap) (sp : spot) : bool :=
  forallb (attr_okb md) (sp_attrs sp) &&
  match xint "ID" (sp_attrs sp) with Some z => (0 <=? z) && (z <? 2 ^ 63) | None => false end &&
  forallb (fun k => has_key k (sp_attrs sp)) ["POSITION_X"; "POSITION_Y"; "POSITION_Z"; "POSITION_T"] &&
  negb (has_key "TRACK_ID" (sp_attrs sp)) && negb (has_key "ROI_coords" (sp_attrs sp)).

(* a ROI: ROI_N_POINTS = n > 0 and the text holds n points of the same dimension dd > 0 *)
Definition roi_okb (sp : spot) : bool :=
  match xint "ROI_N_POINTS" (sp_attrs sp), sp_text sp with
  | Some n, Some coords =>
      (0 <? n) && (0 <? Z.of_nat (length coords)) && (Z.of_nat (length coords) mod n =? 0)
  | _, _ => false
  end.
Definition no_roib (sp : spot) : bool := negb (has_key "ROI_N_POINTS" (sp_attrs sp)).

Definition link_okb (md : mdmap) (ids : list Z) (ea : xattrs) : bool :=
  forallb (attr_okb md) ea &&
  match xint "SPOT_SOURCE_ID" ea, xint "SPOT_TARGET_ID" ea with
  | Some u, Some v => zmem u ids && zmem v ids && negb (u =? v)
  | _, _ => false
  end.
Definition track_okb (md : mdmap) (ids : list Z) (tr : track) : bool :=
  forallb (attr_okb md) (tr_attrs tr) && is_some (xint "TRACK_ID" (tr_attrs tr)) &&
  forallb (link_okb md ids) (tr_edges tr).

Definition md_is (md : mdmap) (k : string) (b : bool) : Prop := alookup k md = Some (Some b).

Record wf_tm (d : tm) : Prop := {
  wf_exists : tm_exists d = true;
  wf_has_decls : tm_decls d <> None;
  wf_has_spots : tm_spots d <> None;
  wf_has_tracks : tm_tracks d <> None;
  (* feature declarations: complete entries, no repeated name inside a section, one type per name over the sections *)
  wf_decl_ok : forallb (decl_okb (space_unit d) (time_unit d)) (sdecls d ++ edecls d ++ tdecls d) = true;
  wf_sdecl_nodup : NoDup (map d_feat (sdecls d));
  wf_edecl_nodup : NoDup (map d_feat (edecls d));
  wf_tdecl_nodup : NoDup (map d_feat (tdecls d));
  wf_decl_consistent : forall dc, In dc (sdecls d ++ edecls d ++ tdecls d) -> alookup (d_feat dc) (attrs_md d) = Some (d_isint dc);
  wf_reserved : forall k, In k ["ID"; "ROI_N_POINTS"; "ROI_coords"] -> alookup k (attrs_md d) = None;
  wf_int_keys : forall k, In k ["TRACK_ID"; "SPOT_SOURCE_ID"; "SPOT_TARGET_ID"] -> md_is (attrs_md d) k true;
  wf_axes_float : forall k, In k ["POSITION_X"; "POSITION_Y"; "POSITION_Z"; "POSITION_T"] ->
                  md_is (attrs_md d) k false /\ In k (map d_feat (sdecls d));
  (* spots *)
  wf_spots : forallb (spot_okb (attrs_md d)) (spots_of d) = true;
  wf_spot_keys : forall sp, In sp (spots_of d) -> NoDup (akeys (sp_attrs sp));
  wf_ids_nodup : NoDup (spot_ids d);
  wf_roi : forallb no_roib (spots_of d) = true \/ forallb roi_okb (spots_of d) = true;
  (* tracks and links *)
  wf_tracks : forallb (track_okb (attrs_md d) (spot_ids d)) (tracks_of d) = true;
  wf_track_keys : forall tr, In tr (tracks_of d) -> NoDup (akeys (tr_attrs tr)) /\ forall ea, In ea (tr_edges tr) -> NoDup (akeys ea);
  wf_links_nodup : NoDup (links d);
  wf_disjoint : forall l1 l2 n, In l1 (tlinks d) -> In l2 (tlinks d) ->
                touches (link_edge l1) n = true -> touches (link_edge l2) n = true -> fst l1 = fst l2;
  (* FilteredTracks entries are integers *)
  wf_filtered : forall l, tm_filtered d = Some l -> forallb (fun o => match o with Some r => is_some (raw_int r) | None => false end) l = true
}.

(* ================================================================== *)
(* 3. Small list / dict facts                                          *)
(* ================================================================== *)
Lemma mapM_ok_map {A B} (f : A -> res B) (g : A -> B) l :
  (forall x, In x l -> f x = Ok (g x)) -> mapM f l = Ok (map g l).
Proof.
  induction l as [|x r IH]; intros H; cbn; [reflexivity|].
  rewrite (H x (or_introl eq_refl)), IH; [reflexivity|]. intros y Hy. apply H. right; exact Hy.
Qed.

Lemma filter_all {A} (p : A -> bool) l : (forall x, In x l -> p x = true) -> filter p l = l.
Proof. induction l as [|x r IH]; intros H; cbn; [reflexivity|].
  rewrite (H x (or_introl eq_refl)), IH; [reflexivity|]. intros y Hy. apply H. right; exact Hy. Qed.

Lemma filter_filter {A} (p q : A -> bool) l : filter q (filter p l) = filter (fun x => p x && q x) l.
Proof. induction l as [|x r IH]; cbn; [reflexivity|]. destruct (p x); cbn; [destruct (q x); rewrite IH; reflexivity | exact IH]. Qed.

Lemma forallb_In {A} (p : A -> bool) l x : forallb p l = true -> In x l -> p x = true.
Proof. intros H Hx. rewrite forallb_forall in H. apply H. exact Hx. Qed.

Lemma NoDup_app_l {A} (a b : list A) : NoDup (a ++ b) -> NoDup a.
Proof. induction a as [|x r IH]; cbn; intros H; [constructor|]. inversion H; subst. constructor.
  - intros Hx. apply H2. apply in_or_app. left; exact Hx.
  - apply IH. exact H3. Qed.
Lemma NoDup_app_r {A} (a b : list A) : NoDup (a ++ b) -> NoDup b.
Proof. induction a as [|x r IH]; cbn; intros H; [exact H|]. inversion H; subst. apply IH. exact H3. Qed.

Lemma dict_update_nil b : dict_update b [] = b.
Proof. reflexivity. Qed.

Lemma add_node_present id ns : In id (map fst ns) -> add_node id [] ns = ns.
Proof.
  induction ns as [|[k b] r IH]; intros H; cbn in *; [destruct H|].
  destruct (k =? id) eqn:E; [reflexivity|]. destruct H as [H|H]; [apply Z.eqb_neq in E; contradiction|].
  rewrite IH; auto.
Qed.

Lemma add_node_fresh id a ns : ~ In id (map fst ns) -> add_node id a ns = ns ++ [(id, a)].
Proof.
  induction ns as [|[k b] r IH]; intros H; cbn in *; [reflexivity|].
  destruct (k =? id) eqn:E; [apply Z.eqb_eq in E; tauto|]. rewrite IH; tauto.
Qed.

Lemma add_edge_fresh e a es : ~ In e (map fst es) -> add_edge_attrs e a es = es ++ [(e, a)].
Proof.
  induction es as [|[k b] r IH]; intros H; cbn in *; [reflexivity|].
  destruct (pair_eqb k e) eqn:E.
  - exfalso. apply H. left. unfold pair_eqb in E. apply andb_true_iff in E. destruct E as [E1 E2].
    apply Z.eqb_eq in E1, E2. destruct k, e; cbn in *; subst; reflexivity.
  - rewrite IH; tauto.
Qed.

Lemma node_attrs_map_in (f : Z * attrs -> Z * attrs) ns id :
  (forall n, fst (f n) = fst n) -> In id (map fst ns) -> exists n, In n ns /\ fst n = id /\ node_attrs id (map f ns) = Some (snd (f n)).
Proof.
  intros Hf. induction ns as [|[k b] r IH]; intros H; cbn in *; [destruct H|].
  pose proof (Hf (k, b)) as Hk. cbn in Hk. destruct (f (k, b)) as [k' b'] eqn:Ef. cbn in Hk. subst k'.
  destruct (k =? id) eqn:E.
  - apply Z.eqb_eq in E. exists (k, b). rewrite Ef. cbn. auto.
  - destruct H as [H|H]; [apply Z.eqb_neq in E; contradiction|].
    destruct (IH H) as [n [Hn [Hid Hna]]]. exists n. auto.
Qed.

(* ================================================================== *)
(* 4. _convert_attributes on well-formed attributes                    *)
(* ================================================================== *)
Definition cval (md : mdmap) (k : string) (r : raw) : val :=
  match conv_one md k r with Ok v => v | Err _ => VInt 0 end.
Definition cattrs (md : mdmap) (a : xattrs) : attrs := map (fun kv => (fst kv, cval md (fst kv) (snd kv))) a.

Lemma akeys_cattrs md a : akeys (cattrs md a) = akeys a.
Proof. unfold cattrs, akeys. rewrite map_map. reflexivity. Qed.

Lemma alookup_cattrs md k a : alookup k (cattrs md a) = option_map (cval md k) (alookup k a).
Proof. induction a as [|[k' r] t IH]; cbn; [reflexivity|]. destruct (String.eqb k k') eqn:E; [|exact IH].
  apply String.eqb_eq in E. subst. reflexivity. Qed.

Lemma int_rawb_spec r : int_rawb r = true -> exists z f, r_parse r = PInt z f /\ in_range DI64 z = true.
Proof. unfold int_rawb. destruct (r_parse r) as [z f| |]; try discriminate. intros H. exists z, f. auto. Qed.

Lemma attr_ok_conv md kv : attr_okb md kv = true -> conv_one md (fst kv) (snd kv) = Ok (cval md (fst kv) (snd kv)).
Proof.
  unfold attr_okb, cval, conv_one, conv_int. intros H. apply andb_true_iff in H. destruct H as [_ H].
  destruct (alookup (fst kv) md) as [[[|]|]|].
  - apply int_rawb_spec in H. destruct H as [z [f [-> _]]]. reflexivity.
  - destruct (r_parse (snd kv)); try reflexivity.
  - discriminate.
  - destruct (String.eqb (fst kv) "ID" || String.eqb (fst kv) "ROI_N_POINTS"); [|reflexivity].
    apply int_rawb_spec in H. destruct H as [z [f [-> _]]]. reflexivity.
Qed.

Lemma convert_attributes_ok md a : forallb (attr_okb md) a = true -> convert_attributes md a = Ok (cattrs md a).
Proof.
  intros H. unfold convert_attributes, cattrs. apply mapM_ok_map. intros kv Hkv.
  rewrite (attr_ok_conv md kv (forallb_In _ _ _ H Hkv)). reflexivity.
Qed.

(* kinds of value a key stands for *)
Inductive vkind := KI | KF | KS | KR.
Definition has_kind (k : vkind) (v : val) : Prop :=
  match k, v with
  | KI, VInt z => in_range DI64 z = true
  | KF, VFlt _ => True
  | KS, VStr _ => True
  | KR, VRoi (Some pts) => rect pts <> None
  | _, _ => False
  end.
(* the kind of an XML attribute of that name; ROI_coords is the polygon added to spots *)
Definition base_kind (md : mdmap) (k : string) : vkind :=
  match alookup k md with
  | Some (Some true) => KI
  | Some (Some false) => KF
  | Some None => KS
  | None => if String.eqb k "ID" || String.eqb k "ROI_N_POINTS" then KI else KS
  end.
Definition key_kind (md : mdmap) (k : string) : vkind :=
  if String.eqb k "ROI_coords" then KR else base_kind md k.
Definition typed (md : mdmap) (a : attrs) : Prop :=
  forall k v, alookup k a = Some v -> has_kind (key_kind md k) v.

Lemma attr_ok_base_kind md k r : attr_okb md (k, r) = true -> has_kind (base_kind md k) (cval md k r).
Proof.
  intros H. unfold base_kind.
  unfold attr_okb in H. cbn [fst snd] in H. apply andb_true_iff in H. destruct H as [_ H].
  unfold cval, conv_one, conv_int. destruct (alookup k md) as [[[|]|]|].
  - apply int_rawb_spec in H. destruct H as [z [f [-> Hr]]]. exact Hr.
  - destruct (r_parse r); try discriminate; exact I.
  - discriminate.
  - destruct (String.eqb k "ID" || String.eqb k "ROI_N_POINTS").
    + apply int_rawb_spec in H. destruct H as [z [f [-> Hr]]]. exact Hr.
    + exact I.
Qed.

Lemma cattrs_typed_base md a : forallb (attr_okb md) a = true ->
  forall k v, alookup k (cattrs md a) = Some v -> has_kind (base_kind md k) v.
Proof.
  intros H k v Hl. rewrite alookup_cattrs in Hl. destruct (alookup k a) as [r|] eqn:Ea; [|discriminate].
  cbn in Hl. inversion Hl; subst v; clear Hl.
  apply attr_ok_base_kind. apply (forallb_In _ _ _ H). apply alookup_some_in. exact Ea.
Qed.

Lemma attr_ok_kind md k r : k <> "ROI_coords" -> attr_okb md (k, r) = true -> has_kind (key_kind md k) (cval md k r).
Proof.
  intros Hk H. unfold key_kind, base_kind. rewrite (seqb_neq _ _ Hk).
  unfold attr_okb in H. cbn [fst snd] in H. apply andb_true_iff in H. destruct H as [_ H].
  unfold cval, conv_one, conv_int. destruct (alookup k md) as [[[|]|]|].
  - apply int_rawb_spec in H. destruct H as [z [f [-> Hr]]]. exact Hr.
  - destruct (r_parse r); try discriminate; exact I.
  - discriminate.
  - destruct (String.eqb k "ID" || String.eqb k "ROI_N_POINTS").
    + apply int_rawb_spec in H. destruct H as [z [f [-> Hr]]]. exact Hr.
    + exact I.
Qed.

Lemma cattrs_typed md a : forallb (attr_okb md) a = true -> ahas "ROI_coords" a = false -> typed md (cattrs md a).
Proof.
  intros H Hn k v Hl. rewrite alookup_cattrs in Hl. destruct (alookup k a) as [r|] eqn:Ea; [|discriminate].
  cbn in Hl. inversion Hl; subst v; clear Hl.
  assert (Hk : k <> "ROI_coords").
  { intros ->. apply ahas_false in Hn. congruence. }
  apply attr_ok_kind; [exact Hk|]. apply (forallb_In _ _ _ H). apply alookup_some_in. exact Ea.
Qed.

(* ================================================================== *)
(* 5. _add_all_nodes on well-formed spots                              *)
(* ================================================================== *)
(* the polygon of a spot: its text cut into ROI_N_POINTS points *)
Definition roi_pts (sp : spot) : list (list Z) :=
  match sp_text sp with
  | Some coords =>
      chunk_by (length coords) (Z.to_nat (Z.of_nat (length coords) / zdef (xint "ROI_N_POINTS" (sp_attrs sp)))) coords
  | None => []
  end.
Definition has_roi (d : tm) : bool := existsb (fun sp => has_key "ROI_N_POINTS" (sp_attrs sp)) (spots_of d).

Definition node_attrs_of (md : mdmap) (roi : bool) (sp : spot) : attrs :=
  if roi then cattrs md (sp_attrs sp) ++ [("ROI_coords", VRoi (Some (roi_pts sp)))] else cattrs md (sp_attrs sp).
Definition base_node (md : mdmap) (roi : bool) (sp : spot) : Z * attrs := (spot_id sp, node_attrs_of md roi sp).

Lemma xint_cattrs md k a z : alookup k md = None -> (k = "ID" \/ k = "ROI_N_POINTS") ->
  xint k a = Some z -> alookup k (cattrs md a) = Some (VInt z).
Proof.
  intros Hmd Hk Hx. rewrite alookup_cattrs. unfold xint in Hx. destruct (alookup k a) as [r|]; [|discriminate].
  cbn. f_equal. unfold cval, conv_one. rewrite Hmd.
  assert (E : String.eqb k "ID" || String.eqb k "ROI_N_POINTS" = true) by (destruct Hk; subst; reflexivity).
  rewrite E. unfold conv_int. unfold raw_int in Hx. destruct (r_parse r); try discriminate. inversion Hx; reflexivity.
Qed.

Lemma spot_ok_parts md sp : spot_okb md sp = true ->
  forallb (attr_okb md) (sp_attrs sp) = true /\
  (exists z, xint "ID" (sp_attrs sp) = Some z /\ 0 <= z < 2 ^ 63) /\
  (forall k, In k ["POSITION_X"; "POSITION_Y"; "POSITION_Z"; "POSITION_T"] -> ahas k (sp_attrs sp) = true) /\
  ahas "TRACK_ID" (sp_attrs sp) = false /\ ahas "ROI_coords" (sp_attrs sp) = false.
Proof.
  unfold spot_okb, has_key. intros H. repeat (apply andb_true_iff in H; destruct H as [H ?]).
  split; [exact H|]. split.
  - destruct (xint "ID" (sp_attrs sp)) as [z|]; [|discriminate]. exists z. split; [reflexivity|].
    apply andb_true_iff in H3. destruct H3. lia.
  - split; [|split; apply negb_true_iff; assumption].
    intros k Hk. apply (forallb_In _ _ _ H2 Hk).
Qed.

Lemma convert_roi_ok md sp : alookup "ROI_N_POINTS" md = None ->
  spot_okb md sp = true -> roi_okb sp = true ->
  convert_roi sp (cattrs md (sp_attrs sp)) = Ok (node_attrs_of md true sp).
Proof.
  intros Hmd Hs Hr. destruct (spot_ok_parts _ _ Hs) as [_ [_ [_ [_ Hnc]]]].
  unfold roi_okb in Hr. destruct (xint "ROI_N_POINTS" (sp_attrs sp)) as [n|] eqn:En; [|discriminate].
  destruct (sp_text sp) as [coords|] eqn:Et; [|discriminate].
  apply andb_true_iff in Hr. destruct Hr as [Hr Hm]. apply andb_true_iff in Hr. destruct Hr as [Hn Hl].
  apply Z.ltb_lt in Hn, Hl. apply Z.eqb_eq in Hm.
  unfold convert_roi. rewrite (xint_cattrs md _ _ n Hmd (or_intror eq_refl) En), Et.
  assert (Hn0 : (n <=? 0) = false) by (apply Z.leb_gt; exact Hn). rewrite Hn0.
  assert (Hq : 1 <= Z.of_nat (length coords) / n).
  { apply Z.div_le_lower_bound; [lia|]. apply Z.mod_divide in Hm; [|lia]. destruct Hm as [q Hq].
    assert (0 < q) by nia. nia. }
  destruct (Z.to_nat (Z.of_nat (length coords) / n)) as [|dd] eqn:Ed; [lia|].
  f_equal. unfold node_attrs_of, roi_pts. rewrite Et, En. cbn [zdef]. rewrite Ed.
  apply aset_fresh. rewrite alookup_cattrs. apply ahas_false in Hnc. rewrite Hnc. reflexivity.
Qed.

Lemma alookup_node_attrs_id md roi sp z : alookup "ID" md = None -> ahas "ROI_coords" (sp_attrs sp) = false ->
  xint "ID" (sp_attrs sp) = Some z -> alookup "ID" (node_attrs_of md roi sp) = Some (VInt z).
Proof.
  intros Hmd Hnc Hx. unfold node_attrs_of. destruct roi.
  - rewrite alookup_app, (xint_cattrs md _ _ z Hmd (or_introl eq_refl) Hx). reflexivity.
  - apply (xint_cattrs md _ _ z Hmd (or_introl eq_refl) Hx).
Qed.

Lemma add_all_nodes_noroi md : alookup "ID" md = None -> forall sps g,
  forallb (spot_okb md) sps = true -> forallb no_roib sps = true ->
  NoDup (map fst (g_nodes g) ++ map spot_id sps) ->
  add_all_nodes md false sps g = Ok (mkg (g_nodes g ++ map (base_node md false) sps) (g_edges g), false).
Proof.
  intros Hmd. induction sps as [|sp r IH]; intros g Hok Hno Hnd.
  - cbn. rewrite app_nil_r. destruct g; reflexivity.
  - cbn in Hok, Hno. apply andb_true_iff in Hok, Hno. destruct Hok as [Hsp Hok]. destruct Hno as [Hn1 Hno].
    destruct (spot_ok_parts _ _ Hsp) as [Hat [[z [Hz _]] [_ [_ Hnc]]]].
    cbn [add_all_nodes]. rewrite (convert_attributes_ok _ _ Hat).
    unfold no_roib, has_key in Hn1. apply negb_true_iff in Hn1.
    assert (Hh : ahas "ROI_N_POINTS" (cattrs md (sp_attrs sp)) = false).
    { apply ahas_false. rewrite alookup_cattrs. apply ahas_false in Hn1. rewrite Hn1. reflexivity. }
    rewrite Hh. cbn [orb].
    pose proof (alookup_node_attrs_id md false sp z Hmd Hnc Hz) as Hid. unfold node_attrs_of in Hid. rewrite Hid.
    assert (Hsid : spot_id sp = z) by (unfold spot_id; rewrite Hz; reflexivity).
    assert (Hfresh : ~ In z (map fst (g_nodes g))).
    { cbn in Hnd. rewrite Hsid in Hnd. apply NoDup_remove_2 in Hnd. intros Hin. apply Hnd. apply in_or_app. left; exact Hin. }
    rewrite (add_node_fresh _ _ _ Hfresh).
    rewrite IH; [| exact Hok | exact Hno |].
    + cbn [g_nodes g_edges]. rewrite <- app_assoc. cbn. unfold base_node at 2, node_attrs_of. rewrite Hsid. reflexivity.
    + cbn [g_nodes]. rewrite map_app. cbn. rewrite <- app_assoc. cbn. rewrite <- Hsid. exact Hnd.
Qed.

Lemma add_all_nodes_roi md : alookup "ID" md = None -> alookup "ROI_N_POINTS" md = None -> forall sps g seg,
  forallb (spot_okb md) sps = true -> forallb roi_okb sps = true ->
  NoDup (map fst (g_nodes g) ++ map spot_id sps) ->
  add_all_nodes md seg sps g =
    Ok (mkg (g_nodes g ++ map (base_node md true) sps) (g_edges g), seg || match sps with [] => false | _ => true end).
Proof.
  intros Hmd Hmr. induction sps as [|sp r IH]; intros g seg Hok Hro Hnd.
  - cbn. rewrite app_nil_r, orb_false_r. destruct g; reflexivity.
  - cbn in Hok, Hro. apply andb_true_iff in Hok, Hro. destruct Hok as [Hsp Hok]. destruct Hro as [Hr1 Hro].
    destruct (spot_ok_parts _ _ Hsp) as [Hat [[z [Hz _]] [_ [_ Hnc]]]].
    cbn [add_all_nodes]. rewrite (convert_attributes_ok _ _ Hat).
    assert (Hh : ahas "ROI_N_POINTS" (cattrs md (sp_attrs sp)) = true).
    { unfold roi_okb in Hr1. destruct (xint "ROI_N_POINTS" (sp_attrs sp)) as [n|] eqn:En; [|discriminate].
      apply ahas_true. eexists. apply (xint_cattrs md _ _ n Hmr (or_intror eq_refl) En). }
    rewrite Hh, orb_true_r. rewrite (convert_roi_ok md sp Hmr Hsp Hr1).
    rewrite (alookup_node_attrs_id md true sp z Hmd Hnc Hz).
    assert (Hsid : spot_id sp = z) by (unfold spot_id; rewrite Hz; reflexivity).
    assert (Hfresh : ~ In z (map fst (g_nodes g))).
    { cbn in Hnd. rewrite Hsid in Hnd. apply NoDup_remove_2 in Hnd. intros Hin. apply Hnd. apply in_or_app. left; exact Hin. }
    rewrite (add_node_fresh _ _ _ Hfresh).
    rewrite IH; [| exact Hok | exact Hro |].
    + cbn [g_nodes g_edges orb]. rewrite <- app_assoc. cbn. unfold base_node at 2. rewrite Hsid. reflexivity.
    + cbn [g_nodes]. rewrite map_app. cbn. rewrite <- app_assoc. cbn. rewrite <- Hsid. exact Hnd.
Qed.

Definition base_nodes (d : tm) : list (Z * attrs) := map (base_node (attrs_md d) (has_roi d)) (spots_of d).

Lemma has_roi_noroi d : forallb no_roib (spots_of d) = true -> has_roi d = false.
Proof. unfold has_roi. induction (spots_of d) as [|sp r IH]; cbn; [reflexivity|].
  intros H. apply andb_true_iff in H. destruct H as [H1 H2]. unfold no_roib in H1. apply negb_true_iff in H1.
  rewrite H1. cbn. apply IH. exact H2. Qed.
Lemma has_roi_roi d : forallb roi_okb (spots_of d) = true -> has_roi d = match spots_of d with [] => false | _ => true end.
Proof. unfold has_roi. destruct (spots_of d) as [|sp r]; cbn; [reflexivity|].
  intros H. apply andb_true_iff in H. destruct H as [H1 _]. unfold roi_okb in H1. unfold has_key.
  destruct (xint "ROI_N_POINTS" (sp_attrs sp)) as [n|] eqn:En; [|discriminate].
  unfold xint in En. destruct (alookup "ROI_N_POINTS" (sp_attrs sp)) eqn:Ea; [|discriminate].
  unfold ahas. rewrite Ea. reflexivity. Qed.

Lemma base_nodes_ids d : map fst (base_nodes d) = spot_ids d.
Proof. unfold base_nodes, spot_ids. rewrite map_map. reflexivity. Qed.

Lemma add_all_nodes_wf d : wf_tm d ->
  add_all_nodes (attrs_md d) false (spots_of d) empty_graph = Ok (mkg (base_nodes d) [], has_roi d).
Proof.
  intros W. pose proof (wf_reserved d W) as Hres.
  assert (Hid : alookup "ID" (attrs_md d) = None) by (apply Hres; cbn; auto).
  assert (Hrn : alookup "ROI_N_POINTS" (attrs_md d) = None) by (apply Hres; cbn; auto).
  destruct (wf_roi d W) as [Hno|Hro].
  - rewrite (add_all_nodes_noroi _ Hid _ _ (wf_spots d W) Hno); [|cbn; apply (wf_ids_nodup d W)].
    unfold base_nodes. rewrite (has_roi_noroi d Hno). reflexivity.
  - rewrite (add_all_nodes_roi _ Hid Hrn _ _ false (wf_spots d W) Hro); [|cbn; apply (wf_ids_nodup d W)].
    unfold base_nodes. rewrite (has_roi_roi d Hro). cbn [orb empty_graph g_nodes g_edges app].
    destruct (spots_of d); reflexivity.
Qed.

(* ================================================================== *)
(* 6. _build_tracks / _add_edge on well-formed tracks                  *)
(* ================================================================== *)
Fixpoint zlookup (n : Z) (T : list (Z * Z)) : option Z :=
  match T with
  | [] => None
  | (k, t) :: r => if k =? n then Some t else zlookup n r
  end.
(* node -> track, in the order in which _add_edge stamps the nodes *)
Definition tmap (ls : list (Z * xattrs)) : list (Z * Z) :=
  flat_map (fun l => [(fst (link_edge l), fst l); (snd (link_edge l), fst l)]) ls.
Definition stampT (T : list (Z * Z)) (n : Z * attrs) : Z * attrs :=
  (fst n, match zlookup (fst n) T with Some t => snd n ++ [("TRACK_ID", VInt t)] | None => snd n end).
Definition elink (md : mdmap) (l : Z * xattrs) : edge * attrs := (link_edge l, cattrs md (snd l)).

Lemma zlookup_app n T T' : zlookup n (T ++ T') = match zlookup n T with Some t => Some t | None => zlookup n T' end.
Proof. induction T as [|[k t] r IH]; cbn; [reflexivity|]. destruct (k =? n); [reflexivity | exact IH]. Qed.

Lemma zlookup_tmap n ls : zlookup n (tmap ls) = tof ls n.
Proof.
  induction ls as [|l r IH]; [reflexivity|].
  unfold tmap. cbn [flat_map app zlookup tof]. fold (tmap r). unfold touches.
  destruct (fst (link_edge l) =? n); [reflexivity|]. cbn [orb]. destruct (snd (link_edge l) =? n); [reflexivity | exact IH].
Qed.

Lemma tmap_app a b : tmap (a ++ b) = tmap a ++ tmap b.
Proof. unfold tmap. apply flat_map_app. Qed.

Lemma map_fst_stampT T base : map fst (map (stampT T) base) = map fst base.
Proof. rewrite map_map. reflexivity. Qed.

Lemma stamp_ok (base : list (Z * attrs)) T u t es :
  In u (map fst base) -> (forall n, In n base -> alookup "TRACK_ID" (snd n) = None) ->
  (zlookup u T = None \/ zlookup u T = Some t) ->
  stamp u (VInt t) (mkg (map (stampT T) base) es) = Ok (mkg (map (stampT (T ++ [(u, t)])) base) es).
Proof.
  intros Hin Hno Hz. unfold stamp. cbn [g_nodes g_edges].
  destruct (node_attrs_map_in (stampT T) base u (fun n => eq_refl) Hin) as [n [Hn [Hid Hna]]]. rewrite Hna.
  assert (Hpt : forall m : Z * attrs, In m base -> fst m <> u -> stampT (T ++ [(u, t)]) m = stampT T m).
  { intros m Hm Hne. unfold stampT. rewrite zlookup_app. destruct (zlookup (fst m) T); [reflexivity|].
    cbn. apply Z.eqb_neq in Hne. rewrite Z.eqb_sym, Hne. reflexivity. }
  cbn [stampT snd]. rewrite Hid. destruct Hz as [Hz|Hz]; rewrite Hz.
  - rewrite (Hno n Hn). f_equal. f_equal. unfold set_node_attr. rewrite map_map. apply map_ext_in. intros m Hm.
    cbn [stampT fst snd]. destruct (fst m =? u) eqn:E.
    + apply Z.eqb_eq in E. unfold stampT. rewrite E, Hz, zlookup_app, Hz. cbn. rewrite Z.eqb_refl. f_equal.
      apply aset_fresh. apply Hno. exact Hm.
    + apply Z.eqb_neq in E. symmetry. apply Hpt; assumption.
  - rewrite alookup_app, (Hno n Hn). cbn. rewrite Z.eqb_refl. f_equal. f_equal. apply map_ext_in. intros m Hm.
    destruct (Z.eq_dec (fst m) u) as [E|E].
    + unfold stampT. rewrite zlookup_app, E, Hz. reflexivity.
    + symmetry. apply Hpt; assumption.
Qed.

Lemma xint_cattrs_int md k a z : md_is md k true -> xint k a = Some z -> alookup k (cattrs md a) = Some (VInt z).
Proof.
  intros Hmd Hx. rewrite alookup_cattrs. unfold xint in Hx. destruct (alookup k a) as [r|]; [|discriminate].
  cbn. f_equal. unfold cval, conv_one. rewrite Hmd. unfold conv_int. unfold raw_int in Hx.
  destruct (r_parse r); try discriminate. inversion Hx; reflexivity.
Qed.

Lemma link_ok_parts md ids ea : link_okb md ids ea = true ->
  forallb (attr_okb md) ea = true /\
  exists u v, xint "SPOT_SOURCE_ID" ea = Some u /\ xint "SPOT_TARGET_ID" ea = Some v /\ In u ids /\ In v ids /\ u <> v.
Proof.
  unfold link_okb. intros H. apply andb_true_iff in H. destruct H as [Ha H]. split; [exact Ha|].
  destruct (xint "SPOT_SOURCE_ID" ea) as [u|]; [|discriminate]. destruct (xint "SPOT_TARGET_ID" ea) as [v|]; [|discriminate].
  apply andb_true_iff in H. destruct H as [H Hne]. apply andb_true_iff in H. destruct H as [Hu Hv].
  exists u, v. repeat split; try reflexivity; try (apply zmem_In; assumption).
  apply negb_true_iff in Hne. apply Z.eqb_neq. exact Hne.
Qed.

(* one link *)
Lemma add_edge_ok md (base : list (Z * attrs)) pl l :
  md_is md "SPOT_SOURCE_ID" true -> md_is md "SPOT_TARGET_ID" true ->
  (forall n : Z * attrs, In n base -> alookup "TRACK_ID" (snd n) = None) ->
  link_okb md (map fst base) (snd l) = true ->
  ~ In (link_edge l) (map link_edge pl) ->
  (forall l' n, In l' pl -> touches (link_edge l') n = true -> touches (link_edge l) n = true -> fst l' = fst l) ->
  add_edge md (VInt (fst l)) (mkg (map (stampT (tmap pl)) base) (map (elink md) pl)) (snd l)
  = Ok (mkg (map (stampT (tmap (pl ++ [l]))) base) (map (elink md) (pl ++ [l]))).
Proof.
  intros Hs Ht Hno Hok Hfresh Hdis.
  destruct (link_ok_parts _ _ _ Hok) as [Ha [u [v [Hu [Hv [Hui [Hvi Hne]]]]]]].
  unfold add_edge. rewrite (convert_attributes_ok _ _ Ha).
  rewrite (xint_cattrs_int md _ _ u Hs Hu). cbn [to_int]. rewrite (xint_cattrs_int md _ _ v Ht Hv). cbn [to_int].
  assert (Hle : link_edge l = (u, v)) by (unfold link_edge, edge_of; rewrite Hu, Hv; reflexivity).
  unfold graph_add_edge. cbn [g_nodes g_edges].
  rewrite (add_node_present u), (add_node_present v); try (rewrite map_fst_stampT; assumption).
  rewrite add_edge_fresh.
  2:{ rewrite map_map. cbn. rewrite <- Hle. exact Hfresh. }
  assert (Hlook : forall n, touches (link_edge l) n = true -> zlookup n (tmap pl) = None \/ zlookup n (tmap pl) = Some (fst l)).
  { intros n Hn. rewrite zlookup_tmap. destruct (tof pl n) as [t'|] eqn:Et; [|left; reflexivity]. right. f_equal.
    clear -Et Hn Hdis. induction pl as [|l' r IH]; cbn in Et; [discriminate|].
    destruct (touches (link_edge l') n) eqn:Etch.
    - inversion Et; subst. apply (Hdis l' n); [left; reflexivity | exact Etch | exact Hn].
    - apply IH; [|exact Et]. intros l'' n' Hin. apply Hdis. right; exact Hin. }
  rewrite (stamp_ok base (tmap pl) u (fst l)); [| exact Hui | exact Hno |].
  2:{ apply Hlook. rewrite Hle. unfold touches. cbn. rewrite Z.eqb_refl. reflexivity. }
  rewrite (stamp_ok base _ v (fst l)); [| exact Hvi | exact Hno |].
  2:{ rewrite zlookup_app. assert (Htv : touches (link_edge l) v = true) by (rewrite Hle; unfold touches; cbn; rewrite Z.eqb_refl, orb_true_r; reflexivity).
      destruct (Hlook v Htv) as [H|H].
      - rewrite H. cbn. destruct (u =? v); auto.
      - rewrite H. auto. }
  f_equal. f_equal.
  - rewrite tmap_app.
    replace (tmap [l]) with [(u, fst l); (v, fst l)] by (unfold tmap; cbn [flat_map app]; rewrite Hle; reflexivity).
    rewrite <- app_assoc. reflexivity.
  - rewrite map_app. cbn [map]. unfold elink at 3. rewrite Hle. reflexivity.
Qed.

(* the links of one track *)
Lemma add_edges_ok md (base : list (Z * attrs)) t :
  md_is md "SPOT_SOURCE_ID" true -> md_is md "SPOT_TARGET_ID" true ->
  (forall n : Z * attrs, In n base -> alookup "TRACK_ID" (snd n) = None) ->
  forall eas pl,
  forallb (link_okb md (map fst base)) eas = true ->
  NoDup (map link_edge (pl ++ map (fun ea => (t, ea)) eas)) ->
  (forall l1 l2 n, In l1 (pl ++ map (fun ea => (t, ea)) eas) -> In l2 (pl ++ map (fun ea => (t, ea)) eas) ->
     touches (link_edge l1) n = true -> touches (link_edge l2) n = true -> fst l1 = fst l2) ->
  add_edges md (VInt t) (mkg (map (stampT (tmap pl)) base) (map (elink md) pl)) eas
  = Ok (mkg (map (stampT (tmap (pl ++ map (fun ea => (t, ea)) eas))) base) (map (elink md) (pl ++ map (fun ea => (t, ea)) eas))).
Proof.
  intros Hs Ht Hno. induction eas as [|ea r IH]; intros pl Hok Hnd Hdis.
  - cbn. rewrite app_nil_r. reflexivity.
  - cbn in Hok. apply andb_true_iff in Hok. destruct Hok as [Hok1 Hok].
    cbn [add_edges map].
    assert (Hsplit : pl ++ (t, ea) :: map (fun ea0 => (t, ea0)) r = (pl ++ [(t, ea)]) ++ map (fun ea0 => (t, ea0)) r)
      by (rewrite <- app_assoc; reflexivity).
    cbn [map] in Hnd, Hdis. 
    pose proof (add_edge_ok md base pl (t, ea) Hs Ht Hno Hok1) as Hstep. cbn [fst snd] in Hstep.
    rewrite Hstep.
    + rewrite (IH (pl ++ [(t, ea)]) Hok); rewrite <- Hsplit; auto.
    + rewrite map_app in Hnd. cbn in Hnd. apply NoDup_remove_2 in Hnd. intros Hin. apply Hnd. apply in_or_app. left; exact Hin.
    + intros l' n Hl' H1 H2. apply (Hdis l' (t, ea) n); auto; apply in_or_app; [left; exact Hl' | right; left; reflexivity].
Qed.

Lemma track_ok_parts md ids tr : track_okb md ids tr = true ->
  forallb (attr_okb md) (tr_attrs tr) = true /\ (exists z, xint "TRACK_ID" (tr_attrs tr) = Some z) /\
  forallb (link_okb md ids) (tr_edges tr) = true.
Proof.
  unfold track_okb. intros H. apply andb_true_iff in H. destruct H as [H H3]. apply andb_true_iff in H. destruct H as [H1 H2].
  split; [exact H1|]. split; [|exact H3]. destruct (xint "TRACK_ID" (tr_attrs tr)) as [z|]; [eauto | discriminate].
Qed.

Definition tlinks_of (trs : list track) : list (Z * xattrs) :=
  flat_map (fun tr => map (fun ea => (track_id tr, ea)) (tr_edges tr)) trs.

Lemma build_tracks_ok md (base : list (Z * attrs)) :
  md_is md "SPOT_SOURCE_ID" true -> md_is md "SPOT_TARGET_ID" true -> md_is md "TRACK_ID" true ->
  (forall n : Z * attrs, In n base -> alookup "TRACK_ID" (snd n) = None) ->
  forall trs pl,
  forallb (track_okb md (map fst base)) trs = true ->
  NoDup (map link_edge (pl ++ tlinks_of trs)) ->
  (forall l1 l2 n, In l1 (pl ++ tlinks_of trs) -> In l2 (pl ++ tlinks_of trs) ->
     touches (link_edge l1) n = true -> touches (link_edge l2) n = true -> fst l1 = fst l2) ->
  build_tracks md trs (mkg (map (stampT (tmap pl)) base) (map (elink md) pl))
  = Ok (mkg (map (stampT (tmap (pl ++ tlinks_of trs))) base) (map (elink md) (pl ++ tlinks_of trs))).
Proof.
  intros Hs Ht Hti Hno. induction trs as [|tr r IH]; intros pl Hok Hnd Hdis.
  - cbn. rewrite app_nil_r. reflexivity.
  - cbn in Hok. apply andb_true_iff in Hok. destruct Hok as [Hok1 Hok].
    destruct (track_ok_parts _ _ _ Hok1) as [Ha [[z Hz] He]].
    cbn [build_tracks]. rewrite (convert_attributes_ok _ _ Ha). rewrite (xint_cattrs_int md _ _ z Hti Hz).
    assert (Htid : track_id tr = z) by (unfold track_id; rewrite Hz; reflexivity).
    cbn [tlinks_of flat_map] in Hnd, Hdis. fold (tlinks_of r) in Hnd, Hdis. rewrite Htid in Hnd, Hdis.
    rewrite app_assoc in Hnd, Hdis.
    rewrite (add_edges_ok md base z Hs Ht Hno (tr_edges tr) pl He).
    + rewrite (IH _ Hok Hnd Hdis). cbn [tlinks_of flat_map]. fold (tlinks_of r). rewrite Htid, app_assoc. reflexivity.
    + rewrite map_app in Hnd. apply NoDup_app_l in Hnd. exact Hnd.
    + intros l1 l2 n H1 H2. apply Hdis; apply in_or_app; left; assumption.
Qed.

(* ================================================================== *)
(* 7. The discard options and _build_data                              *)
(* ================================================================== *)
Definition restrict (K : Z -> bool) (g : graph) : graph :=
  mkg (filter (fun n => K (fst n)) (g_nodes g))
      (filter (fun e => K (fst (fst e)) && K (snd (fst e))) (g_edges g)).

Lemma restrict_restrict K1 K2 g : restrict K2 (restrict K1 g) = restrict (fun n => K1 n && K2 n) g.
Proof. unfold restrict. cbn [g_nodes g_edges]. rewrite !filter_filter. f_equal.
  apply filter_ext. intros e. destruct (K1 (fst (fst e))), (K1 (snd (fst e))), (K2 (fst (fst e))), (K2 (snd (fst e))); reflexivity. Qed.

Lemma restrict_all K g : (forall n, K n = true) -> restrict K g = g.
Proof. intros H. unfold restrict. rewrite !filter_all; [destruct g; reflexivity | |]; intros x _; rewrite ?H; reflexivity. Qed.

Lemma restrict_endpoints K g :
  (forall e, In e (g_edges g) -> In (fst (fst e)) (map fst (g_nodes g)) /\ In (snd (fst e)) (map fst (g_nodes g))) ->
  forall e, In e (g_edges (restrict K g)) ->
  In (fst (fst e)) (map fst (g_nodes (restrict K g))) /\ In (snd (fst e)) (map fst (g_nodes (restrict K g))).
Proof.
  intros H e He. unfold restrict in *. cbn [g_nodes g_edges] in *. apply filter_In in He. destruct He as [He HK].
  destruct (H e He) as [Hu Hv]. destruct e as [[u v] a]. cbn [fst snd] in *.
  apply andb_true_iff in HK. destruct HK as [HKu HKv].
  apply in_map_iff in Hu, Hv. destruct Hu as [nu [Eu Hnu]]. destruct Hv as [nv [Ev Hnv]].
  split; apply in_map_iff; [exists nu | exists nv]; (split; [assumption|]); apply filter_In; (split; [assumption|]); congruence.
Qed.

Lemma fst_inj_nodup {B} (l : list (Z * B)) a b : NoDup (map fst l) -> In a l -> In b l -> fst a = fst b -> a = b.
Proof.
  induction l as [|x r IH]; intros Hnd Ha Hb E; [destruct Ha|]. cbn in Hnd. inversion Hnd as [|? ? Hx Hr]; subst.
  destruct Ha as [->|Ha], Hb as [->|Hb]; auto.
  - exfalso. apply Hx. rewrite E. apply in_map. exact Hb.
  - exfalso. apply Hx. rewrite <- E. apply in_map. exact Ha.
Qed.

(* removing the nodes selected by q (a test on the node) = restricting to the ids on which K holds *)
Lemma remove_nodes_restrict (q : Z * attrs -> bool) (K : Z -> bool) g :
  NoDup (map fst (g_nodes g)) ->
  (forall e, In e (g_edges g) -> In (fst (fst e)) (map fst (g_nodes g)) /\ In (snd (fst e)) (map fst (g_nodes g))) ->
  (forall n, In n (g_nodes g) -> q n = negb (K (fst n))) ->
  remove_nodes (map fst (filter q (g_nodes g))) g = restrict K g.
Proof.
  intros Hnd Hed Hq.
  assert (Hrm : forall id, In id (map fst (g_nodes g)) -> zmem id (map fst (filter q (g_nodes g))) = negb (K id)).
  { intros id Hid. apply in_map_iff in Hid. destruct Hid as [n [<- Hn]]. rewrite <- (Hq n Hn).
    destruct (q n) eqn:Eq.
    - apply zmem_In. apply in_map. apply filter_In. auto.
    - destruct (zmem (fst n) (map fst (filter q (g_nodes g)))) eqn:Ez; [|reflexivity].
      apply zmem_In in Ez. apply in_map_iff in Ez. destruct Ez as [n' [E Hn']]. apply filter_In in Hn'. destruct Hn' as [Hn' Hq'].
      rewrite (fst_inj_nodup _ n' n Hnd Hn' Hn E) in Hq'. congruence. }
  unfold remove_nodes, restrict. f_equal.
  - apply filter_ext_in. intros n Hn. cbn beta. rewrite Hrm; [apply negb_involutive | apply in_map; exact Hn].
  - apply filter_ext_in. intros e He. cbn beta. destruct (Hed e He) as [H1 H2]. destruct e as [[u v] a]. cbn [fst snd] in *.
    rewrite (Hrm _ H1), (Hrm _ H2), !negb_involutive. reflexivity.
Qed.

Lemma degree_elink md ls n : Nat.eqb (degree (map (elink md) ls) n) 0 = match tof ls n with None => true | Some _ => false end.
Proof.
  unfold degree. induction ls as [|l r IH]; [reflexivity|].
  cbn [map filter tof].
  change (fst (fst (elink md l))) with (fst (link_edge l)).
  change (snd (fst (elink md l))) with (snd (link_edge l)).
  unfold touches.
  destruct (fst (link_edge l) =? n) eqn:E1; destruct (snd (link_edge l) =? n) eqn:E2; cbn [orb length].
  - reflexivity.
  - reflexivity.
  - rewrite Nat.add_succ_r. reflexivity.
  - exact IH.
Qed.

Definition full_graph (d : tm) : graph :=
  mkg (map (stampT (tmap (tlinks d))) (base_nodes d)) (map (elink (attrs_md d)) (tlinks d)).
Definition final_graph (d : tm) (dspots dtracks : bool) : graph := restrict (keepb d dspots dtracks) (full_graph d).

Lemma tlinks_eq d : tlinks d = tlinks_of (tracks_of d).
Proof. reflexivity. Qed.

Lemma base_no_track_id d : wf_tm d -> forall n, In n (base_nodes d) -> alookup "TRACK_ID" (snd n) = None.
Proof.
  intros W n Hn. unfold base_nodes in Hn. apply in_map_iff in Hn. destruct Hn as [sp [<- Hsp]].
  pose proof (forallb_In _ _ _ (wf_spots d W) Hsp) as Hok. destruct (spot_ok_parts _ _ Hok) as [_ [_ [_ [Hnt _]]]].
  cbn [base_node snd]. unfold node_attrs_of.
  assert (H0 : alookup "TRACK_ID" (cattrs (attrs_md d) (sp_attrs sp)) = None).
  { rewrite alookup_cattrs. apply ahas_false in Hnt. rewrite Hnt. reflexivity. }
  destruct (has_roi d); [rewrite alookup_app, H0; reflexivity | exact H0].
Qed.

Lemma map_stampT_nil (base : list (Z * attrs)) : map (stampT (tmap [])) base = base.
Proof. rewrite <- (map_id base) at 2. apply map_ext. intros [k a]. reflexivity. Qed.

Lemma build_tracks_wf d : wf_tm d ->
  build_tracks (attrs_md d) (tracks_of d) (mkg (base_nodes d) []) = Ok (full_graph d).
Proof.
  intros W. pose proof (wf_int_keys d W) as Hk.
  pose proof (build_tracks_ok (attrs_md d) (base_nodes d) (Hk _ (or_intror (or_introl eq_refl)))
                (Hk _ (or_intror (or_intror (or_introl eq_refl)))) (Hk _ (or_introl eq_refl)) (base_no_track_id d W) (tracks_of d) []) as H.
  rewrite map_stampT_nil in H. cbn [app map] in H. unfold full_graph. rewrite tlinks_eq. apply H.
  - rewrite base_nodes_ids. exact (wf_tracks d W).
  - exact (wf_links_nodup d W).
  - exact (wf_disjoint d W).
Qed.

Lemma full_graph_ids d : map fst (g_nodes (full_graph d)) = spot_ids d.
Proof. unfold full_graph. cbn [g_nodes]. rewrite map_fst_stampT. apply base_nodes_ids. Qed.

Lemma tlinks_ok d : wf_tm d -> forall l, In l (tlinks d) -> link_okb (attrs_md d) (spot_ids d) (snd l) = true.
Proof.
  intros W l Hl. unfold tlinks in Hl. apply in_flat_map in Hl. destruct Hl as [tr [Htr Hl]].
  apply in_map_iff in Hl. destruct Hl as [ea [<- Hea]]. cbn [snd].
  pose proof (forallb_In _ _ _ (wf_tracks d W) Htr) as Hok. destruct (track_ok_parts _ _ _ Hok) as [_ [_ He]].
  apply (forallb_In _ _ _ He Hea).
Qed.

Lemma full_graph_endpoints d : wf_tm d -> forall e, In e (g_edges (full_graph d)) ->
  In (fst (fst e)) (spot_ids d) /\ In (snd (fst e)) (spot_ids d).
Proof.
  intros W e He. unfold full_graph in He. cbn [g_edges] in He. apply in_map_iff in He. destruct He as [l [<- Hl]].
  destruct (link_ok_parts _ _ _ (tlinks_ok d W l Hl)) as [_ [u [v [Hu [Hv [Hui [Hvi _]]]]]]].
  unfold elink, link_edge, edge_of. cbn [fst snd]. rewrite Hu, Hv. cbn. auto.
Qed.

Lemma filtered_ids_ok d l : wf_tm d -> tm_filtered d = Some l -> exists keep, filtered_ids l = Ok keep /\ kept_ids d = Some keep.
Proof.
  intros W Hl. pose proof (wf_filtered d W l Hl) as Hf. unfold kept_ids. rewrite Hl. clear Hl.
  induction l as [|o r IH]; [exists []; auto|]. cbn in Hf. apply andb_true_iff in Hf. destruct Hf as [Ho Hf].
  destruct (IH Hf) as [keep [Hk1 Hk2]]. injection Hk2 as Hk3.
  destruct o as [x|]; [|discriminate]. destruct (raw_int x) as [z|] eqn:Ex; [|discriminate].
  exists (z :: keep). cbn [filtered_ids flat_map]. rewrite Ex, Hk3.
  unfold raw_int in Ex. destruct (r_parse x) as [z' f| |]; try discriminate. inversion Ex; subst z'. rewrite Hk1.
  split; reflexivity.
Qed.

(* TRACK_ID of a node of the (restricted) full graph *)
Lemma stampT_track_id d n0 : wf_tm d -> In n0 (base_nodes d) ->
  alookup "TRACK_ID" (snd (stampT (tmap (tlinks d)) n0)) = option_map VInt (track_of d (fst n0)).
Proof.
  intros W Hn. cbn [stampT snd]. rewrite zlookup_tmap. unfold track_of.
  destruct (tof (tlinks d) (fst n0)) as [t|]; cbn [option_map].
  - rewrite alookup_app, (base_no_track_id d W n0 Hn). reflexivity.
  - apply (base_no_track_id d W n0 Hn).
Qed.

Theorem build_data_wf d ds dt : wf_tm d -> build_data d ds dt = Ok (final_graph d ds dt, has_roi d).
Proof.
  intros W. unfold build_data.
  destruct (tm_spots d) as [sps|] eqn:Es; [|exfalso; apply (wf_has_spots d W); exact Es].
  assert (Hsp : spots_of d = sps) by (unfold spots_of; rewrite Es; reflexivity).
  rewrite <- Hsp, (add_all_nodes_wf d W).
  destruct (tm_tracks d) as [trs|] eqn:Et; [|exfalso; apply (wf_has_tracks d W); exact Et].
  assert (Htr : tracks_of d = trs) by (unfold tracks_of; rewrite Et; reflexivity).
  rewrite <- Htr, (build_tracks_wf d W).
  (* discard_filtered_spots *)
  set (K1 := fun n => negb ds || linked d n).
  assert (H1 : (if ds then discard_lone (full_graph d) else full_graph d) = restrict K1 (full_graph d)).
  { destruct ds.
    - unfold discard_lone, lone_nodes. apply remove_nodes_restrict.
      + rewrite full_graph_ids. exact (wf_ids_nodup d W).
      + intros e He. rewrite full_graph_ids. apply full_graph_endpoints; assumption.
      + intros n _. unfold K1. cbn [negb orb]. unfold full_graph. cbn [g_edges]. rewrite degree_elink.
        unfold linked, track_of. destruct (tof (tlinks d) (fst n)); reflexivity.
    - symmetry. apply restrict_all. intros n. reflexivity. }
  rewrite H1.
  assert (Hgoal : forall K2, (forall n, K2 n = (negb dt || match kept_ids d with
                                                         | None => true
                                                         | Some keep => match track_of d n with Some t => zmem t keep | None => false end
                                                         end)) ->
                  restrict K2 (restrict K1 (full_graph d)) = final_graph d ds dt).
  { intros K2 HK2. rewrite restrict_restrict. unfold final_graph, restrict. f_equal.
    - apply filter_ext. intros n. rewrite HK2. reflexivity.
    - apply filter_ext. intros e. rewrite !HK2. reflexivity. }
  destruct (tm_filtered d) as [l|] eqn:Ef.
  - destruct (filtered_ids_ok d l W Ef) as [keep [Hk1 Hk2]]. rewrite Hk1. f_equal. f_equal.
    destruct dt.
    + unfold discard_tracks, unkept_nodes.
      rewrite (remove_nodes_restrict _ (fun n => match track_of d n with Some t => zmem t keep | None => false end)).
      * apply Hgoal. intros n. rewrite Hk2. reflexivity.
      * unfold restrict. cbn [g_nodes]. apply NoDup_map_filter. rewrite full_graph_ids. exact (wf_ids_nodup d W).
      * apply restrict_endpoints. intros e He. rewrite full_graph_ids. apply full_graph_endpoints; assumption.
      * intros n Hn. unfold restrict in Hn. cbn [g_nodes] in Hn. apply filter_In in Hn. destruct Hn as [Hn _].
        unfold full_graph in Hn. cbn [g_nodes] in Hn. apply in_map_iff in Hn. destruct Hn as [n0 [<- Hn0]].
        cbn beta. rewrite (stampT_track_id d n0 W Hn0). cbn [stampT fst]. destruct (track_of d (fst n0)) as [t|]; cbn; [reflexivity|reflexivity].
    + rewrite <- (Hgoal (fun _ => true)); [rewrite (restrict_all (fun _ => true)); reflexivity|].
      intros n. reflexivity.
  - f_equal. f_equal. rewrite <- (Hgoal (fun _ => true)); [rewrite (restrict_all (fun _ => true)); reflexivity|].
    intros n. unfold kept_ids. rewrite Ef. destruct dt; reflexivity.
Qed.
