(* Schema.v -- an executable validator for the subset of JSON Schema (draft 2020-12, as emitted by
   pydantic) that occurs in geff-schema.json, and a syntactic equivalence check between two schema
   documents (SchemaLemmas.v proves that equivalent documents give the same verdict on every
   instance).  A schema document is a JSON value (Meta.jv), exactly as parsed from the file.

   Supported keywords (anything else makes the schema object reject every instance: fail-closed):
     assertions on the instance itself ("leaf" keywords):
        type, enum, const, required, minLength, maxLength, minItems, maxItems, pattern
     applicators:  $ref (only "#/$defs/<name>", resolved in the root document, fuelled),
        properties, additionalProperties, propertyNames, items, allOf, anyOf, oneOf
     annotations / containers without effect on the verdict: title, description, default, $defs
   `pattern` is decided only for the one pattern that occurs (the version pattern, by the matcher
   Meta.version_ok which MetaLemmas proves equivalent to the regular expression); any other
   pattern rejects (fail-closed).  enum / const values must be scalars.
   Model only, no proofs. *)
From Geff Require Import Base Meta Json.
Open Scope string_scope.
Open Scope Z_scope.
Open Scope list_scope.

(* ------------------------------------------------------------------ keyword classes *)
Definition leaf_kws : list string :=
  ["type"; "enum"; "const"; "required"; "minLength"; "maxLength"; "minItems"; "maxItems"; "pattern"].
Definition annot_kws : list string := ["title"; "description"; "default"; "$defs"].
Definition sub_kws : list string :=
  ["$ref"; "properties"; "additionalProperties"; "propertyNames"; "items"; "allOf"; "anyOf"; "oneOf"].

Definition known (kws : list (string * jv)) : bool :=
  forallb (fun kv => smem (fst kv) leaf_kws || smem (fst kv) annot_kws || smem (fst kv) sub_kws) kws.

(* ------------------------------------------------------------------ leaf keywords *)
Definition is_integral (f : fl) : bool := match f with Fin z => (z mod FSCALE) =? 0 | _ => false end.

Definition type_ok (t : string) (d : jv) : bool :=
  if String.eqb t "null" then match d with JNull => true | _ => false end
  else if String.eqb t "boolean" then match d with JBool _ => true | _ => false end
  else if String.eqb t "string" then match d with JStr _ => true | _ => false end
  else if String.eqb t "array" then match d with JList _ => true | _ => false end
  else if String.eqb t "object" then match d with JObj _ => true | _ => false end
  else if String.eqb t "number" then match d with JInt _ => true | JFlt f => fl_finite f | _ => false end
  else if String.eqb t "integer" then match d with JInt _ => true | JFlt f => is_integral f | _ => false end
  else false.

(* JSON equality of an instance with a scalar constant (numbers by value) *)
Definition is_scalar (v : jv) : bool :=
  match v with JNull | JBool _ | JStr _ | JInt _ => true | _ => false end.

Definition scalar_eq (d v : jv) : bool :=
  match v, d with
  | JNull, JNull => true
  | JBool a, JBool b => Bool.eqb a b
  | JStr a, JStr b => String.eqb a b
  | JInt a, JInt b => a =? b
  | JInt a, JFlt (Fin z) => z =? a * FSCALE
  | _, _ => false
  end.

(* the one pattern whose language is decided *)
Definition version_pattern_lit : string := "^\d+\.\d+(?:\.\d+)?(?:\.dev\d+)?(?:\+[a-zA-Z0-9]+)?".

Definition zlen_ge (n : Z) (len : nat) : bool := n <=? Z.of_nat len.
Definition zlen_le (n : Z) (len : nat) : bool := Z.of_nat len <=? n.

Definition check_leaf (k : string) (arg d : jv) : bool :=
  if String.eqb k "type" then
    match arg with
    | JStr t => type_ok t d
    | JList ts => existsb (fun t => match t with JStr t => type_ok t d | _ => false end) ts
    | _ => false
    end
  else if String.eqb k "enum" then
    match arg with JList vs => forallb is_scalar vs && existsb (scalar_eq d) vs | _ => false end
  else if String.eqb k "const" then is_scalar arg && scalar_eq d arg
  else if String.eqb k "required" then
    match arg with
    | JList names =>
        forallb (fun n => match n with JStr _ => true | _ => false end) names &&
        match d with
        | JObj kvs => forallb (fun n => match n with JStr key => jhas key kvs | _ => false end) names
        | _ => true
        end
    | _ => false
    end
  else if String.eqb k "minLength" then
    match arg with JInt n => match d with JStr s => zlen_ge n (utf8_len s) | _ => true end | _ => false end
  else if String.eqb k "maxLength" then
    match arg with JInt n => match d with JStr s => zlen_le n (utf8_len s) | _ => true end | _ => false end
  else if String.eqb k "minItems" then
    match arg with JInt n => match d with JList l => zlen_ge n (List.length l) | _ => true end | _ => false end
  else if String.eqb k "maxItems" then
    match arg with JInt n => match d with JList l => zlen_le n (List.length l) | _ => true end | _ => false end
  else if String.eqb k "pattern" then
    match arg with
    | JStr p => String.eqb p version_pattern_lit && match d with JStr s => version_ok s | _ => true end
    | _ => false
    end
  else true.

Definition leaves_ok (kws : list (string * jv)) (d : jv) : bool :=
  forallb (fun k => match jget k kws with Some arg => check_leaf k arg d | None => true end) leaf_kws.

(* ------------------------------------------------------------------ $ref *)
Definition defs_of (root : jv) : list (string * jv) :=
  match root with
  | JObj rk => match jget "$defs" rk with Some (JObj ds) => ds | _ => [] end
  | _ => []
  end.

(* "#/$defs/<name>" with a name that needs no JSON-pointer / URI unescaping *)
Definition ref_name (p : string) : option string :=
  match has_prefix "#/$defs/" p with
  | Some name => if str_has "~" name || str_has "/" name || str_has "%" name then None else Some name
  | None => None
  end.

Definition resolve (root : jv) (p : string) : option jv :=
  match ref_name p with Some name => jget name (defs_of root) | None => None end.

(* ------------------------------------------------------------------ applicators, parametric in the recursive call *)
Definition sub_ref (V : jv -> jv -> bool) (root : jv) (kws : list (string * jv)) (d : jv) : bool :=
  match jget "$ref" kws with
  | None => true
  | Some (JStr p) => match resolve root p with Some s => V s d | None => false end
  | Some _ => false
  end.

Definition sub_allof (V : jv -> jv -> bool) (kws : list (string * jv)) (d : jv) : bool :=
  match jget "allOf" kws with
  | None => true
  | Some (JList l) => forallb (fun s => V s d) l
  | Some _ => false
  end.

Definition sub_anyof (V : jv -> jv -> bool) (kws : list (string * jv)) (d : jv) : bool :=
  match jget "anyOf" kws with
  | None => true
  | Some (JList l) => existsb (fun s => V s d) l
  | Some _ => false
  end.

Definition sub_oneof (V : jv -> jv -> bool) (kws : list (string * jv)) (d : jv) : bool :=
  match jget "oneOf" kws with
  | None => true
  | Some (JList l) => Nat.eqb (List.length (filter (fun s => V s d) l)) 1
  | Some _ => false
  end.

Definition sub_items (V : jv -> jv -> bool) (kws : list (string * jv)) (d : jv) : bool :=
  match jget "items" kws with
  | None => true
  | Some s => match d with JList l => forallb (V s) l | _ => true end
  end.

Definition sub_propnames (V : jv -> jv -> bool) (kws : list (string * jv)) (d : jv) : bool :=
  match jget "propertyNames" kws with
  | None => true
  | Some s => match d with JObj kvs => forallb (fun kv => V s (JStr (fst kv))) kvs | _ => true end
  end.

(* properties + additionalProperties: every member of the instance is checked against the
   property schema of its name, or else against additionalProperties when that is present *)
Definition member_ok (V : jv -> jv -> bool) (ps : list (string * jv)) (addl : option jv) (kv : string * jv) : bool :=
  match jget (fst kv) ps with
  | Some s => V s (snd kv)
  | None => match addl with Some a => V a (snd kv) | None => true end
  end.

Definition sub_props (V : jv -> jv -> bool) (kws : list (string * jv)) (d : jv) : bool :=
  match jget "properties" kws with
  | Some (JObj ps) =>
      match d with JObj kvs => forallb (member_ok V ps (jget "additionalProperties" kws)) kvs | _ => true end
  | None =>
      match d with JObj kvs => forallb (member_ok V [] (jget "additionalProperties" kws)) kvs | _ => true end
  | Some _ => false
  end.

(* ------------------------------------------------------------------ the validator *)
Fixpoint validates_f (fuel : nat) (root s d : jv) {struct fuel} : bool :=
  match fuel with
  | O => false
  | S f =>
      match s with
      | JBool b => b
      | JObj kws =>
          known kws && leaves_ok kws d
          && sub_ref (validates_f f root) root kws d
          && sub_allof (validates_f f root) kws d
          && sub_anyof (validates_f f root) kws d
          && sub_oneof (validates_f f root) kws d
          && sub_items (validates_f f root) kws d
          && sub_propnames (validates_f f root) kws d
          && sub_props (validates_f f root) kws d
      | _ => false
      end
  end.

(* the schema documents of interest nest far less deep than this, and no instance needs more
   fuel than the schema's own depth (recursion follows the schema, never the instance alone) *)
Definition FUEL : nat := 64.

(* verdict of the schema document `s` on the instance `d` *)
Definition validates (s d : jv) : bool := validates_f FUEL s s d.

(* ------------------------------------------------------------------ syntactic equivalence of schema documents *)
(* `required` lists are compared as sets, every other leaf argument literally *)
Definition str_subset (a b : list jv) : bool := forallb (fun x => existsb (jv_eqb x) b) a.

Definition leaf_eq (k : string) (a b : option jv) : bool :=
  match a, b with
  | None, None => true
  | Some x, Some y =>
      if String.eqb k "required" then
        match x, y with
        | JList la, JList lb =>
            forallb (fun n => match n with JStr _ => true | _ => false end) la &&
            forallb (fun n => match n with JStr _ => true | _ => false end) lb &&
            str_subset la lb && str_subset lb la
        | _, _ => false
        end
      else jv_eqb x y
  | _, _ => false
  end.

(* two maps name -> schema: same names, equivalent schemas (member order is irrelevant) *)
Definition map_equiv (E : jv -> jv -> bool) (pa pb : list (string * jv)) : bool :=
  forallb (fun kv => match jget (fst kv) pb with Some y => match jget (fst kv) pa with Some x => E x y | None => false end | None => false end) pa
  && forallb (fun kv => jhas (fst kv) pa) pb.

Definition opt_equiv (E : jv -> jv -> bool) (a b : option jv) : bool :=
  match a, b with
  | None, None => true
  | Some x, Some y => E x y
  | _, _ => false
  end.

Definition list_kw_equiv (E : jv -> jv -> bool) (a b : option jv) : bool :=
  match a, b with
  | None, None => true
  | Some (JList la), Some (JList lb) => list_eqb E la lb
  | _, _ => false
  end.

Definition props_kw_equiv (E : jv -> jv -> bool) (a b : option jv) : bool :=
  match a, b with
  | None, None => true
  | Some (JObj pa), Some (JObj pb) => map_equiv E pa pb
  | _, _ => false
  end.

Definition ref_kw_eq (a b : option jv) : bool :=
  match a, b with
  | None, None => true
  | Some (JStr p), Some (JStr q) => String.eqb p q
  | _, _ => false
  end.

Fixpoint sequiv_f (n : nat) (a b : jv) {struct n} : bool :=
  match n with
  | O => false
  | S m =>
      match a, b with
      | JBool x, JBool y => Bool.eqb x y
      | JObj ka, JObj kb =>
          known ka && known kb
          && forallb (fun k => leaf_eq k (jget k ka) (jget k kb)) leaf_kws
          && ref_kw_eq (jget "$ref" ka) (jget "$ref" kb)
          && list_kw_equiv (sequiv_f m) (jget "allOf" ka) (jget "allOf" kb)
          && list_kw_equiv (sequiv_f m) (jget "anyOf" ka) (jget "anyOf" kb)
          && list_kw_equiv (sequiv_f m) (jget "oneOf" ka) (jget "oneOf" kb)
          && opt_equiv (sequiv_f m) (jget "items" ka) (jget "items" kb)
          && opt_equiv (sequiv_f m) (jget "propertyNames" ka) (jget "propertyNames" kb)
          && opt_equiv (sequiv_f m) (jget "additionalProperties" ka) (jget "additionalProperties" kb)
          && props_kw_equiv (sequiv_f m) (jget "properties" ka) (jget "properties" kb)
      | _, _ => false
      end
  end.

(* whole documents: equivalent root schemas and equivalent $defs tables *)
Definition schema_equiv (a b : jv) : bool :=
  sequiv_f FUEL a b && map_equiv (sequiv_f FUEL) (defs_of a) (defs_of b).

(* the documented adjustment of the exported model schema: geff_version is required
   (packages/geff-spec/src/geff_spec/_schema.py, _formatted_schema_json).  Applied to the raw
   GeffSchema.model_json_schema() document. *)
Definition add_required (name : string) (s : jv) : jv :=
  match s with
  | JObj kws =>
      match jget "required" kws with
      | Some (JList l) => JObj (jset "required" (JList (l ++ [JStr name])) kws)
      | _ => s
      end
  | _ => s
  end.

Definition require_version (root : jv) : jv :=
  match root with
  | JObj rk =>
      match jget "$defs" rk with
      | Some (JObj ds) =>
          match jget "GeffMetadata" ds with
          | Some g => JObj (jset "$defs" (JObj (jset "GeffMetadata" (add_required "geff_version" g) ds)) rk)
          | None => root
          end
      | _ => root
      end
  | _ => root
  end.
