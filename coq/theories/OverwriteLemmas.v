(* OverwriteLemmas.v -- C06: refusal without overwrite, and overwrite = delete the old geff completely,
   then write as onto a vacant location. *)
From Geff Require Import Base Dtype DtypeLemmas Vlen VlenLemmas Tree TreeLemmas Validate ValidateLemmas Write Read RoundTrip
     WriteLemmas ReadLemmas ValidateLayout C01Lemmas CrashLemmas.
From Geff.Gen Require Import Consts.
Open Scope string_scope.
Open Scope list_scope.

(* ---------- refusal ---------- *)
Theorem refuse k pre g md v :
  exists_geff k pre = true ->
  write_arrays k g md v false (init pre) = (init pre, Err FileExistsError).
Proof. intros H. rewrite write_arrays_eq. unfold bind at 1. unfold overwrite_guard, bind at 1.
  rewrite check_for_geff_spec. cbn [s_root init]. rewrite H. reflexivity. Qed.

(* ---------- writing onto a vacant location, from any state of the monad ---------- *)
Definition vacant (pre : option znode) : Prop :=
  match pre with
  | None => True
  | Some (ZG a ch) => alookup "geff" a = None /\ alookup path_NODES ch = None /\ alookup path_EDGES ch = None
  | Some (ZA _) => False
  end.

Lemma clean_vacant k pre : clean k pre -> vacant pre.
Proof. destruct pre as [[x|a ch]|]; cbn; tauto. Qed.

Lemma write_id_arrays_gen pre s nids eids :
  vacant pre -> s_root s = pre -> a_dt nids = a_dt eids -> is_integer (a_dt nids) = true ->
  exists tr, write_id_arrays nids eids s =
    (mkst (Some (ZG (base_attrs pre) (base_children pre ++ [(path_NODES, ids_group nids); (path_EDGES, ids_group eids)]))) tr, Ok tt).
Proof.
  intros Hc Hs Hdt Hint. unfold write_id_arrays. rewrite Hdt, dtype_eqb_refl. cbn [negb].
  rewrite <- Hdt, Hint. cbn [negb].
  assert (Hgen : forall s a ch, s_root s = Some (ZG a ch) -> alookup path_NODES ch = None -> alookup path_EDGES ch = None ->
            exists tr, (set_item [path_NODES; path_IDS] nids ;; set_item [path_EDGES; path_IDS] eids)%M s =
              (mkst (Some (ZG a (ch ++ [(path_NODES, ids_group nids); (path_EDGES, ids_group eids)]))) tr, Ok tt)).
  { intros s0 a ch Hs0 Hn He.
    assert (H1 : put_path (ZG a ch) [path_NODES; path_IDS] (ZA nids) = Some (ZG a (ch ++ [(path_NODES, ids_group nids)]))).
    { cbn. rewrite Hn. cbn. rewrite (aset_fresh _ _ _ Hn). reflexivity. }
    unfold bind at 1. rewrite (set_item_ok _ _ _ _ _ _ Hs0 H1).
    assert (He' : alookup path_EDGES (ch ++ [(path_NODES, ids_group nids)]) = None).
    { rewrite alookup_app, He. reflexivity. }
    assert (H2 : put_path (ZG a (ch ++ [(path_NODES, ids_group nids)])) [path_EDGES; path_IDS] (ZA eids)
                 = Some (ZG a (ch ++ [(path_NODES, ids_group nids); (path_EDGES, ids_group eids)]))).
    { cbn [put_path]. rewrite He'. cbn. rewrite (aset_fresh _ _ _ He'). rewrite <- app_assoc. reflexivity. }
    eexists. apply (set_item_ok (mkst _ _) _ _ _ _ _ eq_refl H2). }
  destruct pre as [[x|a ch]|]; cbn [vacant] in Hc.
  - contradiction.
  - destruct Hc as [_ [Hn He]]. unfold bind at 1. rewrite (setup_group_ok s a ch Hs).
    apply (Hgen s a ch Hs Hn He).
  - unfold bind at 1. unfold setup_group at 1. unfold bind at 1. unfold get_root. rewrite Hs. cbn [set_root].
    unfold bind at 1. unfold ret at 1.
    apply (Hgen (mkst (Some empty_group) (Some empty_group :: s_trace s)) [] [] eq_refl eq_refl eq_refl).
Qed.

Theorem write_core_layout k pre s g md md' v n :
  vacant pre -> s_root s = pre ->
  a_dt (w_nids g) = a_dt (w_eids g) -> is_integer (a_dt (w_nids g)) = true ->
  len0 (w_nids g) = Some n ->
  props_ok (backfill (w_nids g) md (w_nprops g)) -> props_ok (w_eprops g) ->
  final_metadata g md = Ok md' ->
  (v = true -> validate_structure k (Some (layout pre g (backfill (w_nids g) md (w_nprops g)) md')) = Ok tt) ->
  exists tr, write_core k g md v s
             = (mkst (Some (layout pre g (backfill (w_nids g) md (w_nprops g)) md')) tr, Ok tt).
Proof.
  intros Hc Hs Hdt Hint Hlen Hnp Hep Hmd Hval. unfold write_core, write_body.
  destruct (write_id_arrays_gen pre s _ _ Hc Hs Hdt Hint) as [tr1 H1].
  unfold bind at 1. unfold bind at 1. rewrite H1.
  unfold bind at 1. rewrite Hlen. unfold ret at 1.
  set (a := base_attrs pre) in *. set (ch := base_children pre) in *.
  assert (Hn : alookup path_NODES ch = None /\ alookup path_EDGES ch = None).
  { subst ch. destruct pre as [[x|a0 ch0]|]; cbn [vacant] in Hc; cbn; [contradiction | tauto | auto]. }
  destruct Hn as [Hn He].
  set (nps := backfill (w_nids g) md (w_nprops g)) in *.
  set (ch1 := ch ++ [(path_NODES, ids_group (w_nids g)); (path_EDGES, ids_group (w_eids g))]).
  assert (Hg1 : alookup path_NODES ch1 = Some (ids_group (w_nids g))).
  { subst ch1. rewrite alookup_app, Hn. reflexivity. }
  destruct (opt_props_ok (mkst (Some (ZG a ch1)) tr1) a ch1 path_NODES (w_nids g) nps eq_refl Hg1 Hnp) as [tr2 H2].
  unfold bind at 1. rewrite H2.
  set (ch2 := aset path_NODES (grp_node (w_nids g) nps) ch1).
  assert (Hch2 : ch2 = ch ++ [(path_NODES, grp_node (w_nids g) nps); (path_EDGES, ids_group (w_eids g))]).
  { subst ch2 ch1. rewrite (aset_app_fresh _ _ _ _ Hn). reflexivity. }
  assert (Hg2 : alookup path_EDGES ch2 = Some (ids_group (w_eids g))).
  { rewrite Hch2, alookup_app, He. reflexivity. }
  destruct (opt_props_ok (mkst (Some (ZG a ch2)) tr2) a ch2 path_EDGES (w_eids g) (w_eprops g) eq_refl Hg2 Hep) as [tr3 H3].
  unfold bind at 1. rewrite H3.
  unfold lift at 1. rewrite Hmd.
  assert (Hfinal : ZG (aset "geff" (AGeff (Some md')) a) (aset path_EDGES (grp_node (w_eids g) (w_eprops g)) ch2)
                   = layout pre g nps md').
  { unfold layout. f_equal. rewrite Hch2. rewrite (aset_app_fresh _ _ _ _ He). reflexivity. }
  unfold write_metadata. unfold bind at 1. unfold bind at 1.
  rewrite (setup_group_ok (mkst _ _) a _ eq_refl).
  unfold set_root. cbn [s_trace s_root set_attr]. rewrite Hfinal.
  unfold write_tail. destruct v.
  - unfold bind at 1. unfold get_root. cbn [s_root]. rewrite (Hval eq_refl). unfold ret. eexists. reflexivity.
  - unfold ret. eexists. reflexivity.
Qed.

(* ---------- overwrite ---------- *)
Lemma vacant_cleaned k a ch : vacant (cleaned k a ch).
Proof. unfold cleaned.
  assert (H : vacant (Some (ZG (adel "geff" a) (adel path_EDGES (adel path_NODES ch))))).
  { cbn. split; [apply alookup_adel_same|]. split; [|apply alookup_adel_same].
    rewrite alookup_adel_other; [apply alookup_adel_same | discriminate]. }
  destruct (adel path_EDGES (adel path_NODES ch)) as [|kv c]; destruct k; first [exact I | exact H].
Qed.

(* overwriting a geff = writing the new graph onto the location with the old geff removed:
   the result is the layout of the NEW graph over `cleaned`, which holds nothing of the old nodes/edges/metadata *)
Theorem overwrite_replaces k a ch g md md' n e :
  ahas "geff" a = true -> (k = KPath \/ k = KObj) ->
  wf_input g md n e -> final_metadata g md = Ok md' ->
  let post := layout (cleaned k a ch) g (backfill (w_nids g) md (w_nprops g)) md' in
  (exists tr, write_arrays k g md true true (init (Some (ZG a ch))) = (mkst (Some post) tr, Ok tt)) /\
  validate_structure k (Some post) = Ok tt /\
  read_to_memory k (Some post) true None None
  = Ok (mkmg md' (w_nids g) (w_eids g) (up_props (backfill (w_nids g) md (w_nprops g))) (up_props (w_eprops g))).
Proof.
  intros Hg _ Hwf Hfm. cbn zeta.
  set (pre' := cleaned k a ch). set (nps := backfill (w_nids g) md (w_nprops g)).
  pose proof (vacant_cleaned k a ch) as Hvac. fold pre' in Hvac.
  destruct (final_metadata_fields _ _ _ Hfm) as [Hmn [Hme _]]. fold nps in Hmn.
  assert (Hcn : alookup path_NODES (base_children pre') = None /\ alookup path_EDGES (base_children pre') = None).
  { destruct pre' as [[x|a0 ch0]|]; cbn [vacant] in Hvac; cbn; [contradiction | tauto | auto]. }
  destruct Hcn as [Hcn Hce].
  assert (Hval : validate_structure k (Some (layout pre' g nps md')) = Ok tt).
  { eapply (validate_layout k pre' g nps md md' n e); eauto using wi_nshape, wi_eshape, wi_dtype, wi_int, wi_nprops, wi_eprops, wi_nstale, wi_estale.
    eapply axes_ok_of; eauto. }
  split; [|split; [exact Hval|]].
  - rewrite write_arrays_eq. unfold bind at 1. unfold overwrite_guard, bind at 1.
    rewrite check_for_geff_spec. cbn [s_root init].
    assert (Hex : exists_geff k (Some (ZG a ch)) = true) by (destruct k; [reflexivity | exact Hg]).
    rewrite Hex. destruct (delete_geff_root k (init (Some (ZG a ch))) a ch eq_refl Hg) as [tr0 Hd]. rewrite Hd.
    apply (write_core_layout k pre' (mkst pre' tr0) g md md' true n Hvac eq_refl (wi_dtype _ _ _ _ Hwf) (wi_int _ _ _ _ Hwf)).
    + unfold len0. rewrite (wi_nshape _ _ _ _ Hwf). reflexivity.
    + apply (wf_props_ok n). exact (wi_nprops _ _ _ _ Hwf).
    + apply (wf_props_ok e). exact (wi_eprops _ _ _ _ Hwf).
    + exact Hfm.
    + intros _. exact Hval.
  - unfold read_to_memory, reader_init. rewrite Hval. cbn [rbind].
    pose proof (read_layout k pre' g nps md md' n e Hcn Hce (wi_nprops _ _ _ _ Hwf) (wi_eprops _ _ _ _ Hwf) Hmn Hme
                  (wi_nstale _ _ _ _ Hwf) (wi_estale _ _ _ _ Hwf)) as Hr.
    unfold read_to_memory, reader_init in Hr. cbn [rbind] in Hr. exact Hr.
Qed.

(* ---------- histories ---------- *)
(* one call of a history: a graph, its metadata and the overwrite flag *)
Record wcall := mkcall { c_g : wgraph; c_md : smeta; c_ov : bool }.
Definition step (k : skind) (st : option znode) (c : wcall) : option znode * res unit :=
  run (write_arrays k (c_g c) (c_md c) true (c_ov c)) st.
Definition play (k : skind) (st : option znode) (cs : list wcall) : option znode :=
  fold_left (fun s c => fst (step k s c)) cs st.

(* in any history, a call without overwrite on a location that holds a geff changes nothing *)
Theorem history_refuse k st c : exists_geff k st = true -> c_ov c = false -> step k st c = (st, Err FileExistsError).
Proof. intros He Ho. unfold step, run. rewrite Ho, (refuse k st _ _ true He). reflexivity. Qed.

(* ---------- the graph-library writers: two guards in a row ---------- *)
Lemma api_write_eq k g md v ov s :
  api_write k g md v ov s = (overwrite_guard k ov ;; write_arrays k g md v false)%M s.
Proof. unfold api_write, overwrite_guard, bind.
  destruct (check_for_geff k s) as [s0 [ex|e]]; [|reflexivity].
  destruct ((if ex then if ov then delete_geff k else fail FileExistsError else ret tt) s0) as [s1 [u|e]]; reflexivity. Qed.

Theorem api_refuse k pre g md v :
  exists_geff k pre = true ->
  api_write k g md v false (init pre) = (init pre, Err FileExistsError).
Proof. intros H. rewrite api_write_eq. unfold bind at 1. unfold overwrite_guard, bind at 1.
  rewrite check_for_geff_spec. cbn [s_root init]. rewrite H. reflexivity. Qed.

Lemma guard_skip k ov s : exists_geff k (s_root s) = false -> overwrite_guard k ov s = (s, Ok tt).
Proof. intros H. unfold overwrite_guard, bind. rewrite check_for_geff_spec, H. reflexivity. Qed.

(* nothing there: the wrapper adds nothing to write_arrays *)
Theorem api_fresh k g md v ov s :
  exists_geff k (s_root s) = false -> api_write k g md v ov s = write_arrays k g md v ov s.
Proof. intros H. rewrite api_write_eq. unfold bind. rewrite (guard_skip k ov s H).
  rewrite !write_arrays_eq. unfold bind. rewrite (guard_skip k false s H), (guard_skip k ov s H). reflexivity. Qed.

(* overwrite=True over a geff: the wrapper deletes it; what happens next depends on whether the location still "holds a geff"
   for the inner guard *)
Lemma api_overwrite_tr k a ch g md v s tr :
  s_root s = Some (ZG a ch) -> ahas "geff" a = true ->
  delete_geff k s = (mkst (cleaned k a ch) tr, Ok tt) ->
  api_write k g md v true s =
    (if exists_geff k (cleaned k a ch)
     then (mkst (cleaned k a ch) tr, Err FileExistsError)
     else write_core k g md v (mkst (cleaned k a ch) tr)) /\
  write_arrays k g md v true s = write_core k g md v (mkst (cleaned k a ch) tr).
Proof. intros Hs Hg Hd.
  assert (Hex : exists_geff k (Some (ZG a ch)) = true) by (destruct k; [reflexivity | exact Hg]).
  split.
  - rewrite api_write_eq. unfold bind at 1. unfold overwrite_guard at 1, bind at 1.
    rewrite check_for_geff_spec, Hs, Hex, Hd.
    rewrite write_arrays_eq. unfold bind at 1. unfold overwrite_guard at 1, bind at 1.
    rewrite check_for_geff_spec. cbn [s_root].
    destruct (exists_geff k (cleaned k a ch)); reflexivity.
  - rewrite write_arrays_eq. unfold bind at 1. unfold overwrite_guard at 1, bind at 1.
    rewrite check_for_geff_spec, Hs, Hex, Hd. reflexivity. Qed.

Theorem api_overwrite k a ch g md v s :
  s_root s = Some (ZG a ch) -> ahas "geff" a = true ->
  exists tr,
    api_write k g md v true s =
    if exists_geff k (cleaned k a ch)
    then (mkst (cleaned k a ch) tr, Err FileExistsError)
    else write_core k g md v (mkst (cleaned k a ch) tr).
Proof. intros Hs Hg. destruct (delete_geff_root k s a ch Hs Hg) as [tr Hd]. exists tr.
  apply (api_overwrite_tr k a ch g md v s tr Hs Hg Hd). Qed.

Lemma exists_geff_cleaned_obj a ch : exists_geff KObj (cleaned KObj a ch) = false.
Proof. unfold cleaned, exists_geff.
  assert (H : ahas "geff" (adel "geff" a) = false).
  { destruct (ahas "geff" (adel "geff" a)) eqn:E; [|reflexivity]. apply ahas_true in E. destruct E as [x Hx].
    rewrite alookup_adel_same in Hx. discriminate. }
  destruct (adel path_EDGES (adel path_NODES ch)); exact H. Qed.

(* geff.write(overwrite=True) over a geff behaves as write_arrays(overwrite=True) exactly when the location no longer counts as
   occupied once the geff is deleted: always for store objects; for a path only when the directory held nothing but the geff *)
Theorem api_overwrite_same k a ch g md v s :
  s_root s = Some (ZG a ch) -> ahas "geff" a = true -> exists_geff k (cleaned k a ch) = false ->
  api_write k g md v true s = write_arrays k g md v true s.
Proof. intros Hs Hg Hc. destruct (delete_geff_root k s a ch Hs Hg) as [tr Hd].
  destruct (api_overwrite_tr k a ch g md v s tr Hs Hg Hd) as [H1 H2]. rewrite Hc in H1. rewrite H1, H2. reflexivity. Qed.

Theorem api_overwrite_obj a ch g md v s :
  s_root s = Some (ZG a ch) -> ahas "geff" a = true ->
  api_write KObj g md v true s = write_arrays KObj g md v true s.
Proof. intros Hs Hg. apply (api_overwrite_same KObj a ch g md v s Hs Hg (exists_geff_cleaned_obj a ch)). Qed.

(* a directory that holds the geff beside other members: the old geff is deleted, the write is refused, nothing is written *)
Theorem api_overwrite_path_beside a ch g md v s :
  s_root s = Some (ZG a ch) -> ahas "geff" a = true -> adel path_EDGES (adel path_NODES ch) <> [] ->
  exists tr, api_write KPath g md v true s
             = (mkst (Some (ZG (adel "geff" a) (adel path_EDGES (adel path_NODES ch)))) tr, Err FileExistsError).
Proof. intros Hs Hg Hne. destruct (api_overwrite KPath a ch g md v s Hs Hg) as [tr H]. exists tr. rewrite H.
  unfold cleaned. destruct (adel path_EDGES (adel path_NODES ch)) as [|kv r]; [contradiction|]. reflexivity. Qed.

(* ---------- C05 for the graph-library writers: every state a crash of geff.write(..., overwrite=True) can leave ---------- *)
Theorem crash_api_overwrite k pre g md v :
  let (s', r) := api_write k g md v true (init pre) in
  new_ok k r (s_trace s') /\ (r <> Ok tt -> s_trace s' <> [] -> unrecognised k (s_root s')).
Proof.
  rewrite api_write_eq. unfold bind at 1. unfold overwrite_guard, bind at 1.
  rewrite check_for_geff_spec. cbn [s_root init].
  destruct (exists_geff k pre) eqn:Eex.
  - pose proof (delete_geff_states k (init pre)) as Hd.
    destruct (delete_geff k (init pre)) as [s1 [u|e]] eqn:Ed.
    + destruct Hd as [n1 [Ht1 [HF1 HP1]]]. cbn in Ht1. rewrite app_nil_r in Ht1.
      assert (HU1 : Forall (unrecognised k) n1) by (eapply Forall_impl; [|exact HF1]; intros st; apply nodes_gone_unrecognised).
      destruct u. pose proof (delete_geff_ok_no_geff k _ _ Ed) as Hng.
      rewrite write_arrays_eq. unfold bind at 1. unfold overwrite_guard, bind at 1. rewrite check_for_geff_spec.
      destruct (exists_geff k (s_root s1)) eqn:Eex1.
      * (* the inner guard still sees something: refused, the old geff is gone *)
        cbn. rewrite Ht1. split; [apply new_ok_all; exact HU1 | intros _ _; apply nodes_gone_unrecognised; exact HP1].
      * unfold ret at 1. cbn iota beta.
        pose proof (write_core_crash k g md v s1 Hng) as H.
        destruct (write_core k g md v s1) as [s' r]. destruct H as [new [Ht [Hn Hr]]].
        rewrite Ht, Ht1. split.
        -- destruct new as [|f l]; cbn.
           ++ apply new_ok_all. exact HU1.
           ++ destruct Hn as [Hl Hf]. split; [apply Forall_app; auto | exact Hf].
        -- intros Hne _. apply Hr. exact Hne.
    + destruct Hd as [n1 [Ht1 [HF1 HP1]]]. cbn in Ht1. rewrite app_nil_r in Ht1. rewrite Ht1.
      assert (HU1 : Forall (unrecognised k) n1) by (eapply Forall_impl; [|exact HF1]; intros st; apply nodes_gone_unrecognised).
      split; [apply new_ok_all; exact HU1 | intros _ _; apply nodes_gone_unrecognised; exact HP1].
  - unfold ret at 1. cbn iota beta.
    rewrite write_arrays_eq. unfold bind at 1. rewrite (guard_skip k false (init pre) Eex).
    pose proof (write_core_crash k g md v (init pre) (exists_geff_false _ _ Eex)) as H.
    destruct (write_core k g md v (init pre)) as [s' r]. destruct H as [new [Ht [Hn Hr]]].
    cbn in Ht. rewrite app_nil_r in Ht. rewrite Ht. split; [exact Hn | intros Hne _; apply Hr; exact Hne].
Qed.

Theorem crash_api_clean k pre g md v ov :
  clean k pre ->
  let (s', r) := api_write k g md v ov (init pre) in
  new_ok k r (s_trace s') /\ (r <> Ok tt -> unrecognised k (s_root s')).
Proof. intros Hc.
  assert (He : exists_geff k (s_root (init pre)) = false).
  { pose proof (check_for_geff_clean k pre Hc) as H. rewrite check_for_geff_spec in H. inversion H. reflexivity. }
  rewrite (api_fresh k g md v ov (init pre) He). exact (crash_clean k pre g md v ov Hc). Qed.

(* ---------- C05: a write whose RESULT is rejected by structural validation, as a statement about write_arrays itself ---------- *)
(* whatever the input: if the arrays and the metadata could be written (write_body succeeds and leaves the group ZG a ch) and
   structural validation rejects the committed state with ValueError, then write_arrays raises ValueError and ends in `cleaned`:
   nodes, edges and the geff attribute are gone, every other member and attribute is as before (cleaned_frame) *)
Theorem write_arrays_rejected k pre g md md' ov a ch tr1 :
  exists_geff k pre = false ->
  write_body g md (init pre) = (mkst (Some (ZG a ch)) tr1, Ok md') ->
  validate_structure k (Some (ZG (aset "geff" (AGeff (Some md')) a) ch)) = Err ValueError ->
  exists tr, write_arrays k g md true ov (init pre)
             = (mkst (cleaned k (aset "geff" (AGeff (Some md')) a) ch) tr, Err ValueError).
Proof.
  intros Hex Hb Hv. rewrite write_arrays_eq. unfold bind at 1. rewrite (guard_skip k ov (init pre) Hex).
  unfold write_core. unfold bind at 1. rewrite Hb. unfold bind at 1.
  unfold write_metadata. unfold bind at 1. rewrite (setup_group_ok (mkst (Some (ZG a ch)) tr1) a ch eq_refl).
  unfold set_root. cbn [s_trace s_root set_attr].
  set (s2 := mkst (Some (ZG (aset "geff" (AGeff (Some md')) a) ch)) (Some (ZG (aset "geff" (AGeff (Some md')) a) ch) :: tr1)).
  assert (Hg : ahas "geff" (aset "geff" (AGeff (Some md')) a) = true).
  { apply ahas_true. exists (AGeff (Some md')). apply alookup_aset_same. }
  destruct (tail_reject k s2 (aset "geff" (AGeff (Some md')) a) ch eq_refl Hg Hv) as [tr Ht].
  exists tr. exact Ht.
Qed.
