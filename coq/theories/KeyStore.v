(* KeyStore.v -- the key level of a zarr store, below the abstract hierarchy of Tree.v.

   A store is a finite map from keys to values, exactly what zarr's Store interface holds
   (MemoryStore._store_dict, the files of a LocalStore).  A key is the list of its "/"-separated
   components (the harness splits the raw key on "/"); a value is either a metadata DOCUMENT
   (.zgroup / .zattrs / .zarray for zarr format 2, zarr.json for zarr format 3) as a parsed JSON
   value (Meta.jv), or a CHUNK, which carries the decoded C-order payload of the whole chunk
   (chunk_shape entries, edge chunks padded) -- the bytes->values step (compressors, filters, the
   `bytes` / vlen codecs, endianness) is zarr's chunk encoding and stays OUTSIDE this model, as do
   sharding and the transpose codec (documents that ask for them are rejected by the parser).

   This file defines, for both zarr formats,
     jtree_of_keys : fmt -> kstore -> option jnode     which keys make a group / an array, where the attributes
                                                       live, how dtype / shape / chunk grid are spelled, how the
                                                       chunks of the grid make the array's contents
     keys_of_jtree : fmt -> jnode -> kstore            the keys a conformant writer produces (one chunk per array)
   on hierarchies whose attributes are RAW JSON documents (jnode), and the two abstractions
     tree_of_keys A f ks = option_map (abs_tree A true) (jtree_of_keys f ks)
     keys_of_tree C f t  = keys_of_jtree f (conc_tree C true t)
   to / from the tree of Tree.v, for an attribute abstraction A (JSON -> aval) / concretisation C.
   Model only; the proofs are in KeyStoreLemmas.v. *)
From Coq Require Import DecimalString.
From Geff Require Import Base Dtype Vlen Tree.
From Geff Require Meta.
Open Scope string_scope.
Open Scope list_scope.

Notation jv := Meta.jv (only parsing).
Notation JNull := Meta.JNull.
Notation JBool := Meta.JBool.
Notation JInt := Meta.JInt.
Notation JFlt := Meta.JFlt.
Notation JStr := Meta.JStr.
Notation JList := Meta.JList.
Notation JObj := Meta.JObj.

(* ---------- the store ---------- *)
Inductive fmt := V2 | V3.
Inductive kval := KDoc (d : jv) | KChunk (flat : list Z).
Definition key := list string.
Definition kstore := list (key * kval).

Definition key_eqb (a b : key) : bool := list_eqb String.eqb a b.
(* a store is a dict: the first binding of a key is the binding *)
Fixpoint klookup (k : key) (ks : kstore) : option kval :=
  match ks with
  | [] => None
  | (k', v) :: r => if key_eqb k k' then Some v else klookup k r
  end.

(* the sub-store below the member `n`, keys relative to it *)
Definition strip (n : string) (ks : kstore) : kstore :=
  flat_map (fun kv => match fst kv with
                      | h :: (_ :: _) as t => if String.eqb h n then [(t, snd kv)] else []
                      | _ => []
                      end) ks.
Definition prefix (n : string) (ks : kstore) : kstore := map (fun kv => (n :: fst kv, snd kv)) ks.
Definition maxlen (ks : kstore) : nat := fold_right (fun kv m => Nat.max (length (fst kv)) m) 0%nat ks.

(* ---------- small helpers ---------- *)
Definition obind {A B} (o : option A) (f : A -> option B) : option B :=
  match o with Some x => f x | None => None end.
Fixpoint omap {A B} (f : A -> option B) (l : list A) : option (list B) :=
  match l with
  | [] => Some []
  | x :: r => match f x with
              | Some y => match omap f r with Some ys => Some (y :: ys) | None => None end
              | None => None
              end
  end.
Fixpoint zipw {A B C} (f : A -> B -> C) (la : list A) (lb : list B) : list C :=
  match la, lb with
  | a :: ra, b :: rb => f a b :: zipw f ra rb
  | _, _ => []
  end.
Definition dec (n : nat) : string := NilEmpty.string_of_uint (Nat.to_uint n).
Fixpoint join (sep : string) (l : list string) : string :=
  match l with
  | [] => ""
  | [x] => x
  | x :: r => x ++ sep ++ join sep r
  end.

Definition jfield (k : string) (d : jv) : option jv :=
  match d with JObj kvs => Meta.jget k kvs | _ => None end.
Definition jnat (v : jv) : option nat :=
  match v with JInt z => if (0 <=? z)%Z then Some (Z.to_nat z) else None | _ => None end.
Definition jnats (v : jv) : option (list nat) :=
  match v with JList l => omap jnat l | _ => None end.
Definition jstr_is (s : string) (v : option jv) : bool :=
  match v with Some (JStr x) => String.eqb x s | _ => false end.
Definition is_fmt (z : Z) (d : jv) : bool :=
  match jfield "zarr_format" d with Some (JInt x) => Z.eqb x z | _ => false end.

(* ---------- dtype spellings ---------- *)
(* zarr format 2: numpy typestr; variable-length strings / bytes are object arrays with a vlen filter *)
Definition v2_table : list (string * dtype) :=
  [("b1", DBool); ("i1", DI8); ("i2", DI16); ("i4", DI32); ("i8", DI64);
   ("u1", DU8); ("u2", DU16); ("u4", DU32); ("u8", DU64); ("f2", DF16); ("f4", DF32); ("f8", DF64)].
Definition is_byteorder (c : ascii) : bool :=
  Ascii.eqb c "<" || Ascii.eqb c ">" || Ascii.eqb c "|" || Ascii.eqb c "=".
Definition has_filter (id : string) (filters : option jv) : bool :=
  match filters with
  | Some (JList l) => existsb (fun f => jstr_is id (jfield "id" f)) l
  | _ => false
  end.
(* dtype equality of the models is by numpy NAME: the byte-order character is read and dropped *)
Definition v2_dtype (s : string) (filters : option jv) : option dtype :=
  match s with
  | String c rest =>
      if is_byteorder c then
        match alookup rest v2_table with
        | Some d => Some d
        | None =>
            match rest with
            | String k more =>
                if Ascii.eqb k "O" && String.eqb more "" then
                  Some (if has_filter "vlen-utf8" filters then DStr
                        else if has_filter "vlen-bytes" filters then DBytes else DObj)
                else if Ascii.eqb k "U" then Some DStr        (* fixed-length unicode, any width *)
                else if Ascii.eqb k "S" then Some DBytes      (* fixed-length bytes, any width *)
                else None
            | EmptyString => None
            end
        end
      else None
  | EmptyString => None
  end.
Definition v2_dtype_str (d : dtype) : string :=
  match d with
  | DBool => "|b1" | DI8 => "|i1" | DI16 => "<i2" | DI32 => "<i4" | DI64 => "<i8"
  | DU8 => "|u1" | DU16 => "<u2" | DU32 => "<u4" | DU64 => "<u8"
  | DF16 => "<f2" | DF32 => "<f4" | DF64 => "<f8"
  | DStr | DBytes | DObj => "|O"
  end.
Definition v2_filters (d : dtype) : jv :=
  match d with
  | DStr => JList [JObj [("id", JStr "vlen-utf8")]]
  | DBytes => JList [JObj [("id", JStr "vlen-bytes")]]
  | _ => JNull
  end.

(* zarr format 3: data type names; parametrised types are objects {"name": ..., "configuration": ...} *)
Definition v3_table : list (string * dtype) :=
  [("bool", DBool); ("int8", DI8); ("int16", DI16); ("int32", DI32); ("int64", DI64);
   ("uint8", DU8); ("uint16", DU16); ("uint32", DU32); ("uint64", DU64);
   ("float16", DF16); ("float32", DF32); ("float64", DF64);
   ("string", DStr); ("variable_length_bytes", DBytes); ("bytes", DBytes);
   ("fixed_length_utf32", DStr); ("null_terminated_bytes", DBytes)].
Definition v3_dtype (v : jv) : option dtype :=
  match v with
  | JStr s => alookup s v3_table
  | JObj kvs => match Meta.jget "name" kvs with Some (JStr s) => alookup s v3_table | _ => None end
  | _ => None
  end.
Definition v3_dtype_name (d : dtype) : string :=
  match d with
  | DStr => "string" | DBytes => "variable_length_bytes" | DObj => "object"
  | _ => dtype_name d
  end.

(* the dtypes a store can hold (an untyped object array has no zarr data type) *)
Definition storable (d : dtype) : bool := negb (dtype_eqb d DObj).

(* ---------- fill values (the contents of a chunk that is not stored) ---------- *)
(* payload encoding of Dtype.v: integers and booleans as themselves, floats times 2^10; string payloads are opaque tokens, so a
   string fill value reaches this model already interned (JInt token); anything else (NaN, null = "no fill") is not decoded *)
Definition fill_of (dt : dtype) (v : option jv) : option Z :=
  match v with
  | Some (JInt z) => Some (if is_float dt then (z * fscale)%Z else z)
  | Some (JBool b) => Some (if b then 1%Z else 0%Z)
  | Some (JFlt (Meta.Fin z)) => if is_float dt then Some z else None
  | _ => None
  end.
Definition fill_doc (dt : dtype) : jv :=
  match dt with
  | DBool => JBool false
  | DF16 | DF32 | DF64 => JFlt (Meta.Fin 0)
  | DStr | DBytes | DObj => JStr ""
  | _ => JInt 0
  end.

(* ---------- array metadata ---------- *)
(* chunk key styles: zarr-2 style ("0.0", or "0/0" with dimension_separator "/"; "0" for a 0-d array) and the
   zarr-3 default encoding ("c/0/0", or "c.0.0"; "c" for a 0-d array) *)
Inductive kenc := EV2 (slash : bool) | EDef (slash : bool).
Record ameta := mkam { am_dt : dtype; am_shape : list nat; am_chunks : list nat; am_fill : option Z; am_enc : kenc }.

Definition chunk_key (e : kenc) (cidx : list nat) : key :=
  let ds := map dec cidx in
  match e with
  | EV2 false => [match ds with [] => "0" | _ => join "." ds end]
  | EV2 true => match ds with [] => ["0"] | _ => ds end
  | EDef true => "c" :: ds
  | EDef false => [join "." ("c" :: ds)]
  end.

Definition grid_ok (shape chunks : list nat) : bool :=
  Nat.eqb (length shape) (length chunks) && forallb (fun c => Nat.leb 1 c) chunks.

Definition sep_of (v : option jv) (dflt : bool) : option bool :=
  match v with
  | None => Some dflt
  | Some (JStr s) => if String.eqb s "/" then Some true else if String.eqb s "." then Some false else None
  | Some _ => None
  end.

(* .zarray (zarr format 2): shape, chunks, dtype (+ filters for object arrays), fill_value, order (C only),
   dimension_separator; compressor and the other filters belong to the chunk encoding *)
Definition parse_zarray (d : jv) : option ameta :=
  if is_fmt 2 d && jstr_is "C" (jfield "order" d) then
    obind (obind (jfield "shape" d) jnats) (fun sh =>
    obind (obind (jfield "chunks" d) jnats) (fun ck =>
    obind (match jfield "dtype" d with Some (JStr s) => v2_dtype s (jfield "filters" d) | _ => None end) (fun dt =>
    obind (sep_of (jfield "dimension_separator" d) false) (fun sl =>
    if grid_ok sh ck then Some (mkam dt sh ck (fill_of dt (jfield "fill_value" d)) (EV2 sl)) else None))))
  else None.

(* codecs are the chunk encoding, except the two that change which VALUES a chunk key holds *)
Definition codecs_ok (v : option jv) : bool :=
  match v with
  | Some (JList l) => forallb (fun c => negb (jstr_is "transpose" (jfield "name" c)) && negb (jstr_is "sharding_indexed" (jfield "name" c))) l
  | _ => false
  end.

(* zarr.json of an array (zarr format 3): shape, data_type, chunk_grid (regular only), chunk_key_encoding, fill_value *)
Definition parse_v3_array (d : jv) : option ameta :=
  if codecs_ok (jfield "codecs" d) then
    obind (obind (jfield "shape" d) jnats) (fun sh =>
    obind (obind (jfield "data_type" d) v3_dtype) (fun dt =>
    obind (jfield "chunk_grid" d) (fun cg =>
    if jstr_is "regular" (jfield "name" cg) then
      obind (obind (obind (jfield "configuration" cg) (jfield "chunk_shape")) jnats) (fun ck =>
      obind (jfield "chunk_key_encoding" d) (fun ce =>
      obind (if jstr_is "default" (jfield "name" ce)
             then option_map EDef (sep_of (obind (jfield "configuration" ce) (jfield "separator")) true)
             else if jstr_is "v2" (jfield "name" ce)
             then option_map EV2 (sep_of (obind (jfield "configuration" ce) (jfield "separator")) false)
             else None) (fun enc =>
      if grid_ok sh ck then Some (mkam dt sh ck (fill_of dt (jfield "fill_value" d)) enc) else None)))
    else None)))
  else None.

(* ---------- the contents of an array from its chunks ---------- *)
(* every multi-index below `shape`, in C order *)
Fixpoint all_idx (shape : list nat) : list (list nat) :=
  match shape with
  | [] => [[]]
  | n :: r => flat_map (fun i => map (cons i) (all_idx r)) (seq 0 n)
  end.
(* C-order offset of a multi-index *)
Fixpoint ravel (shape idx : list nat) : nat :=
  match shape, idx with
  | _ :: r, i :: ir => i * size r + ravel r ir
  | _, _ => 0
  end.
(* number of chunks along each dimension *)
Definition grid (shape chunks : list nat) : list nat := zipw (fun s c => (s + c - 1) / c) shape chunks.

(* a stored chunk holds exactly chunk_shape values; an absent chunk needs a decodable fill value *)
Definition chunk_ok (am : ameta) (ks : kstore) (cidx : list nat) : bool :=
  match klookup (chunk_key (am_enc am) cidx) ks with
  | Some (KChunk p) => Nat.eqb (length p) (size (am_chunks am))
  | Some (KDoc _) => false
  | None => match am_fill am with Some _ => true | None => false end
  end.
(* element idx lives in chunk idx/chunks at inner position idx mod chunks *)
Definition elem (am : ameta) (ks : kstore) (idx : list nat) : option Z :=
  match klookup (chunk_key (am_enc am) (zipw Nat.div idx (am_chunks am))) ks with
  | Some (KChunk p) => nth_error p (ravel (am_chunks am) (zipw Nat.modulo idx (am_chunks am)))
  | Some (KDoc _) => None
  | None => am_fill am
  end.
Definition array_flat (am : ameta) (ks : kstore) : option (list Z) :=
  if forallb (chunk_ok am ks) (all_idx (grid (am_shape am) (am_chunks am)))
  then omap (elem am ks) (all_idx (am_shape am))
  else None.

(* ---------- which keys make a node ---------- *)
Inductive ndoc := NDNone                                  (* no node here *)
                | NDBad                                   (* a node document outside the model / malformed *)
                | NDArray (am : ameta)
                | NDGroup (attrs : list (string * jv)).

Definition node_doc (f : fmt) (ks : kstore) : ndoc :=
  match f with
  | V2 =>
      (* an array is a key .zarray, a group is a key .zgroup; user attributes are the members of the .zattrs document *)
      match klookup [".zarray"] ks with
      | Some (KDoc d) => match parse_zarray d with Some am => NDArray am | None => NDBad end
      | Some (KChunk _) => NDBad
      | None =>
          match klookup [".zgroup"] ks with
          | Some (KDoc d) =>
              if is_fmt 2 d then
                match klookup [".zattrs"] ks with
                | None => NDGroup []
                | Some (KDoc (JObj kvs)) => NDGroup kvs
                | Some _ => NDBad
                end
              else NDBad
          | Some (KChunk _) => NDBad
          | None => NDNone
          end
      end
  | V3 =>
      (* one document zarr.json per node; node_type tells group from array; attributes live inside it *)
      match klookup ["zarr.json"] ks with
      | Some (KDoc d) =>
          if is_fmt 3 d then
            if jstr_is "group" (jfield "node_type" d) then
              match jfield "attributes" d with
              | None => NDGroup []
              | Some (JObj kvs) => NDGroup kvs
              | Some _ => NDBad
              end
            else if jstr_is "array" (jfield "node_type" d) then
              match parse_v3_array d with Some am => NDArray am | None => NDBad end
            else NDBad
          else NDBad
      | Some (KChunk _) => NDBad
      | None => NDNone
      end
  end.

(* the members of a group: the names below which a node document sits *)
Definition is_node_key (f : fmt) (d : string) : bool :=
  match f with
  | V2 => String.eqb d ".zarray" || String.eqb d ".zgroup"
  | V3 => String.eqb d "zarr.json"
  end.
Definition docheads (f : fmt) (ks : kstore) : list string :=
  flat_map (fun kv => match fst kv with
                      | [h; d] => if is_node_key f d then [h] else []
                      | _ => []
                      end) ks.
Fixpoint dedup (l : list string) : list string :=
  match l with
  | [] => []
  | x :: r => x :: filter (fun y => negb (String.eqb x y)) (dedup r)
  end.
Definition names (f : fmt) (ks : kstore) : list string := dedup (docheads f ks).

(* ---------- hierarchies with raw JSON attributes ---------- *)
Inductive jnode := JA (a : arr) | JG (attrs : list (string * jv)) (ch : list (string * jnode)).

(* g name: None = outside the model, Some None = no node there (skipped), Some (Some c) = member *)
Fixpoint collect (g : string -> option (option jnode)) (nms : list string) : option (list (string * jnode)) :=
  match nms with
  | [] => Some []
  | nm :: r =>
      match g nm with
      | None => None
      | Some None => collect g r
      | Some (Some c) => match collect g r with Some l => Some ((nm, c) :: l) | None => None end
      end
  end.

Fixpoint build (fuel : nat) (f : fmt) (ks : kstore) : option (option jnode) :=
  match fuel with
  | O => None
  | S n =>
      match node_doc f ks with
      | NDNone => Some None
      | NDBad => None
      | NDArray am =>
          match array_flat am ks with
          | Some fl => Some (Some (JA (mkarr (am_dt am) (am_shape am) fl)))
          | None => None
          end
      | NDGroup attrs =>
          match collect (fun nm => build n f (strip nm ks)) (names f ks) with
          | Some ch => Some (Some (JG attrs ch))
          | None => None
          end
      end
  end.

(* the hierarchy a store holds (None: no root node, or something outside the model) *)
Definition jtree_of_keys (f : fmt) (ks : kstore) : option jnode :=
  match build (S (maxlen ks)) f ks with
  | Some (Some t) => Some t
  | _ => None
  end.

(* ---------- the layout a conformant writer produces ---------- *)
Definition jnats_doc (l : list nat) : jv := JList (map (fun n => JInt (Z.of_nat n)) l).
(* one chunk holding the whole array (chunk extent 1 along a zero-length dimension, as zarr normalises it) *)
Definition whole_chunks (shape : list nat) : list nat := map (Nat.max 1) shape.
Definition zeros (shape : list nat) : list nat := map (fun _ => 0%nat) shape.
Definition has_zero (shape : list nat) : bool := existsb (Nat.eqb 0) shape.

Definition zarray_doc (a : arr) : jv :=
  JObj [("shape", jnats_doc (a_shape a)); ("chunks", jnats_doc (whole_chunks (a_shape a)));
        ("dtype", JStr (v2_dtype_str (a_dt a))); ("fill_value", fill_doc (a_dt a)); ("order", JStr "C");
        ("filters", v2_filters (a_dt a)); ("dimension_separator", JStr "."); ("compressor", JNull);
        ("zarr_format", JInt 2)].
Definition v3_codecs (d : dtype) : jv :=
  match d with
  | DStr => JList [JObj [("name", JStr "vlen-utf8"); ("configuration", JObj [])]]
  | DBytes => JList [JObj [("name", JStr "vlen-bytes"); ("configuration", JObj [])]]
  | _ => JList [JObj [("name", JStr "bytes"); ("configuration", JObj [("endian", JStr "little")])]]
  end.
Definition v3_array_doc (a : arr) : jv :=
  JObj [("shape", jnats_doc (a_shape a)); ("data_type", JStr (v3_dtype_name (a_dt a)));
        ("chunk_grid", JObj [("name", JStr "regular");
                             ("configuration", JObj [("chunk_shape", jnats_doc (whole_chunks (a_shape a)))])]);
        ("chunk_key_encoding", JObj [("name", JStr "default"); ("configuration", JObj [("separator", JStr "/")])]);
        ("fill_value", fill_doc (a_dt a)); ("codecs", v3_codecs (a_dt a)); ("attributes", JObj []);
        ("zarr_format", JInt 3); ("node_type", JStr "array"); ("storage_transformers", JList [])].

Definition array_enc (f : fmt) : kenc := match f with V2 => EV2 false | V3 => EDef true end.
Definition array_keys (f : fmt) (a : arr) : kstore :=
  (match f with
   | V2 => [([".zarray"], KDoc (zarray_doc a)); ([".zattrs"], KDoc (JObj []))]
   | V3 => [(["zarr.json"], KDoc (v3_array_doc a))]
   end)
  ++ (if has_zero (a_shape a) then [] else [(chunk_key (array_enc f) (zeros (a_shape a)), KChunk (a_flat a))]).
Definition group_docs (f : fmt) (attrs : list (string * jv)) : kstore :=
  match f with
  | V2 => [([".zgroup"], KDoc (JObj [("zarr_format", JInt 2)])); ([".zattrs"], KDoc (JObj attrs))]
  | V3 => [(["zarr.json"], KDoc (JObj [("attributes", JObj attrs); ("zarr_format", JInt 3); ("node_type", JStr "group")]))]
  end.

Fixpoint keys_of_jtree (f : fmt) (t : jnode) : kstore :=
  match t with
  | JA a => array_keys f a
  | JG attrs ch =>
      group_docs f attrs
      ++ (fix go (l : list (string * jnode)) : kstore :=
            match l with
            | [] => []
            | (n, c) :: r => prefix n (keys_of_jtree f c) ++ go r
            end) ch
  end.

(* well-formed hierarchies: arrays hold size(shape) values of a storable dtype, member names are distinct *)
Fixpoint nodupb (l : list string) : bool :=
  match l with [] => true | x :: r => negb (smem x r) && nodupb r end.
Fixpoint wf_jnode (t : jnode) : bool :=
  match t with
  | JA a => wf_arr a && storable (a_dt a)
  | JG _ ch =>
      nodupb (map fst ch)
      && (fix go (l : list (string * jnode)) : bool :=
            match l with [] => true | (_, c) :: r => wf_jnode c && go r end) ch
  end.
Fixpoint jheight (t : jnode) : nat :=
  match t with
  | JA _ => 0
  | JG _ ch => S ((fix go (l : list (string * jnode)) : nat :=
                     match l with [] => 0 | (_, c) :: r => Nat.max (jheight c) (go r) end) ch)
  end.

(* ---------- to and from the tree of Tree.v ---------- *)
(* A root key doc: the abstraction of one attribute (root = the attribute sits on the root group: only there is
   "geff" the metadata);  C root key v: a JSON document for an abstract attribute *)
Fixpoint abs_tree (A : bool -> string -> jv -> aval) (root : bool) (t : jnode) : znode :=
  match t with
  | JA a => ZA a
  | JG attrs ch =>
      ZG (map (fun kv => (fst kv, A root (fst kv) (snd kv))) attrs)
         ((fix go (l : list (string * jnode)) : list (string * znode) :=
             match l with [] => [] | (n, c) :: r => (n, abs_tree A false c) :: go r end) ch)
  end.
Fixpoint conc_tree (C : bool -> string -> aval -> jv) (root : bool) (t : znode) : jnode :=
  match t with
  | ZA a => JA a
  | ZG attrs ch =>
      JG (map (fun kv => (fst kv, C root (fst kv) (snd kv))) attrs)
         ((fix go (l : list (string * znode)) : list (string * jnode) :=
             match l with [] => [] | (n, c) :: r => (n, conc_tree C false c) :: go r end) ch)
  end.

Definition tree_of_keys (A : bool -> string -> jv -> aval) (f : fmt) (ks : kstore) : option znode :=
  option_map (abs_tree A true) (jtree_of_keys f ks).
Definition keys_of_tree (C : bool -> string -> aval -> jv) (f : fmt) (t : znode) : kstore :=
  keys_of_jtree f (conc_tree C true t).

Fixpoint wf_tree (t : znode) : bool :=
  match t with
  | ZA a => wf_arr a && storable (a_dt a)
  | ZG _ ch =>
      nodupb (map fst ch)
      && (fix go (l : list (string * znode)) : bool :=
            match l with [] => true | (_, c) :: r => wf_tree c && go r end) ch
  end.
(* C followed by A gives every attribute of the tree back *)
Fixpoint attrs_rt (A : bool -> string -> jv -> aval) (C : bool -> string -> aval -> jv) (root : bool) (t : znode) : Prop :=
  match t with
  | ZA _ => True
  | ZG attrs ch =>
      Forall (fun kv => A root (fst kv) (C root (fst kv) (snd kv)) = snd kv) attrs
      /\ (fix go (l : list (string * znode)) : Prop :=
            match l with [] => True | (_, c) :: r => attrs_rt A C false c /\ go r end) ch
  end.

(* ---------- the geff part of a store ---------- *)
(* what geff reads: the "geff" attribute of the root and the members nodes / edges *)
Definition jchild (t : jnode) (n : string) : option jnode :=
  match t with JG _ ch => alookup n ch | JA _ => None end.
Definition jattr (t : jnode) (k : string) : option jv :=
  match t with JG a _ => Meta.jget k a | JA _ => None end.
Definition geff_part (t : jnode) : option jv * option jnode * option jnode :=
  (jattr t "geff", jchild t "nodes", jchild t "edges").

(* the raw "geff" attribute of the root, straight from the keys *)
Definition root_attrs (f : fmt) (ks : kstore) : option (list (string * jv)) :=
  match node_doc f ks with NDGroup a => Some a | _ => None end.

(* ---------- keys as strings ---------- *)
(* a real store names a key by the "/"-joined string; the model works on the components.  split_slash is what the harness does
   to a raw key (str.split("/")); member names never contain "/" (zarr nests such a name into groups). *)
Definition key_string (k : key) : string := join "/" k.
Fixpoint split_slash (s : string) : list string :=
  match s with
  | EmptyString => [""]
  | String c r =>
      if Ascii.eqb c "/" then "" :: split_slash r
      else match split_slash r with
           | [] => [String c ""]
           | h :: t => String c h :: t
           end
  end.
Fixpoint slash_free (s : string) : bool :=
  match s with
  | EmptyString => true
  | String c r => negb (Ascii.eqb c "/") && slash_free r
  end.
(* every member name of the hierarchy is free of "/" *)
Fixpoint names_slash_free (t : jnode) : bool :=
  match t with
  | JA _ => true
  | JG _ ch => (fix go (l : list (string * jnode)) : bool :=
                  match l with [] => true | (n, c) :: r => slash_free n && names_slash_free c && go r end) ch
  end.
