(* DictsLemmas.v -- what dict_props_to_arr makes of one property column (Dicts.v), proved for every
   column whose values -- together with the fill value where an element lacks the property -- numpy
   types alike: the stored array has the element type of the values, every present value is stored
   unchanged, and the missing mask flags exactly the elements that lack the property. *)
From Geff Require Import Base Dtype DtypeLemmas Vlen VlenLemmas Tree TreeLemmas Validate Write Read RoundTrip WriteLemmas ReadLemmas ValidateLayout C01Lemmas
     Dicts Backends BackendsLemmas.
From Coq Require Import Lia.
Open Scope string_scope.
Open Scope list_scope.

(* ---------- the canonical value of a Python value ---------- *)
Definition sk_of_py (v : pyval) : option sk :=
  match v with
  | PBool _ => Some SBool
  | PInt _ => Some SInt
  | PFloat _ => Some SFloat
  | PStr _ => Some SStr
  | PList _ => None
  end.

Definition cv_scalar (v : pyval) : option cval :=
  match sk_of_py v with Some k => Some (CScalar k (scalar_payload v)) | None => None end.

(* ---------- scalar columns ---------- *)
(* the dtype every filled value has, when they all have the same one (and it is not object) *)
Definition same_dt (d : dtype) (v : pyval) : bool := negb (is_plist v) && dtype_eqb (scalar_dt v) d.
Definition col_dt (col : list (option pyval)) : option dtype :=
  match filled col with
  | [] => Some DF64
  | v :: r =>
      let d := scalar_dt v in
      if same_dt d v && forallb (same_dt d) r && negb (dtype_eqb d DObj) then Some d else None
  end.

Lemma same_dt_spec d v : same_dt d v = true -> is_plist v = false /\ scalar_dt v = d.
Proof. unfold same_dt. intro H. apply andb_true_iff in H. destruct H as [H1 H2].
  apply negb_true_iff in H1. apply dtype_eqb_eq in H2. auto. Qed.

Lemma col_dt_all col d : col_dt col = Some d -> filled col <> [] ->
  Forall (fun v => is_plist v = false /\ scalar_dt v = d) (filled col) /\ d <> DObj.
Proof.
  unfold col_dt. destruct (filled col) as [|v r]; [intros _ H; contradiction|]. intros H _.
  destruct (same_dt (scalar_dt v) v && forallb (same_dt (scalar_dt v)) r && negb (dtype_eqb (scalar_dt v) DObj)) eqn:E; [|discriminate].
  inversion H; subst d. apply andb_true_iff in E. destruct E as [E E3]. apply andb_true_iff in E. destruct E as [E1 E2].
  split.
  - constructor; [apply same_dt_spec; exact E1|]. apply Forall_forall. intros y Hy.
    apply same_dt_spec. eapply forallb_forall in E2; eauto.
  - intro Hc. rewrite Hc in E3. discriminate.
Qed.

(* a scalar dtype numpy discovers is one of five *)
Lemma scalar_dt_cases v : is_plist v = false ->
  scalar_dt v = DBool \/ scalar_dt v = DI64 \/ scalar_dt v = DU64 \/ scalar_dt v = DObj \/ scalar_dt v = DF64 \/ scalar_dt v = DStr.
Proof. destruct v; cbn [scalar_dt is_plist]; intro H; try discriminate;
    repeat match goal with |- context [if ?c then _ else _] => destruct c end;
    solve [repeat (first [reflexivity | left; reflexivity | right])]. Qed.

Lemma sjoin_idem d : d = DBool \/ d = DI64 \/ d = DU64 \/ d = DF64 \/ d = DStr -> sjoin d d = Some d.
Proof. intros [->|[->|[->|[->| ->]]]]; reflexivity. Qed.

Lemma py_shape_scalars vals : Forall (fun v => is_plist v = false) vals ->
  py_shape (PList vals) = Some [length vals].
Proof.
  intros H. cbn [py_shape]. destruct vals as [|v r]; [reflexivity|].
  apply Forall_cons_iff in H. destruct H as [Hv Hr].
  assert (Hs : forall y, is_plist y = false -> py_shape y = Some []) by (intros [] Hy; cbn in *; try reflexivity; discriminate).
  cbn [map common_shape]. rewrite (Hs v Hv).
  assert (Hall : forallb (fun o : option (list nat) => match o with Some s' => natlist_eqb [] s' | None => false end) (map py_shape r) = true).
  { apply forallb_forall. intros o Ho. apply in_map_iff in Ho. destruct Ho as [y [<- Hy]].
    rewrite (Hs y); [reflexivity|]. eapply Forall_forall in Hr; eauto. }
  rewrite Hall. cbn [length]. rewrite map_length. reflexivity.
Qed.

Lemma py_leaves_scalars vals : Forall (fun v => is_plist v = false) vals -> py_leaves (PList vals) = vals.
Proof. intros H. cbn [py_leaves]. induction vals as [|v r IH]; [reflexivity|].
  apply Forall_cons_iff in H. destruct H as [Hv Hr]. cbn [flat_map]. rewrite IH by exact Hr.
  destruct v; cbn in *; try reflexivity; discriminate. Qed.

Lemma leaves_dt_same d vals : vals <> [] -> d <> DObj ->
  Forall (fun v => is_plist v = false /\ scalar_dt v = d) vals -> leaves_dt vals = Some d.
Proof.
  intros Hne Hd H. destruct vals as [|v r]; [contradiction|]. apply Forall_cons_iff in H. destruct H as [[Hv Hdv] Hr].
  assert (Hok : d = DBool \/ d = DI64 \/ d = DU64 \/ d = DF64 \/ d = DStr).
  { pose proof (scalar_dt_cases v Hv) as Hc. rewrite Hdv in Hc. destruct Hc as [H|[H|[H|[H|[H|H]]]]]; auto. contradiction. }
  unfold leaves_dt. rewrite Hdv.
  assert (Hfold : fold_left (fun acc y => match acc with Some a => sjoin a (scalar_dt y) | None => None end) r (Some d) = Some d).
  { clear Hv Hdv Hne. induction r as [|y r IH]; [reflexivity|]. apply Forall_cons_iff in Hr. destruct Hr as [[_ Hy] Hr].
    cbn [fold_left]. rewrite Hy, (sjoin_idem d Hok). apply IH. exact Hr. }
  rewrite Hfold. destruct d; try reflexivity. contradiction.
Qed.

Lemma cast_payload_same d z : cast_payload d d z = z.
Proof. unfold cast_payload. destruct (is_float d); reflexivity. Qed.

Lemma asarray_scalars d vals : vals <> [] -> d <> DObj ->
  Forall (fun v => is_plist v = false /\ scalar_dt v = d) vals ->
  asarray vals = AFixed (mkarr d [length vals] (map scalar_payload vals)).
Proof.
  intros Hne Hd H.
  assert (Hs : Forall (fun v => is_plist v = false) vals) by (eapply Forall_impl; [|exact H]; cbn; tauto).
  unfold asarray. rewrite (py_shape_scalars vals Hs), (py_leaves_scalars vals Hs), (leaves_dt_same d vals Hne Hd H).
  f_equal. f_equal. apply map_ext_in. intros v Hv. eapply Forall_forall in H; eauto. destruct H as [_ Hdv].
  unfold cast_leaf. rewrite Hdv. apply cast_payload_same.
Qed.

(* ---------- reading one element back ---------- *)
Lemma chunks1_nth {A} (d : A) : forall n l i, n = length l -> i < n -> nth i (chunks 1 n l) [] = [nth i l d].
Proof. induction n as [|n IH]; intros l i Hn Hi; [lia|].
  destruct l as [|x l]; [discriminate|]. cbn [chunks firstn skipn]. destruct i as [|i]; [reflexivity|].
  cbn [nth]. apply IH; cbn in Hn; lia. Qed.

Lemma row_cval_1d d k flat i : sk_of d = Some k -> i < length flat ->
  row_cval (mkarr d [length flat] flat) i = Ok (CScalar k (nth i flat 0%Z)).
Proof. intros Hk Hi. unfold row_cval. cbn [a_shape a_dt a_flat]. apply Nat.ltb_lt in Hi. rewrite Hi, Hk.
  apply Nat.ltb_lt in Hi. cbn [size fold_right]. rewrite (chunks1_nth 0%Z) by (auto; lia). reflexivity. Qed.

Lemma filled_length col : length (filled col) = length col.
Proof. unfold filled. apply map_length. Qed.

Lemma filled_nth_some col i v : nth_error col i = Some (Some v) -> nth_error (filled col) i = Some v.
Proof. intro H. unfold filled. rewrite nth_error_map, H. reflexivity. Qed.

(* the missing mask flags exactly the elements without the property *)
Lemma missing_arr_spec col i : i < length col ->
  elem_missing (mkprop (PFixed (mkarr DBool [0%nat] [])) (missing_arr col)) i = Ok (is_none (nth i col None)).
Proof.
  intros Hi. unfold elem_missing, missing_arr. cbn [p_missing].
  destruct (existsb is_none col) eqn:E.
  - cbn [a_flat]. rewrite nth_error_map.
    rewrite (nth_error_nth' col None Hi). cbn [option_map]. destruct (nth i col None); reflexivity.
  - f_equal. destruct (nth i col None) eqn:En; [reflexivity|]. exfalso.
    assert (existsb is_none col = true).
    { apply existsb_exists. exists None. split; [rewrite <- En; apply nth_In; exact Hi | reflexivity]. }
    congruence.
Qed.

Lemma elem_missing_ext v v' m i : elem_missing (mkprop v m) i = elem_missing (mkprop v' m) i.
Proof. reflexivity. Qed.

Lemma missing_arr_len col : match missing_arr col with Some m => length (a_flat m) = length col /\ a_dt m = DBool /\ a_shape m = [length col] | None => True end.
Proof. unfold missing_arr. destruct (existsb is_none col); [|exact I]. cbn. rewrite map_length. auto. Qed.

(* ---------- what a column has to deliver (used by the round-trip theorems) ---------- *)
Record good_col (cvf : pyval -> option cval) (col : list (option pyval)) (p : prop) : Prop := {
  gc_total : forall i, i < length col -> exists v, elem_val p i = Ok v;
  gc_missing : forall i, i < length col -> elem_missing p i = Ok (is_none (nth i col None));
  gc_value : forall i v, nth_error col i = Some (Some v) -> exists c, cvf v = Some c /\ elem_val p i = Ok c;
  gc_wf : wf_prop (length col) p;
  gc_upcast : upcast_prop p = p;
  gc_enc : forall name, name <> "" -> encodable (name, p);
  gc_fit : plen p = Some (length col) /\ match p_missing p with Some m => length (a_flat m) = length col | None => True end
}.

Lemma valid_scalar_dt d : d = DBool \/ d = DI64 \/ d = DU64 \/ d = DF64 \/ d = DStr -> valid_prop_dtype d = true.
Proof. intros [->|[->|[->|[->| ->]]]]; vm_compute; reflexivity. Qed.
Lemma sk_scalar_dt v : is_plist v = false -> scalar_dt v <> DObj -> sk_of (scalar_dt v) = sk_of_py v.
Proof. destruct v; cbn [scalar_dt is_plist sk_of_py]; intros H Hd; try discriminate; try reflexivity.
  repeat match goal with |- context [if ?c then _ else _] => destruct c end; try reflexivity.
  repeat match goal with H : context [if ?c then _ else _] |- _ => destruct c end; contradiction. Qed.

Theorem scalar_column col d : col_dt col = Some d -> col <> [] ->
  exists p, dict_prop col = Ok p /\ good_col cv_scalar col p /\
            p_vals p = PFixed (mkarr d [length col] (map scalar_payload (filled col))).
Proof.
  intros Hd Hne.
  assert (Hfne : filled col <> []) by (intro E; apply Hne; apply length_zero_iff_nil; rewrite <- filled_length, E; reflexivity).
  destruct (col_dt_all col d Hd Hfne) as [Hall HdO].
  assert (Hok : d = DBool \/ d = DI64 \/ d = DU64 \/ d = DF64 \/ d = DStr).
  { destruct (filled col) as [|v r] eqn:Ef; [contradiction|]. apply Forall_cons_iff in Hall. destruct Hall as [[Hv Hdv] _].
    pose proof (scalar_dt_cases v Hv) as Hc. rewrite Hdv in Hc. destruct Hc as [H|[H|[H|[H|[H|H]]]]]; auto. contradiction. }
  assert (Hk : exists k, sk_of d = Some k) by (destruct Hok as [->|[->|[->|[->| ->]]]]; eexists; reflexivity).
  destruct Hk as [k Hk].
  set (a := mkarr d [length col] (map scalar_payload (filled col))).
  exists (mkprop (PFixed a) (missing_arr col)). split; [|split; [|reflexivity]].
  - unfold dict_prop. rewrite (asarray_scalars d (filled col) Hfne HdO Hall). rewrite filled_length. reflexivity.
  - assert (Hlen : length (map scalar_payload (filled col)) = length col) by (rewrite map_length; apply filled_length).
    assert (Hrow : forall i, i < length col -> elem_val (mkprop (PFixed a) (missing_arr col)) i
                                               = Ok (CScalar k (nth i (map scalar_payload (filled col)) 0%Z))).
    { intros i Hi. unfold elem_val. cbn [p_vals]. unfold a. rewrite <- Hlen at 1. apply row_cval_1d; [exact Hk | rewrite Hlen; exact Hi]. }
    constructor.
    + intros i Hi. eexists. apply Hrow. exact Hi.
    + intros i Hi. rewrite (elem_missing_ext _ (PFixed (mkarr DBool [0%nat] []))). apply missing_arr_spec. exact Hi.
    + intros i v Hv. assert (Hi : i < length col) by (apply nth_error_Some; rewrite Hv; discriminate).
      pose proof (filled_nth_some col i v Hv) as Hf.
      assert (Hin : In v (filled col)) by (eapply nth_error_In; eauto).
      eapply Forall_forall in Hall; eauto. destruct Hall as [Hpl Hdv].
      assert (Hsk : sk_of_py v = Some k) by (rewrite <- (sk_scalar_dt v Hpl), Hdv; [exact Hk | rewrite Hdv; exact HdO]).
      exists (CScalar k (scalar_payload v)). split; [unfold cv_scalar; rewrite Hsk; reflexivity|].
      rewrite (Hrow i Hi). f_equal. f_equal.
      rewrite (nth_map_d scalar_payload _ i (PInt 0) 0%Z) by (rewrite filled_length; exact Hi).
      f_equal. apply nth_error_nth. exact Hf.
    + split; cbn [p_vals p_missing].
      * exists []. reflexivity.
      * pose proof (missing_arr_len col) as Hm. destruct (missing_arr col); cbn; tauto.
    + unfold upcast_prop, upcast_arr, a. cbn [p_vals p_missing a_dt]. destruct Hok as [->|[->|[->|[->| ->]]]]; reflexivity.
    + intros name Hname. unfold encodable. cbn [fst snd]. unfold create_props_metadata, vlen_dtypes_uniform, cpm_core, encode_prop, upcast_prop, upcast_arr, a.
      cbn [p_vals p_missing a_dt].
      assert (Hf16 : dtype_eqb d DF16 = false) by (destruct Hok as [->|[->|[->|[->| ->]]]]; reflexivity).
      rewrite Hf16. cbn [p_vals a_dt]. rewrite (valid_scalar_dt d Hok).
      destruct (String.eqb name "") eqn:E; [apply String.eqb_eq in E; contradiction|]. cbn. eexists. eexists. split; reflexivity.
    + split; [reflexivity|]. cbn [p_missing]. pose proof (missing_arr_len col) as Hm. destruct (missing_arr col); tauto.
Qed.

(* ---------- the attribute dict of one element, by lookup ---------- *)
Definition pval (ps : props) (name : string) (i : nat) : option cval :=
  match alookup name ps with
  | Some p => match elem_val p i, elem_missing p i with
              | Ok v, Ok false => Some v
              | _, _ => None
              end
  | None => None
  end.

Lemma attrs_fold_spec i : forall ps acc,
  NoDup (akeys ps) ->
  (forall kv, In kv ps -> exists v ig, elem_val (snd kv) i = Ok v /\ elem_missing (snd kv) i = Ok ig) ->
  exists a, foldM (fun acc kv => upd_attrs (fst kv) (snd kv) i acc) ps acc = Ok a /\
            forall name, alookup name a = match alookup name ps with
                                          | Some p => match elem_val p i, elem_missing p i with
                                                      | Ok v, Ok false => Some v
                                                      | _, _ => alookup name acc
                                                      end
                                          | None => alookup name acc
                                          end.
Proof.
  induction ps as [|[name0 p0] ps IH]; intros acc Hnd Htot.
  - exists acc. split; [reflexivity|]. intros name. reflexivity.
  - cbn [akeys map fst] in Hnd. apply NoDup_cons_iff in Hnd. destruct Hnd as [Hnotin Hnd].
    destruct (Htot (name0, p0) (or_introl eq_refl)) as [v [ig [Hv Hig]]]. cbn [snd] in Hv, Hig.
    cbn [foldM fst snd]. unfold upd_attrs at 1. rewrite Hv, Hig.
    destruct (IH (if ig then acc else aset name0 v acc) Hnd) as [a [Ha Hspec]].
    { intros kv Hin. apply Htot. right. exact Hin. }
    exists a. split; [exact Ha|]. intros name. rewrite Hspec. cbn [alookup].
    destruct (String.eqb name name0) eqn:E.
    + apply String.eqb_eq in E. subst name0.
      assert (Hn : alookup name ps = None) by (apply alookup_none_notin; exact Hnotin).
      rewrite Hn, Hv, Hig. destruct ig; [reflexivity | apply alookup_aset_same].
    + assert (Hne : name <> name0) by (intro Hc; subst; rewrite String.eqb_refl in E; discriminate).
      assert (Hacc : alookup name (if ig then acc else aset name0 v acc) = alookup name acc).
      { destruct ig; [reflexivity | apply alookup_aset_other; exact Hne]. }
      rewrite Hacc. reflexivity.
Qed.

Lemma attrs_at_spec ps i : NoDup (akeys ps) ->
  (forall kv, In kv ps -> exists v ig, elem_val (snd kv) i = Ok v /\ elem_missing (snd kv) i = Ok ig) ->
  exists a, attrs_at ps i = Ok a /\ forall name, alookup name a = pval ps name i.
Proof.
  intros Hnd Htot. rewrite attrs_at_foldM. destruct (attrs_fold_spec i ps [] Hnd Htot) as [a [Ha Hs]].
  exists a. split; [exact Ha|]. intros name. rewrite Hs. unfold pval.
  destruct (alookup name ps) as [p|]; [|reflexivity].
  destruct (elem_val p i); [|reflexivity]. destruct (elem_missing p i) as [[|]|]; reflexivity.
Qed.

(* ---------- mapM over names: the property dict handed to write_arrays ---------- *)
Lemma mapM_exists {A B} (f : A -> res B) (P : A -> B -> Prop) l :
  Forall (fun x => exists y, f x = Ok y /\ P x y) l -> exists ys, mapM f l = Ok ys /\ Forall2 P l ys.
Proof. induction l as [|x l IH]; intro H.
  - exists []. split; [reflexivity | constructor].
  - apply Forall_cons_iff in H. destruct H as [[y [Hy Py]] Hl]. destruct (IH Hl) as [ys [Hys HF]].
    exists (y :: ys). split; [cbn; rewrite Hy, Hys; reflexivity | constructor; assumption]. Qed.

(* every collected name names a column that dict_props_to_arr turns into a faithful property *)
Definition cols_ok (cvf : pyval -> option cval) (data : list attrs) (names : list string) : Prop :=
  Forall (fun name => name <> "" /\ exists p, dict_prop (column data name) = Ok p /\ good_col cvf (column data name) p) names.

Lemma dict_props_ok cvf data names : cols_ok cvf data names ->
  exists ps, dict_props_to_arr data names = Ok ps /\ akeys ps = names /\
             Forall (fun kv => fst kv <> "" /\ good_col cvf (column data (fst kv)) (snd kv)) ps.
Proof.
  intros H. unfold dict_props_to_arr.
  destruct (mapM_exists (fun name => match dict_prop (column data name) with Ok p => Ok (name, p) | Err e => Err e end)
                        (fun name kv => fst kv = name /\ name <> "" /\ good_col cvf (column data name) (snd kv)) names) as [ps [Hps HF]].
  { eapply Forall_impl; [|exact H]. cbn. intros name [Hne [p [Hp Hg]]]. exists (name, p). rewrite Hp. auto. }
  exists ps. split; [exact Hps|]. clear H. split.
  - clear Hps. induction HF as [|name kv l l' [Hk _] _ IH]; [reflexivity|]. cbn. rewrite Hk. f_equal. exact IH.
  - clear Hps. induction HF as [|name kv l l' [Hk [Hne Hg]] _ IH]; constructor; [|exact IH]. rewrite Hk. auto.
Qed.

(* ---------- keys_of collects every key, once ---------- *)
Lemma dedup_in l x : In x (dedup l) <-> In x l.
Proof. induction l as [|y l IH]; [reflexivity|]. cbn [dedup]. split.
  - intros [->|H]; [left; reflexivity|]. apply filter_In in H. right. apply IH. tauto.
  - intros [->|H]; [left; reflexivity|]. destruct (String.eqb y x) eqn:E.
    + apply String.eqb_eq in E. left. exact E.
    + right. apply filter_In. split; [apply IH; exact H | rewrite E; reflexivity]. Qed.

Lemma NoDup_filter' {A} (f : A -> bool) l : NoDup l -> NoDup (filter f l).
Proof. induction 1 as [|x l Hx Hl IH]; cbn; [constructor|]. destruct (f x); [|exact IH].
  constructor; [|exact IH]. intro Hc. apply filter_In in Hc. tauto. Qed.

Lemma dedup_nodup l : NoDup (dedup l).
Proof. induction l as [|y l IH]; cbn [dedup]; constructor.
  - intro H. apply filter_In in H. destruct H as [_ H]. rewrite String.eqb_refl in H. discriminate.
  - apply NoDup_filter'. exact IH. Qed.

Lemma keys_of_nodup data : NoDup (keys_of data). Proof. apply dedup_nodup. Qed.

Lemma keys_of_complete (data : list attrs) d name v : In d data -> alookup name d = Some v -> In name (keys_of data).
Proof. intros Hd Hl. unfold keys_of. apply dedup_in. apply in_flat_map. exists d. split; [exact Hd|].
  apply alookup_some_in in Hl. apply in_map_iff. exists (name, v). split; [reflexivity | exact Hl]. Qed.

Lemma column_nth data name i : i < length data -> nth i (column data name) None = alookup name (nth i data []).
Proof. intro H. unfold column. apply (nth_map_d (fun d => alookup name d) data i [] None H). Qed.
Lemma column_length data name : length (column data name) = length data.
Proof. apply map_length. Qed.

(* ---------- the per-element view of the stored properties, in terms of the input dicts ---------- *)
Definition cv_lookup (cvf : pyval -> option cval) (d : attrs) (name : string) : option cval :=
  match alookup name d with Some v => cvf v | None => None end.

Lemma pval_of_columns cvf data ps i name : i < length data ->
  NoDup (akeys ps) -> akeys ps = keys_of data ->
  Forall (fun kv => fst kv <> "" /\ good_col cvf (column data (fst kv)) (snd kv)) ps ->
  pval ps name i = cv_lookup cvf (nth i data []) name.
Proof.
  intros Hi Hnd Hkeys Hgood. unfold pval, cv_lookup.
  destruct (alookup name ps) as [p|] eqn:Ep.
  - apply alookup_some_in in Ep. eapply Forall_forall in Hgood; eauto. cbn [fst snd] in Hgood. destruct Hgood as [_ Hg].
    assert (Hic : i < length (column data name)) by (rewrite column_length; exact Hi).
    rewrite (gc_missing _ _ _ Hg i Hic), column_nth by exact Hi.
    destruct (alookup name (nth i data [])) as [v|] eqn:El.
    + assert (Hne : nth_error (column data name) i = Some (Some v)).
      { rewrite (nth_error_nth' _ None Hic), column_nth by exact Hi. rewrite El. reflexivity. }
      destruct (gc_value _ _ _ Hg i v Hne) as [c [Hc Hv]]. rewrite Hv, Hc. reflexivity.
    + destruct (gc_total _ _ _ Hg i Hic) as [v Hv]. rewrite Hv. reflexivity.
  - destruct (alookup name (nth i data [])) as [v|] eqn:El; [|reflexivity]. exfalso.
    apply alookup_none_notin in Ep. apply Ep. rewrite Hkeys.
    eapply keys_of_complete; [apply nth_In; exact Hi | exact El].
Qed.

(* ================= write_dicts ; write_arrays ; read_to_memory ================= *)
Record dom_dicts (cvf : pyval -> option cval) (d : bool) (g : dgraph) : Prop := {
  dd_range : Forall (fun z => (0 <= z < 2 ^ 64)%Z) (map fst (d_nodes g));
  dd_distinct : distinctb Z.eqb (map fst (d_nodes g)) = true;
  dd_edistinct : distinctb (ekey_eqb d) (map fst (d_edges g)) = true;
  dd_endpoints : forall e, In e (map fst (d_edges g)) -> In (fst e) (map fst (d_nodes g)) /\ In (snd e) (map fst (d_nodes g));
  dd_ncols : cols_ok cvf (map snd (d_nodes g)) (keys_of (map snd (d_nodes g)));
  dd_ecols : cols_ok cvf (map snd (d_edges g)) (keys_of (map snd (d_edges g)))
}.

Lemma node_ids_arr_ok ids : Forall (fun z => (0 <= z < 2 ^ 64)%Z) ids -> node_ids_arr ids = Ok (mkarr DU64 [length ids] ids).
Proof. intro H. unfold node_ids_arr.
  rewrite existsb_false_all by (intros z Hz; eapply Forall_forall in H; eauto; apply Z.ltb_ge; lia).
  rewrite existsb_false_all by (intros z Hz; eapply Forall_forall in H; eauto; apply Z.leb_gt; lia). reflexivity. Qed.

Lemma flat_pairs_in es z : In z (flat_pairs es) -> exists e, In e es /\ (z = fst e \/ z = snd e).
Proof. unfold flat_pairs. intro H. apply in_flat_map in H. destruct H as [e [He Hz]]. exists e. split; [exact He|].
  cbn in Hz. destruct Hz as [<-|[<-|[]]]; auto. Qed.

Lemma edge_ids_arr_ok ids es : Forall (fun z => (0 <= z < 2 ^ 64)%Z) ids ->
  (forall e, In e es -> In (fst e) ids /\ In (snd e) ids) ->
  edge_ids_arr es = Ok (mkarr DU64 [length es; 2%nat] (flat_pairs es)).
Proof. intros Hr He. unfold edge_ids_arr. rewrite existsb_false_all; [reflexivity|].
  intros z Hz. destruct (flat_pairs_in es z Hz) as [e [Hin Hze]]. destruct (He e Hin) as [Hu Hv].
  assert (Hzin : In z ids) by (destruct Hze as [->| ->]; assumption).
  eapply Forall_forall in Hr; eauto. apply orb_false_iff. split; [apply Z.ltb_ge | apply Z.leb_gt]; lia. Qed.

Lemma pairs_of_flat_pairs es : pairs_of (flat_pairs es) = es.
Proof. induction es as [|[u v] es IH]; [reflexivity|]. unfold flat_pairs in *. cbn [flat_map app fst snd pairs_of].
  rewrite IH. reflexivity. Qed.

Lemma Forall2_nth {A B} (P : A -> B -> Prop) l l' : Forall2 P l l' ->
  length l = length l' /\ forall i da db, i < length l -> P (nth i l da) (nth i l' db).
Proof. induction 1 as [|x y l l' Hxy HF [IHl IH]].
  - split; [reflexivity|]. intros i da db Hi. cbn in Hi. lia.
  - split; [cbn; rewrite IHl; reflexivity|]. intros [|i] da db Hi; [exact Hxy|]. cbn in Hi. apply IH. lia. Qed.

(* the canonical view of a geff whose properties are total on every element, by lookup *)
Lemma canon_table_exists {K} (ps : props) (keys : list K) (dk : K) : NoDup (akeys ps) ->
  (forall i, i < length keys -> forall kv, In kv ps -> exists v ig, elem_val (snd kv) i = Ok v /\ elem_missing (snd kv) i = Ok ig) ->
  exists tbl, mapM (fun ii : nat * K => match attrs_at ps (fst ii) with Ok a => Ok (snd ii, a) | Err e => Err e end)
                   (combine (seq 0 (length keys)) keys) = Ok tbl /\
              map fst tbl = keys /\
              forall i name, i < length keys -> alookup name (snd (nth i tbl (dk, []))) = pval ps name i.
Proof.
  intros Hnd Htot.
  destruct (mapM_exists (fun ii : nat * K => match attrs_at ps (fst ii) with Ok a => Ok (snd ii, a) | Err e => Err e end)
              (fun ii y => fst y = snd ii /\ forall name, alookup name (snd y) = pval ps name (fst ii))
              (combine (seq 0 (length keys)) keys)) as [tbl [Htbl HF]].
  { apply Forall_forall. intros [i key] Hin.
    destruct (in_combine_nth _ _ _ 0%nat dk Hin) as [j [Hj1 [Hj2 Heq]]]. rewrite seq_length in Hj1.
    rewrite seq_nth in Heq by exact Hj1. cbn [Nat.add] in Heq. injection Heq as -> ->. cbn [fst snd].
    destruct (attrs_at_spec ps j Hnd (Htot j Hj2)) as [a [Ha Hs]]. rewrite Ha. eexists. split; [reflexivity|]. cbn. auto. }
  exists tbl. split; [exact Htbl|]. destruct (Forall2_nth _ _ _ HF) as [Hlen Hnth].
  rewrite combine_length, seq_length, Nat.min_id in Hlen. split.
  - apply (nth_ext _ _ dk dk); [rewrite map_length; lia|]. intros i Hi. rewrite map_length in Hi.
    rewrite (nth_map_d fst tbl i (dk, []) dk) by exact Hi.
    assert (Hi' : i < length (combine (seq 0 (length keys)) keys)) by (rewrite combine_length, seq_length, Nat.min_id; lia).
    destruct (Hnth i (0%nat, dk) (dk, []) Hi') as [Hf _]. rewrite Hf.
    rewrite combine_nth by (rewrite seq_length; reflexivity). reflexivity.
  - intros i name Hi.
    assert (Hi' : i < length (combine (seq 0 (length keys)) keys)) by (rewrite combine_length, seq_length, Nat.min_id; lia).
    destruct (Hnth i (0%nat, dk) (dk, []) Hi') as [_ Hs]. rewrite Hs.
    rewrite combine_nth by (rewrite seq_length; reflexivity). cbn [fst]. rewrite seq_nth by exact Hi. reflexivity.
Qed.

Lemma good_total cvf data ps n : length data = n ->
  Forall (fun kv : string * prop => fst kv <> "" /\ good_col cvf (column data (fst kv)) (snd kv)) ps ->
  forall i, i < n -> forall kv, In kv ps -> exists v ig, elem_val (snd kv) i = Ok v /\ elem_missing (snd kv) i = Ok ig.
Proof. intros Hn HF i Hi kv Hin. eapply Forall_forall in HF; eauto. destruct HF as [_ Hg].
  assert (Hic : i < length (column data (fst kv))) by (rewrite column_length; lia).
  destruct (gc_total _ _ _ Hg i Hic) as [v Hv]. exists v. eexists. split; [exact Hv | apply (gc_missing _ _ _ Hg i Hic)]. Qed.

Lemma good_wf_props cvf data ps n : length data = n -> NoDup (akeys ps) ->
  Forall (fun kv : string * prop => fst kv <> "" /\ good_col cvf (column data (fst kv)) (snd kv)) ps ->
  wf_props n (Some ps) /\ props_fit n ps /\ up_props (Some ps) = ps.
Proof.
  intros Hn Hnd HF. split; [|split].
  - intros ps' Hps. inversion Hps; subst ps'. split; [exact Hnd|]. eapply Forall_impl; [|exact HF]. cbn.
    intros [name p] [Hne Hg]. cbn [fst snd] in *. split.
    + apply (gc_enc _ _ _ Hg name Hne).
    + pose proof (gc_wf _ _ _ Hg) as Hw. rewrite column_length, Hn in Hw. exact Hw.
  - eapply Forall_impl; [|exact HF]. cbn. intros [name p] [_ Hg]. cbn [fst snd] in *.
    pose proof (gc_fit _ _ _ Hg) as Hf. rewrite column_length, Hn in Hf. exact Hf.
  - unfold up_props. rewrite <- (map_id ps) at 2. apply map_ext_in. intros [name p] Hin.
    eapply Forall_forall in HF; eauto. destruct HF as [_ Hg]. cbn [fst snd] in *. rewrite (gc_upcast _ _ _ Hg). reflexivity.
Qed.

Theorem dicts_roundtrip cvf k d g mdtok : dom_dicts cvf d g ->
  let md := mkmd d None [] [] mdtok in
  let ids := map fst (d_nodes g) in
  let es := map fst (d_edges g) in
  exists tr post mg cg,
    write_dicts k g (keys_of (map snd (d_nodes g))) (keys_of (map snd (d_edges g))) md (init None) = (mkst (Some post) tr, Ok tt) /\
    validate_structure k (Some post) = Ok tt /\
    read_to_memory k (Some post) true None None = Ok mg /\
    wf_geff mg ids es /\ md_directed (g_md mg) = d /\
    props_fit (length ids) (g_nprops mg) /\ props_fit (length es) (g_eprops mg) /\
    canon_geff mg = Ok cg /\
    cg_directed cg = d /\ map fst (cg_nodes cg) = ids /\ map fst (cg_edges cg) = es /\
    (forall i name, i < length ids ->
       alookup name (snd (nth i (cg_nodes cg) (0%Z, []))) = cv_lookup cvf (snd (nth i (d_nodes g) (0%Z, []))) name) /\
    (forall j name, j < length es ->
       alookup name (snd (nth j (cg_edges cg) ((0%Z, 0%Z), []))) = cv_lookup cvf (snd (nth j (d_edges g) ((0%Z, 0%Z), []))) name).
Proof.
  intros Hdom md ids es.
  set (ndata := map snd (d_nodes g)). set (edata := map snd (d_edges g)).
  assert (Hnlen : length ndata = length ids) by (unfold ndata, ids; rewrite !map_length; reflexivity).
  assert (Helen : length edata = length es) by (unfold edata, es; rewrite !map_length; reflexivity).
  destruct (dict_props_ok cvf ndata (keys_of ndata) (dd_ncols _ _ _ Hdom)) as [nps [Hnps [Hnk Hng]]].
  destruct (dict_props_ok cvf edata (keys_of edata) (dd_ecols _ _ _ Hdom)) as [eps [Heps [Hek Heg]]].
  assert (Hnnd : NoDup (akeys nps)) by (rewrite Hnk; apply keys_of_nodup).
  assert (Hend : NoDup (akeys eps)) by (rewrite Hek; apply keys_of_nodup).
  set (nids := mkarr DU64 [length ids] ids). set (eids := mkarr DU64 [length es; 2%nat] (flat_pairs es)).
  set (w := mkwg nids eids (Some nps) (Some eps)).
  assert (Hw : dicts_wgraph g (keys_of ndata) (keys_of edata) = Ok w).
  { unfold dicts_wgraph. fold ids es ndata edata.
    rewrite (node_ids_arr_ok ids (dd_range _ _ _ Hdom)).
    rewrite (edge_ids_arr_ok ids es (dd_range _ _ _ Hdom) (dd_endpoints _ _ _ Hdom)).
    rewrite Hnps, Heps. reflexivity. }
  destruct (good_wf_props cvf ndata nps (length ids) Hnlen Hnnd Hng) as [Hwfn [Hfitn Hupn]].
  destruct (good_wf_props cvf edata eps (length es) Helen Hend Heg) as [Hwfe [Hfite Hupe]].
  set (md' := mkmd d None (add_or_update [] (props_meta nps)) (add_or_update [] (props_meta eps)) mdtok).
  assert (Hfm : final_metadata w md = Ok md') by reflexivity.
  assert (Hwf : wf_input w md (length ids) (length es)).
  { constructor; try reflexivity.
    - exact Hwfn.
    - exact Hwfe.
    - intros k0 [].
    - intros k0 [].
    - intros axes Hax. discriminate. }
  destruct (write_then_read k None w md md' (length ids) (length es) false I Hwf Hfm) as [tr [post [Hwr [Hval Hrd]]]].
  set (mg := mkmg md' nids eids nps eps).
  assert (Hrd' : read_to_memory k (Some post) true None None = Ok mg).
  { rewrite Hrd. unfold mg. f_equal. f_equal; [exact Hupn | exact Hupe]. }
  assert (Hwfg : wf_geff mg ids es).
  { constructor.
    - reflexivity.
    - unfold edge_rows, mg, eids. cbn [g_eids a_shape a_flat]. rewrite pairs_of_flat_pairs. reflexivity.
    - exact (dd_distinct _ _ _ Hdom).
    - exact (dd_edistinct _ _ _ Hdom).
    - exact (dd_endpoints _ _ _ Hdom). }
  destruct (canon_table_exists nps ids 0%Z Hnnd (good_total cvf ndata nps (length ids) Hnlen Hng)) as [ntbl [Hnt [Hnf Hns]]].
  destruct (canon_table_exists eps es (0%Z, 0%Z) Hend (good_total cvf edata eps (length es) Helen Heg)) as [etbl [Het [Hef Hes]]].
  exists tr, post, mg, (mkcg d ntbl etbl).
  split; [|split; [exact Hval|split; [exact Hrd'|split; [exact Hwfg|split; [reflexivity|split; [exact Hfitn|split; [exact Hfite|]]]]]]].
  - unfold write_dicts. fold ndata edata. rewrite Hw. exact Hwr.
  - split; [|split; [reflexivity|split; [exact Hnf|split; [exact Hef|split]]]].
    + unfold canon_geff. rewrite (wg_nodes _ _ _ Hwfg), (wg_edges _ _ _ Hwfg). unfold rbind.
      cbn [g_nprops g_eprops mg]. rewrite Hnt, Het. reflexivity.
    + intros i name Hi. cbn [cg_nodes]. rewrite (Hns i name Hi).
      rewrite (pval_of_columns cvf ndata nps i name ltac:(lia) Hnnd Hnk Hng).
      unfold ndata. rewrite (nth_map_d snd (d_nodes g) i (0%Z, []) []) by (unfold ids in Hi; rewrite map_length in Hi; exact Hi).
      reflexivity.
    + intros j name Hj. cbn [cg_edges]. rewrite (Hes j name Hj).
      rewrite (pval_of_columns cvf edata eps j name ltac:(lia) Hend Hek Heg).
      unfold edata. rewrite (nth_map_d snd (d_edges g) j ((0%Z, 0%Z), []) []) by (unfold es in Hj; rewrite map_length in Hj; exact Hj).
      reflexivity.
Qed.
