(* EntryConvLemmas.v -- the overwrite theorems of EntryLemmas.v instantiated with what the two converters are known to
   produce (TrackMateValid.v: a well-formed document; CtcLemmas.v: a consistent dataset): overwriting a geff directory that holds
   nothing but the geff gives exactly the result of converting onto a free target. *)
From Geff Require Import Base Dtype Vlen Tree Validate Write Read RoundTrip WriteLemmas C01Lemmas CrashLemmas OverwriteLemmas
     Entry EntryLemmas.
From Geff Require Ctc CtcLemmas TrackMate TrackMateLemmas TrackMateValid.
From Geff.Gen Require Import Consts.
Open Scope string_scope.
Open Scope list_scope.

(* ---------- TrackMate ---------- *)
Theorem tm_overwrite_replaces d ds dt a ch :
  TrackMateLemmas.wf_tm d -> ahas "geff" a = true -> adel path_EDGES (adel path_NODES ch) = [] ->
  exists md' tr post,
    final_metadata (TrackMateValid.wgraph_final d ds dt) (TrackMateValid.md_final d ds dt) = Ok md' /\
    TrackMate.from_trackmate d ds dt true (init (Some (ZG a ch))) = (mkst (Some post) tr, Ok tt) /\
    validate_structure KPath (Some post) = Ok tt /\
    read_to_memory KPath (Some post) true None None =
      Ok (mkmg md' (TrackMateValid.nids_arr d ds dt) (TrackMateValid.eids_arr d ds dt)
               (TrackMateValid.nps_final d ds dt) (TrackMateValid.eprops_of d ds dt)).
Proof.
  intros W Hg Hch. destruct (TrackMateValid.final_metadata_ok d ds dt W) as [md' Hmd].
  set (c := ETm d ds dt true).
  assert (Hcv : e_conv c = Ok (TrackMateValid.wgraph_final d ds dt, TrackMateValid.md_final d ds dt)).
  { cbn [e_conv c]. unfold tm_conv. rewrite (TrackMateValid.convert_wf d ds dt W). reflexivity. }
  assert (Hvac : exists_geff (e_kind c) (cleaned (e_kind c) a ch) = false) by (apply cleaned_path_vacant_iff; exact Hch).
  destruct (entry_replaces c a ch _ _ md' _ _ eq_refl (TrackMateLemmas.wf_exists d W) eq_refl eq_refl Hcv Hg Hvac
              (TrackMateValid.final_wf_input d ds dt W) Hmd) as [[tr Hrun] [Hv Hr]].
  subst c. cbn [e_kind e_run] in Hrun, Hv, Hr.
  exists md', tr. eexists. split; [exact Hmd|]. split; [exact Hrun|]. split; [exact Hv|].
  rewrite Hr. cbn [TrackMateValid.wgraph_final w_nids w_eids w_nprops w_eprops].
  rewrite TrackMateValid.backfill_final, (TrackMateValid.nps_final_upcast d ds dt W), (TrackMateValid.eprops_upcast d ds dt W).
  reflexivity.
Qed.

(* a directory that holds the geff beside anything else: for EVERY document the old geff is deleted and the conversion raises *)
Theorem tm_overwrite_beside d ds dt a ch s :
  TrackMate.tm_exists d = true -> s_root s = Some (ZG a ch) -> ahas "geff" a = true -> adel path_EDGES (adel path_NODES ch) <> [] ->
  exists tr e, TrackMate.from_trackmate d ds dt true s
               = (mkst (Some (ZG (adel "geff" a) (adel path_EDGES (adel path_NODES ch)))) tr, Err e) /\
               (forall gm, tm_conv d ds dt = Ok gm -> e = FileExistsError).
Proof.
  intros He Hs Hg Hne.
  assert (Hocc : exists_geff KPath (cleaned KPath a ch) = true).
  { destruct (exists_geff KPath (cleaned KPath a ch)) eqn:E; [reflexivity|]. apply cleaned_path_vacant_iff in E. contradiction. }
  destruct (entry_overwrite_beside (ETm d ds dt true) s a ch eq_refl He eq_refl Hs Hg Hocc) as [tr H].
  exists tr. eexists. split.
  - cbn [e_run e_kind] in H. rewrite H. unfold cleaned. destruct (adel path_EDGES (adel path_NODES ch)); [contradiction | reflexivity].
  - intros gm Hgm. cbn [e_conv]. rewrite Hgm. reflexivity.
Qed.

(* ---------- CTC ---------- *)
Theorem ctc_overwrite_replaces d vol a ch :
  CtcLemmas.consistent d -> CtcLemmas.seg_free d -> seg_rel d = None -> Ctc.d_overwrite d = true ->
  ahas "geff" a = true -> adel path_EDGES (adel path_NODES ch) = [] ->
  let ns := Ctc.nodes_of (Ctc.d_frames d) in
  exists es md' tr post,
    Ctc.graph_edges ns (CtcLemmas.table_of d) = Ok es /\
    final_metadata (Ctc.ctc_wgraph (Ctc.d_is3d d) ns es) (Ctc.ctc_md (Ctc.d_is3d d)) = Ok md' /\
    ctc_write d vol (init (Some (ZG a ch))) = (mkst (Some post) tr, Ok tt) /\
    Ctc.from_ctc_to_geff d (init (Some (ZG a ch))) = (mkst (Some post) tr, Ok tt) /\
    validate_structure KPath (Some post) = Ok tt /\
    read_to_memory KPath (Some post) true None None =
      Ok (mkmg md' (mkarr DU64 [length ns] (map Ctc.n_id ns)) (mkarr DU64 [length es; 2%nat] (Ctc.flat_edges es))
               (Ctc.ctc_props (Ctc.d_is3d d) ns) []).
Proof.
  intros Hc Hseg Hrel Hov Hg Hch ns.
  destruct (CtcLemmas.ctc_pipeline d Hc Hseg) as [es [md' [_ [_ [He [Hconv [Hmd _]]]]]]]. fold ns in He, Hconv, Hmd.
  pose proof (CtcLemmas.cs_nodes_nonempty d Hc) as Hne. fold ns in Hne.
  set (c := ECtc d vol).
  assert (H2 : e_two_guards c = true) by (cbn [e_two_guards c]; rewrite Hrel; reflexivity).
  assert (Hready : e_ready c = true).
  { cbn [e_ready c]. rewrite (CtcLemmas.cs_dir d Hc). destruct (Ctc.d_table d) eqn:Et; [reflexivity|]. exfalso. exact (CtcLemmas.cs_table d Hc Et). }
  assert (Hcv : e_conv c = Ok (Ctc.ctc_wgraph (Ctc.d_is3d d) ns es, Ctc.ctc_md (Ctc.d_is3d d))).
  { cbn [e_conv c]. unfold ctc_conv. rewrite Hov. cbn [negb]. rewrite andb_false_r. exact Hconv. }
  assert (Hvac : exists_geff (e_kind c) (cleaned (e_kind c) a ch) = false) by (apply cleaned_path_vacant_iff; exact Hch).
  destruct (entry_replaces c a ch _ _ md' _ _ H2 Hready Hov eq_refl Hcv Hg Hvac (CtcLemmas.ctc_wf_input (Ctc.d_is3d d) ns es Hne) Hmd)
    as [[tr Hrun] [Hv Hr]].
  subst c. cbn [e_kind e_run] in Hrun, Hv, Hr.
  exists es, md', tr. eexists. split; [exact He|]. split; [exact Hmd|]. split; [exact Hrun|].
  split; [rewrite <- (ctc_write_outside d vol _ Hrel); exact Hrun|]. split; [exact Hv|].
  rewrite Hr. cbn [w_nids w_eids Ctc.ctc_wgraph w_nprops w_eprops]. f_equal. f_equal.
  assert (Hbf : backfill (mkarr DU64 [length ns] (map Ctc.n_id ns)) (Ctc.ctc_md (Ctc.d_is3d d)) (Some (Ctc.ctc_props (Ctc.d_is3d d) ns))
                = Some (Ctc.ctc_props (Ctc.d_is3d d) ns)).
  { unfold backfill, Ctc.ctc_md. cbn [md_axes len0 a_shape option_eqb]. destruct ns as [|n r]; [contradiction|]. reflexivity. }
  rewrite Hbf. apply CtcLemmas.ctc_up_props.
Qed.

Theorem ctc_overwrite_beside d vol a ch s :
  Ctc.d_dir d = true -> Ctc.d_table d <> None -> Ctc.d_overwrite d = true -> seg_rel d = None ->
  s_root s = Some (ZG a ch) -> ahas "geff" a = true -> adel path_EDGES (adel path_NODES ch) <> [] ->
  exists tr e, ctc_write d vol s = (mkst (Some (ZG (adel "geff" a) (adel path_EDGES (adel path_NODES ch)))) tr, Err e) /\
               Ctc.from_ctc_to_geff d s = (mkst (Some (ZG (adel "geff" a) (adel path_EDGES (adel path_NODES ch)))) tr, Err e) /\
               (forall gm, Ctc.convert d = Ok gm -> e = FileExistsError).
Proof.
  intros Hd Ht Hov Hrel Hs Hg Hne.
  assert (Hocc : exists_geff KPath (cleaned KPath a ch) = true).
  { destruct (exists_geff KPath (cleaned KPath a ch)) eqn:E; [reflexivity|]. apply cleaned_path_vacant_iff in E. contradiction. }
  assert (H2 : e_two_guards (ECtc d vol) = true) by (cbn [e_two_guards]; rewrite Hrel; reflexivity).
  assert (Hready : e_ready (ECtc d vol) = true) by (cbn [e_ready]; rewrite Hd; destruct (Ctc.d_table d); [reflexivity | contradiction]).
  destruct (entry_overwrite_beside (ECtc d vol) s a ch H2 Hready Hov Hs Hg Hocc) as [tr H].
  cbn [e_run e_kind] in H.
  assert (Hcl : cleaned KPath a ch = Some (ZG (adel "geff" a) (adel path_EDGES (adel path_NODES ch)))).
  { unfold cleaned. destruct (adel path_EDGES (adel path_NODES ch)); [contradiction | reflexivity]. }
  rewrite Hcl in H. exists tr. eexists. split; [exact H|]. split; [rewrite <- (ctc_write_outside d vol s Hrel); exact H|].
  intros gm Hgm. cbn [e_conv]. unfold ctc_conv. rewrite Hov. cbn [negb]. rewrite andb_false_r, Hgm. reflexivity.
Qed.
