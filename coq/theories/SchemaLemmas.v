(* SchemaLemmas.v -- soundness of the syntactic schema equivalence of Schema.v:
   two schema documents related by schema_equiv give the same verdict on every instance
   (annotations, member order, order of `required` are irrelevant to the validator). *)
From Geff Require Import Base Meta Json Schema.
Open Scope string_scope.
Open Scope Z_scope.
Open Scope list_scope.

(* ================================================================== induction on JSON values *)
Definition jv_ind' (P : jv -> Prop)
  (Hnull : P JNull) (Hbool : forall b, P (JBool b)) (Hint : forall z, P (JInt z))
  (Hflt : forall f, P (JFlt f)) (Hstr : forall s, P (JStr s))
  (Hlist : forall l, Forall P l -> P (JList l))
  (Hobj : forall kvs, Forall (fun kv => P (snd kv)) kvs -> P (JObj kvs)) : forall v, P v :=
  fix F (v : jv) : P v :=
    match v with
    | JNull => Hnull
    | JBool b => Hbool b
    | JInt z => Hint z
    | JFlt f => Hflt f
    | JStr s => Hstr s
    | JList l =>
        Hlist l ((fix G (l : list jv) : Forall P l :=
                    match l with
                    | [] => Forall_nil P
                    | x :: r => Forall_cons x (F x) (G r)
                    end) l)
    | JObj kvs =>
        Hobj kvs ((fix G (l : list (string * jv)) : Forall (fun kv => P (snd kv)) l :=
                     match l with
                     | [] => Forall_nil _
                     | kv :: r => Forall_cons kv (F (snd kv)) (G r)
                     end) kvs)
    end.

Lemma fl_eqb_eq a b : fl_eqb a b = true -> a = b.
Proof. destruct a, b; cbn; intros H; try discriminate; try reflexivity. apply Z.eqb_eq in H. subst. reflexivity. Qed.

Lemma jv_eqb_eq a : forall b, jv_eqb a b = true -> a = b.
Proof.
  induction a as [| x | x | x | x | l IH | kvs IH] using jv_ind'; intros b H; destruct b; cbn in H; try discriminate.
  - reflexivity.
  - apply Bool.eqb_prop in H. subst. reflexivity.
  - apply Z.eqb_eq in H. subst. reflexivity.
  - apply fl_eqb_eq in H. subst. reflexivity.
  - apply String.eqb_eq in H. subst. reflexivity.
  - f_equal. revert l0 H. induction IH as [|x r Hx _ IHr]; intros [|y s] H; try discriminate; [reflexivity|].
    apply andb_true_iff in H. destruct H as [H1 H2]. f_equal; [apply Hx; exact H1 | apply IHr; exact H2].
  - f_equal. revert kvs0 H. induction IH as [|[k x] r Hx _ IHr]; intros [|[k' y] s] H; try discriminate; [reflexivity|].
    apply andb_true_iff in H. destruct H as [H12 H3]. apply andb_true_iff in H12. destruct H12 as [H1 H2].
    apply String.eqb_eq in H1. subst k'. f_equal; [f_equal; apply Hx; exact H2 | apply IHr; exact H3].
Qed.

(* ================================================================== list helpers *)
Lemma forallb_ext_in {A} (f g : A -> bool) l : (forall x, In x l -> f x = g x) -> forallb f l = forallb g l.
Proof.
  induction l as [|x r IH]; intros H; cbn; [reflexivity|].
  rewrite (H x (or_introl eq_refl)), IH; [reflexivity|]. intros y Hy. apply H. right. exact Hy.
Qed.

Lemma jget_In k kvs v : jget k kvs = Some v -> In (k, v) kvs.
Proof.
  induction kvs as [|[k' x] r IH]; cbn; [discriminate|].
  destruct (String.eqb k k') eqn:E.
  - apply String.eqb_eq in E. subst. intros H. inversion H; subst. left. reflexivity.
  - intros H. right. apply IH. exact H.
Qed.

Lemma jhas_jget k kvs : jhas k kvs = true -> exists v, jget k kvs = Some v.
Proof.
  induction kvs as [|[k' x] r IH]; cbn; [discriminate|].
  destruct (String.eqb k k'); cbn; [intros _; exists x; reflexivity | exact IH].
Qed.

(* ================================================================== maps of schemas *)
Definition rel_at (E : jv -> jv -> bool) (a b : option jv) : Prop :=
  match a, b with
  | Some x, Some y => E x y = true
  | None, None => True
  | _, _ => False
  end.

Lemma map_equiv_spec E pa pb : map_equiv E pa pb = true -> forall k, rel_at E (jget k pa) (jget k pb).
Proof.
  unfold map_equiv. intros H k. apply andb_true_iff in H. destruct H as [H1 H2].
  rewrite forallb_forall in H1, H2. unfold rel_at.
  destruct (jget k pa) as [x|] eqn:Ea.
  - specialize (H1 (k, x) (jget_In _ _ _ Ea)). cbn in H1. rewrite Ea in H1.
    destruct (jget k pb) as [y|]; [exact H1 | discriminate].
  - destruct (jget k pb) as [y|] eqn:Eb; [|exact I].
    specialize (H2 (k, y) (jget_In _ _ _ Eb)). cbn in H2. apply jhas_jget in H2. destruct H2 as [v Hv]. congruence.
Qed.

(* ================================================================== leaf keywords *)
Lemma str_subset_forallb (P : jv -> bool) la lb :
  str_subset la lb = true -> forallb P lb = true -> forallb P la = true.
Proof.
  unfold str_subset. rewrite !forallb_forall. intros Hs Hb x Hx.
  specialize (Hs x Hx). apply existsb_exists in Hs. destruct Hs as [y [Hy Hxy]].
  apply jv_eqb_eq in Hxy. subst y. apply Hb. exact Hy.
Qed.

Lemma set_eq_forallb (P : jv -> bool) la lb :
  str_subset la lb = true -> str_subset lb la = true -> forallb P la = forallb P lb.
Proof.
  intros H1 H2. destruct (forallb P lb) eqn:Eb.
  - eapply str_subset_forallb; eassumption.
  - destruct (forallb P la) eqn:Ea; [|reflexivity].
    rewrite (str_subset_forallb P lb la H2 Ea) in Eb. discriminate.
Qed.

Lemma leaf_eq_sound k a b d :
  leaf_eq k a b = true ->
  match a with Some arg => check_leaf k arg d | None => true end =
  match b with Some arg => check_leaf k arg d | None => true end.
Proof.
  unfold leaf_eq. destruct a as [x|], b as [y|]; try discriminate; [|reflexivity].
  destruct (String.eqb k "required") eqn:Ek.
  - apply String.eqb_eq in Ek. subst k. destruct x as [| | | | |la|], y as [| | | | |lb|]; try discriminate.
    intros H. apply andb_true_iff in H. destruct H as [H H4]. apply andb_true_iff in H. destruct H as [H H3].
    apply andb_true_iff in H. destruct H as [H1 H2].
    unfold check_leaf. cbn [String.eqb Ascii.eqb Bool.eqb]. rewrite H1, H2. cbn [andb].
    destruct d; try reflexivity. apply set_eq_forallb; assumption.
  - intros H. apply jv_eqb_eq in H. subst y. reflexivity.
Qed.

Lemma leaves_equiv ka kb d :
  forallb (fun k => leaf_eq k (jget k ka) (jget k kb)) leaf_kws = true -> leaves_ok ka d = leaves_ok kb d.
Proof.
  intros H. unfold leaves_ok. apply forallb_ext_in. intros k Hk.
  rewrite forallb_forall in H. apply leaf_eq_sound. apply H. exact Hk.
Qed.

(* ================================================================== applicators *)
Lemma list_eqb_forallb (E : jv -> jv -> bool) (Va Vb : jv -> jv -> bool) d :
  (forall x y, E x y = true -> Va x d = Vb y d) ->
  forall la lb, list_eqb E la lb = true ->
    forallb (fun s => Va s d) la = forallb (fun s => Vb s d) lb
    /\ existsb (fun s => Va s d) la = existsb (fun s => Vb s d) lb
    /\ List.length (filter (fun s => Va s d) la) = List.length (filter (fun s => Vb s d) lb).
Proof.
  intros HE la. induction la as [|x r IH]; intros [|y s] H; try discriminate; cbn; [repeat split|].
  cbn in H. apply andb_true_iff in H. destruct H as [H1 H2]. destruct (IH s H2) as [I1 [I2 I3]].
  rewrite (HE x y H1), I1, I2. split; [reflexivity|]. split; [reflexivity|].
  destruct (Vb y d); cbn; rewrite I3; reflexivity.
Qed.

Lemma allof_equiv E Va Vb ka kb d :
  (forall x y, E x y = true -> Va x d = Vb y d) ->
  list_kw_equiv E (jget "allOf" ka) (jget "allOf" kb) = true -> sub_allof Va ka d = sub_allof Vb kb d.
Proof.
  intros HE H. unfold sub_allof, list_kw_equiv in *.
  destruct (jget "allOf" ka) as [[| | | | |la|]|], (jget "allOf" kb) as [[| | | | |lb|]|]; try discriminate; [|reflexivity].
  apply (list_eqb_forallb E Va Vb d HE la lb H).
Qed.

Lemma anyof_equiv E Va Vb ka kb d :
  (forall x y, E x y = true -> Va x d = Vb y d) ->
  list_kw_equiv E (jget "anyOf" ka) (jget "anyOf" kb) = true -> sub_anyof Va ka d = sub_anyof Vb kb d.
Proof.
  intros HE H. unfold sub_anyof, list_kw_equiv in *.
  destruct (jget "anyOf" ka) as [[| | | | |la|]|], (jget "anyOf" kb) as [[| | | | |lb|]|]; try discriminate; [|reflexivity].
  apply (list_eqb_forallb E Va Vb d HE la lb H).
Qed.

Lemma oneof_equiv E Va Vb ka kb d :
  (forall x y, E x y = true -> Va x d = Vb y d) ->
  list_kw_equiv E (jget "oneOf" ka) (jget "oneOf" kb) = true -> sub_oneof Va ka d = sub_oneof Vb kb d.
Proof.
  intros HE H. unfold sub_oneof, list_kw_equiv in *.
  destruct (jget "oneOf" ka) as [[| | | | |la|]|], (jget "oneOf" kb) as [[| | | | |lb|]|]; try discriminate; [|reflexivity].
  destruct (list_eqb_forallb E Va Vb d HE la lb H) as [_ [_ H3]]. rewrite H3. reflexivity.
Qed.

Lemma items_equiv E (Va Vb : jv -> jv -> bool) ka kb d :
  (forall x y, E x y = true -> forall d', Va x d' = Vb y d') ->
  opt_equiv E (jget "items" ka) (jget "items" kb) = true -> sub_items Va ka d = sub_items Vb kb d.
Proof.
  intros HE H. unfold sub_items, opt_equiv in *.
  destruct (jget "items" ka) as [x|], (jget "items" kb) as [y|]; try discriminate; [|reflexivity].
  destruct d; try reflexivity. apply forallb_ext_in. intros e _. apply HE. exact H.
Qed.

Lemma propnames_equiv E (Va Vb : jv -> jv -> bool) ka kb d :
  (forall x y, E x y = true -> forall d', Va x d' = Vb y d') ->
  opt_equiv E (jget "propertyNames" ka) (jget "propertyNames" kb) = true -> sub_propnames Va ka d = sub_propnames Vb kb d.
Proof.
  intros HE H. unfold sub_propnames, opt_equiv in *.
  destruct (jget "propertyNames" ka) as [x|], (jget "propertyNames" kb) as [y|]; try discriminate; [|reflexivity].
  destruct d; try reflexivity. apply forallb_ext_in. intros e _. apply HE. exact H.
Qed.

Lemma member_equiv E (Va Vb : jv -> jv -> bool) pa pb aa ab kv :
  (forall x y, E x y = true -> forall d', Va x d' = Vb y d') ->
  (forall k, rel_at E (jget k pa) (jget k pb)) -> opt_equiv E aa ab = true ->
  member_ok Va pa aa kv = member_ok Vb pb ab kv.
Proof.
  intros HE Hp Ha. unfold member_ok. specialize (Hp (fst kv)). unfold rel_at in Hp.
  destruct (jget (fst kv) pa) as [x|], (jget (fst kv) pb) as [y|]; try contradiction.
  - apply HE. exact Hp.
  - unfold opt_equiv in Ha. destruct aa as [x|], ab as [y|]; try discriminate; [apply HE; exact Ha | reflexivity].
Qed.

Lemma props_equiv E (Va Vb : jv -> jv -> bool) ka kb d :
  (forall x y, E x y = true -> forall d', Va x d' = Vb y d') ->
  props_kw_equiv E (jget "properties" ka) (jget "properties" kb) = true ->
  opt_equiv E (jget "additionalProperties" ka) (jget "additionalProperties" kb) = true ->
  sub_props Va ka d = sub_props Vb kb d.
Proof.
  intros HE Hp Ha. unfold sub_props, props_kw_equiv in *.
  destruct (jget "properties" ka) as [[| | | | | |pa]|], (jget "properties" kb) as [[| | | | | |pb]|]; try discriminate.
  - destruct d; try reflexivity. apply forallb_ext_in. intros kv _.
    apply (member_equiv E); [exact HE | apply map_equiv_spec; exact Hp | exact Ha].
  - destruct d; try reflexivity. apply forallb_ext_in. intros kv _.
    apply (member_equiv E); [exact HE | intros k; exact I | exact Ha].
Qed.

(* ================================================================== the main induction *)
Definition related (a b : jv) : Prop := exists n, sequiv_f n a b = true.

Definition defs_related (ra rb : jv) : Prop :=
  forall p, match resolve ra p, resolve rb p with
            | Some x, Some y => related x y
            | None, None => True
            | _, _ => False
            end.

Lemma ref_equiv (Va Vb : jv -> jv -> bool) ra rb ka kb d :
  (forall x y, related x y -> Va x d = Vb y d) -> defs_related ra rb ->
  ref_kw_eq (jget "$ref" ka) (jget "$ref" kb) = true -> sub_ref Va ra ka d = sub_ref Vb rb kb d.
Proof.
  intros HE HD H. unfold sub_ref, ref_kw_eq in *.
  destruct (jget "$ref" ka) as [[| | | |p| |]|], (jget "$ref" kb) as [[| | | |q| |]|]; try discriminate; [|reflexivity].
  apply String.eqb_eq in H. subst q. specialize (HD p).
  destruct (resolve ra p) as [x|], (resolve rb p) as [y|]; try contradiction; [apply HE; exact HD | reflexivity].
Qed.

Lemma sequiv_sound_f ra rb : defs_related ra rb ->
  forall f a b, related a b -> forall d, validates_f f ra a d = validates_f f rb b d.
Proof.
  intros HD f. induction f as [|f IH]; intros a b [n H] d; [reflexivity|].
  destruct n as [|m]; [discriminate|]. cbn [sequiv_f] in H.
  destruct a as [|x| | | | |ka], b as [|y| | | | |kb]; try discriminate.
  - apply Bool.eqb_prop in H. subst. reflexivity.
  - repeat (apply andb_true_iff in H; let H' := fresh "K" in destruct H as [H H']).
    cbn [validates_f]. rewrite H, K8. cbn [andb].
    assert (HE : forall x y, sequiv_f m x y = true -> forall d', validates_f f ra x d' = validates_f f rb y d').
    { intros x y Hxy d'. apply IH. exists m. exact Hxy. }
    rewrite (leaves_equiv ka kb d K7).
    rewrite (ref_equiv (validates_f f ra) (validates_f f rb) ra rb ka kb d (fun x y Hr => IH x y Hr d) HD K6).
    rewrite (allof_equiv (sequiv_f m) _ _ ka kb d (fun x y Hxy => HE x y Hxy d) K5).
    rewrite (anyof_equiv (sequiv_f m) _ _ ka kb d (fun x y Hxy => HE x y Hxy d) K4).
    rewrite (oneof_equiv (sequiv_f m) _ _ ka kb d (fun x y Hxy => HE x y Hxy d) K3).
    rewrite (items_equiv (sequiv_f m) _ _ ka kb d HE K2).
    rewrite (propnames_equiv (sequiv_f m) _ _ ka kb d HE K1).
    rewrite (props_equiv (sequiv_f m) _ _ ka kb d HE K K0).
    reflexivity.
Qed.

Lemma defs_related_of ra rb :
  map_equiv (sequiv_f FUEL) (defs_of ra) (defs_of rb) = true -> defs_related ra rb.
Proof.
  intros H p. unfold resolve. destruct (ref_name p) as [name|]; [|exact I].
  pose proof (map_equiv_spec _ _ _ H name) as Hn. unfold rel_at in Hn.
  destruct (jget name (defs_of ra)), (jget name (defs_of rb)); try contradiction; [|exact I].
  exists FUEL. exact Hn.
Qed.

(* equivalent schema documents give the same verdict on every instance, at every fuel *)
Theorem schema_equiv_sound a b :
  schema_equiv a b = true -> forall d, validates a d = validates b d.
Proof.
  unfold schema_equiv, validates. intros H d. apply andb_true_iff in H. destruct H as [H1 H2].
  apply sequiv_sound_f; [apply defs_related_of; exact H2 | exists FUEL; exact H1].
Qed.
