(* C03Multi.v -- geffs with a REPEATED edge (parallel edges; (a,b) and (b,a) in an undirected graph).
   networkx Graph / DiGraph objects cannot hold them, rustworkx PyGraph / PyDiGraph objects can (multigraph=True is the default), and
   geff stores whatever edge list it is given (validate_structure accepts it; only the optional validate_data(graph=True) rejects a
   repeated edge).  The agreement theorems (C03_agree, C03_cross) therefore carry the hypothesis "no edge twice" (wg_edistinct /
   dv_edistinct): on a geff with a repeated edge the backends do NOT agree -- and are not meant to: the documented domain of the
   networkx backend is simple graphs.  What IS promised there is proved here:
     * rustworkx alone round-trips its own representation: every parallel edge comes back, in order, with its own attributes
       (rx_roundtrip_multi: the round-trip theorem of C03Lemmas.v WITHOUT the distinct-edges hypothesis);
     * RxBackend.construct of ANY geff with distinct node ids (repeated edges allowed) is the by-position canonical view
       (rx_construct_canon_m);
   and what networkx makes of such a geff is computed (ex_multi_nx, ex_multi_mg_views): ONE edge per key, at the position of its first occurrence, and per
   property the value of the LAST occurrence that carries it (add_edges_from keeps the existing edge, _set_property_values assigns
   graph.edges[u, v][name] for every stored row in order).
   The proofs of canon_geff_unpack_m / rx_construct_canon_m / dicts_roundtrip_m are those of BackendsLemmas.v / DictsLemmas.v with the
   unused hypothesis removed (those files are shared, so the statements there are left as they are). *)
From Geff Require Import Base Dtype DtypeLemmas Vlen VlenLemmas Tree TreeLemmas Validate Write Read RoundTrip WriteLemmas ReadLemmas
     ValidateLayout C01Lemmas Dicts Backends BackendsLemmas DictsLemmas ListColLemmas C03Lemmas Names.
From Coq Require Import Lia.
Open Scope string_scope.
Open Scope list_scope.

(* an in-memory geff with distinct node ids and edges between them; an edge may occur any number of times *)
Record wf_mgeff (g : mgraph) (ids : list Z) (es : list (Z * Z)) : Prop := {
  wm_nodes : node_list (g_nids g) = Ok ids;
  wm_edges : edge_rows (g_eids g) = Ok es;
  wm_distinct : distinctb Z.eqb ids = true;
  wm_endpoints : forall e, In e es -> In (fst e) ids /\ In (snd e) ids
}.

Lemma wf_geff_m g ids es : wf_geff g ids es -> wf_mgeff g ids es.
Proof. intros H. constructor; apply H. Qed.

Lemma canon_geff_unpack_m g ids es cg : wf_mgeff g ids es -> canon_geff g = Ok cg ->
  exists na ea,
    cg = mkcg (md_directed (g_md g)) (combine ids na) (combine es ea) /\
    length na = length ids /\ length ea = length es /\
    (forall i, i < length ids -> attrs_at (g_nprops g) i = Ok (nth i na [])) /\
    (forall j, j < length es -> attrs_at (g_eprops g) j = Ok (nth j ea [])).
Proof.
  intros Hwf H. unfold canon_geff in H. rewrite (wm_nodes _ _ _ Hwf), (wm_edges _ _ _ Hwf) in H. unfold rbind in H.
  match type of H with (match ?m with _ => _ end) = _ => destruct m as [ns|] eqn:En; [|discriminate] end.
  match type of H with (match ?m with _ => _ end) = _ => destruct m as [eds|] eqn:Ee; [|discriminate] end.
  inversion H; subst cg; clear H.
  destruct (canon_rows (g_nprops g) (length ids) ids ns eq_refl En) as [Hns [Hln Han]].
  assert (Ee' : mapM (fun ii : nat * (Z * Z) => match attrs_at (g_eprops g) (fst ii) with Ok a => Ok (snd ii, a) | Err e => Err e end)
                     (combine (seq 0 (length es)) es) = Ok eds) by exact Ee.
  clear Ee.
  (* the edge table: same argument with pair keys *)
  pose proof (mapM_length _ _ _ Ee') as Hle. rewrite combine_length, seq_length, Nat.min_id in Hle.
  assert (Hj : forall j, j < length es ->
            attrs_at (g_eprops g) j = Ok (snd (nth j eds ((0%Z, 0%Z), []))) /\ fst (nth j eds ((0%Z, 0%Z), [])) = nth j es (0%Z, 0%Z)).
  { intros j Hj. pose proof (mapM_nth _ _ _ (0%nat, (0%Z, 0%Z)) ((0%Z, 0%Z), []) j Ee') as Hx.
    rewrite combine_length, seq_length, Nat.min_id in Hx. specialize (Hx Hj).
    rewrite combine_nth in Hx by (rewrite seq_length; lia). rewrite seq_nth in Hx by exact Hj. cbn [fst snd] in Hx.
    destruct (attrs_at (g_eprops g) (0 + j)) as [a0|] eqn:Ea; [|discriminate]. cbn in Ea. injection Hx as Hy.
    rewrite <- Hy. cbn [fst snd]. split; [exact Ea | reflexivity]. }
  exists (map snd ns), (map snd eds). split; [|split; [|split; [|split]]].
  - f_equal; [exact Hns|].
    apply (nth_ext _ _ ((0%Z, 0%Z), []) ((0%Z, 0%Z), [])).
    + rewrite combine_length, map_length. lia.
    + intros j Hlt. rewrite Hle in Hlt. rewrite combine_nth by (rewrite map_length; lia).
      destruct (Hj j Hlt) as [_ Hf]. rewrite <- Hf. rewrite (nth_map_snd eds j (0%Z, 0%Z) []).
      destruct (nth j eds ((0%Z, 0%Z), [])); reflexivity.
  - rewrite map_length. exact Hln.
  - rewrite map_length. exact Hle.
  - exact Han.
  - intros j Hlt. destruct (Hj j Hlt) as [Ha _]. rewrite Ha. f_equal. rewrite (nth_map_snd eds j (0%Z, 0%Z) []). reflexivity.
Qed.


Theorem rx_construct_canon_m g ids es cg :
  wf_mgeff g ids es -> props_fit (length ids) (g_nprops g) -> props_fit (length es) (g_eprops g) ->
  canon_geff g = Ok cg ->
  exists r, rx_construct g = Ok r /\ canon_rx r = Some cg.
Proof.
  intros Hwf Hfn Hfe Hc. destruct (canon_geff_unpack_m g ids es cg Hwf Hc) as [na [ea [-> [Hna [Hea [Hn He]]]]]].
  set (d := md_directed (g_md g)). set (n := length ids).
  set (idmap := combine ids (zseq n)).
  assert (Hnodes : foldM (rx_fill_prop n) (g_nprops g) (repeat [] n) = Ok na).
  { apply foldM_rx_fill; [exact Hfn | apply repeat_length | exact Hna |].
    intros i Hi. rewrite nth_repeat_nil, <- attrs_at_foldM. apply Hn. exact Hi. }
  assert (Hmap : fold_left (fun acc kv => kset Z.eqb (fst kv) (snd kv) acc) (combine ids (zseq n)) [] = idmap).
  { rewrite kset_fold_fresh; [reflexivity|]. cbn [map app].
    rewrite map_fst_combine by (unfold zseq; rewrite map_length, seq_length; reflexivity). exact (wm_distinct _ _ _ Hwf). }
  (* node part of the adapter view *)
  assert (Hcn : opt_all (map (fun ia : Z * cattrs => match inv_map idmap (fst ia) with Some id => Some (id, snd ia) | None => None end)
                             (combine (zseq (length na)) na)) = Some (combine ids na)).
  { rewrite (opt_all_map _ (fun ia => (nth (Z.to_nat (fst ia)) ids 0%Z, snd ia))).
    - f_equal. apply (nth_ext _ _ (0%Z, []) (0%Z, [])).
      + rewrite map_length, !combine_length. unfold zseq. rewrite map_length, seq_length. lia.
      + intros i Hi. rewrite map_length, combine_length in Hi. unfold zseq in Hi. rewrite map_length, seq_length, Nat.min_id in Hi.
        rewrite (nth_map_d _ _ i (0%Z, []) (0%Z, [])) by (rewrite combine_length; unfold zseq; rewrite map_length, seq_length; lia).
        rewrite !combine_nth by (unfold zseq; try rewrite map_length, seq_length; lia).
        cbn [fst snd]. unfold zseq. rewrite (nth_map_d Z.of_nat _ i 0%nat 0%Z) by (rewrite seq_length; lia).
        rewrite seq_nth by lia. cbn [Nat.add]. rewrite Nat2Z.id. reflexivity.
    - intros [z a] Hin. cbn [fst snd].
      destruct (in_combine_nth _ _ _ 0%Z [] Hin) as [i [Hi1 [Hi2 Heq]]]. injection Heq as Hz Ha. subst z a.
      unfold zseq in Hi1. rewrite map_length, seq_length in Hi1.
      assert (Hzi : nth i (zseq (length na)) 0%Z = Z.of_nat i).
      { unfold zseq. rewrite (nth_map_d Z.of_nat _ i 0%nat 0%Z) by (rewrite seq_length; exact Hi1).
        rewrite seq_nth by exact Hi1. reflexivity. }
      rewrite Hzi.
      assert (Hin' : i < length ids) by lia.
      pose proof (klookup_nth_idx ids 0 i (wm_distinct _ _ _ Hwf) Hin') as Hk. cbn [Nat.add] in Hk.
      unfold idmap, n. rewrite zseq_from_0. rewrite (inv_klookup ids 0 _ _ Hk). rewrite Nat2Z.id. reflexivity. }
  unfold rx_construct. rewrite (wm_nodes _ _ _ Hwf). cbn [rbind]. fold n. rewrite Hnodes. cbn [rbind].
  rewrite Hmap. rewrite (wm_edges _ _ _ Hwf). cbn [rbind].
  destruct es as [|e0 er] eqn:Ees.
  - eexists. split; [reflexivity|]. unfold canon_rx. cbn [rc_map rc_nodes rc_edges rc_directed].
    rewrite Hcn. cbn. destruct ea; [reflexivity | discriminate].
  - cbv iota. rewrite <- Ees in *. clear Ees.
    set (tr := fun e : Z * Z => (match klookup Z.eqb (fst e) idmap with Some z => z | None => 0%Z end,
                                 match klookup Z.eqb (snd e) idmap with Some z => z | None => 0%Z end)).
    assert (Htr : mapM (fun e : Z * Z => match klookup Z.eqb (fst e) idmap, klookup Z.eqb (snd e) idmap with
                                         | Some u, Some v => Ok (u, v)
                                         | _, _ => Err KeyError
                                         end) es = Ok (map tr es)).
    { apply mapM_ok. intros e Hin. destruct (wm_endpoints _ _ _ Hwf e Hin) as [Hu Hv].
      destruct (klookup_in_idx ids _ Hu) as [zu Hzu]. destruct (klookup_in_idx ids _ Hv) as [zv Hzv].
      unfold tr, idmap, n. rewrite Hzu, Hzv. reflexivity. }
    assert (Hdatas : foldM (rx_fill_prop (length es)) (g_eprops g) (repeat [] (length es)) = Ok ea).
    { apply foldM_rx_fill; [exact Hfe | apply repeat_length | exact Hea |].
      intros j Hj. rewrite nth_repeat_nil, <- attrs_at_foldM. apply He. exact Hj. }
    unfold rbind. rewrite Htr, Hdatas.
    eexists. split; [reflexivity|]. unfold canon_rx. cbn [rc_map rc_nodes rc_edges rc_directed].
    rewrite Hcn.
    rewrite (opt_all_map _ (fun ed : (Z * Z) * cattrs =>
               ((nth (Z.to_nat (fst (fst ed))) ids 0%Z, nth (Z.to_nat (snd (fst ed))) ids 0%Z), snd ed))).
    + f_equal. f_equal.
      apply (nth_ext _ _ ((0%Z, 0%Z), []) ((0%Z, 0%Z), [])).
      * rewrite map_length, !combine_length, map_length. reflexivity.
      * intros j Hj. rewrite map_length, combine_length, map_length in Hj.
        rewrite (nth_map_d _ _ j ((0%Z, 0%Z), []) ((0%Z, 0%Z), [])) by (rewrite combine_length, map_length; exact Hj).
        rewrite !combine_nth by (try rewrite map_length; lia). cbn [fst snd].
        rewrite (nth_map_d tr es j (0%Z, 0%Z) (0%Z, 0%Z)) by lia.
        assert (Hin : In (nth j es (0%Z, 0%Z)) es) by (apply nth_In; lia).
        destruct (wm_endpoints _ _ _ Hwf _ Hin) as [Hu Hv].
        destruct (nth j es (0%Z, 0%Z)) as [u v] eqn:Ej. cbn [fst snd] in *.
        f_equal. unfold tr. cbn [fst snd].
        destruct (klookup_in_idx ids _ Hu) as [zu Hzu]. destruct (klookup_in_idx ids _ Hv) as [zv Hzv].
        unfold idmap, n. rewrite Hzu, Hzv.
        pose proof (In_nth _ _ 0%Z Hu) as [iu [Hiu Hnu]]. pose proof (In_nth _ _ 0%Z Hv) as [iv [Hiv Hnv]].
        pose proof (klookup_nth_idx ids 0 iu (wm_distinct _ _ _ Hwf) Hiu) as Hku. rewrite Hnu in Hku. cbn [Nat.add] in Hku.
        pose proof (klookup_nth_idx ids 0 iv (wm_distinct _ _ _ Hwf) Hiv) as Hkv. rewrite Hnv in Hkv. cbn [Nat.add] in Hkv.
        rewrite <- zseq_from_0 in Hku, Hkv. rewrite Hku in Hzu. rewrite Hkv in Hzv. injection Hzu as <-. injection Hzv as <-.
        rewrite !Nat2Z.id. rewrite Hnu, Hnv. reflexivity.
    + intros [[u' v'] a] Hin. cbn [fst snd].
      destruct (in_combine_nth _ _ _ (0%Z, 0%Z) [] Hin) as [j [Hj1 [Hj2 Heq]]].
      rewrite map_length in Hj1.
      assert (Htrj : nth j (map tr es) (0%Z, 0%Z) = tr (nth j es (0%Z, 0%Z))) by (apply nth_map_d; lia).
      rewrite Htrj in Heq.
      assert (Hin2 : In (nth j es (0%Z, 0%Z)) es) by (apply nth_In; lia).
      destruct (wm_endpoints _ _ _ Hwf _ Hin2) as [Hu Hv].
      destruct (nth j es (0%Z, 0%Z)) as [u v]. cbn [fst snd] in Hu, Hv. unfold tr in Heq. cbn [fst snd] in Heq.
      destruct (klookup_in_idx ids _ Hu) as [zu Hzu]. destruct (klookup_in_idx ids _ Hv) as [zv Hzv].
      unfold idmap, n in Heq. rewrite Hzu, Hzv in Heq. injection Heq as Hu' Hv' Ha. subst u' v'.
      unfold idmap, n. rewrite zseq_from_0 in *.
      rewrite (inv_klookup ids 0 _ _ Hzu), (inv_klookup ids 0 _ _ Hzv).
      pose proof (In_nth _ _ 0%Z Hu) as [iu [Hiu Hnu]]. pose proof (In_nth _ _ 0%Z Hv) as [iv [Hiv Hnv]].
      pose proof (klookup_nth_idx ids 0 iu (wm_distinct _ _ _ Hwf) Hiu) as Hku. rewrite Hnu in Hku. cbn [Nat.add] in Hku.
      pose proof (klookup_nth_idx ids 0 iv (wm_distinct _ _ _ Hwf) Hiv) as Hkv. rewrite Hnv in Hkv. cbn [Nat.add] in Hkv.
      rewrite Hku in Hzu. rewrite Hkv in Hzv. injection Hzu as <-. injection Hzv as <-.
      rewrite !Nat2Z.id. rewrite Hnu, Hnv. reflexivity.
Qed.


(* ================= write_dicts ; read_to_memory without the distinct-edges hypothesis ================= *)
Record dom_dicts_m (cvf : pyval -> option cval) (g : dgraph) : Prop := {
  ddm_range : Forall (fun z => (0 <= z < 2 ^ 64)%Z) (map fst (d_nodes g));
  ddm_distinct : distinctb Z.eqb (map fst (d_nodes g)) = true;
  ddm_endpoints : forall e, In e (map fst (d_edges g)) -> In (fst e) (map fst (d_nodes g)) /\ In (snd e) (map fst (d_nodes g));
  ddm_ncols : cols_ok cvf (map snd (d_nodes g)) (keys_of (map snd (d_nodes g)));
  ddm_ecols : cols_ok cvf (map snd (d_edges g)) (keys_of (map snd (d_edges g)))
}.

Theorem dicts_roundtrip_m cvf k d g mdtok : dom_dicts_m cvf g ->
  let md := mkmd d None [] [] mdtok in
  let ids := map fst (d_nodes g) in
  let es := map fst (d_edges g) in
  exists tr post mg cg,
    write_dicts k g (keys_of (map snd (d_nodes g))) (keys_of (map snd (d_edges g))) md (init None) = (mkst (Some post) tr, Ok tt) /\
    validate_structure k (Some post) = Ok tt /\
    read_to_memory k (Some post) true None None = Ok mg /\
    wf_mgeff mg ids es /\ md_directed (g_md mg) = d /\
    props_fit (length ids) (g_nprops mg) /\ props_fit (length es) (g_eprops mg) /\
    canon_geff mg = Ok cg /\
    cg_directed cg = d /\ map fst (cg_nodes cg) = ids /\ map fst (cg_edges cg) = es /\
    (forall i name, i < length ids ->
       alookup name (snd (nth i (cg_nodes cg) (0%Z, []))) = cv_lookup cvf (snd (nth i (d_nodes g) (0%Z, []))) name) /\
    (forall j name, j < length es ->
       alookup name (snd (nth j (cg_edges cg) ((0%Z, 0%Z), []))) = cv_lookup cvf (snd (nth j (d_edges g) ((0%Z, 0%Z), []))) name).
Proof.
  intros Hdom md ids es.
  set (ndata := map snd (d_nodes g)). set (edata := map snd (d_edges g)).
  assert (Hnlen : length ndata = length ids) by (unfold ndata, ids; rewrite !map_length; reflexivity).
  assert (Helen : length edata = length es) by (unfold edata, es; rewrite !map_length; reflexivity).
  destruct (dict_props_ok cvf ndata (keys_of ndata) (ddm_ncols _ _ Hdom)) as [nps [Hnps [Hnk Hng]]].
  destruct (dict_props_ok cvf edata (keys_of edata) (ddm_ecols _ _ Hdom)) as [eps [Heps [Hek Heg]]].
  assert (Hnnd : NoDup (akeys nps)) by (rewrite Hnk; apply keys_of_nodup).
  assert (Hend : NoDup (akeys eps)) by (rewrite Hek; apply keys_of_nodup).
  set (nids := mkarr DU64 [length ids] ids). set (eids := mkarr DU64 [length es; 2%nat] (flat_pairs es)).
  set (w := mkwg nids eids (Some nps) (Some eps)).
  assert (Hw : dicts_wgraph g (keys_of ndata) (keys_of edata) = Ok w).
  { unfold dicts_wgraph. fold ids es ndata edata.
    rewrite (node_ids_arr_ok ids (ddm_range _ _ Hdom)).
    rewrite (edge_ids_arr_ok ids es (ddm_range _ _ Hdom) (ddm_endpoints _ _ Hdom)).
    rewrite Hnps, Heps. reflexivity. }
  destruct (good_wf_props cvf ndata nps (length ids) Hnlen Hnnd Hng) as [Hwfn [Hfitn Hupn]].
  destruct (good_wf_props cvf edata eps (length es) Helen Hend Heg) as [Hwfe [Hfite Hupe]].
  set (md' := mkmd d None (add_or_update [] (props_meta nps)) (add_or_update [] (props_meta eps)) mdtok).
  assert (Hfm : final_metadata w md = Ok md') by reflexivity.
  assert (Hwf : wf_input w md (length ids) (length es)).
  { constructor; try reflexivity.
    - exact Hwfn.
    - exact Hwfe.
    - intros k0 [].
    - intros k0 [].
    - intros axes Hax. discriminate. }
  destruct (write_then_read k None w md md' (length ids) (length es) false I Hwf Hfm) as [tr [post [Hwr [Hval Hrd]]]].
  set (mg := mkmg md' nids eids nps eps).
  assert (Hrd' : read_to_memory k (Some post) true None None = Ok mg).
  { rewrite Hrd. unfold mg. f_equal. f_equal; [exact Hupn | exact Hupe]. }
  assert (Hwfg : wf_mgeff mg ids es).
  { constructor.
    - reflexivity.
    - unfold edge_rows, mg, eids. cbn [g_eids a_shape a_flat]. rewrite pairs_of_flat_pairs. reflexivity.
    - exact (ddm_distinct _ _ Hdom).
    - exact (ddm_endpoints _ _ Hdom). }
  destruct (canon_table_exists nps ids 0%Z Hnnd (good_total cvf ndata nps (length ids) Hnlen Hng)) as [ntbl [Hnt [Hnf Hns]]].
  destruct (canon_table_exists eps es (0%Z, 0%Z) Hend (good_total cvf edata eps (length es) Helen Heg)) as [etbl [Het [Hef Hes]]].
  exists tr, post, mg, (mkcg d ntbl etbl).
  split; [|split; [exact Hval|split; [exact Hrd'|split; [exact Hwfg|split; [reflexivity|split; [exact Hfitn|split; [exact Hfite|]]]]]]].
  - unfold write_dicts. fold ndata edata. rewrite Hw. exact Hwr.
  - split; [|split; [reflexivity|split; [exact Hnf|split; [exact Hef|split]]]].
    + unfold canon_geff. rewrite (wm_nodes _ _ _ Hwfg), (wm_edges _ _ _ Hwfg). unfold rbind.
      cbn [g_nprops g_eprops mg]. rewrite Hnt, Het. reflexivity.
    + intros i name Hi. cbn [cg_nodes]. rewrite (Hns i name Hi).
      rewrite (pval_of_columns cvf ndata nps i name ltac:(lia) Hnnd Hnk Hng).
      unfold ndata. rewrite (nth_map_d snd (d_nodes g) i (0%Z, []) []) by (unfold ids in Hi; rewrite map_length in Hi; exact Hi).
      reflexivity.
    + intros j name Hj. cbn [cg_edges]. rewrite (Hes j name Hj).
      rewrite (pval_of_columns cvf edata eps j name ltac:(lia) Hend Hek Heg).
      unfold edata. rewrite (nth_map_d snd (d_edges g) j ((0%Z, 0%Z), []) []) by (unfold es in Hj; rewrite map_length in Hj; exact Hj).
      reflexivity.
Qed.

(* the value domain of C03_rx_roundtrip without "no edge twice" *)
Record dom_values_m (g : dgraph) : Prop := {
  dvm_range : Forall (fun z => (0 <= z < 2 ^ 64)%Z) (map fst (d_nodes g));
  dvm_distinct : distinctb Z.eqb (map fst (d_nodes g)) = true;
  dvm_endpoints : forall e, In e (map fst (d_edges g)) -> In (fst e) (map fst (d_nodes g)) /\ In (snd e) (map fst (d_nodes g));
  dvm_ncols : forall name, In name (keys_of (map snd (d_nodes g))) ->
              name_ok name = true /\ strs_ok (column (map snd (d_nodes g)) name) = true /\ val_col (column (map snd (d_nodes g)) name);
  dvm_ecols : forall name, In name (keys_of (map snd (d_edges g))) ->
              name_ok name = true /\ strs_ok (column (map snd (d_edges g)) name) = true /\ val_col (column (map snd (d_edges g)) name)
}.

Lemma dom_values_is_m d g : dom_values d g -> dom_values_m g.
Proof. intros H. constructor; apply H. Qed.

Lemma dom_values_m_dicts g : dom_values_m g -> dom_dicts_m cv_of_py g.
Proof. intros H. constructor; try apply H.
  - apply values_cols_ok. intros name Hin. destruct (dvm_ncols _ H name Hin) as [Hn [_ Hv]]. split; [apply name_ok_nonempty; exact Hn | exact Hv].
  - apply values_cols_ok. intros name Hin. destruct (dvm_ecols _ H name Hin) as [Hn [_ Hv]]. split; [apply name_ok_nonempty; exact Hn | exact Hv]. Qed.

(* rustworkx multigraphs: geff.write(G) ; geff.read(backend="rustworkx") gives every edge back, parallel ones included, at its
   position and with its own attribute dict (same_graph compares the edge tables position by position) *)
Theorem rx_roundtrip_multi d g idmap g' mdtok axtok : rx_target idmap g = Ok g' -> dom_values_m g' ->
  exists cg, rx_rt d g idmap mdtok axtok = Ok cg /\ same_graph cv_of_py d g' cg.
Proof.
  intros Ht Hdom. destruct (dicts_roundtrip_m cv_of_py KObj d g' mdtok (dom_values_m_dicts g' Hdom))
    as [tr [post [mg [cg [Hw [Hval [Hrd [Hwf [Hd [Hfn [Hfe [Hc [Hcd [Hn [He [Hna Hea]]]]]]]]]]]]]]]].
  destruct (rx_construct_canon_m mg _ _ cg Hwf Hfn Hfe Hc) as [r [Hr Hcr]].
  exists cg. split.
  - unfold rx_rt. rewrite (run_api_write KObj _ post tr); [rewrite Hrd, Hr, Hcr; reflexivity|].
    unfold rx_write, fresh_md, bind, lift. rewrite Ht. exact Hw.
  - unfold same_graph. repeat split; auto.
    + intros i name Hi. apply Hna. rewrite map_length. exact Hi.
    + intros j name Hj. apply Hea. rewrite map_length. exact Hj.
Qed.

(* ================= what networkx makes of a repeated edge (computed) ================= *)
(* rustworkx graph 0 -> 1 twice: first edge {w: 1, u: 7}, second edge {w: 2}; written, then read through networkx and through rustworkx *)
Definition ex_multi : dgraph :=
  mkdg [(0%Z, []); (1%Z, [])] [((0%Z, 1%Z), [("w", PInt 1); ("u", PInt 7)]); ((0%Z, 1%Z), [("w", PInt 2)])].

Definition rx_to_nx (d : bool) (g : dgraph) (idmap : option (list (Z * Z))) (mdtok axtok : Z) : res cgraph :=
  let (post, r) := run (api_write KObj (rx_write KObj d g idmap None mdtok axtok)) None in
  match r with
  | Err e => Err e
  | Ok _ => match read_to_memory KObj post true None None with
            | Err e => Err e
            | Ok mg => nx_construct mg
            end
  end.

Lemma ex_multi_dom : dom_values_m ex_multi.
Proof. constructor.
  - repeat constructor; cbn; lia.
  - reflexivity.
  - intros e He. cbn in He. destruct He as [<-|[<-|[]]]; cbn; auto.
  - intros name [].
  - intros name Hin. vm_compute in Hin. destruct Hin as [<-|[<-|[]]]; (split; [reflexivity|]; split; [reflexivity|]; split; [discriminate|]; left; eexists; vm_compute; reflexivity).
Qed.

Lemma ex_multi_rx : rx_rt true ex_multi None 0 0
  = Ok (mkcg true [(0%Z, []); (1%Z, [])] [((0%Z, 1%Z), [("w", CScalar SInt 1); ("u", CScalar SInt 7)]); ((0%Z, 1%Z), [("w", CScalar SInt 2)])]).
Proof. vm_compute. reflexivity. Qed.

(* networkx: ONE edge; w of the last occurrence, u of the only occurrence that carries it *)
Lemma ex_multi_nx : rx_to_nx true ex_multi None 0 0
  = Ok (mkcg true [(0%Z, []); (1%Z, [])] [((0%Z, 1%Z), [("w", CScalar SInt 2); ("u", CScalar SInt 7)])]).
Proof. vm_compute. reflexivity. Qed.

(* undirected (1,2) and (2,1) with w = 1, 2: write_arrays accepts it WITH structure validation on (a structurally valid geff);
   read back: networkx one edge with the last w, rustworkx two edges *)
Definition ex_multi_w : wgraph :=
  mkwg (mkarr DU64 [2%nat] [1; 2]%Z) (mkarr DU64 [2%nat; 2%nat] [1; 2; 2; 1]%Z) (Some [])
       (Some [("w", mkprop (PFixed (mkarr DI64 [2%nat] [1; 2]%Z)) None)]).

Definition ex_multi_read (f : mgraph -> res cgraph) : res cgraph :=
  let (post, r) := run (write_arrays KObj ex_multi_w (mkmd false None [] [] 0%Z) true false) None in
  match r with
  | Err e => Err e
  | Ok _ => match read_to_memory KObj post true None None with Err e => Err e | Ok mg => f mg end
  end.

Lemma ex_multi_mg_views :
  ex_multi_read nx_construct = Ok (mkcg false [(1%Z, []); (2%Z, [])] [((1%Z, 2%Z), [("w", CScalar SInt 2)])]) /\
  ex_multi_read (fun mg => match rx_construct mg with Ok r => match canon_rx r with Some c => Ok c | None => Err OtherExn end | Err e => Err e end)
  = Ok (mkcg false [(1%Z, []); (2%Z, [])] [((1%Z, 2%Z), [("w", CScalar SInt 1)]); ((2%Z, 1%Z), [("w", CScalar SInt 2)])]).
Proof. vm_compute. split; reflexivity. Qed.
