(* Validate.v -- model of geff.validate.structure.validate_structure (as repaired:
   id rank/dtype, mask rank, reserved member kinds, optional props groups) on the
   abstract tree, check by check in the order of the code, and -- separately --
   the declarative predicate `conformant` written from docs/specification.md and
   the text of property C04.  Model only; proofs in ValidateLemmas.v. *)
From Geff Require Import Base Dtype Vlen Tree.
From Geff.Gen Require Import Consts.
Open Scope string_scope.
Open Scope list_scope.

(* how the caller designates the store: a str/Path, or an opened zarr store object *)
Inductive skind := KPath | KObj.

Definition expect_group (n : znode) (k : string) : res znode :=
  match get n k with Some (ZG a c) => Ok (ZG a c) | _ => Err ValueError end.
Definition expect_array (n : znode) (k : string) : res arr :=
  match get n k with Some (ZA a) => Ok a | _ => Err ValueError end.

Definition guard (b : bool) : res unit := if b then Ok tt else Err ValueError.

Fixpoint forM_ {A} (f : A -> res unit) (l : list A) : res unit :=
  match l with
  | [] => Ok tt
  | x :: r => match f x with Ok _ => forM_ f r | Err e => Err e end
  end.

Open Scope res_scope.

(* one property subgroup  (body of the loop of _validate_props_group) *)
Definition validate_prop (expected_len : nat) (pmd : list (string * pmeta)) (kv : string * znode) : res unit :=
  let (name, node) := kv in
  match alookup name pmd with
  | None => Err ValueError                          (* missing from the property metadata *)
  | Some pm =>
      match node with
      | ZA _ => Err ValueError                      (* must be a zarr group *)
      | ZG _ ch =>
          let! _ := guard (ahas path_VALUES ch) in
          let! v := expect_array node path_VALUES in
          let! _ := guard (Nat.leb 1 (ndim v)) in
          let! _ :=
            (if pm_varlength pm then
               let! d := expect_array node path_DATA in
               let! _ := guard (dtype_eqb (a_dt v) DU64) in
               let! _ := guard (Nat.eqb (ndim v) 2) in
               let! _ := guard (Nat.eqb (ndim d) 1) in
               guard (dtype_eqb (a_dt d) (pm_dtype pm))
             else
               let! _ := guard (dtype_eqb (a_dt v) (pm_dtype pm)) in
               guard (negb (ahas path_DATA ch))) in
          let! _ := guard (option_eqb Nat.eqb (len0 v) (Some expected_len)) in
          if ahas path_MISSING ch then
            let! m := expect_array node path_MISSING in
            let! _ := guard (Nat.eqb (ndim m) 1) in
            let! _ := guard (option_eqb Nat.eqb (len0 m) (Some expected_len)) in
            guard (dtype_eqb (a_dt m) DBool)
          else Ok tt
      end
  end.

Definition validate_props_group (pg : znode) (expected_len : nat) (pmd : list (string * pmeta)) : res unit :=
  let! _ := guard (forallb (fun kv => ahas (fst kv) (children pg)) pmd) in
  forM_ (validate_prop expected_len pmd) (children pg).

Definition validate_nodes_group (ng : znode) (md : smeta) : res unit :=
  let! ids := expect_array ng path_IDS in
  let! _ := guard (is_integer (a_dt ids)) in
  let! _ := guard (Nat.eqb (ndim ids) 1) in
  match get ng path_PROPS, md_nprops md with
  | None, [] => Ok tt
  | _, _ =>
      let! pg := expect_group ng path_PROPS in
      validate_props_group pg (hd 0%nat (a_shape ids)) (md_nprops md)
  end.

Definition validate_edges_group (eg : znode) (md : smeta) : res unit :=
  let! ids := expect_array eg path_IDS in
  let! _ := guard (match a_shape ids with [_; 2%nat] => true | _ => false end) in
  let! _ := guard (is_integer (a_dt ids)) in
  match get eg path_PROPS with
  | None => guard (match md_eprops md with [] => true | _ => false end)
  | Some (ZA _) => Err ValueError
  | Some pg => validate_props_group pg (hd 0%nat (a_shape ids)) (md_eprops md)
  end.

Definition validate_axis (npg : znode) (ax : axis) : res unit :=
  match get npg (ax_name ax) with
  | None => Err ValueError
  | Some pgp =>
      let! _ := guard (match get pgp path_VALUES with Some _ => true | None => false end) in
      let! _ := guard (match get pgp path_MISSING with Some _ => false | None => true end) in
      let! v := expect_array pgp path_VALUES in
      guard (Nat.eqb (ndim v) 1)
  end.

Definition validate_axes (root : znode) (md : smeta) : res unit :=
  match md_axes md with
  | None => Ok tt
  | Some [] => Ok tt                       (* `if metadata.axes:` -- an empty axes list asks for nothing *)
  | Some axes =>
      let! ng := expect_group root path_NODES in
      let! npg := expect_group ng path_PROPS in
      forM_ (validate_axis npg) axes
  end.

(* open_storelike: FileNotFoundError for a path that does not exist, ValueError when no group can be opened *)
Definition open_storelike (k : skind) (s : option znode) : res znode :=
  match s with
  | None => match k with KPath => Err FileNotFoundError | KObj => Err ValueError end
  | Some (ZA _) => Err ValueError
  | Some g => Ok g
  end.

(* GeffMetadata.read on an existing group *)
Definition read_metadata (root : znode) : res smeta :=
  match geff_attr root with
  | Some (Some md) => Ok md
  | _ => Err ValueError
  end.

Definition validate_structure (k : skind) (s : option znode) : res unit :=
  let! root := open_storelike k s in
  let! md := read_metadata root in
  let! ng := expect_group root path_NODES in
  let! _ := validate_nodes_group ng md in
  let! eg := expect_group root path_EDGES in
  let! _ := validate_edges_group eg md in
  let! nids := expect_array ng path_IDS in
  let! eids := expect_array eg path_IDS in
  let! _ := guard (dtype_eqb (a_dt nids) (a_dt eids)) in
  validate_axes root md.

(* ------------------------------------------------------------------ *)
(* The specification, written from docs/specification.md and the statement of C04:
   which groups are structurally conformant geffs. *)

(* a property subgroup `pg` describing `len` elements under metadata entry pm *)
Definition prop_conformant (len : nat) (pm : pmeta) (pg : znode) : Prop :=
  exists a ch, pg = ZG a ch /\
  (exists v, alookup path_VALUES ch = Some (ZA v) /\
     (exists n rest, a_shape v = n :: rest /\ n = len) /\
     (if pm_varlength pm
      then a_dt v = DU64 /\ (exists n w, a_shape v = [n; w]) /\
           exists d, alookup path_DATA ch = Some (ZA d) /\ a_dt d = pm_dtype pm /\ (exists k, a_shape d = [k])
      else a_dt v = pm_dtype pm /\ alookup path_DATA ch = None)) /\
  (alookup path_MISSING ch = None \/
   exists m, alookup path_MISSING ch = Some (ZA m) /\ a_shape m = [len] /\ a_dt m = DBool).

(* a props group holds exactly the properties named in the metadata, each conformant *)
Definition props_conformant (len : nat) (pmd : list (string * pmeta)) (pg : znode) : Prop :=
  (forall name, In name (akeys pmd) <-> In name (akeys (children pg))) /\
  (forall name node, In (name, node) (children pg) ->
     exists pm, alookup name pmd = Some pm /\ prop_conformant len pm node).

Definition axis_conformant (npg : znode) (ax : axis) : Prop :=
  exists a ch v, get npg (ax_name ax) = Some (ZG a ch) /\
    alookup path_VALUES ch = Some (ZA v) /\ (exists n, a_shape v = [n]) /\ alookup path_MISSING ch = None.

Definition conformant (root : znode) : Prop :=
  exists md, geff_attr root = Some (Some md) /\
  exists na nch ea ech nids eids,
    get root path_NODES = Some (ZG na nch) /\ get root path_EDGES = Some (ZG ea ech) /\
    alookup path_IDS nch = Some (ZA nids) /\ alookup path_IDS ech = Some (ZA eids) /\
    is_integer (a_dt nids) = true /\ (exists n, a_shape nids = [n]) /\
    (exists e, a_shape eids = [e; 2%nat]) /\ a_dt eids = a_dt nids /\
    (* node properties: an absent props group means "no properties" *)
    match alookup path_PROPS nch with
    | None => md_nprops md = []
    | Some pg => is_group pg = true /\ props_conformant (hd 0%nat (a_shape nids)) (md_nprops md) pg
    end /\
    match alookup path_PROPS ech with
    | None => md_eprops md = []
    | Some pg => is_group pg = true /\ props_conformant (hd 0%nat (a_shape eids)) (md_eprops md) pg
    end /\
    (* every axis names a 1-D node property without missing values *)
    match md_axes md with
    | None => True
    | Some axes => axes = [] \/
                   exists pg, alookup path_PROPS nch = Some pg /\ is_group pg = true /\
                   forall ax, In ax axes -> axis_conformant pg ax
    end.
