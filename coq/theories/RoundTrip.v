(* RoundTrip.v -- the property-level half of C01/C02: what the writer stores for one
   property (encode_prop, create_props_metadata) is decoded by the reader (load_prop)
   into the same property (after the float16 upcast). *)
From Geff Require Import Base Dtype DtypeLemmas Vlen VlenLemmas Tree TreeLemmas Validate Write Read.
Open Scope nat_scope.
Open Scope list_scope.

Lemma chunks_concat {A} (k : nat) (rows : list (list A)) :
  Forall (fun r => length r = k) rows -> chunks k (length rows) (List.concat rows) = rows.
Proof.
  induction rows as [|r rs IH]; intros H; cbn; [reflexivity|].
  apply Forall_cons_iff in H. destruct H as [Hr Hrs]. subst k.
  rewrite firstn_length_app, skipn_length_app, IH; auto.
Qed.

Lemma map_to_nat_of_nat l : map Z.to_nat (map Z.of_nat l) = l.
Proof. induction l as [|x r IH]; cbn; [reflexivity | rewrite Nat2Z.id, IH; reflexivity]. Qed.

(* well-formed property values for n elements *)
Definition wf_pvals (n : nat) (v : pvals) : Prop :=
  match v with
  | PFixed a => exists rest, a_shape a = n :: rest
  | PVlen elems => length elems = n /\ Forall wf_varr elems
  end.
Definition wf_missing (n : nat) (m : option arr) : Prop :=
  match m with None => True | Some a => a_dt a = DBool /\ a_shape a = [n] end.
Definition wf_prop (n : nat) (p : prop) : Prop := wf_pvals n (p_vals p) /\ wf_missing n (p_missing p).

Lemma upcast_arr_shape a : a_shape (upcast_arr a) = a_shape a.
Proof. unfold upcast_arr. destruct (dtype_eqb (a_dt a) DF16); reflexivity. Qed.

Lemma table_rows_rows_arr rows n :
  Forall (fun r => length r = n) rows -> table_rows (rows_arr rows) = rows.
Proof.
  intros H. unfold table_rows, rows_arr. destruct rows as [|r rs].
  - reflexivity.
  - cbn [a_shape a_flat hd]. unfold row_size. cbn [a_shape tl]. unfold size. cbn [fold_right].
    rewrite Nat.mul_1_r, map_to_nat_of_nat.
    apply chunks_concat. apply Forall_cons_iff in H. destruct H as [Hr Hrs].
    constructor; [reflexivity|]. eapply Forall_impl; [|exact Hrs]. cbn. intros; congruence.
Qed.

(* every row produced by the serializer is  offset :: shape of its element *)
Lemma ser_go_rows_shape vals : forall nd dt off rows data,
  ser_go nd dt off vals = Ok (rows, data) ->
  Forall2 (fun row a => exists o, row = o :: v_shape a) rows vals.
Proof.
  induction vals as [|a r IH]; intros nd dt off rows data H; cbn in H.
  - inversion H; subst. constructor.
  - destruct (match nd with None => true | Some n => Nat.eqb n (length (v_shape a)) end); [|discriminate].
    destruct (match dt with None => true | Some d => dtype_eqb d (v_dt a) end); [|discriminate].
    destruct (ser_go (Some (length (v_shape a))) (Some (v_dt a)) (off + size (v_shape a)) r)
      as [[rows' data']|e] eqn:Er; [|discriminate].
    inversion H; subst rows data; clear H.
    constructor; [eexists; reflexivity | eapply IH; eauto].
Qed.

Lemma serialize_rows_length e r rows data :
  serialize (e :: r) = Ok (rows, data) -> Forall (fun row => length row = S (length (v_shape e))) rows.
Proof.
  intros H.
  assert (Hu : uniform (e :: r)) by (apply serialize_ok_iff; eexists; exact H).
  unfold serialize in H. pose proof (ser_go_rows_shape _ _ _ _ _ _ H) as HF. clear H.
  cbn [uniform] in Hu. unfold uniform_with in Hu.
  revert Hu HF. generalize (e :: r) as vals. generalize (length (v_shape e)) as n. generalize (v_dt e) as d.
  intros d n vals Hu HF. revert Hu.
  induction HF as [|row a rows' vals' [o Ho] _ IH]; intros Hu; [constructor|].
  apply Forall_cons_iff in Hu. destruct Hu as [[Hn _] Hu'].
  constructor; [subst row; cbn; rewrite Hn; reflexivity | apply IH; exact Hu'].
Qed.

Lemma serialize_rows_count vals rows data : serialize vals = Ok (rows, data) -> length rows = length vals.
Proof. intros H. unfold serialize in H. apply ser_go_rows_shape in H.
  induction H as [|x y l l' _ _ IH]; cbn; [reflexivity | rewrite IH; reflexivity]. Qed.

Lemma cpm_core_of_ok name p pm : create_props_metadata name p = Ok pm -> cpm_core name p = Ok pm.
Proof. unfold create_props_metadata. destruct (vlen_dtypes_uniform p); [auto | discriminate]. Qed.
Lemma cpm_uniform_of_ok name p pm : create_props_metadata name p = Ok pm -> vlen_dtypes_uniform p = true.
Proof. unfold create_props_metadata. destruct (vlen_dtypes_uniform p); [auto | discriminate]. Qed.
Lemma cpm_fixed name a m : create_props_metadata name (mkprop (PFixed a) m) = cpm_core name (mkprop (PFixed a) m).
Proof. reflexivity. Qed.

(* the property-level round trip *)
Theorem prop_roundtrip name n p pm v m d :
  wf_prop n p ->
  create_props_metadata name p = Ok pm ->
  encode_prop p = Ok (v, m, d) ->
  load_prop (mkzprop v m d) None pm = Ok (upcast_prop p).
Proof.
  intros [Hv Hm] Hpm Henc. apply cpm_core_of_ok in Hpm; unfold cpm_core in Hpm. unfold encode_prop in Henc.
  destruct p as [vals miss]. unfold upcast_prop in *. cbn [p_vals p_missing] in *.
  destruct vals as [a|elems]; cbn [p_vals] in *.
  - (* fixed *)
    destruct (valid_prop_dtype (a_dt (upcast_arr a)) && negb (String.eqb name "")); [|discriminate].
    inversion Hpm; subst pm; clear Hpm. inversion Henc; subst v m d; clear Henc.
    unfold load_prop. cbn [pm_varlength pm_dtype new_pm zp_values zp_missing zp_data mask_rows].
    rewrite dtype_eqb_refl. cbn [negb].
    destruct miss as [ma|]; cbn [wf_missing] in Hm.
    + destruct Hm as [Hdt _]. rewrite Hdt. cbn. reflexivity.
    + cbn. reflexivity.
  - (* variable length: every element is upcast first *)
    assert (Hwfu : Forall wf_varr (map upcast_varr elems)).
    { destruct Hv as [_ Hwf]. apply Forall_forall. intros x Hx. apply in_map_iff in Hx. destruct Hx as [y [<- Hy]].
      rewrite Forall_forall in Hwf. specialize (Hwf y Hy). unfold upcast_varr. destruct (dtype_eqb (v_dt y) DF16); exact Hwf. }
    destruct (map upcast_varr elems) as [|e r] eqn:Eup; [discriminate|].
    destruct (forallb (fun x => dtype_eqb (v_dt x) (v_dt e)) r) eqn:Hall; [|discriminate].
    destruct (valid_prop_dtype (v_dt e) && negb (String.eqb name "")); [|discriminate].
    inversion Hpm; subst pm; clear Hpm.
    destruct (serialize (e :: r)) as [[rows data]|err] eqn:Hser; [|discriminate].
    inversion Henc; subst v m d; clear Henc.
    pose proof Hwfu as Hwf.
    unfold load_prop. cbn [pm_varlength pm_dtype new_pm zp_values zp_missing zp_data mask_rows].
    assert (Hrd : a_dt (rows_arr rows) = DU64) by (unfold rows_arr; destruct rows; reflexivity).
    rewrite Hrd. cbn [dtype_eqb negb].
    assert (Hmiss : (match miss with
                     | None => Ok None
                     | Some m0 => if dtype_eqb (a_dt m0) DBool then Ok (Some m0) else Err OtherExn
                     end) = Ok miss).
    { destruct miss as [ma|]; [|reflexivity]. cbn in Hm. destruct Hm as [Hdt _]. rewrite Hdt. reflexivity. }
    rewrite Hmiss. cbn [rbind].
    cbn [data_arr a_dt ser_dtype a_flat]. rewrite dtype_eqb_refl. cbn [negb].
    rewrite (table_rows_rows_arr rows _ (serialize_rows_length _ _ _ _ Hser)).
    rewrite (serialize_deserialize _ _ _ Hwf Hser).
    f_equal. f_equal. f_equal.
    (* rebuilding each element with the common dtype gives the element back *)
    cbn [map]. f_equal.
    + destruct e; reflexivity.
    + clear -Hall. induction r as [|x xs IH]; cbn; [reflexivity|].
      cbn in Hall. apply andb_true_iff in Hall. destruct Hall as [H1 H2].
      apply dtype_eqb_eq in H1. rewrite IH; auto. destruct x; cbn in *. subst. reflexivity.
Qed.
