(* BackendsMdLemmas.v -- the round trip of the dict-based backends with caller metadata and axis lists
   (BackendsMd.v): write ok, store validates, read_to_memory ok, the canonical view is the written graph, the
   metadata read back is the caller's with `directed` of the GRAPH, the axes carry their tokens (type, unit,
   scale, scaled unit, offset) and min / max of the axis columns (C10Lemmas.minmax_axis_spec), the property
   entries are exactly the written properties. *)
From Geff Require Import Base Dtype DtypeLemmas Vlen VlenLemmas Tree TreeLemmas Validate Write Read RoundTrip WriteLemmas ReadLemmas
     ValidateLayout C01Lemmas C10Lemmas Dicts Backends BackendsLemmas DictsLemmas ListColLemmas C03Lemmas SgLemmas SgWriteLemmas BackendsMd.
From Coq Require Import Lia.
Open Scope string_scope.
Open Scope list_scope.

(* ---------- the new model extends the old one ---------- *)
Lemma dict_md_bare d axes mdtok axtok : dict_md None d (bare_axes axes axtok) mdtok = fresh_md d axes mdtok axtok.
Proof. unfold dict_md, bare_axes, fresh_md, upd_axes, cu_metadata. destruct axes as [names|]; cbn [option_map]; [|reflexivity].
  rewrite !map_map. cbn [fst snd]. rewrite map_id. destruct (has_dup names); reflexivity. Qed.

Lemma nx_write_md_bare k d g axes mdtok axtok :
  nx_write_md k d g None (bare_axes axes axtok) mdtok = nx_write k d g axes mdtok axtok.
Proof. unfold nx_write_md, nx_write. rewrite dict_md_bare. reflexivity. Qed.

Lemma rx_write_md_bare k d g idmap axes mdtok axtok :
  rx_write_md k d g idmap None (bare_axes axes axtok) mdtok = rx_write k d g idmap axes mdtok axtok.
Proof. unfold rx_write_md, rx_write. rewrite dict_md_bare. reflexivity. Qed.

(* ---------- has_dup: the length test of the model is NoDup ---------- *)
Lemma filter_length_le {A} (f : A -> bool) l : length (filter f l) <= length l.
Proof. induction l as [|x l IH]; cbn; [lia|]. destruct (f x); cbn; lia. Qed.

Lemma filter_length_all {A} (f : A -> bool) l : length (filter f l) = length l -> forall x, In x l -> f x = true.
Proof. induction l as [|y l IH]; cbn; intros H x Hx; [destruct Hx|].
  pose proof (filter_length_le f l) as Hle. destruct (f y) eqn:E; cbn in H; [|lia].
  destruct Hx as [<-|Hx]; [exact E | apply IH; [lia | exact Hx]]. Qed.

Lemma dedup_length_le l : length (dedup l) <= length l.
Proof. induction l as [|x l IH]; cbn [dedup length]; [lia|].
  pose proof (filter_length_le (fun y => negb (String.eqb x y)) (dedup l)). lia. Qed.

Lemma has_dup_false_nodup l : has_dup l = false -> NoDup l.
Proof. unfold has_dup. intro H. apply negb_false_iff, Nat.eqb_eq in H.
  induction l as [|x l IH]; [constructor|]. cbn [dedup length] in H.
  pose proof (filter_length_le (fun y => negb (String.eqb x y)) (dedup l)) as H1. pose proof (dedup_length_le l) as H2.
  assert (Hl : length (dedup l) = length l) by lia.
  constructor; [|apply IH; exact Hl].
  intro Hin. apply dedup_in in Hin.
  assert (Hf : length (filter (fun y => negb (String.eqb x y)) (dedup l)) = length (dedup l)) by lia.
  pose proof (filter_length_all _ _ Hf x Hin) as Hx. cbn in Hx. rewrite String.eqb_refl in Hx. discriminate. Qed.

(* what the two helpers do: `directed` is the graph's, whatever the caller's object says; everything else is the caller's,
   except the axes when axis names are given *)
Lemma dict_md_fields md d axes mdtok m : dict_md md d axes mdtok = Ok m ->
  md_directed m = d /\
  md_nprops m = match md with Some c => md_nprops c | None => [] end /\
  md_eprops m = match md with Some c => md_eprops c | None => [] end /\
  md_tok m = match md with Some c => md_tok c | None => mdtok end /\
  md_axes m = match axes with
              | Some l => Some (map (fun nt => mkax (fst nt) None None (snd nt)) l)
              | None => match md with Some c => md_axes c | None => None end
              end /\
  match axes with Some l => NoDup (map fst l) | None => True end.
Proof.
  unfold dict_md, upd_axes, cu_metadata. destruct axes as [l|].
  - destruct (has_dup (map fst l)) eqn:E; [discriminate|]. intro H. inversion H; subst m; clear H. cbn.
    destruct md; repeat split; try reflexivity.
    all: apply has_dup_false_nodup; exact E.
  - intro H. inversion H; subst m. destruct md; cbn; repeat split.
Qed.

(* ---------- dict_props_to_arr, entry by entry ---------- *)
Lemma dict_props_in data names : forall ps name p,
  dict_props_to_arr data names = Ok ps -> In (name, p) ps -> dict_prop (column data name) = Ok p.
Proof. unfold dict_props_to_arr. induction names as [|n names IH]; intros ps name p H Hin; cbn in H.
  - inversion H; subst. destruct Hin.
  - destruct (dict_prop (column data n)) as [p0|] eqn:E0; [|discriminate].
    match type of H with (match ?m with _ => _ end) = _ => destruct m as [r|] eqn:Er; [|discriminate] end.
    inversion H; subst ps; clear H. destruct Hin as [Heq|Hin].
    + inversion Heq; subst. exact E0.
    + exact (IH r name p eq_refl Hin). Qed.

Lemma dict_prop_missing col p : dict_prop col = Ok p -> p_missing p = missing_arr col.
Proof. unfold dict_prop. destruct (asarray (filled col)).
  - intro H. inversion H. reflexivity.
  - destruct (mapM elem_asarray (filled col)) as [elems|]; [|discriminate].
    destruct (construct (map Some elems)) as [[vs m]|]; [|discriminate]. intro H. inversion H. reflexivity.
  - discriminate. Qed.

Lemma filled_complete col : existsb is_none col = false -> filled col = somes col.
Proof. unfold filled. generalize (determine_default col) as dflt. induction col as [|[v|] r IH]; intros dflt H; cbn in *; [reflexivity | | discriminate].
  rewrite IH by exact H. reflexivity. Qed.

Lemma missing_arr_complete col : existsb is_none col = false -> missing_arr col = None.
Proof. unfold missing_arr. intros ->. reflexivity. Qed.

(* ---------- an axis column: present on every node, Python ints of one numpy dtype (int64, exactly convertible to float) or floats ---------- *)
Definition axis_dt (d : dtype) : Prop := d = DI64 \/ d = DF64.
Definition axis_exact (v : pyval) : Prop := match v with PInt z => (Z.abs z < 2 ^ 53)%Z | _ => True end.
Record axis_col (col : list (option pyval)) : Prop := {
  ac_nonempty : col <> [];
  ac_complete : existsb is_none col = false;
  ac_dt : exists d, col_dt col = Some d /\ axis_dt d;
  ac_exact : Forall axis_exact (somes col)
}.

(* what the stored axis says: name and token of the axis handed in, min / max of the column (as the float payload) *)
Definition axis_stored (data : list attrs) (ax ax' : axis) : Prop :=
  ax_name ax' = ax_name ax /\ ax_tok ax' = ax_tok ax /\
  exists d lo hi, col_dt (column data (ax_name ax)) = Some d /\
    is_min lo (map scalar_payload (somes (column data (ax_name ax)))) /\
    is_max hi (map scalar_payload (somes (column data (ax_name ax)))) /\
    ax_min ax' = Some (lo * (if is_float d then 1 else fscale))%Z /\
    ax_max ax' = Some (hi * (if is_float d then 1 else fscale))%Z.

(* the property stored for an axis column *)
Lemma axis_prop data names ps name : dict_props_to_arr data names = Ok ps -> In name (akeys ps) ->
  axis_col (column data name) ->
  exists d, col_dt (column data name) = Some d /\ axis_dt d /\
    In (name, mkprop (PFixed (mkarr d [length data] (map scalar_payload (somes (column data name))))) None) ps.
Proof.
  intros Hps Hin Hax. destruct (ac_dt _ Hax) as [d [Hd Hnum]]. exists d. split; [exact Hd|]. split; [exact Hnum|].
  apply in_map_iff in Hin. destruct Hin as [[nm p] [Hnm Hin]]. cbn in Hnm. subst nm.
  pose proof (dict_props_in _ _ _ _ _ Hps Hin) as Hp.
  destruct (scalar_column _ d Hd (ac_nonempty _ Hax)) as [p' [Hp' [_ Hv]]]. rewrite Hp in Hp'. inversion Hp'; subst p'; clear Hp'.
  pose proof (dict_prop_missing _ _ Hp) as Hm. rewrite (missing_arr_complete _ (ac_complete _ Hax)) in Hm.
  rewrite (filled_complete _ (ac_complete _ Hax)), column_length in Hv.
  destruct p as [pv pm]. cbn in Hv, Hm. subst pv pm. exact Hin.
Qed.

Lemma somes_nonempty {A} (col : list (option A)) : col <> [] -> existsb is_none col = false -> somes col <> [].
Proof. destruct col as [|[a|] r]; cbn; intros H1 H2; [contradiction | discriminate | discriminate]. Qed.

Lemma axis_dt_not_f16 d : axis_dt d -> dtype_eqb d DF16 = false.
Proof. intros [->| ->]; reflexivity. Qed.

(* compute_and_add_axis_min_max on such a property *)
Lemma minmax_axis_col (nps : props) ax d n vs : vs <> [] ->
  alookup (ax_name ax) nps = Some (mkprop (PFixed (mkarr d [n] vs)) None) -> n <> 0 ->
  exists lo hi, is_min lo vs /\ is_max hi vs /\
    minmax_axis nps ax = Ok (mkax (ax_name ax) (Some (lo * (if is_float d then 1 else fscale))%Z)
                                  (Some (hi * (if is_float d then 1 else fscale))%Z) (ax_tok ax)).
Proof.
  intros Hne Hl Hn. unfold minmax_axis. rewrite Hl. cbn [p_vals p_missing len0 a_shape axis_values a_flat a_dt].
  destruct n as [|n]; [contradiction|].
  destruct vs as [|x r]; [contradiction|]. cbn [zmin_list zmax_list].
  exists (fold_left Z.min r x), (fold_left Z.max r x). split; [apply fold_min_spec|]. split; [apply fold_max_spec | reflexivity].
Qed.

(* ---------- the premises on the metadata handed to write_dicts ---------- *)
Record md_dom (g : dgraph) (md : smeta) : Prop := {
  (* the caller's property entries name written properties only (otherwise the written geff fails its validation: C10 stale entry) *)
  mdd_nstale : forall k0, In k0 (akeys (md_nprops md)) -> In k0 (keys_of (map snd (d_nodes g)));
  mdd_estale : forall k0, In k0 (akeys (md_eprops md)) -> In k0 (keys_of (map snd (d_edges g)));
  (* every axis names a complete numeric scalar node property *)
  mdd_axes : forall axes ax, md_axes md = Some axes -> In ax axes -> axis_col (column (map snd (d_nodes g)) (ax_name ax))
}.

Lemma axis_col_key data name : axis_col (column data name) -> In name (keys_of data).
Proof. intros H. pose proof (ac_nonempty _ H) as Hne. pose proof (ac_complete _ H) as Hc.
  destruct data as [|a r]; [exfalso; apply Hne; reflexivity|]. cbn in Hc.
  destruct (alookup name a) as [v|] eqn:E; [|discriminate].
  apply (keys_of_complete (a :: r) a name v); [left; reflexivity | exact E]. Qed.

Lemma backfill_same nids md (nps : props) :
  (forall axes ax, md_axes md = Some axes -> In ax axes -> len0 nids <> Some 0) ->
  backfill nids md (Some nps) = Some nps.
Proof. intro H. unfold backfill. destruct (md_axes md) as [axes|] eqn:Ea; [|reflexivity].
  destruct (option_eqb Nat.eqb (len0 nids) (Some 0)) eqn:E; [|reflexivity].
  destruct axes as [|ax r]; [reflexivity|]. exfalso. apply (H (ax :: r) ax eq_refl (or_introl eq_refl)).
  destruct (len0 nids) as [[|m]|]; cbn in E; try discriminate. reflexivity. Qed.

(* ================= write_dicts(metadata) ; write_arrays ; read_to_memory ================= *)
Theorem dicts_roundtrip_md cvf k d g md : dom_dicts cvf d g -> md_directed md = d -> md_dom g md ->
  let ids := map fst (d_nodes g) in
  let es := map fst (d_edges g) in
  let ndata := map snd (d_nodes g) in
  exists tr post mg cg,
    write_dicts k g (keys_of ndata) (keys_of (map snd (d_edges g))) md (init None) = (mkst (Some post) tr, Ok tt) /\
    validate_structure k (Some post) = Ok tt /\
    read_to_memory k (Some post) true None None = Ok mg /\
    wf_geff mg ids es /\ md_directed (g_md mg) = d /\ md_tok (g_md mg) = md_tok md /\
    (forall k0, In k0 (akeys (md_nprops (g_md mg))) <-> In k0 (keys_of ndata)) /\
    (forall k0, In k0 (akeys (md_eprops (g_md mg))) <-> In k0 (keys_of (map snd (d_edges g)))) /\
    match md_axes md with
    | None => md_axes (g_md mg) = None
    | Some axes => exists axes', md_axes (g_md mg) = Some axes' /\ Forall2 (axis_stored ndata) axes axes'
    end /\
    props_fit (length ids) (g_nprops mg) /\ props_fit (length es) (g_eprops mg) /\
    dict_props_to_arr ndata (keys_of ndata) = Ok (g_nprops mg) /\
    dict_props_to_arr (map snd (d_edges g)) (keys_of (map snd (d_edges g))) = Ok (g_eprops mg) /\
    akeys (g_nprops mg) = keys_of ndata /\ akeys (g_eprops mg) = keys_of (map snd (d_edges g)) /\
    g_nids mg = mkarr DU64 [length ids] ids /\
    canon_geff mg = Ok cg /\
    cg_directed cg = d /\ map fst (cg_nodes cg) = ids /\ map fst (cg_edges cg) = es /\
    (forall i name, i < length ids ->
       alookup name (snd (nth i (cg_nodes cg) (0%Z, []))) = cv_lookup cvf (snd (nth i (d_nodes g) (0%Z, []))) name) /\
    (forall j name, j < length es ->
       alookup name (snd (nth j (cg_edges cg) ((0%Z, 0%Z), []))) = cv_lookup cvf (snd (nth j (d_edges g) ((0%Z, 0%Z), []))) name).
Proof.
  intros Hdom Hdir Hmd ids es ndata.
  set (edata := map snd (d_edges g)).
  assert (Hnlen : length ndata = length ids) by (unfold ndata, ids; rewrite !map_length; reflexivity).
  assert (Helen : length edata = length es) by (unfold edata, es; rewrite !map_length; reflexivity).
  destruct (dict_props_ok cvf ndata (keys_of ndata) (dd_ncols _ _ _ Hdom)) as [nps [Hnps [Hnk Hng]]].
  destruct (dict_props_ok cvf edata (keys_of edata) (dd_ecols _ _ _ Hdom)) as [eps [Heps [Hek Heg]]].
  assert (Hnnd : NoDup (akeys nps)) by (rewrite Hnk; apply keys_of_nodup).
  assert (Hend : NoDup (akeys eps)) by (rewrite Hek; apply keys_of_nodup).
  set (nids := mkarr DU64 [length ids] ids). set (eids := mkarr DU64 [length es; 2%nat] (flat_pairs es)).
  set (w := mkwg nids eids (Some nps) (Some eps)).
  assert (Hw : dicts_wgraph g (keys_of ndata) (keys_of edata) = Ok w).
  { unfold dicts_wgraph. fold ids es ndata edata.
    rewrite (node_ids_arr_ok ids (dd_range _ _ _ Hdom)).
    rewrite (edge_ids_arr_ok ids es (dd_range _ _ _ Hdom) (dd_endpoints _ _ _ Hdom)).
    rewrite Hnps, Heps. reflexivity. }
  destruct (good_wf_props cvf ndata nps (length ids) Hnlen Hnnd Hng) as [Hwfn [Hfitn Hupn]].
  destruct (good_wf_props cvf edata eps (length es) Helen Hend Heg) as [Hwfe [Hfite Hupe]].
  (* an axis means at least one node *)
  assert (Hnz : forall axes ax, md_axes md = Some axes -> In ax axes -> length ids <> 0).
  { intros axes ax Ha Hin E. pose proof (ac_nonempty _ (mdd_axes _ _ Hmd axes ax Ha Hin)) as Hne. apply Hne.
    apply length_zero_iff_nil. rewrite column_length. rewrite <- E. exact Hnlen. }
  assert (Hbf : backfill nids md (Some nps) = Some nps).
  { apply backfill_same. intros axes ax Ha Hin E. cbn in E. inversion E as [E']. exact (Hnz axes ax Ha Hin E'). }
  (* the property of every axis *)
  assert (Haxp : forall axes ax, md_axes md = Some axes -> In ax axes ->
            exists dt, col_dt (column ndata (ax_name ax)) = Some dt /\ axis_dt dt /\
              In (ax_name ax, mkprop (PFixed (mkarr dt [length ids] (map scalar_payload (somes (column ndata (ax_name ax)))))) None) nps).
  { intros axes ax Ha Hin. pose proof (mdd_axes _ _ Hmd axes ax Ha Hin) as Hcol.
    destruct (axis_prop ndata (keys_of ndata) nps (ax_name ax) Hnps) as [dt [H1 [H2 H3]]]; [rewrite Hnk; apply axis_col_key; exact Hcol | exact Hcol|].
    exists dt. rewrite Hnlen in H3. auto. }
  (* compute_and_add_axis_min_max succeeds *)
  set (md2 := mkmd (md_directed md) (md_axes md) (add_or_update (md_nprops md) (props_meta nps))
                   (add_or_update (md_eprops md) (props_meta eps)) (md_tok md)).
  assert (Hup' : map (fun kv : string * prop => (fst kv, upcast_prop (snd kv))) nps = nps) by exact Hupn.
  assert (Hmm : exists md', compute_minmax md2 nps = Ok md' /\
            match md_axes md with
            | None => md_axes md' = None
            | Some axes => exists axes', md_axes md' = Some axes' /\ Forall2 (axis_stored ndata) axes axes'
            end).
  { unfold compute_minmax. cbn [md_axes md2]. destruct (md_axes md) as [axes|] eqn:Ea.
    - destruct (mapM_exists (minmax_axis nps) (axis_stored ndata) axes) as [axes' [Hm HF]].
      { apply Forall_forall. intros ax Hin. destruct (Haxp axes ax eq_refl Hin) as [dt [Hdt [Hnum Hinp]]].
        pose proof (mdd_axes _ _ Hmd axes ax Ea Hin) as Hcol.
        assert (Hlk : alookup (ax_name ax) nps = Some (mkprop (PFixed (mkarr dt [length ids] (map scalar_payload (somes (column ndata (ax_name ax)))))) None)).
        { apply alookup_in_nodup; assumption. }
        assert (Hvs : map scalar_payload (somes (column ndata (ax_name ax))) <> []).
        { intro E. apply map_eq_nil in E. exact (somes_nonempty _ (ac_nonempty _ Hcol) (ac_complete _ Hcol) E). }
        destruct (minmax_axis_col nps ax dt (length ids) _ Hvs Hlk (Hnz axes ax eq_refl Hin)) as [lo [hi [Hlo [Hhi Hr]]]].
        eexists. split; [exact Hr|]. unfold axis_stored. cbn [ax_name ax_tok ax_min ax_max].
        split; [reflexivity|]. split; [reflexivity|]. exists dt, lo, hi. auto. }
      rewrite Hm. eexists. split; [reflexivity|]. cbn [md_axes]. exists axes'. auto.
    - eexists. split; [reflexivity|]. reflexivity. }
  destruct Hmm as [md' [Hcm Hax']].
  assert (Hfm : final_metadata w md = Ok md').
  { unfold final_metadata. cbn [w_nids w_nprops w_eprops w]. rewrite Hbf. rewrite Hup'. exact Hcm. }
  assert (Hwf : wf_input w md (length ids) (length es)).
  { constructor; try reflexivity.
    - cbn [w_nids w_nprops w]. rewrite Hbf. exact Hwfn.
    - exact Hwfe.
    - cbn [w_nids w_nprops w]. rewrite Hbf. cbn [names_of]. rewrite Hnk. apply (mdd_nstale _ _ Hmd).
    - cbn [w_eprops w names_of]. rewrite Hek. apply (mdd_estale _ _ Hmd).
    - intros axes Hax. exists nps. cbn [w_nids w_nprops w]. split; [exact Hbf|]. intros ax Hin.
      destruct (Haxp axes ax Hax Hin) as [dt [_ [_ Hinp]]]. eexists. exists (length ids). split; [exact Hinp | reflexivity]. }
  destruct (write_then_read k None w md md' (length ids) (length es) false I Hwf Hfm) as [tr [post [Hwr [Hval Hrd]]]].
  set (mg := mkmg md' nids eids nps eps).
  assert (Hrd' : read_to_memory k (Some post) true None None = Ok mg).
  { rewrite Hrd. unfold mg. cbn [w_nids w_eids w_nprops w_eprops w]. rewrite Hbf. f_equal. f_equal; [exact Hupn | exact Hupe]. }
  destruct (final_metadata_fields _ _ _ Hfm) as [_ [_ [Hd' [Ht' _]]]].
  destruct (props_entries w md md' _ _ Hwf Hfm) as [Hkn [Hke _]]. cbn [w_nids w_nprops w_eprops w] in Hkn, Hke. rewrite Hbf in Hkn.
  cbn [names_of] in Hkn, Hke. rewrite Hnk in Hkn. rewrite Hek in Hke.
  assert (Hwfg : wf_geff mg ids es).
  { constructor.
    - reflexivity.
    - unfold edge_rows, mg, eids. cbn [g_eids a_shape a_flat]. rewrite pairs_of_flat_pairs. reflexivity.
    - exact (dd_distinct _ _ _ Hdom).
    - cbn [g_md mg]. rewrite Hd', Hdir. exact (dd_edistinct _ _ _ Hdom).
    - exact (dd_endpoints _ _ _ Hdom). }
  destruct (canon_table_exists nps ids 0%Z Hnnd (good_total cvf ndata nps (length ids) Hnlen Hng)) as [ntbl [Hnt [Hnf Hns]]].
  destruct (canon_table_exists eps es (0%Z, 0%Z) Hend (good_total cvf edata eps (length es) Helen Heg)) as [etbl [Het [Hef Hes]]].
  exists tr, post, mg, (mkcg d ntbl etbl).
  split; [unfold write_dicts; fold ndata edata; rewrite Hw; exact Hwr|].
  split; [exact Hval|]. split; [exact Hrd'|]. split; [exact Hwfg|].
  split; [cbn [g_md mg]; rewrite Hd'; exact Hdir|]. split; [exact Ht'|]. split; [exact Hkn|]. split; [exact Hke|].
  split; [exact Hax'|]. split; [exact Hfitn|]. split; [exact Hfite|]. split; [exact Hnps|]. split; [exact Heps|].
  split; [exact Hnk|]. split; [exact Hek|]. split; [reflexivity|].
  split; [|split; [reflexivity|split; [exact Hnf|split; [exact Hef|split]]]].
  - unfold canon_geff. rewrite (wg_nodes _ _ _ Hwfg), (wg_edges _ _ _ Hwfg). unfold rbind.
    cbn [g_nprops g_eprops g_md mg]. rewrite Hnt, Het, Hd', Hdir. reflexivity.
  - intros i name Hi. cbn [cg_nodes]. rewrite (Hns i name Hi).
    rewrite (pval_of_columns cvf ndata nps i name ltac:(lia) Hnnd Hnk Hng).
    unfold ndata. rewrite (nth_map_d snd (d_nodes g) i (0%Z, []) []) by (unfold ids in Hi; rewrite map_length in Hi; exact Hi).
    reflexivity.
  - intros j name Hj. cbn [cg_edges]. rewrite (Hes j name Hj).
    rewrite (pval_of_columns cvf edata eps j name ltac:(lia) Hend Hek Heg).
    unfold edata. rewrite (nth_map_d snd (d_edges g) j ((0%Z, 0%Z), []) []) by (unfold es in Hj; rewrite map_length in Hj; exact Hj).
    reflexivity.
Qed.

(* ================= NxBackend.write / RxBackend.write with metadata and axis lists ================= *)
(* the axes the written geff declares: those of the lists when axis names are given, else the caller's *)
Definition eff_axes (mdc : option smeta) (axes : option (list (string * Z))) : option (list axis) :=
  match axes with
  | Some l => Some (map (fun nt => mkax (fst nt) None None (snd nt)) l)
  | None => match mdc with Some c => md_axes c | None => None end
  end.

(* the premises on the two arguments *)
Record args_dom (g : dgraph) (mdc : option smeta) (axes : option (list (string * Z))) : Prop := {
  ad_nodup : match axes with Some l => NoDup (map fst l) | None => True end;
  ad_nstale : forall c k0, mdc = Some c -> In k0 (akeys (md_nprops c)) -> In k0 (keys_of (map snd (d_nodes g)));
  ad_estale : forall c k0, mdc = Some c -> In k0 (akeys (md_eprops c)) -> In k0 (keys_of (map snd (d_edges g)));
  ad_axes : forall axs ax, eff_axes mdc axes = Some axs -> In ax axs -> axis_col (column (map snd (d_nodes g)) (ax_name ax))
}.

Definition eff_tok (mdc : option smeta) (mdtok : Z) : Z := match mdc with Some c => md_tok c | None => mdtok end.

Lemma args_dom_md g mdc axes d mdtok : args_dom g mdc axes ->
  exists m, dict_md mdc d axes mdtok = Ok m /\ md_dom g m /\ md_directed m = d /\
            md_axes m = eff_axes mdc axes /\ md_tok m = eff_tok mdc mdtok.
Proof.
  intros H.
  assert (Hok : exists m, dict_md mdc d axes mdtok = Ok m).
  { unfold dict_md, upd_axes. destruct axes as [l|]; [|eexists; reflexivity].
    assert (E : has_dup (map fst l) = false).
    { unfold has_dup. apply negb_false_iff, Nat.eqb_eq. f_equal. apply dedup_id. exact (ad_nodup _ _ _ H). }
    rewrite E. eexists. reflexivity. }
  destruct Hok as [m Hm]. exists m. split; [exact Hm|].
  destruct (dict_md_fields _ _ _ _ _ Hm) as [Hd [Hn [He [Ht [Ha _]]]]].
  split; [|split; [exact Hd|split; [exact Ha | exact Ht]]].
  constructor.
  - intros k0 Hk. rewrite Hn in Hk. destruct mdc as [c|]; [exact (ad_nstale _ _ _ H c k0 eq_refl Hk) | destruct Hk].
  - intros k0 Hk. rewrite He in Hk. destruct mdc as [c|]; [exact (ad_estale _ _ _ H c k0 eq_refl Hk) | destruct Hk].
  - intros axs ax Hax Hin. apply (ad_axes _ _ _ H axs ax); [|exact Hin]. rewrite <- Hax, Ha. reflexivity.
Qed.

(* what is read back beside the graph: the metadata *)
Definition md_back (g : dgraph) (d : bool) (mdc : option smeta) (axes : option (list (string * Z))) (mdtok : Z) (md' : smeta) : Prop :=
  md_directed md' = d /\
  md_tok md' = eff_tok mdc mdtok /\
  (forall k0, In k0 (akeys (md_nprops md')) <-> In k0 (keys_of (map snd (d_nodes g)))) /\
  (forall k0, In k0 (akeys (md_eprops md')) <-> In k0 (keys_of (map snd (d_edges g)))) /\
  match eff_axes mdc axes with
  | None => md_axes md' = None
  | Some axs => exists axes', md_axes md' = Some axes' /\ Forall2 (axis_stored (map snd (d_nodes g))) axs axes'
  end.

(* everything known about the geff a dict-based backend leaves behind (g: the dict graph handed to write_dicts) *)
Record written_ok (cvf : pyval -> option cval) (d : bool) (g : dgraph) (mdc : option smeta) (axes : option (list (string * Z)))
       (mdtok : Z) (post : znode) (mg : mgraph) (cg : cgraph) : Prop := {
  wo_valid : validate_structure KObj (Some post) = Ok tt;
  wo_read : read_to_memory KObj (Some post) true None None = Ok mg;
  wo_wf : wf_geff mg (map fst (d_nodes g)) (map fst (d_edges g));
  wo_nfit : props_fit (length (d_nodes g)) (g_nprops mg);
  wo_efit : props_fit (length (d_edges g)) (g_eprops mg);
  wo_nprops : dict_props_to_arr (map snd (d_nodes g)) (keys_of (map snd (d_nodes g))) = Ok (g_nprops mg);
  wo_eprops : dict_props_to_arr (map snd (d_edges g)) (keys_of (map snd (d_edges g))) = Ok (g_eprops mg);
  wo_nkeys : akeys (g_nprops mg) = keys_of (map snd (d_nodes g));
  wo_ekeys : akeys (g_eprops mg) = keys_of (map snd (d_edges g));
  wo_nids : g_nids mg = mkarr DU64 [length (d_nodes g)] (map fst (d_nodes g));
  wo_canon : canon_geff mg = Ok cg;
  wo_same : same_graph cvf d g cg;
  wo_md : md_back g d mdc axes mdtok (g_md mg)
}.

Lemma dicts_written_md cvf d g mdc axes mdtok m : dom_dicts cvf d g -> args_dom g mdc axes ->
  dict_md mdc d axes mdtok = Ok m ->
  exists tr post mg cg,
    write_dicts KObj g (keys_of (map snd (d_nodes g))) (keys_of (map snd (d_edges g))) m (init None) = (mkst (Some post) tr, Ok tt) /\
    written_ok cvf d g mdc axes mdtok post mg cg.
Proof.
  intros Hdom Hargs Hm0. destruct (args_dom_md g mdc axes d mdtok Hargs) as [m' [Hm [Hmd [Hdir [Hax Htok]]]]].
  rewrite Hm0 in Hm. inversion Hm; subst m'; clear Hm.
  destruct (dicts_roundtrip_md cvf KObj d g m Hdom Hdir Hmd)
    as (tr & post & mg & cg & Hw & Hval & Hrd & Hwf & Hd & Ht & Hkn & Hke & Haxes & Hfn & Hfe & Hdn & Hde & Hakn & Hake & Hnids & Hc & Hcd & Hn & He & Hna & Hea).
  exists tr, post, mg, cg. split; [exact Hw|]. rewrite !map_length in *.
  constructor; auto.
  - unfold same_graph. repeat split; auto.
  - unfold md_back. rewrite <- Hax, <- Htok. auto.
Qed.

Theorem nx_written_md cvf d g mdc axes mdtok : dom_dicts cvf d g -> args_dom g mdc axes ->
  exists post mg cg,
    run (api_write KObj (nx_write_md KObj d g mdc axes mdtok)) None = (Some post, Ok tt) /\
    written_ok cvf d g mdc axes mdtok post mg cg.
Proof.
  intros Hdom Hargs. destruct (args_dom_md g mdc axes d mdtok Hargs) as [m [Hm _]].
  destruct (dicts_written_md cvf d g mdc axes mdtok m Hdom Hargs Hm) as [tr [post [mg [cg [Hw Hok]]]]].
  exists post, mg, cg. split; [|exact Hok].
  apply (run_api_write KObj _ post tr). unfold nx_write_md, bind, lift. rewrite Hm. exact Hw.
Qed.

Theorem rx_written_md cvf d g idmap g' mdc axes mdtok : rx_target idmap g = Ok g' -> dom_dicts cvf d g' -> args_dom g' mdc axes ->
  exists post mg cg,
    run (api_write KObj (rx_write_md KObj d g idmap mdc axes mdtok)) None = (Some post, Ok tt) /\
    written_ok cvf d g' mdc axes mdtok post mg cg.
Proof.
  intros Htg Hdom Hargs. destruct (args_dom_md g' mdc axes d mdtok Hargs) as [m [Hm _]].
  destruct (dicts_written_md cvf d g' mdc axes mdtok m Hdom Hargs Hm) as [tr [post [mg [cg [Hw Hok]]]]].
  exists post, mg, cg. split; [|exact Hok].
  apply (run_api_write KObj _ post tr). unfold rx_write_md, bind, lift. rewrite Hm, Htg. exact Hw.
Qed.

(* the same-library round trips with every metadata call shape *)
Theorem nx_roundtrip_md cvf d g mdc axes mdtok : dom_dicts cvf d g -> args_dom g mdc axes ->
  exists post mg cg,
    run (api_write KObj (nx_write_md KObj d g mdc axes mdtok)) None = (Some post, Ok tt) /\
    validate_structure KObj (Some post) = Ok tt /\
    read_to_memory KObj (Some post) true None None = Ok mg /\
    nx_construct mg = Ok cg /\
    same_graph cvf d g cg /\
    md_back g d mdc axes mdtok (g_md mg).
Proof.
  intros Hdom Hargs. destruct (nx_written_md cvf d g mdc axes mdtok Hdom Hargs) as [post [mg [cg [Hw Hok]]]].
  exists post, mg, cg. split; [exact Hw|]. split; [exact (wo_valid _ _ _ _ _ _ _ _ _ Hok)|]. split; [exact (wo_read _ _ _ _ _ _ _ _ _ Hok)|].
  split; [eapply nx_construct_canon; [exact (wo_wf _ _ _ _ _ _ _ _ _ Hok) | exact (wo_canon _ _ _ _ _ _ _ _ _ Hok)]|].
  split; [exact (wo_same _ _ _ _ _ _ _ _ _ Hok) | exact (wo_md _ _ _ _ _ _ _ _ _ Hok)].
Qed.

Theorem rx_roundtrip_md cvf d g idmap g' mdc axes mdtok : rx_target idmap g = Ok g' -> dom_dicts cvf d g' -> args_dom g' mdc axes ->
  exists post mg r cg,
    run (api_write KObj (rx_write_md KObj d g idmap mdc axes mdtok)) None = (Some post, Ok tt) /\
    validate_structure KObj (Some post) = Ok tt /\
    read_to_memory KObj (Some post) true None None = Ok mg /\
    rx_construct mg = Ok r /\ canon_rx r = Some cg /\
    same_graph cvf d g' cg /\
    md_back g' d mdc axes mdtok (g_md mg).
Proof.
  intros Htg Hdom Hargs. destruct (rx_written_md cvf d g idmap g' mdc axes mdtok Htg Hdom Hargs) as [post [mg [cg [Hw Hok]]]].
  pose proof (wo_nfit _ _ _ _ _ _ _ _ _ Hok) as Hfn. pose proof (wo_efit _ _ _ _ _ _ _ _ _ Hok) as Hfe.
  rewrite <- (map_length fst (d_nodes g')) in Hfn. rewrite <- (map_length fst (d_edges g')) in Hfe.
  destruct (rx_construct_canon mg _ _ cg (wo_wf _ _ _ _ _ _ _ _ _ Hok) Hfn Hfe (wo_canon _ _ _ _ _ _ _ _ _ Hok)) as [r [Hr Hcr]].
  exists post, mg, r, cg. split; [exact Hw|]. split; [exact (wo_valid _ _ _ _ _ _ _ _ _ Hok)|]. split; [exact (wo_read _ _ _ _ _ _ _ _ _ Hok)|].
  split; [exact Hr|]. split; [exact Hcr|]. split; [exact (wo_same _ _ _ _ _ _ _ _ _ Hok) | exact (wo_md _ _ _ _ _ _ _ _ _ Hok)].
Qed.
