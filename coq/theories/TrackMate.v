(* TrackMate.v -- model of geff.convert._trackmate_xml.from_trackmate_xml_to_geff (as repaired: the
   TRACK_ID lineage property is declared only when a node carries one) together with the part of
   NxBackend.write / write_dicts / dict_props_to_arr it exercises, and of the lineage branch of
   validate_data (as repaired: nodes whose lineage id is flagged missing are left out).

   Abstraction boundary: lxml.  The model input `tm` is the parsed document: Model units, feature
   declarations, spots (attributes + text), tracks (attributes + edges), FilteredTracks ids, which
   optional sections exist.  An XML attribute value enters as `raw`: a token of its text (stok, an
   injective numbering of byte strings) plus what Python's int() / float() make of it.  Floats are the
   payloads of Dtype.v (value * 2^10; NaN / inf are opaque tokens).

   Function by function, in the order of the Python: _preliminary_checks, _build_data (_get_units,
   _get_attributes_metadata, _add_all_nodes with _convert_attributes / _convert_ROI_coordinates,
   _build_tracks with _add_edge stamping TRACK_ID, the two discard options at their positions in the
   stream, _get_filtered_tracks_ID), _extract_props_metadata, _ensure_data_metadata_consistency,
   _extract_image_path, _build_geff_metadata, NxBackend.write (networkx iteration orders),
   write_dicts (id arrays, dict_props_to_arr, _determine_default_value, np.asarray dtype inference on the
   value kinds that occur, construct_var_len_props through Vlen.construct), then write_arrays (Write.v).
   The observable is read_to_memory (Read.v) of what is left at the target.
   Model only; proofs in TrackMateLemmas.v. *)
From Geff Require Import Base Dtype Vlen Tree Validate Write Read GraphVal Reach Tracks.
From Geff.Gen Require Import Consts.
Open Scope string_scope.
Open Scope list_scope.
Open Scope Z_scope.

(* ---------- strings as tokens: an injective numbering of byte strings ---------- *)
Fixpoint stok_go (acc : Z) (s : string) : Z :=
  match s with
  | EmptyString => acc
  | String c r => stok_go (acc * 256 + Z.of_nat (nat_of_ascii c)) r
  end.
Definition stok (s : string) : Z := stok_go 1 s.
Definition sapp (a b : string) : string := String.append a b.

(* ---------- the parsed document ---------- *)
(* what int(text) / float(text) return: PInt z f (both succeed; f = payload of float(text)),
   PFlt f (only float succeeds), PStr (neither) *)
Inductive parse := PInt (z f : Z) | PFlt (f : Z) | PStr.
Record raw := mkraw { r_tok : Z; r_parse : parse }.
Definition xattrs := list (string * raw).                 (* element.attrib in document order *)

(* <Feature feature= name= isint= dimension= /> ; isint: Some true iff the text is "true" *)
Record decl := mkdecl { d_feat : string; d_name : option string; d_isint : option bool; d_dim : option string }.
(* <Spot ...>text</Spot>: the float payloads of element.text.split(); None when there is no text *)
Record spot := mkspot { sp_attrs : xattrs; sp_text : option (list Z) }.
Record track := mktrack { tr_attrs : xattrs; tr_edges : list xattrs }.

Record tm := mktm {
  tm_exists : bool;                                       (* the XML file exists *)
  tm_version : option string;                             (* <TrackMate version=...> *)
  tm_space : option string; tm_time : option string;      (* <Model spatialunits= timeunits=> *)
  tm_decls : option (list decl * list decl * list decl);  (* FeatureDeclarations: Spot / Edge / Track features *)
  tm_spots : option (list spot);                          (* AllSpots, SpotsInFrame flattened in document order *)
  tm_tracks : option (list track);                        (* AllTracks *)
  tm_filtered : option (list (option raw));               (* FilteredTracks: TRACK_ID attribute of each TrackID *)
  tm_image : option (option (string * string));           (* Settings present? its ImageData (filename, folder) *)
  tm_log : bool; tm_gui : bool; tm_disp : bool }.         (* Log / GUIState / DisplaySettings present *)

(* ---------- values held by the networkx graph ---------- *)
Inductive val := VInt (z : Z) | VFlt (f : Z) | VStr (r : raw) | VRoi (pts : option (list (list Z))).
Definition attrs := list (string * val).

(* Python == between values that can be a track id *)
Definition val_eqb (a b : val) : bool :=
  match a, b with
  | VInt x, VInt y => x =? y
  | VFlt x, VFlt y => x =? y
  | VInt x, VFlt y => x * fscale =? y
  | VFlt x, VInt y => x =? y * fscale
  | VStr x, VStr y => r_tok x =? r_tok y
  | _, _ => false
  end.

(* int(v) *)
Definition to_int (v : val) : res Z :=
  match v with
  | VInt z => Ok z
  | VFlt f => Ok (Z.quot f fscale)
  | VStr r => match r_parse r with PInt z _ => Ok z | _ => Err ValueError end
  | VRoi _ => Err TypeError
  end.

(* ---------- _get_attributes_metadata: one dict over Spot, Edge and Track features (last wins) ---------- *)
Definition mdmap := list (string * option bool).
Definition merge_decls (ds : list decl) : mdmap :=
  fold_left (fun acc d => aset (d_feat d) (d_isint d) acc) ds [].
Definition attrs_md (d : tm) : mdmap :=
  match tm_decls d with
  | Some (s, e, t) => merge_decls (s ++ e ++ t)
  | None => []
  end.

(* ---------- _convert_attributes ---------- *)
Definition conv_int (r : raw) : res val :=
  match r_parse r with PInt z _ => Ok (VInt z) | _ => Err ValueError end.
Definition conv_one (md : mdmap) (k : string) (r : raw) : res val :=
  match alookup k md with
  | Some None => Err KeyError                              (* attrs_metadata[key]["isint"] *)
  | Some (Some true) => conv_int r
  | Some (Some false) =>
      match r_parse r with
      | PInt _ f => Ok (VFlt f)
      | PFlt f => Ok (VFlt f)
      | PStr => Ok (VStr r)                                (* "Then it's a string and no need to convert" *)
      end
  | None =>
      if String.eqb k "ID" || String.eqb k "ROI_N_POINTS" then conv_int r
      else Ok (VStr r)                                     (* "name", or unknown (warning): left as text *)
  end.
Definition convert_attributes (md : mdmap) (a : xattrs) : res attrs :=
  mapM (fun kv => match conv_one md (fst kv) (snd kv) with Ok v => Ok (fst kv, v) | Err e => Err e end) a.

(* ---------- _convert_ROI_coordinates ---------- *)
(* [coords[i : i + d] for i in range(0, len(coords), d)] *)
Fixpoint chunk_by (fuel d : nat) (l : list Z) : list (list Z) :=
  match fuel with
  | O => []
  | S f => match l with [] => [] | _ => firstn d l :: chunk_by f d (skipn d l) end
  end.
Definition convert_roi (sp : spot) (a : attrs) : res attrs :=
  match alookup "ROI_N_POINTS" a with
  | None => Err KeyError
  | Some v =>
      match sp_text sp with
      | None => Ok (aset "ROI_coords" (VRoi None) a)
      | Some coords =>
          match v with
          | VInt n =>
              if n <=? 0 then Err OtherExn                 (* ZeroDivisionError; negative counts are outside the model *)
              else
                let d := Z.to_nat (Z.of_nat (length coords) / n) in
                match d with
                | O => Err ValueError                      (* range() arg 3 must not be zero *)
                | _ => Ok (aset "ROI_coords" (VRoi (Some (chunk_by (length coords) d coords))) a)
                end
          | _ => Err TypeError                             (* "ROI_N_POINTS should be an integer." *)
          end
      end
  end.

(* ---------- the networkx DiGraph ---------- *)
Record graph := mkg { g_nodes : list (Z * attrs); g_edges : list (edge * attrs) }.
Definition empty_graph : graph := mkg [] [].

Definition dict_update (old new : attrs) : attrs :=
  fold_left (fun acc kv => aset (fst kv) (snd kv) acc) new old.
Fixpoint add_node (id : Z) (a : attrs) (ns : list (Z * attrs)) : list (Z * attrs) :=
  match ns with
  | [] => [(id, a)]
  | (k, b) :: r => if k =? id then (k, dict_update b a) :: r else (k, b) :: add_node id a r
  end.
Fixpoint add_edge_attrs (e : edge) (a : attrs) (es : list (edge * attrs)) : list (edge * attrs) :=
  match es with
  | [] => [(e, a)]
  | (k, b) :: r => if pair_eqb k e then (k, dict_update b a) :: r else (k, b) :: add_edge_attrs e a r
  end.
Fixpoint node_attrs (id : Z) (ns : list (Z * attrs)) : option attrs :=
  match ns with
  | [] => None
  | (k, b) :: r => if k =? id then Some b else node_attrs id r
  end.
Definition set_node_attr (id : Z) (k : string) (v : val) (ns : list (Z * attrs)) : list (Z * attrs) :=
  map (fun n : Z * attrs => if fst n =? id then (fst n, aset k v (snd n)) else n) ns.

(* graph.add_edge(u, v); nx.set_edge_attributes(graph, {(u, v): attrs}) *)
Definition graph_add_edge (u v : Z) (a : attrs) (g : graph) : graph :=
  mkg (add_node v [] (add_node u [] (g_nodes g))) (add_edge_attrs (u, v) a (g_edges g)).

(* in-degree + out-degree (a self loop counts twice) *)
Definition degree (es : list (edge * attrs)) (n : Z) : nat :=
  Nat.add (length (filter (fun e : edge * attrs => fst (fst e) =? n) es)) (length (filter (fun e : edge * attrs => snd (fst e) =? n) es)).
Definition remove_nodes (rm : list Z) (g : graph) : graph :=
  mkg (filter (fun n : Z * attrs => negb (zmem (fst n) rm)) (g_nodes g))
      (filter (fun e : edge * attrs => negb (zmem (fst (fst e)) rm) && negb (zmem (snd (fst e)) rm)) (g_edges g)).

(* ---------- _add_all_nodes ---------- *)
Fixpoint add_all_nodes (md : mdmap) (seg : bool) (sps : list spot) (g : graph) : res (graph * bool) :=
  match sps with
  | [] => Ok (g, seg)
  | sp :: r =>
      match convert_attributes md (sp_attrs sp) with
      | Err e => Err e
      | Ok a =>
          let seg' := seg || ahas "ROI_N_POINTS" a in
          match (if seg' then convert_roi sp a else Ok a) with
          | Err e => Err e
          | Ok a' =>
              match alookup "ID" a' with
              | None => add_all_nodes md seg' r g                      (* warning: node not added *)
              | Some (VInt id) => add_all_nodes md seg' r (mkg (add_node id a' (g_nodes g)) (g_edges g))
              | Some _ => Err OtherExn                                 (* a non-integer ID is outside the model *)
              end
          end
      end
  end.

(* ---------- _add_edge ---------- *)
Definition stamp (u : Z) (tid : val) (g : graph) : res graph :=
  match node_attrs u (g_nodes g) with
  | None => Err OtherExn
  | Some a =>
      match alookup "TRACK_ID" a with
      | None => Ok (mkg (set_node_attr u "TRACK_ID" tid (g_nodes g)) (g_edges g))
      | Some t => if val_eqb t tid then Ok g else Err AssertionError
      end
  end.
Definition add_edge (md : mdmap) (tid : val) (g : graph) (ea : xattrs) : res graph :=
  match convert_attributes md ea with
  | Err e => Err e
  | Ok a =>
      match alookup "SPOT_SOURCE_ID" a with
      | None => Ok g                                                   (* KeyError: warning, edge skipped *)
      | Some s =>
          match to_int s with
          | Err e => Err e
          | Ok u =>
              match alookup "SPOT_TARGET_ID" a with
              | None => Ok g
              | Some t =>
                  match to_int t with
                  | Err e => Err e
                  | Ok v =>
                      match stamp u tid (graph_add_edge u v a g) with
                      | Err e => Err e
                      | Ok g' => stamp v tid g'
                      end
                  end
              end
          end
      end
  end.

Fixpoint add_edges (md : mdmap) (tid : val) (g : graph) (es : list xattrs) : res graph :=
  match es with
  | [] => Ok g
  | ea :: r => match add_edge md tid g ea with Err e => Err e | Ok g' => add_edges md tid g' r end
  end.

(* ---------- _build_tracks ---------- *)
Fixpoint build_tracks (md : mdmap) (trs : list track) (g : graph) : res graph :=
  match trs with
  | [] => Ok g
  | tr :: r =>
      match convert_attributes md (tr_attrs tr) with
      | Err e => Err e
      | Ok ta =>
          match alookup "TRACK_ID" ta with
          | None => Err KeyError
          | Some tid =>
              match add_edges md tid g (tr_edges tr) with
              | Err e => Err e
              | Ok g' => build_tracks md r g'
              end
          end
      end
  end.

(* ---------- the discard options ---------- *)
Definition lone_nodes (g : graph) : list Z :=
  map fst (filter (fun n : Z * attrs => Nat.eqb (degree (g_edges g) (fst n)) 0) (g_nodes g)).
Definition discard_lone (g : graph) : graph := remove_nodes (lone_nodes g) g.

(* _get_filtered_tracks_ID: int(attrs["TRACK_ID"]); an element without the attribute is skipped with a warning *)
Fixpoint filtered_ids (l : list (option raw)) : res (list Z) :=
  match l with
  | [] => Ok []
  | None :: r => filtered_ids r
  | Some x :: r =>
      match r_parse x with
      | PInt z _ => match filtered_ids r with Ok zs => Ok (z :: zs) | Err e => Err e end
      | _ => Err ValueError
      end
  end.
(* t is None or t not in id_to_keep *)
Definition not_kept (keep : list Z) (t : option val) : bool :=
  match t with
  | None => true
  | Some (VInt z) => negb (zmem z keep)
  | Some (VFlt f) => negb ((f mod fscale =? 0) && zmem (f / fscale) keep)
  | Some _ => true
  end.
Definition unkept_nodes (keep : list Z) (g : graph) : list Z :=
  map fst (filter (fun n : Z * attrs => not_kept keep (alookup "TRACK_ID" (snd n))) (g_nodes g)).
Definition discard_tracks (keep : list Z) (g : graph) : graph := remove_nodes (unkept_nodes keep g) g.

(* ---------- _build_data ---------- *)
Definition build_data (d : tm) (dspots dtracks : bool) : res (graph * bool) :=
  let md := attrs_md d in
  match (match tm_spots d with Some sps => add_all_nodes md false sps empty_graph | None => Ok (empty_graph, false) end) with
  | Err e => Err e
  | Ok (g1, seg) =>
      match (match tm_tracks d with
             | Some trs => match build_tracks md trs g1 with
                           | Ok g => Ok (if dspots then discard_lone g else g)
                           | Err e => Err e
                           end
             | None => Ok g1
             end) with
      | Err e => Err e
      | Ok g2 =>
          match tm_filtered d with
          | None => Ok (g2, seg)
          | Some f =>
              match filtered_ids f with
              | Err e => Err e
              | Ok keep => Ok (if dtracks then discard_tracks keep g2 else g2, seg)
              end
          end
      end
  end.

(* ---------- _extract_props_metadata ---------- *)
Definition space_unit (d : tm) : string := match tm_space d with Some s => s | None => "pixel" end.
Definition time_unit (d : tm) : string := match tm_time d with Some s => s | None => "frame" end.

(* _DIMENSION_UNIT_TEMPLATES *)
Definition dim_unit (space time dim : string) : option string :=
  if smem dim ["NONE"; "QUALITY"; "COST"; "INTENSITY"; "INTENSITY_SQUARED"; "STRING"] then Some "None"
  else if smem dim ["POSITION"; "LENGTH"] then Some space
  else if String.eqb dim "TIME" then Some time
  else if String.eqb dim "VELOCITY" then Some (sapp space (sapp " / " time))
  else if String.eqb dim "AREA" then Some (sapp space "^2")
  else if String.eqb dim "ANGLE" then Some "radian"
  else if String.eqb dim "RATE" then Some (sapp "1 / " time)
  else if String.eqb dim "ANGLE_RATE" then Some (sapp "radian / " time)
  else None.

Record fmeta := mkfm { fm_int : bool; fm_varlen : bool; fm_unit : option string; fm_name : string; fm_descr : option string }.
Definition fmetas := list (string * fmeta).

(* _process_feature_metadata *)
Definition process_feature (space time : string) (acc : fmetas) (dc : decl) : res fmetas :=
  if ahas (d_feat dc) acc then Err ValueError                         (* duplicate feature identifier *)
  else
    match d_isint dc with
    | None => Err ValueError                                           (* missing field isint *)
    | Some b =>
        match d_dim dc with
        | None => Err ValueError                                       (* unknown dimension 'None' *)
        | Some dim =>
            match dim_unit space time dim with
            | None => Err ValueError
            | Some u =>
                let name := match d_name dc with Some n => n | None => d_feat dc end in
                Ok (acc ++ [(d_feat dc, mkfm b false (Some u) name None)])
            end
        end
    end.
Fixpoint process_features (space time : string) (acc : fmetas) (ds : list decl) : res fmetas :=
  match ds with
  | [] => Ok acc
  | dc :: r => match process_feature space time acc dc with Err e => Err e | Ok acc' => process_features space time acc' r end
  end.

Definition roi_npoints_md : fmeta :=
  mkfm true false None "ROI number of points" (Some "Number of points defining the spot ROI.").
Definition roi_coords_md (unit : option string) : fmeta :=
  mkfm false true unit "ROI coordinates" (Some "List of coordinates of the spot ROI relative to the spot center.").

Definition extract_props_metadata (d : tm) (seg : bool) : res (fmetas * fmetas * fmetas) :=
  match tm_decls d with
  | None => Err KeyError                                               (* tags_data["FeatureDeclarations"] *)
  | Some (sd, ed, td) =>
      let sp := space_unit d in let ti := time_unit d in
      match process_features sp ti [] sd with
      | Err e => Err e
      | Ok nmd =>
          match process_features sp ti [] ed with
          | Err e => Err e
          | Ok emd =>
              match process_features sp ti [] td with
              | Err e => Err e
              | Ok lmd =>
                  if seg then
                    match alookup "POSITION_X" nmd with
                    | None => Err KeyError
                    | Some px =>
                        Ok (aset "ROI_coords" (roi_coords_md (match fm_unit px with Some u => Some u | None => Some "pixel" end))
                              (aset "ROI_N_POINTS" roi_npoints_md nmd), emd, lmd)
                    end
                  else Ok (nmd, emd, lmd)
              end
          end
      end
  end.

(* _ensure_data_metadata_consistency: entries naming a property that no element carries are dropped *)
Definition prune_md (elts : list attrs) (m : fmetas) : fmetas :=
  filter (fun kv : string * fmeta => existsb (fun a : attrs => ahas (fst kv) a) elts) m.

(* ---------- _extract_image_path / _build_geff_metadata ---------- *)
Definition image_path (d : tm) : option string :=
  match tm_image d with
  | Some (Some (fn, fo)) =>
      if String.eqb fn "" then (if String.eqb fo "" then None else Some fo)
      else if String.eqb fo "" then Some fn
      else Some (sapp fo (sapp "/" fn))
  | _ => None
  end.

Definition pm_of (f : fmeta) : pmeta :=
  mkpm (if fm_int f then DI64 else DF64) (fm_varlen f)
       (option_map (fun u => stok (sapp "u:" u)) (fm_unit f))
       (Some (stok (sapp "n:" (fm_name f))))
       (option_map (fun s => stok (sapp "d:" s)) (fm_descr f)).

(* the axis type travels in the opaque axis token (1 = time, 2 = space); the units are in tmextra *)
Definition tok_time : Z := 1.
Definition tok_space : Z := 2.
Definition tm_axes : list axis :=
  [mkax "POSITION_X" None None tok_space; mkax "POSITION_Y" None None tok_space;
   mkax "POSITION_Z" None None tok_space; mkax "POSITION_T" None None tok_time].

(* what the metadata says beside what smeta holds *)
Record tmextra := mkx {
  x_lineage : option string;                              (* track_node_props["lineage"] *)
  x_axes : list (string * string * string);               (* name, type, unit *)
  x_related : list (string * string);                     (* related objects: type, path *)
  x_version : string;                                     (* extra.other_trackmate_metadata.trackmate_version *)
  x_lineage_md : list (string * (bool * string * string));(* ...lineage_props_metadata: key -> (is int, name, unit) *)
  x_tags : list string }.                                 (* further keys of other_trackmate_metadata, in order *)

Definition has_track_ids (g : graph) : bool := existsb (fun n : Z * attrs => ahas "TRACK_ID" (snd n)) (g_nodes g).

Definition extra_of (d : tm) (g : graph) (lmd : fmetas) : tmextra :=
  mkx (if has_track_ids g then Some "TRACK_ID" else None)
      [("POSITION_X", "space", space_unit d); ("POSITION_Y", "space", space_unit d);
       ("POSITION_Z", "space", space_unit d); ("POSITION_T", "time", time_unit d)]
      (match image_path d with Some p => [("image", p)] | None => [] end)
      (match tm_version d with Some v => if String.eqb v "" then "unknown" else v | None => "unknown" end)
      (map (fun kv => (fst kv, (fm_int (snd kv), fm_name (snd kv), match fm_unit (snd kv) with Some u => u | None => "" end))) lmd)
      ((if tm_log d then ["log"] else []) ++ (match tm_image d with Some _ => ["settings"] | None => [] end)
       ++ (if tm_gui d then ["gui_state"] else []) ++ (if tm_disp d then ["display_settings"] else [])).

(* ---------- NxBackend.write / write_dicts ---------- *)
(* graph.edges(data=True): by source node in node order, then by insertion of the target *)
Definition edges_out (g : graph) : list (edge * attrs) :=
  flat_map (fun n : Z * attrs => filter (fun e : edge * attrs => fst (fst e) =? fst n) (g_edges g)) (g_nodes g).

Definition eflat (es : list edge) : list Z := flat_map (fun e : edge => [fst e; snd e]) es.

(* np.asarray(node_ids) ... .astype("uint"); ids from 2^63 on leave the int64 inference of numpy: outside the model *)
Definition ids_arr (ids : list Z) : res arr :=
  match ids with
  | [] => Ok (mkarr DU64 [0%nat] [])
  | _ => if existsb (fun z => z <? 0) ids then Err ValueError
         else if forallb (fun z => z <? 2 ^ 63) ids then Ok (mkarr DU64 [length ids] ids)
         else Err OtherExn
  end.

(* {k for _, data in ... for k in data}: a set (order immaterial: properties form a dict) *)
Definition keys_of (elts : list attrs) : list string := dedup String.eqb (flat_map (fun a : attrs => akeys a) elts).

(* _determine_default_value *)
Fixpoint first_present (name : string) (elts : list attrs) : option val :=
  match elts with
  | [] => None
  | a :: r => match alookup name a with Some v => Some v | None => first_present name r end
  end.
Definition empty_str : raw := mkraw (stok "") PStr.
Definition default_val (v : val) : val :=
  match v with
  | VInt _ | VFlt _ => VInt 0
  | VStr _ => VStr empty_str
  | VRoi p => VRoi p
  end.
Definition col_default (name : string) (elts : list attrs) : val :=
  match first_present name elts with Some v => default_val v | None => VInt 0 end.
Definition col_values (name : string) (elts : list attrs) : list val :=
  map (fun a : attrs => match alookup name a with Some v => v | None => col_default name elts end) elts.
Definition col_missing (name : string) (elts : list attrs) : list bool :=
  map (fun a : attrs => negb (ahas name a)) elts.

(* np.asarray(values) on the kinds of value lists that occur *)
Definition is_vint (v : val) : bool := match v with VInt _ => true | _ => false end.
Definition is_vnum (v : val) : bool := match v with VInt _ | VFlt _ => true | _ => false end.
Definition is_vstr (v : val) : bool := match v with VStr _ => true | _ => false end.
Definition is_vroi (v : val) : bool := match v with VRoi _ => true | _ => false end.
Definition zof (v : val) : Z := match v with VInt z => z | VFlt f => f | VStr r => r_tok r | VRoi _ => 0 end.
Definition fof (v : val) : Z := match v with VInt z => cast_payload DI64 DF64 z | VFlt f => f | _ => 0 end.

(* shape of np.asarray(pts) for a list of equally long tuples *)
Definition rect (pts : list (list Z)) : option (nat * nat) :=
  match pts with
  | [] => None
  | p :: r => if forallb (fun q => Nat.eqb (length q) (length p)) r then Some (length pts, length p) else None
  end.
Definition roi_elem (v : val) : res (nat * nat * list Z) :=
  match v with
  | VRoi (Some pts) => match rect pts with Some sh => Ok (sh, List.concat pts) | None => Err ValueError end
  | _ => Err OtherExn                                     (* a None ROI (no text) is outside the model *)
  end.
Definition sh_eqb (a b : nat * nat) : bool := Nat.eqb (fst a) (fst b) && Nat.eqb (snd a) (snd b).
Definition roi_varr (e : nat * nat * list Z) : varr := Build_varr DF64 [fst (fst e); snd (fst e)] (snd e).
Definition roi_arr (n : nat) (vals : list val) : res pvals :=
  match mapM roi_elem vals with
  | Err e => Err e
  | Ok [] => Err OtherExn
  | Ok (e0 :: es) =>
      if forallb (fun e => sh_eqb (fst e) (fst e0)) es
      then Ok (PFixed (mkarr DF64 [n; fst (fst e0); snd (fst e0)] (flat_map (fun e => snd e) (e0 :: es))))
      else (* ValueError (inhomogeneous shape) -> construct_var_len_props(values)["values"] *)
        match construct (map (fun e => Some (roi_varr e)) (e0 :: es)) with
        | Ok (elems, _) => Ok (PVlen elems)
        | Err e => Err e
        end
  end.

Definition col_arr (vals : list val) : res pvals :=
  let n := length vals in
  if forallb is_vint vals then
    (if forallb (fun v => in_range DI64 (zof v)) vals then Ok (PFixed (mkarr DI64 [n] (map zof vals)))
     else Err OtherExn)                                   (* beyond int64 numpy infers uint64 / float64 / object *)
  else if forallb is_vnum vals then Ok (PFixed (mkarr DF64 [n] (map fof vals)))
  else if forallb is_vstr vals then Ok (PFixed (mkarr DStr [n] (map zof vals)))
  else if forallb is_vroi vals then roi_arr n vals
  else Err OtherExn.                                      (* mixed kinds: numpy stringifies; outside the model *)

Definition b2z (b : bool) : Z := if b then 1 else 0.
Definition missing_arr (miss : list bool) : option arr :=
  if existsb (fun b => b) miss then Some (mkarr DBool [length miss] (map b2z miss)) else None.

(* dict_props_to_arr *)
Definition prop_of (elts : list attrs) (name : string) : res (string * prop) :=
  match col_arr (col_values name elts) with
  | Err e => Err e
  | Ok pv => Ok (name, mkprop pv (missing_arr (col_missing name elts)))
  end.
Definition dict_props_to_arr (elts : list attrs) : res props := mapM (prop_of elts) (keys_of elts).

Definition wgraph_of (g : graph) : res wgraph :=
  let eo := edges_out g in
  match ids_arr (map fst (g_nodes g)) with
  | Err e => Err e
  | Ok na =>
      match dict_props_to_arr (map snd (g_nodes g)) with
      | Err e => Err e
      | Ok np =>
          match dict_props_to_arr (map snd eo) with
          | Err e => Err e
          | Ok ep => Ok (mkwg na (mkarr DU64 [length eo; 2%nat] (eflat (map fst eo))) (Some np) (Some ep))
          end
      end
  end.

(* ---------- the conversion up to the call of write_arrays ---------- *)
Definition metadata_of (nmd emd : fmetas) : smeta :=
  mkmd true (Some tm_axes) (map (fun kv => (fst kv, pm_of (snd kv))) nmd) (map (fun kv => (fst kv, pm_of (snd kv))) emd) 0.

Definition convert (d : tm) (dspots dtracks : bool) : res (wgraph * smeta * tmextra) :=
  match build_data d dspots dtracks with
  | Err e => Err e
  | Ok (g, seg) =>
      match extract_props_metadata d seg with
      | Err e => Err e
      | Ok (nmd0, emd0, lmd) =>
          let nmd := prune_md (map snd (g_nodes g)) nmd0 in
          let emd := prune_md (map snd (g_edges g)) emd0 in
          (* GeffMetadata(...): a property identifier has at least one character *)
          if existsb (fun kv => String.eqb (fst kv) "") (nmd ++ emd) then Err ValueError
          else
            match wgraph_of g with
            | Err e => Err e
            | Ok w => Ok (w, metadata_of nmd emd, extra_of d g lmd)
            end
      end
  end.

(* ---------- from_trackmate_xml_to_geff on the target tree ---------- *)
Open Scope m_scope.
Definition from_trackmate (d : tm) (dspots dtracks overwrite : bool) : M unit :=
  if negb (tm_exists d) then fail FileNotFoundError
  else
    do ex <- check_for_geff KPath;
    (if ex then (if overwrite then delete_geff KPath else fail FileExistsError) else ret tt) ;;
    do c <- lift (convert d dspots dtracks);
    write_arrays KPath (fst (fst c)) (snd (fst c)) true false.
Close Scope m_scope.

(* ---------- validate_data on what read_to_memory returns: graph and lineage parts ---------- *)
Fixpoint pairs_of (l : list Z) : list edge :=
  match l with
  | a :: b :: r => (a, b) :: pairs_of r
  | _ => []
  end.
Definition bools_of (a : arr) : list bool := map (fun z => negb (z =? 0)) (a_flat a).

(* (node id, lineage id) of the nodes whose lineage id is not flagged missing *)
Definition annotated (ids : list Z) (p : prop) : option nlabels :=
  match p_vals p with
  | PFixed a =>
      let rows := combine ids (a_flat a) in
      Some (match p_missing p with None => rows | Some m => keep_present (bools_of m) rows end)
  | PVlen _ => None
  end.

Definition graph_ok (g : mgraph) : bool :=
  match graph_check (md_directed (g_md g)) (a_flat (g_nids g)) (pairs_of (a_flat (g_eids g))) with
  | None => true
  | Some _ => false
  end.
(* config.lineage and "lineage" in meta.track_node_props *)
Definition lineage_ok (g : mgraph) (key : option string) : res bool :=
  match key with
  | None => Ok true
  | Some k =>
      match alookup k (g_nprops g) with
      | None => Err KeyError
      | Some p =>
          match annotated (a_flat (g_nids g)) p with
          | None => Err OtherExn
          | Some NL => Ok (match invalid_lineages (pairs_of (a_flat (g_eids g))) NL with [] => true | _ => false end)
          end
      end
  end.
