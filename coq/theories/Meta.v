(* Meta.v -- model of the geff metadata objects (geff_spec/_schema.py, _axis.py,
   _prop_metadata.py) and of the helpers of geff_spec/utils.py that rebuild metadata:
   validating constructors (keyword construction, model_validate of a dict, JSON and
   zarr-attribute parsing all run the same pydantic validators), top-level field
   assignment under validate_assignment=True (as repaired: a rejected assignment is
   rolled back), copies, update_metadata_axes, create_or_update_metadata,
   add_or_update_props_metadata, axes_from_lists.

   Input values are JSON-like python values [jv]; pydantic's lax coercions are modelled
   for the classes of values the correspondence generates (see harness/c07.py ASSUMPTIONS).
   Floats: finite values are scaled integers (value * 2^10), plus the three non-finite ones.
   Exceptions: pydantic.ValidationError is a ValueError.  Model only, no proofs. *)
From Geff Require Import Base.
From Geff.Gen Require Import Consts.
Open Scope string_scope.
Open Scope Z_scope.
Open Scope list_scope.

(* ------------------------------------------------------------------ values *)
Inductive fl := Fin (z : Z) | PInf | NInf | NaN.

Definition FSCALE : Z := 1024.

(* python float comparisons *)
Definition fl_gt (a b : fl) : bool :=
  match a, b with
  | NaN, _ | _, NaN => false
  | Fin x, Fin y => y <? x
  | PInf, PInf => false
  | PInf, _ => true
  | NInf, _ => false
  | Fin _, NInf => true
  | Fin _, PInf => false
  end.
Definition fl_le (a b : fl) : bool :=
  match a, b with
  | NaN, _ | _, NaN => false
  | Fin x, Fin y => x <=? y
  | NInf, _ => true
  | _, PInf => true
  | PInf, _ => false
  | Fin _, NInf => false
  end.
Definition fl_isnan (a : fl) : bool := match a with NaN => true | _ => false end.
Definition fl_eqb (a b : fl) : bool :=
  match a, b with
  | Fin x, Fin y => x =? y
  | PInf, PInf | NInf, NInf | NaN, NaN => true   (* structural: used to compare dumps only *)
  | _, _ => false
  end.

Inductive jv :=
| JNull
| JBool (b : bool)
| JInt (z : Z)
| JFlt (f : fl)
| JStr (s : string)
| JList (l : list jv)
| JObj (kvs : list (string * jv)).

Fixpoint jv_eqb (a b : jv) {struct a} : bool :=
  match a, b with
  | JNull, JNull => true
  | JBool x, JBool y => Bool.eqb x y
  | JInt x, JInt y => x =? y
  | JFlt x, JFlt y => fl_eqb x y
  | JStr x, JStr y => String.eqb x y
  | JList l, JList m =>
      (fix go (l m : list jv) {struct l} : bool :=
         match l, m with
         | [], [] => true
         | x :: r, y :: s => jv_eqb x y && go r s
         | _, _ => false
         end) l m
  | JObj l, JObj m =>
      (fix go (l m : list (string * jv)) {struct l} : bool :=
         match l, m with
         | [], [] => true
         | (k, x) :: r, (k', y) :: s => String.eqb k k' && jv_eqb x y && go r s
         | _, _ => false
         end) l m
  | _, _ => false
  end.

(* dict lookup (python dict keys are unique; the first binding is taken) *)
Fixpoint jget (k : string) (kvs : list (string * jv)) : option jv :=
  match kvs with
  | [] => None
  | (k', v) :: r => if String.eqb k k' then Some v else jget k r
  end.

(* ------------------------------------------------------------------ records *)
Record axis := mkAxis {
  ax_name : string; ax_type : option string; ax_unit : option string;
  ax_min : option fl; ax_max : option fl; ax_scale : option fl;
  ax_scaled_unit : option string; ax_offset : option fl }.

Record prop_meta := mkPM {
  pm_identifier : string; pm_dtype : string; pm_varlength : bool;
  pm_unit : option string; pm_name : option string; pm_description : option string }.

Record related := mkRO { ro_type : string; ro_path : string; ro_label_prop : option string }.

Record hints := mkDH { dh_horizontal : string; dh_vertical : string;
                       dh_depth : option string; dh_time : option string }.

Definition pmdict := list (string * prop_meta).     (* dict in insertion order *)

Record metadata := mkMD {
  md_version : string; md_directed : bool; md_axes : option (list axis);
  md_node_props : pmdict; md_edge_props : pmdict;
  md_sphere : option string; md_ellipsoid : option string;
  md_track : option (list (string * string));
  md_related : option (list related); md_hints : option hints;
  md_extra : list (string * jv) }.

(* ------------------------------------------------------------------ pydantic field validators (lax mode) *)
Definition verr {A} : res A := Err ValueError.

Definition v_str (v : jv) : res string := match v with JStr s => Ok s | _ => verr end.

Definition v_opt {A} (f : jv -> res A) (v : option jv) : res (option A) :=
  match v with
  | None | Some JNull => Ok None
  | Some x => rmap Some (f x)
  end.

Definition v_req {A} (f : jv -> res A) (v : option jv) : res A :=
  match v with None => verr | Some x => f x end.

Definition v_default {A} (d : A) (f : jv -> res A) (v : option jv) : res A :=
  match v with None => Ok d | Some x => f x end.

(* float field: ints and bools are coerced; strings are generated non-numeric only *)
Definition v_float (v : jv) : res fl :=
  match v with
  | JInt z => Ok (Fin (z * FSCALE))
  | JFlt f => Ok f
  | JBool b => Ok (Fin (if b then FSCALE else 0))
  | _ => verr
  end.

Definition bool_true_strs : list string := ["1"; "true"; "t"; "yes"; "y"; "on"].
Definition bool_false_strs : list string := ["0"; "false"; "f"; "no"; "n"; "off"].

(* pydantic-core compares the string with these spellings ignoring ASCII case
   (str::eq_ignore_ascii_case): "TRUE", "Yes", "oN" are accepted, " yes", "1.0", full-width
   letters are not; an int must be 0 or 1, a float 0.0 (also -0.0) or 1.0 *)
Definition lower_ascii (c : ascii) : ascii :=
  let n := nat_of_ascii c in
  if (Nat.leb 65 n && Nat.leb n 90)%nat then ascii_of_nat (n + 32) else c.
Fixpoint lower (s : string) : string :=
  match s with
  | EmptyString => EmptyString
  | String c r => String (lower_ascii c) (lower r)
  end.

Definition v_bool (v : jv) : res bool :=
  match v with
  | JBool b => Ok b
  | JInt z => if z =? 0 then Ok false else if z =? 1 then Ok true else verr
  | JFlt (Fin z) => if z =? 0 then Ok false else if z =? FSCALE then Ok true else verr
  | JStr s => if smem (lower s) bool_true_strs then Ok true
              else if smem (lower s) bool_false_strs then Ok false else verr
  | _ => verr
  end.

Definition v_literal (allowed : list string) (v : jv) : res string :=
  match v with JStr s => if smem s allowed then Ok s else verr | _ => verr end.

Definition v_str_min1 (v : jv) : res string :=
  match v with JStr s => if String.eqb s "" then verr else Ok s | _ => verr end.

Definition v_list {A} (f : jv -> res A) (v : jv) : res (list A) :=
  match v with JList l => mapM f l | _ => verr end.

Definition v_dict {A} (fk : string -> res string) (f : jv -> res A) (v : jv) : res (list (string * A)) :=
  match v with
  | JObj kvs => mapM (fun kv => match fk (fst kv) with
                                | Err e => Err e
                                | Ok k => match f (snd kv) with Err e => Err e | Ok x => Ok (k, x) end
                                end) kvs
  | _ => verr
  end.

(* ------------------------------------------------------------------ version pattern *)
(* pydantic's `pattern=` is a search; the pattern starts with ^ and has no $, and everything
   after  ^\d+\.\d+  is optional: the field accepts exactly the strings with a prefix
   digits '.' digit (MetaLemmas.version_ok_iff proves this against the regular expression). *)
Definition is_digit (c : ascii) : bool :=
  let n := nat_of_ascii c in (Nat.leb 48 n && Nat.leb n 57)%nat.
Definition is_alnum (c : ascii) : bool :=
  let n := nat_of_ascii c in
  ((Nat.leb 48 n && Nat.leb n 57) || (Nat.leb 65 n && Nat.leb n 90) || (Nat.leb 97 n && Nat.leb n 122))%nat.

Fixpoint skip_digits (s : string) : string :=
  match s with
  | String c r => if is_digit c then skip_digits r else s
  | EmptyString => s
  end.

Definition version_ok (s : string) : bool :=
  match s with
  | String c r =>
      is_digit c &&
      match skip_digits r with
      | String dot (String d _) => Ascii.eqb dot "."%char && is_digit d
      | _ => false
      end
  | EmptyString => false
  end.

Definition v_version (v : jv) : res string :=
  match v with JStr s => if version_ok s then Ok s else verr | _ => verr end.

(* ------------------------------------------------------------------ Axis *)
Definition truthy (s : option string) : bool :=
  match s with Some x => negb (String.eqb x "") | None => false end.
Definition is_none {A} (o : option A) : bool := match o with None => true | Some _ => false end.

(* Axis._validate_model (mode="after"); unit checks only warn *)
Definition axis_after (a : axis) : res axis :=
  if negb (Bool.eqb (is_none (ax_min a)) (is_none (ax_max a))) then verr else
  match ax_min a, ax_max a with
  | Some lo, Some hi =>
      if fl_gt lo hi then verr                        (* false when either bound is NaN *)
      else if truthy (ax_scaled_unit a) && is_none (ax_scale a) then verr else Ok a
  | _, _ => if truthy (ax_scaled_unit a) && is_none (ax_scale a) then verr else Ok a
  end.

Definition axis_fields (kvs : list (string * jv)) : res axis :=
  (let! name := v_req v_str (jget "name" kvs) in
   let! type := v_opt (v_literal valid_axis_types) (jget "type" kvs) in
   let! unit := v_opt v_str (jget "unit" kvs) in
   let! lo := v_opt v_float (jget "min" kvs) in
   let! hi := v_opt v_float (jget "max" kvs) in
   let! scale := v_opt v_float (jget "scale" kvs) in
   let! sunit := v_opt v_str (jget "scaled_unit" kvs) in
   let! offset := v_opt v_float (jget "offset" kvs) in
   Ok (mkAxis name type unit lo hi scale sunit offset))%res.

Definition axis_of_jv (v : jv) : res axis :=
  match v with
  | JObj kvs => rbind (axis_fields kvs) axis_after
  | _ => verr
  end.

(* ------------------------------------------------------------------ PropMetadata *)
(* np.dtype(value).name for the strings numpy understands (finite table, tied by the
   correspondence); np.str_ subtypes are reported as "str".  None: numpy raises TypeError. *)
Definition np_names : list (string * string) :=
  [("bool","bool"); ("?","bool"); ("b1","bool"); ("bool_","bool");
   ("int8","int8"); ("i1","int8"); ("b","int8"); ("byte","int8");
   ("int16","int16"); ("i2","int16"); ("<i2","int16"); ("short","int16");
   ("int32","int32"); ("i4","int32"); ("<i4","int32"); (">i4","int32"); ("intc","int32");
   ("int64","int64"); ("i8","int64"); ("<i8","int64"); ("int","int64"); ("int_","int64"); ("intp","int64"); ("longlong","int64");
   ("uint8","uint8"); ("u1","uint8"); ("B","uint8"); ("ubyte","uint8");
   ("uint16","uint16"); ("u2","uint16"); ("ushort","uint16");
   ("uint32","uint32"); ("u4","uint32"); ("uintc","uint32");
   ("uint64","uint64"); ("u8","uint64"); ("uint","uint64"); (">u8","uint64");
   ("float16","float16"); ("f2","float16"); ("e","float16"); ("half","float16");
   ("float32","float32"); ("f4","float32"); ("<f4","float32"); ("single","float32");
   ("float64","float64"); ("f8","float64"); ("float","float64"); ("double","float64"); ("d","float64");
   ("float128","float128"); ("longdouble","float128");
   ("complex64","complex64"); ("complex128","complex128"); ("c16","complex128");
   ("str","str"); ("U","str"); ("<U5","str"); ("U12","str"); ("str_","str"); ("unicode","str");
   ("bytes","bytes"); ("S","bytes"); ("bytes_","bytes"); ("S5","bytes40"); ("c","bytes8");
   ("object","object"); ("O","object");
   ("V","void"); ("void","void"); ("i4,f8","void96");
   ("datetime64[ns]","datetime64[ns]"); ("m8","timedelta64"); ("M8","datetime64")].

Fixpoint assoc (k : string) (l : list (string * string)) : option string :=
  match l with
  | [] => None
  | (k', v) :: r => if String.eqb k k' then Some v else assoc k r
  end.

(* ---- numpy's reading of a dtype STRING, as far as it can end in one of the allowed names ----
   (numpy/_core/src/multiarray/descriptor.c, _convert_from_str):  an optional byte-order
   character < > = | ; then either ONE type character, or a kind character followed by a size
   that C's strtol reads from the whole rest (optional blanks, optional sign, decimal digits),
   or -- the whole string, byte-order character included -- a name of numpy's type dictionary.
   Everything else numpy understands (sub-arrays, comma-separated fields, datetimes, sizes
   that give float16 / complex / void / bytesN ...) has a name outside VALID_DTYPES and is
   rejected by _convert_dtype exactly like a string numpy does not understand, so only the
   spellings of the allowed names matter.  Strings that numpy hands to its comma-string parser
   (a comma, a leading digit, a leading "()") and control characters are outside this
   description: dtype_in_scope below. *)
Definition is_endian (c : ascii) : bool :=
  (Ascii.eqb c "<" || Ascii.eqb c ">" || Ascii.eqb c "=" || Ascii.eqb c "|")%char.
Definition strip_endian (s : string) : string :=
  match s with String c r => if is_endian c then r else s | EmptyString => s end.

(* C isspace: blank, \t \n \v \f \r *)
Definition is_cspace (c : ascii) : bool :=
  let n := nat_of_ascii c in (Nat.eqb n 32 || (Nat.leb 9 n && Nat.leb n 13))%nat.
Fixpoint skip_cspaces (s : string) : string :=
  match s with
  | String c r => if is_cspace c then skip_cspaces r else s
  | EmptyString => s
  end.
Fixpoint digits_value (acc : Z) (s : string) : option Z :=
  match s with
  | EmptyString => Some acc
  | String c r => if is_digit c then digits_value (acc * 10 + Z.of_nat (nat_of_ascii c - 48)) r else None
  end.
(* strtol(s, &end, 10) with *end == 0, errno == 0 and at least one digit: the value *)
Definition strtol_all (s : string) : option Z :=
  let s1 := skip_cspaces s in
  let neg_rest := match s1 with
                  | String c r => if Ascii.eqb c "+"%char then (false, r)
                                  else if Ascii.eqb c "-"%char then (true, r) else (false, s1)
                  | EmptyString => (false, s1)
                  end in
  match snd neg_rest with
  | EmptyString => None
  | ds => match digits_value 0 ds with
          | None => None
          | Some v => let v' := if fst neg_rest then - v else v in
                      if (-9223372036854775808 <=? v') && (v' <=? 9223372036854775807) then Some v' else None
          end
  end.

(* one type character *)
Definition np_single : list (string * string) :=
  [("?","bool"); ("b","int8"); ("h","int16"); ("i","int32"); ("l","int64"); ("q","int64"); ("p","int64"); ("n","int64");
   ("B","uint8"); ("H","uint16"); ("I","uint32"); ("L","uint64"); ("Q","uint64"); ("P","uint64"); ("N","uint64");
   ("f","float32"); ("d","float64"); ("U","str"); ("S","bytes")].
(* kind character + size in bytes (U: in characters, at most (2^31-1)/4; S: only the unsized S0 is called "bytes") *)
Definition np_sized (k : ascii) (v : Z) : option string :=
  if Ascii.eqb k "S"%char then (if v =? 0 then Some "bytes" else None)
  else if Ascii.eqb k "U"%char then (if (0 <=? v) && (v <=? 536870911) then Some "str" else None)
  else if Ascii.eqb k "i"%char then
    (if v =? 1 then Some "int8" else if v =? 2 then Some "int16" else if v =? 4 then Some "int32"
     else if v =? 8 then Some "int64" else None)
  else if Ascii.eqb k "u"%char then
    (if v =? 1 then Some "uint8" else if v =? 2 then Some "uint16" else if v =? 4 then Some "uint32"
     else if v =? 8 then Some "uint64" else None)
  else if Ascii.eqb k "f"%char then (if v =? 4 then Some "float32" else if v =? 8 then Some "float64" else None)
  else if Ascii.eqb k "b"%char then (if v =? 1 then Some "bool" else None)
  else None.
(* the names of numpy's type dictionary (np.sctypeDict) whose dtype carries an allowed name *)
Definition np_dict : list (string * string) :=
  [("bool","bool"); ("bool_","bool"); ("byte","int8"); ("bytes","bytes"); ("bytes_","bytes"); ("double","float64");
   ("float","float64"); ("float32","float32"); ("float64","float64"); ("int","int64"); ("int16","int16");
   ("int32","int32"); ("int64","int64"); ("int8","int8"); ("int_","int64"); ("intc","int32"); ("intp","int64");
   ("long","int64"); ("longlong","int64"); ("short","int16"); ("single","float32"); ("str","str"); ("str_","str");
   ("ubyte","uint8"); ("uint","uint64"); ("uint16","uint16"); ("uint32","uint32"); ("uint64","uint64"); ("uint8","uint8");
   ("uintc","uint32"); ("uintp","uint64"); ("ulong","uint64"); ("ulonglong","uint64"); ("unicode","str"); ("ushort","uint16")].

Definition np_valid_name (s : string) : option string :=
  let stage1 :=
    match strip_endian s with
    | EmptyString => None
    | String c EmptyString => assoc (String c EmptyString) np_single
    | String k rest => match strtol_all rest with Some v => np_sized k v | None => None end
    end in
  match stage1 with Some n => Some n | None => assoc s np_dict end.

(* the strings on which np_valid_name is claimed (and tied by the correspondence) to be numpy:
   no control character, none of , ( ) and no digit in first place (after a byte-order character) *)
Definition dtype_char_in_scope (c : ascii) : bool :=
  let n := nat_of_ascii c in
  (Nat.leb 32 n && negb (Nat.eqb n 127))%nat
  && negb (Ascii.eqb c ","%char || Ascii.eqb c "("%char || Ascii.eqb c ")"%char).
Fixpoint all_chars (f : ascii -> bool) (s : string) : bool :=
  match s with EmptyString => true | String c r => f c && all_chars f r end.
Definition dtype_in_scope (s : string) : bool :=
  all_chars dtype_char_in_scope s
  && match (match s with
            | String c (String d r) => if is_endian c then String d r else s
            | _ => s
            end) with
     | String c _ => negb (is_digit c)
     | EmptyString => true
     end.

(* the finite table np_names above is kept for the names that are NOT allowed (their spelling
   only documents why they are rejected); on allowed names it agrees with np_valid_name
   (MetaLemmas.np_names_consistent) *)
Definition np_dtype_name (v : jv) : option string :=
  match v with
  | JStr s => match np_valid_name s with Some n => Some n | None => assoc s np_names end
  | JList [] | JObj [] => Some "void"
  | _ => None
  end.

(* PropMetadata._convert_dtype (mode="before") followed by the str/MinLen(1) field validation *)
Definition convert_dtype (v : jv) : res string :=
  match v with
  | JNull => verr
  | _ => match np_dtype_name v with
         | None => verr                                   (* TypeError re-raised as ValueError *)
         | Some name => if smem name valid_dtypes then v_str_min1 (JStr name) else verr
         end
  end.

Definition propmeta_of_jv (v : jv) : res prop_meta :=
  match v with
  | JObj kvs =>
      (let! ident := v_req v_str_min1 (jget "identifier" kvs) in
       let! dt := v_req convert_dtype (jget "dtype" kvs) in
       let! vl := v_default false v_bool (jget "varlength" kvs) in
       let! unit := v_opt v_str (jget "unit" kvs) in
       let! name := v_opt v_str (jget "name" kvs) in
       let! descr := v_opt v_str (jget "description" kvs) in
       Ok (mkPM ident dt vl unit name descr))%res
  | _ => verr
  end.

(* ------------------------------------------------------------------ RelatedObject, DisplayHint *)
Definition related_after (r : related) : res related :=
  if negb (String.eqb (ro_type r) "labels") && negb (is_none (ro_label_prop r)) then verr else Ok r.

Definition related_of_jv (v : jv) : res related :=
  match v with
  | JObj kvs =>
      (let! ty := v_req v_str (jget "type" kvs) in
       let! path := v_req v_str (jget "path" kvs) in
       let! lp := v_opt v_str (jget "label_prop" kvs) in
       related_after (mkRO ty path lp))%res
  | _ => verr
  end.

Definition hints_of_jv (v : jv) : res hints :=
  match v with
  | JObj kvs =>
      (let! h := v_req v_str (jget "display_horizontal" kvs) in
       let! w := v_req v_str (jget "display_vertical" kvs) in
       let! d := v_opt v_str (jget "display_depth" kvs) in
       let! t := v_opt v_str (jget "display_time" kvs) in
       Ok (mkDH h w d t))%res
  | _ => verr
  end.

(* ------------------------------------------------------------------ GeffMetadata *)
Definition track_keys : list string := ["lineage"; "tracklet"].

Definition v_track (v : jv) : res (list (string * string)) :=
  v_dict (fun k => if smem k track_keys then Ok k else verr) v_str v.
Definition v_pmdict (v : jv) : res pmdict := v_dict (fun k => Ok k) propmeta_of_jv v.
Definition v_extra (v : jv) : res (list (string * jv)) :=
  match v with JObj kvs => Ok kvs | _ => verr end.

(* len(names) != len(set(names)) *)
Fixpoint nodupb (l : list string) : bool :=
  match l with [] => true | x :: r => negb (smem x r) && nodupb r end.

Definition axis_names (m : metadata) : list string :=
  match md_axes m with None => [] | Some l => map ax_name l end.

Definition hint_names (h : hints) : list string :=
  dh_horizontal h :: dh_vertical h ::
  (match dh_time h with Some t => [t] | None => [] end) ++
  (match dh_depth h with Some d => [d] | None => [] end).

Definition keys_match (d : pmdict) : bool :=
  forallb (fun kv => String.eqb (fst kv) (pm_identifier (snd kv))) d.

(* GeffMetadata._validate_model_after, as repaired: display hints are checked against the
   declared axes also when no axes are declared *)
Definition md_after_ok (m : metadata) : bool :=
  nodupb (axis_names m)
  && match md_hints m with
     | None => true
     | Some h => forallb (fun n => smem n (axis_names m)) (hint_names h)
     end
  && keys_match (md_node_props m)
  && keys_match (md_edge_props m).

Definition md_after (m : metadata) : res metadata := if md_after_ok m then Ok m else verr.

(* field-by-field validation of the keyword arguments / parsed dict.
   gv = GEFF_VERSION, the (unvalidated) default of geff_version *)
Definition md_fields (gv : string) (kvs : list (string * jv)) : res metadata :=
  (let! ver := v_default gv v_version (jget "geff_version" kvs) in
   let! dir := v_req v_bool (jget "directed" kvs) in
   let! axes := v_opt (v_list axis_of_jv) (jget "axes" kvs) in
   let! np := v_req v_pmdict (jget "node_props_metadata" kvs) in
   let! ep := v_req v_pmdict (jget "edge_props_metadata" kvs) in
   let! sph := v_opt v_str (jget "sphere" kvs) in
   let! ell := v_opt v_str (jget "ellipsoid" kvs) in
   let! trk := v_opt v_track (jget "track_node_props" kvs) in
   let! rel := v_opt (v_list related_of_jv) (jget "related_objects" kvs) in
   let! dh := v_opt hints_of_jv (jget "display_hints" kvs) in
   let! extra := v_default [] v_extra (jget "extra" kvs) in
   Ok (mkMD ver dir axes np ep sph ell trk rel dh extra))%res.

(* GeffMetadata(kwargs), GeffMetadata.model_validate(dict), model_validate_json(text),
   GeffMetadata.read(store) on the "geff" attribute *)
Definition construct (gv : string) (v : jv) : res metadata :=
  match v with
  | JObj kvs => rbind (md_fields gv kvs) md_after
  | _ => verr
  end.

(* ------------------------------------------------------------------ assignment *)
Inductive field := FVersion | FDirected | FAxes | FNodeProps | FEdgeProps | FSphere | FEllipsoid
                 | FTrack | FRelated | FHints | FExtra | FUnknown.

(* validation of the assigned value by the field's validator, then the store *)
Definition set_field (m : metadata) (f : field) (v : jv) : res metadata :=
  match f with
  | FVersion => rmap (fun x => mkMD x (md_directed m) (md_axes m) (md_node_props m) (md_edge_props m) (md_sphere m)
                                    (md_ellipsoid m) (md_track m) (md_related m) (md_hints m) (md_extra m)) (v_version v)
  | FDirected => rmap (fun x => mkMD (md_version m) x (md_axes m) (md_node_props m) (md_edge_props m) (md_sphere m)
                                     (md_ellipsoid m) (md_track m) (md_related m) (md_hints m) (md_extra m)) (v_bool v)
  | FAxes => rmap (fun x => mkMD (md_version m) (md_directed m) x (md_node_props m) (md_edge_props m) (md_sphere m)
                                 (md_ellipsoid m) (md_track m) (md_related m) (md_hints m) (md_extra m))
                  (v_opt (v_list axis_of_jv) (Some v))
  | FNodeProps => rmap (fun x => mkMD (md_version m) (md_directed m) (md_axes m) x (md_edge_props m) (md_sphere m)
                                      (md_ellipsoid m) (md_track m) (md_related m) (md_hints m) (md_extra m)) (v_pmdict v)
  | FEdgeProps => rmap (fun x => mkMD (md_version m) (md_directed m) (md_axes m) (md_node_props m) x (md_sphere m)
                                      (md_ellipsoid m) (md_track m) (md_related m) (md_hints m) (md_extra m)) (v_pmdict v)
  | FSphere => rmap (fun x => mkMD (md_version m) (md_directed m) (md_axes m) (md_node_props m) (md_edge_props m) x
                                   (md_ellipsoid m) (md_track m) (md_related m) (md_hints m) (md_extra m))
                    (v_opt v_str (Some v))
  | FEllipsoid => rmap (fun x => mkMD (md_version m) (md_directed m) (md_axes m) (md_node_props m) (md_edge_props m)
                                      (md_sphere m) x (md_track m) (md_related m) (md_hints m) (md_extra m))
                       (v_opt v_str (Some v))
  | FTrack => rmap (fun x => mkMD (md_version m) (md_directed m) (md_axes m) (md_node_props m) (md_edge_props m)
                                  (md_sphere m) (md_ellipsoid m) x (md_related m) (md_hints m) (md_extra m))
                   (v_opt v_track (Some v))
  | FRelated => rmap (fun x => mkMD (md_version m) (md_directed m) (md_axes m) (md_node_props m) (md_edge_props m)
                                    (md_sphere m) (md_ellipsoid m) (md_track m) x (md_hints m) (md_extra m))
                     (v_opt (v_list related_of_jv) (Some v))
  | FHints => rmap (fun x => mkMD (md_version m) (md_directed m) (md_axes m) (md_node_props m) (md_edge_props m)
                                  (md_sphere m) (md_ellipsoid m) (md_track m) (md_related m) x (md_extra m))
                   (v_opt hints_of_jv (Some v))
  | FExtra => rmap (fun x => mkMD (md_version m) (md_directed m) (md_axes m) (md_node_props m) (md_edge_props m)
                                  (md_sphere m) (md_ellipsoid m) (md_track m) (md_related m) (md_hints m) x) (v_extra v)
  | FUnknown => verr                                  (* no such attribute *)
  end.

(* GeffMetadata.__setattr__: field validation, store, "after" validator; on any validation
   error the object is left as it was.  Returns the object after the statement and the outcome. *)
Definition assign (m : metadata) (f : field) (v : jv) : metadata * res unit :=
  match set_field m f v with
  | Err e => (m, Err e)
  | Ok m' => match md_after m' with
             | Ok _ => (m', Ok tt)
             | Err e => (m, Err e)
             end
  end.

(* the same as a function to the new object (used where python rebinds a fresh copy) *)
Definition assign_res (m : metadata) (f : field) (v : jv) : res metadata :=
  let r := assign m f v in match snd r with Ok _ => Ok (fst r) | Err e => Err e end.

(* ------------------------------------------------------------------ utils.py *)
(* serialising a validated object back to the value pydantic sees when an instance is passed *)
Definition jv_of_optstr (o : option string) : jv := match o with Some s => JStr s | None => JNull end.
Definition jv_of_optfl (o : option fl) : jv := match o with Some f => JFlt f | None => JNull end.

Record axlists := mkAL {
  al_names : option (list jv); al_units : option (list jv); al_types : option (list jv);
  al_scales : option (list jv); al_scaled_units : option (list jv); al_offset : option (list jv);
  al_roi_min : option (list jv); al_roi_max : option (list jv) }.

Definition len_mismatch (l : option (list jv)) (n : nat) : bool :=
  match l with Some x => negb (Nat.eqb (List.length x) n) | None => false end.

(* xs[i] if xs is not None else None; IndexError when xs is too short *)
Definition pick (l : option (list jv)) (i : nat) : res jv :=
  match l with
  | None => Ok JNull
  | Some x => match nth_error x i with Some v => Ok v | None => Err IndexError end
  end.

Definition axis_at (ls : axlists) (i : nat) (name : jv) : res axis :=
  (let! ty := pick (al_types ls) i in
   let! un := pick (al_units ls) i in
   let! sc := pick (al_scales ls) i in
   let! su := pick (al_scaled_units ls) i in
   let! off := pick (al_offset ls) i in
   let! lo := pick (al_roi_min ls) i in
   let! hi := pick (al_roi_max ls) i in
   axis_of_jv (JObj [("name", name); ("type", ty); ("unit", un); ("scale", sc); ("scaled_unit", su);
                     ("offset", off); ("min", lo); ("max", hi)]))%res.

Fixpoint axes_loop (ls : axlists) (i : nat) (names : list jv) : res (list axis) :=
  match names with
  | [] => Ok []
  | n :: r => match axis_at ls i n with
              | Err e => Err e
              | Ok a => match axes_loop ls (S i) r with Err e => Err e | Ok l => Ok (a :: l) end
              end
  end.

(* the comparison of len(axis_offset) with itself in the code never fails *)
Definition axes_from_lists (ls : axlists) : res (list axis) :=
  match al_names ls with
  | None => Ok []
  | Some names =>
      let n := List.length names in
      if len_mismatch (al_units ls) n then verr
      else if len_mismatch (al_types ls) n then verr
      else if len_mismatch (al_scales ls) n then verr
      else if len_mismatch (al_scaled_units ls) n then verr
      else axes_loop ls 0 names
  end.

(* assigning a list of Axis instances: instances are not re-validated, only the list and the model *)
Definition set_axes_objs (m : metadata) (l : list axis) : metadata :=
  mkMD (md_version m) (md_directed m) (Some l) (md_node_props m) (md_edge_props m) (md_sphere m)
       (md_ellipsoid m) (md_track m) (md_related m) (md_hints m) (md_extra m).

(* update_metadata_axes: model_copy, axes_from_lists without roi, assign; roi lists are not parameters *)
Definition update_metadata_axes (m : metadata) (ls : axlists) : res metadata :=
  match axes_from_lists (mkAL (al_names ls) (al_units ls) (al_types ls) (al_scales ls)
                              (al_scaled_units ls) (al_offset ls) None None) with
  | Err e => Err e
  | Ok l => rbind (Ok (set_axes_objs m l)) md_after
  end.

(* create_or_update_metadata(metadata, is_directed, axes) *)
Definition create_or_update_metadata (gv : string) (m : option metadata) (directed axes : jv) : res metadata :=
  match m with
  | Some m0 =>
      (let! m1 := assign_res m0 FVersion (JStr gv) in
       let! m2 := assign_res m1 FDirected directed in
       match axes with
       | JNull => Ok m2
       | _ => assign_res m2 FAxes axes
       end)%res
  | None =>
      construct gv (JObj [("geff_version", JStr gv); ("directed", directed); ("axes", axes);
                          ("node_props_metadata", JObj []); ("edge_props_metadata", JObj [])])
  end.

(* add_or_update_props_metadata(metadata, props_md, c_type)  (@validate_call) *)
Fixpoint pm_haskey (k : string) (d : pmdict) : bool :=
  match d with [] => false | (k', _) :: r => String.eqb k k' || pm_haskey k r end.

Definition pm_update_existing (d : pmdict) (p : prop_meta) : pmdict :=
  map (fun kv => if String.eqb (fst kv) (pm_identifier p)
                 then (fst kv, mkPM (pm_identifier (snd kv)) (pm_dtype p) (pm_varlength p)
                                    (pm_unit (snd kv)) (pm_name (snd kv)) (pm_description (snd kv)))
                 else kv) d.

(* md_dict[k] = p : replace in place or append *)
Fixpoint pm_set (d : pmdict) (k : string) (p : prop_meta) : pmdict :=
  match d with
  | [] => [(k, p)]
  | (k', q) :: r => if String.eqb k k' then (k', p) :: r else (k', q) :: pm_set r k p
  end.

(* the loop: (existing_props, md_dict); membership is tested against the keys of existing_props *)
Fixpoint props_loop (ex fresh : pmdict) (ps : list prop_meta) : pmdict * pmdict :=
  match ps with
  | [] => (ex, fresh)
  | p :: r => if pm_haskey (pm_identifier p) ex
              then props_loop (pm_update_existing ex p) fresh r
              else props_loop ex (pm_set fresh (pm_identifier p) p) r
  end.

(* existing_props.update(md_dict): md_dict keys are not keys of existing_props *)
Definition props_merge (ex : pmdict) (ps : list prop_meta) : pmdict :=
  let r := props_loop ex [] ps in fst r ++ snd r.

Definition add_or_update_props_metadata (m : metadata) (props ctype : jv) : res metadata :=
  (let! ps := v_list propmeta_of_jv props in
   let! ct := v_literal ["node"; "edge"] ctype in
   if String.eqb ct "node"
   then Ok (mkMD (md_version m) (md_directed m) (md_axes m) (props_merge (md_node_props m) ps) (md_edge_props m)
                 (md_sphere m) (md_ellipsoid m) (md_track m) (md_related m) (md_hints m) (md_extra m))
   else Ok (mkMD (md_version m) (md_directed m) (md_axes m) (md_node_props m) (props_merge (md_edge_props m) ps)
                 (md_sphere m) (md_ellipsoid m) (md_track m) (md_related m) (md_hints m) (md_extra m)))%res.

(* ------------------------------------------------------------------ operation sequences *)
(* a pool of live GeffMetadata objects; successful constructions / copies / helper calls
   append their result, assignments change one object in place *)
Inductive op :=
| OConstruct (kw : jv)
| OAssign (i : nat) (f : field) (v : jv)
| OCopy (i : nat)                                        (* deepcopy, model_copy(), copy.copy *)
| OUpdateAxes (i : nat) (ls : axlists)
| OCreateOrUpdate (i : option nat) (directed axes : jv)
| OAddProps (i : nat) (props ctype : jv)
| OAxesFromLists (ls : axlists).                         (* result is a list of Axis, not kept *)

Definition pool := list metadata.

Fixpoint pool_set (p : pool) (i : nat) (m : metadata) : pool :=
  match p, i with
  | [], _ => []
  | _ :: r, O => m :: r
  | x :: r, S j => x :: pool_set r j m
  end.

Definition push (p : pool) (r : res metadata) : pool * res unit :=
  match r with Ok m => (p ++ [m], Ok tt) | Err e => (p, Err e) end.

Definition no_object {A} : res A := Err OtherExn.        (* the harness never names a missing object *)

Definition step (gv : string) (p : pool) (o : op) : pool * res unit :=
  match o with
  | OConstruct kw => push p (construct gv kw)
  | OAssign i f v =>
      match nth_error p i with
      | None => (p, no_object)
      | Some m => let r := assign m f v in (pool_set p i (fst r), snd r)
      end
  | OCopy i => match nth_error p i with None => (p, no_object) | Some m => push p (Ok m) end
  | OUpdateAxes i ls =>
      match nth_error p i with None => (p, no_object) | Some m => push p (update_metadata_axes m ls) end
  | OCreateOrUpdate None d a => push p (create_or_update_metadata gv None d a)
  | OCreateOrUpdate (Some i) d a =>
      match nth_error p i with
      | None => (p, no_object)
      | Some m => push p (create_or_update_metadata gv (Some m) d a)
      end
  | OAddProps i ps ct =>
      match nth_error p i with None => (p, no_object) | Some m => push p (add_or_update_props_metadata m ps ct) end
  | OAxesFromLists ls =>
      match axes_from_lists ls with Ok _ => (p, Ok tt) | Err e => (p, Err e) end
  end.

Fixpoint run (gv : string) (p : pool) (ops : list op) : pool :=
  match ops with
  | [] => p
  | o :: r => run gv (fst (step gv p o)) r
  end.

(* ------------------------------------------------------------------ structural equality of dumps *)
Definition optstr_eqb := option_eqb String.eqb.
Definition optfl_eqb := option_eqb fl_eqb.

Definition axis_eqb (a b : axis) : bool :=
  String.eqb (ax_name a) (ax_name b) && optstr_eqb (ax_type a) (ax_type b) && optstr_eqb (ax_unit a) (ax_unit b)
  && optfl_eqb (ax_min a) (ax_min b) && optfl_eqb (ax_max a) (ax_max b) && optfl_eqb (ax_scale a) (ax_scale b)
  && optstr_eqb (ax_scaled_unit a) (ax_scaled_unit b) && optfl_eqb (ax_offset a) (ax_offset b).

Definition pm_eqb (a b : prop_meta) : bool :=
  String.eqb (pm_identifier a) (pm_identifier b) && String.eqb (pm_dtype a) (pm_dtype b)
  && Bool.eqb (pm_varlength a) (pm_varlength b) && optstr_eqb (pm_unit a) (pm_unit b)
  && optstr_eqb (pm_name a) (pm_name b) && optstr_eqb (pm_description a) (pm_description b).

Definition pmdict_eqb : pmdict -> pmdict -> bool := list_eqb (prod_eqb String.eqb pm_eqb).

Definition related_eqb (a b : related) : bool :=
  String.eqb (ro_type a) (ro_type b) && String.eqb (ro_path a) (ro_path b)
  && optstr_eqb (ro_label_prop a) (ro_label_prop b).

Definition hints_eqb (a b : hints) : bool :=
  String.eqb (dh_horizontal a) (dh_horizontal b) && String.eqb (dh_vertical a) (dh_vertical b)
  && optstr_eqb (dh_depth a) (dh_depth b) && optstr_eqb (dh_time a) (dh_time b).

Definition md_eqb (a b : metadata) : bool :=
  String.eqb (md_version a) (md_version b) && Bool.eqb (md_directed a) (md_directed b)
  && option_eqb (list_eqb axis_eqb) (md_axes a) (md_axes b)
  && pmdict_eqb (md_node_props a) (md_node_props b) && pmdict_eqb (md_edge_props a) (md_edge_props b)
  && optstr_eqb (md_sphere a) (md_sphere b) && optstr_eqb (md_ellipsoid a) (md_ellipsoid b)
  && option_eqb (list_eqb (prod_eqb String.eqb String.eqb)) (md_track a) (md_track b)
  && option_eqb (list_eqb related_eqb) (md_related a) (md_related b)
  && option_eqb hints_eqb (md_hints a) (md_hints b)
  && jv_eqb (JObj (md_extra a)) (JObj (md_extra b)).
