(* Tracks.v -- model of geff.validate.tracks: validate_tracklets (as repaired:
   a tracklet may not run through a division / merge of the full graph, and
   single-node tracklets are subject to the maximality tests) and
   validate_lineages.  networkx primitives are modelled by their meaning:
   DiGraph collapses parallel edges : successor and predecessor sets,
   is_weakly_connected = undirected reachability (Reach.v).
   The cycle test of the code is not modelled: C13 quantifies over acyclic graphs. *)
From Geff Require Import Base GraphVal Reach.
Open Scope Z_scope.
Open Scope list_scope.

(* labelled nodes: (node id, label) in stored order *)
Definition nlabels := list (Z * Z).

Definition nodes_of (NL : nlabels) : list Z := map fst NL.
Fixpoint label_of (NL : nlabels) (u : Z) : option Z :=
  match NL with
  | [] => None
  | (n, l) :: r => if n =? u then Some l else label_of r u
  end.
(* dict keys in insertion order *)
Definition labels_of (NL : nlabels) : list Z := rev (dedup Z.eqb (rev (map snd NL))).
Definition class_of (NL : nlabels) (t : Z) : list Z := map fst (filter (fun p => snd p =? t) NL).

Definition succs (E : list (Z * Z)) (u : Z) : list Z :=
  dedup Z.eqb (map snd (filter (fun e => fst e =? u) E)).
Definition preds (E : list (Z * Z)) (v : Z) : list Z :=
  dedup Z.eqb (map fst (filter (fun e => snd e =? v) E)).
Definition outdeg E u : nat := List.length (succs E u).
Definition indeg E v : nat := List.length (preds E v).

Definition induced (E : list (Z * Z)) (T : list Z) : list (Z * Z) :=
  filter (fun e => zmem (fst e) T && zmem (snd e) T) E.

(* "path can extend backward / forward" tests of the code, at node u *)
Definition extend_back (E : list (Z * Z)) (u : Z) : bool :=
  match preds E u with [p] => Nat.eqb (outdeg E p) 1 | _ => false end.
Definition extend_fwd (E : list (Z * Z)) (u : Z) : bool :=
  match succs E u with [s] => Nat.eqb (indeg E s) 1 | _ => false end.

Definition connected (E : list (Z * Z)) (T : list Z) : bool :=
  match T with [] => true | r :: _ => forallb (fun x => memb x (reach E T r)) T end.

Definition check_class (E : list (Z * Z)) (T : list Z) : bool :=
  let SE := induced E T in
  forallb (fun u => Nat.leb (List.length (succs SE u)) 1 && Nat.leb (List.length (preds SE u)) 1) T
  && connected E T
  && forallb (fun e => Nat.eqb (outdeg E (fst e)) 1 && Nat.eqb (indeg E (snd e)) 1) SE
  && forallb (fun u => match preds SE u with [] => negb (extend_back E u) | _ => true end) T
  && forallb (fun u => match succs SE u with [] => negb (extend_fwd E u) | _ => true end) T.

(* ids of the invalid tracklets, in dict order; valid iff [] *)
Definition invalid_tracklets (E : list (Z * Z)) (NL : nlabels) : list Z :=
  filter (fun t => negb (check_class E (class_of NL t))) (labels_of NL).

(* ---------------- lineages ---------------- *)
Definition mentioned (E : list (Z * Z)) : list Z := flat_map (fun e => [fst e; snd e]) E.
Definition all_nodes (E : list (Z * Z)) (NL : nlabels) : list Z :=
  dedup Z.eqb (nodes_of NL ++ mentioned E).

Definition set_eqb (A B : list Z) : bool :=
  forallb (fun x => zmem x B) A && forallb (fun x => zmem x A) B.

Definition check_lineage (E : list (Z * Z)) (V T : list Z) : bool :=
  match T with [] => true | r :: _ => set_eqb T (reach E V r) end.

Definition invalid_lineages (E : list (Z * Z)) (NL : nlabels) : list Z :=
  filter (fun t => negb (check_lineage E (all_nodes E NL) (class_of NL t))) (labels_of NL).
